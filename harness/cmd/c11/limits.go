package main

import (
	"encoding/json"
	"fmt"
	"reflect"
	"sort"
	"strings"
	"time"

	"verif/harness/vlib"
	wb "verif/harness/wirebridge"
)

// Decoding under a byte limit (spec/wire/WireLimit.tla). A decoder of core reads through an io.LimitedReader; the
// remaining limit is part of its behaviour (length prefixes are checked against it). The model: a decoder with
// limit L accepts a valid encoding of S bytes iff S <= L. TLC prescribes, for every collection place of every
// schema line, the value that is minimal everywhere else and whose collection outweighs the rest of the message,
// its bytes, and a schedule of limits around S with verdicts; the real decoder is run under each limit.
// The same rule is applied to every generated value of direction B (limitSweep) with the schedule TLC prints.

type limitEntry struct {
	Limit  []int `json:"limit"` // four 16-bit words, most significant first
	Accept bool  `json:"accept"`
}

type limitCase struct {
	Type   string       `json:"type"`
	Place  string       `json:"place"`
	EK     string       `json:"ek"`
	ES     int          `json:"es"`
	N      int          `json:"n"`
	Size   int          `json:"size"`
	Rest   int          `json:"rest"`
	Value  any          `json:"value"`
	Bytes  []int        `json:"bytes"`
	Limits []limitEntry `json:"limits"`
}

type schedEntry struct {
	Mul    int64 `json:"mul"`
	Add    int64 `json:"add"`
	Accept bool  `json:"accept"`
}

type limitRun struct {
	res   *vlib.TLCResult
	err   error
	secs  float64
	done  chan struct{}
	sched []schedEntry
}

// the schedule of WireLimit!Schedule; the copy TLC prints must equal it (checked in limitCases), so the sweep over
// generated values can run before TLC has finished
var defaultSchedule = []schedEntry{{1, -1, false}, {1, 0, true}, {1, 1, true}, {1, 8, true}, {2, 64, true}}

func startLimitTLC(c *vlib.Ctx) *limitRun {
	lr := &limitRun{done: make(chan struct{})}
	go func() {
		t0 := time.Now()
		lr.res, lr.err = c.TLC(vlib.TLCOpts{SpecDirs: []string{"wire"}, Module: "WireLimit",
			ConfText: fmt.Sprintf("SPECIFICATION LSpec\nCONSTANT Depth = %d\nCHECK_DEADLOCK FALSE\n", c.Pick(4, 8)),
			Workers:  3, Timeout: 15 * time.Minute, Xss: "512m"})
		lr.secs = time.Since(t0).Seconds()
		close(lr.done)
	}()
	return lr
}

func wordsToInt64(ws []int) (int64, bool) {
	if len(ws) != 4 {
		return 0, false
	}
	var x uint64
	for _, w := range ws {
		if w < 0 || w > 65535 {
			return 0, false
		}
		x = x<<16 | uint64(w)
	}
	if x > 1<<63-1 {
		return 0, false
	}
	return int64(x), true
}

// underLimit runs the real decoder of t on b (a valid encoding) under the limit and compares with the model's verdict.
// place names the collection that dominates the value ("" for a generated value). It returns false after a violation.
func (k *checker) underLimit(t *wb.WireType, b []byte, limit int64, accept bool, place string, want any, extra map[string]any) bool {
	info := map[string]any{"bytes_hex": fmt.Sprintf("%x", b), "limit": limit, "size": len(b), "model_accepts": accept}
	for a, v := range extra {
		info[a] = v
	}
	cls := t.Name
	at := ""
	if place != "" {
		cls += ":" + place
		at = " (collection " + place + " outweighs the rest of the message)"
	}
	w, left, err, pan := t.SafeDecodeN(b, limit)
	if pan != nil {
		k.violation("decode-under-limit-panic:"+cls, fmt.Sprintf("%s: the decoder panics on a valid encoding of %d bytes under the byte limit %d%s: %v", t.Name, len(b), limit, at, pan), t, nil, info)
		return false
	}
	if !accept {
		if err == nil {
			k.violation("encoding-accepted-beyond-limit:"+cls, fmt.Sprintf("%s: a decoder limited to %d bytes accepts an encoding of %d bytes%s", t.Name, limit, len(b), at), t, nil, info)
			return false
		}
		return true
	}
	if err != nil || left != 0 {
		info["error"] = fmt.Sprint(err)
		info["unread"] = left
		k.violation("valid-encoding-refused-under-limit:"+cls, fmt.Sprintf("%s: a valid encoding of %d bytes is refused by a decoder whose byte limit is %d (slack %d)%s: err=%v unread=%d", t.Name, len(b), limit, limit-int64(len(b)), at, err, left), t, nil, info)
		return false
	}
	if want != nil && k.layout[t.Name] {
		wabs, aerr := wb.AbstractNormalised(k.s, t.Name, w)
		if aerr != nil {
			k.c.Infra("limit bridge: %v", aerr)
			return false
		}
		if differ(want, canon(wabs)) {
			d := firstDiff(want, canon(wabs), "")
			k.violation("misread-under-limit:"+cls, fmt.Sprintf("%s: under the byte limit %d a valid encoding of %d bytes is read as a different value (at %s)%s", t.Name, limit, len(b), d, at), t, nil, info)
			return false
		}
	}
	return true
}

// limitSweep applies the schedule to one generated value (b = its encoding, accepted by the plain round trip).
func (k *checker) limitSweep(t *wb.WireType, ptr any, b []byte, absN any, st *typeStats) {
	var want any
	if absN != nil && t.Pkg == "rhp4" {
		want = canon(absN) // elsewhere the exact-limit decoder is the one the plain round trip has just compared
	}
	for _, e := range defaultSchedule {
		L := e.Mul*int64(len(b)) + e.Add
		if L < 0 {
			continue
		}
		st.limits++
		if e.Mul == 1 && e.Add == 0 {
			st.limitsExact++
		}
		var w any
		if e.Accept && e.Add == 0 {
			w = want // compare the value once, under the exact limit
		}
		if !k.underLimit(t, b, L, e.Accept, "", w, map[string]any{"value": fmt.Sprintf("%+v", reflect.ValueOf(ptr).Elem().Interface())}) {
			return
		}
	}
}

// limitCases executes the cases of WireLimit on the real code.
func (k *checker) limitCases(lr *limitRun) {
	c := k.c
	<-lr.done
	if lr.err != nil {
		c.Fatal("decoder limits: %v", lr.err)
	}
	res := lr.res
	if res.Violated != "" {
		c.Fatal("decoder limits: the spec failed to evaluate: %s", vlib.Tail(res.Out, 1500))
	}
	t0 := time.Now()
	var cases []limitCase
	counts := map[string]int{}
	perType := map[string]int{}
	var sched []schedEntry
	for _, ln := range res.Lines {
		switch {
		case strings.HasPrefix(ln, "LSCHED "):
			if err := json.Unmarshal([]byte(vlib.UnquoteTLA(strings.TrimPrefix(ln, "LSCHED "))), &sched); err != nil {
				c.Fatal("decoder limits: unparsable schedule: %v", err)
			}
		case strings.HasPrefix(ln, "LCOUNT "):
			f := strings.Fields(ln)
			var n int
			fmt.Sscan(f[2], &n)
			counts[f[1]] = n
		case strings.HasPrefix(ln, "LCASE "):
			var cs limitCase
			if err := json.Unmarshal([]byte(vlib.UnquoteTLA(strings.TrimPrefix(ln, "LCASE "))), &cs); err != nil {
				c.Fatal("decoder limits: unparsable case: %v", err)
			}
			perType[cs.Type]++
			cases = append(cases, cs)
		}
	}
	if fmt.Sprint(sched) != fmt.Sprint(defaultSchedule) {
		c.Fatal("decoder limits: the schedule printed by WireLimit (%v) is not the one the harness applied to generated values (%v)", sched, defaultSchedule)
	}
	for name, n := range counts {
		if perType[name] != n {
			c.Infra("decoder limits: %s: %d of %d cases arrived", name, perType[name], n)
		}
	}
	if len(counts) < 150 {
		c.Infra("decoder limits: only %d schema lines were visited", len(counts))
	}
	type class struct{ cases, dominant, exact, refusedBelow int }
	classes := map[string]*class{}
	classOf := func(cs limitCase) string {
		switch {
		case cs.EK == "bool":
			return "bool-1-byte"
		case cs.EK == "byte":
			return "byte-string"
		case cs.ES == 8 && (cs.EK == "u64" || cs.EK == "time"):
			return "u64-8-bytes"
		case cs.EK == "fixed" && cs.ES == 32:
			return "hash-32-bytes"
		case cs.EK == "fixed":
			return "fixed-other"
		case cs.EK == "bytes" || cs.EK == "str" || cs.EK == "curv1" || cs.EK == "slice":
			return "variable-size-elements"
		case cs.EK == "curv2":
			return "currency-16-bytes"
		default:
			return "composite"
		}
	}
	nRun, nOK, nDecodes, nRHP4Exact, nSkipped := 0, 0, 0, 0, 0
	pkgs := map[string]int{}
	for _, cs := range cases {
		t := wb.TypeByName(cs.Type)
		if t == nil {
			nSkipped++ // helper line without a codec of its own; its places are reached through the lines that refer to it
			continue
		}
		bs := make([]byte, len(cs.Bytes))
		for i, x := range cs.Bytes {
			if x < 0 || x > 255 {
				c.Infra("decoder limits: %s: spec produced a non-byte %d", cs.Type, x)
			}
			bs[i] = byte(x)
		}
		if len(bs) != cs.Size {
			c.Infra("decoder limits: %s %s: size %d stated for %d bytes", cs.Type, cs.Place, cs.Size, len(bs))
			continue
		}
		nRun++
		pkgs[t.Pkg]++
		cl := classes[classOf(cs)]
		if cl == nil {
			cl = &class{}
			classes[classOf(cs)] = cl
		}
		cl.cases++
		if cs.N*cs.ES > cs.Rest {
			cl.dominant++
		}
		extra := map[string]any{"abstract": cs.Value, "place": cs.Place, "element_kind": cs.EK, "element_bytes": cs.ES, "count": cs.N, "rest_of_message_bytes": cs.Rest}
		want := stripEmpty(cs.Value)
		ok := true
		for _, le := range cs.Limits {
			L, good := wordsToInt64(le.Limit)
			if !good {
				c.Infra("decoder limits: %s: bad limit %v", cs.Type, le.Limit)
				continue
			}
			if le.Accept != (L >= int64(len(bs))) {
				c.Infra("decoder limits: %s: the model's verdict for limit %d and size %d is %v", cs.Type, L, len(bs), le.Accept)
				continue
			}
			nDecodes++
			var w any
			if L == int64(len(bs)) {
				w = want
				cl.exact++
				if t.Pkg == "rhp4" {
					nRHP4Exact++
				}
			}
			if !le.Accept {
				cl.refusedBelow++
			}
			if !k.underLimit(t, bs, L, le.Accept, cs.Place, w, extra) {
				ok = false
				break
			}
		}
		// the prescribed bytes through the type's ordinary door as well (direction A: accept, same value, canonical);
		// an RHP4 object goes through ReadResponse there, whose limit is the object's maximal length
		if ok && (t.MaxBytes == 0 || len(bs) <= t.MaxBytes) && k.layout[cs.Type] {
			nDecodes++
			if !k.caseA(cs.Type, cs.Value, bs) {
				ok = false
			}
		}
		if ok {
			nOK++
		}
	}
	// vacuity: every element-size class, each with collections that outweigh the rest, under the exact limit
	for _, name := range []string{"bool-1-byte", "byte-string", "u64-8-bytes", "hash-32-bytes", "variable-size-elements", "composite"} {
		cl := classes[name]
		if cl == nil || cl.cases == 0 || cl.dominant == 0 || cl.exact == 0 || cl.refusedBelow == 0 {
			c.Infra("vacuity: decoder limits: element class %s was not exercised with a dominant collection under the exact limit (%+v)", name, cl)
		}
	}
	if nRun < 300 || nRHP4Exact < 20 || pkgs["types"] == 0 || pkgs["consensus"] == 0 || pkgs["gateway"] == 0 || pkgs["rhp4"] == 0 || pkgs["rhp2"] == 0 || pkgs["rhp3"] == 0 {
		c.Infra("vacuity: decoder limits: %d cases run, %d RHP4 objects under their exact limit, per package %v", nRun, nRHP4Exact, pkgs)
	}
	var sweep, sweepExact int
	for _, st := range k.stats {
		sweep += st.limits
		sweepExact += st.limitsExact
	}
	if sweepExact == 0 {
		c.Infra("vacuity: no generated value was decoded under its exact limit")
	}
	clsOut := map[string]any{}
	var names []string
	for n := range classes {
		names = append(names, n)
	}
	sort.Strings(names)
	for _, n := range names {
		cl := classes[n]
		clsOut[n] = map[string]int{"cases": cl.cases, "collection_outweighs_rest": cl.dominant, "exact_limit_decodes": cl.exact, "below_limit_decodes": cl.refusedBelow}
	}
	c.Traces(int64(nRun))
	c.Count(int64(nDecodes+sweep), int64(nOK))
	c.Cov("decoder_limit_cases", map[string]any{"cases": nRun, "agree": nOK, "decodes": nDecodes, "helper_line_cases_not_run": nSkipped, "per_package": pkgs,
		"element_classes": clsOut, "rhp4_objects_under_exact_limit": nRHP4Exact, "generated_values_limit_decodes": sweep, "generated_values_exact_limit_decodes": sweepExact,
		"schedule_for_generated_values": sched, "states": res.Distinct, "tlc_seconds": lr.secs, "go_seconds": time.Since(t0).Seconds()})
}
