package main

import (
	"bytes"
	"encoding/json"
	"fmt"
	"math/rand"
	"strings"
	"time"

	"go.sia.tech/core/types"
	"verif/harness/vlib"
	wb "verif/harness/wirebridge"
)

// Spend policies at the limits of the binary codec (spec/wire/PolicyLimits.tla): chains of exactly 32 and 33
// levels, wide and shallow trees with more than 32 / 255 / about 1000 threshold nodes, 255 members, and
// combinations. TLC prescribes value, bytes and verdict (accept iff no node is nested deeper than 32; the
// binary decoder has no limit on the number of sub-policies). On the real code: the encoder must produce the
// prescribed bytes; the decoder must return the value and re-encode canonically when the model accepts, and fail
// otherwise; the same inside SatisfiedPolicy, V2SiacoinInput and V2Transaction; proper prefixes fail.

type plCase struct {
	Name       string `json:"name"`
	Depth      int    `json:"depth"`
	Thresholds int    `json:"thresholds"`
	Nodes      int    `json:"nodes"`
	Accept     bool   `json:"accept"`
	Value      any    `json:"value"`
	Bytes      []int  `json:"bytes"`
}

func policyFromAbstract(v any) (p types.SpendPolicy, err error) {
	m, ok := v.(map[string]any)
	if !ok {
		return p, fmt.Errorf("policy node is %T", v)
	}
	ty, ok := m["Type"].(map[string]any)
	if !ok {
		return p, fmt.Errorf("policy node without Type")
	}
	switch ty["tag"] {
	case "PolicyTypeAbove":
		ws, _ := ty["v"].([]any)
		if len(ws) != 4 {
			return p, fmt.Errorf("above: %v", ty["v"])
		}
		var x uint64
		for _, w := range ws {
			x = x<<16 | uint64(w.(float64))
		}
		return types.PolicyAbove(x), nil
	case "PolicyTypeThreshold":
		b, _ := ty["v"].(map[string]any)
		n, _ := b["N"].(float64)
		of, _ := b["Of"].([]any)
		ps := make([]types.SpendPolicy, len(of))
		for i := range of {
			if ps[i], err = policyFromAbstract(of[i]); err != nil {
				return p, err
			}
		}
		return types.PolicyThreshold(uint8(n), ps), nil
	}
	return p, fmt.Errorf("unexpected policy tag %v", ty["tag"])
}

func (k *checker) policyLimits() {
	c := k.c
	t0 := time.Now()
	res, err := c.TLC(vlib.TLCOpts{SpecDirs: []string{"wire"}, Module: "PolicyLimits", Config: "PolicyLimits.cfg", Workers: 2, Timeout: 10 * time.Minute, Xss: "512m"})
	if err != nil {
		c.Fatal("policy limits: %v", err)
	}
	if res.Violated != "" {
		c.Fatal("policy limits: the spec failed to evaluate: %s", vlib.Tail(res.Out, 1500))
	}
	var cases []plCase
	for _, ln := range res.Lines {
		if !strings.HasPrefix(ln, "PL ") {
			continue
		}
		var cs plCase
		if err := json.Unmarshal([]byte(vlib.UnquoteTLA(strings.TrimPrefix(ln, "PL "))), &cs); err != nil {
			c.Fatal("policy limits: unparsable case: %v", err)
		}
		cases = append(cases, cs)
	}
	if int64(2*len(cases)+1) != res.Distinct || len(cases) < 20 {
		c.Fatal("policy limits: %d cases printed for %d states", len(cases), res.Distinct)
	}
	tp, tsp, tin, ttx := wb.TypeByName("SpendPolicy"), wb.TypeByName("SatisfiedPolicy"), wb.TypeByName("V2SiacoinInput"), wb.TypeByName("V2Transaction")
	r := rand.New(rand.NewSource(c.Seed*77 + 11))
	var nAcc, nRej, nOK, nWide32, nWide255, nWide1000, nD32, nD33, nW255, nPrefix int
	for _, cs := range cases {
		bs := make([]byte, len(cs.Bytes))
		for i, x := range cs.Bytes {
			bs[i] = byte(x)
		}
		hex := fmt.Sprintf("%x", bs)
		info := map[string]any{"shape": cs.Name, "depth": cs.Depth, "threshold_nodes": cs.Thresholds, "nodes": cs.Nodes, "model_accepts": cs.Accept}
		extra := func(b []byte) map[string]any {
			m := map[string]any{"bytes_hex": fmt.Sprintf("%x", b)}
			for a, v := range info {
				m[a] = v
			}
			return m
		}
		what := fmt.Sprintf("policy shape %s (nesting depth %d, %d threshold nodes, %d nodes)", cs.Name, cs.Depth, cs.Thresholds, cs.Nodes)
		pol, err := policyFromAbstract(cs.Value)
		if err != nil {
			c.Infra("policy limits: %s: %v", cs.Name, err)
			continue
		}
		ok := true
		// the encoder never refuses, and writes the prescribed bytes
		enc, pan := tp.SafeEncode(&pol)
		if pan != nil || !bytes.Equal(enc, bs) {
			ok = false
			k.violation("policy-limit-layout:SpendPolicy", fmt.Sprintf("%s: the real encoder does not produce the prescribed bytes (panic=%v, %d bytes, prescribed %d)", what, pan, len(enc), len(bs)), tp, nil, extra(bs))
		}
		sat := types.SatisfiedPolicy{Policy: pol, Signatures: []types.Signature{{1}}}
		in := types.V2SiacoinInput{SatisfiedPolicy: sat}
		in.Parent.ID[0] = 7
		txn := types.V2Transaction{SiacoinInputs: []types.V2SiacoinInput{in}, MinerFee: types.NewCurrency64(5)}
		containers := []struct {
			t   *wb.WireType
			ptr any
		}{{tp, &pol}, {tsp, &sat}, {tin, &in}, {ttx, &txn}}
		if cs.Accept {
			nAcc++
			if !k.caseA("SpendPolicy", cs.Value, bs) {
				ok = false
			}
			for _, ct := range containers {
				b, pan := ct.t.SafeEncode(ct.ptr)
				if pan != nil {
					ok = false
					k.violation("roundtrip-encode-panic:"+ct.t.Name, fmt.Sprintf("%s inside %s: the encoder panics: %v", what, ct.t.Name, pan), ct.t, nil, info)
					continue
				}
				w, left, derr, dpan := ct.t.SafeDecode(b)
				if dpan != nil || derr != nil || left != 0 {
					ok = false
					k.violation("roundtrip-decode:"+ct.t.Name, fmt.Sprintf("%s inside %s: encode succeeds, decode fails (err=%v panic=%v unread=%d); the codec's limit is nesting depth 32, not the number of nodes", what, ct.t.Name, derr, dpan, left), ct.t, nil, extra(b))
					continue
				}
				if rb, rpan := ct.t.SafeEncode(w); rpan != nil || !bytes.Equal(rb, b) {
					ok = false
					k.violation("roundtrip-reencode:"+ct.t.Name, fmt.Sprintf("%s inside %s: re-encoding the decoded value gives other bytes", what, ct.t.Name), ct.t, nil, extra(b))
				}
			}
			// proper prefixes fail (all of them for short encodings, a seeded sample otherwise)
			var cuts []int
			if len(bs) <= 1200 {
				for n := 0; n < len(bs); n++ {
					cuts = append(cuts, n)
				}
			} else {
				for i := 0; i < 150; i++ {
					cuts = append(cuts, r.Intn(len(bs)))
				}
				cuts = append(cuts, 0, 1, 2, 3, 4, len(bs)-1, len(bs)-2, len(bs)-8, len(bs)-9, len(bs)-10)
			}
			for _, n := range cuts {
				nPrefix++
				if fails, how := decodeFails(tp, bs[:n]); !fails {
					ok = false
					k.violation("truncation-accepted:SpendPolicy", fmt.Sprintf("%s: decoding the first %d of %d bytes succeeds", what, n, len(bs)), tp, nil, extra(bs))
					break
				} else if how != "" {
					ok = false
					k.violation("truncation-panic:SpendPolicy", fmt.Sprintf("%s: decoding the first %d of %d bytes: %s", what, n, len(bs), how), tp, nil, extra(bs))
					break
				}
			}
		} else {
			nRej++
			for _, ct := range containers {
				b, pan := ct.t.SafeEncode(ct.ptr)
				if pan != nil {
					continue // an encoder may refuse what the decoder would refuse
				}
				_, _, derr, dpan := ct.t.SafeDecode(b)
				if dpan != nil {
					ok = false
					k.violation("policy-over-depth-panic:"+ct.t.Name, fmt.Sprintf("%s inside %s: the decoder panics: %v", what, ct.t.Name, dpan), ct.t, nil, extra(b))
				} else if derr == nil {
					ok = false
					k.violation("policy-over-depth-accepted:"+ct.t.Name, fmt.Sprintf("%s inside %s: the decoder accepts a policy nested deeper than 32", what, ct.t.Name), ct.t, nil, extra(b))
				}
			}
		}
		if ok {
			nOK++
		}
		if cs.Depth <= 3 && cs.Thresholds > 32 && cs.Accept {
			nWide32++
		}
		if cs.Depth <= 3 && cs.Thresholds > 255 {
			nWide255++
		}
		if cs.Depth <= 3 && cs.Thresholds >= 1000 {
			nWide1000++
		}
		if cs.Depth == 32 {
			nD32++
		}
		if cs.Depth == 33 {
			nD33++
		}
		if strings.Contains(cs.Name, "255") {
			nW255++
		}
		_ = hex
	}
	if nWide32 < 3 || nWide255 < 2 || nWide1000 < 2 || nD32 < 4 || nD33 < 4 || nW255 < 4 || nAcc < 10 || nRej < 5 || nPrefix < 1000 {
		c.Infra("vacuity: policy limit classes: wide>32:%d wide>255:%d wide>=1000:%d depth32:%d depth33:%d width255:%d accept:%d reject:%d prefixes:%d", nWide32, nWide255, nWide1000, nD32, nD33, nW255, nAcc, nRej, nPrefix)
	}
	c.Traces(int64(len(cases)))
	c.Count(int64(5*len(cases)), int64(nOK))
	c.Cov("policy_limit_shapes", map[string]any{"cases": len(cases), "model_accepts": nAcc, "model_rejects": nRej, "agree": nOK, "wide_shallow_over_32_thresholds": nWide32,
		"wide_shallow_over_255_thresholds": nWide255, "wide_shallow_1000_thresholds": nWide1000, "depth_exactly_32": nD32, "depth_exactly_33": nD33, "prefixes_decoded": nPrefix,
		"states": res.Distinct, "seconds": time.Since(t0).Seconds()})
}
