package main

import (
	"encoding/hex"
	"encoding/json"
	"math/rand"
	"os"
	"strings"

	"verif/harness/vlib"
	wb "verif/harness/wirebridge"
)

// replay re-executes one saved case on the current tree: the value is rebuilt from its recorded encoding
// and put through every Go-side property and the layout oracle; a direction-A case is re-run as such.
func replay(c *vlib.Ctx) {
	raw, err := os.ReadFile(c.Replay)
	if err != nil {
		c.Fatal("replay: %v", err)
	}
	var f struct {
		Key  string `json:"key"`
		Case struct {
			Type     string `json:"type"`
			BytesHex string `json:"bytes_hex"`
			Abstract any    `json:"abstract"`
			Limit    *int64 `json:"limit"`
			Accepts  bool   `json:"model_accepts"`
			Place    string `json:"place"`
		} `json:"case"`
	}
	if err := json.Unmarshal(raw, &f); err != nil {
		c.Fatal("replay: %v", err)
	}
	t := wb.TypeByName(f.Case.Type)
	bs, herr := hex.DecodeString(f.Case.BytesHex)
	if t == nil || herr != nil {
		c.Fatal("replay: the file names no known wire type / carries no encoding")
	}
	schema := wb.LoadSchema(c)
	k := &checker{c: c, s: schema, stats: map[string]*typeStats{}, layout: map[string]bool{}, seenEnc: map[[32]byte]bool{}, tags: map[string]int{}, dupValues: map[string]int{}}
	for _, w := range wb.Types() {
		if _, ok := schema[w.Name]; ok {
			k.layout[w.Name] = true
		}
	}
	c.Rule("replay of one saved case")
	if strings.HasPrefix(f.Key, "specified-encoding-") {
		k.caseA(f.Case.Type, f.Case.Abstract, bs)
		c.Count(1, 1)
		c.Finish()
	}
	if f.Case.Limit != nil && (strings.Contains(f.Key, "-under-limit") || strings.HasPrefix(f.Key, "encoding-accepted-beyond-limit:")) {
		var want any
		if f.Case.Abstract != nil && *f.Case.Limit == int64(len(bs)) {
			want = stripEmpty(f.Case.Abstract)
		}
		k.underLimit(t, bs, *f.Case.Limit, f.Case.Accepts, f.Case.Place, want, nil)
		c.Count(1, 1)
		c.Finish()
	}
	if strings.HasPrefix(f.Key, "policy-over-depth-") {
		_, _, derr, pan := t.SafeDecode(bs)
		if pan != nil {
			k.violation("policy-over-depth-panic:"+t.Name, t.Name+": the decoder panics on a policy nested deeper than 32", t, nil, map[string]any{"bytes_hex": f.Case.BytesHex})
		} else if derr == nil {
			k.violation("policy-over-depth-accepted:"+t.Name, t.Name+": the decoder accepts a policy nested deeper than 32", t, nil, map[string]any{"bytes_hex": f.Case.BytesHex})
		}
		c.Count(1, 1)
		c.Finish()
	}
	ptr, _, derr, pan := t.SafeDecode(bs)
	if pan != nil || derr != nil {
		k.violation("roundtrip-decode:"+t.Name, t.Name+": decoder rejects the recorded encoding", t, nil, map[string]any{"bytes_hex": f.Case.BytesHex})
		c.Finish()
	}
	st := &typeStats{patterns: map[string]int{}, allPatterns: map[string]wb.Influence{}, kinds: map[string]int{}}
	k.checkValue(t, ptr, rand.New(rand.NewSource(c.Seed)), st, 1<<20)
	k.layoutOracle(k.lines, false)
	c.Count(1, 1)
	c.Finish()
}
