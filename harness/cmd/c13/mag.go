package main

import (
	"encoding/json"
	"fmt"
	"math/big"
	"math/rand"
	"sort"
	"strings"
	"time"

	"go.sia.tech/core/consensus"
	"go.sia.tech/core/types"
	"verif/harness/vlib"
)

// ---------------------------------------------------------------------------
// the magnitude lattice (spec/pow/DifficultyMag.tla): chains that start from a constructed state

// A magScenario is one scenario emitted by TLC.
type magScenario struct {
	Start int `json:"start"`
	H     int `json:"h"`
	Net   struct {
		Oak, Fix, Asic, Allow, Final uint64
	} `json:"net"`
	Interval int    `json:"interval"`
	B        int    `json:"b"`
	DC       string `json:"dc"`
	K        int    `json:"k"`
	WB       int    `json:"wb"`
	J        int    `json:"j"`
	Push     string `json:"push"`
	Regime   int    `json:"regime"`
	Frac     int    `json:"frac"`
	Steps    int    `json:"steps"`
	D        []int  `json:"D"`
	W        []int  `json:"W"`
	OakW     []int  `json:"oakW"`
	OakTime  int    `json:"oakTime"`
}

// magInit is the state a mag chain starts from, as chosen by the specification (decimal numbers).
type magInit struct {
	Start uint64 `json:"start"` // height of the constructed state
	D     string `json:"d"`     // required work of the next block
	W     string `json:"w"`     // cumulative work
	OakW  string `json:"oakW"`  // decayed work estimate (its oak time is Net.OakTime)
	Label string `json:"label"`
}

func (m magScenario) key() string {
	return fmt.Sprintf("%02d|%d|%d|%s|%d|%d|%d|%s|%d", m.Start, m.Interval, m.B, m.DC, m.K, m.WB, m.J, m.Push, m.Regime)
}

func (m magScenario) desc(i int) chainDesc {
	return chainDesc{Kind: "mag", Steps: m.Steps, Regime: m.Regime, Frac: m.Frac,
		Net: netDesc{Oak: m.Net.Oak, Fix: m.Net.Fix, Asic: m.Net.Asic, Allow: m.Net.Allow, Final: m.Net.Final,
			Interval: m.Interval, Factor: skelFactors[i%len(skelFactors)], OakTime: m.OakTime},
		Mag: &magInit{Start: uint64(m.H), D: vlib.FromLimbs(m.D).String(), W: vlib.FromLimbs(m.W).String(), OakW: vlib.FromLimbs(m.OakW).String(),
			Label: fmt.Sprintf("start=%d b=%d D=%s k=%d wb=%d j=%d push=%s", m.Start, m.B, m.DC, m.K, m.WB, m.J, m.Push)}}
}

func dec(s string) *big.Int {
	x, ok := new(big.Int).SetString(s, 10)
	if !ok || x.Sign() <= 0 || x.BitLen() > 256 {
		panic("bad magnitude " + s)
	}
	return x
}

func inv(x *big.Int) *big.Int { return new(big.Int).Div(maxT, x) }

// network: a chain that passes the ASIC reset is reset to the scenario's magnitude; the initial target is only
// there to make the genesis state well formed.
func (m *magInit) network(n *consensus.Network) {
	n.InitialTarget = bigID(inv(dec(m.D)))
	n.HardforkASIC.OakTarget = bigID(inv(dec(m.OakW)))
}

// state builds the state at height Start. The fields of the representation the era does not compute in are
// the floored inverses (the specification checks all of them on the reset line); everything that is not proof of
// work is that of the real state after the genesis block.
func (m *magInit) state(base consensus.State, d netDesc) consensus.State {
	s := base
	s.Index = types.ChainIndex{Height: m.Start, ID: types.BlockID(types.HashBytes([]byte(m.Label)))}
	s.PrevTimestamps = [11]time.Time{}
	for i := 0; i < 11 && uint64(i) <= m.Start; i++ {
		s.PrevTimestamps[i] = at(whole(int64((int(m.Start) - i) * d.Interval)))
	}
	s.OakTime = time.Duration(d.OakTime) * time.Second
	D, W, O := dec(m.D), dec(m.W), dec(m.OakW)
	switch {
	case m.Start < d.Allow: // targets are computed, work is derived
		t, dp, ot := inv(D), inv(W), inv(O)
		s.ChildTarget, s.Depth, s.OakTarget = bigID(t), bigID(dp), bigID(ot)
		s.Difficulty, s.TotalWork, s.OakWork = bigWork(inv(t)), bigWork(inv(dp)), bigWork(inv(ot))
	case m.Start < d.Final: // work is computed, targets are derived
		s.Difficulty, s.TotalWork, s.OakWork = bigWork(D), bigWork(W), bigWork(O)
		s.ChildTarget, s.Depth, s.OakTarget = bigID(inv(D)), bigID(inv(W)), bigID(inv(O))
	default:
		s.Difficulty, s.TotalWork, s.OakWork = bigWork(D), bigWork(W), bigWork(O)
		s.ChildTarget, s.Depth, s.OakTarget = types.BlockID{}, types.BlockID{}, types.BlockID{}
	}
	return s
}

// parseMag reads the scenarios TLC emitted, in canonical order.
func parseMag(c *vlib.Ctx, lines []string) []magScenario {
	var out []magScenario
	for _, ln := range lines {
		if !strings.HasPrefix(ln, "MAG ") {
			continue
		}
		var m magScenario
		if err := json.Unmarshal([]byte(vlib.UnquoteTLA(ln[4:])), &m); err != nil || m.Frac < 0 || m.Frac > 3 || len(m.D) == 0 || len(m.W) == 0 || len(m.OakW) == 0 || m.Steps == 0 {
			c.Fatal("cannot parse magnitude scenario %q: %v", vlib.Tail(ln, 200), err)
		}
		out = append(out, m)
	}
	sort.Slice(out, func(i, j int) bool { return out[i].key() < out[j].key() })
	for i := 1; i < len(out); i++ {
		if out[i].key() == out[i-1].key() {
			c.Fatal("magnitude scenario emitted twice: %s", out[i].key())
		}
	}
	return out
}

// pickMag chooses the scenarios to execute: a core that is always there (from the two eras that keep work as
// integers: every magnitude class, with the push that makes the crossing clamp bound bind, the first addition
// of cumulative work carrying), and a seeded sample of the rest, stratified by (start, limb boundary, mainnet).
func pickMag(all []magScenario, r *rand.Rand, n int) []magScenario {
	minOf := func(f func(magScenario) int) int {
		m := f(all[0])
		for _, s := range all {
			if f(s) < m {
				m = f(s)
			}
		}
		return m
	}
	r0 := minOf(func(s magScenario) int { return s.Regime })
	j0 := minOf(func(s magScenario) int { return s.J })
	i0 := minOf(func(s magScenario) int { return -s.Interval })
	matched := func(s magScenario) bool {
		switch {
		case strings.HasPrefix(s.DC, "below"):
			return s.Push == "up"
		case strings.HasPrefix(s.DC, "above"):
			return s.Push == "down"
		}
		return s.Push == "hold"
	}
	var picked []magScenario
	cells := map[string][]magScenario{}
	var names []string
	for _, s := range all {
		if (s.Start == 7 || s.Start == 9) && s.Regime == r0 && s.J == j0 && -s.Interval == i0 && matched(s) {
			picked = append(picked, s)
			continue
		}
		k := fmt.Sprintf("%02d|%d|%v", s.Start, s.B, s.DC == "main")
		if cells[k] == nil {
			names = append(names, k)
		}
		cells[k] = append(cells[k], s)
	}
	sort.Strings(names)
	for _, k := range names {
		g := cells[k]
		r.Shuffle(len(g), func(i, j int) { g[i], g[j] = g[j], g[i] })
	}
	for round := 0; len(picked) < n; round++ {
		took := false
		for _, k := range names {
			if round < len(cells[k]) && len(picked) < n {
				picked = append(picked, cells[k][round])
				took = true
			}
		}
		if !took {
			break
		}
	}
	return picked
}

// ---------------------------------------------------------------------------
// coverage bookkeeping (never a verdict): magnitudes and limb boundaries of the 4x64-bit representation

type limbFacts struct {
	bucket     string  // magnitude of the required work before the step: "", "b1", "b2", "b3", "main", "other"
	carryW     [4]bool // [b]: the addition W + D carried out of bit 64b (eras that keep work as integers)
	carryUp    [4]bool // [b]: D + maxAdjust carried out of bit 64b and the new required work IS that bound
	borrowDown [4]bool // [b]: D - maxAdjust borrowed across bit 64b and the new required work IS that bound
}

func limbFactsOf(prev, next consensus.State, era string) (f limbFacts) {
	D, W, D2 := workBig(prev.Difficulty), workBig(prev.TotalWork), workBig(next.Difficulty)
	switch bl := D.BitLen(); {
	case bl < 63:
	case bl <= 68:
		f.bucket = "b1"
	case bl >= 127 && bl <= 132:
		f.bucket = "b2"
	case bl >= 191 && bl <= 197:
		f.bucket = "b3"
	case bl >= 71 && bl <= 80:
		f.bucket = "main"
	default:
		f.bucket = "other"
	}
	if era != "ClampV2" && era != "ClampFinal" {
		return
	}
	a := new(big.Int).Div(D, big.NewInt(250))
	if era == "ClampFinal" && a.Sign() == 0 {
		a.SetInt64(1)
	}
	up := new(big.Int).Add(D, a)
	down := new(big.Int).Sub(D, a)
	for b := 1; b <= 3; b++ {
		lim := pow2(uint(64 * b))
		mask := new(big.Int).Sub(lim, big.NewInt(1))
		low := func(x *big.Int) *big.Int { return new(big.Int).And(x, mask) }
		f.carryW[b] = new(big.Int).Add(low(W), low(D)).Cmp(lim) >= 0
		f.carryUp[b] = D2.Cmp(up) == 0 && new(big.Int).Add(low(D), low(a)).Cmp(lim) >= 0
		f.borrowDown[b] = down.Sign() > 0 && D2.Cmp(down) == 0 && low(D).Cmp(low(a)) < 0
	}
	return
}
