// C13 — difficulty retargeting is total, clamped, identical for headers and full blocks; header rule.
//
//  1. TLC explores the timestamp layer of spec/pow/Difficulty.tla (DifficultySkel): network shapes whose
//     fork heights are 2..12 × intervals × initial-target classes × timestamp-choice sequences, checks
//     the lattice (median rule respected, every era crossed) and emits each complete chain as a skeleton.
//     TLC also explores the magnitude layer (DifficultyMag): the states chains start from, one start per era
//     and era boundary, with required work / cumulative work / work estimate placed so that the 4x64-bit
//     arithmetic of the implementation carries and borrows across every limb boundary (mag.go).
//  2. The harness executes skeletons, magnitude scenarios and long seeded random chains on the real consensus.ApplyHeader and,
//     in lock-step, consensus.ApplyBlock with empty blocks; every step logs both resulting states as BigNat
//     limbs, six candidate headers with the verdicts of consensus.ValidateHeader, a sibling state and the
//     verdicts of SufficientlyHeavierThan. Timestamps are instants (seconds, nanoseconds): the sub-second part
//     is a dimension of every chain. A third chain alternates the two entry points and receives every instant
//     in another representation (time zone, monotonic reading); the block and the header as they come back from
//     their encoding are applied by both entry points as well.
//  3. TLC validates the trace against spec/pow/DifficultyTrace.tla: every clause of the property at every
//     step, the state before a step being the one the specification derived from the previous line.
//  4. Every REJECT is re-executed on the real code before it is reported.
package main

import (
	"encoding/json"
	"fmt"
	"math/rand"
	"os"
	"reflect"
	"sort"
	"strconv"
	"strings"
	"sync"
	"time"

	"verif/harness/vlib"
)

type skeleton struct {
	Shape    int     `json:"shape"`
	Oak      uint64  `json:"oak"`
	Fix      uint64  `json:"fix"`
	Asic     uint64  `json:"asic"`
	Allow    uint64  `json:"allow"`
	Final    uint64  `json:"final"`
	OakTime  int     `json:"oakTime"`
	Interval int     `json:"interval"`
	Tgt      int     `json:"tgt"`
	B1       int     `json:"b1"`
	Pos      int     `json:"pos"`
	B2       int     `json:"b2"`
	Fr       int     `json:"fr"`    // sub-second class of the chain's instants
	Steps    [][]int `json:"steps"` // choice, instant (s, ns), median (s, ns), era rank
}

var skelFactors = []uint64{1, 1009, 7}

func (s skeleton) desc(i int) chainDesc {
	d := chainDesc{Kind: "skeleton", Steps: len(s.Steps), Frac: s.Fr,
		Net: netDesc{Oak: s.Oak, Fix: s.Fix, Asic: s.Asic, Allow: s.Allow, Final: s.Final, Interval: s.Interval, Tgt: s.Tgt, Factor: skelFactors[i%len(skelFactors)], OakTime: s.OakTime}}
	for _, st := range s.Steps {
		d.Choice = append(d.Choice, st[0])
		d.TS = append(d.TS, whole(int64(st[1]))+int64(st[2]))
		d.Med = append(d.Med, whole(int64(st[3]))+int64(st[4]))
	}
	return d
}

// network shapes of the long chains: real-sized fork schedules (pre-Oak retargets at 500/1000/1500,
// ancestor 1000 blocks back) and small ones that spend most of the chain after the final cut
var longShapes = []netDesc{
	{Oak: 600, Fix: 650, Asic: 700, Allow: 800, Final: 1000, Interval: 60, Tgt: 2, Factor: 1, OakTime: 10000},
	{Oak: 1200, Fix: 1300, Asic: 1400, Allow: 1600, Final: 1800, Interval: 600, Tgt: 4, Factor: 1009, OakTime: 120000},
	{Oak: 10, Fix: 12, Asic: 20, Allow: 330, Final: 640, Interval: 600, Tgt: 4, Factor: 1, OakTime: 90}, // the decayed oak time reaches zero in every era
	{Oak: 520, Fix: 530, Asic: 560, Allow: 600, Final: 700, Interval: 600, Tgt: 1, Factor: 1009, OakTime: 10000},
	{Oak: 4, Fix: 5, Asic: 6, Allow: 9, Final: 13, Interval: 600, Tgt: 4, Factor: 7, OakTime: 10000},
	{Oak: 1600, Fix: 1650, Asic: 1700, Allow: 1800, Final: 1900, Interval: 600, Tgt: 3, Factor: 1, OakTime: 10000},
	{Oak: 3, Fix: 4, Asic: 5, Allow: 200, Final: 400, Interval: 2, Tgt: 1, Factor: 1, OakTime: 30}, // a third of the interval is zero seconds
	{Oak: 2, Fix: 2, Asic: 3, Allow: 4, Final: 6, Interval: 10, Tgt: 3, Factor: 1, OakTime: 10000},
	{Oak: 1010, Fix: 1500, Asic: 1020, Allow: 1100, Final: 1200, Interval: 600, Tgt: 1, Factor: 1, OakTime: 10000},
	{Oak: 30, Fix: 40, Asic: 50, Allow: 400, Final: 450, Interval: 600, Tgt: 5, Factor: 1, OakTime: 10000},
}

// long chains at the magnitudes where the 64-bit limbs of the implementation's work values carry. The oak time of
// the ASIC reset is one block interval, so that the reset keeps the magnitude; most of the chain keeps work as
// integers (v2 rules), where cumulative work crosses a multiple of 2^64 / 2^128 / 2^192 every few blocks and the
// required work drifts across multiples of them.
var magShapes = []netDesc{
	{Oak: 3, Fix: 4, Asic: 5, Allow: 8, Final: 350, Interval: 600, Tgt: 6, Factor: 1, OakTime: 600},
	{Oak: 10, Fix: 12, Asic: 20, Allow: 30, Final: 60, Interval: 600, Tgt: 10, Factor: 1009, OakTime: 600},
	{Oak: 4, Fix: 5, Asic: 6, Allow: 9, Final: 300, Interval: 60, Tgt: 12, Factor: 1, OakTime: 60},
	{Oak: 3, Fix: 4, Asic: 5, Allow: 8, Final: 20, Interval: 600, Tgt: 8, Factor: 7, OakTime: 600},
	{Oak: 520, Fix: 530, Asic: 560, Allow: 600, Final: 700, Interval: 600, Tgt: 13, Factor: 1, OakTime: 600},
	{Oak: 6, Fix: 6, Asic: 8, Allow: 10, Final: 200, Interval: 10, Tgt: 9, Factor: 1, OakTime: 10},
	{Oak: 2, Fix: 2, Asic: 3, Allow: 4, Final: 6, Interval: 600, Tgt: 14, Factor: 1, OakTime: 600},
	{Oak: 20, Fix: 25, Asic: 40, Allow: 60, Final: 500, Interval: 600, Tgt: 11, Factor: 1, OakTime: 600},
	{Oak: 5, Fix: 7, Asic: 9, Allow: 12, Final: 12, Interval: 600, Tgt: 7, Factor: 1, OakTime: 600}, // no v2 interlude
}

// loadSkeletons runs DifficultySkel under one configuration and returns the distinct skeletons in canonical order.
func loadSkeletons(c *vlib.Ctx, cfg string) ([]skeleton, int) {
	res := c.MustTLC(vlib.TLCOpts{SpecDirs: []string{"pow"}, Module: "DifficultySkel", Config: cfg, Workers: 8, Timeout: 10 * time.Minute})
	var skels []skeleton
	for _, ln := range res.Lines {
		if !strings.HasPrefix(ln, "SKEL ") {
			continue
		}
		var s skeleton
		if err := json.Unmarshal([]byte(vlib.UnquoteTLA(ln[5:])), &s); err != nil || len(s.Steps) == 0 || len(s.Steps[0]) != 6 || s.Fr < 0 || s.Fr > 3 {
			c.Fatal("cannot parse skeleton %q: %v", vlib.Tail(ln, 200), err)
		}
		skels = append(skels, s)
	}
	// canonical order (TLC's workers print in any order), then one representative per distinct chain
	keys := make([]string, len(skels))
	for i, s := range skels {
		keys[i] = fmt.Sprint(s.Shape, s.Interval, s.Tgt, s.Steps, s.Fr, s.B1, s.Pos, s.B2)
	}
	order := make([]int, len(skels))
	for i := range order {
		order[i] = i
	}
	sort.Slice(order, func(a, b int) bool { return keys[order[a]] < keys[order[b]] })
	seen := map[string]bool{}
	var uniq []skeleton
	for _, i := range order {
		s := skels[i]
		k := fmt.Sprint(s.Shape, s.Interval, s.Tgt, s.Steps, s.Fr)
		if !seen[k] {
			seen[k] = true
			uniq = append(uniq, s)
		}
	}
	return uniq, len(res.Lines)
}

type located struct{ chain, line int } // trace line -> (chain, index into that chain's lines)

func main() {
	c := vlib.Start("C13")
	if c.Replay != "" {
		replay(c)
		return
	}
	c.Rule("Skeletons: TLC enumerates (network shape with fork heights 2..12) x interval x initial-target class x (background regime b1, one free timestamp choice at every position, background b2) chains of 14 headers; a seeded sample is executed. Fork-edge skeletons: the same chains on 12 network shapes in which each fork height in turn (and all together) is 0 or 1, initial-target classes 1 and 6 (quick), nonce factor 7 or 1009; a seeded round-robin over (shape, class) is executed. Random chains: network shape x timestamp regime x seed, up to 3000+ headers, logged in windows (all fork heights, all pre-Oak retargets, periodic windows), plus probes that stop just after a pre-Oak retarget at height 500/1000/1500. Magnitude lattice: TLC (DifficultyMag) enumerates start (one per era and era boundary, 11) x required work (k*2^64/2^128/2^192 minus or plus a little, half/double/four times 2^64b, mainnet magnitude) x cumulative work (the j-th addition carries across limb boundary wb, or plain) x work estimate (retargeting pushes up / down / in balance) x timestamp choice; the harness constructs the state and applies 7 headers; a core (both integer-work eras x every magnitude class with the binding push) is always executed, the rest is a seeded sample stratified by (start, limb boundary). Long chains from genesis at initial difficulties 2^63..2^66, 2^127..2^128, 2^192.., 2^75. Sub-second class of the instants of a chain: whole seconds / every header +1 ns / +999 999 999 ns / alternating 999 999 999 ns and 0 (chosen by TLC for skeletons and magnitude scenarios, spread over the other dimensions), plus seeded random nanoseconds for random chains. One evaluation = one header applied by ApplyHeader and ApplyBlock, by a third chain that alternates the two entry points and is handed every instant in another representation (UTC / another zone / with a monotonic reading), and -- as it comes back from its encoding -- by both entry points again (same state demanded); with six ValidateHeader candidates (the time candidates: the last second before the median with 999 999 999 ns on top -- an instant that may lie after the median, the second decides -- and the first admissible second; every candidate also in another representation and as it comes back from its encoding) and two fork-choice pairs, validated by TLC. Non-trivial = distinct (network, difficulty, oak state, timestamp) step in which the required work changed or which lies at a fork height.")
	c.Assume("BigNat (spec/lib, cross-checked against TLC integers by BigNatTest) is the arithmetic oracle")
	c.Assume("initial targets and the ASIC reset target have difficulty < 2^200; above that Work.mul64 overflows by construction (noted, not claimed)")
	c.Assume("constructed states (magnitude lattice): height, required work, cumulative work, work estimate and oak time are chosen by the specification, the fields of the other representation are their floored inverses (re-checked by TLC on the reset line), the eleven previous timestamps are on schedule; such states are what a network with that initial target / ASIC reset target and enough blocks reaches, headers cannot be mined at these difficulties, so ApplyHeader/ApplyBlock (which do not check proof of work) are driven directly and ValidateHeader is only expected to refuse for insufficient work")
	c.Assume("networks: fork heights are naturals (0 = active from genesis; shapes with each fork at 0 and at 1 in turn, and all together, are included), allow <= final, interval >= 1 s, nonce factor >= 1, ASIC OakTime/OakTarget non-zero; the genesis state carries the initial target with the difficulty derived from it in every era")
	c.Assume("timestamps held in memory are instants at the resolution of one nanosecond within 2^29 s of the genesis timestamp (which is on a whole second); the sub-second part, the time zone and the monotonic clock reading of a time value are not part of the encoded header; the harness supplies the pre-Oak ancestor timestamp as a node would (1000 blocks back, or genesis)")
	c.Assume("the header ID (a hash) is taken from the real code; the specification only compares it with the target")
	c.Assume("the median of fewer than eleven timestamps (heights < 10) is the median of the timestamps that exist; an even count takes the mean of the middle two (the window holds whole seconds, so the mean lies on the second or half a second after it)")
	c.Assume("a header is encoded, and hashed into its ID, with the whole second of its instant: that second is what consensus judges and records; the verdict on a header and the state after it are functions of the encoded header (clause Encoded.same: the original form, with whatever sub-second part and representation, and the form that comes back from the encoding give the same verdict and the same state, by both entry points)")

	t0 := time.Now()
	// 0. BigNat self-check
	c.MustTLC(vlib.TLCOpts{Module: "BigNatTest", Config: "BigNatTest.cfg"})

	// 1. direction A: TLC chooses the scenarios
	cfg := "DifficultySkelQuick.cfg"
	if c.Thorough {
		cfg = "DifficultySkelThorough.cfg"
	}
	// (the shapes whose fork heights are 0 or 1 are explored by a second run, in parallel)
	zcfg := "DifficultySkelZero.cfg"
	if c.Thorough {
		zcfg = "DifficultySkelZeroThorough.cfg"
	}
	var zskels []skeleton
	var zEmitted int
	zdone := make(chan struct{})
	go func() {
		zskels, zEmitted = loadSkeletons(c, zcfg)
		close(zdone)
	}()
	skels, emitted := loadSkeletons(c, cfg)
	<-zdone
	c.Cov("skeletons_emitted_by_tlc", emitted)
	c.Cov("fork_edge_skeletons_emitted_by_tlc", zEmitted)
	c.Cov("fork_edge_skeletons_distinct", len(zskels))
	c.Cov("skeletons_distinct", len(skels))
	if len(skels) < 1000 {
		c.Fatal("only %d skeletons emitted", len(skels))
	}
	tSkel := time.Since(t0)
	r := rand.New(rand.NewSource(c.Seed))
	r.Shuffle(len(skels), func(i, j int) { skels[i], skels[j] = skels[j], skels[i] })
	nSkel := c.Pick(300, 16000)
	if nSkel > len(skels) {
		nSkel = len(skels)
	}
	var descs []chainDesc
	for i := 0; i < nSkel; i++ {
		descs = append(descs, skels[i].desc(i))
	}
	// 1b. networks whose fork heights are 0 (active from genesis) or 1: a seeded round-robin over (shape, target class);
	// the nonce factor is never 1 there, so that header admission has something to refuse from the first block on
	if len(zskels) < 1000 {
		c.Fatal("only %d fork-edge skeletons emitted", len(zskels))
	}
	r.Shuffle(len(zskels), func(i, j int) { zskels[i], zskels[j] = zskels[j], zskels[i] })
	zcells := map[string][]skeleton{}
	var znames []string
	for _, s := range zskels {
		k := fmt.Sprintf("%02d|%02d", s.Shape, s.Tgt)
		if zcells[k] == nil {
			znames = append(znames, k)
		}
		zcells[k] = append(zcells[k], s)
	}
	sort.Strings(znames)
	nZero := c.Pick(120, 5000)
	for round, n := 0, 0; n < nZero; round++ {
		took := false
		for _, k := range znames {
			if round < len(zcells[k]) && n < nZero {
				d := zcells[k][round].desc(n)
				d.Net.Factor = []uint64{1009, 7}[(n+round)%2]
				descs = append(descs, d)
				n++
				took = true
			}
		}
		if !took {
			break
		}
	}
	// 2. long random chains, and probes of the pre-Oak retarget (chains that stop just after a multiple of 500)
	nLong := c.Pick(5, 85)
	for k := 0; k < nLong; k++ {
		idx := int(c.Seed%1000) + k
		sh := longShapes[idx%len(longShapes)]
		regime := (idx/len(longShapes) + 3*idx) % nRegimes
		extra := 300 + r.Intn(c.Pick(900, 2500))
		if highClass(sh.Tgt) {
			extra = 100 // stay within the documented difficulty range
		}
		thin := 2
		if c.Thorough && k%3 == 0 {
			thin = 0 // every step validated
		}
		descs = append(descs, chainDesc{Kind: "random", Net: sh, Regime: regime, Seed: c.Seed*7919 + int64(k), Steps: int(sh.Final) + extra, Thin: thin, Frac: (idx + idx/len(longShapes)) % 5})
	}
	// ... and at the magnitudes of the limb boundaries
	nMagLong := c.Pick(2, 75)
	for k := 0; k < nMagLong; k++ {
		idx := int(c.Seed%1000) + k
		sh := magShapes[idx%len(magShapes)]
		regime := (idx/len(magShapes) + 3*idx) % nRegimes
		extra := 200 + r.Intn(c.Pick(300, 500)) // short: the required work may rise by 0.4% per block
		thin := 2
		if c.Thorough && k%3 == 0 {
			thin = 0
		}
		descs = append(descs, chainDesc{Kind: "random", Net: sh, Regime: regime, Seed: c.Seed*15485863 + int64(k), Steps: int(sh.Final) + extra, Thin: thin, Frac: (idx + 2) % 5})
	}
	var preOak []netDesc
	for _, sh := range longShapes {
		if sh.Oak >= 500 {
			preOak = append(preOak, sh)
		}
	}
	nProbe := c.Pick(24, 400)
	for k := 0; k < nProbe; k++ {
		sh := preOak[(int(c.Seed%1000)+k)%len(preOak)]
		sh.Tgt = 1 + (k+int(c.Seed%1000))%4
		stop := 500 * (1 + r.Intn(int(sh.Oak)/500))
		descs = append(descs, chainDesc{Kind: "random", Net: sh, Regime: (k + int(c.Seed%1000)) % nRegimes, Seed: c.Seed*104729 + int64(k), Steps: stop + 3, Thin: -1, Frac: (k + int(c.Seed%1000)) % 5})
	}

	// 2b. the magnitude lattice: TLC chooses the states the chains start from
	tm := time.Now()
	mcfg := "DifficultyMagQuick.cfg"
	if c.Thorough {
		mcfg = "DifficultyMagThorough.cfg"
	}
	mres := c.MustTLC(vlib.TLCOpts{SpecDirs: []string{"pow"}, Module: "DifficultyMag", Config: mcfg, Workers: 8, Timeout: 10 * time.Minute})
	mags := parseMag(c, mres.Lines)
	c.Cov("magnitude_scenarios_emitted_by_tlc", len(mags))
	if len(mags) < 5000 {
		c.Fatal("only %d magnitude scenarios emitted", len(mags))
	}
	mags = pickMag(mags, r, c.Pick(440, 20000))
	c.Cov("magnitude_scenarios_executed", len(mags))
	for i, m := range mags {
		descs = append(descs, m.desc(i))
	}
	c.Cov("time_magnitude_lattice_s", time.Since(tm).Seconds())

	// 3.-5. in batches of chains: execute on the real code, let TLC validate the trace (direction B),
	// re-execute every rejection
	var batches [][]int
	var cur []int
	est := 0
	limit := c.Pick(4500, 16000) // (a line carries five states: smaller batches keep TLC's heap where it was)
	for i, d := range descs {
		cur = append(cur, i)
		est += d.estimate()
		if est >= limit {
			batches, cur, est = append(batches, cur), nil, 0
		}
	}
	if len(cur) > 0 {
		batches = append(batches, cur)
	}
	cv := newCoverage()
	tv := time.Now()
	var mu sync.Mutex
	var wg sync.WaitGroup
	sem := make(chan struct{}, 2)
	for bi, b := range batches {
		wg.Add(1)
		sem <- struct{}{}
		go func(bi int, b []int) {
			defer wg.Done()
			defer func() { <-sem }()
			runBatch(c, descs, b, bi == 0, cv, &mu)
		}(bi, b)
	}
	wg.Wait()
	cv.report(c)
	c.Cov("time_skeletons_s", tSkel.Seconds())
	c.Cov("time_execution_and_validation_s", time.Since(tv).Seconds())
	c.Cov("batches", len(batches))
	c.Traces(int64(len(descs)))
	c.Finish()
}

// estimate is the expected number of trace lines of a chain (only used to size batches).
func (d chainDesc) estimate() int {
	switch {
	case d.Thin == 0:
		return d.Steps + d.Steps/segmentMax + 1
	case d.Thin < 0:
		return 40
	case d.Kind == "mag":
		return d.Steps + 1
	}
	return d.Steps/d.Thin + 200
}

// runBatch executes the chains on the real code, validates their trace and reports reproduced rejections.
func runBatch(c *vlib.Ctx, descs []chainDesc, idx []int, first bool, cv *cover, mu *sync.Mutex) {
	runs := make([]*chainRun, len(idx))
	var wg sync.WaitGroup
	sem := make(chan struct{}, 4)
	for k := range idx {
		wg.Add(1)
		sem <- struct{}{}
		go func(k int) {
			defer wg.Done()
			runs[k] = descs[idx[k]].run(idx[k], 0)
			<-sem
		}(k)
	}
	wg.Wait()
	var trace []map[string]any
	var where []located
	for k, cr := range runs {
		for li, ln := range cr.lines {
			trace = append(trace, ln)
			where = append(where, located{k, li})
		}
	}
	mu.Lock()
	for k, cr := range runs {
		cv.add(c, descs[idx[k]], cr)
	}
	mu.Unlock()
	if first {
		corrupt(c, trace)
		if p := os.Getenv("C13_DUMP"); p != "" { // development aid: keep the trace for experiments with TLC
			os.WriteFile(p, vlib.NDJSON(trace), 0o644)
		}
	}
	rejects, ok := validate(c, trace)
	if !ok {
		return
	}
	mu.Lock()
	cv.lines += len(trace)
	mu.Unlock()
	done := map[string]bool{}
	// the state before a step is the one derived from the previous line: once a clause has failed in a chain, a broken
	// environment assumption further down the same chain (the model's median against a window the code got wrong)
	// is a consequence of that failure, not a defect of the scenario
	failedAt := map[int]int{}
	for _, rj := range rejects {
		if rj.line >= 1 && rj.line <= len(trace) && !strings.HasPrefix(rj.msg, "Env.") {
			if ch := where[rj.line-1].chain; failedAt[ch] == 0 || rj.line < failedAt[ch] {
				failedAt[ch] = rj.line
			}
		}
	}
	for _, rj := range rejects {
		if rj.line < 1 || rj.line > len(trace) {
			c.Infra("bad reject line %d", rj.line)
			continue
		}
		if strings.HasPrefix(rj.msg, "Env.") {
			if at := failedAt[where[rj.line-1].chain]; at != 0 && at < rj.line {
				continue
			}
			c.Infra("a trace line breaks an environment assumption of the specification: %s (%s)", rj.msg, describe(descs[idx[where[rj.line-1].chain]]))
			continue
		}
		if dd := descs[idx[where[rj.line-1].chain]]; dd.Kind == "mag" && where[rj.line-1].line == 0 && trace[rj.line-1]["panic"] == "" {
			// the first line of a mag chain is the state the harness constructed, not something the code computed
			c.Infra("the constructed state of a magnitude scenario is not coherent: %s (%s)", rj.msg, describe(dd))
			continue
		}
		key, msg := keyOf(rj.msg, trace[rj.line-1])
		if done[key] {
			continue
		}
		done[key] = true
		w := where[rj.line-1]
		d := descs[idx[w.chain]]
		step := runs[w.chain].step[w.line]
		again := d.run(idx[w.chain], step)
		// the step is judged against the state derived from the previous line: both must be what the code does
		if w.line >= len(again.lines) || !sameJSON(again.lines[w.line], trace[rj.line-1]) ||
			(w.line > 0 && !sameJSON(again.lines[w.line-1], trace[rj.line-2])) {
			c.Infra("rejected step %d (%s) of %s does not reproduce on re-execution", step, msg, describe(d))
			continue
		}
		c.Violation(key, fmt.Sprintf("clause %s does not hold at step %d (block height %v) of chain %s", msg, step, heightOf(trace[rj.line-1]), describe(d)),
			map[string]any{"desc": d, "step": step, "clause": msg, "line": trace[rj.line-1]})
	}
}

// keyOf is the stable key of a rejection: the clause, and for a panic the function that panicked.
func keyOf(msg string, line map[string]any) (key, text string) {
	if pn, _ := line["panic"].(string); msg == "Total" && pn != "" {
		fn := strings.SplitN(strings.SplitN(pn, ":", 2)[0], "(", 2)[0]
		return "total." + strings.ToLower(fn), "Total (panic in " + pn + ")"
	}
	return strings.ToLower(msg), msg
}

func heightOf(ln map[string]any) any {
	if f, ok := ln["f"].(map[string]any); ok {
		return f["height"]
	}
	if s, ok := ln["s"].(map[string]any); ok {
		return s["height"]
	}
	return ln["i"] // chains start at the genesis block: step i creates block i
}

func describe(d chainDesc) string {
	if d.Kind == "skeleton" {
		return fmt.Sprintf("skeleton net=%+v choices=%v sub-second class %s", d.Net, d.Choice, fracClassName(d.Frac))
	}
	if d.Kind == "mag" {
		return fmt.Sprintf("constructed state net=%+v %s (height %d, D=%s W=%s oakWork=%s) timestamp choice %d sub-second class %s", d.Net, d.Mag.Label, d.Mag.Start, d.Mag.D, d.Mag.W, d.Mag.OakW, d.Regime, fracClassName(d.Frac))
	}
	return fmt.Sprintf("random net=%+v regime=%d seed=%d sub-second class %s", d.Net, d.Regime, d.Seed, fracClassName(d.Frac))
}

func sameJSON(a, b any) bool {
	x, _ := json.Marshal(a)
	y, _ := json.Marshal(b)
	var u, v any
	json.Unmarshal(x, &u)
	json.Unmarshal(y, &v)
	return reflect.DeepEqual(u, v)
}

type reject struct {
	line int
	msg  string
}

// validate runs DifficultyTrace over the lines and returns the REJECT records; acceptance is explicit:
// TLC must have reached every line (1 + lines distinct states).
func validate(c *vlib.Ctx, trace []map[string]any) ([]reject, bool) {
	res, err := c.TLC(vlib.TLCOpts{SpecDirs: []string{"pow"}, Module: "DifficultyTrace", Config: "DifficultyTrace.cfg",
		Files: map[string][]byte{"trace.ndjson": vlib.NDJSON(trace)}, Workers: c.Pick(8, 4), Timeout: 30 * time.Minute, Xss: "64m"})
	if err != nil {
		c.Infra("trace validation: %v", err)
		return nil, false
	}
	if res.Violated != "" {
		c.Infra("trace specification failed to evaluate: %s", vlib.Tail(res.Out, 1500))
		return nil, false
	}
	if want := int64(1 + len(trace)); res.Distinct != want {
		c.Infra("trace not fully consumed: %d states, expected %d\n%s", res.Distinct, want, vlib.Tail(res.Out, 600))
		return nil, false
	}
	var out []reject
	for _, ln := range res.Lines {
		if !strings.HasPrefix(ln, "REJECT ") {
			continue
		}
		f := strings.SplitN(ln, " ", 3)
		idx, err := strconv.Atoi(f[1])
		if err != nil || len(f) < 3 {
			c.Infra("bad reject record %q", ln)
			continue
		}
		out = append(out, reject{idx, f[2]})
	}
	sort.Slice(out, func(i, j int) bool {
		if out[i].line != out[j].line {
			return out[i].line < out[j].line
		}
		return out[i].msg < out[j].msg
	})
	return out, true
}

// cover accumulates the evidence counters and the vacuity guards.
type cover struct {
	eras, boundaries, decisive, oakLow map[string]int
	steps, nontrivial                  int64
	distinct                           map[string]bool
	panics, lines, samples             int
	mag                                map[string]map[string]int // clause -> magnitude bucket of the required work -> steps
	limb                               map[string]map[string]int // "carryW" | "carryUp" | "borrowDown" -> "<clause>/b<limb>" -> steps
	magSamples                         int
	edge                               map[string]int // "<fork><0|1>:<candidate>=<outcome>" on networks with that fork height 0 / 1
	frac                               map[string]map[string]int // sub-second class -> fact -> steps
}

// forkEdges names the fork heights of a network that are 0 (active from genesis) or 1.
func forkEdges(d netDesc) (tags []string) {
	for _, f := range []struct {
		name string
		h    uint64
	}{{"oak", d.Oak}, {"fix", d.Fix}, {"asic", d.Asic}, {"allow", d.Allow}, {"final", d.Final}} {
		if f.h <= 1 {
			tags = append(tags, fmt.Sprintf("%s%d", f.name, f.h))
		}
	}
	if d.Oak == 0 && d.Fix == 0 && d.Asic == 0 && d.Allow == 0 && d.Final == 0 {
		tags = append(tags, "all0")
	}
	return
}

func newCoverage() *cover {
	return &cover{eras: map[string]int{}, boundaries: map[string]int{}, decisive: map[string]int{}, oakLow: map[string]int{}, distinct: map[string]bool{},
		edge: map[string]int{}, frac: map[string]map[string]int{}, mag: map[string]map[string]int{}, limb: map[string]map[string]int{"carryW": {}, "carryUp": {}, "borrowDown": {}}}
}

func (cv *cover) add(c *vlib.Ctx, desc chainDesc, cr *chainRun) {
	d := desc.Net
	for li, m := range cr.meta {
		if m == nil {
			continue
		}
		if cr.lines[li]["panic"] != "" {
			cv.panics++
			continue
		}
		cv.steps++
		cv.eras[m.era]++
		fc := cv.frac[fracClassName(m.frac)]
		if fc == nil {
			fc = map[string]int{}
			cv.frac[fracClassName(m.frac)] = fc
		}
		fc["steps"]++
		fc["steps/"+m.era]++
		for k, v := range map[string]bool{"instant_off_the_second": m.subsec, "median_off_the_second": m.medSubsec,
			"time_candidate_decided_by_its_second": m.truncDecides, "required_work_changed": m.changed} {
			if v {
				fc[k]++
			}
		}
		if m.medSubsec {
			for _, k := range []string{"time", "attime"} {
				fc["median_off_the_second:"+k+"="+m.decisive[k]]++
			}
		}
		if m.oakLow {
			cv.oakLow[m.era]++
		}
		if m.limbs.bucket != "" {
			if cv.mag[m.era] == nil {
				cv.mag[m.era] = map[string]int{}
			}
			cv.mag[m.era][m.limbs.bucket]++
		}
		for b := 1; b <= 3; b++ {
			k := fmt.Sprintf("%s/b%d", m.era, b)
			if m.limbs.carryW[b] {
				cv.limb["carryW"][k]++
			}
			if m.limbs.carryUp[b] {
				cv.limb["carryUp"][k]++
			}
			if m.limbs.borrowDown[b] {
				cv.limb["borrowDown"][k]++
			}
		}
		for k, v := range m.decisive {
			cv.decisive[k+"="+v]++
			cv.decisive["any="+v]++
			for _, tag := range forkEdges(d) {
				cv.edge[tag+":"+k+"="+v]++
			}
		}
		for _, tag := range forkEdges(d) {
			cv.edge[tag+":steps"]++
		}
		atFork := false
		for name, h := range map[string]uint64{"oak": d.Oak + 1, "fix": d.Fix, "asic": d.Asic, "allow": d.Allow, "final": d.Final} {
			if m.child == h {
				cv.boundaries[name]++
				atFork = true
			}
		}
		if (m.changed || atFork) && !cv.distinct[m.sig] {
			cv.distinct[m.sig] = true
			cv.nontrivial++
		}
	}
	if (cv.samples < 2 && desc.Kind == "skeleton" || cv.samples < 4 && desc.Kind == "random") && len(cr.lines) > 12 {
		cv.samples++
		c.Sample(map[string]any{"desc": desc, "line": cr.lines[12]})
	}
	if cv.magSamples < 2 && desc.Kind == "mag" && len(cr.lines) > 1 {
		cv.magSamples++
		c.Sample(map[string]any{"desc": desc, "line": cr.lines[1]})
	}
}

func (cv *cover) report(c *vlib.Ctx) {
	c.Count(cv.steps, cv.nontrivial)
	c.Cov("trace_lines_validated", cv.lines)
	c.Cov("steps_per_clause", cv.eras)
	c.Cov("steps_at_fork_height", cv.boundaries)
	c.Cov("validateheader_outcomes", cv.decisive)
	c.Cov("panics", cv.panics)
	c.Cov("steps_with_oak_time_below_1s", cv.oakLow)
	for _, e := range []string{"NoAdjust", "ClampPre", "ClampOak", "AsicReset", "ClampV2", "ClampFinal"} {
		if cv.eras[e] == 0 {
			c.Infra("vacuity: clause %s never exercised", e)
		}
	}
	for _, e := range []string{"ClampOak", "ClampV2", "ClampFinal"} {
		if cv.oakLow[e] == 0 {
			c.Infra("vacuity: no %s step starts from an oak time below one second (division guards not exercised)", e)
		}
	}
	// the sub-second part of the instants: every class ran through every clause; in the classes off the second the
	// header rule was decided against medians off the second and by the second of an instant that itself lies after
	// the median (that the state does not depend on the sub-second part is clause Encoded.same)
	c.Cov("steps_per_subsecond_class", cv.frac)
	for f := 0; f <= 3; f++ {
		fc := cv.frac[fracClassName(f)]
		for _, e := range []string{"NoAdjust", "ClampOak", "AsicReset", "ClampV2", "ClampFinal"} {
			if fc["steps/"+e] == 0 {
				c.Infra("vacuity: no %s step in a chain of sub-second class %s", e, fracClassName(f))
			}
		}
		if f == 0 {
			if fc["instant_off_the_second"] != 0 {
				c.Infra("harness: a chain of whole seconds carries an instant off the second")
			}
			continue
		}
		for _, k := range []string{"instant_off_the_second", "median_off_the_second", "time_candidate_decided_by_its_second",
			"median_off_the_second:time=reject:time", "median_off_the_second:attime=accept"} {
			if fc[k] == 0 {
				c.Infra("vacuity: sub-second class %s: %s never observed", fracClassName(f), k)
			}
		}
	}
	// header admission on networks whose fork heights are 0 / 1: every clause decides there, accepted headers exist
	c.Cov("validateheader_outcomes_on_fork_edge_networks", cv.edge)
	for _, f := range []string{"oak", "fix", "asic", "allow", "final"} {
		for _, h := range []string{"0", "1"} {
			for _, k := range []string{"steps", "honest=accept", "attime=accept", "parent=reject:parent", "time=reject:time", "nonce=reject:nonce", "work=reject:work"} {
				if cv.edge[f+h+":"+k] == 0 {
					c.Infra("vacuity: on networks with the %s fork at height %s, %s never observed", f, h, k)
				}
			}
		}
	}
	for _, k := range []string{"steps", "honest=accept", "nonce=reject:nonce", "time=reject:time", "work=reject:work"} {
		if cv.edge["all0:"+k] == 0 {
			c.Infra("vacuity: on the network with every fork at height 0, %s never observed", k)
		}
	}
	c.Cov("steps_per_clause_and_magnitude", cv.mag)
	c.Cov("steps_total_work_addition_carries_out_of_limb", cv.limb["carryW"])
	c.Cov("steps_upper_clamp_bound_binds_and_carries_out_of_limb", cv.limb["carryUp"])
	c.Cov("steps_lower_clamp_bound_binds_and_borrows_across_limb", cv.limb["borrowDown"])
	// every clause at every limb magnitude (and at today's mainnet magnitude where retargeting happens per block)
	for _, e := range []string{"NoAdjust", "ClampPre", "ClampOak", "AsicReset", "ClampV2", "ClampFinal"} {
		for _, b := range []string{"b1", "b2", "b3"} {
			if cv.mag[e][b] == 0 {
				c.Infra("vacuity: no %s step with the required work at the magnitude of limb boundary %s (2^63..2^68 / 2^127..2^132 / 2^191..2^197)", e, b)
			}
		}
	}
	for _, e := range []string{"ClampOak", "ClampV2", "ClampFinal"} {
		if cv.mag[e]["main"] == 0 {
			c.Infra("vacuity: no %s step at the mainnet magnitude (2^71..2^80)", e)
		}
	}
	// the 4x64-bit arithmetic really crossed each of the three lower limb boundaries, in both eras that compute in it
	for _, e := range []string{"ClampV2", "ClampFinal"} {
		for b := 1; b <= 3; b++ {
			k := fmt.Sprintf("%s/b%d", e, b)
			if cv.limb["carryW"][k] == 0 {
				c.Infra("vacuity: no %s step in which adding the block's work to the total work carries out of bit %d", e, 64*b)
			}
			if cv.limb["carryUp"][k] == 0 {
				c.Infra("vacuity: no %s step in which the upper clamp bound D + D/250 carries out of bit %d and is the new required work", e, 64*b)
			}
			if cv.limb["borrowDown"][k] == 0 {
				c.Infra("vacuity: no %s step in which the lower clamp bound D - D/250 borrows across bit %d and is the new required work", e, 64*b)
			}
		}
	}
	for _, b := range []string{"oak", "fix", "asic", "allow", "final"} {
		if cv.boundaries[b] == 0 {
			c.Infra("vacuity: no step at the %s fork height", b)
		}
	}
	// both verdicts of every header defect: the defect alone decides a rejection somewhere, and headers are accepted
	for _, k := range []string{"any=accept", "honest=accept", "attime=accept", "parent=reject:parent", "time=reject:time", "nonce=reject:nonce", "work=reject:work", "nonce=accept"} {
		if cv.decisive[k] == 0 {
			c.Infra("vacuity: ValidateHeader outcome %s never observed", k)
		}
	}
}

// replay re-executes one saved case: the chain is regenerated on the current tree up to the failing
// step and validated again.
func replay(c *vlib.Ctx) {
	b, err := os.ReadFile(c.Replay)
	if err != nil {
		c.Fatal("cannot read replay file: %v", err)
	}
	var f struct {
		Key  string `json:"key"`
		Case struct {
			Desc   chainDesc `json:"desc"`
			Step   int       `json:"step"`
			Clause string    `json:"clause"`
		} `json:"case"`
	}
	if err := json.Unmarshal(b, &f); err != nil || f.Case.Desc.Kind == "" {
		c.Fatal("cannot parse replay file: %v", err)
	}
	d := f.Case.Desc
	d.Thin = 0
	lines := d.run(0, f.Case.Step).lines
	rejects, _ := validate(c, lines)
	for _, rj := range rejects {
		if strings.HasPrefix(rj.msg, "Env.") {
			c.Infra("replay breaks an environment assumption: %s", rj.msg)
			continue
		}
		key, msg := keyOf(rj.msg, lines[rj.line-1])
		c.Violation(key, fmt.Sprintf("clause %s does not hold at trace line %d (replay of %s)", msg, rj.line, describe(d)), map[string]any{"desc": d, "step": f.Case.Step, "clause": msg})
	}
	c.Count(int64(len(lines)), 0)
	c.Finish()
}

// corrupt is the self-test of the expected side (development aid, never set by ./check or MANIFEST commands):
// C13_CORRUPT=<what> falsifies one recorded value of one line before validation. The specification must
// reject the line, and because the re-execution on the real code does not reproduce the falsified line the
// run must end as an infrastructure failure, not as a violation.
func corrupt(c *vlib.Ctx, trace []map[string]any) {
	what := os.Getenv("C13_CORRUPT")
	if what == "" {
		return
	}
	bump := func(m map[string]any, k string) {
		l := append([]int{}, m[k].([]int)...)
		if len(l) == 0 {
			l = []int{1}
		} else {
			l[0] ^= 1
		}
		m[k] = l
	}
	clone := func(m map[string]any) map[string]any {
		o := map[string]any{}
		for k, v := range m {
			o[k] = v
		}
		return o
	}
	n := 0
	for _, ln := range trace {
		if ln["ev"] != "step" || ln["panic"] != "" {
			continue
		}
		if n++; n != 9 {
			continue
		}
		f, h := clone(ln["f"].(map[string]any)), clone(ln["h"].(map[string]any))
		switch what {
		case "T", "D", "W", "depth", "oakW", "oakT", "pt": // both states agree on a wrong value
			bump(f, what)
			bump(h, what)
		case "hfull": // the header-only state differs in one field
			bump(h, "oakTime")
		case "ok": // a wrong verdict for the applied header
			cs := append([]map[string]any{}, ln["cands"].([]map[string]any)...)
			c0 := clone(cs[0])
			c0["ok"] = !c0["ok"].(bool)
			cs[0] = c0
			ln["cands"] = cs
		case "hv":
			hv := append([]bool{}, ln["hv"].([]bool)...)
			hv[2] = !hv[2]
			ln["hv"] = hv
		case "prev", "prevns": // the oldest instant of the window: another second / another nanosecond
			p := append([][]int{}, f["prev"].([][]int)...)
			last := append([]int{}, p[len(p)-1]...)
			if what == "prev" {
				last[0]++
			} else {
				last[1] ^= 1
			}
			p[len(p)-1] = last
			f["prev"], h["prev"] = p, p
		case "x": // the alternating chain differs by one nanosecond of oak time
			x := clone(ln["x"].(map[string]any))
			bump(x, "oakTime")
			ln["x"] = x
		case "dh": // the decoded header leads to another state than the decoded block
			x := clone(ln["dh"].(map[string]any))
			bump(x, "oakTime")
			ln["dh"] = x
		case "okr":
			cs := append([]map[string]any{}, ln["cands"].([]map[string]any)...)
			c0 := clone(cs[3])
			c0["okr"] = !c0["okr"].(bool)
			cs[3] = c0
			ln["cands"] = cs
		default:
			c.Fatal("unknown C13_CORRUPT=%s", what)
		}
		ln["f"], ln["h"] = f, h
		return
	}
}
