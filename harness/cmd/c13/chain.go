package main

import (
	"bytes"
	"encoding/binary"
	"fmt"
	"math/big"
	"math/rand"
	"sort"
	"time"

	"go.sia.tech/core/consensus"
	"go.sia.tech/core/types"
	"verif/harness/vlib"
)

// ---------------------------------------------------------------------------
// chain descriptors: everything needed to re-execute a chain deterministically

// A netDesc is the part of a network that matters for proof of work.
type netDesc struct {
	Oak      uint64 `json:"oak"`
	Fix      uint64 `json:"fix"`
	Asic     uint64 `json:"asic"`
	Allow    uint64 `json:"allow"`
	Final    uint64 `json:"final"`
	Interval int    `json:"interval"` // seconds
	Tgt      int    `json:"tgt"`      // initial target class, see targets
	Factor   uint64 `json:"factor"`
	OakTime  int    `json:"oakTime"` // seconds: the oak time installed by the ASIC reset
}

// initial target classes (difficulty = floor((2^256-1)/target))
//
//	1: difficulty 16      — both outcomes of the work test are found by trying a few nonces
//	2: difficulty 1       — the saturation corner of the legacy target representation
//	3: difficulty 2^32+   — a hard network: unmined headers never meet the target
//	4: difficulty 2^16+
//	5: difficulty 2^199+  — near the documented upper limit
//
// and the classes at which the 64-bit limbs of the implementation's 256-bit work values carry:
//
//	6: 2^64 - 1000          7: 2^63 + 2^60        8: 3*2^64 - 2^56       9: 2^66 + 2^62
//	10: 2^128 - 2^100       11: 2^127 + 2^124     12: 2^192 - 2^150      13: 2^75 + 2^71 (today's mainnet magnitude)
//	14: 2^193 + 2^190
var targets = map[int]types.BlockID{
	1: {0x10},
	2: {0xFF, 0xFF, 0xFF, 0xFF, 0xFF, 0xFF, 0xFF, 0xFF, 0xFF, 0xFF, 0xFF, 0xFF, 0xFF, 0xFF, 0xFF, 0xFF, 0xFF, 0xFF, 0xFF, 0xFF, 0xFF, 0xFF, 0xFF, 0xFF, 0xFF, 0xFF, 0xFF, 0xFF, 0xFF, 0xFF, 0xFF, 0xFF},
	3: {0, 0, 0, 1},
	4: {0, 0, 0xFF},
	5: {24: 0x01, 25: 0xF0},
}

var genesisTime = time.Unix(1618033988, 0)

func pow2(k uint) *big.Int { return new(big.Int).Lsh(big.NewInt(1), k) }

func init() {
	for cls, d := range map[int]*big.Int{
		6:  new(big.Int).Sub(pow2(64), big.NewInt(1000)),
		7:  new(big.Int).Add(pow2(63), pow2(60)),
		8:  new(big.Int).Sub(new(big.Int).Mul(pow2(64), big.NewInt(3)), pow2(56)),
		9:  new(big.Int).Add(pow2(66), pow2(62)),
		10: new(big.Int).Sub(pow2(128), pow2(100)),
		11: new(big.Int).Add(pow2(127), pow2(124)),
		12: new(big.Int).Sub(pow2(192), pow2(150)),
		13: new(big.Int).Add(pow2(75), pow2(71)),
		14: new(big.Int).Add(pow2(193), pow2(190)),
	} {
		targets[cls] = bigID(new(big.Int).Div(maxT, d))
	}
}

// highClass: initial difficulty near the documented upper limit (chains are kept short)
func highClass(tgt int) bool { return tgt == 5 || tgt == 12 || tgt == 14 }

func bigID(x *big.Int) (id types.BlockID) {
	x.FillBytes(id[:])
	return
}

func bigWork(x *big.Int) (w consensus.Work) {
	if err := w.UnmarshalText([]byte(x.String())); err != nil {
		panic(err)
	}
	return
}

func (d netDesc) network() *consensus.Network {
	n := &consensus.Network{
		Name:            "c13",
		InitialCoinbase: types.Siacoins(3), MinimumCoinbase: types.Siacoins(3),
		InitialTarget: targets[d.Tgt], BlockInterval: time.Duration(d.Interval) * time.Second, MaturityDelay: 1,
	}
	n.HardforkOak.Height, n.HardforkOak.FixHeight = d.Oak, d.Fix
	n.HardforkOak.GenesisTimestamp = genesisTime
	n.HardforkASIC.Height, n.HardforkASIC.NonceFactor = d.Asic, d.Factor
	n.HardforkASIC.OakTime = time.Duration(d.OakTime) * time.Second
	n.HardforkASIC.OakTarget = targets[d.Tgt]
	n.HardforkFoundation.Height = d.Asic + 1
	n.HardforkV2.AllowHeight, n.HardforkV2.FinalCutHeight = d.Allow, d.Final
	n.HardforkV2.RequireHeight = (d.Allow + d.Final + 1) / 2
	return n
}

func (d netDesc) tla() map[string]any {
	return map[string]any{"oak": d.Oak, "asic": d.Asic, "allow": d.Allow, "final": d.Final, "interval": d.Interval, "factor": d.Factor}
}

// A chainDesc describes one chain: either a TLC skeleton (explicit timestamps and medians chosen
// by the model) or a seeded random chain under a timestamp regime.
type chainDesc struct {
	Kind   string   `json:"kind"` // "skeleton" | "random" | "mag"
	Net    netDesc  `json:"net"`
	TS     []inst   `json:"ts,omitempty"`  // skeleton: instant of header i (nanoseconds since genesis)
	Med    []inst   `json:"med,omitempty"` // skeleton: the median the model validated it against
	Choice []int    `json:"choice,omitempty"`
	Frac   int      `json:"frac"` // sub-second class of the chain's instants (fracNs)
	Regime int      `json:"regime,omitempty"`
	Seed   int64    `json:"seed,omitempty"`
	Steps  int      `json:"steps"`
	Thin   int      `json:"thin,omitempty"` // random: 0 = log every step; k = log windows (see keep)
	Mag    *magInit `json:"mag,omitempty"`  // mag: the constructed state the chain starts from; Regime = timestamp choice of every header
}

// ---------------------------------------------------------------------------
// logging of real values

var maxT = new(big.Int).Sub(new(big.Int).Lsh(big.NewInt(1), 256), big.NewInt(1))

func idBig(b [32]byte) *big.Int { return new(big.Int).SetBytes(b[:]) }
func workBig(w consensus.Work) *big.Int {
	x, _ := new(big.Int).SetString(w.String(), 10)
	return x
}

// ---------------------------------------------------------------------------
// instants: the specification's <<seconds, nanoseconds>> since the genesis timestamp; the harness keeps them as
// one int64 of nanoseconds

type inst = int64

const giga = 1_000_000_000

func floorDiv(a, b int64) int64 {
	q := a / b
	if a%b != 0 && (a < 0) != (b < 0) {
		q--
	}
	return q
}
func secOf(t inst) int64       { return floorDiv(t, giga) }
func nsOf(t inst) int64        { return t - secOf(t)*giga }
func pair(t inst) []int        { return []int{int(secOf(t)), int(nsOf(t))} }
func instOf(t time.Time) inst  { return (t.Unix()-genesisTime.Unix())*giga + int64(t.Nanosecond()) }
func at(t inst) time.Time      { return genesisTime.Add(time.Duration(t)) }
func whole(sec int64) inst     { return sec * giga }
func fracClassName(f int) string {
	return [...]string{"whole", "plus1ns", "plus999999999ns", "alternating", "random"}[f]
}

// fracNs is the sub-second part of header i of a chain of class f (DifficultySkel!FracNs; class 4, seeded random
// nanoseconds, exists for the long random chains only).
func fracNs(f int, i int, r *rand.Rand) int64 {
	switch f {
	case 1:
		return 1
	case 2:
		return giga - 1
	case 3:
		if i%2 == 1 {
			return giga - 1
		}
		return 0
	case 4:
		return r.Int63n(giga)
	}
	return 0
}

// representations of one instant: the time zone and the monotonic clock reading of a time.Time are not part of the
// instant. All monotonic readings derive from one base, so that differences between them are exact.
var monoBase = time.Now()
var otherZone = time.FixedZone("c13", 5*3600+1800)

func rep(t time.Time, k int) time.Time {
	var u time.Time
	switch k % 3 {
	case 0:
		u = t.UTC()
	case 1:
		u = t.In(otherZone)
	default:
		u = monoBase.Add(t.Sub(monoBase))
	}
	if !u.Equal(t) || u.Unix() != t.Unix() || u.Nanosecond() != t.Nanosecond() {
		panic(fmt.Sprintf("harness: representation %d of %v is another instant: %v", k%3, t, u))
	}
	return u
}

// logState records every proof-of-work field of a state.
func logState(s consensus.State) (m map[string]any, panicked string) {
	n := int(s.Index.Height) + 1
	if n > len(s.PrevTimestamps) {
		n = len(s.PrevTimestamps)
	}
	prev := make([][]int, n)
	for i := range prev {
		prev[i] = pair(instOf(s.PrevTimestamps[i]))
	}
	var pt types.BlockID
	if p, v := vlib.Recover(func() { pt = s.PoWTarget() }); p {
		panicked = fmt.Sprintf("PoWTarget: %v", v)
	}
	ot := int64(s.OakTime)
	neg := ot < 0
	if neg {
		ot = -ot
	}
	return map[string]any{
		"height": int(s.Index.Height), "id": vlib.Limbs(idBig(s.Index.ID)),
		"T": vlib.Limbs(idBig(s.ChildTarget)), "D": vlib.Limbs(workBig(s.Difficulty)),
		"W": vlib.Limbs(workBig(s.TotalWork)), "depth": vlib.Limbs(idBig(s.Depth)),
		"oakW": vlib.Limbs(workBig(s.OakWork)), "oakT": vlib.Limbs(idBig(s.OakTarget)),
		"oakTimeNeg": neg, "oakTime": vlib.Limbs(big.NewInt(ot)),
		"prev": prev, "pt": vlib.Limbs(idBig(pt)),
	}, panicked
}

// ---------------------------------------------------------------------------
// executing a chain on the real code

type stepMeta struct {
	child    uint64
	era      string
	changed  bool              // required work changed in this step
	oakLow   bool              // the oak time before the step was below one second (the retargeting divides by it)
	decisive map[string]string // candidate kind -> "accept" | "reject:<conjunct>" (the only false conjunct) | "reject:multi"
	sig      string            // identity of the step for distinctness
	limbs    limbFacts         // at which magnitude the step took place and which limb boundaries its arithmetic crossed
	frac      int  // sub-second class of the chain
	subsec    bool // the applied instant is not on a whole second
	medSubsec bool // the median the candidates were judged against is not on a whole second
	truncDecides bool // the instant of the "time" candidate is not before the median, its second is
}

type chainRun struct {
	lines []map[string]any
	meta  []*stepMeta // parallel to lines (nil for reset lines)
	step  []int       // step index of each line (0 for the genesis reset)
}

func eraOf(d netDesc, child uint64) string {
	switch {
	case child < d.Allow && child <= d.Oak && child%500 == 0:
		return "ClampPre"
	case child < d.Allow && child <= d.Oak:
		return "NoAdjust"
	case child < d.Allow && child == d.Asic:
		return "AsicReset"
	case child < d.Allow:
		return "ClampOak"
	case child < d.Final:
		return "ClampV2"
	}
	return "ClampFinal"
}

// keep decides which steps of a chain are logged. Thin = 0: all. Thin = k > 0: the first 30, everything
// around a fork height or a pre-Oak retarget, and a window of 12 steps out of every k*12. Thin < 0: only
// the steps around fork heights and pre-Oak retargets (probes).
func (d chainDesc) keep(child uint64, phase uint64) bool {
	if d.Thin == 0 || (d.Thin > 0 && child <= 30) {
		return true
	}
	near := func(h uint64, r uint64) bool { return child+r >= h && child <= h+r }
	n := d.Net
	for _, h := range []uint64{n.Oak, n.Fix, n.Asic, n.Allow, (n.Allow + n.Final + 1) / 2, n.Final} {
		if near(h, 10) {
			return true
		}
	}
	if child <= n.Oak+2 && child >= 400 && near((child+250)/500*500, 2) {
		return true
	}
	if d.Thin < 0 {
		return false
	}
	period := uint64(d.Thin) * 12
	return (child+phase)%period < 12
}

// medianOf is the median of the previous <= 11 instants, from the harness's own history (Difficulty!Median: an
// even count takes the mean of the middle two, floored to the nanosecond). It is used only to construct scenarios
// and for coverage bookkeeping; verdicts come from the specification.
func medianOf(hist []inst) inst {
	n := len(hist)
	if n > 11 {
		n = 11
	}
	w := append([]inst(nil), hist[len(hist)-n:]...)
	sort.Slice(w, func(i, j int) bool { return w[i] < w[j] })
	if n%2 == 1 {
		return w[n/2]
	}
	return floorDiv(w[n/2-1]+w[n/2], 2)
}

// minAdm is the smallest second that is not before the instant m (DifficultySkel!MinAdm).
func minAdm(m inst) int64 {
	if nsOf(m) == 0 {
		return secOf(m)
	}
	return secOf(m) + 1
}

const farFuture = 3600000
const maxOffset = 1 << 29

// pickTimestamp resolves one timestamp choice to a second (same table as DifficultySkel!Resolve); f is the
// sub-second part the header holds in memory. hist holds the seconds of the window (what the state records).
func pickTimestamp(c int, hist []inst, interval int, f int64) inst {
	mc := minAdm(medianOf(hist))
	p := secOf(hist[len(hist)-1])
	iv := int64(interval)
	var cand int64
	switch c {
	case 0:
		cand = p + iv
	case 1:
		cand = mc
	case 2:
		cand = mc + iv
	case 3:
		cand = p + iv/3
	case 4:
		cand = p + 3*iv
	case 5:
		cand = p - 1
	case 6:
		cand = p + farFuture
		if cand > maxOffset {
			cand = p + iv
		}
	default:
		cand = p
	}
	if cand < mc {
		cand = mc
	}
	return whole(cand) + f
}

// regimeTimestamp chooses the next instant of a random chain: the regime chooses the second, f is the sub-second part.
func regimeTimestamp(regime int, r *rand.Rand, st *regimeState, hist []inst, interval int, i int, f int64) inst {
	mc := int(minAdm(medianOf(hist)))
	p := int(secOf(hist[len(hist)-1]))
	ts := p + interval
	switch regime {
	case 0: // honest with jitter
		ts = p + r.Intn(2*interval+1)
	case 1:
		ts = mc
	case 2:
		ts = p + interval/3
	case 3:
		ts = p + 3*interval
	case 4: // around the median, with a far-future block now and then
		if i%50 == 7 && p+farFuture < maxOffset {
			ts = p + farFuture
		} else {
			ts = mc + r.Intn(2*interval+1)
		}
	case 5:
		ts = mc + r.Intn(3)
	case 6: // every step an independent choice
		return pickTimestamp(r.Intn(8), hist, interval, f)
	case 7: // phases of 20..200 steps under one choice
		if st.left == 0 {
			st.left = 20 + r.Intn(181)
			st.choice = r.Intn(8)
			if st.choice == 6 {
				st.left = 1 + r.Intn(3)
			}
		}
		st.left--
		return pickTimestamp(st.choice, hist, interval, f)
	case 8: // decreasing within the rule
		ts = p - 1
	case 9: // alternate fast and slow bursts (oscillation)
		if (i/40)%2 == 0 {
			ts = p + interval/3
		} else {
			ts = p + 3*interval
		}
	}
	if ts > maxOffset {
		ts = p
	}
	if ts < mc {
		ts = mc
	}
	return whole(int64(ts)) + f
}

const nRegimes = 10

type regimeState struct{ left, choice int }

const mineBudget = 3000

// mine searches nonces start*factor+residue, (start+1)*factor+residue, ... for a header whose ID meets
// (wantOK) or misses (!wantOK) the target.
func mine(bh types.BlockHeader, target types.BlockID, residue, factor, start uint64, wantOK bool) (types.BlockHeader, bool) {
	budget := uint64(mineBudget)
	if wantOK && target[0] == 0 && target[1] < 0x10 {
		budget = 1 // a hard network (difficulty > 2^12): an unmined header stands for the honest one
	} else if !wantOK && target[0] == 0xFF && target[1] == 0xFF {
		budget = 8 // (almost) every ID meets the target
	}
	for k := uint64(0); k < budget; k++ {
		bh.Nonce = (start+k)*factor + residue
		ok := bh.ID().CmpWork(target) >= 0
		if ok == wantOK {
			return bh, true
		}
	}
	return bh, false
}

func nonceLimbs(n uint64) []int { return vlib.Limbs(new(big.Int).SetUint64(n)) }

// recode passes a block through its encoding, as a peer receives it.
func recode(b types.Block) (out types.Block, err error) {
	var buf bytes.Buffer
	e := types.NewEncoder(&buf)
	if b.V2 != nil {
		types.V2Block(b).EncodeTo(e)
	} else {
		types.V1Block(b).EncodeTo(e)
	}
	if err = e.Flush(); err != nil {
		return
	}
	d := types.NewBufDecoder(buf.Bytes())
	if b.V2 != nil {
		(*types.V2Block)(&out).DecodeFrom(d)
	} else {
		(*types.V1Block)(&out).DecodeFrom(d)
	}
	return out, d.Err()
}

// recodeHeader passes a header through its encoding.
func recodeHeader(bh types.BlockHeader) (out types.BlockHeader, err error) {
	var buf bytes.Buffer
	e := types.NewEncoder(&buf)
	bh.EncodeTo(e)
	if err = e.Flush(); err != nil {
		return
	}
	d := types.NewBufDecoder(buf.Bytes())
	out.DecodeFrom(d)
	return out, d.Err()
}

// run executes the chain on the real code and returns the trace lines.
// upto > 0 stops after that many steps (replays).
func (d chainDesc) run(chainID int, upto int) *chainRun {
	out := &chainRun{}
	n := d.Net.network()
	r := rand.New(rand.NewSource(d.Seed*1000003 + int64(chainID)))
	fr := rand.New(rand.NewSource(d.Seed*7368787 + int64(chainID))) // sub-second parts of class 4
	interval := d.Net.Interval
	steps := d.Steps
	if upto > 0 && upto < steps {
		steps = upto
	}
	phase := uint64(r.Intn(1 << 20))

	genesis := types.Block{Timestamp: genesisTime}
	var cs consensus.State
	if d.Kind == "mag" {
		d.Mag.network(n)
	}
	if p, v := vlib.Recover(func() {
		cs, _ = consensus.ApplyBlock(n.GenesisState(), genesis, consensus.V1BlockSupplement{}, time.Time{})
	}); p {
		stub, _ := logState(consensus.State{Network: n})
		out.add(map[string]any{"ev": "reset", "chain": chainID, "i": 0, "cont": false, "net": d.Net.tla(), "s": stub, "panic": fmt.Sprintf("ApplyBlock(genesis): %v", v)}, &stepMeta{}, 0)
		return out
	}
	tsHist := []time.Time{genesis.Timestamp}
	offs := []inst{0}
	if d.Kind == "mag" {
		// the chain starts from a constructed state: the history behind it is on schedule
		cs = d.Mag.state(cs, d.Net)
		for h := 1; h <= int(d.Mag.Start); h++ {
			offs = append(offs, whole(int64(h*interval)))
			tsHist = append(tsHist, at(whole(int64(h*interval))))
		}
	}
	hs, xs := cs, cs
	ids := []types.BlockID{cs.Index.ID}
	reset := func(cont bool, i int) {
		s, pn := logState(cs)
		out.add(map[string]any{"ev": "reset", "chain": chainID, "i": i, "cont": cont, "net": d.Net.tla(), "s": s, "panic": pn}, nil, i)
	}
	reset(false, 0)
	logged := true
	rst := &regimeState{}
	segLen := 0

	for i := 1; i <= steps; i++ {
		child := cs.Index.Height + 1
		// ---- scenario: the instant
		var tsOff, med inst
		f := fracNs(d.Frac, i, fr)
		if d.Kind == "skeleton" {
			tsOff, med = d.TS[i-1], d.Med[i-1]
		} else if d.Kind == "mag" {
			tsOff = pickTimestamp(d.Regime, offs, interval, f)
		} else {
			tsOff = regimeTimestamp(d.Regime, r, rst, offs, interval, i, f)
		}
		ts := at(tsOff)
		var anc time.Time // the ancestor a node would supply: 1000 blocks back, or genesis
		if child > 1000 {
			anc = tsHist[len(tsHist)-1000]
		} else {
			anc = tsHist[0]
		}
		b := types.Block{ParentID: cs.Index.ID, Timestamp: ts, MinerPayouts: []types.SiacoinOutput{{Value: cs.BlockReward(), Address: types.VoidAddress}}}
		if child >= n.HardforkV2.RequireHeight {
			b.V2 = &types.V2BlockData{Height: child, Commitment: cs.Commitment(types.VoidAddress, nil, nil)}
		}
		keep := d.keep(child, phase)
		if keep && !logged {
			reset(false, i-1) // steps were skipped: re-seed the specification's state
			segLen = 0
		} else if keep && segLen >= segmentMax {
			reset(true, i-1) // cut: same state, lets TLC validate segments in parallel
			segLen = 0
		}
		logged = keep
		prevCs, prevHs, prevXs := cs, hs, xs
		line := map[string]any{"ev": "step", "chain": chainID, "i": i, "panic": ""}
		meta := &stepMeta{child: child, era: eraOf(d.Net, child), decisive: map[string]string{}, frac: d.Frac, subsec: nsOf(tsOff) != 0}
		// the factor the specification demands of the child's nonce (Difficulty!Factor, over naturals: child < asic);
		// the candidates are built from the scenario, never from what the code under test believes
		factor := uint64(1)
		if child >= d.Net.Asic && d.Net.Factor > 1 {
			factor = d.Net.Factor
		}
		target := idBig(cs.PoWTarget())
		hdr := b.Header()

		if keep {
			// ---- candidate headers, validated against the state before the step
			if d.Kind != "skeleton" {
				med = medianOf(offs)
			}
			wrong := cs.Index.ID
			if len(ids) >= 2 && r.Intn(2) == 0 {
				wrong = ids[len(ids)-2] // the grandparent
			} else {
				wrong[r.Intn(32)] ^= 1 << uint(r.Intn(8))
			}
			start := uint64(r.Int63n(1 << 40))
			type cand struct {
				kind    string
				bh      types.BlockHeader
				residue uint64
				wantOK  bool
			}
			h2 := hdr
			h2.ParentID = wrong
			// the last second before the median with the largest sub-second part (its instant may lie after the
			// median: the second decides), and the first admissible second with the sub-second part of the step
			h3 := hdr
			h3.Timestamp = at(whole(minAdm(med)-1) + giga - 1)
			h4 := hdr
			h4.Timestamp = at(whole(minAdm(med)) + nsOf(tsOff))
			meta.truncDecides = whole(minAdm(med)-1)+giga-1 >= med
			res := uint64(0)
			if factor > 1 {
				res = 1 + uint64(r.Int63n(int64(factor-1)))
			}
			cands := []cand{{"honest", hdr, 0, true}, {"parent", h2, 0, true}, {"time", h3, 0, true}, {"attime", h4, 0, true}, {"nonce", hdr, res, true}, {"work", hdr, 0, false}}
			var logc []map[string]any
			for ci, c := range cands {
				bh, _ := mine(c.bh, cs.PoWTarget(), c.residue, factor, start, c.wantOK)
				if ci == 0 {
					hdr = bh
					b.Nonce = bh.Nonce
				}
				// ... the same header with its instant in another representation
				bhr := bh
				bhr.Timestamp = rep(bh.Timestamp, chainID+i+ci)
				var e1, e2, e3, e4 error
				if p, v := vlib.Recover(func() {
					e1 = consensus.ValidateHeader(cs, bh)
					e2 = consensus.ValidateHeader(hs, bh)
					e3 = consensus.ValidateHeader(cs, bhr)
					// ... and as it comes back from its encoding
					bhd, err := recodeHeader(bh)
					if err != nil || bhd.ID() != bh.ID() {
						panic(fmt.Sprintf("the header does not come back from its encoding (%v)", err))
					}
					e4 = consensus.ValidateHeader(cs, bhd)
				}); p {
					line["panic"] = fmt.Sprintf("ValidateHeader(%s): %v", c.kind, v)
				}
				pi := 1
				if bh.ParentID != cs.Index.ID {
					pi = 2
				}
				id := bh.ID()
				logc = append(logc, map[string]any{"k": c.kind, "p": pi, "ts": pair(instOf(bh.Timestamp)), "nonce": nonceLimbs(bh.Nonce),
					"id": vlib.Limbs(idBig(id)), "ok": e1 == nil, "okh": e2 == nil, "okr": e3 == nil, "okd": e4 == nil})
				// coverage bookkeeping (not a verdict): which conjuncts hold
				var bad []string
				if pi != 1 {
					bad = append(bad, "parent")
				}
				if whole(secOf(instOf(bh.Timestamp))) < medianOf(offs) {
					bad = append(bad, "time")
				}
				if bh.Nonce%factor != 0 {
					bad = append(bad, "nonce")
				}
				if idBig(id).Cmp(target) > 0 {
					bad = append(bad, "work")
				}
				switch len(bad) {
				case 0:
					meta.decisive[c.kind] = "accept"
				case 1:
					meta.decisive[c.kind] = "reject:" + bad[0]
				default:
					meta.decisive[c.kind] = "reject:multi"
				}
			}
			line["cands"] = logc
			line["parents"] = [][]int{vlib.Limbs(idBig(cs.Index.ID)), vlib.Limbs(idBig(wrong))}
			line["hasMed"], line["med"] = d.Kind == "skeleton", pair(med)
			meta.medSubsec = nsOf(medianOf(offs)) != 0
		}

		// ---- the step itself: header-only and full, in lock-step
		if p, v := vlib.Recover(func() { cs, _ = consensus.ApplyBlock(prevCs, b, consensus.V1BlockSupplement{}, anc) }); p {
			line["panic"] = fmt.Sprintf("ApplyBlock: %v", v)
		}
		if p, v := vlib.Recover(func() { hs = consensus.ApplyHeader(prevHs, b.Header(), anc) }); p {
			line["panic"] = fmt.Sprintf("ApplyHeader: %v", v)
		}
		// ---- a third chain: the entry points in alternation, every instant in another representation
		xb := b
		xb.Timestamp = rep(ts, chainID+i)
		if p, v := vlib.Recover(func() {
			if i%2 == 0 {
				xs = consensus.ApplyHeader(prevXs, xb.Header(), anc)
			} else {
				xs, _ = consensus.ApplyBlock(prevXs, xb, consensus.V1BlockSupplement{}, anc)
			}
		}); p {
			line["panic"] = fmt.Sprintf("ApplyHeader/ApplyBlock(alternating): %v", v)
		}
		if line["panic"] != "" {
			if !keep { // a panic in a step that was not going to be logged: log it after re-seeding the state before it
				cs = prevCs
				reset(false, i-1)
			}
			out.add(line, meta, i)
			return out
		}
		tsHist = append(tsHist, ts)
		offs = append(offs, whole(secOf(tsOff))) // the window holds the encoded second
		ids = append(ids, cs.Index.ID)
		if !keep {
			continue
		}
		segLen++
		var pn1, pn2, pn3 string
		line["f"], pn1 = logState(cs)
		line["h"], pn2 = logState(hs)
		line["x"], pn3 = logState(xs)
		if pn1+pn2+pn3 != "" {
			line["panic"] = pn1 + pn2 + pn3
		}
		// ---- the block and the header as they come back from their encoding, applied to the state before the step
		var df, dh consensus.State
		if p, v := vlib.Recover(func() {
			db, err := recode(b)
			if err != nil || db.ID() != b.ID() {
				panic(fmt.Sprintf("the block does not come back from its encoding (%v)", err))
			}
			dbh, err := recodeHeader(b.Header())
			if err != nil || dbh.ID() != b.ID() {
				panic(fmt.Sprintf("the header does not come back from its encoding (%v)", err))
			}
			df, _ = consensus.ApplyBlock(prevCs, db, consensus.V1BlockSupplement{}, anc)
			dh = consensus.ApplyHeader(prevHs, dbh, anc)
		}); p {
			line["panic"] = fmt.Sprintf("Decode(Encode): %v", v)
		}
		var pn4, pn5 string
		line["df"], pn4 = logState(df)
		line["dh"], pn5 = logState(dh)
		if line["panic"] == "" && pn4+pn5 != "" {
			line["panic"] = pn4 + pn5
		}
		// ---- fork choice: a sibling of the new tip (same parent, another admissible timestamp)
		altOff := whole(minAdm(medianOf(offs[:len(offs)-1]))+int64(r.Intn(2*interval+1))) + nsOf(tsOff)
		if altOff == tsOff {
			altOff += giga
		}
		alt := hdr
		alt.Timestamp = at(altOff)
		var sib consensus.State
		hv := make([]bool, 4)
		if p, v := vlib.Recover(func() {
			sib = consensus.ApplyHeader(prevHs, alt, anc)
			hv[0], hv[1] = hs.SufficientlyHeavierThan(sib), sib.SufficientlyHeavierThan(hs)
			hv[2], hv[3] = cs.SufficientlyHeavierThan(prevCs), prevCs.SufficientlyHeavierThan(cs)
		}); p {
			line["panic"] = fmt.Sprintf("sibling/SufficientlyHeavierThan: %v", v)
		}
		line["sib"] = map[string]any{"W": vlib.Limbs(workBig(sib.TotalWork)), "D": vlib.Limbs(workBig(sib.Difficulty))}
		line["hv"] = hv
		meta.limbs = limbFactsOf(prevCs, cs, meta.era)
		meta.changed = prevCs.Difficulty != cs.Difficulty
		meta.oakLow = prevCs.OakTime < time.Second
		var sig [8]byte
		binary.LittleEndian.PutUint64(sig[:], uint64(tsOff))
		meta.sig = fmt.Sprintf("%v|%x|%x|%x|%x", d.Net, prevCs.Difficulty, prevCs.OakWork, int64(prevCs.OakTime), sig)
		out.add(line, meta, i)
		if line["panic"] != "" {
			return out
		}
	}
	return out
}

const segmentMax = 60

func (cr *chainRun) add(line map[string]any, m *stepMeta, i int) {
	cr.lines = append(cr.lines, line)
	cr.meta = append(cr.meta, m)
	cr.step = append(cr.step, i)
}
