// C05 — element proofs survive every apply/revert; roots equal the true Merkle forest.
//
//  1. TLC checks spec/acc/Accumulator.tla (definition layer: naive forest over symbolic
//     leaf hashes; algorithm layer: transcription of consensus/merkle.go) exhaustively:
//     every initial forest of n0 <= N leaves, every updated subset U, every k <= 5 added
//     leaves, then the revert; plus the base specification with two consecutive blocks on
//     small forests; plus -simulate histories of 12 steps on forests up to 40 leaves.
//  2. Direction A, one implementation test per model transition: every behaviour TLC
//     printed is replayed on the REAL accumulator through the verif export shim on real
//     elements of all six kinds; the expected roots and proofs arrive as terms and are
//     evaluated with the real leaf hash and blake2b.SumPair (package hterm) and compared
//     entry by entry (Trees, NumLeaves, every tracked proof, block copies, containsLeaf).
//  3. Beyond TLC's bound the specification's DEFINITIONS (NaiveRoots, NaivePath in the
//     compact R(i,j) form) are evaluated in Go over real leaf hashes: all sizes 1..256 with
//     structured subsets, random subsets up to 2^12 leaves, apply/revert interleavings.
//  4. The same through the public API: a real v2 chain (chain.go).
//  5. Block level: spec/acc/AccBlocks.tla models WHICH leaves a block hands to the accumulator and with
//     which flags (elements created and spent / revised / resolved inside one block enter with the flags
//     the diffs report); TLC enumerates every small block exhaustively and simulates longer histories;
//     every behaviour is replayed as real signed blocks through ValidateBlock / ApplyBlock / RevertBlock and
//     State.Elements, every tracked proof and ForEachTreeNode are compared with the model's forest (blocks.go).
package main

import (
	"encoding/json"
	"fmt"
	"hash/fnv"
	"math/bits"
	"math/rand"
	"os"
	"runtime"
	"sort"
	"strings"
	"sync"
	"time"

	"verif/harness/hterm"
	"verif/harness/vlib"
)

// ---------------------------------------------------------------------------
// TLC behaviours

type jsnap struct {
	N      uint64     `json:"n"`
	Trees  []string   `json:"trees"`
	Proofs [][]string `json:"proofs"`
	Meta   [][3]int   `json:"meta"`
}

type jstep struct {
	Op string `json:"op"`
	U  []int  `json:"U"`
	K  int    `json:"k"`
	S  jsnap  `json:"s"`
}

func snapExpect(s jsnap) (*expect, error) {
	e := &expect{n: s.N, trees: map[int]*hterm.Term{}}
	for h, t := range s.Trees {
		if t == "" {
			continue
		}
		tt, err := hterm.Parse(t)
		if err != nil {
			return nil, err
		}
		if tt.Height() != h || tt.Size() != 1<<h {
			return nil, fmt.Errorf("tree term at height %d has height %d and %d leaves", h, tt.Height(), tt.Size())
		}
		e.trees[h] = tt
	}
	for _, p := range s.Proofs {
		ts, err := hterm.ParseList(p)
		if err != nil {
			return nil, err
		}
		e.proofs = append(e.proofs, ts)
	}
	for _, m := range s.Meta {
		e.metas = append(e.metas, meta{Ver: m[1], Spent: m[2] == 1})
	}
	if len(e.proofs) != int(s.N) || len(e.metas) != int(s.N) {
		return nil, fmt.Errorf("snapshot with n=%d has %d proofs and %d metas", s.N, len(e.proofs), len(e.metas))
	}
	return e, nil
}

type behaviour struct {
	sc   scenario
	exps []*expect
	raw  string
}

func parseBehaviour(raw string) (*behaviour, error) {
	var js []jstep
	if err := json.Unmarshal([]byte(raw), &js); err != nil {
		return nil, fmt.Errorf("%v in %s", err, vlib.Tail(raw, 200))
	}
	if len(js) == 0 || js[0].Op != "init" {
		return nil, fmt.Errorf("behaviour does not start with init")
	}
	b := &behaviour{raw: raw}
	b.sc.N0 = js[0].K
	for i, s := range js {
		e, err := snapExpect(s.S)
		if err != nil {
			return nil, err
		}
		b.exps = append(b.exps, e)
		if i == 0 {
			continue
		}
		sort.Ints(s.U)
		switch s.Op {
		case "apply":
			b.sc.Steps = append(b.sc.Steps, step{U: s.U, K: s.K})
		case "revert":
			b.sc.Steps = append(b.sc.Steps, step{Revert: true})
		default:
			return nil, fmt.Errorf("unknown op %q", s.Op)
		}
	}
	return b, nil
}

// behaviours returns the behaviours TLC printed, unparsed: the terms of one behaviour are parsed by
// the worker that replays it and dropped afterwards (the parsed terms of a whole thorough run would
// occupy gigabytes).
func behaviours(res *vlib.TLCResult) []string {
	var out []string
	for _, ln := range res.Lines {
		if strings.HasPrefix(ln, "BEH ") {
			out = append(out, vlib.UnquoteTLA(strings.TrimSpace(strings.TrimPrefix(ln, "BEH "))))
		}
	}
	return out
}

// ---------------------------------------------------------------------------
// replay of scenarios on the real code, in parallel

type job struct {
	part        string
	sc          scenario
	exps        []*expect
	raw         string
	salt        uint64
	containsAll bool
}

type totals struct {
	mu         sync.Mutex
	st         *stats
	steps      int64
	nontrivial int64
	scenarios  int64
	tlcSteps   int64 // steps of the TLC behaviours parsed by the workers
	distinct   map[uint64]struct{} // hashes of the keys of the distinct non-trivial steps
}

func keyHash(s string) uint64 {
	h := fnv.New64a()
	h.Write([]byte(s))
	return h.Sum64()
}

func runJobs(c *vlib.Ctx, tot *totals, jobs []job) {
	workers := max(2, min(8, runtime.NumCPU()/2))
	ch := make(chan job)
	var wg sync.WaitGroup
	for wk := 0; wk < workers; wk++ {
		wg.Add(1)
		go func() {
			defer wg.Done()
			st := newStats()
			defCache := map[uint64]*expect{}
			var steps, nontriv, scen int64
			keys := map[uint64]struct{}{}
			for j := range ch {
				if j.raw != "" && j.exps == nil {
					b, err := parseBehaviour(j.raw)
					if err != nil {
						c.Fatal("cannot read a behaviour printed by TLC: %v", err)
					}
					j.sc, j.exps = b.sc, b.exps
					tot.mu.Lock()
					tot.tlcSteps += int64(len(b.sc.Steps))
					tot.mu.Unlock()
				}
				w := newWorld(j.salt, st)
				w.containsAll = j.containsAll
				res := w.run(c, j.sc, j.exps, defCache)
				steps += int64(res.steps)
				scen++
				// distinct non-trivial steps: (leaf count before, U, k) / (revert: target and undo stack)
				n, stack := j.sc.N0, []string{}
				st.maxLeaves = max(st.maxLeaves, n)
				for i, s := range j.sc.Steps {
					if i+1 >= len(res.changed) {
						break
					}
					var key string
					if s.Revert {
						key = "r" + stack[len(stack)-1] + "|" + strings.Join(stack[:len(stack)-1], "|")
						fmt.Sscanf(stack[len(stack)-1], "a%d:", &n)
						stack = stack[:len(stack)-1]
					} else {
						key = fmt.Sprintf("a%d:%v:%d", n, s.U, s.K)
						stack = append(stack, key)
						n += s.K
					}
					if res.changed[i+1] {
						nontriv++
						keys[keyHash(key)] = struct{}{}
					}
					st.maxLeaves = max(st.maxLeaves, n)
				}
				if res.fail != nil {
					payload := map[string]any{"part": j.part, "salt": j.salt, "scenario": j.sc, "failed_step": res.failStep, "contains_all": j.containsAll}
					if j.raw != "" {
						payload["tlc_behaviour"] = j.raw
					}
					c.Violation(res.fail.key, fmt.Sprintf("[%s, n0=%d, step %d of %d] %s", j.part, j.sc.N0, res.failStep, len(j.sc.Steps), res.fail.what), payload)
				}
			}
			tot.mu.Lock()
			tot.st.merge(st)
			tot.steps += steps
			tot.nontrivial += nontriv
			tot.scenarios += scen
			for k := range keys {
				tot.distinct[k] = struct{}{}
			}
			tot.mu.Unlock()
		}()
	}
	for _, j := range jobs {
		ch <- j
	}
	close(ch)
	wg.Wait()
}

// ---------------------------------------------------------------------------
// TLC runs

func casesCfg(minInit, maxInit, minAdd, maxAdd int) string {
	maxLeaves := maxInit + maxAdd
	maxH := bits.Len(uint(maxLeaves)) - 1
	return fmt.Sprintf(`SPECIFICATION CSpec
CONSTANTS
  MaxH = %d
  MinAdd = %d
  MaxAdd = %d
  MaxLeaves = %d
  MinInit = %d
  MaxInit = %d
  MaxUndo = 1
INVARIANTS CountMatches RootsMatchNaive ProofsMatchNaive ProofsVerify
PROPERTIES RevertRestores
CHECK_DEADLOCK FALSE
`, maxH, minAdd, maxAdd, maxLeaves, minInit, maxInit)
}

func mcCfg(maxInit, maxUndo int) string {
	maxLeaves := maxInit + 5*maxUndo
	maxH := bits.Len(uint(maxLeaves)) - 1
	return fmt.Sprintf(`SPECIFICATION Spec
CONSTANTS
  MaxH = %d
  MaxAdd = 5
  MaxLeaves = %d
  MaxInit = %d
  MaxUndo = %d
INVARIANTS CountMatches RootsMatchNaive ProofsMatchNaive ProofsVerify
PROPERTIES RevertRestores
CHECK_DEADLOCK FALSE
`, maxH, maxLeaves, maxInit, maxUndo)
}

func main() {
	c := vlib.Start("C05")
	if c.Replay != "" {
		replay(c)
		c.Finish()
	}
	c.Rule("Cases are behaviours of spec/acc/Accumulator.tla replayed on the real ElementAccumulator through the verif shim, on real elements of six kinds. " +
		"(1) TLC-emitted (the core): every (n0<=N, U subset of the n0 leaves, k<=5) followed by its revert [AccCases], and -simulate histories of 12 apply/revert steps on forests <=40 leaves [AccHist]; expected Trees/NumLeaves/proofs arrive as N(l,r) terms over leaf tokens and are evaluated with the real leaf hash and blake2b.SumPair. " +
		"(2) Beyond TLC's bound, SPEC DEFINITIONS EVALUATED IN GO: NaiveRoots/NaivePath in the compact R(i,j) form (cross-checked, by text equality of the expansion, against every TLC-printed term) evaluated by hterm.PerfectRoots over real leaf hashes: every size 1..256 with subsets of size<=2 at structured positions (first, last, either side of every tree boundary and merge point of n and n+k), random subsets on sizes up to 2^12, apply/revert interleavings to depth 12. " +
		"(3) Public API: a real v2 chain (ApplyBlock/RevertBlock, UpdateElementProof, ForEachTreeNode, State.Elements) compared with the naive forest over the real leaf hashes. " +
		"(4) TLC-emitted BLOCK histories [AccBlocks]: abstract v1/v2 transactions over the forest's elements and over elements created earlier in the same block (ephemeral siacoin/siafund outputs v1->v1, v1->v2, v2->v2; v1 contracts formed+revised, formed+proved, revised+proved in one block; v2 contracts revised twice, revised+renewed; supplement expirations); exhaustively every block of <=2 (thorough: 3) transactions on a genesis forest followed by its revert, and -simulate histories of 12-14 blocks/reverts; the model derives the diff list, the leaves with the flags the diffs report, roots and proofs as terms; the harness builds the real signed blocks (ValidateBlock must accept), applies/reverts them and compares State.Elements, every tracked proof, containsLeaf with the model's status, the status reported by the diffs, and ForEachTreeNode. " +
		"evaluations = steps (initial build, apply, revert, chain block, chain revert, model block, model revert) executed on the real code and compared entry by entry; one step is distinct by (leaf count, U, k | revert target and undo stack | leaf count and abstract block) and non-trivial if it changed the proof of at least one element that existed before and after the step.")
	c.Assume("hash terms are injective: results are relative to collision resistance of blake2b")
	c.Assume("consensus/verif_export.go (build tag verif) forwards to the unexported originals without adding behaviour")
	c.Assume("AccBlocks.tla's account of what a block may contain (validation.go) and of the order in which application.go records element diffs is a transcription: a disagreement about admissibility or leaf ORDER stops the run as an infrastructure failure, it is never a verdict")
	c.Assume("TLC-emitted expectations are the model's state variables, which TLC proved equal to the definition layer (RootsMatchNaive, ProofsMatchNaive) on every emitted state")

	tot := &totals{st: newStats(), distinct: map[uint64]struct{}{}}
	t0 := time.Now()

	// --- 1. exhaustive cases: TLC checks and emits, the harness replays ---------------------
	// one TLC run per span (n0 range, k range): TLC's output is capped at 256 MiB per run
	// (measured on 8 workers, shared machine: n0<=8 5 s; n0<=11 25 s/24 561 cases; n0=12 50 s/24 575 cases)
	type span struct{ lo, hi, klo, khi int }
	spans := []span{{0, 8, 0, 5}}
	if c.Thorough {
		spans = []span{{0, 11, 0, 5}, {12, 12, 0, 5}, {13, 13, 0, 2}, {13, 13, 3, 5}}
	}
	var first *behaviour
	nCases := 0
	for _, sp := range spans {
		res := c.MustTLC(vlib.TLCOpts{SpecDirs: []string{"acc"}, Module: "AccCases", ConfText: casesCfg(sp.lo, sp.hi, sp.klo, sp.khi), Workers: 8, Timeout: 15 * time.Minute})
		bs := behaviours(res)
		want := 0
		for n := sp.lo; n <= sp.hi; n++ {
			want += (sp.khi - sp.klo + 1) << n
			if sp.klo == 0 {
				want-- // U = {} and k = 0 is no block
			}
		}
		if len(bs) != want || res.Distinct != int64(4*want) {
			c.Fatal("AccCases n0 in %d..%d, k in %d..%d: %d behaviours printed, %d states; expected %d and %d", sp.lo, sp.hi, sp.klo, sp.khi, len(bs), res.Distinct, want, 4*want)
		}
		jobs := make([]job, len(bs))
		for i, raw := range bs {
			jobs[i] = job{part: "tlc-case", raw: raw, salt: uint64(c.Seed)<<32 + uint64(nCases+i), containsAll: true}
		}
		if first == nil {
			var err error
			if first, err = parseBehaviour(bs[len(bs)/2]); err != nil {
				c.Fatal("cannot read a behaviour printed by TLC: %v", err)
			}
		}
		runJobs(c, tot, jobs)
		nCases += len(bs)
		c.Traces(int64(len(bs)))
	}
	c.Cov("tlc_cases_replayed", nCases)
	c.Cov("tlc_cases_max_n0", spans[len(spans)-1].hi)
	tCases := time.Since(t0)

	// --- 1b. base specification, two consecutive blocks from every small forest -------------
	t1 := time.Now()
	// (measured: MaxInit 2 -> 7 923 states, 14 s; 3 -> 32 110 states, 70 s; 4 -> 128 873 states, 8.6 min)
	if os.Getenv("VERIF_C05_SKIP_MC2") == "" { // development aid for mutant runs: this part does not touch the code
		res := c.MustTLC(vlib.TLCOpts{SpecDirs: []string{"acc"}, Module: "Accumulator", ConfText: mcCfg(c.Pick(2, 3), 2), Workers: 8, Timeout: 15 * time.Minute})
		c.Cov("mc_two_blocks_states", res.Distinct)
	}
	tMC := time.Since(t1)

	// --- 1c. longer histories from -simulate ---------------------------------------------------
	t2 := time.Now()
	simWorkers := 8
	hres, err := c.TLC(vlib.TLCOpts{SpecDirs: []string{"acc"}, Module: "AccHist", Config: "AccHist.cfg", Workers: simWorkers,
		Simulate: fmt.Sprintf("num=%d", c.Pick(25, 250)), Depth: 16, Seed: c.Seed, Timeout: 15 * time.Minute})
	if err != nil {
		c.Fatal("AccHist: %v", err)
	}
	if hres.Violated != "" {
		c.Fatal("model-internal failure in AccHist (%s): %s", hres.Violated, vlib.Tail(hres.Out, 1500))
	}
	hs := behaviours(hres)
	if len(hs) < simWorkers*c.Pick(25, 250)*8/10 {
		c.Fatal("AccHist printed only %d behaviours", len(hs))
	}
	var hjobs []job
	for i, raw := range hs {
		hjobs = append(hjobs, job{part: "tlc-history", raw: raw, salt: uint64(c.Seed)<<32 + 1<<28 + uint64(i), containsAll: true})
	}
	before := tot.tlcSteps
	runJobs(c, tot, hjobs)
	hstates := tot.tlcSteps - before + int64(len(hs)) // states of the simulated behaviours
	c.AddStates(hstates, hstates)
	c.Traces(int64(len(hs)))
	c.Cov("tlc_histories_replayed", len(hs))
	tHist := time.Since(t2)
	tlcSteps := tot.steps

	// --- binding demonstration on the expected side: a corrupted expectation must be rejected --
	selftest(c, first)

	// --- 2. beyond TLC's bound: the specification's definitions evaluated in Go ------------------
	t3 := time.Now()
	r := rand.New(rand.NewSource(c.Seed))
	var jobs []job
	for n := 1; n <= 256; n++ {
		for _, sc := range sweepScenarios(r, n, c.Thorough) {
			jobs = append(jobs, job{part: "go-structured", sc: sc, salt: r.Uint64(), containsAll: false})
		}
	}
	nSweep := len(jobs)
	for i := 0; i < c.Pick(40, 1200); i++ {
		jobs = append(jobs, job{part: "go-random", sc: randomScenario(r, 12), salt: r.Uint64(), containsAll: false})
	}
	for i := 0; i < c.Pick(400, 12000); i++ {
		sc := interleaving(r, 12)
		jobs = append(jobs, job{part: "go-interleaving", sc: sc, salt: r.Uint64(), containsAll: sc.N0 <= 48})
	}
	// heavy jobs first
	sort.SliceStable(jobs, func(i, j int) bool { return weight(jobs[i].sc) > weight(jobs[j].sc) })
	runJobs(c, tot, jobs)
	c.Cov("go_structured_scenarios", nSweep)
	c.Cov("go_steps", tot.steps-tlcSteps)
	tGo := time.Since(t3)

	// --- 3. public API ---------------------------------------------------------------------------
	t4 := time.Now()
	chainSteps, chainNontrivial := runChains(c, tot.st)
	tChain := time.Since(t4)

	// --- 4. block histories of AccBlocks.tla through the public API ---------------------------------
	t5 := time.Now()
	blockSteps, blockDistinct := runBlockHistories(c, tot.st)
	tBlocks := time.Since(t5)

	// --- evidence ----------------------------------------------------------------------------------
	st := tot.st
	c.Count(tot.steps+chainSteps+blockSteps, int64(len(tot.distinct))+chainNontrivial+blockDistinct)
	c.Cov("steps_replayed_tlc", tlcSteps)
	c.Cov("steps_changing_an_existing_proof", tot.nontrivial)
	c.Cov("scenarios", tot.scenarios)
	c.Cov("tree_heights_seen", st.heightsSeen())
	c.Cov("tracked_proofs_compared", st.trackedBy)
	c.Cov("contains_checks", st.contains)
	c.Cov("reverts", st.reverts)
	c.Cov("applies_U_empty", st.uEmpty)
	c.Cov("applies_U_nonempty", st.uNonEmpty)
	c.Cov("applies_k_zero", st.kZero)
	c.Cov("applies_k_positive", st.kPos)
	c.Cov("applies_with_tree_growth", st.growth)
	c.Cov("snapshots_crosschecked_go_defs_vs_tlc_terms", st.crossChecked)
	c.Cov("max_leaves", st.maxLeaves)
	c.Cov("wall_s_by_part", map[string]float64{"tlc_cases": tCases.Seconds(), "tlc_mc2": tMC.Seconds(), "tlc_histories": tHist.Seconds(), "go_defs": tGo.Seconds(), "chain": tChain.Seconds(), "blocks": tBlocks.Seconds()})
	c.Sample(map[string]any{"part": "tlc-case", "behaviour": json.RawMessage(first.raw)})

	// vacuity guards (meaningless once a violation has cut scenarios short)
	if c.NViolations() > 0 {
		c.Finish()
	}
	maxH := 12
	for h := 0; h <= maxH; h++ {
		if st.heights[h] == 0 {
			c.Infra("vacuity: no forest with a tree of height %d was compared", h)
		}
	}
	for _, cl := range []string{"old", "updated", "added", "spent"} {
		if st.trackedBy[cl] == 0 {
			c.Infra("vacuity: no %s tracked element was compared", cl)
		}
	}
	guard := func(n int64, what string) {
		if n == 0 {
			c.Infra("vacuity: %s never occurred", what)
		}
	}
	guard(st.uEmpty, "a block with U empty")
	guard(st.uNonEmpty, "a block with U non-empty")
	guard(st.kZero, "a block adding no leaf")
	guard(st.kPos, "a block adding leaves")
	guard(st.reverts, "a revert")
	guard(st.growth, "a merge with non-empty treeGrowth (an existing proof growing)")
	guard(st.crossChecked, "a cross-check of the Go-side definitions against TLC terms")
	guard(tot.nontrivial, "a step changing an existing proof")
	if c.NViolations() == 0 && os.Getenv("VERIF_C05_VERBOSE") != "" {
		fmt.Printf("C05 parts: cases %.1fs mc2 %.1fs hist %.1fs go %.1fs chain %.1fs blocks %.1fs\n", tCases.Seconds(), tMC.Seconds(), tHist.Seconds(), tGo.Seconds(), tChain.Seconds(), tBlocks.Seconds())
	}
	c.Finish()
}

func weight(sc scenario) int {
	w := sc.N0
	for _, s := range sc.Steps {
		w += s.K
	}
	return w * (len(sc.Steps) + 1)
}

// ---------------------------------------------------------------------------
// Go-side scenario generators (part 2)

// positions: first, last, and either side of every tree boundary / top merge point of the
// forests of n and n+k leaves.
func positions(n int, ks []int) []int {
	set := map[int]bool{0: true, n - 1: true}
	add := func(b int) {
		for _, p := range []int{b - 1, b} {
			if p >= 0 && p < n {
				set[p] = true
			}
		}
	}
	for _, k := range append([]int{0}, ks...) {
		m := n + k
		for h := 0; h < 20; h++ {
			if m&(1<<h) != 0 {
				s := m &^ (1<<(h+1) - 1)
				add(s)          // where the tree of height h starts
				add(s + 1<<h/2) // its top merge point
				add(s + 1<<h)   // where it ends
			}
		}
	}
	var out []int
	for p := range set {
		out = append(out, p)
	}
	sort.Ints(out)
	return out
}

func nextPow2Gap(n int) int {
	p := 1
	for p <= n {
		p <<= 1
	}
	return p - n
}

// sweepScenarios: for one size n, chains of apply(U,k)/revert over all U of size <= 2 at
// structured positions (quick: all singles, a sample of the pairs).
func sweepScenarios(r *rand.Rand, n int, thorough bool) []scenario {
	ks := []int{0, 1, 2, 5}
	if thorough {
		ks = []int{0, 1, 2, 3, 4, 5, 8}
	}
	if g := nextPow2Gap(n); g > 5 && g <= 300 {
		ks = append(ks, g) // merge everything into one tree
	}
	ps := positions(n, ks)
	var subsets [][]int
	subsets = append(subsets, nil)
	for _, p := range ps {
		subsets = append(subsets, []int{p})
	}
	var pairs [][]int
	for i, p := range ps {
		for _, q := range ps[i+1:] {
			pairs = append(pairs, []int{p, q})
		}
	}
	if !thorough && len(pairs) > 20 {
		r.Shuffle(len(pairs), func(i, j int) { pairs[i], pairs[j] = pairs[j], pairs[i] })
		pairs = pairs[:20]
	}
	subsets = append(subsets, pairs...)
	var out []scenario
	sc := scenario{N0: n}
	for _, u := range subsets {
		for _, k := range ks {
			if len(u) == 0 && k == 0 {
				continue
			}
			sc.Steps = append(sc.Steps, step{U: u, K: k}, step{Revert: true})
			if len(sc.Steps) >= 400 {
				out = append(out, sc)
				sc = scenario{N0: n}
			}
		}
	}
	if len(sc.Steps) > 0 {
		out = append(out, sc)
	}
	return out
}

func randSubset(r *rand.Rand, n int) []int {
	if n == 0 {
		return nil
	}
	set := map[int]bool{}
	switch r.Intn(4) {
	case 0: // a few
		for i := r.Intn(4); i > 0; i-- {
			set[r.Intn(n)] = true
		}
	case 1: // dense
		p := r.Float64()
		for i := 0; i < n; i++ {
			if r.Float64() < p*p {
				set[i] = true
			}
		}
	case 2: // a run
		a := r.Intn(n)
		for i := a; i < n && i < a+1+r.Intn(40); i++ {
			set[i] = true
		}
	default: // up to 32 scattered
		for i := r.Intn(33); i > 0; i-- {
			set[r.Intn(n)] = true
		}
	}
	var out []int
	for x := range set {
		out = append(out, x)
	}
	sort.Ints(out)
	return out
}

func randK(r *rand.Rand, n int) int {
	switch r.Intn(5) {
	case 0:
		return 0
	case 1:
		return 1 + r.Intn(5)
	case 2:
		if g := nextPow2Gap(n); g <= 600 { // reach or cross the next power of two
			return max(0, g-1+r.Intn(3))
		}
		return 1 + r.Intn(64)
	case 3:
		return 1 + r.Intn(64)
	}
	return r.Intn(3)
}

// randomScenario: sizes up to 2^maxBits, near powers of two or uniform; a few blocks and reverts.
func randomScenario(r *rand.Rand, maxBits int) scenario {
	var n int
	if r.Intn(2) == 0 {
		n = 1<<(1+r.Intn(maxBits)) + r.Intn(9) - 4
	} else {
		n = 1 + r.Intn(1<<maxBits)
	}
	n = min(max(n, 1), 1<<maxBits)
	return walk(r, n, 3+r.Intn(5))
}

// interleaving: depth steps of apply/revert from a small or medium forest.
func interleaving(r *rand.Rand, depth int) scenario {
	var n int
	switch r.Intn(3) {
	case 0:
		n = r.Intn(20)
	case 1:
		n = r.Intn(130)
	default:
		n = r.Intn(700)
	}
	return walk(r, n, depth)
}

func walk(r *rand.Rand, n0, depth int) scenario {
	sc := scenario{N0: n0}
	n, stack := n0, []int{}
	for len(sc.Steps) < depth {
		if len(stack) > 0 && r.Intn(5) < 2 {
			n = stack[len(stack)-1]
			stack = stack[:len(stack)-1]
			sc.Steps = append(sc.Steps, step{Revert: true})
			continue
		}
		u, k := randSubset(r, n), randK(r, n)
		if len(u) == 0 && k == 0 {
			k = 1
		}
		sc.Steps = append(sc.Steps, step{U: u, K: k})
		stack = append(stack, n)
		n += k
	}
	return sc
}

// ---------------------------------------------------------------------------
// binding demonstration on the expected side

// selftest replays one TLC behaviour with one expected term corrupted (the children of the
// first interior node of a proof entry swapped; one root replaced by another tree's) and
// requires the comparison to reject it. A harness that accepts is broken: exit 2.
func selftest(c *vlib.Ctx, b *behaviour) {
	if b == nil {
		c.Fatal("selftest: no behaviour")
	}
	corrupt := func(mut func(exps []*expect) bool) *failure {
		bb, err := parseBehaviour(b.raw)
		if err != nil {
			c.Fatal("selftest: %v", err)
		}
		if !mut(bb.exps) {
			return &failure{key: "not-applicable"}
		}
		w := newWorld(99, newStats())
		w.noCross = true
		return w.run(c, bb.sc, bb.exps, map[uint64]*expect{}).fail
	}
	f1 := corrupt(func(exps []*expect) bool {
		for _, e := range exps[1:] {
			for i, p := range e.proofs {
				for j, t := range p {
					if t.Kind == hterm.KNode {
						e.proofs[i][j] = hterm.Node(t.R, t.L)
						return true
					}
				}
			}
		}
		return false
	})
	f2 := corrupt(func(exps []*expect) bool {
		e := exps[1]
		for h, t := range e.trees {
			if t.Kind == hterm.KNode {
				e.trees[h] = hterm.Node(t.L, t.L)
				return true
			}
		}
		return false
	})
	f3 := corrupt(func(exps []*expect) bool { exps[1].n++; return true })
	for i, f := range []*failure{f1, f2, f3} {
		if f == nil {
			c.Fatal("selftest %d: a corrupted expectation was accepted — the comparison is not binding", i+1)
		}
	}
	c.Cov("selftest_corrupted_expectations_rejected", []string{f1.key, f2.key, f3.key})
}

// ---------------------------------------------------------------------------
// replay of one saved case

func replay(c *vlib.Ctx) {
	b, err := os.ReadFile(c.Replay)
	if err != nil {
		c.Fatal("cannot read %s: %v", c.Replay, err)
	}
	var f struct {
		Key  string `json:"key"`
		Case struct {
			Part        string   `json:"part"`
			Salt        uint64   `json:"salt"`
			Scenario    scenario `json:"scenario"`
			TLC         string   `json:"tlc_behaviour"`
			ContainsAll bool     `json:"contains_all"`
			ChainSeed   int64    `json:"chain_seed"`
			Blocks      int      `json:"blocks"`
		} `json:"case"`
	}
	if err := json.Unmarshal(b, &f); err != nil {
		c.Fatal("cannot parse %s: %v", c.Replay, err)
	}
	if f.Case.Part == "blocks" {
		runBlocks(c, newBStats(), f.Case.TLC, f.Case.Salt)
		if c.NViolations() == 0 {
			fmt.Printf("replay: case %s holds on the current tree\n", f.Key)
		}
		return
	}
	if f.Case.Part == "chain" {
		runChain(c, newStats(), f.Case.ChainSeed, f.Case.Blocks)
		if c.NViolations() == 0 {
			fmt.Printf("replay: case %s holds on the current tree\n", f.Key)
		}
		return
	}
	var exps []*expect
	if f.Case.TLC != "" {
		bb, err := parseBehaviour(f.Case.TLC)
		if err != nil {
			c.Fatal("replay: %v", err)
		}
		exps = bb.exps
	}
	tot := &totals{st: newStats(), distinct: map[uint64]struct{}{}}
	runJobs(c, tot, []job{{part: f.Case.Part, sc: f.Case.Scenario, exps: exps, raw: f.Case.TLC, salt: f.Case.Salt, containsAll: f.Case.ContainsAll}})
	if c.NViolations() == 0 {
		fmt.Printf("replay: case %s holds on the current tree\n", f.Key)
	}
}
