package main

import (
	"encoding/binary"
	"fmt"
	"math/bits"
	"math/rand"
	"slices"
	"sort"

	"go.sia.tech/core/consensus"
	"go.sia.tech/core/types"
	"verif/harness/hterm"
	"verif/harness/vlib"
)

// harnessErr is a panic raised by the harness about itself (never a verdict on the code).
type harnessErr string

func hpanic(format string, a ...any) { panic(harnessErr(fmt.Sprintf(format, a...))) }

// ---------------------------------------------------------------------------
// scenarios: what is executed on the real accumulator

// A step is one block applied (U = updated leaf indices, K = leaves added) or the
// latest un-reverted block reverted.
type step struct {
	Revert bool  `json:"revert,omitempty"`
	U      []int `json:"U,omitempty"`
	K      int   `json:"k,omitempty"`
}

// A scenario starts from the accumulator holding N0 leaves.
type scenario struct {
	N0    int    `json:"n0"`
	Steps []step `json:"steps"`
}

// expectation of the state after one step (index 0: after the initial build), as terms
type expect struct {
	n      uint64
	trees  map[int]*hterm.Term
	proofs [][]*hterm.Term
	metas  []meta // TLC's truth about the leaves (nil for Go-side expectations)
}

// ---------------------------------------------------------------------------
// real elements

type kind uint8

const (
	kSiacoin kind = iota
	kSiafund
	kFileContract
	kV2FileContract
	kAttestation
	kChainIndex
	nKinds
)

var kindNames = [nKinds]string{"siacoin", "siafund", "filecontract", "v2filecontract", "attestation", "chainindex"}

// updatable: kinds whose leaf constructor takes a spent/resolved flag (and, for contracts, a revision)
func (k kind) updatable() bool { return k <= kV2FileContract }

// meta is the model's truth about one leaf (the element id is the leaf index).
type meta struct {
	Ver   int
	Spent bool
}

type leafID struct {
	idx, gen, ver int
	spent         bool
}

type undoRec struct {
	acc    consensus.ElementAccumulator
	metas  []meta
	U      []int
	k      int
	proofs map[int][]types.Hash256 // the proofs the block carried for U (valid for the parent state)
}

// A world is one real ElementAccumulator, the truth about its leaves, and a
// client that holds a copy of every element and applies every update.
type world struct {
	salt   uint64
	plan   map[[2]int]bool // (idx, gen) that some step updates: needs an updatable kind
	gen    []int           // how often leaf index i has been created so far
	acc    consensus.ElementAccumulator
	metas  []meta
	client []types.StateElement
	undo   []undoRec
	cache  map[leafID]types.Hash256
	rng    *rand.Rand
	st     *stats
	// containsAll: membership door checked for every tracked leaf (otherwise for the touched ones and a sample)
	containsAll bool
	// noCross: skip the text cross-check of the Go-side definitions against TLC terms (selftest only)
	noCross bool
}

func newWorld(salt uint64, st *stats) *world {
	return &world{salt: salt, plan: map[[2]int]bool{}, cache: map[leafID]types.Hash256{}, rng: rand.New(rand.NewSource(int64(salt))), st: st, containsAll: true}
}

func (w *world) seedHash(idx, gen int, tag uint64) types.Hash256 {
	var buf [32]byte
	binary.LittleEndian.PutUint64(buf[0:], w.salt)
	binary.LittleEndian.PutUint64(buf[8:], uint64(idx))
	binary.LittleEndian.PutUint64(buf[16:], uint64(gen))
	binary.LittleEndian.PutUint64(buf[24:], tag)
	return types.HashBytes(buf[:])
}

func (w *world) kindOf(idx, gen int) kind {
	h := w.seedHash(idx, gen, 0xbeef)
	if w.plan[[2]int{idx, gen}] {
		return kind(h[0] % 4)
	}
	return kind(h[0] % uint8(nKinds))
}

func cur(h types.Hash256, off int) types.Currency {
	return types.NewCurrency(binary.LittleEndian.Uint64(h[off:]), uint64(h[off+8]))
}

// leaf builds the real element behind leaf index idx (current generation) in
// version m.Ver and wraps it with the real leaf constructor of its kind.
// The leaf's StateElement is se (inside a freshly allocated typed element).
func (w *world) leaf(idx int, m meta, se types.StateElement) consensus.VerifLeaf {
	gen := w.gen[idx]
	h := w.seedHash(idx, gen, 1)
	h2 := w.seedHash(idx, gen, 2)
	hv := w.seedHash(idx, gen, 100+uint64(m.Ver))
	k := w.kindOf(idx, gen)
	if !k.updatable() && (m.Ver != 0 || m.Spent) {
		hpanic("leaf %d of kind %s cannot be updated (planning error)", idx, kindNames[k])
	}
	switch k {
	case kSiacoin:
		e := &types.SiacoinElement{ID: types.SiacoinOutputID(h), StateElement: se,
			SiacoinOutput: types.SiacoinOutput{Value: cur(h2, 0), Address: types.Address(h2)}, MaturityHeight: uint64(h2[20])}
		return consensus.VerifSiacoinLeaf(e, m.Spent)
	case kSiafund:
		e := &types.SiafundElement{ID: types.SiafundOutputID(h), StateElement: se,
			SiafundOutput: types.SiafundOutput{Value: uint64(binary.LittleEndian.Uint16(h2[:])), Address: types.Address(h2)}, ClaimStart: cur(h2, 10)}
		return consensus.VerifSiafundLeaf(e, m.Spent)
	case kFileContract:
		fc := types.FileContract{Filesize: uint64(h2[0]) * 64, FileMerkleRoot: h2, WindowStart: uint64(h2[1]), WindowEnd: uint64(h2[1]) + 10,
			Payout: cur(h2, 2), UnlockHash: types.Address(h),
			ValidProofOutputs:  []types.SiacoinOutput{{Value: cur(h2, 3), Address: types.Address(h2)}, {Value: cur(h2, 4), Address: types.Address(h)}},
			MissedProofOutputs: []types.SiacoinOutput{{Value: cur(h2, 5), Address: types.Address(h2)}, {Value: cur(h2, 6), Address: types.Address(h)}, {Address: types.VoidAddress}}}
		e := &types.FileContractElement{ID: types.FileContractID(h), StateElement: se, FileContract: fc}
		var rev *types.FileContract
		if m.Ver > 0 { // the diff carries the contract as it was and the revision (application.go)
			r := fc
			r.RevisionNumber = uint64(m.Ver)
			r.FileMerkleRoot = hv
			r.Filesize += 64 * uint64(m.Ver)
			rev = &r
		}
		return consensus.VerifFileContractLeaf(e, rev, m.Spent)
	case kV2FileContract:
		fc := types.V2FileContract{Capacity: uint64(h2[0])*64 + 4096, Filesize: uint64(h2[0]) * 64, FileMerkleRoot: h2, ProofHeight: uint64(h2[1]), ExpirationHeight: uint64(h2[1]) + 10,
			RenterOutput: types.SiacoinOutput{Value: cur(h2, 2), Address: types.Address(h2)}, HostOutput: types.SiacoinOutput{Value: cur(h2, 3), Address: types.Address(h)},
			MissedHostValue: cur(h2, 4), TotalCollateral: cur(h2, 5), RenterPublicKey: types.PublicKey(h), HostPublicKey: types.PublicKey(h2)}
		copy(fc.RenterSignature[:], h[:])
		copy(fc.HostSignature[:], h2[:])
		e := &types.V2FileContractElement{ID: types.FileContractID(h), StateElement: se, V2FileContract: fc}
		var rev *types.V2FileContract
		if m.Ver > 0 {
			r := fc
			r.RevisionNumber = uint64(m.Ver)
			r.FileMerkleRoot = hv
			r.Filesize += 64 * uint64(m.Ver)
			rev = &r
		}
		return consensus.VerifV2FileContractLeaf(e, rev, m.Spent)
	case kAttestation:
		a := types.Attestation{PublicKey: types.PublicKey(h2), Key: "k" + fmt.Sprint(idx), Value: h[:int(h2[0]%32)]}
		copy(a.Signature[:], h2[:])
		e := &types.AttestationElement{ID: types.AttestationID(h), StateElement: se, Attestation: a}
		return consensus.VerifAttestationLeaf(e)
	default:
		e := &types.ChainIndexElement{ID: types.BlockID(h), StateElement: se, ChainIndex: types.ChainIndex{Height: uint64(idx), ID: types.BlockID(h)}}
		return consensus.VerifChainIndexLeaf(e)
	}
}

// flipped is the same element presented with the other spent flag (for kinds whose
// constructor has no flag the raw-parts door of the shim is used).
func (w *world) flipped(idx int, m meta, se types.StateElement) consensus.VerifLeaf {
	if w.kindOf(idx, w.gen[idx]).updatable() {
		m.Spent = !m.Spent
		return w.leaf(idx, m, se)
	}
	l := w.leaf(idx, m, se)
	return consensus.VerifNewLeaf(l.Element(), l.ElementHash(), !m.Spent)
}

// leafHash is the REAL leaf hash of leaf idx in version m: elementLeaf.hash() of
// the real element with the real leaf index and spent flag.
func (w *world) leafHash(idx int, m meta) types.Hash256 {
	k := leafID{idx, w.gen[idx], m.Ver, m.Spent}
	if h, ok := w.cache[k]; ok {
		return h
	}
	h := w.leaf(idx, m, types.StateElement{LeafIndex: uint64(idx)}).Hash()
	w.cache[k] = h
	return h
}

// resolve maps a leaf token of Accumulator.tla to the real leaf hash.
func (w *world) resolve(tok string) types.Hash256 {
	var id, ver, idx int
	var su byte
	if n, err := fmt.Sscanf(tok, "L%dv%d@%d%c", &id, &ver, &idx, &su); err != nil || n != 4 || (su != 's' && su != 'u') {
		hpanic("malformed leaf token %q", tok)
	}
	if id != idx || idx >= len(w.gen) {
		hpanic("leaf token %q does not name a leaf of the world (%d leaves created)", tok, len(w.gen))
	}
	return w.leafHash(idx, meta{ver, su == 's'})
}

func (w *world) token(idx int, m meta) string {
	su := "u"
	if m.Spent {
		su = "s"
	}
	return fmt.Sprintf("L%dv%d@%d%s", idx, m.Ver, idx, su)
}

// ---------------------------------------------------------------------------
// planning: which leaves must be of an updatable kind

func (w *world) planScenario(sc scenario) {
	gen := map[int]int{}
	n := sc.N0
	for i := 0; i < n; i++ {
		gen[i] = 1
	}
	var stack []int
	for _, s := range sc.Steps {
		if s.Revert {
			n = stack[len(stack)-1]
			stack = stack[:len(stack)-1]
			continue
		}
		for _, x := range s.U {
			w.plan[[2]int{x, gen[x]}] = true
		}
		stack = append(stack, n)
		for j := 0; j < s.K; j++ {
			gen[n+j]++
		}
		n += s.K
	}
}

// ---------------------------------------------------------------------------
// driving the real accumulator

func (w *world) create(idx int) {
	for len(w.gen) <= idx {
		w.gen = append(w.gen, 0)
	}
	w.gen[idx]++
}

type blockCopies struct {
	updated []consensus.VerifLeaf // in the order handed to the accumulator
	uIdx    []int
	added   []consensus.VerifLeaf
}

// apply runs one block through applyBlock and lets the client apply the update.
func (w *world) apply(U []int, k int) (bc blockCopies) {
	n0 := len(w.metas)
	rec := undoRec{acc: w.acc, metas: slices.Clone(w.metas), U: slices.Clone(U), k: k, proofs: map[int][]types.Hash256{}}
	order := slices.Clone(U)
	w.rng.Shuffle(len(order), func(i, j int) { order[i], order[j] = order[j], order[i] }) // diffs are not sorted by leaf index
	newMetas := slices.Clone(w.metas)
	for _, x := range order {
		m := w.metas[x]
		m.Ver++
		m.Spent = !m.Spent
		newMetas[x] = m
		rec.proofs[x] = slices.Clone(w.client[x].MerkleProof)
		se := types.StateElement{LeafIndex: uint64(x), MerkleProof: slices.Clone(w.client[x].MerkleProof)}
		bc.updated = append(bc.updated, w.leaf(x, m, se))
		bc.uIdx = append(bc.uIdx, x)
	}
	for j := 0; j < k; j++ {
		w.create(n0 + j)
		newMetas = append(newMetas, meta{})
		bc.added = append(bc.added, w.leaf(n0+j, meta{}, types.StateElement{LeafIndex: types.UnassignedLeafIndex}))
	}
	// applyBlock sorts `updated` in place; keep our own order
	upd := w.acc.VerifApply(slices.Clone(bc.updated), slices.Clone(bc.added))
	for i := range w.client {
		upd.UpdateElementProof(&w.client[i])
	}
	for j := range bc.added {
		c := bc.added[j].Element().Copy()
		upd.UpdateElementProof(&c) // newly added: must be left alone
		w.client = append(w.client, c)
	}
	w.metas = newMetas
	w.undo = append(w.undo, rec)
	return bc
}

// revert runs the latest block through revertBlock (against the parent
// accumulator) and lets the client apply the revert update.
func (w *world) revert() (bc blockCopies) {
	rec := w.undo[len(w.undo)-1]
	w.undo = w.undo[:len(w.undo)-1]
	n0 := len(rec.metas)
	order := slices.Clone(rec.U)
	w.rng.Shuffle(len(order), func(i, j int) { order[i], order[j] = order[j], order[i] })
	for _, x := range order {
		se := types.StateElement{LeafIndex: uint64(x), MerkleProof: slices.Clone(rec.proofs[x])}
		bc.updated = append(bc.updated, w.leaf(x, rec.metas[x], se))
		bc.uIdx = append(bc.uIdx, x)
	}
	for j := 0; j < rec.k; j++ {
		bc.added = append(bc.added, w.leaf(n0+j, meta{}, types.StateElement{LeafIndex: types.UnassignedLeafIndex}))
	}
	parent := rec.acc
	upd := parent.VerifRevert(slices.Clone(bc.updated), slices.Clone(bc.added))
	w.client = w.client[:n0] // elements created by the block cease to exist
	for i := range w.client {
		upd.UpdateElementProof(&w.client[i])
	}
	if parent != rec.acc {
		panic("revertBlock modified the accumulator it was called on") // a fault of the code: reported as revert-panic
	}
	w.acc = rec.acc
	w.metas = rec.metas
	return bc
}

// ---------------------------------------------------------------------------
// comparing with the expectation

type failure struct {
	key  string
	what string
}

func eqProof(a []types.Hash256, b []types.Hash256) bool { return slices.Equal(a, b) }

// compare checks the real state against the expectation evaluated by ev.
// phase is "init", "apply" or "revert"; n0 = leaf count before the step.
func (w *world) compare(phase string, exp *expect, ev *hterm.Evaluator, bc blockCopies, n0 int) *failure {
	if exp.metas != nil && !slices.Equal(exp.metas, w.metas) {
		hpanic("%s: the harness's leaves %v are not the model's %v", phase, w.metas, exp.metas)
	}
	if w.acc.NumLeaves != exp.n {
		return &failure{phase + "-numleaves", fmt.Sprintf("NumLeaves = %d, specification says %d", w.acc.NumLeaves, exp.n)}
	}
	for h := 0; h < 64; h++ {
		t, has := exp.trees[h]
		if has != (exp.n&(1<<h) != 0) {
			hpanic("expectation has tree %d = %v for n = %d", h, has, exp.n)
		}
		if !has {
			continue
		}
		w.st.height(h)
		if want := ev.Eval(t); w.acc.Trees[h] != want {
			return &failure{phase + "-root", fmt.Sprintf("n=%d: Trees[%d] = %v, naive forest has %v", exp.n, h, w.acc.Trees[h], want)}
		}
	}
	if len(w.client) != int(exp.n) || len(exp.proofs) != int(exp.n) {
		hpanic("client (%d) / expectation (%d proofs, n=%d) out of step", len(w.client), len(exp.proofs), exp.n)
	}
	inU := map[int]bool{}
	for _, x := range bc.uIdx {
		inU[x] = true
	}
	class := func(i int) string {
		switch {
		case phase == "init":
			return "added"
		case i >= n0:
			return "added"
		case inU[i]:
			return "updated"
		case w.metas[i].Spent:
			return "spent"
		}
		return "old"
	}
	want := make([][]types.Hash256, exp.n)
	for i := range want {
		want[i] = make([]types.Hash256, len(exp.proofs[i]))
		for j, t := range exp.proofs[i] {
			want[i][j] = ev.Eval(t)
		}
	}
	for i := range w.client {
		c := &w.client[i]
		if c.LeafIndex != uint64(i) {
			return &failure{phase + "-leafindex-" + class(i), fmt.Sprintf("client's element %d has LeafIndex %d", i, c.LeafIndex)}
		}
		if !eqProof(c.MerkleProof, want[i]) {
			return &failure{phase + "-proof-" + class(i), fmt.Sprintf("n=%d: proof of %s leaf %d after UpdateElementProof = %v, naive path = %v", exp.n, class(i), i, c.MerkleProof, want[i])}
		}
		w.st.tracked(class(i))
	}
	// the block's own copies
	for j, l := range bc.updated {
		x := bc.uIdx[j]
		e := l.Element()
		if e.LeafIndex != uint64(x) || !eqProof(e.MerkleProof, want[x]) {
			return &failure{phase + "-blockcopy-updated", fmt.Sprintf("n=%d: block's copy of updated leaf %d has index %d proof %v, naive path = %v", exp.n, x, e.LeafIndex, e.MerkleProof, want[x])}
		}
	}
	for j, l := range bc.added {
		e := l.Element()
		if e.LeafIndex != uint64(n0+j) {
			return &failure{phase + "-blockcopy-added", fmt.Sprintf("added leaf %d got LeafIndex %d, want %d", j, e.LeafIndex, n0+j)}
		}
		if phase != "revert" && !eqProof(e.MerkleProof, want[n0+j]) {
			return &failure{phase + "-blockcopy-added", fmt.Sprintf("n=%d: proof filled in for added leaf %d = %v, naive path = %v", exp.n, n0+j, e.MerkleProof, want[n0+j])}
		}
	}
	// membership door
	check := func(i int) *failure {
		m := w.metas[i]
		if !w.acc.VerifContainsLeaf(w.leaf(i, m, w.client[i])) {
			return &failure{phase + "-contains-" + class(i), fmt.Sprintf("n=%d: containsLeaf is false for %s leaf %d (spent=%v) with its maintained proof", exp.n, class(i), i, m.Spent)}
		}
		if w.acc.VerifContainsLeaf(w.flipped(i, m, w.client[i])) {
			return &failure{phase + "-contains-flipped", fmt.Sprintf("n=%d: containsLeaf is true for leaf %d presented as spent=%v although it is spent=%v", exp.n, i, !m.Spent, m.Spent)}
		}
		w.st.contains++
		return nil
	}
	if w.containsAll {
		for i := range w.client {
			if f := check(i); f != nil {
				return f
			}
		}
	} else {
		seen := map[int]bool{}
		try := func(i int) *failure {
			if i < 0 || i >= len(w.client) || seen[i] {
				return nil
			}
			seen[i] = true
			return check(i)
		}
		for _, x := range bc.uIdx {
			for _, y := range []int{x - 1, x, x + 1} {
				if f := try(y); f != nil {
					return f
				}
			}
		}
		for j := n0 - 1; j < len(w.client) && j <= n0+len(bc.added); j++ {
			if f := try(j); f != nil {
				return f
			}
		}
		for r := 0; r < 3 && len(w.client) > 0; r++ {
			if f := try(w.rng.Intn(len(w.client))); f != nil {
				return f
			}
		}
	}
	return nil
}

// ---------------------------------------------------------------------------
// the specification's definitions, evaluated in Go (compact form)

// naiveExpect is Accumulator!NaiveRoots / NaivePath for a forest of n leaves in
// the compact term form: the tree of height h covers R(TreeStart, TreeStart+2^h),
// the j-th proof entry of leaf i is the root of the sibling block of size 2^(j-1).
func naiveExpect(n uint64) *expect {
	e := &expect{n: n, trees: map[int]*hterm.Term{}, proofs: make([][]*hterm.Term, n)}
	for h := 0; h < 64; h++ {
		if n&(1<<h) != 0 {
			s := n &^ (1<<(h+1) - 1) // ClearBits(n, h+1)
			e.trees[h] = hterm.Range(s, s+1<<h)
		}
	}
	for i := uint64(0); i < n; i++ {
		th := bits.Len64(n^i) - 1 // TreeHeightOf(n, i) = MergeHeight(n, i) - 1
		p := make([]*hterm.Term, th)
		for j := 1; j <= th; j++ {
			sz := uint64(1) << (j - 1)
			b := i / sz
			sb := b ^ 1
			p[j-1] = hterm.Range(sb*sz, sb*sz+sz)
		}
		e.proofs[i] = p
	}
	return e
}

// naiveExpectCached: the compact expectation depends on n only.
func naiveExpectCached(n uint64, cache map[uint64]*expect) *expect {
	if e, ok := cache[n]; ok {
		return e
	}
	e := naiveExpect(n)
	cache[n] = e
	return e
}

// defEvaluator evaluates compact terms over the REAL leaf hashes of the world's current leaves.
func (w *world) defEvaluator() *hterm.Evaluator {
	metas := w.metas
	roots := hterm.PerfectRoots(func(i uint64) types.Hash256 { return w.leafHash(int(i), metas[i]) })
	return hterm.NewEvaluator(w.resolve, roots.Root)
}

// ---------------------------------------------------------------------------
// running a scenario

type result struct {
	steps    int    // states compared: the initial build and every executed step
	changed  []bool // per compared state: the step changed the proof of an element that existed before and after
	fail     *failure
	failStep int
}

// run executes sc; exps (optional, from TLC) has one expectation per state (len(Steps)+1).
// Without exps the expectation is the specification's definition evaluated in Go.
// crossCheck: with exps, additionally require that the Go-side definitions expand to TLC's terms.
func (w *world) run(c *vlib.Ctx, sc scenario, exps []*expect, defCache map[uint64]*expect) (res result) {
	w.planScenario(sc)
	var fail *failure
	stepNo := 0
	guard := func(phase string, f func()) bool {
		if p, v := vlib.Recover(f); p {
			if he, ok := v.(harnessErr); ok {
				c.Fatal("harness error in %s: %s", phase, string(he))
			}
			fail = &failure{phase + "-panic", fmt.Sprintf("%s panicked: %v", phase, v)}
			return false
		}
		return fail == nil
	}
	var prevWant [][]types.Hash256
	expectOf := func(i int) (*expect, *hterm.Evaluator) {
		def := naiveExpectCached(uint64(len(w.metas)), defCache)
		if exps == nil {
			return def, w.defEvaluator()
		}
		// cross-check the Go-side definitions against TLC's expanded terms (text equality)
		e := exps[i]
		if w.noCross {
			return e, hterm.NewEvaluator(w.resolve, nil)
		}
		tok := func(i uint64) string { return w.token(int(i), w.metas[i]) }
		if e.n != def.n || len(e.trees) != len(def.trees) {
			c.Fatal("Go-side NaiveRoots disagrees with TLC on the shape of the forest for n=%d", def.n)
		}
		for h, t := range def.trees {
			if e.trees[h] == nil || hterm.Expand(t, tok).String() != e.trees[h].String() {
				c.Fatal("Go-side NaiveRoots(%d)[%d] expands to %v, TLC printed %v", def.n, h, hterm.Expand(t, tok), e.trees[h])
			}
		}
		for i := range def.proofs {
			if len(def.proofs[i]) != len(e.proofs[i]) {
				c.Fatal("Go-side NaivePath(%d,%d) has length %d, TLC's %d", def.n, i, len(def.proofs[i]), len(e.proofs[i]))
			}
			for j, t := range def.proofs[i] {
				if hterm.Expand(t, tok).String() != e.proofs[i][j].String() {
					c.Fatal("Go-side NaivePath(%d,%d)[%d] expands to %v, TLC printed %v", def.n, i, j, hterm.Expand(t, tok), e.proofs[i][j])
				}
			}
		}
		w.st.crossChecked++
		return e, hterm.NewEvaluator(w.resolve, nil)
	}
	check := func(phase string, i int, bc blockCopies, n0 int) {
		guard(phase, func() {
			e, ev := expectOf(i)
			fail = w.compare(phase, e, ev, bc, n0)
			if fail == nil {
				// non-trivial: the step changed the proof of at least one leaf that existed before and after
				want := make([][]types.Hash256, len(w.client))
				changed := false
				for k := range w.client {
					want[k] = w.client[k].MerkleProof
					if k < len(prevWant) && !changed && !eqProof(prevWant[k], want[k]) {
						changed = true
					}
				}
				res.changed = append(res.changed, changed)
				prevWant = make([][]types.Hash256, len(want))
				for k := range want {
					prevWant[k] = slices.Clone(want[k])
				}
			}
		})
	}
	// initial forest: built by the real code from the empty accumulator
	var bc blockCopies
	if guard("init", func() { bc = w.apply(nil, sc.N0) }) {
		w.undo = nil
		check("init", 0, bc, 0)
		res.steps++
	}
	for i, s := range sc.Steps {
		if fail != nil {
			break
		}
		stepNo = i + 1
		n0 := len(w.metas)
		if s.Revert {
			n0 = len(w.undo[len(w.undo)-1].metas)
			if guard("revert", func() { bc = w.revert() }) {
				check("revert", i+1, bc, n0)
				w.st.reverts++
			}
		} else {
			before := make([]int, n0)
			for k := range before {
				before[k] = len(w.client[k].MerkleProof)
			}
			if guard("apply", func() { bc = w.apply(s.U, s.K) }) {
				check("apply", i+1, bc, n0)
				w.st.applied(len(s.U), s.K)
				for k := range before {
					if k < len(w.client) && len(w.client[k].MerkleProof) > before[k] {
						w.st.growth++
						break
					}
				}
			}
		}
		res.steps++
	}
	res.fail, res.failStep = fail, stepNo
	return res
}

// ---------------------------------------------------------------------------
// coverage bookkeeping

type stats struct {
	heights      [64]int64
	trackedBy    map[string]int64
	contains     int64
	reverts      int64
	uEmpty       int64
	uNonEmpty    int64
	kZero        int64
	kPos         int64
	growth       int64 // applies after which a pre-existing proof got longer (treeGrowth non-empty and used)
	crossChecked int64
	maxLeaves    int
}

func newStats() *stats { return &stats{trackedBy: map[string]int64{}} }

func (s *stats) height(h int)     { s.heights[h]++ }
func (s *stats) tracked(c string) { s.trackedBy[c]++ }
func (s *stats) applied(u, k int) {
	if u == 0 {
		s.uEmpty++
	} else {
		s.uNonEmpty++
	}
	if k == 0 {
		s.kZero++
	} else {
		s.kPos++
	}
}

func (s *stats) merge(o *stats) {
	for i := range s.heights {
		s.heights[i] += o.heights[i]
	}
	for k, v := range o.trackedBy {
		s.trackedBy[k] += v
	}
	s.contains += o.contains
	s.reverts += o.reverts
	s.uEmpty += o.uEmpty
	s.uNonEmpty += o.uNonEmpty
	s.kZero += o.kZero
	s.kPos += o.kPos
	s.growth += o.growth
	s.crossChecked += o.crossChecked
	s.maxLeaves = max(s.maxLeaves, o.maxLeaves)
}

func (s *stats) heightsSeen() []int {
	var out []int
	for h, n := range s.heights {
		if n > 0 {
			out = append(out, h)
		}
	}
	sort.Ints(out)
	return out
}
