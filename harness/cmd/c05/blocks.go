package main

import (
	"encoding/binary"
	"encoding/json"
	"fmt"
	"slices"
	"sort"
	"strings"
	"sync"
	"time"

	"go.sia.tech/core/consensus"
	"go.sia.tech/core/types"
	"verif/harness/hterm"
	"verif/harness/vlib"
)

// Part 4: block-level histories of spec/acc/AccBlocks.tla through the public API.
//
// TLC generates blocks of abstract v1/v2 transactions over the elements of the forest AND over
// the elements created earlier in the same block: ephemeral siacoin and siafund outputs
// (v1->v1, v1->v2, v2->v2), v1 contracts formed and revised / proved in the forming block,
// contracts revised and resolved in one block, renewals. The model derives the diff list the
// block leaves (application.go's MidState), the leaves it hands to the accumulator WITH THE
// FLAGS THE DIFFS REPORT (an ephemeral output enters spent), and -- through the algorithm and
// definition layers of Accumulator.tla -- the roots and the proof of every leaf, as terms.
//
// The harness turns every abstract block into a real, signed, sealed block (it only adds the
// amounts), requires ValidateBlock to accept it, applies it with consensus.ApplyBlock, lets a
// client that tracks every element apply ApplyUpdate.UpdateElementProof, and compares
//   - State.Elements.NumLeaves / Trees with the model's terms evaluated over the REAL leaf hashes
//     (shim leaf constructors on the real elements, with the MODEL's spent flag),
//   - every tracked proof with the model's path terms, entry by entry,
//   - containsLeaf for every element with the model's status (true) and the opposite (false),
//   - the status the diffs report for every element with the model's,
//   - ForEachTreeNode with the changed nodes of the forest,
// and the same after consensus.RevertBlock of the model's reverts.

type jref struct {
	T int `json:"t"`
	O int `json:"o"`
}

type jtx struct {
	V    int    `json:"v"`
	Op   string `json:"op"`
	Ins  []jref `json:"ins"`
	Nout int    `json:"nout"`
	C    jref   `json:"c"`
	Nsf  int    `json:"nsf"`
	Ws   uint64 `json:"ws"`
	We   uint64 `json:"we"`
	Nv   int    `json:"nv"`
	Nm   int    `json:"nm"`
	Natt int    `json:"natt"`
}

type jbsnap struct {
	N      uint64     `json:"n"`
	Trees  []string   `json:"trees"`
	Proofs [][]string `json:"proofs"`
	Meta   [][10]int  `json:"meta"` // id, ver, spent, kind, mat, ws, we, nv, nm, h
}

type jbstep struct {
	Op   string `json:"op"`
	Bv   int    `json:"bv"`
	Txs  []jtx  `json:"txs"`
	Natt int    `json:"natt"`
	Exp  []int  `json:"exp"`
	S    jbsnap `json:"s"`
}

// kinds of AccBlocks!KindCode
var modelKind = map[int]kind{1: kSiacoin, 2: kSiafund, 3: kFileContract, 4: kV2FileContract, 5: kAttestation, 6: kChainIndex}

type bstats struct {
	steps, nontrivial                  int64
	blocks, reverts                    int64
	txs                                map[string]int64 // by "v<ver>-<op>"
	ephSC                              map[string]int64 // spender/creator versions: "v1<-v1", "v2<-v1", "v2<-v2"
	ephSF                              map[string]int64 // "v1", "v2"
	fcFormRev, fcFormProve, fcRevProve int64            // v1 contract formed+revised / formed+proved / (existing) revised+proved in one block
	v2RevTwice, v2RevResolve           int64            // v2 contract revised twice / revised and resolved in one block
	fcRevTwice                         int64
	addedSpent                         map[string]int64 // leaves that ENTER the accumulator spent/resolved, by kind
	revertsOfEphemeral                 int64            // reverted blocks that had added a spent leaf
	expiring                           int64
	mixedBlocks                        int64 // blocks with v1 and v2 transactions
	maxLeaves                          int
	distinct                           map[uint64]struct{}
	st                                 *stats
}

func newBStats() *bstats {
	return &bstats{txs: map[string]int64{}, ephSC: map[string]int64{}, ephSF: map[string]int64{}, addedSpent: map[string]int64{}, distinct: map[uint64]struct{}{}, st: newStats()}
}

func (a *bstats) merge(b *bstats) {
	a.steps += b.steps
	a.nontrivial += b.nontrivial
	a.blocks += b.blocks
	a.reverts += b.reverts
	for k, v := range b.txs {
		a.txs[k] += v
	}
	for k, v := range b.ephSC {
		a.ephSC[k] += v
	}
	for k, v := range b.ephSF {
		a.ephSF[k] += v
	}
	for k, v := range b.addedSpent {
		a.addedSpent[k] += v
	}
	a.fcFormRev += b.fcFormRev
	a.fcFormProve += b.fcFormProve
	a.fcRevProve += b.fcRevProve
	a.fcRevTwice += b.fcRevTwice
	a.v2RevTwice += b.v2RevTwice
	a.v2RevResolve += b.v2RevResolve
	a.revertsOfEphemeral += b.revertsOfEphemeral
	a.expiring += b.expiring
	a.mixedBlocks += b.mixedBlocks
	a.maxLeaves = max(a.maxLeaves, b.maxLeaves)
	for k := range b.distinct {
		a.distinct[k] = struct{}{}
	}
	a.st.merge(b.st)
}

// ---------------------------------------------------------------------------
// one behaviour on a real chain

type bframe struct {
	prev      consensus.State
	b         types.Block
	bs        consensus.V1BlockSupplement
	key       string // abstract content of the block
	ephemeral bool   // the block added a leaf that entered spent
}

type bworld struct {
	c      *vlib.Ctx
	bst    *bstats
	raw    string
	salt   uint64
	n      *consensus.Network
	sk     types.PrivateKey
	uc     types.UnlockConditions
	pol    types.SpendPolicy
	addr   types.Address
	cs     consensus.State
	cl     *chainClient
	stack  []bframe
	ids    map[uint64]types.BlockID // block id by height (current branch)
	old    *forest
	nonce  uint64
	auLast consensus.ApplyUpdate
	// dry: failures are collected in dryFails instead of being reported (selftest of the expected side)
	dry      bool
	dryFails []string
}

func pow2(k uint) types.Currency {
	if k < 64 {
		return types.NewCurrency(1<<k, 0)
	}
	return types.NewCurrency(0, 1<<(k-64))
}

func (w *bworld) violation(key, what string, step int) {
	if w.dry {
		w.dryFails = append(w.dryFails, "blocks-"+key)
		return
	}
	w.c.Violation("blocks-"+key, fmt.Sprintf("[TLC block history, step %d] %s", step, what),
		map[string]any{"part": "blocks", "salt": w.salt, "failed_step": step, "tlc_behaviour": w.raw})
}

// resolve maps a leaf token of the model to the REAL leaf hash: the tracked real element at that
// leaf index, in the version the model names, with the spent flag the MODEL names.
func (w *bworld) resolve(tok string) types.Hash256 {
	var id, ver, idx int
	var su byte
	if n, err := fmt.Sscanf(tok, "L%dv%d@%d%c", &id, &ver, &idx, &su); err != nil || n != 4 || (su != 's' && su != 'u') || id != idx {
		hpanic("malformed leaf token %q", tok)
	}
	t := w.cl.elems[uint64(idx)]
	if t == nil {
		hpanic("leaf token %q names an element the client does not track", tok)
	}
	if t.ver != ver {
		hpanic("leaf token %q: the diffs revised the element in %d blocks", tok, t.ver)
	}
	return t.leaf(su == 's').Hash()
}

// compare checks the real state and every tracked element against the model's snapshot.
func (w *bworld) compare(phase string, step int, s jbsnap) (ok bool) {
	acc := w.cs.Elements
	fail := func(key, format string, a ...any) bool {
		w.violation(phase+"-"+key, fmt.Sprintf(format, a...), step)
		return false
	}
	if acc.NumLeaves != s.N {
		return fail("numleaves", "height %d: State.Elements.NumLeaves = %d, the model's forest has %d leaves", w.cs.Index.Height, acc.NumLeaves, s.N)
	}
	if len(s.Meta) != int(s.N) || len(s.Proofs) != int(s.N) {
		hpanic("snapshot with n=%d has %d metas and %d proofs", s.N, len(s.Meta), len(s.Proofs))
	}
	// binding of the model's leaves to the real elements: kinds (order of the leaves), version, attributes
	for i, m := range s.Meta {
		t := w.cl.elems[uint64(i)]
		if t == nil {
			hpanic("leaf %d of %d is not tracked by the client", i, s.N)
		}
		if t.k != modelKind[m[3]] {
			hpanic("%s step %d: leaf %d is a %s element, the model orders a kind-%d element there (the model's leaf order is not the code's)", phase, step, i, kindNames[t.k], m[3])
		}
		if t.ver != m[1] {
			hpanic("%s step %d: leaf %d was revised in %d blocks according to the diffs, %d in the model", phase, step, i, t.ver, m[1])
		}
		if t.k == kSiafund && t.sf.SiafundOutput.Value != 1<<uint(m[7]) {
			hpanic("%s step %d: siafund leaf %d holds %d SF, in the model 2^%d", phase, step, i, t.sf.SiafundOutput.Value, m[7])
		}
		if t.k == kSiacoin && t.sc.MaturityHeight != uint64(m[4]) {
			hpanic("%s step %d: siacoin leaf %d matures at %d, in the model at %d", phase, step, i, t.sc.MaturityHeight, m[4])
		}
	}
	// the status the diffs report
	for i, m := range s.Meta {
		t := w.cl.elems[uint64(i)]
		if t.spent != (m[2] == 1) {
			return fail("status-"+kindNames[t.k], "height %d: the update reports %s leaf %d as spent=%v, in the model it is spent=%v", w.cs.Index.Height, kindNames[t.k], i, t.spent, m[2] == 1)
		}
	}
	ev := hterm.NewEvaluator(w.resolve, nil)
	for h := 0; h < 64; h++ {
		has := s.N&(1<<h) != 0
		if h >= len(s.Trees) {
			if has {
				hpanic("snapshot has no tree of height %d for n=%d", h, s.N)
			}
			continue
		}
		if has != (s.Trees[h] != "") {
			hpanic("snapshot has tree %d = %q for n=%d", h, s.Trees[h], s.N)
		}
		if !has {
			continue
		}
		t, err := hterm.Parse(s.Trees[h])
		if err != nil || t.Height() != h || t.Size() != 1<<h {
			hpanic("bad tree term at height %d: %v", h, err)
		}
		w.bst.st.height(h)
		if want := ev.Eval(t); acc.Trees[h] != want {
			return fail("root", "height %d: State.Elements.Trees[%d] = %v, the model's forest over %d leaves (with the flags of the diffs) has %v", w.cs.Index.Height, h, acc.Trees[h], s.N, want)
		}
	}
	for i := range s.Meta {
		t := w.cl.elems[uint64(i)]
		se := t.se()
		spent := s.Meta[i][2] == 1
		class := kindNames[t.k]
		if spent {
			class += "-spent"
			w.bst.st.tracked("spent")
		} else {
			w.bst.st.tracked("old")
		}
		if se.LeafIndex != uint64(i) {
			return fail("leafindex", "tracked element has LeafIndex %d, the client filed it under %d", se.LeafIndex, i)
		}
		ps, err := hterm.ParseList(s.Proofs[i])
		if err != nil {
			hpanic("bad proof term: %v", err)
		}
		if len(se.MerkleProof) != len(ps) {
			return fail("proof-"+class, "height %d: proof of %s leaf %d has %d entries, the model's path %d", w.cs.Index.Height, class, i, len(se.MerkleProof), len(ps))
		}
		for j, pt := range ps {
			if want := ev.Eval(pt); se.MerkleProof[j] != want {
				return fail("proof-"+class, "height %d: proof of %s leaf %d entry %d = %v, the model's path has %v", w.cs.Index.Height, class, i, j, se.MerkleProof[j], want)
			}
		}
		if !acc.VerifContainsLeaf(t.leaf(spent)) {
			return fail("verify-"+class, "height %d: %s leaf %d (spent=%v) does not verify against State.Elements", w.cs.Index.Height, class, i, spent)
		}
		if acc.VerifContainsLeaf(t.leaf(!spent)) {
			return fail("verify-flipped", "height %d: %s leaf %d verifies as spent=%v although it is spent=%v", w.cs.Index.Height, class, i, !spent, spent)
		}
		w.bst.st.contains++
	}
	return true
}

func (w *bworld) treeNodes(phase string, step int, each func(func(row, col uint64, h types.Hash256))) bool {
	fo := w.cl.forest(w.c, w.cs.Elements.NumLeaves) // the statuses were just checked against the model's
	got, dup := map[nodeKey]types.Hash256{}, false
	each(func(row, col uint64, h types.Hash256) {
		if _, seen := got[nodeKey{row, col}]; seen {
			dup = true
		}
		got[nodeKey{row, col}] = h
	})
	if f := checkNodes(phase, got, dup, changedNodes(w.old, fo)); f != nil {
		w.violation(f.key, f.what, step)
		return false
	}
	w.old = fo
	return true
}

func (w *bworld) sealAndApply(step int, v1 []types.Transaction, v2 []types.V2Transaction, bv int, bs consensus.V1BlockSupplement, key string, genesis bool) bool {
	cs := w.cs
	child := cs.Index.Height + 1
	if genesis {
		child = 0
	}
	w.nonce++
	b := types.Block{ParentID: cs.Index.ID, Timestamp: time.Unix(1e9+int64(child)*600+int64(w.nonce%500), 0), Transactions: v1}
	if !genesis {
		b.MinerPayouts = []types.SiacoinOutput{{Address: w.addr, Value: cs.BlockReward()}}
		if bv == 2 {
			b.V2 = &types.V2BlockData{Height: child, Transactions: v2}
			b.V2.Commitment = cs.Commitment(w.addr, v1, v2)
		}
		for i := 0; b.ID().CmpWork(cs.PoWTarget()) < 0; i++ {
			b.Nonce += cs.NonceFactor()
			if i > 1<<20 {
				hpanic("cannot seal a block")
			}
		}
		if err := consensus.ValidateBlock(cs, b, bs); err != nil {
			// every maintained proof was just verified: the generator (or the model's idea of what is allowed) is at fault
			hpanic("step %d: generated block at height %d is rejected: %v", step, child, err)
		}
	}
	before := proofsOf(w.cl)
	var ncs consensus.State
	var au consensus.ApplyUpdate
	if p, v := vlib.Recover(func() {
		ncs, au = consensus.ApplyBlock(cs, b, bs, time.Time{})
		w.cl.apply(w.c, au)
	}); p {
		if he, ok := v.(harnessErr); ok {
			panic(he)
		}
		w.violation("apply-panic", fmt.Sprintf("ApplyBlock/UpdateElementProof panicked at height %d: %v", child, v), step)
		return false
	}
	w.cs = ncs
	w.ids[ncs.Index.Height] = ncs.Index.ID
	if !genesis {
		w.stack = append(w.stack, bframe{prev: cs, b: b, bs: bs, key: key})
	}
	if someProofChanged(before, w.cl) {
		w.bst.nontrivial++
		w.bst.distinct[keyHash(fmt.Sprintf("a%d|%s", cs.Elements.NumLeaves, key))] = struct{}{}
	}
	w.auLast = au
	return true
}

// ---------------------------------------------------------------------------
// concretising abstract transactions

type inblock struct {
	sc    map[[2]int]types.SiacoinElement             // (t, o) -> ephemeral element
	sf    map[[2]int]types.SiafundElement             // (t, o)
	fc    map[[2]int]types.FileContractID             // (t, 0)
	ver   map[int]int                                 // version of transaction t
	curFC map[types.FileContractID]types.FileContract // latest revision inside this block
	curV2 map[types.FileContractID]types.V2FileContract
	tax   types.Currency // siafund tax revenue as of the transactions built so far
}

func (w *bworld) split(total types.Currency, n int) []types.Currency {
	if n == 0 {
		return nil
	}
	part := total.Div64(uint64(n))
	if part.IsZero() {
		hpanic("out of funds: cannot split %v into %d outputs", total, n)
	}
	out := make([]types.Currency, n)
	rest := total
	for i := 0; i < n-1; i++ {
		out[i] = part
		rest = rest.Sub(part)
	}
	out[n-1] = rest
	return out
}

func (w *bworld) hash(tag uint64, a, b int) types.Hash256 {
	var buf [32]byte
	binary.LittleEndian.PutUint64(buf[0:], w.salt)
	binary.LittleEndian.PutUint64(buf[8:], tag)
	binary.LittleEndian.PutUint64(buf[16:], uint64(a))
	binary.LittleEndian.PutUint64(buf[24:], uint64(b)+w.nonce<<20)
	return types.HashBytes(buf[:])
}

func (w *bworld) signV2Contract(fc *types.V2FileContract) {
	h := w.cs.ContractSigHash(*fc)
	fc.RenterSignature, fc.HostSignature = w.sk.SignHash(h), w.sk.SignHash(h)
}

// buildBlock turns the abstract transactions of one model step into real transactions and the honest supplement.
func (w *bworld) buildBlock(step int, st jbstep) (v1 []types.Transaction, v2 []types.V2Transaction, bs consensus.V1BlockSupplement) {
	cs := w.cs
	child := cs.Index.Height + 1
	ib := &inblock{sc: map[[2]int]types.SiacoinElement{}, sf: map[[2]int]types.SiafundElement{}, fc: map[[2]int]types.FileContractID{}, ver: map[int]int{},
		curFC: map[types.FileContractID]types.FileContract{}, curV2: map[types.FileContractID]types.V2FileContract{}, tax: cs.SiafundTaxRevenue}
	elem := func(idx int, k kind) *telem {
		t := w.cl.elems[uint64(idx)]
		if t == nil || t.k != k {
			hpanic("step %d: leaf %d is not a tracked %s element", step, idx, kindNames[k])
		}
		if t.spent {
			hpanic("step %d: the model refers to leaf %d, which the diffs reported spent", step, idx)
		}
		return t
	}
	proved := map[types.FileContractID]bool{}
	type ctouch struct {
		formed, proved bool
		revs           int
	}
	touched := map[types.FileContractID]*ctouch{} // what the block does to its v1 contracts
	touch := func(id types.FileContractID) *ctouch {
		if touched[id] == nil {
			touched[id] = &ctouch{}
		}
		return touched[id]
	}
	for ti, tx := range st.Txs {
		t1 := ti + 1
		ib.ver[t1] = tx.V
		w.bst.txs[fmt.Sprintf("v%d-%s", tx.V, tx.Op)]++
		// funding
		var total types.Currency
		var scParents []types.SiacoinElement
		for _, r := range tx.Ins {
			var e types.SiacoinElement
			if r.T == 0 {
				e = elem(r.O, kSiacoin).sc.Copy()
			} else {
				var ok bool
				if e, ok = ib.sc[[2]int{r.T, r.O}]; !ok {
					hpanic("step %d tx %d: unknown in-block siacoin output (%d,%d)", step, t1, r.T, r.O)
				}
				w.bst.ephSC[fmt.Sprintf("v%d<-v%d", tx.V, ib.ver[r.T])]++
			}
			if e.MaturityHeight > child {
				hpanic("step %d tx %d: the model spends an immature output", step, t1)
			}
			scParents = append(scParents, e)
			total = total.Add(e.SiacoinOutput.Value)
		}
		out := func(v types.Currency) types.SiacoinOutput { return types.SiacoinOutput{Value: v, Address: w.addr} }
		if tx.V == 1 {
			var txn types.Transaction
			var ts consensus.V1TransactionSupplement
			var sigParents []types.Hash256
			for i, e := range scParents {
				txn.SiacoinInputs = append(txn.SiacoinInputs, types.SiacoinInput{ParentID: e.ID, UnlockConditions: w.uc})
				sigParents = append(sigParents, types.Hash256(e.ID))
				if tx.Ins[i].T == 0 {
					ts.SiacoinInputs = append(ts.SiacoinInputs, e)
				}
			}
			switch tx.Op {
			case "sc":
				for _, v := range w.split(total, tx.Nout) {
					txn.SiacoinOutputs = append(txn.SiacoinOutputs, out(v))
				}
			case "sf":
				var e types.SiafundElement
				if tx.C.T == 0 {
					e = elem(tx.C.O, kSiafund).sf.Copy()
					ts.SiafundInputs = append(ts.SiafundInputs, e)
				} else {
					var ok bool
					if e, ok = ib.sf[[2]int{tx.C.T, tx.C.O}]; !ok {
						hpanic("step %d tx %d: unknown in-block siafund output", step, t1)
					}
					w.bst.ephSF["v1"]++
				}
				txn.SiafundInputs = []types.SiafundInput{{ParentID: e.ID, UnlockConditions: w.uc, ClaimAddress: w.addr}}
				sigParents = append(sigParents, types.Hash256(e.ID))
				for _, v := range splitSF(e.SiafundOutput.Value, tx.Nsf) {
					txn.SiafundOutputs = append(txn.SiafundOutputs, types.SiafundOutput{Value: v, Address: w.addr})
				}
			case "form":
				fc := types.FileContract{WindowStart: tx.Ws, WindowEnd: tx.We, UnlockHash: w.addr, FileMerkleRoot: w.hash(1, step, t1)}
				fc.Payout = total.Div64(4)
				tax := cs.FileContractTax(fc)
				for _, v := range w.split(fc.Payout.Sub(tax), tx.Nv) {
					fc.ValidProofOutputs = append(fc.ValidProofOutputs, out(v))
				}
				for _, v := range w.split(fc.Payout.Sub(tax), tx.Nm) {
					fc.MissedProofOutputs = append(fc.MissedProofOutputs, out(v))
				}
				txn.FileContracts = []types.FileContract{fc}
				txn.SiacoinOutputs = []types.SiacoinOutput{out(total.Sub(fc.Payout))}
				ib.tax = ib.tax.Add(tax)
			case "rev":
				var id types.FileContractID
				var cur types.FileContract
				if tx.C.T == 0 {
					t := elem(tx.C.O, kFileContract)
					id, cur = t.fc.ID, t.fc.FileContract
					if _, again := ib.curFC[id]; !again {
						ts.RevisedFileContracts = append(ts.RevisedFileContracts, t.fc.Copy())
					}
				} else {
					var ok bool
					if id, ok = ib.fc[[2]int{tx.C.T, tx.C.O}]; !ok {
						hpanic("step %d tx %d: unknown in-block contract", step, t1)
					}
				}
				if c, ok := ib.curFC[id]; ok {
					cur = c
				}
				rev := cur
				rev.RevisionNumber++
				rev.FileMerkleRoot = w.hash(2, step, t1)
				rev.ValidProofOutputs = slices.Clone(cur.ValidProofOutputs)
				rev.MissedProofOutputs = slices.Clone(cur.MissedProofOutputs)
				if len(rev.ValidProofOutputs) == 2 { // move value between the outputs; the sums stay
					d := rev.ValidProofOutputs[0].Value.Div64(3)
					rev.ValidProofOutputs[0].Value = rev.ValidProofOutputs[0].Value.Sub(d)
					rev.ValidProofOutputs[1].Value = rev.ValidProofOutputs[1].Value.Add(d)
				}
				txn.FileContractRevisions = []types.FileContractRevision{{ParentID: id, UnlockConditions: w.uc, FileContract: rev}}
				sigParents = append(sigParents, types.Hash256(id))
				ib.curFC[id] = rev
				touch(id).revs++
			case "prove":
				var id types.FileContractID
				if tx.C.T == 0 {
					t := elem(tx.C.O, kFileContract)
					id = t.fc.ID
					// (a contract revised earlier in this block is taken, with its window, from the MidState: the
					// supplement presented the element to the revising transaction)
					if _, revised := ib.curFC[id]; !revised {
						wid, ok := w.ids[t.fc.FileContract.WindowStart-1]
						if !ok {
							hpanic("step %d tx %d: no block at height %d for the proof window", step, t1, t.fc.FileContract.WindowStart-1)
						}
						ts.StorageProofs = append(ts.StorageProofs, consensus.V1StorageProofSupplement{FileContract: t.fc.Copy(), WindowID: wid})
					}
				} else {
					var ok bool
					if id, ok = ib.fc[[2]int{tx.C.T, tx.C.O}]; !ok {
						hpanic("step %d tx %d: unknown in-block contract", step, t1)
					}
				}
				txn.StorageProofs = []types.StorageProof{{ParentID: id}}
				proved[id] = true
				touch(id).proved = true
			default:
				hpanic("step %d tx %d: v1 transaction of kind %q", step, t1, tx.Op)
			}
			for _, p := range sigParents {
				txn.Signatures = append(txn.Signatures, types.TransactionSignature{ParentID: p, PublicKeyIndex: 0, CoveredFields: types.CoveredFields{WholeTransaction: true}})
			}
			for i := range txn.Signatures {
				sig := w.sk.SignHash(cs.WholeSigHash(txn, txn.Signatures[i].ParentID, 0, 0, nil))
				txn.Signatures[i].Signature = sig[:]
			}
			for i, o := range txn.SiacoinOutputs {
				ib.sc[[2]int{t1, i}] = types.SiacoinElement{StateElement: types.StateElement{LeafIndex: types.UnassignedLeafIndex}, ID: txn.SiacoinOutputID(i), SiacoinOutput: o}
			}
			for i, o := range txn.SiafundOutputs {
				ib.sf[[2]int{t1, i}] = types.SiafundElement{StateElement: types.StateElement{LeafIndex: types.UnassignedLeafIndex}, ID: txn.SiafundOutputID(i), SiafundOutput: o, ClaimStart: ib.tax}
			}
			for i, fc := range txn.FileContracts {
				id := txn.FileContractID(i)
				ib.fc[[2]int{t1, i}] = id
				ib.curFC[id] = fc
				touch(id).formed = true
			}
			v1 = append(v1, txn)
			bs.Transactions = append(bs.Transactions, ts)
			continue
		}
		// v2
		var txn types.V2Transaction
		for _, e := range scParents {
			txn.SiacoinInputs = append(txn.SiacoinInputs, types.V2SiacoinInput{Parent: e, SatisfiedPolicy: types.SatisfiedPolicy{Policy: w.pol}})
		}
		switch tx.Op {
		case "sc":
			for _, v := range w.split(total, tx.Nout) {
				txn.SiacoinOutputs = append(txn.SiacoinOutputs, out(v))
			}
			for i := 0; i < tx.Natt; i++ {
				a := types.Attestation{PublicKey: w.sk.PublicKey(), Key: fmt.Sprintf("k%d.%d.%d", step, t1, i), Value: []byte{byte(step), byte(t1)}}
				a.Signature = w.sk.SignHash(cs.AttestationSigHash(a))
				txn.Attestations = append(txn.Attestations, a)
			}
		case "sf":
			var e types.SiafundElement
			if tx.C.T == 0 {
				e = elem(tx.C.O, kSiafund).sf.Copy()
			} else {
				var ok bool
				if e, ok = ib.sf[[2]int{tx.C.T, tx.C.O}]; !ok {
					hpanic("step %d tx %d: unknown in-block siafund output", step, t1)
				}
				w.bst.ephSF["v2"]++
			}
			txn.SiafundInputs = []types.V2SiafundInput{{Parent: e, ClaimAddress: w.addr, SatisfiedPolicy: types.SatisfiedPolicy{Policy: w.pol}}}
			for _, v := range splitSF(e.SiafundOutput.Value, tx.Nsf) {
				txn.SiafundOutputs = append(txn.SiafundOutputs, types.SiafundOutput{Value: v, Address: w.addr})
			}
		case "form", "renew":
			budget := total.Div64(4)
			fc := types.V2FileContract{ProofHeight: tx.Ws, ExpirationHeight: tx.We, FileMerkleRoot: w.hash(3, step, t1),
				RenterOutput: out(budget.Div64(2)), HostOutput: out(budget.Div64(4)), RenterPublicKey: w.sk.PublicKey(), HostPublicKey: w.sk.PublicKey()}
			fc.MissedHostValue = fc.HostOutput.Value.Div64(2)
			fc.TotalCollateral = fc.MissedHostValue
			if fc.HostOutput.Value.IsZero() {
				hpanic("out of funds: cannot form a contract from %v", total)
			}
			w.signV2Contract(&fc)
			tax := cs.V2FileContractTax(fc)
			cost := fc.RenterOutput.Value.Add(fc.HostOutput.Value).Add(tax)
			txn.SiacoinOutputs = []types.SiacoinOutput{out(total.Sub(cost))}
			ib.tax = ib.tax.Add(tax)
			if tx.Op == "form" {
				txn.FileContracts = []types.V2FileContract{fc}
				break
			}
			t := elem(tx.C.O, kV2FileContract)
			cur := t.v2.V2FileContract
			if c, ok := ib.curV2[t.v2.ID]; ok {
				cur = c
				w.bst.v2RevResolve++
			}
			ren := &types.V2FileContractRenewal{FinalRenterOutput: cur.RenterOutput, FinalHostOutput: cur.HostOutput, NewContract: fc}
			h := cs.RenewalSigHash(*ren)
			ren.RenterSignature, ren.HostSignature = w.sk.SignHash(h), w.sk.SignHash(h)
			txn.FileContractResolutions = []types.V2FileContractResolution{{Parent: t.v2.Copy(), Resolution: ren}}
		case "rev":
			t := elem(tx.C.O, kV2FileContract)
			cur := t.v2.V2FileContract
			if c, ok := ib.curV2[t.v2.ID]; ok {
				cur = c
				w.bst.v2RevTwice++
			}
			rev := cur
			rev.RevisionNumber++
			rev.FileMerkleRoot = w.hash(4, step, t1)
			d := rev.RenterOutput.Value.Div64(3)
			rev.RenterOutput.Value = rev.RenterOutput.Value.Sub(d)
			rev.HostOutput.Value = rev.HostOutput.Value.Add(d)
			w.signV2Contract(&rev)
			txn.FileContractRevisions = []types.V2FileContractRevision{{Parent: t.v2.Copy(), Revision: rev}}
			ib.curV2[t.v2.ID] = rev
		case "expire":
			t := elem(tx.C.O, kV2FileContract)
			txn.FileContractResolutions = []types.V2FileContractResolution{{Parent: t.v2.Copy(), Resolution: &types.V2FileContractExpiration{}}}
		default:
			hpanic("step %d tx %d: v2 transaction of kind %q", step, t1, tx.Op)
		}
		h := cs.InputSigHash(txn)
		for i := range txn.SiacoinInputs {
			txn.SiacoinInputs[i].SatisfiedPolicy.Signatures = []types.Signature{w.sk.SignHash(h)}
		}
		for i := range txn.SiafundInputs {
			txn.SiafundInputs[i].SatisfiedPolicy.Signatures = []types.Signature{w.sk.SignHash(h)}
		}
		txid := txn.ID()
		for i, o := range txn.SiacoinOutputs {
			ib.sc[[2]int{t1, i}] = types.SiacoinElement{StateElement: types.StateElement{LeafIndex: types.UnassignedLeafIndex}, ID: txn.SiacoinOutputID(txid, i), SiacoinOutput: o}
		}
		for i, o := range txn.SiafundOutputs {
			ib.sf[[2]int{t1, i}] = types.SiafundElement{StateElement: types.StateElement{LeafIndex: types.UnassignedLeafIndex}, ID: txn.SiafundOutputID(txid, i), SiafundOutput: o, ClaimStart: ib.tax}
		}
		v2 = append(v2, txn)
	}
	// the honest supplement lists every live v1 contract whose window ends with this block
	var exp []int
	for idx, t := range w.cl.elems {
		if t.k == kFileContract && !t.spent && t.fc.FileContract.WindowEnd == child {
			exp = append(exp, int(idx))
		}
	}
	sort.Ints(exp)
	var unproved []int
	for _, idx := range exp {
		t := w.cl.elems[uint64(idx)]
		bs.ExpiringFileContracts = append(bs.ExpiringFileContracts, t.fc.Copy())
		if !proved[t.fc.ID] {
			unproved = append(unproved, idx)
		}
	}
	if !slices.Equal(unproved, st.Exp) && !(len(unproved) == 0 && len(st.Exp) == 0) {
		hpanic("step %d: contracts expiring at height %d are the leaves %v, in the model %v", step, child, unproved, st.Exp)
	}
	w.bst.expiring += int64(len(unproved))
	for _, ct := range touched {
		switch {
		case ct.formed && ct.proved:
			w.bst.fcFormProve++
		case ct.revs > 0 && ct.proved:
			w.bst.fcRevProve++
		}
		if ct.formed && ct.revs > 0 {
			w.bst.fcFormRev++
		}
		if ct.revs >= 2 {
			w.bst.fcRevTwice++
		}
	}
	if len(v1) > 0 && len(v2) > 0 {
		w.bst.mixedBlocks++
	}
	return v1, v2, bs
}

func splitSF(v uint64, n int) []uint64 {
	if n <= 0 || v < uint64(n) {
		hpanic("cannot split %d siafunds into %d outputs", v, n)
	}
	out := make([]uint64, n)
	rest := v
	for i := 0; i < n-1; i++ {
		out[i] = v / uint64(n)
		rest -= out[i]
	}
	out[n-1] = rest
	return out
}

// ---------------------------------------------------------------------------

// runBlocks replays one behaviour of AccBlocks on a real chain.
func runBlocks(c *vlib.Ctx, bst *bstats, raw string, salt uint64) {
	runBlocksMode(c, bst, raw, salt, false)
}

// blocksSelftest: the binding on the expected side. One TLC behaviour in which a leaf enters the
// accumulator spent is replayed with ONE logged field corrupted -- (1) that leaf's flag in every term of
// the model's forest (spent -> unspent, the forest of a model that forgot the ephemeral spend), (2) the
// logged status of that leaf, (3) the logged leaf count -- and the comparison must reject each.
func blocksSelftest(c *vlib.Ctx, hs []string) {
	for _, raw := range hs {
		var steps []jbstep
		if err := json.Unmarshal([]byte(raw), &steps); err != nil || len(steps) < 2 || steps[1].Op != "block" {
			continue
		}
		n0, leaf := int(steps[0].S.N), -1
		for i, m := range steps[1].S.Meta {
			if i >= n0 && m[2] == 1 {
				leaf = i
				break
			}
		}
		if leaf < 0 {
			continue
		}
		try := func(mut func(st *jbstep)) []string {
			var cp []jbstep
			json.Unmarshal([]byte(raw), &cp)
			mut(&cp[1])
			b, _ := json.Marshal(cp)
			w := runBlocksMode(c, newBStats(), string(b), 77, true)
			return w.dryFails
		}
		tokS, tokU := fmt.Sprintf("L%dv0@%ds", leaf, leaf), fmt.Sprintf("L%dv0@%du", leaf, leaf)
		f1 := try(func(st *jbstep) {
			for i := range st.S.Trees {
				st.S.Trees[i] = strings.ReplaceAll(st.S.Trees[i], tokS, tokU)
			}
			for i := range st.S.Proofs {
				for j := range st.S.Proofs[i] {
					st.S.Proofs[i][j] = strings.ReplaceAll(st.S.Proofs[i][j], tokS, tokU)
				}
			}
		})
		f2 := try(func(st *jbstep) { st.S.Meta[leaf][2] = 0 })
		f3 := try(func(st *jbstep) { st.S.N++ })
		var keys []string
		for i, f := range [][]string{f1, f2, f3} {
			if len(f) == 0 {
				c.Fatal("blocks selftest %d: a corrupted expectation was accepted -- the comparison is not binding", i+1)
			}
			keys = append(keys, f[0])
		}
		if ok := try(func(*jbstep) {}); len(ok) != 0 {
			c.Fatal("blocks selftest: the uncorrupted behaviour is rejected (%v)", ok)
		}
		c.Cov("blocks_selftest_corrupted_expectations_rejected", keys)
		return
	}
	c.Fatal("blocks selftest: no behaviour with a leaf entering spent")
}

func runBlocksMode(c *vlib.Ctx, bst *bstats, raw string, salt uint64, dry bool) *bworld {
	var steps []jbstep
	if err := json.Unmarshal([]byte(raw), &steps); err != nil {
		c.Fatal("cannot read a block history printed by TLC: %v in %s", err, vlib.Tail(raw, 200))
	}
	if len(steps) == 0 || steps[0].Op != "init" {
		c.Fatal("block history does not start with init")
	}
	w := &bworld{c: c, bst: bst, raw: raw, salt: salt, dry: dry, cl: &chainClient{elems: map[uint64]*telem{}, byID: map[types.Hash256]uint64{}}, ids: map[uint64]types.BlockID{}}
	if p, v := vlib.Recover(func() { w.run(steps) }); p {
		if he, ok := v.(harnessErr); ok {
			if dry { // a corrupted expectation may also trip a consistency check of the binding: rejected as well
				w.dryFails = append(w.dryFails, "binding: "+string(he))
				return w
			}
			c.Fatal("harness error in a TLC block history (salt %d): %s\n%s", salt, string(he), vlib.Tail(raw, 300))
		}
		panic(v)
	}
	return w
}

func (w *bworld) run(steps []jbstep) {
	n := &consensus.Network{Name: "c05b", InitialCoinbase: pow2(115), MinimumCoinbase: pow2(114), InitialTarget: types.BlockID{0xFF}, BlockInterval: 10 * time.Minute, MaturityDelay: blocksMatDelay}
	n.HardforkOak.Height, n.HardforkOak.FixHeight = 100000, 100000
	n.HardforkASIC.Height, n.HardforkASIC.NonceFactor = 200000, 1
	n.HardforkFoundation.Height = 300000
	n.HardforkV2.AllowHeight, n.HardforkV2.RequireHeight, n.HardforkV2.FinalCutHeight = 0, 500000, 600000
	n.HardforkV2.EphemeralOutputHeight = blocksEphH
	w.n = n
	var seed [32]byte
	binary.LittleEndian.PutUint64(seed[:], w.salt)
	w.sk = types.NewPrivateKeyFromSeed(seed[:])
	w.uc = types.StandardUnlockConditions(w.sk.PublicKey())
	w.pol = types.SpendPolicy{Type: types.PolicyTypeUnlockConditions(w.uc)}
	w.addr = w.uc.UnlockHash()
	if w.pol.Address() != w.addr {
		hpanic("policy address differs from the unlock hash")
	}

	// genesis from the model's initial forest: siacoin outputs, siafund outputs, v1 contracts, chain index
	var gtxn types.Transaction
	g := steps[0].S
	for i, m := range g.Meta {
		switch modelKind[m[3]] {
		case kSiacoin:
			gtxn.SiacoinOutputs = append(gtxn.SiacoinOutputs, types.SiacoinOutput{Value: pow2(120), Address: w.addr})
		case kSiafund:
			gtxn.SiafundOutputs = append(gtxn.SiafundOutputs, types.SiafundOutput{Value: 1 << uint(m[7]), Address: w.addr})
		case kFileContract:
			fc := types.FileContract{WindowStart: uint64(m[5]), WindowEnd: uint64(m[6]), Payout: pow2(40), UnlockHash: w.addr}
			tax := n.GenesisState().FileContractTax(fc)
			for _, v := range w.split(fc.Payout.Sub(tax), m[7]) {
				fc.ValidProofOutputs = append(fc.ValidProofOutputs, types.SiacoinOutput{Value: v, Address: w.addr})
			}
			for _, v := range w.split(fc.Payout.Sub(tax), m[8]) {
				fc.MissedProofOutputs = append(fc.MissedProofOutputs, types.SiacoinOutput{Value: v, Address: w.addr})
			}
			gtxn.FileContracts = append(gtxn.FileContracts, fc)
		case kChainIndex:
			if i != len(g.Meta)-1 {
				hpanic("genesis forest has a chain index element at leaf %d of %d", i, len(g.Meta))
			}
		default:
			hpanic("genesis forest has a kind-%d leaf", m[3])
		}
	}
	w.cs = n.GenesisState()
	w.old = &forest{0, hterm.PerfectRoots(func(uint64) types.Hash256 { return types.Hash256{} })}
	if !w.sealAndApply(0, []types.Transaction{gtxn}, nil, 1, consensus.V1BlockSupplement{Transactions: make([]consensus.V1TransactionSupplement, 1)}, "genesis", true) {
		return
	}
	if !w.compare("init", 0, g) || !w.treeNodes("init", 0, w.auLast.ForEachTreeNode) {
		return
	}
	w.bst.steps++
	prevN := int(g.N)
	for i, st := range steps[1:] {
		step := i + 1
		switch st.Op {
		case "block":
			v1, v2, bs := w.buildBlock(step, st)
			kb, _ := json.Marshal(struct {
				Bv  int
				Txs []jtx
			}{st.Bv, st.Txs})
			if !w.sealAndApply(step, v1, v2, st.Bv, bs, string(kb), false) {
				return
			}
			if !w.compare("apply", step, st.S) || !w.treeNodes("apply", step, w.auLast.ForEachTreeNode) {
				return
			}
			eph := false
			for _, m := range st.S.Meta[prevN:] {
				if m[2] == 1 {
					w.bst.addedSpent[kindNames[modelKind[m[3]]]]++
					eph = true
				}
			}
			w.stack[len(w.stack)-1].ephemeral = eph
			w.bst.blocks++
		case "revert":
			if len(w.stack) == 0 {
				hpanic("step %d: the model reverts on an empty stack", step)
			}
			fr := w.stack[len(w.stack)-1]
			w.stack = w.stack[:len(w.stack)-1]
			var ru consensus.RevertUpdate
			before := proofsOf(w.cl)
			if p, v := vlib.Recover(func() {
				ru = consensus.RevertBlock(fr.prev, fr.b, fr.bs)
				w.cl.revert(w.c, ru, fr.prev.Elements.NumLeaves)
			}); p {
				if he, ok := v.(harnessErr); ok {
					panic(he)
				}
				w.violation("revert-panic", fmt.Sprintf("RevertBlock/UpdateElementProof panicked at height %d: %v", w.cs.Index.Height, v), step)
				return
			}
			delete(w.ids, w.cs.Index.Height)
			w.cs = fr.prev
			if !w.compare("revert", step, st.S) || !w.treeNodes("revert", step, ru.ForEachTreeNode) {
				return
			}
			if someProofChanged(before, w.cl) {
				w.bst.nontrivial++
				w.bst.distinct[keyHash(fmt.Sprintf("r%d|%s", fr.prev.Elements.NumLeaves, fr.key))] = struct{}{}
			}
			if fr.ephemeral {
				w.bst.revertsOfEphemeral++
			}
			w.bst.reverts++
			w.bst.st.reverts++
		default:
			hpanic("unknown op %q", st.Op)
		}
		prevN = int(st.S.N)
		w.bst.maxLeaves = max(w.bst.maxLeaves, prevN)
		w.bst.steps++
	}
}

// ---------------------------------------------------------------------------
// TLC runs

const (
	blocksMatDelay = 1
	blocksEphH     = 5
)

func blocksCfg(exhaustive bool, maxH, maxLeaves, depth, maxTx int, gsc, gsf, gfc string) string {
	ex := "FALSE"
	if exhaustive {
		ex = "TRUE"
	}
	return fmt.Sprintf(`SPECIFICATION BSpec
CONSTANTS
  MaxH = %d
  MaxAdd = 5
  MaxLeaves = %d
  MaxInit = 0
  MaxUndo = %d
  Depth = %d
  MaxTx = %d
  MatDelay = %d
  EphH = %d
  Exhaustive = %s
  GenSC = %s
  GenSF = %s
  GenFC = %s
INVARIANTS BCount BRoots BProofs BVerify BSane
PROPERTIES RevertRestores
CHECK_DEADLOCK FALSE
`, maxH, maxLeaves, depth+1, depth, maxTx, blocksMatDelay, blocksEphH, ex, gsc, gsf, gfc)
}

func blockHistories(res *vlib.TLCResult) []string {
	var out []string
	for _, ln := range res.Lines {
		if strings.HasPrefix(ln, "BLK ") {
			out = append(out, vlib.UnquoteTLA(strings.TrimSpace(strings.TrimPrefix(ln, "BLK "))))
		}
	}
	return out
}

func replayBlocks(c *vlib.Ctx, tot *bstats, hs []string, saltBase uint64) {
	workers := 8
	ch := make(chan int)
	var wg sync.WaitGroup
	var mu sync.Mutex
	for wk := 0; wk < workers; wk++ {
		wg.Add(1)
		go func() {
			defer wg.Done()
			bst := newBStats()
			for i := range ch {
				runBlocks(c, bst, hs[i], saltBase+uint64(i))
			}
			mu.Lock()
			tot.merge(bst)
			mu.Unlock()
		}()
	}
	for i := range hs {
		ch <- i
	}
	close(ch)
	wg.Wait()
}

// runBlockHistories: TLC generates (and checks) block histories, the harness replays them on real chains.
func runBlockHistories(c *vlib.Ctx, st *stats) (steps, nontrivial int64) {
	tot := newBStats()
	// (a) exhaustive: every block of <= MaxTx abstract transactions on a genesis forest of 2 siacoin outputs,
	//     1 siafund output and 1 v1 contract, then its revert
	//     (measured: MaxTx 2 -> 1 372 blocks, 4 118 states, 5 s; MaxTx 3 -> 37 216 blocks, 111 650 states, 30 s)
	t0 := time.Now()
	res := c.MustTLC(vlib.TLCOpts{SpecDirs: []string{"acc"}, Module: "AccBlocks", ConfText: blocksCfg(true, 4, 31, 2, c.Pick(2, 3), "{2}", "{1}", "{1}"), Workers: 8, Timeout: 15 * time.Minute})
	ex := blockHistories(res)
	if len(ex) == 0 || res.Distinct < int64(3*len(ex)) {
		c.Fatal("AccBlocks exhaustive: %d behaviours printed, %d states", len(ex), res.Distinct)
	}
	replayBlocks(c, tot, ex, uint64(c.Seed)<<32+2<<28)
	blocksSelftest(c, ex)
	c.Traces(int64(len(ex)))
	c.Cov("blocks_exhaustive_single_blocks", len(ex))
	c.Cov("blocks_exhaustive_states", res.Distinct)
	tEx := time.Since(t0)

	// (b) -simulate: histories of Depth blocks/reverts on forests up to ~100 leaves
	t1 := time.Now()
	simWorkers, num, depth := 8, c.Pick(12, 150), c.Pick(12, 14)
	hres, err := c.TLC(vlib.TLCOpts{SpecDirs: []string{"acc"}, Module: "AccBlocks", ConfText: blocksCfg(false, 6, 120, depth, 4, "{2, 3, 4}", "{1, 2}", "{0, 1}"), Workers: simWorkers,
		Simulate: fmt.Sprintf("num=%d", num), Depth: 8 * depth, Seed: c.Seed, Timeout: 15 * time.Minute})
	if err != nil {
		c.Fatal("AccBlocks: %v", err)
	}
	if hres.Violated != "" {
		c.Fatal("model-internal failure in AccBlocks (%s): %s", hres.Violated, vlib.Tail(hres.Out, 1500))
	}
	hs := blockHistories(hres)
	if len(hs) < simWorkers*num*8/10 {
		c.Fatal("AccBlocks printed only %d histories", len(hs))
	}
	before := tot.steps
	replayBlocks(c, tot, hs, uint64(c.Seed)<<32+3<<28)
	hstates := tot.steps - before
	c.AddStates(hstates, hstates)
	c.Traces(int64(len(hs)))
	c.Cov("blocks_histories_replayed", len(hs))
	tSim := time.Since(t1)

	st.merge(tot.st)
	c.Cov("blocks_steps", tot.steps)
	c.Cov("blocks_applied", tot.blocks)
	c.Cov("blocks_reverted", tot.reverts)
	c.Cov("blocks_reverted_with_ephemeral_elements", tot.revertsOfEphemeral)
	c.Cov("blocks_txs_by_kind", tot.txs)
	c.Cov("blocks_ephemeral_siacoin_spends", tot.ephSC)
	c.Cov("blocks_ephemeral_siafund_spends", tot.ephSF)
	c.Cov("blocks_leaves_added_spent_by_kind", tot.addedSpent)
	c.Cov("blocks_v1_contract_formed_and_revised", tot.fcFormRev)
	c.Cov("blocks_v1_contract_formed_and_proved", tot.fcFormProve)
	c.Cov("blocks_v1_contract_revised_and_proved", tot.fcRevProve)
	c.Cov("blocks_v1_contract_revised_twice", tot.fcRevTwice)
	c.Cov("blocks_v2_contract_revised_twice", tot.v2RevTwice)
	c.Cov("blocks_v2_contract_revised_and_renewed", tot.v2RevResolve)
	c.Cov("blocks_v1_contracts_expired_by_supplement", tot.expiring)
	c.Cov("blocks_with_v1_and_v2_transactions", tot.mixedBlocks)
	c.Cov("blocks_max_leaves", tot.maxLeaves)
	c.Cov("blocks_wall_s", map[string]float64{"exhaustive": tEx.Seconds(), "simulate": tSim.Seconds()})
	if len(hs) > 0 {
		c.Sample(map[string]any{"part": "blocks", "behaviour": json.RawMessage(ex[len(ex)/2])})
	}
	if c.NViolations() == 0 {
		guard := func(n int64, what string) {
			if n == 0 {
				c.Infra("vacuity (block histories): %s never occurred", what)
			}
		}
		guard(tot.ephSC["v1<-v1"], "a v1 transaction spending a siacoin output created by a v1 transaction of the same block")
		guard(tot.ephSC["v2<-v1"], "a v2 transaction spending a siacoin output created by a v1 transaction of the same block")
		guard(tot.ephSC["v2<-v2"], "a v2 transaction spending a siacoin output created by a v2 transaction of the same block")
		guard(tot.ephSF["v1"], "a v1 transaction spending a siafund output created in the same block")
		guard(tot.ephSF["v2"], "a v2 transaction spending a siafund output created in the same block")
		guard(tot.addedSpent["siacoin"], "a siacoin leaf entering the accumulator spent")
		guard(tot.addedSpent["siafund"], "a siafund leaf entering the accumulator spent")
		guard(tot.addedSpent["filecontract"], "a v1 contract leaf entering the accumulator resolved")
		guard(tot.fcFormRev, "a v1 contract formed and revised in one block")
		guard(tot.fcFormProve, "a v1 contract formed and proved in one block")
		guard(tot.revertsOfEphemeral, "a revert of a block with ephemeral elements")
		guard(tot.mixedBlocks, "a block with v1 and v2 transactions")
		guard(tot.txs["v2-renew"], "a v2 renewal")
		guard(tot.txs["v2-rev"], "a v2 revision")
		guard(tot.expiring, "a v1 contract expired through the supplement")
	}
	return tot.steps, int64(len(tot.distinct))
}
