package main

import (
	"encoding/json"
	"fmt"
	"math/rand"
	"slices"
	"time"

	"go.sia.tech/core/consensus"
	"go.sia.tech/core/types"
	"verif/harness/hterm"
	"verif/harness/vlib"
)

// Part 3: the property through the public API. A real chain is built with
// consensus.ApplyBlock on a test network: a v1 genesis block, then valid v2
// blocks (checked with ValidateBlock) whose transactions spend a chosen subset of
// the tracked outputs, transfer siafunds, form/revise/expire v2 contracts, attest,
// and create k new outputs; the chain is reverted by 1..3 blocks at random
// points and continued on another branch. A client tracks EVERY element ever
// created and applies every ApplyUpdate/RevertUpdate.UpdateElementProof. After
// every block and every revert
//   - State.Elements (NumLeaves, Trees) equals the naive forest over the real leaf
//     hashes of all tracked elements (shim leaf constructors; hterm.PerfectRoots);
//   - every tracked proof equals the naive sibling path, recomputes the root of
//     Trees[len(proof)], and containsLeaf holds for the current spent status only;
//   - ForEachTreeNode enumerates exactly the nodes of the new forest that did not
//     exist before or whose hash changed, once each, with the naive hash.

type telem struct {
	k     kind
	sc    types.SiacoinElement
	sf    types.SiafundElement
	fc    types.FileContractElement
	v2    types.V2FileContractElement
	at    types.AttestationElement
	ci    types.ChainIndexElement
	spent bool
	ver   int // number of blocks (applied and not reverted) that revised the element: the version in the model's leaf tokens
}

func (t *telem) se() *types.StateElement {
	switch t.k {
	case kSiacoin:
		return &t.sc.StateElement
	case kSiafund:
		return &t.sf.StateElement
	case kFileContract:
		return &t.fc.StateElement
	case kV2FileContract:
		return &t.v2.StateElement
	case kAttestation:
		return &t.at.StateElement
	}
	return &t.ci.StateElement
}

func (t *telem) leaf(spent bool) consensus.VerifLeaf {
	switch t.k {
	case kSiacoin:
		return consensus.VerifSiacoinLeaf(&t.sc, spent)
	case kSiafund:
		return consensus.VerifSiafundLeaf(&t.sf, spent)
	case kFileContract:
		return consensus.VerifFileContractLeaf(&t.fc, nil, spent)
	case kV2FileContract:
		return consensus.VerifV2FileContractLeaf(&t.v2, nil, spent)
	case kAttestation:
		l := consensus.VerifAttestationLeaf(&t.at)
		if spent {
			return consensus.VerifNewLeaf(l.Element(), l.ElementHash(), true)
		}
		return l
	}
	l := consensus.VerifChainIndexLeaf(&t.ci)
	if spent {
		return consensus.VerifNewLeaf(l.Element(), l.ElementHash(), true)
	}
	return l
}

type chainClient struct {
	elems map[uint64]*telem       // by leaf index: every element ever created (and not reverted away)
	byID  map[types.Hash256]uint64 // element id -> leaf index
}

func (cl *chainClient) add(t *telem, id types.Hash256) {
	idx := t.se().LeafIndex
	cl.elems[idx] = t
	cl.byID[id] = idx
}

func attestationsOf(v any) ([]types.AttestationElement, error) {
	// ApplyUpdate has no accessor for attestation elements; its JSON form carries them
	b, err := json.Marshal(v)
	if err != nil {
		return nil, err
	}
	var js struct {
		AttestationElements []types.AttestationElement `json:"attestationElements"`
	}
	if err := json.Unmarshal(b, &js); err != nil {
		return nil, err
	}
	return js.AttestationElements, nil
}

func (cl *chainClient) apply(c *vlib.Ctx, au consensus.ApplyUpdate) {
	for _, t := range cl.elems {
		au.UpdateElementProof(t.se())
	}
	for _, d := range au.SiacoinElementDiffs() {
		if d.Created {
			cl.add(&telem{k: kSiacoin, sc: d.SiacoinElement.Copy(), spent: d.Spent}, types.Hash256(d.SiacoinElement.ID))
		} else if idx, ok := cl.byID[types.Hash256(d.SiacoinElement.ID)]; ok && d.Spent {
			cl.elems[idx].spent = true
		} else {
			c.Fatal("chain: siacoin diff for an untracked element")
		}
	}
	for _, d := range au.SiafundElementDiffs() {
		if d.Created {
			cl.add(&telem{k: kSiafund, sf: d.SiafundElement.Copy(), spent: d.Spent}, types.Hash256(d.SiafundElement.ID))
		} else if idx, ok := cl.byID[types.Hash256(d.SiafundElement.ID)]; ok && d.Spent {
			cl.elems[idx].spent = true
		} else {
			c.Fatal("chain: siafund diff for an untracked element")
		}
	}
	for _, d := range au.FileContractElementDiffs() {
		// a contract formed by the block: the diff carries it as last revised in the block, and resolved if it was proved in it
		if d.Created {
			cl.add(&telem{k: kFileContract, fc: d.FileContractElement.Copy(), spent: d.Resolved}, types.Hash256(d.FileContractElement.ID))
			continue
		}
		idx, ok := cl.byID[types.Hash256(d.FileContractElement.ID)]
		if !ok {
			c.Fatal("chain: v1 contract diff for an untracked element")
		}
		t := cl.elems[idx]
		if d.Revision != nil {
			t.fc.FileContract = *d.Revision
			t.ver++
		}
		if d.Resolved {
			t.spent = true
		}
	}
	for _, d := range au.V2FileContractElementDiffs() {
		var t *telem
		if d.Created {
			t = &telem{k: kV2FileContract, v2: d.V2FileContractElement.Copy()}
			cl.add(t, types.Hash256(d.V2FileContractElement.ID))
		} else if idx, ok := cl.byID[types.Hash256(d.V2FileContractElement.ID)]; ok {
			t = cl.elems[idx]
		} else {
			c.Fatal("chain: v2 contract diff for an untracked element")
		}
		if d.Revision != nil {
			t.v2.V2FileContract = *d.Revision
			if !d.Created {
				t.ver++
			}
		}
		if d.Resolution != nil {
			t.spent = true
		}
	}
	aes, err := attestationsOf(au)
	if err != nil {
		c.Fatal("chain: %v", err)
	}
	for _, ae := range aes {
		cl.add(&telem{k: kAttestation, at: ae.Copy()}, types.Hash256(ae.ID))
	}
	cie := au.ChainIndexElement()
	cl.add(&telem{k: kChainIndex, ci: cie.Copy()}, types.Hash256(cie.ID))
}

func (cl *chainClient) revert(c *vlib.Ctx, ru consensus.RevertUpdate, numLeaves uint64) {
	for idx, t := range cl.elems {
		if idx >= numLeaves {
			delete(cl.elems, idx) // created by the reverted block
			continue
		}
		ru.UpdateElementProof(t.se())
	}
	for id, idx := range cl.byID {
		if idx >= numLeaves {
			delete(cl.byID, id)
		}
	}
	for _, d := range ru.SiacoinElementDiffs() {
		if idx, ok := cl.byID[types.Hash256(d.SiacoinElement.ID)]; ok && d.Spent && !d.Created {
			cl.elems[idx].spent = false
		}
	}
	for _, d := range ru.SiafundElementDiffs() {
		if idx, ok := cl.byID[types.Hash256(d.SiafundElement.ID)]; ok && d.Spent && !d.Created {
			cl.elems[idx].spent = false
		}
	}
	for _, d := range ru.FileContractElementDiffs() {
		if idx, ok := cl.byID[types.Hash256(d.FileContractElement.ID)]; ok && !d.Created {
			t := cl.elems[idx]
			t.fc.FileContract = d.FileContractElement.FileContract // the contract as it was before the block
			if d.Revision != nil {
				t.ver--
			}
			if d.Resolved {
				t.spent = false
			}
		}
	}
	for _, d := range ru.V2FileContractElementDiffs() {
		if idx, ok := cl.byID[types.Hash256(d.V2FileContractElement.ID)]; ok && !d.Created {
			t := cl.elems[idx]
			t.v2.V2FileContract = d.V2FileContractElement.V2FileContract // the contract as it was before the block
			if d.Revision != nil {
				t.ver--
			}
			if d.Resolution != nil {
				t.spent = false
			}
		}
	}
}

// forest is the naive forest over the client's view of all leaves.
type forest struct {
	n     uint64
	roots *hterm.Roots
}

func (cl *chainClient) forest(c *vlib.Ctx, n uint64) *forest {
	hs := make([]types.Hash256, n)
	for i := range hs {
		t := cl.elems[uint64(i)]
		if t == nil {
			c.Fatal("chain: leaf %d of %d is not tracked by the client (an element kind escaped the harness)", i, n)
		}
		hs[i] = t.leaf(t.spent).Hash()
	}
	return &forest{n, hterm.PerfectRoots(func(i uint64) types.Hash256 { return hs[i] })}
}

type nodeKey [2]uint64

// changedNodes: nodes (row, col) of the forest `now` that did not exist in `old` or whose hash differs.
func changedNodes(old, now *forest) map[nodeKey]types.Hash256 {
	out := map[nodeKey]types.Hash256{}
	for row := uint64(0); (uint64(1) << row) <= now.n; row++ {
		for col := uint64(0); (col+1)<<row <= now.n; col++ {
			h := now.roots.Root(col<<row, (col+1)<<row)
			if (col+1)<<row > old.n || old.roots.Root(col<<row, (col+1)<<row) != h {
				out[nodeKey{row, col}] = h
			}
		}
	}
	return out
}

type chainFail struct{ key, what string }

// check compares the real state and every tracked element with the naive forest.
func (cl *chainClient) check(c *vlib.Ctx, st *stats, phase string, cs consensus.State, fo *forest, defCache map[uint64]*expect) *chainFail {
	acc := cs.Elements
	if acc.NumLeaves != fo.n {
		return &chainFail{phase + "-numleaves", fmt.Sprintf("State.Elements.NumLeaves = %d, %d elements were created", acc.NumLeaves, fo.n)}
	}
	exp := naiveExpectCached(fo.n, defCache)
	ev := hterm.NewEvaluator(nil, fo.roots.Root)
	for h, t := range exp.trees {
		st.height(h)
		if want := ev.Eval(t); acc.Trees[h] != want {
			return &chainFail{phase + "-root", fmt.Sprintf("height %d: State.Elements.Trees[%d] = %v, naive forest over %d leaves has %v", cs.Index.Height, h, acc.Trees[h], fo.n, want)}
		}
	}
	for i := uint64(0); i < fo.n; i++ {
		t := cl.elems[i]
		se := t.se()
		class := kindNames[t.k]
		if t.spent {
			class += "-spent"
			st.tracked("spent")
		} else {
			st.tracked("old")
		}
		if se.LeafIndex != i {
			return &chainFail{phase + "-leafindex", fmt.Sprintf("tracked element has LeafIndex %d, client filed it under %d", se.LeafIndex, i)}
		}
		if len(se.MerkleProof) != len(exp.proofs[i]) {
			return &chainFail{phase + "-proof-" + class, fmt.Sprintf("height %d: proof of %s leaf %d has %d entries, naive path %d", cs.Index.Height, class, i, len(se.MerkleProof), len(exp.proofs[i]))}
		}
		for j, pt := range exp.proofs[i] {
			if want := ev.Eval(pt); se.MerkleProof[j] != want {
				return &chainFail{phase + "-proof-" + class, fmt.Sprintf("height %d: proof of %s leaf %d entry %d = %v, naive path has %v", cs.Index.Height, class, i, j, se.MerkleProof[j], want)}
			}
		}
		l := t.leaf(t.spent)
		if acc.NumLeaves&(1<<len(se.MerkleProof)) == 0 || l.ProofRoot() != acc.Trees[len(se.MerkleProof)] || !acc.VerifContainsLeaf(l) {
			return &chainFail{phase + "-verify-" + class, fmt.Sprintf("height %d: %s leaf %d does not verify against State.Elements", cs.Index.Height, class, i)}
		}
		if acc.VerifContainsLeaf(t.leaf(!t.spent)) {
			return &chainFail{phase + "-verify-flipped", fmt.Sprintf("height %d: %s leaf %d verifies with the wrong spent status", cs.Index.Height, class, i)}
		}
		st.contains++
	}
	return nil
}

func checkNodes(phase string, got map[nodeKey]types.Hash256, dup bool, want map[nodeKey]types.Hash256) *chainFail {
	if dup {
		return &chainFail{phase + "-treenodes-duplicate", "ForEachTreeNode reported a node twice"}
	}
	for k, h := range want {
		g, ok := got[k]
		if !ok {
			return &chainFail{phase + "-treenodes-missing", fmt.Sprintf("ForEachTreeNode did not report changed node (row %d, col %d)", k[0], k[1])}
		}
		if g != h {
			return &chainFail{phase + "-treenodes-hash", fmt.Sprintf("ForEachTreeNode reported %v for node (row %d, col %d), naive forest has %v", g, k[0], k[1], h)}
		}
	}
	for k := range got {
		if _, ok := want[k]; !ok {
			return &chainFail{phase + "-treenodes-extra", fmt.Sprintf("ForEachTreeNode reported unchanged or non-existent node (row %d, col %d)", k[0], k[1])}
		}
	}
	return nil
}

func runChains(c *vlib.Ctx, st *stats) (steps, nontrivial int64) {
	touched := map[string]int{}
	for i := 0; i < c.Pick(8, 20); i++ {
		s, n, ks := runChain(c, st, c.Seed*1000+int64(i), c.Pick(60, 150))
		steps += s
		nontrivial += n
		for k, v := range ks {
			touched[kindNames[k]] += v
		}
	}
	c.Cov("chain_steps", steps)
	c.Cov("chain_elements_touched_by_kind", touched)
	if c.NViolations() == 0 {
		for _, k := range []kind{kSiacoin, kSiafund, kV2FileContract, kAttestation} {
			if touched[kindNames[k]] == 0 {
				c.Infra("vacuity: no chain block touched a %s element", kindNames[k])
			}
		}
	}
	return
}

func proofsOf(cl *chainClient) map[uint64][]types.Hash256 {
	out := make(map[uint64][]types.Hash256, len(cl.elems))
	for idx, t := range cl.elems {
		out[idx] = slices.Clone(t.se().MerkleProof)
	}
	return out
}

// someProofChanged: an element that exists before and after the step has a different proof.
func someProofChanged(before map[uint64][]types.Hash256, cl *chainClient) bool {
	for idx, t := range cl.elems {
		if p, ok := before[idx]; ok && !slices.Equal(p, t.se().MerkleProof) {
			return true
		}
	}
	return false
}

func runChain(c *vlib.Ctx, st *stats, seed int64, blocks int) (steps, nontrivial int64, kindsSeen map[kind]int) {
	r := rand.New(rand.NewSource(seed))
	fail := func(f *chainFail) {
		c.Violation("chain-"+f.key, "[public API chain] "+f.what, map[string]any{"part": "chain", "chain_seed": seed, "blocks": blocks})
	}
	n := &consensus.Network{Name: "c05", InitialCoinbase: types.Siacoins(3000), MinimumCoinbase: types.Siacoins(3000), InitialTarget: types.BlockID{0xFF}, BlockInterval: 10 * time.Minute, MaturityDelay: 1}
	n.HardforkOak.Height, n.HardforkOak.FixHeight = 100000, 100000
	n.HardforkASIC.Height, n.HardforkASIC.NonceFactor = 200000, 1
	n.HardforkFoundation.Height = 300000
	n.HardforkV2.AllowHeight, n.HardforkV2.RequireHeight, n.HardforkV2.FinalCutHeight = 0, 500000, 600000
	var skSeed [32]byte
	r.Read(skSeed[:])
	sk := types.NewPrivateKeyFromSeed(skSeed[:])
	pol := types.PolicyPublicKey(sk.PublicKey())
	addr := pol.Address()

	gtxn := types.Transaction{}
	for i := 0; i < 4+r.Intn(8); i++ {
		gtxn.SiacoinOutputs = append(gtxn.SiacoinOutputs, types.SiacoinOutput{Value: types.Siacoins(uint32(100 + r.Intn(900))), Address: addr})
	}
	for i, left := 0, uint64(10000); left > 0; i++ {
		v := left
		if i < 3 {
			v = 1 + uint64(r.Intn(int(left)))
		}
		gtxn.SiafundOutputs = append(gtxn.SiafundOutputs, types.SiafundOutput{Value: v, Address: addr})
		left -= v
	}
	gtxn.FileContracts = []types.FileContract{{Filesize: 128, WindowStart: 900000, WindowEnd: 900010, Payout: types.Siacoins(10), UnlockHash: addr,
		ValidProofOutputs:  []types.SiacoinOutput{{Value: types.Siacoins(9), Address: addr}},
		MissedProofOutputs: []types.SiacoinOutput{{Value: types.Siacoins(9), Address: addr}}}}
	genesis := types.Block{Timestamp: time.Unix(1e9, 0), Transactions: []types.Transaction{gtxn}}

	cl := &chainClient{elems: map[uint64]*telem{}, byID: map[types.Hash256]uint64{}}
	defCache := map[uint64]*expect{}
	type frame struct {
		prev consensus.State
		b    types.Block
	}
	var stack []frame
	old := &forest{0, hterm.PerfectRoots(func(uint64) types.Hash256 { return types.Hash256{} })}
	ok := true

	applyBlock := func(cs consensus.State, b types.Block, bs consensus.V1BlockSupplement) consensus.State {
		var ncs consensus.State
		var au consensus.ApplyUpdate
		before := proofsOf(cl)
		if p, v := vlib.Recover(func() {
			ncs, au = consensus.ApplyBlock(cs, b, bs, time.Time{})
			cl.apply(c, au)
		}); p {
			fail(&chainFail{"apply-panic", fmt.Sprintf("ApplyBlock/UpdateElementProof panicked at height %d: %v", cs.Index.Height+1, v)})
			ok = false
			return cs
		}
		fo := cl.forest(c, ncs.Elements.NumLeaves)
		f := cl.check(c, st, "apply", ncs, fo, defCache)
		if f == nil {
			got, dup := map[nodeKey]types.Hash256{}, false
			au.ForEachTreeNode(func(row, col uint64, h types.Hash256) {
				if _, seen := got[nodeKey{row, col}]; seen {
					dup = true
				}
				got[nodeKey{row, col}] = h
			})
			f = checkNodes("apply", got, dup, changedNodes(old, fo))
		}
		if f != nil {
			fail(f)
			ok = false
			return cs
		}
		stack = append(stack, frame{cs, b})
		old = fo
		steps++
		if someProofChanged(before, cl) {
			nontrivial++
		}
		return ncs
	}

	cs := applyBlock(n.GenesisState(), genesis, consensus.V1BlockSupplement{Transactions: make([]consensus.V1TransactionSupplement, 1)})
	stack = stack[:0] // the genesis block is never reverted
	kindsSeen = map[kind]int{}

	for blk := 0; blk < blocks && ok; blk++ {
		// revert 1..3 blocks now and then, and continue on another branch
		if len(stack) > 0 && r.Intn(6) == 0 {
			for k := 1 + r.Intn(3); k > 0 && len(stack) > 0 && ok; k-- {
				fr := stack[len(stack)-1]
				stack = stack[:len(stack)-1]
				var ru consensus.RevertUpdate
				before := proofsOf(cl)
				if p, v := vlib.Recover(func() {
					ru = consensus.RevertBlock(fr.prev, fr.b, consensus.V1BlockSupplement{})
					cl.revert(c, ru, fr.prev.Elements.NumLeaves)
				}); p {
					fail(&chainFail{"revert-panic", fmt.Sprintf("RevertBlock/UpdateElementProof panicked at height %d: %v", cs.Index.Height, v)})
					ok = false
					break
				}
				cs = fr.prev
				fo := cl.forest(c, cs.Elements.NumLeaves)
				f := cl.check(c, st, "revert", cs, fo, defCache)
				if f == nil {
					got, dup := map[nodeKey]types.Hash256{}, false
					ru.ForEachTreeNode(func(row, col uint64, h types.Hash256) {
						if _, seen := got[nodeKey{row, col}]; seen {
							dup = true
						}
						got[nodeKey{row, col}] = h
					})
					f = checkNodes("revert", got, dup, changedNodes(old, fo))
				}
				if f != nil {
					fail(f)
					ok = false
					break
				}
				old = fo
				st.reverts++
				steps++
				if someProofChanged(before, cl) {
					nontrivial++
				}
			}
			if !ok {
				break
			}
		}

		child := cs.Index.Height + 1
		used := map[uint64]bool{}
		pick := func(k kind, pred func(*telem) bool) *telem {
			var cands []uint64
			for idx, t := range cl.elems {
				if t.k == k && !t.spent && !used[idx] && pred(t) {
					cands = append(cands, idx)
				}
			}
			if len(cands) == 0 {
				return nil
			}
			slices.Sort(cands) // map order must not influence the chain
			sel := cands[r.Intn(len(cands))]
			used[sel] = true
			return cl.elems[sel]
		}
		signC := func(fc *types.V2FileContract) {
			h := cs.ContractSigHash(*fc)
			fc.RenterSignature, fc.HostSignature = sk.SignHash(h), sk.SignHash(h)
		}
		var txns []types.V2Transaction
		for nt := r.Intn(4); nt > 0; nt-- {
			var txn types.V2Transaction
			addIn := func(t *telem) {
				txn.SiacoinInputs = append(txn.SiacoinInputs, types.V2SiacoinInput{Parent: t.sc.Copy(), SatisfiedPolicy: types.SatisfiedPolicy{Policy: pol}})
			}
			spendable := func(min types.Currency) func(*telem) bool {
				return func(t *telem) bool { return t.sc.MaturityHeight <= child && t.sc.SiacoinOutput.Value.Cmp(min) >= 0 }
			}
			switch op := r.Intn(6); op {
			case 0, 1: // spend a chosen subset, create k outputs (and sometimes attest)
				total := types.ZeroCurrency
				for i := 1 + r.Intn(3); i > 0; i-- {
					if t := pick(kSiacoin, spendable(types.NewCurrency64(1000))); t != nil {
						addIn(t)
						total = total.Add(t.sc.SiacoinOutput.Value)
						kindsSeen[kSiacoin]++
					}
				}
				if len(txn.SiacoinInputs) == 0 {
					continue
				}
				txn.MinerFee = types.NewCurrency64(uint64(r.Intn(500)))
				rest := total.Sub(txn.MinerFee)
				k := 1 + r.Intn(5)
				part := rest.Div64(uint64(k))
				for i := 0; i < k-1; i++ {
					if !part.IsZero() {
						txn.SiacoinOutputs = append(txn.SiacoinOutputs, types.SiacoinOutput{Value: part, Address: addr})
						rest = rest.Sub(part)
					}
				}
				txn.SiacoinOutputs = append(txn.SiacoinOutputs, types.SiacoinOutput{Value: rest, Address: addr})
				if op == 1 {
					for i := 1 + r.Intn(2); i > 0; i-- {
						a := types.Attestation{PublicKey: sk.PublicKey(), Key: fmt.Sprintf("k%d", r.Intn(1000)), Value: []byte{byte(r.Intn(256))}}
						a.Signature = sk.SignHash(cs.AttestationSigHash(a))
						txn.Attestations = append(txn.Attestations, a)
						kindsSeen[kAttestation]++
					}
				}
			case 2: // siafund transfer
				t := pick(kSiafund, func(*telem) bool { return true })
				if t == nil {
					continue
				}
				txn.SiafundInputs = []types.V2SiafundInput{{Parent: t.sf.Copy(), ClaimAddress: addr, SatisfiedPolicy: types.SatisfiedPolicy{Policy: pol}}}
				a := uint64(1 + r.Intn(int(t.sf.SiafundOutput.Value)))
				txn.SiafundOutputs = append(txn.SiafundOutputs, types.SiafundOutput{Value: a, Address: addr})
				if a < t.sf.SiafundOutput.Value {
					txn.SiafundOutputs = append(txn.SiafundOutputs, types.SiafundOutput{Value: t.sf.SiafundOutput.Value - a, Address: addr})
				}
				kindsSeen[kSiafund]++
			case 3: // form a contract
				rv, hv := types.NewCurrency64(uint64(1+r.Intn(1e6))), types.NewCurrency64(uint64(r.Intn(1e6)))
				fc := types.V2FileContract{ProofHeight: child + 1 + uint64(r.Intn(4)), RenterOutput: types.SiacoinOutput{Value: rv, Address: addr}, HostOutput: types.SiacoinOutput{Value: hv, Address: addr},
					MissedHostValue: hv.Div64(uint64(1 + r.Intn(3))), RenterPublicKey: sk.PublicKey(), HostPublicKey: sk.PublicKey()}
				fc.ExpirationHeight = fc.ProofHeight + 1 + uint64(r.Intn(3))
				fc.TotalCollateral = fc.MissedHostValue
				cost := rv.Add(hv).Add(cs.V2FileContractTax(fc))
				t := pick(kSiacoin, spendable(cost))
				if t == nil {
					continue
				}
				signC(&fc)
				addIn(t)
				txn.FileContracts = []types.V2FileContract{fc}
				if ch := t.sc.SiacoinOutput.Value.Sub(cost); !ch.IsZero() {
					txn.SiacoinOutputs = []types.SiacoinOutput{{Value: ch, Address: addr}}
				}
			case 4: // revise a contract (updated, not spent)
				t := pick(kV2FileContract, func(t *telem) bool {
					return t.v2.V2FileContract.ProofHeight >= child && !t.v2.V2FileContract.RenterOutput.Value.IsZero()
				})
				if t == nil {
					continue
				}
				rev := t.v2.V2FileContract
				d := rev.RenterOutput.Value.Div64(uint64(2 + r.Intn(3)))
				rev.RenterOutput.Value = rev.RenterOutput.Value.Sub(d)
				rev.HostOutput.Value = rev.HostOutput.Value.Add(d)
				rev.RevisionNumber++
				signC(&rev)
				txn.FileContractRevisions = []types.V2FileContractRevision{{Parent: t.v2.Copy(), Revision: rev}}
				kindsSeen[kV2FileContract]++
			case 5: // expire a contract (resolved)
				t := pick(kV2FileContract, func(t *telem) bool { return child > t.v2.V2FileContract.ExpirationHeight })
				if t == nil {
					continue
				}
				txn.FileContractResolutions = []types.V2FileContractResolution{{Parent: t.v2.Copy(), Resolution: &types.V2FileContractExpiration{}}}
				kindsSeen[kV2FileContract]++
			}
			h := cs.InputSigHash(txn)
			for i := range txn.SiacoinInputs {
				txn.SiacoinInputs[i].SatisfiedPolicy.Signatures = []types.Signature{sk.SignHash(h)}
			}
			for i := range txn.SiafundInputs {
				txn.SiafundInputs[i].SatisfiedPolicy.Signatures = []types.Signature{sk.SignHash(h)}
			}
			txns = append(txns, txn)
		}
		b := types.Block{ParentID: cs.Index.ID, Timestamp: time.Unix(1e9+int64(child)*600+int64(r.Intn(60)), 0),
			MinerPayouts: []types.SiacoinOutput{{Address: addr, Value: cs.BlockReward()}}, V2: &types.V2BlockData{Height: child, Transactions: txns}}
		for _, x := range txns {
			b.MinerPayouts[0].Value = b.MinerPayouts[0].Value.Add(x.MinerFee)
		}
		b.V2.Commitment = cs.Commitment(addr, nil, txns)
		for i := 0; b.ID().CmpWork(cs.PoWTarget()) < 0; i++ {
			b.Nonce += cs.NonceFactor()
			if i > 1<<20 {
				c.Fatal("chain: cannot seal a block")
			}
		}
		// the maintained proofs are what makes the block valid: the public validation door
		if err := consensus.ValidateBlock(cs, b, consensus.V1BlockSupplement{}); err != nil {
			// not a C05 comparison point (every maintained proof was just verified by check): the generator is at fault
			c.Fatal("chain %d: generated block at height %d is rejected: %v", seed, child, err)
		}
		cs = applyBlock(cs, b, consensus.V1BlockSupplement{})
	}
	return
}
