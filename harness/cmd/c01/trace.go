package main

import (
	"fmt"
	"math/big"
	"math/rand"
	"strconv"
	"strings"
	"time"

	"go.sia.tech/core/consensus"
	"go.sia.tech/core/types"
	"verif/harness/chain"
	"verif/harness/vlib"
)

// Direction B: long random chains at real magnitudes, one trace line per accepted block, validated by
// spec/ledger/LedgerTrace.tla over BigNat (reward schedule, Foundation subsidy, three tax formulas, claims, the
// ledger equation at every prefix).

func L(c types.Currency) []int { return vlib.Limbs(c.Big()) }

type shapeB struct {
	name                         string
	allow, require, taxFork      uint64
	foundH                       uint64
	interval                     time.Duration
	initial, minimum             types.Currency
}

func traceChains(c *vlib.Ctx) {
	r := rand.New(rand.NewSource(c.Seed*7919 + 13))
	year := 365 * 24 * time.Hour
	shapes := []shapeB{
		{"v2", 0, 1, 0, 3, year / 24, types.Siacoins(300000), types.Siacoins(299990)},
		{"v1", 1 << 40, 1 << 40, 12, 5, year / 36, types.Siacoins(300000), types.Siacoins(30000)},
		{"mixed", 14, 26, 6, 4, year / 48, types.Siacoins(20), types.Siacoins(5)},
	}
	var events []map[string]any
	blocks := 0
	stats := map[string]int{}
	for ci := 0; ci < c.Pick(3, 36); ci++ {
		sh := shapes[ci%len(shapes)]
		k := chain.NewKeyring()
		p := chain.Params{MatDelay: uint64(1 + r.Intn(3)), AllowH: sh.allow, RequireH: sh.require, EphH: sh.allow + 2, FoundH: sh.foundH, TaxForkH: sh.taxFork,
			ProofForkH: sh.taxFork + 4, Keyring: k}
		// real magnitudes: the genesis allocations are set directly on the network below
		net := chain.Network(p, k)
		net.InitialCoinbase, net.MinimumCoinbase, net.BlockInterval = sh.initial, sh.minimum, sh.interval
		sim := chain.NewSimOn(p, net, []types.SiacoinOutput{
			{Value: types.Siacoins(1000000).Add(types.NewCurrency64(uint64(r.Int63()))), Address: k.Addr("A")},
			{Value: types.Siacoins(500).Add(types.NewCurrency64(12345678)), Address: k.Addr("A")},
			{Value: types.NewCurrency64(uint64(1 + r.Intn(1e9))), Address: k.Addr("A")},
			{Value: types.Siacoins(77777), Address: k.Addr("A")}},
			[]types.SiafundOutput{{Value: 7000, Address: k.Addr("A")}, {Value: 2999, Address: k.Addr("A")}, {Value: 1, Address: k.Addr("A")}})
		genesis := new(big.Int)
		for _, e := range sim.Store.SC {
			genesis.Add(genesis, e.SiacoinOutput.Value.Big())
		}
		perYear := uint64(year / sh.interval)
		events = append(events, map[string]any{"ev": "reset", "genesis": vlib.Limbs(genesis),
			"net": map[string]any{"initial": L(sh.initial), "minimum": L(sh.minimum), "foundH": sh.foundH, "perYear": perYear, "perMonth": perYear / 12, "taxForkH": sh.taxFork}})
		for b := 0; b < c.Pick(40, 300); b++ {
			ev, ok := randomBlock(c, sim, r, stats)
			if !ok {
				return
			}
			events = append(events, ev)
			blocks++
		}
	}
	res, err := c.TLC(vlib.TLCOpts{SpecDirs: []string{"ledger"}, Module: "LedgerTrace", Config: "LedgerTrace.cfg",
		Files: map[string][]byte{"trace.ndjson": vlib.NDJSON(events)}, Workers: 1, Timeout: 25 * time.Minute, Xss: "64m"})
	if err != nil || res.Violated != "" {
		c.Fatal("ledger trace: %v %s", err, vlib.Tail(res.Out, 1200))
	}
	if res.Distinct != int64(len(events)+1) {
		c.Fatal("ledger trace not consumed: %d states for %d lines", res.Distinct, len(events))
	}
	for _, ln := range res.Lines {
		if strings.HasPrefix(ln, "REJECT ") {
			f := strings.SplitN(ln, " ", 3)
			i, _ := strconv.Atoi(f[1])
			key := "trace/" + strings.ReplaceAll(strings.SplitN(f[2], ":", 2)[0], " ", "-")
			c.Violation(key, fmt.Sprintf("block line %d: %s", i, f[2]), events[i-1])
		}
	}
	c.Traces(1)
	c.Count(int64(blocks), int64(blocks))
	c.Cov("trace_blocks_at_real_magnitudes", blocks)
	c.Cov("trace_operations", stats)
	c.Sample(events[len(events)/2])
	for _, need := range []string{"pay1", "pay2", "sf1", "sf2", "form1", "form2", "rev2", "renew2", "expire2", "proof2", "prove1", "expire1", "subsidy", "claim-nonzero", "form1-pretax"} {
		if stats[need] == 0 {
			c.Infra("vacuity: the real-magnitude chains never contained %s", need)
		}
	}
}

// randomBlock builds, validates and applies one random block and returns its trace line.
func randomBlock(c *vlib.Ctx, sim *chain.Sim, r *rand.Rand, stats map[string]int) (map[string]any, bool) {
	k := sim.K
	cs := sim.CS
	child := cs.Index.Height + 1
	addr := k.Addr("A")
	v1ok := child < sim.Net.HardforkV2.RequireHeight
	v2ok := child >= sim.Net.HardforkV2.AllowHeight
	used := map[[32]byte]bool{}
	var v1 []types.Transaction
	var v2 []types.V2Transaction
	var items []map[string]any
	// created siafund outputs: the claim start reported in the trace is the one the CODE gave the element (read back
	// from the store after the block is applied), not the driver's prediction
	type pendSF struct {
		m          map[string]any
		ver, ti, oi int
	}
	var pends []pendSF
	sfout := func(ver, ti, oi int, predicted types.Currency) {
		m := map[string]any{"k": "sfout", "cs": L(predicted)}
		items = append(items, m)
		pends = append(pends, pendSF{m, ver, ti, oi})
	}
	pool := cs.SiafundTaxRevenue
	pickSC := func(min types.Currency) (types.SiacoinElement, bool) {
		for _, id := range chain.SortedIDs(sim.Store.SC) {
			e := sim.Store.SC[id]
			if !used[id] && e.MaturityHeight <= child && e.SiacoinOutput.Value.Cmp(min) >= 0 && e.SiacoinOutput.Address == addr {
				used[id] = true
				return e.Copy(), true
			}
		}
		return types.SiacoinElement{}, false
	}
	randBelow := func(x types.Currency) types.Currency {
		if x.IsZero() {
			return x
		}
		n := new(big.Int).Rand(r, x.Big())
		return types.NewCurrency(n.Uint64(), new(big.Int).Rsh(n, 64).Uint64())
	}
	signV1 := func(t *types.Transaction) {
		for i := range t.Signatures {
			h := cs.WholeSigHash(*t, t.Signatures[i].ParentID, 0, 0, nil)
			s := k.SK("A").SignHash(h)
			t.Signatures[i].Signature = s[:]
		}
	}
	whole := func(id types.Hash256) types.TransactionSignature {
		return types.TransactionSignature{ParentID: id, CoveredFields: types.CoveredFields{WholeTransaction: true}}
	}
	signV2 := func(t *types.V2Transaction) {
		h := cs.InputSigHash(*t)
		for i := range t.SiacoinInputs {
			t.SiacoinInputs[i].SatisfiedPolicy.Signatures = []types.Signature{k.SK("A").SignHash(h)}
		}
		for i := range t.SiafundInputs {
			t.SiafundInputs[i].SatisfiedPolicy.Signatures = []types.Signature{k.SK("A").SignHash(h)}
		}
	}
	signC := func(fc *types.V2FileContract) {
		h := cs.ContractSigHash(*fc)
		fc.RenterSignature, fc.HostSignature = k.SK("R").SignHash(h), k.SK("H").SignHash(h)
	}
	// v1 transactions first
	nops := r.Intn(5)
	var ops []int
	for i := 0; i < nops; i++ {
		ops = append(ops, r.Intn(10))
	}
	for _, op := range ops {
		if !v1ok || (v2ok && r.Intn(2) == 0) {
			continue
		}
		switch op {
		case 0, 1: // payment with fee
			e, ok := pickSC(types.NewCurrency64(1000))
			if !ok {
				continue
			}
			fee := randBelow(types.NewCurrency64(900)).Add(types.NewCurrency64(1))
			rest := e.SiacoinOutput.Value.Sub(fee)
			a := randBelow(rest)
			t := types.Transaction{SiacoinInputs: []types.SiacoinInput{{ParentID: e.ID, UnlockConditions: k.UC("A")}}, MinerFees: []types.Currency{fee}, Signatures: []types.TransactionSignature{whole(types.Hash256(e.ID))}}
			if !a.IsZero() {
				t.SiacoinOutputs = append(t.SiacoinOutputs, types.SiacoinOutput{Value: a, Address: addr})
			}
			if !rest.Sub(a).IsZero() {
				t.SiacoinOutputs = append(t.SiacoinOutputs, types.SiacoinOutput{Value: rest.Sub(a), Address: addr})
			}
			signV1(&t)
			v1 = append(v1, t)
			stats["pay1"]++
		case 2: // siafund transfer
			for _, id := range chain.SortedIDs(sim.Store.SF) {
				e := sim.Store.SF[id]
				if used[id] {
					continue
				}
				used[id] = true
				t := types.Transaction{SiafundInputs: []types.SiafundInput{{ParentID: e.ID, UnlockConditions: k.UC("A"), ClaimAddress: addr}}, Signatures: []types.TransactionSignature{whole(types.Hash256(e.ID))}}
				a := uint64(1 + r.Intn(int(e.SiafundOutput.Value)))
				t.SiafundOutputs = append(t.SiafundOutputs, types.SiafundOutput{Value: a, Address: addr})
				if a < e.SiafundOutput.Value {
					t.SiafundOutputs = append(t.SiafundOutputs, types.SiafundOutput{Value: e.SiafundOutput.Value - a, Address: addr})
				}
				signV1(&t)
				v1 = append(v1, t)
				val := pool.Sub(e.ClaimStart).Div64(10000).Mul64(e.SiafundOutput.Value)
				items = append(items, map[string]any{"k": "claim", "start": L(e.ClaimStart), "n": e.SiafundOutput.Value, "val": L(val)})
				for oi := range t.SiafundOutputs {
					sfout(1, len(v1)-1, oi, pool)
				}
				if !val.IsZero() {
					stats["claim-nonzero"]++
				}
				stats["sf1"]++
				break
			}
		case 3, 4: // v1 contract
			pay := types.Siacoins(uint32(1 + r.Intn(5000))).Add(types.NewCurrency64(uint64(r.Intn(1e9))))
			if r.Intn(3) == 0 {
				pay = types.NewCurrency64(uint64(250000 + r.Intn(30000)))
			}
			e, ok := pickSC(pay)
			if !ok {
				continue
			}
			fc := types.FileContract{Filesize: 0, WindowStart: child + uint64(1+r.Intn(3)), Payout: pay, UnlockHash: addr}
			fc.WindowEnd = fc.WindowStart + uint64(1+r.Intn(3))
			tax := cs.FileContractTax(fc)
			vs := pay.Sub(tax)
			a := randBelow(vs)
			fc.ValidProofOutputs = []types.SiacoinOutput{{Value: a, Address: addr}, {Value: vs.Sub(a), Address: addr}}
			fc.MissedProofOutputs = []types.SiacoinOutput{{Value: a, Address: addr}, {Value: vs.Sub(a), Address: types.VoidAddress}}
			t := types.Transaction{SiacoinInputs: []types.SiacoinInput{{ParentID: e.ID, UnlockConditions: k.UC("A")}}, FileContracts: []types.FileContract{fc}, Signatures: []types.TransactionSignature{whole(types.Hash256(e.ID))}}
			if ch := e.SiacoinOutput.Value.Sub(pay); !ch.IsZero() {
				t.SiacoinOutputs = []types.SiacoinOutput{{Value: ch, Address: addr}}
			}
			signV1(&t)
			v1 = append(v1, t)
			items = append(items, map[string]any{"k": "form1", "pay": L(pay)})
			pool = pool.Add(tax)
			stats["form1"]++
			if child < sim.Net.HardforkTax.Height {
				stats["form1-pretax"]++
			}
		case 5: // v1 storage proof of a size-0 contract whose window is open (needs no proof data in the fixed era only)
			for _, id := range chain.SortedIDs(sim.Store.FC) {
				e := sim.Store.FC[id]
				if used[id] || e.FileContract.WindowStart > child || child < sim.Net.HardforkStorageProof.Height {
					continue
				}
				used[id] = true
				v1 = append(v1, types.Transaction{StorageProofs: []types.StorageProof{{ParentID: e.ID}}})
				stats["prove1"]++
				break
			}
		}
	}
	for _, op := range ops {
		if !v2ok {
			continue
		}
		var t types.V2Transaction
		addIn := func(e types.SiacoinElement) {
			t.SiacoinInputs = append(t.SiacoinInputs, types.V2SiacoinInput{Parent: e, SatisfiedPolicy: types.SatisfiedPolicy{Policy: k.Policy("A")}})
		}
		switch op {
		case 0, 1:
			e, ok := pickSC(types.NewCurrency64(1000))
			if !ok {
				continue
			}
			fee := randBelow(types.NewCurrency64(900))
			rest := e.SiacoinOutput.Value.Sub(fee)
			a := randBelow(rest)
			addIn(e)
			t.MinerFee = fee
			if !a.IsZero() {
				t.SiacoinOutputs = append(t.SiacoinOutputs, types.SiacoinOutput{Value: a, Address: addr})
			}
			if !rest.Sub(a).IsZero() {
				t.SiacoinOutputs = append(t.SiacoinOutputs, types.SiacoinOutput{Value: rest.Sub(a), Address: addr})
			}
			stats["pay2"]++
		case 2:
			done := false
			for _, id := range chain.SortedIDs(sim.Store.SF) {
				e := sim.Store.SF[id]
				if used[id] {
					continue
				}
				used[id] = true
				t.SiafundInputs = []types.V2SiafundInput{{Parent: e.Copy(), ClaimAddress: addr, SatisfiedPolicy: types.SatisfiedPolicy{Policy: k.Policy("A")}}}
				a := uint64(1 + r.Intn(int(e.SiafundOutput.Value)))
				t.SiafundOutputs = append(t.SiafundOutputs, types.SiafundOutput{Value: a, Address: addr})
				if a < e.SiafundOutput.Value {
					t.SiafundOutputs = append(t.SiafundOutputs, types.SiafundOutput{Value: e.SiafundOutput.Value - a, Address: addr})
				}
				val := pool.Sub(e.ClaimStart).Div64(10000).Mul64(e.SiafundOutput.Value)
				items = append(items, map[string]any{"k": "claim", "start": L(e.ClaimStart), "n": e.SiafundOutput.Value, "val": L(val)})
				for oi := range t.SiafundOutputs {
					sfout(2, len(v2), oi, pool)
				}
				if !val.IsZero() {
					stats["claim-nonzero"]++
				}
				stats["sf2"]++
				done = true
				break
			}
			if !done {
				continue
			}
		case 3, 4:
			rv := types.Siacoins(uint32(r.Intn(3000))).Add(types.NewCurrency64(uint64(1 + r.Intn(1e9))))
			hv := types.Siacoins(uint32(r.Intn(300))).Add(types.NewCurrency64(uint64(r.Intn(1e6))))
			fc := types.V2FileContract{ProofHeight: child + uint64(r.Intn(4)), RenterOutput: types.SiacoinOutput{Value: rv, Address: addr}, HostOutput: types.SiacoinOutput{Value: hv, Address: addr},
				MissedHostValue: hv.Div64(uint64(1 + r.Intn(3))), RenterPublicKey: k.PK("R"), HostPublicKey: k.PK("H")}
			fc.ExpirationHeight = fc.ProofHeight + 1 + uint64(r.Intn(3))
			fc.TotalCollateral = fc.MissedHostValue
			cost := rv.Add(hv).Add(cs.V2FileContractTax(fc))
			e, ok := pickSC(cost)
			if !ok {
				continue
			}
			signC(&fc)
			addIn(e)
			t.FileContracts = []types.V2FileContract{fc}
			if r.Intn(2) == 0 { // the same transaction also moves siafunds: their claim and the new outputs' claim start precede this contract's tax
				for _, id := range chain.SortedIDs(sim.Store.SF) {
					se := sim.Store.SF[id]
					if used[id] {
						continue
					}
					used[id] = true
					t.SiafundInputs = []types.V2SiafundInput{{Parent: se.Copy(), ClaimAddress: addr, SatisfiedPolicy: types.SatisfiedPolicy{Policy: k.Policy("A")}}}
					a := uint64(1 + r.Intn(int(se.SiafundOutput.Value)))
					t.SiafundOutputs = append(t.SiafundOutputs, types.SiafundOutput{Value: a, Address: addr})
					if a < se.SiafundOutput.Value {
						t.SiafundOutputs = append(t.SiafundOutputs, types.SiafundOutput{Value: se.SiafundOutput.Value - a, Address: addr})
					}
					val := pool.Sub(se.ClaimStart).Div64(10000).Mul64(se.SiafundOutput.Value)
					items = append(items, map[string]any{"k": "claim", "start": L(se.ClaimStart), "n": se.SiafundOutput.Value, "val": L(val)})
					for oi := range t.SiafundOutputs {
						sfout(2, len(v2), oi, pool)
					}
					stats["sf2+form2"]++
					break
				}
			}
			if ch := e.SiacoinOutput.Value.Sub(cost); !ch.IsZero() {
				t.SiacoinOutputs = []types.SiacoinOutput{{Value: ch, Address: addr}}
			}
			items = append(items, map[string]any{"k": "form2", "r": L(rv), "h": L(hv)})
			pool = pool.Add(cs.V2FileContractTax(fc))
			stats["form2"]++
		case 5: // revise
			done := false
			for _, id := range chain.SortedIDs(sim.Store.V2FC) {
				e := sim.Store.V2FC[id]
				if used[id] || e.V2FileContract.ProofHeight < child || e.V2FileContract.RenterOutput.Value.IsZero() {
					continue
				}
				used[id] = true
				rev := e.V2FileContract
				d := randBelow(rev.RenterOutput.Value)
				rev.RenterOutput.Value, rev.HostOutput.Value = rev.RenterOutput.Value.Sub(d), rev.HostOutput.Value.Add(d)
				rev.RevisionNumber++
				rev.MissedHostValue = rev.MissedHostValue.Div64(uint64(1 + r.Intn(2)))
				signC(&rev)
				t.FileContractRevisions = []types.V2FileContractRevision{{Parent: e.Copy(), Revision: rev}}
				stats["rev2"]++
				done = true
				break
			}
			if !done {
				continue
			}
		case 6, 7, 8: // resolve
			done := false
			for _, id := range chain.SortedIDs(sim.Store.V2FC) {
				e := sim.Store.V2FC[id]
				if used[id] {
					continue
				}
				fc := e.V2FileContract
				var res types.V2FileContractResolutionType
				switch {
				case op == 6 && child > fc.ExpirationHeight:
					res = &types.V2FileContractExpiration{}
					items = append(items, map[string]any{"k": "expire2", "h": L(fc.HostOutput.Value), "mh": L(fc.MissedHostValue)})
					stats["expire2"]++
				case op == 7 && child >= fc.ProofHeight+1 && fc.Filesize == 0:
					cie, ok := sim.Store.CIE[fc.ProofHeight]
					if !ok {
						continue
					}
					res = &types.V2StorageProof{ProofIndex: cie.Copy()}
					stats["proof2"]++
				case op == 8:
					tot := fc.RenterOutput.Value.Add(fc.HostOutput.Value)
					roll := randBelow(tot)
					nc := fc
					nc.RevisionNumber, nc.ProofHeight, nc.ExpirationHeight = 0, child+2, child+4
					nc.RenterOutput.Value, nc.HostOutput.Value = roll.Add(types.NewCurrency64(1)), randBelow(types.Siacoins(10))
					nc.MissedHostValue, nc.TotalCollateral = types.ZeroCurrency, types.ZeroCurrency
					signC(&nc)
					ren := &types.V2FileContractRenewal{FinalRenterOutput: types.SiacoinOutput{Value: tot.Sub(roll), Address: addr}, FinalHostOutput: types.SiacoinOutput{Address: addr}, RenterRollover: roll, NewContract: nc}
					need := nc.RenterOutput.Value.Add(nc.HostOutput.Value).Add(cs.V2FileContractTax(nc)).Sub(roll)
					in, ok := pickSC(need)
					if !ok {
						continue
					}
					addIn(in)
					if ch := in.SiacoinOutput.Value.Sub(need); !ch.IsZero() {
						t.SiacoinOutputs = []types.SiacoinOutput{{Value: ch, Address: addr}}
					}
					h := cs.RenewalSigHash(*ren)
					ren.RenterSignature, ren.HostSignature = k.SK("R").SignHash(h), k.SK("H").SignHash(h)
					res = ren
					items = append(items, map[string]any{"k": "form2", "r": L(nc.RenterOutput.Value), "h": L(nc.HostOutput.Value)})
					pool = pool.Add(cs.V2FileContractTax(nc))
					stats["renew2"]++
				default:
					continue
				}
				used[id] = true
				t.FileContractResolutions = []types.V2FileContractResolution{{Parent: e.Copy(), Resolution: res}}
				done = true
				break
			}
			if !done {
				continue
			}
		default:
			continue
		}
		signV2(&t)
		v2 = append(v2, t)
	}
	bs := sim.Supplement(v1)
	stats["expire1"] += len(bs.ExpiringFileContracts)
	b := sim.Seal(v1, v2)
	if err, pan := sim.Validate(b, bs); err != nil || pan != nil {
		c.Infra("real-magnitude chain: the driver built a block the code rejects at height %d: %v %v", child, err, pan)
		return nil, false
	}
	fees := types.ZeroCurrency
	for _, t := range v1 {
		for _, f := range t.MinerFees {
			fees = fees.Add(f)
		}
	}
	for _, t := range v2 {
		fees = fees.Add(t.MinerFee)
	}
	sub, hasSub := cs.FoundationSubsidy()
	if hasSub {
		stats["subsidy"]++
	}
	sim.Apply(b, bs)
	for _, p := range pends {
		var id types.SiafundOutputID
		if p.ver == 1 {
			id = v1[p.ti].SiafundOutputID(p.oi)
		} else {
			id = v2[p.ti].SiafundOutputID(v2[p.ti].ID(), p.oi)
		}
		if e, ok := sim.Store.SF[id]; ok {
			p.m["cs"] = L(e.ClaimStart)
			stats["sfout-observed"]++
		} else {
			c.Infra("real-magnitude chain: created siafund output %v is not in the store after the block at height %d", id, child)
			return nil, false
		}
	}
	utxo, l1, l2, poolAfter, sf := sim.Sums()
	return map[string]any{"ev": "block", "h": child, "items": itemsOrEmpty(items), "pool0": L(cs.SiafundTaxRevenue), "pool": vlib.Limbs(poolAfter),
		"payout": L(b.MinerPayouts[0].Value), "fees": L(fees), "subsidy": L(sub.Value), "void": cs.FoundationSubsidyAddress == types.VoidAddress,
		"utxo": vlib.Limbs(utxo), "locked1": vlib.Limbs(l1), "locked2": vlib.Limbs(l2), "sf": sf}, true
}

func itemsOrEmpty(x []map[string]any) []map[string]any {
	if x == nil {
		return []map[string]any{}
	}
	return x
}

var _ = consensus.State{}
