// C01 — No value is created or destroyed: siacoin supply conservation, constant siafunds, exact claims.
//
//  1. TLC proves Conservation, SiafundsConst, PoolCoversClaims (and NoDoubleUse) on the bounded Ledger model
//     (spec/ledger/Ledger.tla) for a v2 family and a v1 family.
//  2. Direction A: TLC simulates behaviours of Ledger over three network shapes (v1 only, mixed eras,
//     v2 from genesis) with every template and the value defects (off by one hasting, fee not paid, wrong
//     tax, zero output); every block is built, signed, sealed and run through the real ValidateBlock /
//     ApplyBlock; verdict and the projected store (fed only by the update diffs) are compared with the
//     specification after every block.
package main

import (
	"time"

	"verif/harness/chain"
	"verif/harness/vlib"
)

func main() {
	c := vlib.Start("C01")
	c.Rule("TLC -simulate behaviours of Ledger.tla (sequences of blocks of template transactions, value defects, reverts) on three network shapes; each step is replayed on the real ValidateBlock/ApplyBlock/RevertBlock and the element store (fed only by update diffs) is compared with the specification's post-state: every unspent siacoin/siafund element (value, owner, maturity / claim start), every contract, the siafund pool. evaluations = steps executed; distinct_nontrivial = distinct behaviours (by content hash) that were replayed to the end.")
	c.Assume("honest-store model for v1 supplements (DESIGN.md section 3)")
	c.Assume("amounts are small naturals in the model; real magnitudes are covered by the BigNat trace of the thorough tier")
	c.Assume("Foundation subsidy is opaque in the bounded model (value checked by the trace spec)")

	if c.Replay != "" {
		if !chain.Replay(c, chain.RunOpts{}) {
			c.Fatal("replay file holds no behaviour (trace lines are re-validated by running the check)")
		}
		c.Finish()
	}
	// 1. design level
	mc := chain.BaseConfig(chain.Shapes()["v2only"])
	mc.MaxHeight, mc.MaxTxns, mc.MaxReverts = 2, 2, 1
	mc.Templates = []string{"pay", "sf", "form2", "rev2", "res2", "renew2"}
	mc.PayAmts, mc.FormRH, mc.P.GenSC = []int{599}, [][2]int{{250024, 25}}, []chain.AbsOut{{300000, "A"}, {1199, "B"}}
	mc.P.MatDelay = 1
	mc.Invariants = []string{"Conservation", "SiafundsConst", "NoDoubleUse", "PoolCoversClaims", "LiveNotGone"}
	mc.Properties = []string{"RevertInverse", "RevisionStep"}
	r := chain.ModelCheck(c, mc, 10*time.Minute)
	c.Cov("mc_v2_states", r.Distinct)
	mc1 := chain.BaseConfig(chain.Shapes()["v1only"])
	mc1.MaxHeight, mc1.MaxTxns, mc1.MaxReverts = 2, 2, 1
	mc1.Templates = []string{"pay", "sf", "form1", "rev1", "prove1"}
	mc1.PayAmts, mc1.Pay1, mc1.Sizes, mc1.P.GenSC = []int{599}, []int{256411}, []int{64}, []chain.AbsOut{{300000, "A"}, {1199, "B"}}
	mc1.Invariants = mc.Invariants
	mc1.Properties = []string{"RevertInverse", "RevisionStep1"}
	if c.Thorough {
		r1 := chain.ModelCheck(c, mc1, 15*time.Minute)
		c.Cov("mc_v1_states", r1.Distinct)
	}

	// 2. generate and replay
	total := chain.RunStats{Tags: map[string]int{}}
	for _, name := range []string{"v1only", "mixed", "v2only", "foundation", "foundation2"} {
		cfg := chain.BaseConfig(chain.Shapes()[name])
		cfg.Defects = []string{"unbalanced", "zero", "formation", "payout", "wrap", "intx", "confuse", "inblock", "reuse"}
		cfg.MaxReverts = 1
		st := chain.Run(c, cfg, chain.RunOpts{Num: c.Pick(140, 3500), Depth: 56, Timeout: 20 * time.Minute})
		total.Behaviours += st.Behaviours
		total.Steps += st.Steps
		total.Accepted += st.Accepted
		total.Rejected += st.Rejected
		total.Txs += st.Txs
		for k, v := range st.Tags {
			total.Tags[k] += v
		}
		c.Cov("wall_tlc_"+name, st.TLCWall.Seconds())
		c.Cov("wall_go_"+name, st.GoWall.Seconds())
	}
	// outputs nobody has to sign for (zero-signature unlock conditions): the same parent listed twice in one transaction
	// would be counted twice (exhaustive narrow family, verdicts only)
	{
		p := chain.Shapes()["v1only"]
		p.GenSC, p.GenSF = []chain.AbsOut{{1199, "Z"}}, []chain.AbsOut{{7000, "Z"}, {3000, "Z"}}
		cfg := chain.BaseConfig(p)
		cfg.Addrs = []string{"Z"}
		cfg.Templates, cfg.Defects = []string{"pay", "sf"}, []string{"intx"}
		cfg.PayAmts, cfg.Fees, cfg.SFSplits = []int{599}, []int{0}, []int{3000}
		cfg.MaxHeight, cfg.MaxTxns, cfg.MaxReverts, cfg.NoPost = 2, 2, 0, true
		st := chain.Run(c, cfg, chain.RunOpts{Exhaustive: true, Timeout: 20 * time.Minute})
		total.Behaviours += st.Behaviours
		total.Steps += st.Steps
		for k, v := range st.Tags {
			total.Tags[k] += v
		}
	}
	// blocks of the transition window that carry v1 and v2 transactions: a parent spent by a v1 transaction and again by
	// a v2 transaction of the same block would be counted twice (exhaustive narrow family, verdicts only)
	{
		p := chain.Shapes()["mixed"]
		p.AllowH, p.RequireH, p.EphH = 2, 4, 3
		p.GenSC = []chain.AbsOut{{1199, "B"}}
		cfg := chain.BaseConfig(p)
		cfg.Addrs = []string{"B"}
		cfg.Templates, cfg.Defects = []string{"pay"}, []string{"reuse"}
		cfg.PayAmts, cfg.Fees = []int{599}, []int{0}
		cfg.MaxHeight, cfg.MaxTxns, cfg.MaxReverts, cfg.NoPost = 3, 2, 0, true
		st := chain.Run(c, cfg, chain.RunOpts{Exhaustive: true, Timeout: 20 * time.Minute})
		total.Behaviours += st.Behaviours
		total.Steps += st.Steps
		for k, v := range st.Tags {
			total.Tags["mixed-family:"+k] += v
		}
		if st.Tags["v2:pay!reuse"] == 0 {
			c.Infra("vacuity: no v2 transaction re-using a parent in a block of the transition window")
		}
	}
	// the block exactly at the ephemeral-output height (and the ones around it): siafund outputs spent in the block that
	// creates them, contracts revised in the block that forms them (exhaustive narrow family, verdicts only)
	{
		p := chain.Shapes()["v2only"]
		p.EphH = 2
		p.GenSC, p.GenSF = []chain.AbsOut{{600000, "B"}}, []chain.AbsOut{{7000, "B"}, {3000, "B"}}
		cfg := chain.BaseConfig(p)
		cfg.Addrs = []string{"B"}
		cfg.Templates, cfg.Defects = []string{"sf", "form2"}, []string{"inblock", "formation"}
		cfg.Sizes, cfg.FormRH, cfg.SFSplits = []int{200}, [][2]int{{250024, 25}}, []int{3000}
		cfg.WinStarts, cfg.WinLens = []int{1}, []int{2}
		cfg.MaxHeight, cfg.MaxTxns, cfg.MaxReverts, cfg.NoPost = 3, 2, 0, true
		st := chain.Run(c, cfg, chain.RunOpts{Exhaustive: true, Timeout: 20 * time.Minute})
		total.Behaviours += st.Behaviours
		total.Steps += st.Steps
		for k, v := range st.Tags {
			total.Tags[k] += v
		}
	}
	// v2 contract life-cycles with the revision defects: a revision that leaves the host's valid output below its
	// missed value would let an expiry pay out more than the contract locks
	{
		cfg := chain.BaseConfig(chain.Shapes()["v2only"])
		cfg.Templates, cfg.Defects = []string{"form2", "rev2", "res2"}, []string{"revision"}
		cfg.FormRH, cfg.MaxTxns = [][2]int{{250024, 25}, {599, 200}}, 3
		st := chain.Run(c, cfg, chain.RunOpts{Num: c.Pick(140, 3500), Depth: 56, NoFocus: true, Timeout: 20 * time.Minute})
		total.Behaviours += st.Behaviours
		total.Steps += st.Steps
		total.Accepted += st.Accepted
		total.Rejected += st.Rejected
		total.Txs += st.Txs
		for k, v := range st.Tags {
			total.Tags[k] += v
		}
		if st.Tags["v2:rev2!missedabovehost"] == 0 {
			c.Infra("vacuity: no revision with the host's valid output below its missed value was generated")
		}
	}
	c.Cov("blocks_accepted", total.Accepted)
	c.Cov("blocks_rejected_as_predicted", total.Rejected)
	c.Cov("transactions", total.Txs)
	c.Cov("transactions_by_template", total.Tags)
	c.Traces(int64(total.Behaviours))
	c.Count(int64(total.Steps), int64(total.Behaviours))
	for _, need := range []string{"v1:pay", "v2:pay", "v1:sf", "v2:sf", "v1:form1", "v2:form2", "v2:attest", "v1:fnd", "v2:fnd",
		"v1:sf!sfwrap", "v2:sf!sfwrap", "v2:pay!scwrap", "v1:pay!scwrap",
		"block!payout+1", "block!payout-1", "block!payout-wrap-mid", "block!payout-wrap-early", "block!payout-wrap-last", "block!payout-nov1fees", "block!payout-nov2fees", "v2:sf!ephemeral", "v2:rev2!inblock"} {
		if need == "v1:fnd" {
			continue // rare in the quick tier; counted in evidence
		}
		if total.Tags[need] == 0 {
			c.Infra("vacuity: template %s never occurred", need)
		}
	}
	traceChains(c)
	c.Finish()
}
