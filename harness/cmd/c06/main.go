// C06 — Reverting a block is the exact inverse of applying it (reorg safety).
//
//  1. TLC proves RevertInverse on the bounded Ledger model (undo stack vs committed state).
//  2. Direction A: TLC simulates reorg schedules — revert k >= 1 tip blocks, then apply the same or a competing
//     continuation, repeatedly — over blocks that contain the same-block combinations the property names
//     (created+spent, v1 created+revised, v1 revised+proved, v1 expiring, v2 revised twice, v2 revised+renewed).
//     After every real RevertBlock:
//       (a) the store obtained by applying the reported inverses equals the snapshot taken before the apply,
//           as a set of (id, all fields, leaf index), and equals the specification's committed state;
//       (b) the revert's diff lists are the apply lists reversed with identical content;
//       (c) every element of the store verifies against the parent state after RevertUpdate.UpdateElementProof;
//       (d) re-applying the block (supplement rebuilt from the reverted store) yields a byte-identical State
//           encoding and JSON-identical diffs.
package main

import (
	"bytes"
	"encoding/json"
	"fmt"
	"strings"
	"sync"
	"time"

	"go.sia.tech/core/consensus"
	"go.sia.tech/core/types"
	"verif/harness/chain"
	"verif/harness/vlib"
)


func enc(v types.EncoderTo) []byte {
	var buf bytes.Buffer
	e := types.NewEncoder(&buf)
	v.EncodeTo(e)
	e.Flush()
	return buf.Bytes()
}

// combo names the same-block combinations present in a block (for keys and coverage).
func combo(au consensus.ApplyUpdate) []string {
	var out []string
	for _, d := range au.SiacoinElementDiffs() {
		if d.Created && d.Spent {
			out = append(out, "sc-created+spent")
		}
	}
	for _, d := range au.SiafundElementDiffs() {
		if d.Created && d.Spent {
			out = append(out, "sf-created+spent")
		}
	}
	for _, d := range au.FileContractElementDiffs() {
		switch {
		case d.Created && d.Revision != nil:
			out = append(out, "v1-created+revised")
		case d.Created && d.Resolved:
			out = append(out, "v1-created+resolved")
		case d.Revision != nil && d.Resolved && d.Valid:
			out = append(out, "v1-revised+proved")
		case d.Revision != nil && d.Resolved:
			out = append(out, "v1-revised+expired")
		case d.Resolved && !d.Valid:
			out = append(out, "v1-expired")
		case d.Resolved:
			out = append(out, "v1-proved")
		case d.Revision != nil:
			out = append(out, "v1-revised")
		}
	}
	for _, d := range au.V2FileContractElementDiffs() {
		switch {
		case d.Revision != nil && d.Resolution != nil:
			out = append(out, "v2-revised+resolved")
		case d.Resolution != nil:
			out = append(out, "v2-resolved")
		case d.Revision != nil:
			out = append(out, "v2-revised")
		}
	}
	return out
}

func main() {
	c := vlib.Start("C06")
	c.Rule("TLC -simulate reorg schedules of Ledger.tla (MaxReverts 3, competing continuations) on three network shapes; after every real RevertBlock: store == pre-apply snapshot (ids, fields, leaf indices) == spec state; revert diffs == reversed apply diffs; every stored element verifies against the parent accumulator; re-apply gives byte-identical State and JSON-identical diffs. evaluations = steps; distinct_nontrivial = reverts executed.")
	c.Assume("honest-store model for v1 supplements")

	mc := chain.BaseConfig(chain.Shapes()["v2only"])
	mc.MaxHeight, mc.MaxTxns, mc.MaxReverts = 2, 2, 2
	mc.Templates = []string{"pay", "sf", "form2", "rev2", "res2", "renew2"}
	mc.PayAmts, mc.FormRH, mc.P.GenSC = []int{599}, [][2]int{{250024, 25}}, []chain.AbsOut{{300000, "A"}, {1199, "B"}}
	mc.P.MatDelay = 1
	mc.Invariants = []string{"Conservation", "LiveNotGone"}
	mc.Properties = []string{"RevertInverse"}
	r := chain.ModelCheck(c, mc, 10*time.Minute)
	c.Cov("mc_states", r.Distinct)

	var mu sync.Mutex
	combos := map[string]int{}
	reverts := int64(0)
	viol := func(sim *chain.Sim, key, what string, beh *chain.Behaviour, i int) {
		c.Violation(key, what, chain.Payload(sim, beh, i))
	}
	opts := chain.RunOpts{Num: c.Pick(160, 4000), Depth: 64, Timeout: 20 * time.Minute,
		KeyOf: func(m chain.Mismatch) string { return "spec-state/" + m.Kind + "/" + m.Tag },
		NewSim: func(sim *chain.Sim) {
			sim.KeepSnapshots = true
			var lastCombo []string
			sim.OnApply = func(_ consensus.State, _ types.Block, au consensus.ApplyUpdate) { lastCombo = combo(au) }
			sim.OnRevert = func(prev consensus.State, b types.Block, ru consensus.RevertUpdate) {
				_ = lastCombo
			}
		},
	}
	// the revert checks need the Applied record, which Sim.Revert pops: wrap RunStep through the Hook by
	// re-deriving what was reverted from the step before
	type last struct {
		a     chain.Applied
		valid bool
	}
	lasts := map[*chain.Sim][]chain.Applied{}
	opts.Hook = func(sim *chain.Sim, beh *chain.Behaviour, i int, st chain.Step, res chain.StepResult) {
		mu.Lock()
		stack := lasts[sim]
		mu.Unlock()
		switch {
		case st.Op == "block" && st.Verdict == "accept" && res.Accepted && len(sim.Chain) > 0:
			stack = append(stack, sim.Chain[len(sim.Chain)-1])
			for _, k := range combo(sim.Chain[len(sim.Chain)-1].Update) {
				mu.Lock()
				combos["applied:"+k]++
				mu.Unlock()
			}
		case st.Op == "revert" && len(stack) > 0:
			a := stack[len(stack)-1]
			stack = stack[:len(stack)-1]
			cb := combo(a.Update)
			suffix := strings.Join(cb, ",")
			if suffix == "" {
				suffix = "plain"
			}
			for _, k := range cb {
				mu.Lock()
				combos["reverted:"+k]++
				mu.Unlock()
			}
			mu.Lock()
			reverts++
			mu.Unlock()
			// (a) store == snapshot before the apply
			if a.Snap != nil {
				if d := sim.DiffSnap(a.Snap); len(d) > 0 {
					viol(sim, "store-differs-after-revert/"+suffix, fmt.Sprintf("after reverting a block containing {%s} the store differs from the one before the apply: %s", suffix, d[0]), beh, i)
				}
			}
			// (c) every element verifies against the parent state
			if bad := sim.VerifyStore(); len(bad) > 0 {
				viol(sim, "proof-invalid-after-revert/"+suffix, fmt.Sprintf("after reverting a block containing {%s}, %d stored element(s) do not verify against the parent state, e.g. %s", suffix, len(bad), bad[0]), beh, i)
			}
			// (b) revert diffs are the apply diffs reversed
			var ru consensus.RevertUpdate
			if p, v := vlib.Recover(func() { ru = consensus.RevertBlock(a.Prev, a.Block, a.Supp) }); p {
				viol(sim, "revert-panics/"+suffix, fmt.Sprintf("RevertBlock of an applied block containing {%s} panics: %v", suffix, v), beh, i)
				return
			}
			if msg := reversed(a.Update, ru); msg != "" {
				viol(sim, "revert-diffs-not-reversed-apply-diffs/"+suffix, msg, beh, i)
			}
			// (d) re-apply is byte-identical (supplement rebuilt from the reverted store)
			bs2 := sim.Supplement(a.Block.Transactions)
			var cs2 consensus.State
			var au2 consensus.ApplyUpdate
			if p, _ := vlib.Recover(func() { cs2, au2 = consensus.ApplyBlock(sim.CS, a.Block, bs2, time.Time{}) }); p {
				viol(sim, "reapply-panics/"+suffix, "re-applying the reverted block panics", beh, i)
			} else {
				if !bytes.Equal(enc(cs2), enc(a.Next)) {
					viol(sim, "reapply-state-differs/"+suffix, "re-applying the reverted block gives a different State encoding", beh, i)
				}
				j1, _ := json.Marshal(a.Update)
				j2, _ := json.Marshal(au2)
				if !bytes.Equal(j1, j2) {
					viol(sim, "reapply-diffs-differ/"+suffix, "re-applying the reverted block gives different update JSON", beh, i)
				}
			}
		}
		mu.Lock()
		lasts[sim] = stack
		mu.Unlock()
	}
	if c.Replay != "" {
		if !chain.Replay(c, opts) {
			c.Fatal("replay file holds no behaviour")
		}
		c.Finish()
	}
	total := chain.RunStats{}
	type run struct {
		shape string
		tpl   []string
	}
	for _, rn := range []run{{"v1only", chain.AllTemplates}, {"mixed", chain.AllTemplates}, {"v2only", chain.AllTemplates},
		{"v1only", []string{"form1", "rev1", "prove1"}}, {"v2only", []string{"form2", "rev2", "res2", "renew2"}},
		{"mixed", []string{"form1", "rev1", "prove1", "form2", "rev2", "res2", "renew2", "sf"}}} {
		cfg := chain.BaseConfig(chain.Shapes()[rn.shape])
		cfg.Templates = rn.tpl
		cfg.MaxReverts = 3
		cfg.MaxHeight = 7
		o := opts
		if len(rn.tpl) < len(chain.AllTemplates) {
			// contract life-cycles: few variants per template so that revise / prove / renew meet in one block
			o.NoFocus = true
			cfg.Pay1, cfg.Sizes, cfg.FormRH, cfg.MaxTxns = []int{256411}, []int{200}, [][2]int{{250024, 25}}, 4
		}
		st := chain.Run(c, cfg, o)
		total.Behaviours += st.Behaviours
		total.Steps += st.Steps
		total.Reverts += st.Reverts
	}
	// exhaustive: every block of up to two uses of one v2 contract (revise, renew) on top of its formation, then its revert
	{
		p := chain.Shapes()["v2only"]
		p.GenSC = []chain.AbsOut{{600000, "B"}, {300000, "B"}}
		cfg := chain.BaseConfig(p)
		cfg.Addrs = []string{"B"}
		cfg.Templates = []string{"form2", "rev2", "renew2"}
		cfg.Sizes, cfg.RevShifts, cfg.FormRH = []int{200}, []int{24}, [][2]int{{250024, 25}}
		cfg.WinStarts, cfg.WinLens = []int{1}, []int{2}
		cfg.MaxHeight, cfg.MaxTxns, cfg.MaxReverts, cfg.NoPost = 2, 2, 1, true
		o := opts
		o.Exhaustive = true
		st := chain.Run(c, cfg, o)
		total.Behaviours += st.Behaviours
		total.Steps += st.Steps
		total.Reverts += st.Reverts
		c.Cov("exhaustive_v2_contract_reverts_behaviours", st.Behaviours)
	}
	c.Cov("same_block_combinations", combos)
	c.Cov("reverts", reverts)
	c.Traces(int64(total.Behaviours))
	c.Count(int64(total.Steps), reverts)
	for _, need := range []string{"reverted:sc-created+spent", "reverted:v2-revised", "reverted:v1-expired", "reverted:v2-resolved", "reverted:v2-revised+resolved"} {
		if combos[need] == 0 {
			c.Infra("vacuity: no reverted block contained %s", need)
		}
	}
	c.Finish()
}

// reversed reports whether the revert diff lists are the apply lists in reverse order with identical content
// (Merkle proofs excepted: they are refreshed for the parent state).
func reversed(au consensus.ApplyUpdate, ru consensus.RevertUpdate) string {
	norm := func(v any) string {
		js, _ := json.Marshal(v)
		var x any
		json.Unmarshal(js, &x)
		var strip func(any) any
		strip = func(n any) any {
			switch t := n.(type) {
			case map[string]any:
				delete(t, "merkleProof")
				for k, v := range t {
					t[k] = strip(v)
				}
			case []any:
				for i := range t {
					t[i] = strip(t[i])
				}
			}
			return n
		}
		out, _ := json.Marshal(strip(x))
		return string(out)
	}
	cmp := func(name string, a, r []string) string {
		if len(a) != len(r) {
			return fmt.Sprintf("%s: %d diffs reported by revert, %d by apply", name, len(r), len(a))
		}
		for i := range a {
			if a[i] != r[len(r)-1-i] {
				return fmt.Sprintf("%s diff %d of the apply is not diff %d of the revert: %s vs %s", name, i, len(r)-1-i, a[i], r[len(r)-1-i])
			}
		}
		return ""
	}
	var a1, r1 []string
	for _, d := range au.SiacoinElementDiffs() {
		a1 = append(a1, norm(d))
	}
	for _, d := range ru.SiacoinElementDiffs() {
		r1 = append(r1, norm(d))
	}
	if m := cmp("siacoin", a1, r1); m != "" {
		return m
	}
	a1, r1 = nil, nil
	for _, d := range au.SiafundElementDiffs() {
		a1 = append(a1, norm(d))
	}
	for _, d := range ru.SiafundElementDiffs() {
		r1 = append(r1, norm(d))
	}
	if m := cmp("siafund", a1, r1); m != "" {
		return m
	}
	a1, r1 = nil, nil
	for _, d := range au.FileContractElementDiffs() {
		a1 = append(a1, norm(d))
	}
	for _, d := range ru.FileContractElementDiffs() {
		r1 = append(r1, norm(d))
	}
	if m := cmp("v1 contract", a1, r1); m != "" {
		return m
	}
	a1, r1 = nil, nil
	for _, d := range au.V2FileContractElementDiffs() {
		a1 = append(a1, norm(d))
	}
	for _, d := range ru.V2FileContractElementDiffs() {
		r1 = append(r1, norm(d))
	}
	return cmp("v2 contract", a1, r1)
}
