package main

// Direction B: policies beyond the exhaustively checked bound. Seeded random
// trees (depth <= 6) and the complexity limits are run on the real code; the
// recorded verdicts are validated by TLC against Meaning (PolicyTrace.tla).

import (
	"bytes"
	"crypto/ed25519"
	"fmt"
	"math/rand"
	"sync"
	"time"

	"go.sia.tech/core/types"
	"verif/harness/vlib"
)

type traceLine struct {
	n      *node
	h, t   int
	sigs   []int
	pres   []int
	garb   []int
	env    int
	inst   int // member of the value classes the line was run with
	lite   bool // size family, flawed witness lists: the decoded policy is compared by encoding and address only
	v      bool
	dec    bool
	origin string
}

func (l *traceLine) event() map[string]any {
	nz := func(s []int) []int {
		if s == nil {
			return []int{}
		}
		return s
	}
	return map[string]any{"p": l.n.tla(), "h": l.h, "t": l.t, "sigs": nz(l.sigs), "pres": nz(l.pres), "v": l.v, "dec": l.dec}
}

type gen struct {
	r    *rand.Rand
	h, t int
}

func (g *gen) lockH() int {
	switch g.r.Intn(24) { // parameters at the extremes of the machine type
	case 0:
		return bigVal
	case 1:
		return 0
	}
	if g.r.Intn(5) > 0 { // mostly a lock that has passed
		return g.h - g.r.Intn(2)
	}
	return g.h + 1
}
func (g *gen) lockT() int {
	switch g.r.Intn(24) {
	case 0:
		return bigVal
	case 1, 2, 3, 4:
		return negVal
	}
	if g.r.Intn(5) > 0 {
		return g.t - 1 - g.r.Intn(2)
	}
	return g.t + g.r.Intn(2)
}

func (g *gen) leaf() *node {
	switch g.r.Intn(8) {
	case 0:
		return &node{K: "above", A: g.lockH()}
	case 1:
		return &node{K: "after", A: g.lockT()}
	case 2, 3, 4:
		return &node{K: "pk", A: g.r.Intn(4)}
	default:
		return &node{K: "hash", A: g.r.Intn(4)}
	}
}

func (g *gen) uc() *node {
	n := &node{K: "uc", A: g.lockH()}
	nk := g.r.Intn(6)
	for i := 0; i < nk; i++ {
		k := ukey{Alg: 0, ID: g.r.Intn(4)}
		switch g.r.Intn(10) {
		case 0:
			k = ukey{Alg: 1}
		case 1, 2:
			k = ukey{Alg: 2, ID: g.r.Intn(4)}
		}
		n.Keys = append(n.Keys, k)
	}
	n.B = g.r.Intn(nk + 1)
	if g.r.Intn(8) == 0 {
		n.B = g.r.Intn(7)
	}
	if g.r.Intn(10) == 0 {
		n.B = []int{bigVal, 255, 256, nk + 1}[g.r.Intn(4)]
	}
	return n
}

// tree returns a policy of at most the given depth.
func (g *gen) tree(depth int) *node {
	if depth == 0 || g.r.Intn(4) == 0 {
		return g.leaf()
	}
	n := &node{K: "thresh"}
	width := g.r.Intn(5)
	if depth >= 4 && width > 3 {
		width = 3
	}
	revealed := 0
	for i := 0; i < width; i++ {
		var ch *node
		if g.r.Intn(40) == 0 {
			ch = g.uc() // never allowed below a threshold
		} else {
			ch = g.tree(depth - 1)
		}
		if g.r.Intn(3) == 0 {
			ch = &node{K: "opaque", Hid: ch, HidReal: true}
		}
		if ch.K != "opaque" {
			revealed++
		}
		n.Of = append(n.Of, ch)
	}
	n.A = revealed
	if g.r.Intn(10) == 0 {
		n.A = g.r.Intn(width + 2)
	}
	return n
}

// intended collects, left to right, the witnesses the revealed leaves ask for
// (a generator heuristic: the expected verdict always comes from TLC).
func intended(n *node, sigs, pres *[]int, r *rand.Rand) {
	switch n.K {
	case "pk":
		*sigs = append(*sigs, n.A)
	case "hash":
		*pres = append(*pres, n.A)
	case "thresh":
		for _, c := range n.Of {
			intended(c, sigs, pres, r)
		}
	case "uc":
		need := n.B
		for _, k := range n.Keys {
			if need == 0 || k.Alg == 1 {
				break
			}
			if k.Alg == 0 {
				*sigs = append(*sigs, k.ID)
			} else {
				*sigs = append(*sigs, r.Intn(5)-1)
			}
			need--
		}
	}
}

func mutate(s []int, r *rand.Rand) []int {
	s = append([]int{}, s...)
	switch op := r.Intn(4); {
	case op == 0 && len(s) > 0: // drop
		i := r.Intn(len(s))
		s = append(s[:i], s[i+1:]...)
	case op == 1: // insert
		i := r.Intn(len(s) + 1)
		s = append(s[:i], append([]int{r.Intn(5) - 1}, s[i:]...)...)
	case op == 2 && len(s) > 1: // swap
		i := r.Intn(len(s) - 1)
		s[i], s[i+1] = s[i+1], s[i]
	case len(s) > 0: // corrupt
		s[r.Intn(len(s))] = r.Intn(5) - 1
	default:
		s = append(s, -1)
	}
	return s
}

func depthOf(n *node) int {
	d := 0
	for _, c := range n.Of {
		if x := depthOf(c) + 1; x > d {
			d = x
		}
	}
	return d
}

// A hang is not decided by the clock alone: on a machine shared with other work a process can be
// starved for longer than any sensible deadline. When the deadline of a case has passed, the
// watchdog itself - scheduled like every other goroutine of this process - does reference work worth
// many times what the largest case needs (40 000 ed25519 verifications with the standard library,
// the largest case needs about 4 100) and looks for the result in between. Only a case that has
// still not returned after that is reported as hanging.
var (
	refOnce sync.Once
	refPub  ed25519.PublicKey
	refSig  []byte
	refMsg  = []byte("verif c14 reference work")
)

func stillHangs(finished func() bool) bool {
	refOnce.Do(func() {
		var priv ed25519.PrivateKey
		refPub, priv, _ = ed25519.GenerateKey(rand.New(rand.NewSource(99)))
		refSig = ed25519.Sign(priv, refMsg)
	})
	for chunk := 0; chunk < 200; chunk++ {
		if finished() {
			return false
		}
		for i := 0; i < 200; i++ {
			if !ed25519.Verify(refPub, refMsg, refSig) {
				panic("reference signature does not verify")
			}
		}
	}
	return !finished()
}

// execLine runs the real code for one line with a deadline: Verify, the encoder and decoder.
func execLine(l *traceLine, envs []*env, deadline time.Duration) (hang bool, panicked bool, detail string) {
	type result struct {
		v, dec   bool
		panicked bool
		detail   string
	}
	ch := make(chan result, 1)
	go func() {
		var res result
		pan, val := vlib.Recover(func() {
			e := envs[l.env].withInst(l.inst)
			pol := e.policy(l.n)
			sigs, pres := e.witness(l.sigs, l.pres, l.garb)
			res.v = pol.Verify(e.height(l.h), e.time(l.t), e.sigHash, sigs, pres) == nil
			enc := encodePolicy(pol)
			back, err := decodePolicy(enc)
			res.dec = err == nil
			if err == nil && encodable(l.n) {
				// the decoded policy is the same policy: same encoding, same verdict
				if !bytes.Equal(encodePolicy(back), enc) {
					res.detail = "decode(encode(p)) re-encodes differently"
				} else if !l.lite && e.tUnit >= time.Second && (back.Verify(e.height(l.h), e.time(l.t), e.sigHash, sigs, pres) == nil) != res.v {
					res.detail = "decode(encode(p)) has a different verdict"
				} else if back.Address() != pol.Address() {
					res.detail = "decode(encode(p)) has a different address"
				}
			}
			if res.detail == "" && len(l.n.Of) <= 255 && e.policy(reveal(l.n)).Address() != pol.Address() {
				res.detail = "the address differs between the policy and its form with the hidden sub-policies revealed"
			}
		})
		if pan {
			res.panicked, res.detail = true, fmt.Sprint(val)
		}
		ch <- res
	}()
	var res result
	got := false
	select {
	case res = <-ch:
		got = true
	case <-time.After(deadline):
		if stillHangs(func() bool {
			if !got {
				select {
				case res = <-ch:
					got = true
				default:
				}
			}
			return got
		}) {
			return true, false, ""
		}
	}
	l.v, l.dec = res.v, res.dec
	return false, res.panicked, res.detail
}

// pickEnvInst draws an environment and a member of the value classes that is valid in it for n
// (environment 0 takes every member).
func pickEnvInst(n *node, r *rand.Rand) (env, inst int) {
	env, inst = r.Intn(nEnvs), r.Intn(nInst)
	var u classUse
	n.classes(&u, true)
	if !u.any() {
		return env, 0
	}
	for try := 0; try < 20; try++ {
		if traceEnvs[env].validInst(n, inst) {
			return env, inst
		}
		env = r.Intn(nEnvs)
	}
	return 0, inst
}

var traceEnvs = func() []*env {
	es := make([]*env, nEnvs)
	for i := range es {
		es[i] = &env{id: i, hBase: hBases[i%len(hBases)], tBase: time.Unix(tBases[i%len(tBases)], 0), tUnit: tUnits[i%len(tUnits)]}
	}
	return es
}()

func encodable(n *node) bool {
	if len(n.Of) > 255 {
		return false
	}
	for _, c := range n.Of {
		if !encodable(c) {
			return false
		}
	}
	return true
}

func repeatNode(n *node, k int) []*node {
	out := make([]*node, k)
	for i := range out {
		out[i] = n
	}
	return out
}

func chain(depth int, leaf *node) *node {
	n := leaf
	for i := 0; i < depth; i++ {
		n = &node{K: "thresh", A: 1, Of: []*node{n}}
	}
	return n
}

// limitLines: the complexity limits from both sides.
func limitLines(r *rand.Rand) []*traceLine {
	pass := &node{K: "above", A: 9}
	pk := &node{K: "pk", A: 0}
	op := &node{K: "opaque", Hid: pk, HidReal: true}
	full := &node{K: "thresh", A: 255, Of: repeatNode(pass, 255)} // 255 sub-policies, all satisfied
	th := func(n int, of ...*node) *node { return &node{K: "thresh", A: n, Of: of} }
	cat := func(a []*node, b ...*node) []*node { return append(append([]*node{}, a...), b...) }
	var out []*traceLine
	add := func(origin string, n *node, sigs, pres []int) {
		env, inst := pickEnvInst(n, r)
		out = append(out, &traceLine{n: n, h: 10, t: 1000, sigs: sigs, pres: pres, garb: []int{0, 1, 2, 3, 4, 5}, env: env, inst: inst, origin: origin})
	}
	// total number of sub-policies: 1024 is the last accepted
	add("total-1024", th(4, full, full, full, full), nil, nil)                                                     // 4 + 4*255
	add("total-1025", th(5, full, full, full, full, th(0)), nil, nil)                                              // 5 + 4*255
	add("total-1025-late", th(4, full, full, full, th(255, cat(repeatNode(pass, 254), th(1, pass))...)), nil, nil) // 4+3*255+255+1
	add("total-1024-sig", th(4, full, full, full, th(255, cat(repeatNode(pass, 254), pk)...)), []int{0}, nil)
	add("total-1024-opaque", th(3, full, full, full, th(0, repeatNode(op, 255)...)), nil, nil) // hidden children count as well: 4 + 1020
	add("total-1025-opaque", th(3, full, full, full, th(0, repeatNode(op, 255)...), op), nil, nil)
	add("total-2040", th(8, full, full, full, full, full, full, full, full), nil, nil)
	// width of one threshold: 255 is the last accepted
	add("width-255", full, nil, nil)
	add("width-256", th(255, cat(repeatNode(pass, 255), op)...), nil, nil)
	add("width-256-opaque", th(0, repeatNode(op, 256)...), nil, nil)
	add("width-255-opaque", th(0, repeatNode(op, 255)...), nil, nil)
	add("width-300", th(1, cat(repeatNode(op, 299), pass)...), nil, nil)
	add("width-255-one", th(1, cat(repeatNode(op, 254), pk)...), []int{0}, nil)
	add("width-255-one-surplus", th(1, cat(repeatNode(op, 254), pk)...), []int{0, 0}, nil)
	// nesting depth: the decoder accepts depth 32 and rejects 33; Verify has no limit of its own
	for _, d := range []int{31, 32, 33, 34, 40} {
		add(fmt.Sprintf("depth-%d", d), chain(d, pk), []int{0}, nil)
		add(fmt.Sprintf("depth-%d-wrong", d), chain(d, pk), []int{1}, nil)
	}
	// unlock conditions across the uint8 boundary: 255 / 256 listed keys and required signatures
	manyKeys := func(k int, alg int) []ukey {
		ks := make([]ukey, k)
		for i := range ks {
			ks[i] = ukey{Alg: alg, ID: i % 4}
		}
		return ks
	}
	rep := func(v, k int) []int {
		s := make([]int, k)
		for i := range s {
			s[i] = v
		}
		return s
	}
	cyc := func(k int) []int {
		s := make([]int, k)
		for i := range s {
			s[i] = i % 4
		}
		return s
	}
	add("uckeys-255", &node{K: "uc", A: 9, B: 255, Keys: manyKeys(255, 2)}, rep(-1, 255), nil)
	add("uckeys-255-short", &node{K: "uc", A: 9, B: 255, Keys: manyKeys(255, 2)}, rep(-1, 254), nil)
	add("uckeys-256", &node{K: "uc", A: 9, B: 256, Keys: manyKeys(256, 2)}, rep(-1, 256), nil)
	add("uckeys-256-none", &node{K: "uc", A: 9, B: 256, Keys: manyKeys(256, 2)}, nil, nil)
	add("uckeys-256-of-257", &node{K: "uc", A: 0, B: 256, Keys: manyKeys(257, 2)}, rep(1, 256), nil)
	add("uckeys-257-of-256", &node{K: "uc", A: 9, B: 257, Keys: manyKeys(256, 2)}, rep(1, 256), nil)
	add("uckeys-big-of-256", &node{K: "uc", A: 9, B: bigVal, Keys: manyKeys(256, 2)}, rep(1, 256), nil)
	add("uckeys-big-of-256-none", &node{K: "uc", A: 9, B: bigVal, Keys: manyKeys(256, 0)}, nil, nil)
	add("uckeys-ed-256", &node{K: "uc", A: 9, B: 256, Keys: manyKeys(256, 0)}, cyc(256), nil)
	add("uckeys-ed-256-biglock", &node{K: "uc", A: bigVal, B: 256, Keys: manyKeys(256, 0)}, cyc(256), nil)
	add("depth-32-wide", th(2, chain(31, pk), chain(31, &node{K: "hash", A: 1})), []int{0}, []int{1})
	add("depth-33-empty", chain(33, th(0)), nil, nil) // an empty threshold at depth 33 is read (it has no child at 34)
	add("depth-34-empty", chain(34, th(0)), nil, nil)
	return out
}

// randomLines generates n lines.
func randomLines(r *rand.Rand, n int) []*traceLine {
	var out []*traceLine
	for len(out) < n {
		g := &gen{r: r, h: 9 + r.Intn(3), t: 999 + r.Intn(3)}
		var root *node
		if r.Intn(8) == 0 {
			root = g.uc()
		} else {
			root = g.tree(1 + r.Intn(6))
		}
		var sigs, pres []int
		intended(root, &sigs, &pres, r)
		variants := 1 + r.Intn(3)
		for v := 0; v < variants; v++ {
			s, p := sigs, pres
			origin := "intended"
			if v > 0 {
				origin = "mutated"
				if r.Intn(3) > 0 {
					s = mutate(s, r)
				} else {
					p = mutate(p, r)
				}
			}
			h, t := g.h, g.t
			if v > 0 && r.Intn(4) == 0 {
				h, t, origin = 9+r.Intn(3), 999+r.Intn(3), "other-context"
			}
			env, inst := pickEnvInst(root, r)
			out = append(out, &traceLine{n: root, h: h, t: t, sigs: s, pres: p, env: env, inst: inst, origin: origin,
				garb: []int{r.Intn(64), r.Intn(64), r.Intn(64), r.Intn(64), r.Intn(64), r.Intn(64)}})
		}
	}
	return out
}

// decoderBomb: encodings nested far beyond the limit must be rejected quickly.
func decoderBomb(c *vlib.Ctx) {
	for _, depth := range []int{33, 1000, 1 << 20} {
		buf := []byte{1}
		for i := 0; i < depth; i++ {
			buf = append(buf, 5, 1, 1) // threshold, n = 1, one child
		}
		buf = append(buf, 1, 0, 0, 0, 0, 0, 0, 0, 0) // above(0)
		done := make(chan error, 1)
		go func() {
			var err error
			pan, val := vlib.Recover(func() { _, err = decodePolicy(buf) })
			if pan {
				err = nil
				c.Violation("decode-panic", fmt.Sprintf("decoding a policy nested %d deep panics: %v", depth, val), map[string]any{"kind": "decode-depth", "depth": depth})
			}
			done <- err
		}()
		var err error
		got := false
		select {
		case err = <-done:
			got = true
		case <-time.After(20 * time.Second):
			if stillHangs(func() bool {
				if !got {
					select {
					case err = <-done:
						got = true
					default:
					}
				}
				return got
			}) {
				c.Violation("decode-hang", fmt.Sprintf("decoding a policy nested %d deep did not finish within 20 s", depth), map[string]any{"kind": "decode-depth", "depth": depth})
			}
		}
		if got && err == nil {
			c.Violation("decode-depth-accepted", fmt.Sprintf("decoder accepts a policy nested %d deep (limit 32)", depth), map[string]any{"kind": "decode-depth", "depth": depth})
		}
		c.Count(1, 1)
	}
}

var _ = types.VoidAddress
