package main

// Family "size" (spec/policy/PolicySizes.tla): policies and witness lists at the magnitudes of
// the limits the codec and the evaluator document - unlock conditions with 254..2049 listed keys
// requiring 0, 1, n-1, n, n+1 and every smaller limit value of signatures, single thresholds of
// 254..256 children, trees of 1023..2049 sub-policies whose leaves all ask for a witness - each
// with the witness lists it asks for and with flawed ones. TLC builds every policy at its real
// size, checks VerifyAlg = Meaning and the class statement (the verdict depends on the relations
// between the sizes, never on the magnitudes) and prints the cases with the verdict of Meaning.
// Here every case is built with real keys and signatures and run on the real Verify, the codec,
// Address, and (the exact lists and one flawed list per shape) through ValidateV2Transaction.

import (
	"encoding/json"
	"fmt"
	"math/rand"
	"os"
	"runtime"
	"strings"
	"sync"
	"sync/atomic"
	"time"

	"verif/harness/vlib"
)

type sizeCase struct {
	V    string `json:"v"`
	Sigs []int  `json:"sigs"`
	Pres []int  `json:"pres"`
	Want bool   `json:"want"`
	OK   bool   `json:"ok"`
}

type sizeDesc struct {
	Fam  string `json:"fam"`
	Kind string `json:"kind"`
	N    int    `json:"n"`
	M    int    `json:"m"`
	X    int    `json:"x"`
	Y    int    `json:"y"`
}

type sizeShape struct {
	Class string          `json:"class"`
	D     sizeDesc        `json:"d"`
	P     json.RawMessage `json:"p"`
	Nodes int             `json:"nodes"`
	Dec   bool            `json:"dec"`
	Enc   bool            `json:"enc"`
	Cases []sizeCase      `json:"cases"`
	n     *node
}

type sizesHead struct {
	Sizes     []int `json:"sizes"`
	NItems    int   `json:"nitems"`
	Essential int   `json:"essential"`
	Rest      int   `json:"rest"`
	H         int   `json:"h"`
	T         int   `json:"t"`
}

// nodeFromTLA reads a policy in the record shape of Policy.tla; unlock conditions arrive in the
// compact form [k, a, b, keys] with keys as 10 * algorithm + id.
func nodeFromTLA(raw json.RawMessage) (*node, error) {
	var r struct {
		K    string            `json:"k"`
		A, B int               `json:"-"`
		RA   json.Number       `json:"a"`
		RB   json.Number       `json:"b"`
		Of   []json.RawMessage `json:"of"`
		Ad   string            `json:"ad"`
		Keys []int             `json:"keys"`
	}
	if err := json.Unmarshal(raw, &r); err != nil {
		return nil, err
	}
	a, err := r.RA.Int64()
	if err != nil {
		return nil, err
	}
	b, err := r.RB.Int64()
	if err != nil {
		return nil, err
	}
	n := &node{K: r.K, A: int(a), B: int(b)}
	switch r.K {
	case "above", "after", "pk", "hash":
	case "opaque":
		hid, err := parseTerm(r.Ad)
		if err != nil {
			return nil, err
		}
		n.Hid = hid
	case "thresh":
		for _, c := range r.Of {
			ch, err := nodeFromTLA(c)
			if err != nil {
				return nil, err
			}
			n.Of = append(n.Of, ch)
		}
	case "uc":
		if r.Of != nil && len(r.Of) > 0 {
			return nil, fmt.Errorf("unlock conditions with uncompacted keys")
		}
		for _, v := range r.Keys {
			if v < 0 || v/10 > 2 || v%10 >= nKeys {
				return nil, fmt.Errorf("bad compact key %d", v)
			}
			n.Keys = append(n.Keys, ukey{Alg: v / 10, ID: v % 10})
		}
	default:
		return nil, fmt.Errorf("unknown policy kind %q", r.K)
	}
	return n, nil
}

func sizesConf(full bool, stride, offset int) string {
	f := 0
	if full {
		f = 1
	}
	return fmt.Sprintf("SPECIFICATION Spec\nCONSTANTS\n  Full = %d\n  Stride = %d\n  Offset = %d\n  ChunkSize = 6\nINVARIANT Agree\nCHECK_DEADLOCK FALSE\n", f, stride, offset)
}

// runSizesTLC has TLC generate the shapes of the tier.
func runSizesTLC(c *vlib.Ctx, workers int) (*sizesHead, []*sizeShape, error) {
	stride := 8
	offset := int(c.Seed % int64(stride))
	if offset < 0 {
		offset = -offset
	}
	res, err := c.TLC(vlib.TLCOpts{SpecDirs: []string{"policy"}, Module: "PolicySizes", ConfText: sizesConf(c.Thorough, stride, offset),
		Workers: workers, Timeout: 14 * time.Minute, Xss: "64m"})
	if err != nil {
		return nil, nil, err
	}
	if res.Violated != "" {
		for _, ln := range res.Lines {
			if strings.HasPrefix(ln, "DISAGREE ") {
				return nil, nil, fmt.Errorf("model-internal failure in PolicySizes: the readings of the specification disagree on %s", ln[9:])
			}
		}
		return nil, nil, fmt.Errorf("model-internal failure in PolicySizes (%s): %s", res.Violated, vlib.Tail(res.Out, 1500))
	}
	var head *sizesHead
	var shapes []*sizeShape
	for _, ln := range res.Lines {
		switch {
		case strings.HasPrefix(ln, "SIZES "):
			if head == nil {
				head = &sizesHead{}
				if err := json.Unmarshal([]byte(vlib.UnquoteTLA(ln[6:])), head); err != nil {
					return nil, nil, fmt.Errorf("SIZES line: %v", err)
				}
			}
		case strings.HasPrefix(ln, "SZ "):
			sh := &sizeShape{}
			if err := json.Unmarshal([]byte(vlib.UnquoteTLA(ln[3:])), sh); err != nil {
				return nil, nil, fmt.Errorf("SZ line: %v: %.200s", err, ln)
			}
			n, err := nodeFromTLA(sh.P)
			if err != nil {
				return nil, nil, fmt.Errorf("SZ line: policy: %v: %.200s", err, ln)
			}
			sh.n, sh.P = n, nil
			shapes = append(shapes, sh)
		case strings.HasPrefix(ln, "DISAGREE "):
			return nil, nil, fmt.Errorf("the readings of the specification disagree on %s", ln[9:])
		}
	}
	if head == nil || len(head.Sizes) == 0 {
		return nil, nil, fmt.Errorf("PolicySizes printed no size set")
	}
	if len(shapes) != head.NItems {
		return nil, nil, fmt.Errorf("PolicySizes: %d shapes printed, %d announced", len(shapes), head.NItems)
	}
	if want := int64(1 + (head.NItems+5)/6 + head.NItems); res.Distinct != want {
		return nil, nil, fmt.Errorf("PolicySizes: %d states, expected %d (space not fully walked)", res.Distinct, want)
	}
	for _, sh := range shapes {
		for _, cs := range sh.Cases {
			if !cs.OK {
				return nil, nil, fmt.Errorf("PolicySizes: case %s of %v not confirmed by the specification itself", cs.V, sh.D)
			}
		}
	}
	return head, shapes, nil
}

func lenBucket(n int) string {
	switch {
	case n == 0:
		return "0"
	case n <= 255:
		return "1..255"
	case n <= 1024:
		return "256..1024"
	}
	return ">1024"
}

type sizeStats struct {
	mu        sync.Mutex
	cases     int64
	acc, rej  int64
	ucKeys    map[string]*[2]int64 // number of listed keys -> executed cases the specification accepts / rejects
	ucReq     map[string]*[2]int64 // required count relative to the key list
	sigLen    map[string]*[2]int64 // length of the signature list
	preLen    map[string]*[2]int64
	treeTotal map[string]*[2]int64
	flatWidth map[string]*[2]int64
	variant   map[string]*[2]int64
	consSig   map[string]*[2]int64 // ValidateV2Transaction by length of the signature list
	consCases int64
}

func reqLabel(d sizeDesc) string {
	switch d.M {
	case 0:
		return "0"
	case 1:
		return "1"
	case d.N - 1:
		return "n-1"
	case d.N:
		return "n"
	case d.N + 1:
		return "n+1"
	}
	return "limit<n"
}

func (s *sizeStats) count(sh *sizeShape, cs sizeCase) {
	s.mu.Lock()
	defer s.mu.Unlock()
	s.cases++
	if cs.Want {
		s.acc++
	} else {
		s.rej++
	}
	switch sh.D.Fam {
	case "uc":
		bump(s.ucKeys, fmt.Sprint(sh.D.N), cs.Want, 1)
		bump(s.ucReq, reqLabel(sh.D), cs.Want, 1)
	case "flat":
		bump(s.flatWidth, fmt.Sprint(sh.D.N), cs.Want, 1)
	case "total":
		bump(s.treeTotal, fmt.Sprint(sh.Nodes), cs.Want, 1)
	}
	bump(s.sigLen, lenBucket(len(cs.Sigs)), cs.Want, 1)
	bump(s.preLen, lenBucket(len(cs.Pres)), cs.Want, 1)
	bump(s.variant, cs.V, cs.Want, 1)
}

// sizeFamily runs the family; it is called concurrently with the other families.
func sizeFamily(c *vlib.Ctx, envs []*env, seed int64) {
	t0 := time.Now()
	head, shapes, err := runSizesTLC(c, c.Pick(4, 6))
	if err != nil {
		c.Infra("size family: %v", err)
		return
	}
	tlcSec := time.Since(t0).Seconds()
	if os.Getenv("VERIF_C14_CORRUPT") == "size" && len(shapes) > 20 {
		// binding demonstration: one expected verdict of one TLC case is flipped; the replay must notice
		shapes[20].Cases[0].Want = !shapes[20].Cases[0].Want
	}
	t0 = time.Now()
	st := &sizeStats{ucKeys: map[string]*[2]int64{}, ucReq: map[string]*[2]int64{}, sigLen: map[string]*[2]int64{}, preLen: map[string]*[2]int64{},
		treeTotal: map[string]*[2]int64{}, flatWidth: map[string]*[2]int64{}, variant: map[string]*[2]int64{}, consSig: map[string]*[2]int64{}}
	type job struct {
		sh *sizeShape
		ci int
		id int
	}
	var jobs []job
	for _, sh := range shapes {
		if !inRange(sh.n) {
			c.Infra("size family: height outside the mapped range in %v", sh.D)
			return
		}
		for ci := range sh.Cases {
			jobs = append(jobs, job{sh, ci, len(jobs)})
		}
	}
	workers := runtime.NumCPU() / 2
	if workers < 2 {
		workers = 2
	}
	var wg sync.WaitGroup
	next := atomic.Int64{}
	for w := 0; w < workers; w++ {
		wg.Add(1)
		go func() {
			defer wg.Done()
			for {
				ji := int(next.Add(1)) - 1
				if ji >= len(jobs) || c.NViolations() >= 12 {
					return
				}
				j := jobs[ji]
				sizeVerify(c, envs, head, j.sh, j.sh.Cases[j.ci], rand.New(rand.NewSource(seed*104729+int64(j.id))), st)
			}
		}()
	}
	wg.Wait()
	verifySec := time.Since(t0).Seconds()
	t0 = time.Now()
	if c.NViolations() < 12 {
		sizeConsensus(c, head, shapes, rand.New(rand.NewSource(seed*15485863+11)), st, workers)
	}
	c.Traces(int64(len(shapes)))
	c.Count(st.cases+st.consCases, st.cases)
	c.Cov("size_set", head.Sizes)
	c.Cov("size_shapes", map[string]int{"checked": head.NItems, "always_checked": head.Essential, "others_in_space": head.Rest})
	c.Cov("size_cases", map[string]int64{"executed": st.cases, "specification_accepts": st.acc, "specification_rejects": st.rej})
	c.Cov("size_uc_listed_keys_accepted_rejected", st.ucKeys)
	c.Cov("size_uc_required_accepted_rejected", st.ucReq)
	c.Cov("size_signature_list_length_accepted_rejected", st.sigLen)
	c.Cov("size_preimage_list_length_accepted_rejected", st.preLen)
	c.Cov("size_tree_sub_policies_accepted_rejected", st.treeTotal)
	c.Cov("size_threshold_width_accepted_rejected", st.flatWidth)
	c.Cov("size_witness_variant_accepted_rejected", st.variant)
	c.Cov("size_consensus_cases", st.consCases)
	c.Cov("size_consensus_signature_list_length_accepted_rejected", st.consSig)
	c.Cov("size_phase_seconds", map[string]float64{"tlc": tlcSec, "verify": verifySec, "consensus": time.Since(t0).Seconds()})
	if c.NViolations() > 0 {
		return
	}
	// vacuity: every size of the set as a number of listed keys, with a case the specification
	// accepts and one it rejects; witness lists beyond every limit accepted and rejected; every
	// relation of the required count; the tree totals and widths from both sides of their limits
	need := func(what string, m map[string]*[2]int64, k string, acc, rej bool) {
		v := m[k]
		if v == nil {
			v = &[2]int64{}
		}
		if (acc && v[0] == 0) || (rej && v[1] == 0) {
			c.Infra("vacuity: size family: %s %s executed with %d cases the specification accepts and %d it rejects", what, k, v[0], v[1])
		}
	}
	for _, s := range head.Sizes {
		need("unlock conditions listing keys:", st.ucKeys, fmt.Sprint(s), true, true)
	}
	for _, k := range []string{"0", "1", "n-1", "n", "limit<n"} {
		need("signatures required:", st.ucReq, k, true, true)
	}
	need("signatures required:", st.ucReq, "n+1", false, true)
	for _, k := range []string{"0", "1..255", "256..1024", ">1024"} {
		need("signature list of length", st.sigLen, k, true, true)
		need("ValidateV2Transaction with a signature list of length", st.consSig, k, true, k != "0")
	}
	for _, k := range []string{"0", "1..255", "256..1024"} {
		need("preimage list of length", st.preLen, k, true, true)
	}
	need("tree of sub-policies:", st.treeTotal, "1023", true, true)
	need("tree of sub-policies:", st.treeTotal, "1024", true, true)
	need("tree of sub-policies:", st.treeTotal, "1025", false, true)
	need("tree of sub-policies:", st.treeTotal, "2049", false, true)
	if c.Thorough {
		need("threshold of width", st.flatWidth, "254", true, true)
	}
	need("threshold of width", st.flatWidth, "255", true, true)
	need("threshold of width", st.flatWidth, "256", false, true)
	for _, k := range []string{"exact", "sig-long", "sig-short", "sig-first-wrong", "sig-last-wrong", "pre-long"} {
		need("witness variant", st.variant, k, k == "exact", k != "exact")
	}
}

// sizeVerify runs one case on the real Verify, codec and Address.
func sizeVerify(c *vlib.Ctx, envs []*env, head *sizesHead, sh *sizeShape, cs sizeCase, r *rand.Rand, st *sizeStats) {
	env, inst := pickEnvInst(sh.n, r)
	g := []int{r.Intn(64), r.Intn(64), r.Intn(64), r.Intn(64), r.Intn(64), r.Intn(64)}
	l := &traceLine{n: sh.n, h: head.H, t: head.T, sigs: cs.Sigs, pres: cs.Pres, garb: g, env: env, inst: inst, origin: "size-" + sh.Class, lite: cs.V != "exact"}
	vc := verifyCase{Kind: "verify", Policy: sh.n.String(), Env: env, H: head.H, T: head.T, Sigs: cs.Sigs, Pres: cs.Pres, Garb: g, Inst: inst, Want: cs.Want}
	what := fmt.Sprintf("%s %s/%s with n=%d m=%d x=%d y=%s (%d sub-policies), witness lists \"%s\": %d signatures, %d preimages",
		sh.Class, sh.D.Fam, sh.D.Kind, sh.D.N, sh.D.M, sh.D.X, numStr(sh.D.Y), sh.Nodes, cs.V, len(cs.Sigs), len(cs.Pres))
	hang, pan, detail := execLine(l, envs, 30*time.Second)
	switch {
	case hang:
		vc.Got = "no result within 30 s"
		c.Violation("size-hang:"+sh.Class, "Verify/encode/decode did not finish within 30 s on "+what, vc)
		return
	case pan:
		vc.Got = "panic: " + detail
		c.Violation("size-panic:"+sh.Class, "the real code panics ("+detail+") on "+what, vc)
		return
	case detail != "":
		vc.Got = detail
		c.Violation("size-codec-"+keyOf(detail)+":"+sh.Class, detail+": "+what, vc)
	}
	if l.v != cs.Want {
		again, errAgain, _ := vc.run(envs)
		if again != l.v {
			c.Infra("size case does not reproduce: %s", what)
			return
		}
		vc.Got, vc.Policy = "accepted", sh.n.String()
		dir := "accepts-unsatisfied"
		if !l.v {
			vc.Got, dir = "rejected: "+errAgain, "rejects-satisfied"
		}
		c.Violation("size-verify-"+dir+":"+sh.Class, fmt.Sprintf("%s: the specification says %v, SpendPolicy.Verify %s",
			what, map[bool]string{true: "satisfied", false: "not satisfied"}[cs.Want], vc.Got), vc)
		return
	}
	if sh.Enc && l.dec != sh.Dec {
		vc.Got = fmt.Sprintf("decoder accepts: %v", l.dec)
		c.Violation("size-decoder:"+sh.Class, fmt.Sprintf("%s: the specification says the encoding is decodable: %v, the decoder accepts: %v", what, sh.Dec, l.dec), vc)
		return
	}
	st.count(sh, cs)
}

// sizeConsensus spends an output locked by every shape with the exact witness lists and with one
// flawed list, through ValidateV2Transaction on a state at the model's height.
func sizeConsensus(c *vlib.Ctx, head *sizesHead, shapes []*sizeShape, r *rand.Rand, st *sizeStats, workers int) {
	fs, err := buildFundedSizes(shapes, head)
	if err != nil {
		c.Infra("size family: consensus path: %v", err)
		return
	}
	if ok, txt, _ := fs.spend(fs.control, nil, nil, nil); !ok {
		c.Infra("size family: consensus path: the control output cannot be spent: %s", txt)
		return
	}
	type job struct{ si, ci int }
	var jobs []job
	for si, sh := range shapes {
		flawed := []int{}
		for ci, cs := range sh.Cases {
			if cs.V == "exact" {
				jobs = append(jobs, job{si, ci})
			} else {
				flawed = append(flawed, ci)
			}
		}
		if len(flawed) > 0 {
			jobs = append(jobs, job{si, flawed[r.Intn(len(flawed))]})
		}
	}
	var wg sync.WaitGroup
	next := atomic.Int64{}
	gs := make([][]int, len(jobs))
	for i := range gs {
		gs[i] = []int{r.Intn(64), r.Intn(64), r.Intn(64), r.Intn(64), r.Intn(64), r.Intn(64)}
	}
	for w := 0; w < workers; w++ {
		wg.Add(1)
		go func() {
			defer wg.Done()
			for {
				ji := int(next.Add(1)) - 1
				if ji >= len(jobs) || c.NViolations() >= 12 {
					return
				}
				j := jobs[ji]
				sh, cs := shapes[j.si], shapes[j.si].Cases[j.ci]
				got, errText, pan := fs.spend(j.si, cs.Sigs, cs.Pres, gs[ji])
				if got == cs.Want && !pan {
					st.mu.Lock()
					st.consCases++
					bump(st.consSig, lenBucket(len(cs.Sigs)), cs.Want, 1)
					st.mu.Unlock()
					continue
				}
				cc := consCase{Kind: "consensus", Policy: sh.n.String(), H: head.H, T: head.T, Sigs: cs.Sigs, Pres: cs.Pres, Garb: gs[ji], Chain: uint64(head.H), Want: cs.Want, Got: "accepted"}
				dir := "accepts-unsatisfied"
				if !got {
					cc.Got, dir = "rejected: "+errText, "rejects-satisfied"
				}
				if pan {
					dir = "panic"
				}
				c.Violation("size-consensus-"+dir+":"+sh.Class,
					fmt.Sprintf("ValidateV2Transaction spending an output locked by %s %s/%s with n=%d m=%d x=%d (%d sub-policies), witness lists \"%s\": %d signatures, %d preimages: the specification says %v, the transaction is %s",
						sh.Class, sh.D.Fam, sh.D.Kind, sh.D.N, sh.D.M, sh.D.X, sh.Nodes, cs.V, len(cs.Sigs), len(cs.Pres),
						map[bool]string{true: "satisfied", false: "not satisfied"}[cs.Want], cc.Got), cc)
			}
		}()
	}
	wg.Wait()
}

// buildFundedSizes is buildFundedStateAt for the shapes of the size family (the policies are
// given as nodes; their terms are long).
func buildFundedSizes(shapes []*sizeShape, head *sizesHead) (*fundedState, error) {
	outs := make([]lockedOutput, len(shapes))
	for i, sh := range shapes {
		outs[i] = lockedOutput{sh.n.String(), head.H, head.T, 0}
	}
	// several shapes may be the same policy under different witness rotations: the index is not used
	return buildFundedStateAt(outs, uint64(head.H))
}
