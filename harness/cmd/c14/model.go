package main

// Model-level policies (the record shape of spec/policy/Policy.tla), the text
// form TLC prints them in, and their concretisation with real keys, real
// signatures, real SHA-256 preimages and real addresses.

import (
	"bytes"
	"crypto/sha256"
	"fmt"
	"math"
	"math/rand"
	"sort"
	"strconv"
	"strings"
	"time"

	"go.sia.tech/core/types"
)

// node is a policy of the model. Key ids, image ids, heights and times are the
// small integers of the specification.
type node struct {
	K    string  // above after pk hash opaque thresh uc
	A, B int     // see Policy.tla
	Of   []*node // thresh: children
	Keys []ukey  // uc: unlock keys
	Hid  *node   // opaque: the address term (a policy whose address is meant)
	// HidReal: Hid is the hidden policy itself (random trees); the opaque node is then built
	// with the real PolicyOpaque instead of the independently evaluated address term.
	HidReal bool
}

type ukey struct{ Alg, ID int } // Alg: 0 ed25519, 1 entropy, 2 other

// ---- text form: ab(10) af(1000) pk(0) h(1) op(<term>) th(n,[..]) uc(lock,m,[e0,n0,x0]) ----

type parser struct {
	s string
	i int
}

func (p *parser) fail(what string) {
	panic(fmt.Sprintf("policy term %q: %s at offset %d", p.s, what, p.i))
}
func (p *parser) eat(lit string) {
	if !strings.HasPrefix(p.s[p.i:], lit) {
		p.fail("expected " + lit)
	}
	p.i += len(lit)
}
func (p *parser) peek(lit string) bool { return strings.HasPrefix(p.s[p.i:], lit) }
func (p *parser) num() int {
	// value classes of Policy.tla: B = BIG, N = NEG
	if p.peek("B") {
		p.i++
		return bigVal
	}
	if p.peek("N") {
		p.i++
		return negVal
	}
	j := p.i
	for j < len(p.s) && (p.s[j] == '-' || (p.s[j] >= '0' && p.s[j] <= '9')) {
		j++
	}
	v, err := strconv.Atoi(p.s[p.i:j])
	if err != nil {
		p.fail("number")
	}
	p.i = j
	return v
}
func (p *parser) ident() string {
	j := p.i
	for j < len(p.s) && p.s[j] >= 'a' && p.s[j] <= 'z' {
		j++
	}
	id := p.s[p.i:j]
	p.i = j
	return id
}
func (p *parser) term() *node {
	id := p.ident()
	p.eat("(")
	n := &node{}
	switch id {
	case "ab":
		n.K, n.A = "above", p.num()
	case "af":
		n.K, n.A = "after", p.num()
	case "pk":
		n.K, n.A = "pk", p.num()
	case "h":
		n.K, n.A = "hash", p.num()
	case "op":
		n.K, n.Hid = "opaque", p.term()
	case "th":
		n.K, n.A = "thresh", p.num()
		p.eat(",[")
		for !p.peek("]") {
			if len(n.Of) > 0 {
				p.eat(",")
			}
			n.Of = append(n.Of, p.term())
		}
		p.eat("]")
	case "uc":
		n.K, n.A = "uc", p.num()
		p.eat(",")
		n.B = p.num()
		p.eat(",[")
		for !p.peek("]") {
			if len(n.Keys) > 0 {
				p.eat(",")
			}
			var k ukey
			switch p.s[p.i] {
			case 'e':
				k.Alg = 0
			case 'n':
				k.Alg = 1
			case 'x':
				k.Alg = 2
			default:
				p.fail("key")
			}
			p.i++
			k.ID = p.num()
			n.Keys = append(n.Keys, k)
		}
		p.eat("]")
	default:
		p.fail("unknown constructor " + id)
	}
	p.eat(")")
	return n
}

func parseTerm(s string) (n *node, err error) {
	defer func() {
		if r := recover(); r != nil {
			err = fmt.Errorf("%v", r)
		}
	}()
	p := &parser{s: s}
	n = p.term()
	if p.i != len(s) {
		p.fail("trailing text")
	}
	return n, nil
}

func numStr(v int) string {
	switch v {
	case bigVal:
		return "B"
	case negVal:
		return "N"
	}
	return strconv.Itoa(v)
}

// String prints the term form (the inverse of parseTerm).
func (n *node) String() string {
	switch n.K {
	case "above":
		return "ab(" + numStr(n.A) + ")"
	case "after":
		return "af(" + numStr(n.A) + ")"
	case "pk":
		return fmt.Sprintf("pk(%d)", n.A)
	case "hash":
		return fmt.Sprintf("h(%d)", n.A)
	case "opaque":
		return "op(" + n.Hid.String() + ")"
	case "thresh":
		parts := make([]string, len(n.Of))
		for i, c := range n.Of {
			parts[i] = c.String()
		}
		return fmt.Sprintf("th(%d,[%s])", n.A, strings.Join(parts, ","))
	case "uc":
		parts := make([]string, len(n.Keys))
		for i, k := range n.Keys {
			parts[i] = string("enx"[k.Alg]) + strconv.Itoa(k.ID)
		}
		return fmt.Sprintf("uc(%s,%s,[%s])", numStr(n.A), numStr(n.B), strings.Join(parts, ","))
	}
	return "?"
}

// shape is the term with the payload of opaque nodes erased (the meaning of a
// policy does not depend on what an opaque node hides).
func (n *node) shape() string {
	switch n.K {
	case "opaque":
		return "op"
	case "thresh":
		parts := make([]string, len(n.Of))
		for i, c := range n.Of {
			parts[i] = c.shape()
		}
		return fmt.Sprintf("th(%d,[%s])", n.A, strings.Join(parts, ","))
	}
	return n.String()
}

// kinds adds the constructor kinds occurring in n (not looking below opaque nodes).
func (n *node) kinds(m map[string]bool) {
	m[n.K] = true
	for _, c := range n.Of {
		c.kinds(m)
	}
}

// tla is the JSON value PolicyTrace.tla reads as a policy record.
func (n *node) tla() map[string]any {
	r := map[string]any{"k": n.K, "a": n.A, "b": n.B, "of": []any{}, "ad": ""}
	switch n.K {
	case "thresh":
		of := make([]any, len(n.Of))
		for i, c := range n.Of {
			of[i] = c.tla()
		}
		r["of"] = of
	case "uc":
		of := make([]any, len(n.Keys))
		for i, k := range n.Keys {
			of[i] = map[string]any{"k": "key", "a": k.Alg, "b": k.ID, "of": []any{}, "ad": ""}
		}
		r["of"] = of
	case "opaque":
		r["ad"] = "hidden"
	}
	return r
}

// ---- concretisation --------------------------------------------------------

const nKeys, nImages = 6, 6

// maxModelHeight is the largest height of the model (the largest base maps it to 2^64-1).
const maxModelHeight = 12

// maxModelTime is the largest time of the model (times are 0 and T0-2..T0+3, T0 = 1000).
const maxModelTime = 1010

// The value classes of Policy.tla (parameters beyond TLC's integers) and their members. The
// tables are compared with the mapping the specification prints (WIT line); the verdict for a
// class always comes from TLC, the harness only instantiates every member.
const (
	bigVal = 1000000000  // BIG
	negVal = -1000000000 // NEG
)

var bigU64 = []uint64{1 << 31, 1 << 32, 1<<63 - 1, 1 << 63, math.MaxUint64}

// secondsToInternal: time.Time counts seconds from year 1; time.Unix(s) wraps for s > MaxInt64 - this
const unixToInternal = 62135596800

var bigI64 = []int64{1 << 31, 1 << 32, math.MaxInt64 - unixToInternal, math.MaxInt64 - unixToInternal + 1, math.MaxInt64}
var negI64 = []int64{math.MinInt64, math.MinInt64 + 1, -unixToInternal - 1, -(1 << 32), -1}

const nInst = 5

var u64Names = map[uint64]string{1 << 31: "2^31", 1 << 32: "2^32", 1<<63 - 1: "2^63-1", 1 << 63: "2^63", math.MaxUint64: "2^64-1"}
var i64Names = map[int64]string{1 << 31: "2^31", 1 << 32: "2^32", math.MaxInt64 - unixToInternal: "2^63-1-62135596800", math.MaxInt64 - unixToInternal + 1: "2^63-62135596800",
	math.MaxInt64: "2^63-1", math.MinInt64: "-2^63", math.MinInt64 + 1: "-2^63+1", -unixToInternal - 1: "-62135596801", -(1 << 32): "-2^32", -1: "-1"}

// checkClassTables compares the tables above with the mapping printed by the specification.
func checkClassTables(bigu, bigt, negt []string) error {
	if len(bigu) != nInst || len(bigt) != nInst || len(negt) != nInst {
		return fmt.Errorf("the specification lists %d/%d/%d class members, the harness instantiates %d", len(bigu), len(bigt), len(negt), nInst)
	}
	for i := 0; i < nInst; i++ {
		if bigu[i] != strconv.FormatUint(bigU64[i], 10) || bigt[i] != strconv.FormatInt(bigI64[i], 10) || negt[i] != strconv.FormatInt(negI64[i], 10) {
			return fmt.Errorf("class member %d: specification %s %s %s, harness %d %d %d", i, bigu[i], bigt[i], negt[i], bigU64[i], bigI64[i], negI64[i])
		}
	}
	return nil
}

// classUse says which value classes occur in revealed (not opaque-hidden) positions of n and,
// separately, anywhere (an address term below an opaque node is instantiated as well).
type classUse struct{ bigH, bigT, negT, bigCount bool }

func (u classUse) any() bool { return u.bigH || u.bigT || u.negT || u.bigCount }

func (n *node) classes(u *classUse, below bool) {
	switch n.K {
	case "above":
		u.bigH = u.bigH || n.A == bigVal
	case "after":
		u.bigT = u.bigT || n.A == bigVal
		u.negT = u.negT || n.A == negVal
	case "uc":
		u.bigH = u.bigH || n.A == bigVal
		u.bigCount = u.bigCount || n.B == bigVal
	case "opaque":
		if below && n.Hid != nil {
			n.Hid.classes(u, below)
		}
	}
	for _, c := range n.Of {
		c.classes(u, below)
	}
}

// validInst reports whether member k of the classes used by n lies, in environment e, on the
// side of every mapped height and time of the model that the class promises.
func (e *env) validInst(n *node, k int) bool {
	var u classUse
	n.classes(&u, true)
	if u.bigH && (e.hBase+maxModelHeight < e.hBase || bigU64[k] <= e.hBase+maxModelHeight) {
		return false
	}
	if u.bigT && bigI64[k] <= e.time(maxModelTime).Unix()+1 {
		return false
	}
	if u.negT && negI64[k] >= e.time(0).Unix()-1 {
		return false
	}
	return true
}

// numLabels names the numeric extremes a policy exercises in revealed positions (for the
// vacuity guards): class members by value, and the directly representable boundary values.
func (e *env) numLabels(n *node, out map[string]bool) {
	switch n.K {
	case "above":
		if n.A == bigVal {
			out["above.h="+u64Names[bigU64[e.inst]]] = true
		} else if e.height(n.A) == 0 {
			out["above.h=0"] = true
		}
	case "after":
		if n.A == bigVal {
			out["after.t="+i64Names[bigI64[e.inst]]] = true
		} else if n.A == negVal {
			out["after.t="+i64Names[negI64[e.inst]]] = true
		}
	case "uc":
		if n.A == bigVal {
			out["uc.lock="+u64Names[bigU64[e.inst]]] = true
		} else if e.height(n.A) == 0 {
			out["uc.lock=0"] = true
		}
		switch {
		case n.B == bigVal:
			out["uc.sigs="+u64Names[bigU64[e.inst]]] = true
		case n.B == 0 || n.B == 255 || n.B == 256:
			out[fmt.Sprintf("uc.sigs=%d", n.B)] = true
		case n.B == len(n.Keys)+1:
			out["uc.sigs=len+1"] = true
		case n.B == len(n.Keys):
			out["uc.sigs=len"] = true
		}
		out[fmt.Sprintf("uc.keys=%d", min(len(n.Keys), 2))] = true
	case "thresh":
		switch {
		case n.A == 0 || n.A == 255:
			out[fmt.Sprintf("thresh.n=%d", n.A)] = true
		case n.A == len(n.Of)+1:
			out["thresh.n=len+1"] = true
		case n.A == len(n.Of):
			out["thresh.n=len"] = true
		}
		for _, c := range n.Of {
			e.numLabels(c, out)
		}
	}
}

// classKey is the coarse, stable name of the class members in revealed positions (used in
// violation keys): uint64 parameters below / from 2^63, times that fit time.Time / wrap / negative.
// which selects the classes that can be the reason of a wrong verdict: "accepts-unsatisfied" -
// only a parameter of class BIG makes a policy unsatisfied, so only those are named;
// "rejects-satisfied" - a satisfied policy has no revealed BIG parameter, only NEG times are
// named; anything else names all.
func (e *env) classKey(n *node, which string) string {
	all := e.classKeyAll(n)
	var parts []string
	for _, k := range all {
		neg := k == "after.t=negative"
		if (which == "accepts-unsatisfied" && neg) || (which == "rejects-satisfied" && !neg) {
			continue
		}
		parts = append(parts, k)
	}
	return strings.Join(parts, "+")
}

func (e *env) classKeyAll(n *node) []string {
	set := map[string]bool{}
	var walk func(n *node)
	u := func(v uint64) string {
		if v >= 1<<63 {
			return ">=2^63"
		}
		return "<2^63"
	}
	walk = func(n *node) {
		switch n.K {
		case "above":
			if n.A == bigVal {
				set["above.h"+u(bigU64[e.inst])] = true
			}
		case "after":
			if n.A == bigVal {
				if bigI64[e.inst] > math.MaxInt64-unixToInternal {
					set["after.t=wraps-time.Time"] = true
				} else {
					set["after.t=big"] = true
				}
			} else if n.A == negVal {
				set["after.t=negative"] = true
			}
		case "uc":
			if n.A == bigVal {
				set["uc.lock"+u(bigU64[e.inst])] = true
			}
			if n.B == bigVal {
				set["uc.sigs"+u(bigU64[e.inst])] = true
			}
		}
		for _, c := range n.Of {
			walk(c)
		}
	}
	walk(n)
	var parts []string
	for k := range set {
		parts = append(parts, k)
	}
	sort.Strings(parts)
	return parts
}

// inRange reports whether every height of n can be mapped by every environment.
func inRange(n *node) bool {
	if (n.K == "above" || n.K == "uc") && (n.A < 0 || n.A > maxModelHeight) && n.A != bigVal {
		return false
	}
	if n.K == "after" && (n.A < 0 || n.A > maxModelTime) && n.A != bigVal && n.A != negVal {
		return false
	}
	if n.Hid != nil && !inRange(n.Hid) {
		return false
	}
	for _, c := range n.Of {
		if !inRange(c) {
			return false
		}
	}
	return true
}

// env maps the integers of the model to real values. It is a function of its
// id only (so that a saved case can be rebuilt). Heights and times are mapped
// monotonically: real height = hBase + v, real time = tBase + v*tUnit.
type env struct {
	id      int
	keys    []types.PrivateKey
	pubs    []types.PublicKey
	pres    [][32]byte
	images  []types.Hash256
	sigHash types.Hash256
	hBase   uint64
	tBase   time.Time
	tUnit   time.Duration
	sigs    []types.Signature // sigs[i]: key i over sigHash
	garbSig []types.Signature // signatures valid for no key of the model over sigHash
	garbPre [][32]byte        // preimages of no image of the model
	entropy types.UnlockKey
	other   []types.UnlockKey
	inst    int // which member of the value classes BIG / NEG stands for (index into bigU64, bigI64, negI64)
}

// withInst is e with the value classes instantiated by their k-th members.
func (e *env) withInst(k int) *env {
	if k == e.inst {
		return e
	}
	c := *e
	c.inst = k
	return &c
}

var hBases = []uint64{0, 1<<32 - 10, 1<<63 - 10, math.MaxUint64 - maxModelHeight, 500000}
var tBases = []int64{1700000000, -1000, 1<<33 - 1000, 0, 1700000000}
var tUnits = []time.Duration{time.Second, time.Second, time.Second, time.Hour, time.Nanosecond}

const nEnvs = 5

func newEnv(id int) *env {
	r := rand.New(rand.NewSource(int64(1000003*id + 17)))
	e := &env{id: id, hBase: hBases[id%len(hBases)], tBase: time.Unix(tBases[id%len(tBases)], 0), tUnit: tUnits[id%len(tUnits)]}
	rb := func(n int) []byte { b := make([]byte, n); r.Read(b); return b }
	copy(e.sigHash[:], rb(32))
	for i := 0; i < nKeys+1; i++ { // key nKeys is never part of a policy
		sk := types.NewPrivateKeyFromSeed(rb(32))
		e.keys = append(e.keys, sk)
		e.pubs = append(e.pubs, sk.PublicKey())
		e.sigs = append(e.sigs, sk.SignHash(e.sigHash))
	}
	for i := 0; i < nImages; i++ {
		var p [32]byte
		copy(p[:], rb(32))
		e.pres = append(e.pres, p)
		e.images = append(e.images, types.Hash256(sha256.Sum256(p[:])))
	}
	// garbage signatures: random bytes, zero, a stranger's valid signature, a listed key over
	// another hash, a valid signature with one bit flipped in R and in S
	var rnd types.Signature
	copy(rnd[:], rb(64))
	other := e.sigHash
	other[7] ^= 1
	e.garbSig = []types.Signature{rnd, {}, e.sigs[nKeys], e.keys[0].SignHash(other), e.keys[1].SignHash(other)}
	for i := 0; i < 4; i++ {
		s := e.sigs[i%2]
		s[r.Intn(64)] ^= 1 << uint(r.Intn(8))
		e.garbSig = append(e.garbSig, s)
	}
	var rp, zp [32]byte
	copy(rp[:], rb(32))
	e.garbPre = [][32]byte{rp, zp}
	for i := 0; i < 3; i++ {
		p := e.pres[i%2]
		p[r.Intn(32)] ^= 1 << uint(r.Intn(8))
		e.garbPre = append(e.garbPre, p)
	}
	e.garbPre = append(e.garbPre, [32]byte(e.images[0])) // the image instead of the preimage
	e.entropy = types.UnlockKey{Algorithm: types.SpecifierEntropy, Key: rb(32)}
	for i := 0; i < 4; i++ {
		e.other = append(e.other, types.UnlockKey{Algorithm: types.NewSpecifier([]string{"other", "rsa", "ed448", ""}[i]), Key: rb(8 * i)})
	}
	return e
}

func (e *env) height(v int) uint64  { return e.hBase + uint64(v) }
func (e *env) time(v int) time.Time { return e.tBase.Add(time.Duration(v) * e.tUnit) }

// parameters of policies: a value class is replaced by its member e.inst
func (e *env) heightP(v int) uint64 {
	if v == bigVal {
		return bigU64[e.inst]
	}
	return e.height(v)
}
func (e *env) timeP(v int) time.Time {
	switch v {
	case bigVal:
		return time.Unix(bigI64[e.inst], 0)
	case negVal:
		return time.Unix(negI64[e.inst], 0)
	}
	return e.time(v)
}
func (e *env) countP(v int) uint64 {
	if v == bigVal {
		return bigU64[e.inst]
	}
	return uint64(v)
}

func (e *env) unlockKey(k ukey) types.UnlockKey {
	switch k.Alg {
	case 0:
		return e.pubs[k.ID].UnlockKey()
	case 1:
		return e.entropy
	}
	return e.other[k.ID%len(e.other)]
}

// addressOf evaluates an address term with the real hash functions, without going
// through SpendPolicy.Address: the term is the policy whose encoding is hashed
// (threshold children are already in opaque form); unlock conditions have their
// v1 unlock hash.
func (e *env) addressOf(t *node) types.Address {
	if t.K == "uc" {
		return types.UnlockConditions(e.policy(t).Type.(types.PolicyTypeUnlockConditions)).UnlockHash()
	}
	if t.K == "thresh" {
		for _, c := range t.Of {
			if c.K != "opaque" {
				panic("address term with a revealed child: " + t.String())
			}
		}
	}
	h := types.NewHasher()
	h.WriteDistinguisher("address")
	e.policy(t).EncodeTo(h.E)
	return types.Address(h.Sum())
}

// policy builds the real policy.
func (e *env) policy(n *node) types.SpendPolicy {
	switch n.K {
	case "above":
		return types.PolicyAbove(e.heightP(n.A))
	case "after":
		return types.PolicyAfter(e.timeP(n.A))
	case "pk":
		return types.PolicyPublicKey(e.pubs[n.A])
	case "hash":
		return types.PolicyHash(e.images[n.A])
	case "opaque":
		if n.HidReal {
			return types.PolicyOpaque(e.policy(n.Hid))
		}
		return types.SpendPolicy{Type: types.PolicyTypeOpaque(e.addressOf(n.Hid))}
	case "thresh":
		of := make([]types.SpendPolicy, len(n.Of))
		for i, c := range n.Of {
			of[i] = e.policy(c)
		}
		return types.PolicyThreshold(uint8(n.A), of)
	case "uc":
		uc := types.UnlockConditions{Timelock: e.heightP(n.A), SignaturesRequired: e.countP(n.B)}
		for _, k := range n.Keys {
			uc.PublicKeys = append(uc.PublicKeys, e.unlockKey(k))
		}
		return types.SpendPolicy{Type: types.PolicyTypeUnlockConditions(uc)}
	}
	panic("unknown policy kind " + n.K)
}

// witness realises witness ids; g picks the garbage for the -1 entries.
func (e *env) witness(sigIDs, preIDs []int, g []int) (sigs []types.Signature, pres [][32]byte) {
	for i, s := range sigIDs {
		if s < 0 {
			sigs = append(sigs, e.garbSig[g[i%len(g)]%len(e.garbSig)])
		} else {
			sigs = append(sigs, e.sigs[s])
		}
	}
	for i, x := range preIDs {
		if x < 0 {
			pres = append(pres, e.garbPre[g[(i+3)%len(g)]%len(e.garbPre)])
		} else {
			pres = append(pres, e.pres[x])
		}
	}
	return
}

// sign is like witness for another signature hash (the consensus path signs the input hash
// of a transaction).
func (e *env) sign(h types.Hash256, sigIDs []int, g []int) (sigs []types.Signature) {
	var made [nKeys + 1]*types.Signature // ed25519 signing is deterministic: one signature per key
	for i, s := range sigIDs {
		if s < 0 {
			gs := e.garbSig[g[i%len(g)]%len(e.garbSig)]
			sigs = append(sigs, gs) // garbage for e.sigHash is garbage for h as well (h differs from both hashes)
		} else {
			if made[s] == nil {
				sig := e.keys[s].SignHash(h)
				made[s] = &sig
			}
			sigs = append(sigs, *made[s])
		}
	}
	return
}

func encodePolicy(p types.SpendPolicy) []byte {
	var buf bytes.Buffer
	enc := types.NewEncoder(&buf)
	p.EncodeTo(enc)
	enc.Flush()
	return buf.Bytes()
}

func decodePolicy(b []byte) (types.SpendPolicy, error) {
	d := types.NewBufDecoder(b)
	var p types.SpendPolicy
	p.DecodeFrom(d)
	return p, d.Err()
}

// markReal marks every opaque node as hiding a real policy (see node.HidReal).
func markReal(n *node) *node {
	if n.K == "opaque" {
		n.HidReal = true
		markReal(n.Hid)
	}
	for _, c := range n.Of {
		markReal(c)
	}
	return n
}

// reveal returns n with every opaque node that hides a real policy replaced by that policy.
func reveal(n *node) *node {
	if n.K == "opaque" && n.HidReal {
		return reveal(n.Hid)
	}
	if n.K != "thresh" {
		return n
	}
	m := *n
	m.Of = make([]*node, len(n.Of))
	for i, c := range n.Of {
		m.Of[i] = reveal(c)
	}
	return &m
}
