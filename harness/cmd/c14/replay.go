package main

// Direction A: the rows TLC printed (policy, context, set of accepted witness
// assignments according to Meaning) are replayed on the real SpendPolicy.Verify
// and SpendPolicy.Address.

import (
	"bytes"
	"encoding/json"
	"fmt"
	"math/rand"
	"runtime"
	"strings"
	"sync"
	"sync/atomic"
	"time"

	"go.sia.tech/core/types"
	"verif/harness/vlib"
)

type ctxRow struct {
	C   int   `json:"c"`   // index into witJSON.Ctxs, 1-based
	Acc []int `json:"acc"` // accepted witness numbers
}

type rowJSON struct {
	P    string   `json:"p"`
	Ad   string   `json:"ad"`
	Rows []ctxRow `json:"rows"`
	Hid  []string `json:"hid"`
}

type witJSON struct {
	Sigs   [][]int `json:"sigs"`
	Pres   [][]int `json:"pres"`
	Ctxs   []struct{ H, T int }
	NPols  int      `json:"npols"`
	NItems int      `json:"nitems"`
	BigU   []string `json:"bigu"` // members of the value classes (Policy.tla: BigU64, BigI64, NegI64)
	BigT   []string `json:"bigt"`
	NegT   []string `json:"negt"`
}

// space is the output of one TLC run of PolicyMC.
type space struct {
	name    string
	numeric bool // the family "num": parameters at the extremes of their machine types
	wit  witJSON
	rows []rowJSON
}

func parseSpace(name string, res *vlib.TLCResult) (*space, error) {
	sp := &space{name: name}
	gotWit := false
	for _, ln := range res.Lines {
		switch {
		case strings.HasPrefix(ln, "WIT "):
			if gotWit {
				continue
			}
			if err := json.Unmarshal([]byte(vlib.UnquoteTLA(ln[4:])), &sp.wit); err != nil {
				return nil, fmt.Errorf("WIT line: %v", err)
			}
			gotWit = true
		case strings.HasPrefix(ln, "ROW "):
			var r rowJSON
			if err := json.Unmarshal([]byte(vlib.UnquoteTLA(ln[4:])), &r); err != nil {
				return nil, fmt.Errorf("ROW line: %v: %.200s", err, ln)
			}
			sp.rows = append(sp.rows, r)
		case strings.HasPrefix(ln, "DISAGREE "):
			return nil, fmt.Errorf("specification disagrees with itself on %s", ln[9:])
		}
	}
	if !gotWit || len(sp.wit.Sigs) == 0 || len(sp.wit.Pres) == 0 || len(sp.wit.Ctxs) == 0 {
		return nil, fmt.Errorf("no witness alphabet printed")
	}
	if err := checkClassTables(sp.wit.BigU, sp.wit.BigT, sp.wit.NegT); err != nil {
		return nil, err
	}
	if len(sp.rows) != sp.wit.NItems {
		return nil, fmt.Errorf("%d rows printed, %d items announced", len(sp.rows), sp.wit.NItems)
	}
	return sp, nil
}

// stats are the coverage counters of the replay (guarded for vacuity at the end).
type stats struct {
	mu            sync.Mutex
	cases         int64 // Verify executions compared with a TLC verdict
	accepts       int64
	rejects       int64
	rowsReplayed  int64 // (policy, context) rows
	nontrivial    int64
	acceptKind    map[string]int64 // accepted cases by constructor kind occurring in the policy
	rejectKind    map[string]int64
	rootKind      map[string]int64 // rows by root constructor
	opaqueRows    int64            // rows whose policy has an opaque node
	ucRows        int64
	ucAccepts     int64
	ucOtherAccept int64 // uc accepted with a garbage signature on a key of unknown algorithm
	addrTerm      int64 // address compared with the independently evaluated address term
	addrVariants  int64 // address compared between a policy and an opaque-substituted variant
	hidVariants   int64 // variants with a needed branch hidden
	hidRejects    int64 // Verify executions on such variants (all must reject)
	ctxUsed       map[int]int64
	envUsed       map[int]int64
	lockFlip      int64 // policies whose accept set differs between two contexts
	samples       int
	// numeric extremes (numLabels) -> executed Verify cases [accepted, rejected], all agreeing with TLC
	num         map[string]*[2]int64
	numCases    int64 // Verify executions on policies with an instantiated value class
	numReplays  int64 // (policy, context, environment, class member) replays of rows of the numeric family
	consNum     map[string]*[2]int64
	consNumRows int64
}

func bump(m map[string]*[2]int64, k string, acc bool, n int64) {
	v := m[k]
	if v == nil {
		v = &[2]int64{}
		m[k] = v
	}
	if acc {
		v[0] += n
	} else {
		v[1] += n
	}
}

func newStats() *stats {
	return &stats{acceptKind: map[string]int64{}, rejectKind: map[string]int64{}, rootKind: map[string]int64{}, ctxUsed: map[int]int64{}, envUsed: map[int]int64{},
		num: map[string]*[2]int64{}, consNum: map[string]*[2]int64{}}
}

// the case a worker is executing (for the watchdog)
type inflight struct {
	since atomic.Int64
	desc  atomic.Value
}

// verifyCase is the replayable description of one Verify execution.
type verifyCase struct {
	Kind   string `json:"kind"` // "verify"
	Policy string `json:"policy_term"`
	Env    int    `json:"env"`
	H      int    `json:"h"`
	T      int    `json:"t"`
	Sigs   []int  `json:"sigs"`
	Pres   []int  `json:"pres"`
	Garb   []int  `json:"garbage"`
	Inst   int    `json:"class_member"` // which member of BIG / NEG (B, N in the term) was instantiated
	Want   bool   `json:"spec_accepts"`
	Got    string `json:"real_result"`
	Real   string `json:"real_policy,omitempty"`
	Height uint64 `json:"real_height"`
	Time   string `json:"real_median_time"`
}

// runVerify executes the real Verify; a panic is reported as panicked.
func runVerify(p types.SpendPolicy, h uint64, t time.Time, sh types.Hash256, sigs []types.Signature, pres [][32]byte) (ok bool, errText string, panicked bool) {
	var err error
	pan, val := vlib.Recover(func() { err = p.Verify(h, t, sh, sigs, pres) })
	if pan {
		return false, fmt.Sprint("panic: ", val), true
	}
	if err != nil {
		return false, err.Error(), false
	}
	return true, "", false
}

func (vc *verifyCase) run(envs []*env) (ok bool, errText string, panicked bool) {
	if vc.Env < 0 || vc.Env >= len(envs) || vc.Inst < 0 || vc.Inst >= nInst {
		return false, "bad environment or class member", true
	}
	e := envs[vc.Env].withInst(vc.Inst)
	n, err := parseTerm(vc.Policy)
	if err != nil {
		return false, err.Error(), true
	}
	pol := e.policy(n)
	sigs, pres := e.witness(vc.Sigs, vc.Pres, vc.Garb)
	vc.Real, vc.Height, vc.Time = pol.String(), e.height(vc.H), e.time(vc.T).UTC().Format(time.RFC3339Nano)
	return runVerify(pol, e.height(vc.H), e.time(vc.T), e.sigHash, sigs, pres)
}

func rootClass(n *node) string {
	if n.K != "thresh" {
		return n.K
	}
	m := map[string]bool{}
	for _, c := range n.Of {
		c.kinds(m)
	}
	switch {
	case m["uc"]:
		return "thresh-with-uc"
	case m["thresh"]:
		return "thresh-nested"
	case m["opaque"]:
		return "thresh-with-opaque"
	}
	return "thresh-flat"
}

// editNeighbours: indices of the sequences within one insertion, deletion or substitution of seqs[i].
func editNeighbours(seqs [][]int) [][]int {
	key := func(s []int) string { return fmt.Sprint(s) }
	idx := map[string]int{}
	for i, s := range seqs {
		idx[key(s)] = i
	}
	alphabet := map[int]bool{}
	for _, s := range seqs {
		for _, x := range s {
			alphabet[x] = true
		}
	}
	out := make([][]int, len(seqs))
	for i, s := range seqs {
		seen := map[int]bool{i: true}
		add := func(t []int) {
			if j, ok := idx[key(t)]; ok && !seen[j] {
				seen[j] = true
				out[i] = append(out[i], j)
			}
		}
		for p := 0; p <= len(s); p++ {
			for a := range alphabet { // insertion
				t := append(append(append([]int{}, s[:p]...), a), s[p:]...)
				add(t)
			}
			if p < len(s) {
				add(append(append([]int{}, s[:p]...), s[p+1:]...)) // deletion
				for a := range alphabet {                          // substitution
					t := append([]int{}, s...)
					t[p] = a
					add(t)
				}
			}
		}
	}
	return out
}

// replaySpace runs every row of sp on the real code.
func replaySpace(c *vlib.Ctx, sp *space, envs []*env, st *stats, seed int64) {
	ns, np := len(sp.wit.Sigs), len(sp.wit.Pres)
	nw := ns * np
	nbS, nbP := editNeighbours(sp.wit.Sigs), editNeighbours(sp.wit.Pres)
	workers := runtime.NumCPU() / 2
	if workers < 2 {
		workers = 2
	}
	fl := make([]inflight, workers)
	stop := make(chan struct{})
	go func() { // watchdog: a Verify call that does not return is a violation of "reject rather than hang"
		tk := time.NewTicker(time.Second)
		defer tk.Stop()
		for {
			select {
			case <-stop:
				return
			case <-tk.C:
				now := time.Now().UnixNano()
				for i := range fl {
					if s := fl[i].since.Load(); s != 0 && now-s > int64(20*time.Second) && stillHangs(func() bool { return fl[i].since.Load() != s }) {
						d, _ := fl[i].desc.Load().(verifyCase)
						c.Violation("verify-hang", "SpendPolicy.Verify did not return within 20 s", d)
						c.Finish()
					}
				}
			}
		}
	}()
	var wg sync.WaitGroup
	next := atomic.Int64{}
	for wk := 0; wk < workers; wk++ {
		wg.Add(1)
		go func(wk int) {
			defer wg.Done()
			loc := newStats()
			for {
				ri := int(next.Add(1)) - 1
				if ri >= len(sp.rows) || c.NViolations() >= 12 {
					break
				}
				replayRow(c, sp, ri, envs, loc, &fl[wk], rand.New(rand.NewSource(seed*7919+int64(ri))), nw, np, nbS, nbP)
			}
			st.merge(loc)
		}(wk)
	}
	wg.Wait()
	close(stop)
}

func (st *stats) merge(o *stats) {
	st.mu.Lock()
	defer st.mu.Unlock()
	st.cases += o.cases
	st.accepts += o.accepts
	st.rejects += o.rejects
	st.rowsReplayed += o.rowsReplayed
	st.nontrivial += o.nontrivial
	st.opaqueRows += o.opaqueRows
	st.ucRows += o.ucRows
	st.ucAccepts += o.ucAccepts
	st.ucOtherAccept += o.ucOtherAccept
	st.addrTerm += o.addrTerm
	st.addrVariants += o.addrVariants
	st.hidVariants += o.hidVariants
	st.hidRejects += o.hidRejects
	st.lockFlip += o.lockFlip
	for k, v := range o.acceptKind {
		st.acceptKind[k] += v
	}
	for k, v := range o.rejectKind {
		st.rejectKind[k] += v
	}
	for k, v := range o.rootKind {
		st.rootKind[k] += v
	}
	for k, v := range o.ctxUsed {
		st.ctxUsed[k] += v
	}
	for k, v := range o.envUsed {
		st.envUsed[k] += v
	}
	st.numCases += o.numCases
	st.numReplays += o.numReplays
	for k, v := range o.num {
		bump(st.num, k, true, v[0])
		bump(st.num, k, false, v[1])
	}
}

// combo is one concretisation of a row: an environment with the value classes instantiated.
type combo struct {
	e       *env
	primary bool // first concretisation of the row (row-level statistics are counted once)
	newInst bool // first environment for this class member (distinct concrete policy)
}

// rowCombos: ordinary rows are replayed in one random environment. Rows of the numeric family are
// replayed in environment 0 (heights and counts of the model ARE the real ones: 0 is 0) and in one
// other environment; if the policy has parameters of a value class, once for EVERY member of the
// class that is valid in the environment (environment 0 takes all of them).
func rowCombos(sp *space, n, adTerm *node, envs []*env, r *rand.Rand) []combo {
	if !sp.numeric {
		return []combo{{envs[r.Intn(len(envs))], true, true}}
	}
	es := []*env{envs[0], envs[1+r.Intn(len(envs)-1)]}
	var u classUse
	n.classes(&u, true)
	adTerm.classes(&u, true)
	var out []combo
	seen := map[int]bool{}
	for _, e := range es {
		for k := 0; k < nInst; k++ {
			if !u.any() && k > 0 {
				break
			}
			if u.any() && !(e.validInst(n, k) && e.validInst(adTerm, k)) {
				continue
			}
			out = append(out, combo{e.withInst(k), len(out) == 0, !seen[k]})
			seen[k] = true
		}
	}
	return out
}

func replayRow(c *vlib.Ctx, sp *space, ri int, envs []*env, st *stats, fl *inflight, r *rand.Rand, nw, np int, nbS, nbP [][]int) {
	row := sp.rows[ri]
	n, err := parseTerm(row.P)
	if err != nil {
		c.Infra("row %d of %s: %v", ri, sp.name, err)
		return
	}
	adTerm, err := parseTerm(row.Ad)
	if err != nil {
		c.Infra("row %d of %s: address term: %v", ri, sp.name, err)
		return
	}
	if !inRange(n) {
		c.Infra("row %d of %s: height outside the mapped range: %s", ri, sp.name, row.P)
		return
	}
	var u classUse
	n.classes(&u, true)
	if u.any() && !sp.numeric {
		c.Infra("row %d of %s: value class outside the numeric family: %s", ri, sp.name, row.P)
		return
	}
	combos := rowCombos(sp, n, adTerm, envs, r)
	if u.any() && len(combos) < nInst {
		c.Infra("row %d of %s: only %d concretisations of %s", ri, sp.name, len(combos), row.P)
		return
	}
	for _, cb := range combos {
		replayRowIn(c, sp, ri, n, adTerm, envs, cb, st, fl, r, nw, np, nbS, nbP)
	}
}

func replayRowIn(c *vlib.Ctx, sp *space, ri int, n, adTerm *node, envs []*env, cb combo, st *stats, fl *inflight, r *rand.Rand, nw, np int, nbS, nbP [][]int) {
	row := sp.rows[ri]
	e := cb.e
	kinds := map[string]bool{}
	n.kinds(kinds)
	var revealed classUse
	n.classes(&revealed, false)
	classKey := ""
	if revealed.any() {
		classKey = e.classKey(n, "")
	}
	labels := map[string]bool{}
	if sp.numeric {
		e.numLabels(n, labels)
	}
	if cb.primary {
		st.envUsed[e.id]++
		st.rootKind[rootClass(n)]++
		if kinds["opaque"] {
			st.opaqueRows++
		}
		if n.K == "uc" {
			st.ucRows++
		}
	}
	var pol types.SpendPolicy
	if pan, val := vlib.Recover(func() { pol = e.policy(n) }); pan {
		c.Infra("row %d of %s: cannot build %s: %v", ri, sp.name, row.P, val)
		return
	}

	// ---- address: independent evaluation of the address term, opaque variants ----
	var addr types.Address
	if pan, val := vlib.Recover(func() { addr = pol.Address() }); pan {
		c.Violation("address-panic", fmt.Sprintf("Address() of %s panics: %v", row.P, val), map[string]any{"kind": "address", "policy_term": row.P, "env": e.id})
		return
	}
	if want := e.addressOf(adTerm); addr != want {
		c.Violation("address-term:"+rootClass(n), fmt.Sprintf("Address() of %s is %v, the address term %s evaluates to %v", row.P, addr, row.Ad, want),
			map[string]any{"kind": "address", "policy_term": row.P, "address_term": row.Ad, "env": e.id, "real_policy": pol.String()})
	}
	st.addrTerm++
	if th, ok := pol.Type.(types.PolicyTypeThreshold); ok && len(th.Of) <= 6 {
		for mask := 1; mask < 1<<len(th.Of); mask++ {
			of := append([]types.SpendPolicy(nil), th.Of...)
			for i := range of {
				if mask&(1<<i) != 0 {
					of[i] = types.PolicyOpaque(of[i])
				}
			}
			v := types.PolicyThreshold(th.N, of)
			if a := v.Address(); a != addr {
				c.Violation("address-opaque-variant", fmt.Sprintf("Address() of %s changes when children %b are made opaque: %v vs %v", row.P, mask, addr, a),
					map[string]any{"kind": "address-variant", "policy_term": row.P, "mask": mask, "env": e.id, "real_policy": pol.String(), "variant": v.String()})
			}
			st.addrVariants++
		}
	}

	// ---- parameters at machine size: the policy that comes back from its wire form is the same policy ----
	var back *types.SpendPolicy
	if revealed.any() && e.tUnit >= time.Second {
		enc := encodePolicy(pol)
		if b, err := decodePolicy(enc); err != nil || !bytes.Equal(encodePolicy(b), enc) || b.Address() != addr {
			c.Violation("num-codec:"+classKey, fmt.Sprintf("policy %s = %s does not survive its wire form (decode error %v)", row.P, pol.String(), err),
				map[string]any{"kind": "codec", "policy_term": row.P, "env": e.id, "class_member": e.inst, "real_policy": pol.String()})
		} else {
			back = &b
		}
	}

	// ---- verdicts ----
	g := []int{r.Intn(64), r.Intn(64), r.Intn(64), r.Intn(64), r.Intn(64), r.Intn(64)}
	accSets := make([]map[int]bool, len(row.Rows))
	for ci, cr := range row.Rows {
		if cr.C < 1 || cr.C > len(sp.wit.Ctxs) {
			c.Infra("row %d of %s: bad context index %d", ri, sp.name, cr.C)
			return
		}
		mc := sp.wit.Ctxs[cr.C-1]
		if cb.primary {
			st.ctxUsed[cr.C]++
		}
		if sp.numeric {
			st.numReplays++
		}
		acc := map[int]bool{}
		for _, w := range cr.Acc {
			acc[w] = true
		}
		accSets[ci] = acc
		h, t := e.height(mc.H), e.time(mc.T)
		near := map[int]bool{}
		for w := 0; w < nw; w++ {
			si, pi := w/np, w%np
			vc := verifyCase{Kind: "verify", Policy: row.P, Env: e.id, H: mc.H, T: mc.T, Sigs: sp.wit.Sigs[si], Pres: sp.wit.Pres[pi], Garb: g, Inst: e.inst, Want: acc[w]}
			fl.desc.Store(vc)
			fl.since.Store(time.Now().UnixNano())
			sigs, pres := e.witness(vc.Sigs, vc.Pres, g)
			got, errText, pan := runVerify(pol, h, t, e.sigHash, sigs, pres)
			fl.since.Store(0)
			st.cases++
			for l := range labels {
				bump(st.num, l, acc[w], 1) // executed; counted under the verdict of the specification
			}
			if pan {
				vc.Got = errText
				vc.run(envs)
				c.Violation("verify-panic:"+rootClass(n), fmt.Sprintf("Verify panics on %s sigs=%v pres=%v: %s", row.P, vc.Sigs, vc.Pres, errText), vc)
				continue
			}
			if got != acc[w] {
				// reproduce from the saved description before reporting
				again, errAgain, _ := vc.run(envs)
				if again != got {
					c.Infra("case does not reproduce: %s", row.P)
					continue
				}
				vc.Got = "accepted"
				dir := "accepts-unsatisfied"
				if !got {
					vc.Got = "rejected: " + errAgain
					dir = "rejects-satisfied"
				}
				key, inst := "verify-"+dir+":"+rootClass(n), ""
				if ck := e.classKey(n, dir); ck != "" {
					// a parameter at the size of its machine type: the class member is part of the key
					key, inst = "num-verify-"+dir+":"+ck, " = "+vc.Real
				}
				c.Violation(key,
					fmt.Sprintf("policy %s%s, height %d, time %d, signatures %v, preimages %v: the specification says %v, SpendPolicy.Verify %s",
						row.P, inst, mc.H, mc.T, vc.Sigs, vc.Pres, map[bool]string{true: "satisfied", false: "not satisfied"}[acc[w]], vc.Got), vc)
				continue
			}
			if revealed.any() {
				st.numCases++
			}
			if back != nil {
				if again, _, pan2 := runVerify(*back, h, t, e.sigHash, sigs, pres); again != got || pan2 {
					c.Violation("num-codec-verdict:"+classKey, fmt.Sprintf("policy %s = %s: Verify accepts=%v, after encode/decode accepts=%v (signatures %v, preimages %v)", row.P, pol.String(), got, again, vc.Sigs, vc.Pres), vc)
				}
				st.cases++
			}

			if got {
				st.accepts++
				for k := range kinds {
					st.acceptKind[k]++
				}
				if n.K == "uc" {
					st.ucAccepts++
					for _, s := range vc.Sigs {
						if s < 0 {
							st.ucOtherAccept++
							break
						}
					}
				}
				near[w] = true
				for _, sj := range nbS[si] {
					near[sj*np+pi] = true
				}
				for _, pj := range nbP[pi] {
					near[si*np+pj] = true
				}
				if st.samples < 1 && (kinds["thresh"] || n.K == "uc") && len(vc.Sigs) > 0 {
					st.samples++
					vc.Got = "accepted"
					vc.Real, vc.Height, vc.Time = pol.String(), h, t.UTC().Format(time.RFC3339Nano)
					c.Sample(vc)
				}
			} else {
				st.rejects++
				for k := range kinds {
					st.rejectKind[k]++
				}
			}
		}
		if len(near) == 0 {
			near[0] = true // an unsatisfiable row counts once (with the empty witness assignment)
		}
		if cb.newInst {
			st.nontrivial += int64(len(near)) // the same row in a second environment is not counted again
		}
		if cb.primary {
			st.rowsReplayed++
		}
	}
	for i := 1; i < len(accSets) && cb.primary; i++ {
		if len(accSets[i]) != len(accSets[0]) {
			st.lockFlip++
			break
		}
	}

	// ---- a needed branch made opaque must make the policy unusable ----
	for _, hs := range row.Hid {
		hn, err := parseTerm(hs)
		if err != nil {
			c.Infra("row %d of %s: hidden variant: %v", ri, sp.name, err)
			return
		}
		hp := e.policy(hn)
		if a := hp.Address(); a != addr {
			c.Violation("address-opaque-variant", fmt.Sprintf("Address() of %s differs from that of its variant %s", row.P, hs),
				map[string]any{"kind": "address-variant", "policy_term": row.P, "variant_term": hs, "env": e.id})
		}
		st.addrVariants++
		for ci, cr := range row.Rows {
			if len(accSets[ci]) == 0 {
				continue // the branch is needed only where the policy can be satisfied
			}
			st.hidVariants++
			mc := sp.wit.Ctxs[cr.C-1]
			try := append([]int{}, cr.Acc...)
			for k := 0; k < 6; k++ {
				try = append(try, r.Intn(nw))
			}
			// also the accepted witnesses with the hidden branch's share removed are in the alphabet; take its neighbours
			for _, w := range cr.Acc {
				for _, sj := range nbS[w/np] {
					try = append(try, sj*np+w%np)
				}
				for _, pj := range nbP[w%np] {
					try = append(try, (w/np)*np+pj)
				}
			}
			for _, w := range try {
				vc := verifyCase{Kind: "verify", Policy: hs, Env: e.id, H: mc.H, T: mc.T, Sigs: sp.wit.Sigs[w/np], Pres: sp.wit.Pres[w%np], Garb: g, Inst: e.inst, Want: false}
				fl.desc.Store(vc)
				fl.since.Store(time.Now().UnixNano())
				got, errText, pan := vc.run(envs)
				fl.since.Store(0)
				st.hidRejects++
				st.cases++
				if got || pan {
					vc.Got = "accepted"
					if pan {
						vc.Got = errText
					}
					c.Violation("opaque-branch-usable", fmt.Sprintf("%s is satisfiable, its variant %s with a needed branch hidden must not be, but Verify accepts signatures %v preimages %v", row.P, hs, vc.Sigs, vc.Pres), vc)
				} else {
					st.rejects++
				}
			}
		}
	}
}
