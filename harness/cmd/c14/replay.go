package main

// Direction A: the rows TLC printed (policy, context, set of accepted witness
// assignments according to Meaning) are replayed on the real SpendPolicy.Verify
// and SpendPolicy.Address.

import (
	"encoding/json"
	"fmt"
	"math/rand"
	"runtime"
	"strings"
	"sync"
	"sync/atomic"
	"time"

	"go.sia.tech/core/types"
	"verif/harness/vlib"
)

type ctxRow struct {
	C   int   `json:"c"`   // index into witJSON.Ctxs, 1-based
	Acc []int `json:"acc"` // accepted witness numbers
}

type rowJSON struct {
	P    string   `json:"p"`
	Ad   string   `json:"ad"`
	Rows []ctxRow `json:"rows"`
	Hid  []string `json:"hid"`
}

type witJSON struct {
	Sigs   [][]int `json:"sigs"`
	Pres   [][]int `json:"pres"`
	Ctxs   []struct{ H, T int }
	NPols  int `json:"npols"`
	NItems int `json:"nitems"`
}

// space is the output of one TLC run of PolicyMC.
type space struct {
	name string
	wit  witJSON
	rows []rowJSON
}

func parseSpace(name string, res *vlib.TLCResult) (*space, error) {
	sp := &space{name: name}
	gotWit := false
	for _, ln := range res.Lines {
		switch {
		case strings.HasPrefix(ln, "WIT "):
			if gotWit {
				continue
			}
			if err := json.Unmarshal([]byte(vlib.UnquoteTLA(ln[4:])), &sp.wit); err != nil {
				return nil, fmt.Errorf("WIT line: %v", err)
			}
			gotWit = true
		case strings.HasPrefix(ln, "ROW "):
			var r rowJSON
			if err := json.Unmarshal([]byte(vlib.UnquoteTLA(ln[4:])), &r); err != nil {
				return nil, fmt.Errorf("ROW line: %v: %.200s", err, ln)
			}
			sp.rows = append(sp.rows, r)
		case strings.HasPrefix(ln, "DISAGREE "):
			return nil, fmt.Errorf("specification disagrees with itself on %s", ln[9:])
		}
	}
	if !gotWit || len(sp.wit.Sigs) == 0 || len(sp.wit.Pres) == 0 || len(sp.wit.Ctxs) == 0 {
		return nil, fmt.Errorf("no witness alphabet printed")
	}
	if len(sp.rows) != sp.wit.NItems {
		return nil, fmt.Errorf("%d rows printed, %d items announced", len(sp.rows), sp.wit.NItems)
	}
	return sp, nil
}

// stats are the coverage counters of the replay (guarded for vacuity at the end).
type stats struct {
	mu            sync.Mutex
	cases         int64 // Verify executions compared with a TLC verdict
	accepts       int64
	rejects       int64
	rowsReplayed  int64 // (policy, context) rows
	nontrivial    int64
	acceptKind    map[string]int64 // accepted cases by constructor kind occurring in the policy
	rejectKind    map[string]int64
	rootKind      map[string]int64 // rows by root constructor
	opaqueRows    int64            // rows whose policy has an opaque node
	ucRows        int64
	ucAccepts     int64
	ucOtherAccept int64 // uc accepted with a garbage signature on a key of unknown algorithm
	addrTerm      int64 // address compared with the independently evaluated address term
	addrVariants  int64 // address compared between a policy and an opaque-substituted variant
	hidVariants   int64 // variants with a needed branch hidden
	hidRejects    int64 // Verify executions on such variants (all must reject)
	ctxUsed       map[int]int64
	envUsed       map[int]int64
	lockFlip      int64 // policies whose accept set differs between two contexts
	samples       int
}

func newStats() *stats {
	return &stats{acceptKind: map[string]int64{}, rejectKind: map[string]int64{}, rootKind: map[string]int64{}, ctxUsed: map[int]int64{}, envUsed: map[int]int64{}}
}

// the case a worker is executing (for the watchdog)
type inflight struct {
	since atomic.Int64
	desc  atomic.Value
}

// verifyCase is the replayable description of one Verify execution.
type verifyCase struct {
	Kind   string `json:"kind"` // "verify"
	Policy string `json:"policy_term"`
	Env    int    `json:"env"`
	H      int    `json:"h"`
	T      int    `json:"t"`
	Sigs   []int  `json:"sigs"`
	Pres   []int  `json:"pres"`
	Garb   []int  `json:"garbage"`
	Want   bool   `json:"spec_accepts"`
	Got    string `json:"real_result"`
	Real   string `json:"real_policy,omitempty"`
	Height uint64 `json:"real_height"`
	Time   string `json:"real_median_time"`
}

// runVerify executes the real Verify; a panic is reported as panicked.
func runVerify(p types.SpendPolicy, h uint64, t time.Time, sh types.Hash256, sigs []types.Signature, pres [][32]byte) (ok bool, errText string, panicked bool) {
	var err error
	pan, val := vlib.Recover(func() { err = p.Verify(h, t, sh, sigs, pres) })
	if pan {
		return false, fmt.Sprint("panic: ", val), true
	}
	if err != nil {
		return false, err.Error(), false
	}
	return true, "", false
}

func (vc *verifyCase) run(envs []*env) (ok bool, errText string, panicked bool) {
	e := envs[vc.Env]
	n, err := parseTerm(vc.Policy)
	if err != nil {
		return false, err.Error(), true
	}
	pol := e.policy(n)
	sigs, pres := e.witness(vc.Sigs, vc.Pres, vc.Garb)
	vc.Real, vc.Height, vc.Time = pol.String(), e.height(vc.H), e.time(vc.T).UTC().Format(time.RFC3339Nano)
	return runVerify(pol, e.height(vc.H), e.time(vc.T), e.sigHash, sigs, pres)
}

func rootClass(n *node) string {
	if n.K != "thresh" {
		return n.K
	}
	m := map[string]bool{}
	for _, c := range n.Of {
		c.kinds(m)
	}
	switch {
	case m["uc"]:
		return "thresh-with-uc"
	case m["thresh"]:
		return "thresh-nested"
	case m["opaque"]:
		return "thresh-with-opaque"
	}
	return "thresh-flat"
}

// editNeighbours: indices of the sequences within one insertion, deletion or substitution of seqs[i].
func editNeighbours(seqs [][]int) [][]int {
	key := func(s []int) string { return fmt.Sprint(s) }
	idx := map[string]int{}
	for i, s := range seqs {
		idx[key(s)] = i
	}
	alphabet := map[int]bool{}
	for _, s := range seqs {
		for _, x := range s {
			alphabet[x] = true
		}
	}
	out := make([][]int, len(seqs))
	for i, s := range seqs {
		seen := map[int]bool{i: true}
		add := func(t []int) {
			if j, ok := idx[key(t)]; ok && !seen[j] {
				seen[j] = true
				out[i] = append(out[i], j)
			}
		}
		for p := 0; p <= len(s); p++ {
			for a := range alphabet { // insertion
				t := append(append(append([]int{}, s[:p]...), a), s[p:]...)
				add(t)
			}
			if p < len(s) {
				add(append(append([]int{}, s[:p]...), s[p+1:]...)) // deletion
				for a := range alphabet {                          // substitution
					t := append([]int{}, s...)
					t[p] = a
					add(t)
				}
			}
		}
	}
	return out
}

// replaySpace runs every row of sp on the real code.
func replaySpace(c *vlib.Ctx, sp *space, envs []*env, st *stats, seed int64) {
	ns, np := len(sp.wit.Sigs), len(sp.wit.Pres)
	nw := ns * np
	nbS, nbP := editNeighbours(sp.wit.Sigs), editNeighbours(sp.wit.Pres)
	workers := runtime.NumCPU() / 2
	if workers < 2 {
		workers = 2
	}
	fl := make([]inflight, workers)
	stop := make(chan struct{})
	go func() { // watchdog: a Verify call that does not return is a violation of "reject rather than hang"
		tk := time.NewTicker(time.Second)
		defer tk.Stop()
		for {
			select {
			case <-stop:
				return
			case <-tk.C:
				now := time.Now().UnixNano()
				for i := range fl {
					if s := fl[i].since.Load(); s != 0 && now-s > int64(20*time.Second) {
						d, _ := fl[i].desc.Load().(verifyCase)
						c.Violation("verify-hang", "SpendPolicy.Verify did not return within 20 s", d)
						c.Finish()
					}
				}
			}
		}
	}()
	var wg sync.WaitGroup
	next := atomic.Int64{}
	for wk := 0; wk < workers; wk++ {
		wg.Add(1)
		go func(wk int) {
			defer wg.Done()
			loc := newStats()
			for {
				ri := int(next.Add(1)) - 1
				if ri >= len(sp.rows) || c.NViolations() >= 12 {
					break
				}
				replayRow(c, sp, ri, envs, loc, &fl[wk], rand.New(rand.NewSource(seed*7919+int64(ri))), nw, np, nbS, nbP)
			}
			st.merge(loc)
		}(wk)
	}
	wg.Wait()
	close(stop)
}

func (st *stats) merge(o *stats) {
	st.mu.Lock()
	defer st.mu.Unlock()
	st.cases += o.cases
	st.accepts += o.accepts
	st.rejects += o.rejects
	st.rowsReplayed += o.rowsReplayed
	st.nontrivial += o.nontrivial
	st.opaqueRows += o.opaqueRows
	st.ucRows += o.ucRows
	st.ucAccepts += o.ucAccepts
	st.ucOtherAccept += o.ucOtherAccept
	st.addrTerm += o.addrTerm
	st.addrVariants += o.addrVariants
	st.hidVariants += o.hidVariants
	st.hidRejects += o.hidRejects
	st.lockFlip += o.lockFlip
	for k, v := range o.acceptKind {
		st.acceptKind[k] += v
	}
	for k, v := range o.rejectKind {
		st.rejectKind[k] += v
	}
	for k, v := range o.rootKind {
		st.rootKind[k] += v
	}
	for k, v := range o.ctxUsed {
		st.ctxUsed[k] += v
	}
	for k, v := range o.envUsed {
		st.envUsed[k] += v
	}
}

func replayRow(c *vlib.Ctx, sp *space, ri int, envs []*env, st *stats, fl *inflight, r *rand.Rand, nw, np int, nbS, nbP [][]int) {
	row := sp.rows[ri]
	n, err := parseTerm(row.P)
	if err != nil {
		c.Infra("row %d of %s: %v", ri, sp.name, err)
		return
	}
	adTerm, err := parseTerm(row.Ad)
	if err != nil {
		c.Infra("row %d of %s: address term: %v", ri, sp.name, err)
		return
	}
	if !inRange(n) {
		c.Infra("row %d of %s: height outside the mapped range: %s", ri, sp.name, row.P)
		return
	}
	e := envs[r.Intn(len(envs))]
	st.envUsed[e.id]++
	kinds := map[string]bool{}
	n.kinds(kinds)
	st.rootKind[rootClass(n)]++
	if kinds["opaque"] {
		st.opaqueRows++
	}
	if n.K == "uc" {
		st.ucRows++
	}
	var pol types.SpendPolicy
	if pan, val := vlib.Recover(func() { pol = e.policy(n) }); pan {
		c.Infra("row %d of %s: cannot build %s: %v", ri, sp.name, row.P, val)
		return
	}

	// ---- address: independent evaluation of the address term, opaque variants ----
	var addr types.Address
	if pan, val := vlib.Recover(func() { addr = pol.Address() }); pan {
		c.Violation("address-panic", fmt.Sprintf("Address() of %s panics: %v", row.P, val), map[string]any{"kind": "address", "policy_term": row.P, "env": e.id})
		return
	}
	if want := e.addressOf(adTerm); addr != want {
		c.Violation("address-term:"+rootClass(n), fmt.Sprintf("Address() of %s is %v, the address term %s evaluates to %v", row.P, addr, row.Ad, want),
			map[string]any{"kind": "address", "policy_term": row.P, "address_term": row.Ad, "env": e.id, "real_policy": pol.String()})
	}
	st.addrTerm++
	if th, ok := pol.Type.(types.PolicyTypeThreshold); ok && len(th.Of) <= 6 {
		for mask := 1; mask < 1<<len(th.Of); mask++ {
			of := append([]types.SpendPolicy(nil), th.Of...)
			for i := range of {
				if mask&(1<<i) != 0 {
					of[i] = types.PolicyOpaque(of[i])
				}
			}
			v := types.PolicyThreshold(th.N, of)
			if a := v.Address(); a != addr {
				c.Violation("address-opaque-variant", fmt.Sprintf("Address() of %s changes when children %b are made opaque: %v vs %v", row.P, mask, addr, a),
					map[string]any{"kind": "address-variant", "policy_term": row.P, "mask": mask, "env": e.id, "real_policy": pol.String(), "variant": v.String()})
			}
			st.addrVariants++
		}
	}

	// ---- verdicts ----
	g := []int{r.Intn(64), r.Intn(64), r.Intn(64), r.Intn(64), r.Intn(64), r.Intn(64)}
	accSets := make([]map[int]bool, len(row.Rows))
	for ci, cr := range row.Rows {
		if cr.C < 1 || cr.C > len(sp.wit.Ctxs) {
			c.Infra("row %d of %s: bad context index %d", ri, sp.name, cr.C)
			return
		}
		mc := sp.wit.Ctxs[cr.C-1]
		st.ctxUsed[cr.C]++
		acc := map[int]bool{}
		for _, w := range cr.Acc {
			acc[w] = true
		}
		accSets[ci] = acc
		h, t := e.height(mc.H), e.time(mc.T)
		near := map[int]bool{}
		for w := 0; w < nw; w++ {
			si, pi := w/np, w%np
			vc := verifyCase{Kind: "verify", Policy: row.P, Env: e.id, H: mc.H, T: mc.T, Sigs: sp.wit.Sigs[si], Pres: sp.wit.Pres[pi], Garb: g, Want: acc[w]}
			fl.desc.Store(vc)
			fl.since.Store(time.Now().UnixNano())
			sigs, pres := e.witness(vc.Sigs, vc.Pres, g)
			got, errText, pan := runVerify(pol, h, t, e.sigHash, sigs, pres)
			fl.since.Store(0)
			st.cases++
			if pan {
				vc.Got = errText
				vc.run(envs)
				c.Violation("verify-panic:"+rootClass(n), fmt.Sprintf("Verify panics on %s sigs=%v pres=%v: %s", row.P, vc.Sigs, vc.Pres, errText), vc)
				continue
			}
			if got != acc[w] {
				// reproduce from the saved description before reporting
				again, errAgain, _ := vc.run(envs)
				if again != got {
					c.Infra("case does not reproduce: %s", row.P)
					continue
				}
				vc.Got = "accepted"
				dir := "accepts-unsatisfied"
				if !got {
					vc.Got = "rejected: " + errAgain
					dir = "rejects-satisfied"
				}
				c.Violation("verify-"+dir+":"+rootClass(n),
					fmt.Sprintf("policy %s, height %d, time %d, signatures %v, preimages %v: the specification says %v, SpendPolicy.Verify %s",
						row.P, mc.H, mc.T, vc.Sigs, vc.Pres, map[bool]string{true: "satisfied", false: "not satisfied"}[acc[w]], vc.Got), vc)
				continue
			}
			if got {
				st.accepts++
				for k := range kinds {
					st.acceptKind[k]++
				}
				if n.K == "uc" {
					st.ucAccepts++
					for _, s := range vc.Sigs {
						if s < 0 {
							st.ucOtherAccept++
							break
						}
					}
				}
				near[w] = true
				for _, sj := range nbS[si] {
					near[sj*np+pi] = true
				}
				for _, pj := range nbP[pi] {
					near[si*np+pj] = true
				}
				if st.samples < 1 && (kinds["thresh"] || n.K == "uc") && len(vc.Sigs) > 0 {
					st.samples++
					vc.Got = "accepted"
					vc.Real, vc.Height, vc.Time = pol.String(), h, t.UTC().Format(time.RFC3339Nano)
					c.Sample(vc)
				}
			} else {
				st.rejects++
				for k := range kinds {
					st.rejectKind[k]++
				}
			}
		}
		if len(near) == 0 {
			near[0] = true // an unsatisfiable row counts once (with the empty witness assignment)
		}
		st.nontrivial += int64(len(near))
		st.rowsReplayed++
	}
	for i := 1; i < len(accSets); i++ {
		if len(accSets[i]) != len(accSets[0]) {
			st.lockFlip++
			break
		}
	}

	// ---- a needed branch made opaque must make the policy unusable ----
	for _, hs := range row.Hid {
		hn, err := parseTerm(hs)
		if err != nil {
			c.Infra("row %d of %s: hidden variant: %v", ri, sp.name, err)
			return
		}
		hp := e.policy(hn)
		if a := hp.Address(); a != addr {
			c.Violation("address-opaque-variant", fmt.Sprintf("Address() of %s differs from that of its variant %s", row.P, hs),
				map[string]any{"kind": "address-variant", "policy_term": row.P, "variant_term": hs, "env": e.id})
		}
		st.addrVariants++
		for ci, cr := range row.Rows {
			if len(accSets[ci]) == 0 {
				continue // the branch is needed only where the policy can be satisfied
			}
			st.hidVariants++
			mc := sp.wit.Ctxs[cr.C-1]
			try := append([]int{}, cr.Acc...)
			for k := 0; k < 6; k++ {
				try = append(try, r.Intn(nw))
			}
			// also the accepted witnesses with the hidden branch's share removed are in the alphabet; take its neighbours
			for _, w := range cr.Acc {
				for _, sj := range nbS[w/np] {
					try = append(try, sj*np+w%np)
				}
				for _, pj := range nbP[w%np] {
					try = append(try, (w/np)*np+pj)
				}
			}
			for _, w := range try {
				vc := verifyCase{Kind: "verify", Policy: hs, Env: e.id, H: mc.H, T: mc.T, Sigs: sp.wit.Sigs[w/np], Pres: sp.wit.Pres[w%np], Garb: g, Want: false}
				fl.desc.Store(vc)
				fl.since.Store(time.Now().UnixNano())
				got, errText, pan := vc.run(envs)
				fl.since.Store(0)
				st.hidRejects++
				st.cases++
				if got || pan {
					vc.Got = "accepted"
					if pan {
						vc.Got = errText
					}
					c.Violation("opaque-branch-usable", fmt.Sprintf("%s is satisfiable, its variant %s with a needed branch hidden must not be, but Verify accepts signatures %v preimages %v", row.P, hs, vc.Sigs, vc.Pres), vc)
				} else {
					st.rejects++
				}
			}
		}
	}
}
