package main

// The same TLC rows through the real consensus entry point: a v2 transaction
// spending a siacoin output locked by the policy, validated by
// consensus.ValidateV2Transaction on a state whose accumulator holds the output.

import (
	"fmt"
	"math/rand"
	"sort"
	"time"

	"go.sia.tech/core/consensus"
	"go.sia.tech/core/types"
	"verif/harness/vlib"
)

type consCase struct {
	Kind   string `json:"kind"` // "consensus"
	Policy string `json:"policy_term"`
	H      int    `json:"h"`
	T      int    `json:"t"`
	Sigs   []int  `json:"sigs"`
	Pres   []int  `json:"pres"`
	Garb   []int  `json:"garbage"`
	Inst   int    `json:"class_member"`           // which member of BIG / NEG (B, N in the term) was instantiated
	Chain  uint64 `json:"chain_height,omitempty"` // height of the funded state (0: the default, 2)
	Want   bool   `json:"spec_accepts"`
	Got    string `json:"real_result"`
	Real   string `json:"real_policy,omitempty"`
}

type lockedOutput struct {
	term string
	h, t int
	inst int
}

// fundedState is a chain of three blocks whose genesis pays one output to every policy.
type fundedState struct {
	cs      consensus.State
	elems   []types.SiacoinElement // elems[i] locked by outs[i]; the last one by AnyoneCanSpend
	pols    []types.SpendPolicy
	envs    []*env
	index   map[lockedOutput]int
	height  uint64
	median  time.Time
	control int
}

func testNetwork() *consensus.Network {
	n := &consensus.Network{Name: "verif-c14", InitialCoinbase: types.Siacoins(3), MinimumCoinbase: types.Siacoins(3),
		InitialTarget: types.BlockID{0xFF}, BlockInterval: 10 * time.Minute, MaturityDelay: 0}
	n.HardforkOak.Height, n.HardforkOak.FixHeight = 1000, 1000
	n.HardforkASIC.Height, n.HardforkASIC.NonceFactor = 2000, 1
	n.HardforkFoundation.Height = 3000
	n.HardforkV2.AllowHeight, n.HardforkV2.RequireHeight, n.HardforkV2.FinalCutHeight = 0, 5000, 6000
	return n
}

// consEnv is env 0 with the bases chosen so that the model context (h, t) is the real
// context (height, median) of the funded state.
func consEnv(h, t int, height uint64, median time.Time) *env {
	e := newEnv(0)
	e.hBase = height - uint64(h) // wraps; e.height(v) = height + (v - h)
	e.tBase = median.Add(-time.Duration(t) * time.Second)
	e.tUnit = time.Second
	return e
}

func buildFundedState(outs []lockedOutput) (fs *fundedState, err error) {
	return buildFundedStateAt(outs, 2)
}

// medianOf is the median the property speaks about: of the timestamps of the last (at most 11)
// blocks up to the parent state; the midpoint of the middle two if their number is even.
func medianOf(ts []time.Time) time.Time {
	ts = append([]time.Time{}, ts...)
	sort.Slice(ts, func(i, j int) bool { return ts[i].Before(ts[j]) })
	if len(ts)%2 == 1 {
		return ts[len(ts)/2]
	}
	l, r := ts[len(ts)/2-1], ts[len(ts)/2]
	return l.Add(r.Sub(l) / 2)
}

// buildFundedStateAt builds the funded state at the given height. With height = the model
// height of a row, model heights ARE real heights (0 is 0).
func buildFundedStateAt(outs []lockedOutput, height uint64) (fs *fundedState, err error) {
	defer func() {
		if r := recover(); r != nil {
			err = fmt.Errorf("building the funded state panicked: %v", r)
		}
	}()
	n := testNetwork()
	t0 := time.Unix(1700000000, 0)
	var stamps []time.Time // timestamps t0, t0+10m, t0+20m, ...
	for k := uint64(0); k <= height; k++ {
		stamps = append(stamps, t0.Add(time.Duration(k)*10*time.Minute))
	}
	if len(stamps) > 11 {
		stamps = stamps[len(stamps)-11:]
	}
	median := medianOf(stamps)
	fs = &fundedState{index: map[lockedOutput]int{}, height: height, median: median}
	var gtxn types.Transaction
	for i, o := range outs {
		node, err := parseTerm(o.term)
		if err != nil {
			return nil, err
		}
		e := consEnv(o.h, o.t, height, median).withInst(o.inst)
		if !e.validInst(node, o.inst) {
			return nil, fmt.Errorf("class member %d of %s is not valid on the funded state", o.inst, o.term)
		}
		p := e.policy(node)
		fs.pols = append(fs.pols, p)
		fs.envs = append(fs.envs, e)
		fs.index[o] = i
		gtxn.SiacoinOutputs = append(gtxn.SiacoinOutputs, types.SiacoinOutput{Value: types.Siacoins(1), Address: p.Address()})
	}
	fs.control = len(outs)
	fs.pols = append(fs.pols, types.AnyoneCanSpend())
	gtxn.SiacoinOutputs = append(gtxn.SiacoinOutputs, types.SiacoinOutput{Value: types.Siacoins(1), Address: types.AnyoneCanSpend().Address()})

	genesis := types.Block{Timestamp: t0, Transactions: []types.Transaction{gtxn}}
	cs, au := consensus.ApplyBlock(n.GenesisState(), genesis, consensus.V1BlockSupplement{Transactions: make([]consensus.V1TransactionSupplement, 1)}, time.Time{})
	byID := map[types.SiacoinOutputID]int{}
	for i := range gtxn.SiacoinOutputs {
		byID[gtxn.SiacoinOutputID(i)] = i
	}
	fs.elems = make([]types.SiacoinElement, len(gtxn.SiacoinOutputs))
	found := 0
	for _, d := range au.SiacoinElementDiffs() {
		if i, ok := byID[d.SiacoinElement.ID]; ok && d.Created {
			fs.elems[i] = d.SiacoinElement.Copy()
			found++
		}
	}
	if found != len(fs.elems) {
		return nil, fmt.Errorf("genesis created %d of %d outputs", found, len(fs.elems))
	}
	for k := 1; k <= int(height); k++ {
		b := types.Block{ParentID: cs.Index.ID, Timestamp: t0.Add(time.Duration(k) * 10 * time.Minute),
			MinerPayouts: []types.SiacoinOutput{{Address: types.VoidAddress, Value: cs.BlockReward()}}}
		cs, au = consensus.ApplyBlock(cs, b, consensus.V1BlockSupplement{}, time.Time{})
		for i := range fs.elems {
			au.UpdateElementProof(&fs.elems[i].StateElement)
		}
	}
	if cs.Index.Height != height {
		return nil, fmt.Errorf("funded state has height %d", cs.Index.Height)
	}
	// the environment the property speaks about: height of the parent state and the median of its timestamps
	if got := medianOf(cs.PrevTimestamps[:len(stamps)]); !got.Equal(median) {
		return nil, fmt.Errorf("median timestamp of the funded state is %v, expected %v", got, median)
	}
	fs.cs = cs
	return fs, nil
}

// spend validates a transaction spending output i with the given witnesses.
func (fs *fundedState) spend(i int, sigIDs, preIDs, g []int) (ok bool, errText string, panicked bool) {
	in := types.V2SiacoinInput{Parent: fs.elems[i].Copy(), SatisfiedPolicy: types.SatisfiedPolicy{Policy: fs.pols[i]}}
	txn := types.V2Transaction{SiacoinInputs: []types.V2SiacoinInput{in},
		SiacoinOutputs: []types.SiacoinOutput{{Value: fs.elems[i].SiacoinOutput.Value, Address: types.VoidAddress}}}
	if i != fs.control {
		e := fs.envs[i]
		sh := fs.cs.InputSigHash(txn)
		_, pres := e.witness(nil, preIDs, g)
		txn.SiacoinInputs[0].SatisfiedPolicy.Signatures = e.sign(sh, sigIDs, g)
		txn.SiacoinInputs[0].SatisfiedPolicy.Preimages = pres
	}
	var err error
	pan, val := vlib.Recover(func() { err = consensus.ValidateV2Transaction(consensus.NewMidState(fs.cs), txn) })
	if pan {
		return false, fmt.Sprint("panic: ", val), true
	}
	if err != nil {
		return false, err.Error(), false
	}
	return true, "", false
}

func (cc *consCase) run() (ok bool, errText string, panicked bool, err error) {
	if cc.Chain == 0 {
		cc.Chain = 2
	}
	if cc.Inst < 0 || cc.Inst >= nInst {
		return false, "", false, fmt.Errorf("bad class member %d", cc.Inst)
	}
	fs, err := buildFundedStateAt([]lockedOutput{{cc.Policy, cc.H, cc.T, cc.Inst}}, cc.Chain)
	if err != nil {
		return false, "", false, err
	}
	if ok, txt, _ := fs.spend(fs.control, nil, nil, nil); !ok {
		return false, "", false, fmt.Errorf("control output cannot be spent: %s", txt)
	}
	cc.Real = fs.pols[0].String()
	ok, errText, panicked = fs.spend(0, cc.Sigs, cc.Pres, cc.Garb)
	return
}

// replayConsensus samples rows of the spaces and runs them through ValidateV2Transaction.
func replayConsensus(c *vlib.Ctx, spaces []*space, maxRows int, st *stats, r *rand.Rand) {
	type pick struct {
		sp *space
		ri int
		ci int
	}
	var withAcc, without []pick
	for _, sp := range spaces {
		if sp.numeric {
			continue // replayConsensusNum
		}
		for ri, row := range sp.rows {
			for ci, cr := range row.Rows {
				if len(cr.Acc) > 0 {
					withAcc = append(withAcc, pick{sp, ri, ci})
				} else {
					without = append(without, pick{sp, ri, ci})
				}
			}
		}
	}
	r.Shuffle(len(withAcc), func(i, j int) { withAcc[i], withAcc[j] = withAcc[j], withAcc[i] })
	r.Shuffle(len(without), func(i, j int) { without[i], without[j] = without[j], without[i] })
	var picks []pick
	for i := 0; i < len(withAcc) && i < maxRows*2/3; i++ {
		picks = append(picks, withAcc[i])
	}
	for i := 0; i < len(without) && len(picks) < maxRows; i++ {
		picks = append(picks, without[i])
	}
	var outs []lockedOutput
	seen := map[lockedOutput]bool{}
	var kept []pick
	for _, p := range picks {
		row := p.sp.rows[p.ri]
		mc := p.sp.wit.Ctxs[row.Rows[p.ci].C-1]
		o := lockedOutput{row.P, mc.H, mc.T, 0}
		if !seen[o] {
			seen[o] = true
			outs = append(outs, o)
			kept = append(kept, p)
		}
	}
	fs, err := buildFundedState(outs)
	if err != nil {
		c.Infra("consensus path: %v", err)
		return
	}
	if ok, txt, _ := fs.spend(fs.control, nil, nil, nil); !ok {
		c.Infra("consensus path: the control output (anyone can spend) cannot be spent on the funded state: %s", txt)
		return
	}
	var nCases, nAcc, nRej, nRows int64
	for k, p := range kept {
		if c.NViolations() >= 12 {
			break
		}
		sp, row := p.sp, p.sp.rows[p.ri]
		cr := row.Rows[p.ci]
		mc := sp.wit.Ctxs[cr.C-1]
		np := len(sp.wit.Pres)
		nw := len(sp.wit.Sigs) * np
		acc := map[int]bool{}
		try := map[int]bool{0: true}
		for _, w := range cr.Acc {
			acc[w] = true
			try[w] = true
		}
		for i := 0; i < 10; i++ {
			try[r.Intn(nw)] = true
		}
		// one-step corruptions of each accepted assignment
		for _, w := range cr.Acc {
			for i := 0; i < 6; i++ {
				si, pi := w/np, w%np
				if r.Intn(2) == 0 {
					si = r.Intn(len(sp.wit.Sigs))
				} else {
					pi = r.Intn(np)
				}
				try[si*np+pi] = true
			}
		}
		g := []int{r.Intn(64), r.Intn(64), r.Intn(64), r.Intn(64), r.Intn(64), r.Intn(64)}
		node, _ := parseTerm(row.P)
		nRows++
		for w := range try {
			cc := consCase{Kind: "consensus", Policy: row.P, H: mc.H, T: mc.T, Sigs: sp.wit.Sigs[w/np], Pres: sp.wit.Pres[w%np], Garb: g, Want: acc[w], Real: fs.pols[k].String()}
			got, errText, pan := fs.spend(k, cc.Sigs, cc.Pres, g)
			nCases++
			if got == acc[w] && !pan {
				if got {
					nAcc++
				} else {
					nRej++
				}
				continue
			}
			cc.Got = "accepted"
			dir := "accepts-unsatisfied"
			if !got {
				cc.Got, dir = "rejected: "+errText, "rejects-satisfied"
			}
			if pan {
				dir = "panic"
			}
			c.Violation("consensus-"+dir+":"+rootClass(node),
				fmt.Sprintf("ValidateV2Transaction spending an output locked by %s at height %d, median time %d, signatures %v, preimages %v: the specification says %v, the transaction is %s",
					row.P, mc.H, mc.T, cc.Sigs, cc.Pres, map[bool]string{true: "satisfied", false: "not satisfied"}[acc[w]], cc.Got), cc)
		}
	}
	st.mu.Lock()
	st.cases += nCases
	st.accepts += nAcc
	st.rejects += nRej
	st.mu.Unlock()
	c.Cov("consensus_rows", nRows)
	c.Cov("consensus_cases", nCases)
	c.Cov("consensus_accepts", nAcc)
	c.Cov("consensus_rejects", nRej)
	if c.NViolations() == 0 && (nAcc == 0 || nRej == 0) {
		c.Infra("vacuity: consensus path saw %d accepted and %d rejected transactions", nAcc, nRej)
	}
}

// replayConsensusNum runs rows of the numeric family through ValidateV2Transaction. The funded
// state is built at the model height of the row, so that heights and counts of the model are the
// real ones; a row with parameters of a value class is spent once for EVERY member of the class.
func replayConsensusNum(c *vlib.Ctx, sp *space, maxRows int, st *stats, r *rand.Rand) {
	type pick struct {
		ri, ci int
		node   *node
		class  bool
	}
	var classed, plain []pick
	for ri, row := range sp.rows {
		node, err := parseTerm(row.P)
		if err != nil {
			c.Infra("consensus path (numeric): %v", err)
			return
		}
		var u classUse
		node.classes(&u, true)
		for ci := range row.Rows {
			if u.any() {
				classed = append(classed, pick{ri, ci, node, true})
			} else {
				plain = append(plain, pick{ri, ci, node, false})
			}
		}
	}
	r.Shuffle(len(classed), func(i, j int) { classed[i], classed[j] = classed[j], classed[i] })
	r.Shuffle(len(plain), func(i, j int) { plain[i], plain[j] = plain[j], plain[i] })
	// unlock conditions and single locks first: they carry the parameters themselves
	sort.SliceStable(classed, func(i, j int) bool { return (classed[i].node.K != "thresh") && (classed[j].node.K == "thresh") })
	picks := classed
	if len(picks) > maxRows*3/4 {
		picks = picks[:maxRows*3/4]
	}
	for i := 0; i < len(plain) && len(picks) < maxRows; i++ {
		picks = append(picks, plain[i])
	}
	type item struct {
		p   pick
		out lockedOutput
	}
	byHeight := map[int][]item{}
	for _, p := range picks {
		row := sp.rows[p.ri]
		mc := sp.wit.Ctxs[row.Rows[p.ci].C-1]
		for k := 0; k < nInst; k++ {
			if !p.class && k > 0 {
				break
			}
			byHeight[mc.H] = append(byHeight[mc.H], item{p, lockedOutput{row.P, mc.H, mc.T, k}})
		}
	}
	var nCases, nAcc, nRej, nRows int64
	np := len(sp.wit.Pres)
	nw := len(sp.wit.Sigs) * np
	heights := []int{}
	for h := range byHeight {
		heights = append(heights, h)
	}
	sort.Ints(heights)
	for _, h := range heights {
		items := byHeight[h]
		if h < 1 {
			c.Infra("consensus path (numeric): model height %d", h)
			return
		}
		outs := make([]lockedOutput, len(items))
		for i, it := range items {
			outs[i] = it.out
		}
		fs, err := buildFundedStateAt(outs, uint64(h))
		if err != nil {
			c.Infra("consensus path (numeric): %v", err)
			return
		}
		if ok, txt, _ := fs.spend(fs.control, nil, nil, nil); !ok {
			c.Infra("consensus path (numeric): the control output cannot be spent at height %d: %s", h, txt)
			return
		}
		for k, it := range items {
			if c.NViolations() >= 12 {
				break
			}
			row := sp.rows[it.p.ri]
			cr := row.Rows[it.p.ci]
			acc := map[int]bool{}
			try := map[int]bool{0: true}
			for _, w := range cr.Acc {
				acc[w] = true
				try[w] = true
			}
			for i := 0; i < 8; i++ {
				try[r.Intn(nw)] = true
			}
			for _, w := range cr.Acc {
				for i := 0; i < 4; i++ {
					si, pi := w/np, w%np
					if r.Intn(2) == 0 {
						si = r.Intn(len(sp.wit.Sigs))
					} else {
						pi = r.Intn(np)
					}
					try[si*np+pi] = true
				}
			}
			e := fs.envs[k]
			var revealed classUse
			it.p.node.classes(&revealed, false)
			labels := map[string]bool{}
			e.numLabels(it.p.node, labels)
			g := []int{r.Intn(64), r.Intn(64), r.Intn(64), r.Intn(64), r.Intn(64), r.Intn(64)}
			nRows++
			for w := range try {
				cc := consCase{Kind: "consensus", Policy: row.P, H: it.out.h, T: it.out.t, Sigs: sp.wit.Sigs[w/np], Pres: sp.wit.Pres[w%np], Garb: g,
					Inst: it.out.inst, Chain: uint64(h), Want: acc[w], Real: fs.pols[k].String()}
				got, errText, pan := fs.spend(k, cc.Sigs, cc.Pres, g)
				nCases++
				for l := range labels {
					bump(st.consNum, l, acc[w], 1) // executed; counted under the verdict of the specification
				}
				if got == acc[w] && !pan {
					if got {
						nAcc++
					} else {
						nRej++
					}
					continue
				}
				cc.Got = "accepted"
				dir := "accepts-unsatisfied"
				if !got {
					cc.Got, dir = "rejected: "+errText, "rejects-satisfied"
				}
				if pan {
					dir = "panic"
				}
				key := "consensus-" + dir + ":" + rootClass(it.p.node)
				if ck := e.classKey(it.p.node, dir); ck != "" && revealed.any() {
					key = "num-consensus-" + dir + ":" + ck
				}
				c.Violation(key,
					fmt.Sprintf("ValidateV2Transaction spending an output locked by %s = %s at height %d, median time %d, signatures %v, preimages %v: the specification says %v, the transaction is %s",
						row.P, cc.Real, it.out.h, it.out.t, cc.Sigs, cc.Pres, map[bool]string{true: "satisfied", false: "not satisfied"}[acc[w]], cc.Got), cc)
			}
		}
	}
	st.mu.Lock()
	st.cases += nCases
	st.accepts += nAcc
	st.rejects += nRej
	st.consNumRows += nRows
	st.mu.Unlock()
	c.Cov("consensus_numeric_rows", nRows)
	c.Cov("consensus_numeric_cases", nCases)
	c.Cov("consensus_numeric_accepts", nAcc)
	c.Cov("consensus_numeric_rejects", nRej)
	if c.NViolations() == 0 && (nAcc == 0 || nRej == 0) {
		c.Infra("vacuity: consensus path (numeric) saw %d accepted and %d rejected transactions", nAcc, nRej)
	}
}
