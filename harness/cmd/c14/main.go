// C14 — spend policy verification matches the policy's meaning and address commitment.
//
//  1. TLC (spec/policy/PolicyMC.tla) checks, for every policy tree of the bounded space, every
//     context straddling one of its locks and every witness assignment of the alphabet:
//     VerifyAlg (transcription of SpendPolicy.Verify) = Meaning (declarative reading);
//     Addr(p) = Addr(p with any subset of children opaque); an opaque branch is unusable.
//  2. Direction A: TLC prints one row per (policy, context) with the set of witness assignments
//     Meaning accepts. The harness builds each policy with real ed25519 keys, real signatures
//     over a real signature hash and real SHA-256 preimages, runs the real SpendPolicy.Verify on
//     every witness assignment of the alphabet and compares the verdict with the row; compares
//     Address() with the independently hashed address term and with every opaque-substituted
//     variant; requires that hiding a needed branch makes Verify reject; and runs a sample of
//     rows through consensus.ValidateV2Transaction on a funded state.
//     The family "num" puts every numeric parameter of every policy kind at the extremes of its
//     machine type: 0, 1, len, len+1, 255, 256 as numbers, everything beyond TLC's integers as the
//     value classes BIG / NEG of Policy.tla. The verdict of a class comes from TLC; the harness
//     runs the row once for EVERY member of the class (2^31, 2^32, 2^63-1, 2^63, 2^64-1; for times
//     the int64 seconds around the range of time.Time and the negative ones) on Verify, on the
//     policy decoded from its wire form, and through ValidateV2Transaction at the model's height.
//     The family "size" (PolicySizes.tla, sizes.go) puts the magnitudes the property quantifies over
//     at the limits the codec and the evaluator document: unlock conditions listing 254..257,
//     1023..1025 and 2049 keys and requiring 0, 1, n-1, n, n+1 and every smaller limit value of
//     signatures, thresholds of 254..256 children, trees of 1023..2049 sub-policies whose leaves all
//     ask for a witness, with exact and flawed witness lists of up to 2050 entries. TLC builds each
//     policy at its real size and computes the verdict; the harness runs Verify, the codec,
//     Address and ValidateV2Transaction on it.
//  3. Direction B: seeded random trees up to depth 6 and the complexity limits (1024/1025
//     sub-policies, 255/256 children, nesting depth 32/33) are run on the real code under a
//     deadline; the recorded verdicts are validated by TLC against Meaning (PolicyTrace.tla).
package main

import (
	"encoding/json"
	"fmt"
	"math/rand"
	"os"
	"sort"
	"strconv"
	"strings"
	"sync"
	"time"

	"verif/harness/vlib"
)

type mcConfig struct {
	name                                   string
	fam                                    string
	wide, maxSigs, maxPres, stride, offset int
	workers                                int
	ucLen                                  int
}

func (m mcConfig) text() string {
	return fmt.Sprintf("SPECIFICATION Spec\nCONSTANTS\n  Fam = %q\n  Wide = %d\n  MaxSigs = %d\n  MaxPres = %d\n  UCLen = %d\n  Stride = %d\n  Offset = %d\n  ChunkSize = 6\nINVARIANT Agree\nCHECK_DEADLOCK FALSE\n",
		m.fam, m.wide, m.maxSigs, m.maxPres, m.ucLen, m.stride, m.offset)
}

func runSpace(c *vlib.Ctx, m mcConfig) (*space, error) {
	res, err := c.TLC(vlib.TLCOpts{SpecDirs: []string{"policy"}, Module: "PolicyMC", ConfText: m.text(), Workers: m.workers, Timeout: 14 * time.Minute, Xss: "64m"})
	if err != nil {
		return nil, err
	}
	if res.Violated != "" {
		return nil, fmt.Errorf("model-internal failure in PolicyMC/%s (%s): %s", m.name, res.Violated, vlib.Tail(res.Out, 1500))
	}
	sp, err := parseSpace(m.name, res)
	if err != nil {
		return nil, fmt.Errorf("PolicyMC/%s: %v", m.name, err)
	}
	sp.numeric = m.fam == "num"
	chunks := (sp.wit.NItems + 5) / 6
	if want := int64(1 + chunks + sp.wit.NItems); res.Distinct != want {
		return nil, fmt.Errorf("PolicyMC/%s: %d states, expected %d (space not fully walked)", m.name, res.Distinct, want)
	}
	return sp, nil
}

// validateLines has TLC validate recorded lines; it returns the REJECT messages by line index.
func validateLines(c *vlib.Ctx, lines []*traceLine, workers int) (map[int]string, error) {
	events := make([]map[string]any, len(lines))
	for i, l := range lines {
		events[i] = l.event()
	}
	const chunk = 32
	res, err := c.TLC(vlib.TLCOpts{SpecDirs: []string{"policy"}, Module: "PolicyTrace", Config: "PolicyTrace.cfg",
		Files: map[string][]byte{"trace.ndjson": vlib.NDJSON(events)}, Workers: workers, Timeout: 14 * time.Minute, Xss: "256m"})
	if err != nil {
		return nil, err
	}
	if res.Violated != "" {
		return nil, fmt.Errorf("trace specification failed to evaluate: %s", vlib.Tail(res.Out, 1500))
	}
	if want := int64(1 + (len(lines)+chunk-1)/chunk + len(lines)); res.Distinct != want {
		return nil, fmt.Errorf("trace not fully consumed: %d states, expected %d\n%s", res.Distinct, want, vlib.Tail(res.Out, 600))
	}
	rej := map[int]string{}
	for _, ln := range res.Lines {
		if strings.HasPrefix(ln, "SPECBUG ") {
			i, _ := strconv.Atoi(strings.TrimSpace(ln[8:]))
			what := "?"
			if i >= 1 && i <= len(lines) {
				what = lines[i-1].n.String()
			}
			return nil, fmt.Errorf("VerifyAlg and Meaning disagree on trace line %d: %s", i, what)
		}
		if !strings.HasPrefix(ln, "REJECT ") {
			continue
		}
		f := strings.SplitN(ln, " ", 3)
		i, err := strconv.Atoi(f[1])
		if err != nil || i < 1 || i > len(lines) || len(f) < 3 {
			return nil, fmt.Errorf("bad reject line %q", ln)
		}
		if _, dup := rej[i-1]; !dup {
			rej[i-1] = f[2]
		}
	}
	return rej, nil
}

type tracePayload struct {
	Kind   string `json:"kind"` // "trace"
	Policy string `json:"policy_term"`
	Env    int    `json:"env"`
	H      int    `json:"h"`
	T      int    `json:"t"`
	Sigs   []int  `json:"sigs"`
	Pres   []int  `json:"pres"`
	Garb   []int  `json:"garbage"`
	Inst   int    `json:"class_member"`
	V      bool   `json:"real_verify_accepts"`
	Dec    bool   `json:"real_decoder_accepts"`
	Origin string `json:"origin"`
	Why    string `json:"specification_objects"`
}

func payloadOf(l *traceLine, why string) tracePayload {
	return tracePayload{"trace", l.n.String(), l.env, l.h, l.t, l.sigs, l.pres, l.garb, l.inst, l.v, l.dec, l.origin, why}
}

func keyOf(msg string) string {
	return strings.ReplaceAll(strings.ToLower(msg), " ", "-")
}

// directionB generates, executes and validates the lines beyond the bound.
func directionB(c *vlib.Ctx, envs []*env, r *rand.Rand, nRandom int, workers int) {
	lines := append(limitLines(r), randomLines(r, nRandom)...)
	nLimits := len(lines) - nRandomCount(lines)
	seen := map[string]bool{}
	var nontriv, nAcc, nRej, nDeep, nDecRej, nOpaque, nUC int64
	classLines := map[int]*[2]int64{} // lines with a parameter of a value class, by instantiated member: accepted, rejected
	limitAcc, limitRej := 0, 0
	for _, l := range lines {
		if !inRange(l.n) || l.h < 0 || l.h > maxModelHeight {
			c.Infra("direction B generated a height outside the mapped range: %s", l.n.String())
			return
		}
		hang, pan, detail := execLine(l, envs, 30*time.Second)
		switch {
		case hang:
			c.Violation("limit-hang", fmt.Sprintf("Verify/encode/decode of %s (%d sub-policies deep %d) did not finish within 30 s", l.origin, len(l.n.Of), depthOf(l.n)), payloadOf(l, "hang"))
			c.Finish()
		case pan:
			c.Violation("trace-panic:"+strings.SplitN(l.origin, "-", 2)[0], fmt.Sprintf("the real code panics on %.300s: %s", l.n.String(), detail), payloadOf(l, "panic: "+detail))
			continue
		case detail != "":
			c.Violation("codec-"+keyOf(detail), fmt.Sprintf("%s: %.300s", detail, l.n.String()), payloadOf(l, detail))
		}
		b, _ := json.Marshal(l.event())
		if !seen[string(b)] {
			seen[string(b)] = true
			kinds := map[string]bool{}
			l.n.kinds(kinds)
			if kinds["thresh"] || kinds["uc"] {
				nontriv++
			}
		}
		isLimit := l.origin != "intended" && l.origin != "mutated" && l.origin != "other-context"
		if l.v {
			nAcc++
			if isLimit {
				limitAcc++
			}
		} else {
			nRej++
			if isLimit {
				limitRej++
			}
		}
		if !isLimit && depthOf(l.n) >= 4 {
			nDeep++
		}
		if !l.dec {
			nDecRej++
		}
		if strings.Contains(l.n.String(), "op(") {
			nOpaque++
		}
		if l.n.K == "uc" {
			nUC++
		}
		var u classUse
		if l.n.classes(&u, false); u.any() {
			if classLines[l.inst] == nil {
				classLines[l.inst] = &[2]int64{}
			}
			if l.v {
				classLines[l.inst][0]++
			} else {
				classLines[l.inst][1]++
			}
		}
	}
	if os.Getenv("VERIF_C14_CORRUPT") == "trace" && len(lines) > 200 {
		// binding demonstration: one logged verdict is falsified; TLC must reject the line (and the
		// re-execution then shows that the line is not what the code does: exit 2, no verdict)
		lines[199].v = !lines[199].v
	}
	rej, err := validateLines(c, lines, workers)
	if err != nil {
		c.Infra("direction B: %v", err)
		return
	}
	for i, msg := range rej {
		l := lines[i]
		// reproduce on the real code: the logged line must be what the code does now
		again := *l
		if hang, pan, _ := execLine(&again, envs, 30*time.Second); hang || pan || again.v != l.v || again.dec != l.dec {
			c.Infra("rejected trace line %d does not reproduce", i+1)
			continue
		}
		class := "random"
		if l.origin != "intended" && l.origin != "mutated" && l.origin != "other-context" {
			class = l.origin
		}
		prefix := "trace-"
		dir := "accepts-unsatisfied"
		if !l.v {
			dir = "rejects-satisfied"
		}
		if ck := envs[l.env].withInst(l.inst).classKey(l.n, dir); ck != "" && class == "random" && !strings.Contains(msg, "decoder") {
			// a parameter at the size of its machine type: the class member names the failing input class
			prefix, class = "num-trace-", ck
		}
		c.Violation(prefix+keyOf(msg)+":"+class, fmt.Sprintf("%s: %.400s at height %d, time %d, signatures %v, preimages %v (Verify accepted: %v, decoder accepted: %v)",
			msg, l.n.String(), l.h, l.t, l.sigs, l.pres, l.v, l.dec)+realOf(envs, l), payloadOf(l, msg))
	}
	c.Traces(1)
	c.Count(int64(len(lines)), nontriv)
	c.Cov("trace_lines", len(lines))
	c.Cov("trace_limit_lines", nLimits)
	c.Cov("trace_accepts", nAcc)
	c.Cov("trace_rejects", nRej)
	c.Cov("trace_random_depth_ge4", nDeep)
	c.Cov("trace_decoder_rejects", nDecRej)
	c.Cov("trace_with_opaque", nOpaque)
	c.Cov("trace_uc_lines", nUC)
	c.Cov("trace_lines_with_value_class_by_member_accepted_rejected", classLines)
	if len(lines) > 40 {
		c.Sample(payloadOf(lines[len(lines)-1], ""))
	}
	if c.NViolations() == 0 {
		if nAcc == 0 || nRej == 0 || limitAcc == 0 || limitRej == 0 || nDecRej == 0 || nOpaque == 0 || nUC == 0 || (nRandom >= 100 && nDeep == 0) {
			c.Infra("vacuity: direction B saw accepts=%d rejects=%d limit accepts=%d limit rejects=%d decoder rejects=%d opaque=%d uc=%d deep=%d",
				nAcc, nRej, limitAcc, limitRej, nDecRej, nOpaque, nUC, nDeep)
		}
		var ca, cr int64
		for k := 0; k < nInst && nRandom >= 1000; k++ {
			v := classLines[k]
			if v == nil || v[0]+v[1] == 0 {
				c.Infra("vacuity: direction B: member %d of the value classes was never run", k)
				continue
			}
			ca, cr = ca+v[0], cr+v[1]
		}
		if nRandom >= 1000 && (ca == 0 || cr == 0) {
			c.Infra("vacuity: direction B: lines with a parameter of a value class: %d accepted, %d rejected", ca, cr)
		}
	}
}

// numericGuards: every member of every value class, for every numeric parameter of every policy
// kind, and every directly representable boundary value was executed on the real code and compared
// with TLC - with a case the specification accepts and one it rejects where it has both (a policy
// with a revealed lock or count of class BIG is never satisfied: only rejections exist).
func numericGuards(c *vlib.Ctx, door string, m map[string]*[2]int64) {
	need := func(label string, acc, rej bool) {
		v := m[label]
		if v == nil {
			v = &[2]int64{}
		}
		if (acc && v[0] == 0) || (rej && v[1] == 0) {
			c.Infra("vacuity: %s: numeric extreme %s executed with %d cases the specification accepts and %d it rejects", door, label, v[0], v[1])
		}
	}
	for _, v := range bigU64 {
		need("above.h="+u64Names[v], false, true)
		need("uc.lock="+u64Names[v], false, true)
		need("uc.sigs="+u64Names[v], false, true)
	}
	for _, v := range bigI64 {
		need("after.t="+i64Names[v], false, true)
	}
	for _, v := range negI64 {
		need("after.t="+i64Names[v], true, true)
	}
	need("above.h=0", true, true)
	need("uc.lock=0", true, true)
	need("uc.sigs=0", true, true)
	need("uc.sigs=len", true, true)
	need("uc.sigs=len+1", false, true)
	need("uc.sigs=255", false, true)
	need("uc.sigs=256", false, true)
	need("uc.keys=0", true, true)
	need("uc.keys=1", true, true)
	need("uc.keys=2", true, true)
	need("thresh.n=0", true, true)
	need("thresh.n=len", true, true)
	need("thresh.n=len+1", false, true)
	need("thresh.n=255", false, true)
}

// realOf prints the real policy of a line that carries a parameter of a value class.
func realOf(envs []*env, l *traceLine) string {
	var u classUse
	if l.n.classes(&u, true); !u.any() {
		return ""
	}
	out := ""
	vlib.Recover(func() { out = fmt.Sprintf(" [B/N = class member %d: %.300s]", l.inst, envs[l.env].withInst(l.inst).policy(l.n).String()) })
	return out
}

func nRandomCount(lines []*traceLine) int {
	n := 0
	for _, l := range lines {
		if l.origin == "intended" || l.origin == "mutated" || l.origin == "other-context" {
			n++
		}
	}
	return n
}

func main() {
	c := vlib.Start("C14")
	envs := make([]*env, nEnvs)
	for i := range envs {
		envs[i] = newEnv(i)
	}
	if c.Replay != "" {
		replayFile(c, envs)
		return
	}
	r := rand.New(rand.NewSource(c.Seed))
	c.Rule("Direction A: TLC enumerates policy trees (all leaf kinds at lock values H-1,H,H+1 / T-1,T,T+1; 340-680 unlock-condition shapes over ed25519/entropy/other keys; thresholds n=0..3 of breadth<=3 over leaves, opaque and uc children; depth 2 of breadth<=3; depth 3-4 of breadth<=2), contexts (base, height-1, height+1, time-1, time+1 for policies with such a lock) and all witness assignments (signature sequences over {key0,key1,garbage} up to length 3 x preimage sequences up to length 2-3); quick checks the seed-selected half of the non-leaf policies, thorough all of them. In addition the numeric family (always complete): above(h)/uc timelock in {0,H-1,H,H+1,BIG}, after(t) in {NEG,0,T-1,T,T+1,BIG}, uc signatures required in {0,1,len,len+1,255,256,BIG} over key lists of length 0..3 with duplicates, thresh n in {0,1,len,len+1,255}, where BIG/NEG are value classes whose verdict TLC computes once and whose members {2^31,2^32,2^63-1,2^63,2^64-1} (times: 2^31,2^32,2^63-1-62135596800,2^63-62135596800,2^63-1 and -2^63,-2^63+1,-62135596801,-2^32,-1) are each instantiated on the real code, in environment 0 (model numbers are the real ones) and one other, and every such row also through ValidateV2Transaction. One evaluation = one execution of the real Verify (or ValidateV2Transaction, or the codec for limit lines) compared with TLC's verdict. A case (policy, context, witnesses) is distinct by construction; it counts as non-trivial if it is accepted or lies within one insertion/deletion/substitution of an accepted assignment of the same policy and context (a near miss); a policy/context that nothing satisfies counts once. The size family (always complete for the plain key lists and the tree totals): number of listed keys n in {254,255,256,257,1023,1024,1025,2049} x signatures required in {0,1,n-1,n,n+1} and every member of that set below n x key kinds (signing keys first / last, unknown algorithm, mixed, an entropy key at / after the last consulted key) x witness lists (exact, one short, one long, first / last wrong, none, stray preimage); single thresholds of 254..256 children with 0,1,w-1,w revealed; trees of 1023,1024,1025,1026,2049 sub-policies with pk / hash / alternating leaves; every case is distinct by construction and at a limit, and counts as one evaluation on Verify+codec and one on ValidateV2Transaction where it is spent. Direction B lines count as non-trivial if distinct and containing a threshold or unlock conditions. traces_validated = TLC rows (policy, context) replayed + trace files validated.")
	c.Assume("ed25519 and SHA-256 are what they claim: a signature by key k over hash x verifies only under k and x; garbage signatures/preimages (random, bit-flipped, other hash, stranger's key) verify under nothing")
	c.Assume("model heights/times are mapped to real ones monotonically (several bases incl. 2^32, 2^63, 2^64-1, negative Unix time, nanosecond steps); the comparison semantics are translation invariant")
	c.Assume("unlock keys of algorithm ed25519 carry 32-byte keys (other lengths are outside the model)")
	c.Assume("value classes: the meaning of a policy compares a parameter only with heights, times, list lengths and counts of the bounded model (checked by ASSUME in PolicyMC and per line in PolicyTrace), so one representative beyond all of them decides for every member of the class; the median time of the context itself is never taken outside the range of time.Time")

	// ---- TLC: design level + emission -------------------------------------------------------
	var cfgs []mcConfig
	if c.Thorough {
		cfgs = []mcConfig{
			{name: "wide", fam: "all", wide: 1, maxSigs: 3, maxPres: 2, stride: 1, offset: 0, workers: 8},
			{name: "pre3", fam: "all", wide: 0, maxSigs: 3, maxPres: 3, stride: 3, offset: int(c.Seed % 3), workers: 4},
			{name: "uc4", fam: "uc", wide: 0, maxSigs: 4, maxPres: 1, ucLen: 4, stride: 1, workers: 4},
			{name: "num", fam: "num", wide: 1, maxSigs: 3, maxPres: 2, stride: 1, workers: 6},
		}
	} else {
		cfgs = []mcConfig{{name: "quick", fam: "all", wide: 0, maxSigs: 3, maxPres: 2, stride: 2, offset: int(c.Seed % 2), workers: 8},
			{name: "num", fam: "num", wide: 0, maxSigs: 3, maxPres: 1, stride: 1, workers: 4}}
	}
	for i := range cfgs {
		if cfgs[i].offset < 0 {
			cfgs[i].offset = -cfgs[i].offset
		}
		if cfgs[i].ucLen == 0 {
			cfgs[i].ucLen = 3
		}
	}
	st := newStats()
	phase := map[string]float64{}
	var phaseMu sync.Mutex
	took := func(name string, since time.Time) {
		phaseMu.Lock()
		phase[name] = time.Since(since).Seconds()
		phaseMu.Unlock()
	}
	spaces := make([]*space, len(cfgs))
	var wg sync.WaitGroup
	var emu sync.Mutex
	var errs []string
	for i, m := range cfgs {
		wg.Add(1)
		go func(i int, m mcConfig) {
			defer wg.Done()
			t0 := time.Now()
			sp, err := runSpace(c, m)
			took("tlc_"+m.name, t0)
			if err != nil {
				emu.Lock()
				errs = append(errs, err.Error())
				emu.Unlock()
				return
			}
			spaces[i] = sp
			if os.Getenv("VERIF_C14_CORRUPT") == "row" {
				// binding demonstration: one expected verdict of one TLC row is flipped; the replay must notice
				for ri := range sp.rows {
					if acc := sp.rows[ri].Rows[0].Acc; len(acc) > 0 && ri > 20 {
						sp.rows[ri].Rows[0].Acc = acc[1:]
						break
					}
				}
			}
			t0 = time.Now()
			replaySpace(c, sp, envs, st, c.Seed)
			took("replay_"+m.name, t0)
			if sp.numeric && c.NViolations() < 12 {
				// every row of the numeric family through ValidateV2Transaction as well
				t0 = time.Now()
				replayConsensusNum(c, sp, 1000000, st, rand.New(rand.NewSource(c.Seed*131+7)))
				took("consensus_numeric", t0)
			}
		}(i, m)
	}
	// ---- direction B runs while TLC enumerates ------------------------------------------------
	wg.Add(1)
	go func() {
		defer wg.Done()
		t0 := time.Now()
		directionB(c, envs, rand.New(rand.NewSource(c.Seed*31+5)), c.Pick(3000, 40000), 4)
		decoderBomb(c)
		took("direction_b", t0)
	}()
	// ---- the size family: policies and witness lists at the magnitudes of the documented limits ----
	wg.Add(1)
	go func() {
		defer wg.Done()
		t0 := time.Now()
		sizeFamily(c, envs, c.Seed)
		took("size_family", t0)
	}()
	wg.Wait()
	if len(errs) > 0 {
		sort.Strings(errs)
		c.Fatal("%s", strings.Join(errs, " | "))
	}
	var tlcCases int64
	for _, sp := range spaces {
		nw := int64(len(sp.wit.Sigs) * len(sp.wit.Pres))
		rows := int64(0)
		for _, row := range sp.rows {
			rows += int64(len(row.Rows))
		}
		tlcCases += rows * nw
		c.Cov("space_"+sp.name, map[string]any{"policies_in_space": sp.wit.NPols, "policies_checked": sp.wit.NItems, "rows": rows, "witness_assignments": nw, "cases_checked_by_tlc": rows * nw})
	}
	c.Cov("tlc_verifyalg_eq_meaning_cases", tlcCases)

	// ---- the same rows through consensus ---------------------------------------------------------
	t0 := time.Now()
	if c.NViolations() < 12 {
		replayConsensus(c, spaces, c.Pick(1500, 12000), st, r)
	}
	took("consensus", t0)
	c.Cov("phase_seconds", phase)

	// ---- evidence and vacuity ----------------------------------------------------------------------
	c.Traces(st.rowsReplayed)
	c.Count(st.cases, st.nontrivial)
	c.Cov("verify_cases", st.cases)
	c.Cov("verify_accepts", st.accepts)
	c.Cov("verify_rejects", st.rejects)
	c.Cov("rows_replayed", st.rowsReplayed)
	c.Cov("accepted_cases_by_kind_in_policy", st.acceptKind)
	c.Cov("rejected_cases_by_kind_in_policy", st.rejectKind)
	c.Cov("rows_by_root", st.rootKind)
	c.Cov("rows_with_opaque", st.opaqueRows)
	c.Cov("uc_rows", st.ucRows)
	c.Cov("uc_accepts", st.ucAccepts)
	c.Cov("uc_accepts_with_garbage_on_unknown_algorithm", st.ucOtherAccept)
	c.Cov("address_terms_compared", st.addrTerm)
	c.Cov("address_opaque_variants_compared", st.addrVariants)
	c.Cov("needed_branch_hidden_variants", st.hidVariants)
	c.Cov("needed_branch_hidden_verify_rejects", st.hidRejects)
	c.Cov("policies_whose_verdict_flips_across_contexts", st.lockFlip)
	c.Cov("rows_by_context", st.ctxUsed)
	c.Cov("rows_by_environment", st.envUsed)
	c.Cov("numeric_cases_with_instantiated_class", st.numCases)
	c.Cov("numeric_row_replays", st.numReplays)
	c.Cov("numeric_extremes_verify_accepted_rejected", st.num)
	c.Cov("numeric_extremes_consensus_accepted_rejected", st.consNum)
	if c.NViolations() == 0 {
		numericGuards(c, "Verify", st.num)
		numericGuards(c, "ValidateV2Transaction", st.consNum)
		if st.numCases == 0 || st.numReplays == 0 || st.consNumRows == 0 {
			c.Infra("vacuity: numeric family: %d cases with an instantiated class, %d row replays, %d consensus rows", st.numCases, st.numReplays, st.consNumRows)
		}
	}
	if c.NViolations() == 0 {
		for _, k := range []string{"above", "after", "pk", "hash", "opaque", "thresh", "uc"} {
			if st.acceptKind[k] == 0 && k != "uc" {
				c.Infra("vacuity: no accepted case whose policy contains %s", k)
			}
			if st.rejectKind[k] == 0 {
				c.Infra("vacuity: no rejected case whose policy contains %s", k)
			}
		}
		if st.ucAccepts == 0 || st.ucRows == 0 || st.ucOtherAccept == 0 {
			c.Infra("vacuity: unlock conditions: rows=%d accepts=%d accepts with unknown algorithm=%d", st.ucRows, st.ucAccepts, st.ucOtherAccept)
		}
		if st.opaqueRows == 0 || st.hidVariants == 0 || st.hidRejects == 0 || st.addrVariants == 0 || st.addrTerm == 0 {
			c.Infra("vacuity: opaque: rows=%d hidden variants=%d rejects=%d address variants=%d", st.opaqueRows, st.hidVariants, st.hidRejects, st.addrVariants)
		}
		if st.lockFlip == 0 {
			c.Infra("vacuity: no policy whose verdict depends on the context")
		}
		for ci := 1; ci <= 5; ci++ {
			if st.ctxUsed[ci] == 0 {
				c.Infra("vacuity: context %d never used", ci)
			}
		}
		for _, k := range []string{"thresh-flat", "thresh-with-opaque", "thresh-nested", "thresh-with-uc", "uc", "pk", "hash", "above", "after", "opaque"} {
			if st.rootKind[k] == 0 {
				c.Infra("vacuity: no row of class %s", k)
			}
		}
		if st.cases < int64(c.Pick(20000, 500000)) {
			c.Infra("only %d cases replayed", st.cases)
		}
	}
	c.Finish()
}

// replayFile re-executes one saved case against the current tree.
func replayFile(c *vlib.Ctx, envs []*env) {
	b, err := os.ReadFile(c.Replay)
	if err != nil {
		c.Fatal("replay: %v", err)
	}
	var f struct {
		Key  string          `json:"key"`
		What string          `json:"what"`
		Case json.RawMessage `json:"case"`
	}
	var kind struct {
		Kind string `json:"kind"`
	}
	if err := json.Unmarshal(b, &f); err != nil {
		c.Fatal("replay: %v", err)
	}
	json.Unmarshal(f.Case, &kind)
	still := func(bad bool, now string) {
		if bad {
			c.Violation(f.Key, f.What+" [replayed: "+now+"]", f.Case)
		} else {
			fmt.Printf("replay: the case now agrees with the specification (%s)\n", now)
		}
		c.Finish()
	}
	switch kind.Kind {
	case "verify":
		var vc verifyCase
		if err := json.Unmarshal(f.Case, &vc); err != nil {
			c.Fatal("replay: %v", err)
		}
		got, txt, pan := vc.run(envs)
		still(pan || got != vc.Want, fmt.Sprintf("Verify accepts=%v %s", got, txt))
	case "consensus":
		var cc consCase
		if err := json.Unmarshal(f.Case, &cc); err != nil {
			c.Fatal("replay: %v", err)
		}
		got, txt, pan, err := cc.run()
		if err != nil {
			c.Fatal("replay: %v", err)
		}
		still(pan || got != cc.Want, fmt.Sprintf("ValidateV2Transaction accepts=%v %s", got, txt))
	case "trace":
		var tp tracePayload
		if err := json.Unmarshal(f.Case, &tp); err != nil {
			c.Fatal("replay: %v", err)
		}
		n, err := parseTerm(tp.Policy)
		if err != nil {
			c.Fatal("replay: %v", err)
		}
		l := &traceLine{n: markReal(n), h: tp.H, t: tp.T, sigs: tp.Sigs, pres: tp.Pres, garb: tp.Garb, env: tp.Env, inst: tp.Inst, origin: tp.Origin}
		hang, pan, detail := execLine(l, envs, 30*time.Second)
		if hang || pan || detail != "" {
			still(true, fmt.Sprintf("hang=%v panic=%v %s", hang, pan, detail))
		}
		rej, err := validateLines(c, []*traceLine{l}, 2)
		if err != nil {
			c.Fatal("replay: %v", err)
		}
		still(len(rej) > 0, fmt.Sprintf("Verify accepts=%v decoder accepts=%v; specification: %v", l.v, l.dec, rej))
	default:
		fmt.Printf("replay: case kind %q is re-checked by the regular run only\n", kind.Kind)
		c.Finish()
	}
}
