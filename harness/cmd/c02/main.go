// C02 — No double spend or double resolution, within or across blocks and transaction versions.
//
//  1. TLC proves NoDoubleUse / LiveNotGone on the bounded Ledger model, over the mechanism (spends set,
//     created set, committed maps), for v2 and v1 families.
//  2. Direction A: TLC simulates behaviours whose blocks end in a *second use*: the same parent twice in one
//     transaction, a variant of an earlier transaction of the block (same or other transaction version,
//     ephemeral parents included), an element spent or resolved in an earlier block presented again with its
//     proof kept current through every update, also after revert + re-apply. Each doubled block is re-signed
//     and re-sealed (commitment, payout, proof of work); the control block without the second use must be
//     accepted and the doubled one rejected by the real ValidateBlock. For v1 second uses across blocks the
//     stale element is also offered through an adversarial supplement.
//  3. Direction B: on every accepted history the multiset of spent / resolved IDs taken from the update
//     diffs (branch-aware) is checked to have no repeats.
package main

import (
	"fmt"
	"strings"
	"sync"
	"time"

	"go.sia.tech/core/consensus"
	"go.sia.tech/core/types"
	"verif/harness/chain"
	"verif/harness/vlib"
)


func main() {
	c := vlib.Start("C02")
	c.Rule("TLC -simulate behaviours of Ledger.tla with the second-use defect families (intx, reuse within the block incl. other transaction version and ephemeral parents, reuse of elements spent/resolved in earlier blocks, after revert+reapply); a case is non-trivial iff its control block (same block without the second use) was accepted by the real code; distinct = distinct (defect tag, behaviour) pairs. Plus: spent-ID multiset of every accepted history has no repeats.")
	c.Assume("honest-store model for v1 supplements; adversarial supplement tried for cross-block v1 reuse")

	mc := chain.BaseConfig(chain.Shapes()["v2only"])
	mc.MaxHeight, mc.MaxTxns, mc.MaxReverts = 2, 2, 1
	mc.Templates = []string{"pay", "sf", "form2", "rev2", "res2", "renew2"}
	mc.PayAmts, mc.FormRH, mc.P.GenSC = []int{599}, [][2]int{{250024, 25}}, []chain.AbsOut{{300000, "A"}, {1199, "B"}}
	mc.P.MatDelay = 1
	mc.Invariants = []string{"NoDoubleUse", "LiveNotGone", "Conservation"}
	r := chain.ModelCheck(c, mc, 10*time.Minute)
	c.Cov("mc_v2_states", r.Distinct)

	var mu sync.Mutex
	cells := map[string]int{}   // defect cell -> doubled blocks rejected with accepted control
	var histories, spentIDs int64
	type tally struct{ spent map[[32]byte]int }
	tallies := map[*chain.Sim]*tally{}
	opts := chain.RunOpts{Num: c.Pick(160, 4000), Depth: 56, Timeout: 20 * time.Minute,
		KeyOf: func(m chain.Mismatch) string { return m.Kind + "/" + m.Tag },
		NewSim: func(sim *chain.Sim) {
			t := &tally{spent: map[[32]byte]int{}}
			mu.Lock()
			tallies[sim] = t
			mu.Unlock()
			bump := func(id [32]byte, d int) {
				t.spent[id] += d
				if t.spent[id] > 1 {
					c.Violation("history/repeated-spent-id", fmt.Sprintf("element %x spent or resolved twice in an accepted history", id[:8]), nil)
				}
			}
			walk := func(scs []consensus.SiacoinElementDiff, sfs []consensus.SiafundElementDiff, fcs []consensus.FileContractElementDiff, v2 []consensus.V2FileContractElementDiff, d int) {
				for _, x := range scs {
					if x.Spent {
						bump(x.SiacoinElement.ID, d)
					}
				}
				for _, x := range sfs {
					if x.Spent {
						bump(x.SiafundElement.ID, d)
					}
				}
				for _, x := range fcs {
					if x.Resolved {
						bump(x.FileContractElement.ID, d)
					}
				}
				for _, x := range v2 {
					if x.Resolution != nil {
						bump(x.V2FileContractElement.ID, d)
					}
				}
			}
			sim.OnApply = func(_ consensus.State, _ types.Block, au consensus.ApplyUpdate) {
				walk(au.SiacoinElementDiffs(), au.SiafundElementDiffs(), au.FileContractElementDiffs(), au.V2FileContractElementDiffs(), 1)
				// a contract resolved once creates either its valid or its missed outputs, never both
				created := map[types.SiacoinOutputID]bool{}
				for _, d := range au.SiacoinElementDiffs() {
					if d.Created {
						created[d.SiacoinElement.ID] = true
					}
				}
				for _, d := range au.FileContractElementDiffs() {
					if d.Resolved && created[d.FileContractElement.ID.ValidOutputID(0)] && created[d.FileContractElement.ID.MissedOutputID(0)] {
						c.Violation("history/contract-resolved-twice-in-block", fmt.Sprintf("v1 contract %v was resolved twice in one accepted block: both its valid and its missed proof outputs were created", d.FileContractElement.ID), nil)
					}
				}
			}
			sim.OnRevert = func(_ consensus.State, _ types.Block, ru consensus.RevertUpdate) {
				walk(ru.SiacoinElementDiffs(), ru.SiafundElementDiffs(), ru.FileContractElementDiffs(), ru.V2FileContractElementDiffs(), -1)
			}
		},
		Hook: func(sim *chain.Sim, beh *chain.Behaviour, i int, st chain.Step, res chain.StepResult) {
			if st.Op != "block" || st.Verdict != "reject" || len(res.Mismatches) > 0 || res.Block == nil {
				return
			}
			tag := st.Txs[len(st.Txs)-1].Tag
			cell := fmt.Sprintf("v%d:%s", st.Txs[len(st.Txs)-1].Ver, tag)
			mu.Lock()
			cells[cell]++
			mu.Unlock()
			// cross-block v1 reuse: offer the stale elements (proofs kept current) in the supplement as well
			if strings.Contains(tag, "reuse-gone") && st.Txs[len(st.Txs)-1].Ver == 1 {
				bs := res.Supp
				ti := len(res.Block.Transactions) - 1
				txn := res.Block.Transactions[ti]
				for _, in := range txn.SiacoinInputs {
					if e, ok := sim.Store.GoneSC[in.ParentID]; ok {
						bs.Transactions[ti].SiacoinInputs = append(bs.Transactions[ti].SiacoinInputs, e.Copy())
					}
				}
				for _, in := range txn.SiafundInputs {
					if e, ok := sim.Store.GoneSF[in.ParentID]; ok {
						bs.Transactions[ti].SiafundInputs = append(bs.Transactions[ti].SiafundInputs, e.Copy())
					}
				}
				for _, sp := range txn.StorageProofs {
					if e, ok := sim.Store.GoneFC[sp.ParentID]; ok {
						bs.Transactions[ti].StorageProofs = append(bs.Transactions[ti].StorageProofs, consensus.V1StorageProofSupplement{FileContract: e.Copy(), WindowID: sim.CS.Index.ID})
					}
				}
				err, pan := sim.Validate(*res.Block, bs)
				if pan == nil && err == nil {
					c.Violation("accepted-invalid/reuse-gone-adversarial-supplement", "v1 block re-using an element spent in an earlier block accepted when the stale element is supplied in the supplement",
						chain.Payload(sim, beh, i))
				}
				mu.Lock()
				cells[cell+"+adversarial-supplement"]++
				mu.Unlock()
				// the same with a borrowed position: a genuine live element first, then the spent one carrying that
				// element's leaf index and proof
				bs2 := res.Supp
				bs2.Transactions = append([]consensus.V1TransactionSupplement(nil), res.Supp.Transactions...)
				borrowed := false
				for _, in := range txn.SiacoinInputs {
					if e, ok := sim.Store.GoneSC[in.ParentID]; ok {
						for _, id := range chain.SortedIDs(sim.Store.SC) {
							y := sim.Store.SC[id]
							f := e.Copy()
							f.StateElement = y.StateElement.Copy()
							bs2.Transactions[ti].SiacoinInputs = []types.SiacoinElement{y.Copy(), f}
							borrowed = true
							break
						}
					}
				}
				for _, in := range txn.SiafundInputs {
					if e, ok := sim.Store.GoneSF[in.ParentID]; ok {
						for _, id := range chain.SortedIDs(sim.Store.SF) {
							y := sim.Store.SF[id]
							f := e.Copy()
							f.StateElement = y.StateElement.Copy()
							bs2.Transactions[ti].SiafundInputs = []types.SiafundElement{y.Copy(), f}
							borrowed = true
							break
						}
					}
				}
				if borrowed {
					err, pan := sim.Validate(*res.Block, bs2)
					if pan == nil && err == nil {
						c.Violation("accepted-invalid/reuse-gone-borrowed-position", "v1 block re-using an element spent in an earlier block accepted when the supplement lists a genuine live element first and then the spent one with that element's position and proof",
							chain.Payload(sim, beh, i))
					}
					mu.Lock()
					cells[cell+"+borrowed-position"]++
					mu.Unlock()
				}
			}
		},
	}
	if c.Replay != "" {
		if positionsReplay(c) {
			c.Finish()
		}
		if !chain.Replay(c, opts) {
			c.Fatal("replay file holds no behaviour")
		}
		c.Finish()
	}
	total := chain.RunStats{Tags: map[string]int{}}
	type run struct {
		shape string
		tpl   []string
	}
	for _, rn := range []run{{"v1only", chain.AllTemplates}, {"mixed", chain.AllTemplates}, {"v2only", chain.AllTemplates},
		{"v1only", []string{"form1", "rev1", "prove1"}}, {"v2only", []string{"form2", "rev2", "res2", "renew2"}},
		{"mixed", []string{"pay", "sf", "form1", "rev1", "prove1", "form2", "rev2", "res2"}}} {
		cfg := chain.BaseConfig(chain.Shapes()[rn.shape])
		cfg.Templates = rn.tpl
		cfg.Defects = []string{"reuse", "intx", "confuse", "inblock"}
		cfg.MaxReverts = 2
		o := opts
		if len(rn.tpl) < len(chain.AllTemplates) {
			// several uses of one contract / output inside one block (revise, prove, then a second use)
			o.NoFocus = true
			cfg.Pay1, cfg.Sizes, cfg.FormRH, cfg.PayAmts, cfg.Fees, cfg.MaxTxns = []int{256411}, []int{200}, [][2]int{{250024, 25}}, []int{599}, []int{0}, 4
		}
		st := chain.Run(c, cfg, o)
		total.Behaviours += st.Behaviours
		total.Steps += st.Steps
		total.Accepted += st.Accepted
		total.Rejected += st.Rejected
	}
	// exhaustive narrow families: every behaviour (up to the first rejected block) of small configurations in which
	// several uses of one element meet in one block
	type fam struct {
		name, shape   string
		tpl           []string
		height, txns  int
		gen           []chain.AbsOut
	}
	fams := []fam{
		{"v1-contract", "v1only", []string{"form1", "rev1", "prove1"}, 2, 3, []chain.AbsOut{{600000, "B"}}},
		{"v2-contract", "v2only", []string{"form2", "rev2", "res2"}, 3, 2, []chain.AbsOut{{600000, "B"}}},
		{"v1-payments", "v1only", []string{"pay", "sf"}, 2, 2, []chain.AbsOut{{1199, "B"}}},
		{"v2-payments", "v2only", []string{"pay", "sf"}, 2, 2, []chain.AbsOut{{1199, "B"}}},
		// outputs behind unlock conditions that need no signature at all (nothing but the spent checks protects them)
		{"v1-nosig", "v1only", []string{"pay", "sf"}, 2, 2, []chain.AbsOut{{1199, "Z"}}},
		{"v2-nosig", "v2only", []string{"pay", "sf"}, 2, 2, []chain.AbsOut{{1199, "Z"}}},
		{"mixed-payments", "mixed", []string{"pay"}, 3, 2, []chain.AbsOut{{1199, "B"}}},
		// empty files need no storage proof data: the same (empty) proof twice in one transaction
		{"v1-contract-empty", "v1only", []string{"form1", "prove1"}, 2, 2, []chain.AbsOut{{600000, "B"}}},
		// three transactions in one block: a payment, a siafund transfer, then a parent named by a foreign id
		{"v2-confuse", "v2only", []string{"pay", "sf"}, 1, 3, []chain.AbsOut{{1199, "B"}}},
		// the developer-address override is one more way to spend a siafund output - still only once
		{"v1-devaddr", "devaddr", []string{"sf"}, 1, 3, nil},
		// below the ephemeral-output height a siafund output may be spent in the block that creates it - but only once
		{"v2-legacy-sf", "v2only", []string{"sf"}, 1, 3, []chain.AbsOut{{1199, "B"}}},
		// before the ephemeral-output height: a contract of no value formed without inputs would be replayable under one id
		{"v2-legacy-contract", "v2only", []string{"form2"}, 2, 2, []chain.AbsOut{{600000, "B"}}},
		// three uses of one v2 contract in one block (revise, renew, then anything)
		{"v2-renewal-3", "v2only", []string{"form2", "rev2", "renew2"}, 2, 3, []chain.AbsOut{{600000, "B"}, {300000, "B"}}},
	}
	if c.Thorough {
		fams = append(fams, fam{"v2-renewal", "v2only", []string{"form2", "rev2", "renew2"}, 3, 2, []chain.AbsOut{{600000, "B"}, {300000, "B"}}},
			fam{"mixed-payments-4", "mixed", []string{"pay"}, 4, 2, []chain.AbsOut{{1199, "B"}}},
			fam{"v1-contract-3", "v1only", []string{"form1", "rev1", "prove1"}, 3, 2, []chain.AbsOut{{600000, "B"}}})
	}
	for _, f := range fams {
		p := chain.Shapes()[f.shape]
		if f.gen != nil {
			p.GenSC = f.gen
		}
		if f.shape == "mixed" {
			p.AllowH, p.RequireH, p.EphH = 2, 4, 3
		}
		if f.name == "v2-legacy-sf" || f.name == "v2-legacy-contract" {
			p.EphH = 100
		}
		if f.name == "v1-devaddr" {
			p.DevH, p.DevLock = 1, 0 // the override is available from the first block
		}
		cfg := chain.BaseConfig(p)
		cfg.Addrs = []string{"B"}
		if strings.HasSuffix(f.name, "nosig") {
			cfg.Addrs = []string{"Z"}
			p.GenSF = []chain.AbsOut{{7000, "Z"}, {3000, "Z"}}
			cfg.P = p
		}
		cfg.Templates, cfg.Defects = f.tpl, []string{"reuse", "intx", "confuse", "inblock"}
		cfg.Pay1, cfg.Sizes, cfg.RevShifts, cfg.FormRH = []int{256411}, []int{200}, []int{24}, [][2]int{{250024, 25}}
		cfg.PayAmts, cfg.Fees, cfg.SFSplits = []int{599}, []int{0}, []int{3000}
		cfg.WinStarts, cfg.WinLens = []int{1}, []int{2}
		cfg.MaxHeight, cfg.MaxTxns, cfg.MaxReverts, cfg.NoPost = f.height, f.txns, 0, true
		if f.name == "v1-contract-empty" || f.name == "v2-contract" {
			cfg.Sizes = []int{0} // (v2: contracts with an even proof height are empty, the others are not)
		}
		if f.name == "v2-confuse" {
			cfg.Defects = []string{"confuse"}
		}
		if f.name == "v2-legacy-contract" {
			cfg.Defects = []string{"formation", "reuse"}
		}
		o := opts
		o.Exhaustive = true
		st := chain.Run(c, cfg, o)
		c.Cov("exhaustive_family_"+f.name+"_behaviours", st.Behaviours)
		total.Behaviours += st.Behaviours
		total.Steps += st.Steps
		total.Accepted += st.Accepted
		total.Rejected += st.Rejected
	}
	positions(c)
	for _, t := range tallies {
		histories++
		spentIDs += int64(len(t.spent))
	}
	c.Cov("doubled_blocks_rejected_with_accepted_control_by_cell", cells)
	c.Cov("histories_checked_for_repeated_spent_ids", histories)
	c.Cov("spent_ids_seen", spentIDs)
	c.Cov("blocks_accepted", total.Accepted)
	nontriv := int64(0)
	for _, v := range cells {
		nontriv += int64(v)
	}
	c.Traces(int64(total.Behaviours))
	c.Count(int64(total.Steps), nontriv)
	for _, need := range []string{"v2:pay!intx", "v1:pay!intx", "v2:pay!reuse", "v1:pay!reuse", "v2:reuse-gone", "v1:reuse-gone", "v2:sf!reuse", "v2:sf!intx", "v1:confuse", "v2:confuse", "v1:prove1!intx", "v1:sfdev!reuse", "v1:sfdev!intx", "v2:rev2!inblock", "v2:form2!zeroval"} {
		if cells[need] == 0 {
			c.Infra("vacuity: second-use cell %s never exercised", need)
		}
	}
	c.Finish()
}
