package main

import (
	"encoding/json"
	"fmt"
	"os"
	"strings"
	"sync"

	"verif/harness/chain"
	"verif/harness/vlib"
)

// Second uses at every position: spec/ledger/Positions.tla. TLC lists blocks of one or two transactions as sequences
// of parent slots together with the rule's verdict (acceptable iff no slot stands at two positions); every block is
// built four times on a real chain - siacoin and siafund inputs, v1 and v2 transactions (and, for two transactions,
// v1 followed by v2) - with real signatures, and the real ValidateBlock must agree. The outputs of a case are the sum
// of its inputs, the repeated parent counted twice.
type posCase struct {
	Kind string  `json:"kind"`
	Blk  [][]int `json:"blk"`
	I    int     `json:"i"`
	J    int     `json:"j"`
	OK   bool    `json:"ok"`
	Vers string  `json:"vers,omitempty"` // set in replay payloads
	Coin string  `json:"coin,omitempty"`
}

var onlyPos *posCase

func positionsReplay(c *vlib.Ctx) bool {
	b, err := os.ReadFile(c.Replay)
	if err != nil {
		c.Fatal("replay: %v", err)
	}
	var f struct {
		What string `json:"what"`
		Case struct {
			Positions *posCase `json:"positions"`
		} `json:"case"`
	}
	if json.Unmarshal(b, &f) != nil || f.Case.Positions == nil {
		return false
	}
	onlyPos = f.Case.Positions
	fmt.Printf("replaying positions case %s/%s %s i=%d j=%d widths=%v; required: %s must not happen\n", onlyPos.Vers, onlyPos.Coin, onlyPos.Kind, onlyPos.I, onlyPos.J, widths(onlyPos.Blk), f.What)
	runPositions(c, []posCase{*onlyPos})
	if c.NViolations() == 0 {
		fmt.Println("observed: the saved case no longer violates the property on this tree")
	}
	return true
}

func widths(blk [][]int) (w []int) {
	for _, t := range blk {
		w = append(w, len(t))
	}
	return
}

func positions(c *vlib.Ctx) {
	cfg := "INIT Init\nNEXT Next\nCONSTANTS Full = 12 Wide = {17, 33} Across = {1, 9, 10, 12}\nINVARIANTS Sound BothVerdicts\nCHECK_DEADLOCK FALSE\n"
	if c.Thorough {
		cfg = "INIT Init\nNEXT Next\nCONSTANTS Full = 20 Wide = {33, 65, 129} Across = {1, 8, 9, 10, 17, 33}\nINVARIANTS Sound BothVerdicts\nCHECK_DEADLOCK FALSE\n"
	}
	res := c.MustTLC(vlib.TLCOpts{SpecDirs: []string{"ledger"}, Module: "Positions", ConfText: cfg, Workers: 2, Xss: "64m"})
	var cases []posCase
	for _, ln := range res.Lines {
		if strings.HasPrefix(ln, "POSITIONS ") {
			if err := json.Unmarshal([]byte(vlib.UnquoteTLA(strings.TrimPrefix(ln, "POSITIONS "))), &cases); err != nil {
				c.Fatal("positions cases do not parse: %v", err)
			}
		}
	}
	if len(cases) == 0 {
		c.Fatal("Positions printed no cases")
	}
	runPositions(c, cases)
}

func runPositions(c *vlib.Ctx, cases []posCase) {
	var mu sync.Mutex
	cells := map[string]int{}
	var evals int64
	var wg sync.WaitGroup
	sem := make(chan struct{}, 12)
	for _, pc := range cases {
		versions := []string{"1", "2"}
		if len(pc.Blk) == 2 {
			versions = []string{"11", "22", "12"}
		}
		for _, vers := range versions {
			for _, coin := range []string{"sc", "sf"} {
				if onlyPos != nil && (vers != onlyPos.Vers || coin != onlyPos.Coin) {
					continue
				}
				wg.Add(1)
				sem <- struct{}{}
				go func(pc posCase, vers, coin string) {
					defer wg.Done()
					defer func() { <-sem }()
					nslots := 0
					for _, t := range pc.Blk {
						for _, s := range t {
							if s > nslots {
								nslots = s
							}
						}
					}
					p := chain.Params{MatDelay: 1, AllowH: 1000, RequireH: 1001, EphH: 1002, FoundH: 5000, Reward: 500}
					switch vers {
					case "2", "22":
						p.AllowH, p.RequireH, p.EphH = 0, 1, 0
					case "12":
						p.AllowH, p.RequireH, p.EphH = 1, 5, 1
					}
					val := func(slot int) uint64 {
						if coin == "sf" {
							if slot == nslots {
								return uint64(10000 - 7*(nslots-1))
							}
							return 7
						}
						return uint64(1000 + slot)
					}
					for s := 1; s <= nslots; s++ {
						if coin == "sf" {
							p.GenSF = append(p.GenSF, chain.AbsOut{Val: val(s), Addr: "A"})
						} else {
							p.GenSC = append(p.GenSC, chain.AbsOut{Val: val(s), Addr: "A"})
						}
					}
					if coin == "sf" {
						p.GenSC = []chain.AbsOut{{Val: 1000, Addr: "B"}}
					} else {
						p.GenSF = []chain.AbsOut{{Val: 10000, Addr: "B"}}
					}
					sim := chain.NewSim(p)
					ctx := sim.NewBlockCtx()
					for ti, t := range pc.Blk {
						tx := chain.AbsTx{Ver: int(vers[ti] - '0'), Tag: "positions"}
						var sum uint64
						for _, s := range t {
							sum += val(s)
							if coin == "sf" {
								tx.Sfi = append(tx.Sfi, chain.AbsSfIn{ID: chain.SID{chain.SFO, 0, 0, s, 0}, Claim: "A", Auth: "ok"})
							} else {
								tx.Sci = append(tx.Sci, chain.AbsIn{ID: chain.SID{chain.SCO, 0, 0, s, 0}, Auth: "ok"})
							}
						}
						if coin == "sf" {
							tx.Sfo = []chain.AbsOut{{Val: sum, Addr: "B"}}
						} else {
							tx.Sco = []chain.AbsOut{{Val: sum, Addr: "B"}}
						}
						if err := ctx.Add(tx); err != nil {
							c.Infra("positions: %v", err)
							return
						}
					}
					b := sim.Seal(ctx.V1, ctx.V2)
					err, pan := sim.Validate(b, sim.Supplement(ctx.V1))
					pc.Vers, pc.Coin = vers, coin
					payload := map[string]any{"positions": pc}
					cell := fmt.Sprintf("v%s/%s/%s", vers, coin, pc.Kind)
					mu.Lock()
					evals++
					if pc.OK {
						cells[cell+"/control"]++
					} else {
						cells[cell+"/repeated"]++
					}
					mu.Unlock()
					switch {
					case pan != nil:
						fmt.Printf("NOTE: positions case %s i=%d j=%d widths=%v panicked (%v): belongs to C10\n", cell, pc.I, pc.J, widths(pc.Blk), pan)
					case pc.OK && err != nil:
						c.Violation("positions/"+cell+"/control-rejected", fmt.Sprintf("a block of %d transaction(s) of widths %v spending distinct parents is rejected: %v", len(pc.Blk), widths(pc.Blk), err), payload)
					case !pc.OK && err == nil:
						where := fmt.Sprintf("input %d of the transaction names the parent of its input %d", pc.J-1, pc.I-1)
						if pc.Kind == "across" {
							where = fmt.Sprintf("input %d of the second transaction names the parent of input %d of the first", pc.J-1, pc.I-1)
						}
						c.Violation("positions/"+cell+"/accepted", fmt.Sprintf("block accepted although %s (widths %v; outputs count the parent twice)", where, widths(pc.Blk)), payload)
					}
				}(pc, vers, coin)
			}
		}
	}
	wg.Wait()
	if onlyPos != nil {
		return
	}
	c.Cov("positions_cases_by_cell", cells)
	c.Count(evals, evals)
	for _, need := range []string{"v1/sc/within/repeated", "v2/sc/within/repeated", "v1/sf/within/repeated", "v2/sf/within/repeated", "v22/sc/across/repeated", "v12/sc/across/repeated", "v11/sf/across/repeated", "v2/sc/within/control", "v1/sf/within/control"} {
		if cells[need] == 0 {
			c.Infra("vacuity: positions cell %s never exercised", need)
		}
	}
}
