package main

// Admission cases (spec/rhp/Admission.tla): the request Validate methods of rhp/v4 in the loop.
//
// TLC enumerates abstract requests on both sides of every gate of the admission rules together with the
// gate the rules expect. The harness realises each case at real magnitudes on a real chain (a lineage
// whose contract has the shape / the distance to its proof height the case asks for), calls the real
// Validate method, and for every request Validate admits runs the real constructor (and cost function),
// signs the result and submits it to the real consensus.ValidateV2Transaction on the ledger that holds the
// contract. Everything is logged as one "adm" trace line; ContractsTrace re-evaluates the admission rules
// on the concrete request and compares: rule verdict = Validate verdict, admitted => consensus-valid.

import (
	"fmt"
	"math"
	"math/big"
	"sort"
	"time"

	"go.sia.tech/core/consensus"
	rhp4 "go.sia.tech/core/rhp/v4"
	"go.sia.tech/core/types"
	"verif/harness/vlib"
)

type admCase = map[string]any

// admPlan is one admission lineage: the cases it runs and the contract they need.
type admPlan struct {
	Kind  string    `json:"kind"` // heights | ctx | bulk
	Sz    int       `json:"sz"`
	Cap   int       `json:"cap"`
	Rep   int       `json:"rep"`
	Cases []admCase `json:"cases"`
}

func ki(k admCase, f string) int {
	switch v := k[f].(type) {
	case float64:
		return int(v)
	case int:
		return v
	}
	panic("admission case: field " + f + " is not a number")
}
func ks(k admCase, f string) string { s, _ := k[f].(string); return s }
func kb(k admCase, f string) bool   { b, _ := k[f].(bool); return b }

func isHeightsRPC(rpc string) bool {
	return rpc == "form" || rpc == "renew" || rpc == "refreshP" || rpc == "refreshF"
}

// admPlans groups the cases TLC emitted into lineages; reps = repetitions (different magnitudes / scales).
func admPlans(cases []admCase, reps int) []*admPlan {
	var plans []*admPlan
	var heights, bulk []admCase
	ctx := map[[2]int][]admCase{}
	for _, k := range cases {
		switch {
		case isHeightsRPC(ks(k, "rpc")):
			heights = append(heights, k)
		case k["bulk"] != nil && ki(k, "bulk") != 0:
			bulk = append(bulk, k)
		default:
			key := [2]int{ki(k, "sz"), ki(k, "cap")}
			ctx[key] = append(ctx[key], k)
		}
	}
	var keys [][2]int
	for key := range ctx {
		keys = append(keys, key)
	}
	sort.Slice(keys, func(i, j int) bool {
		return keys[i][1] < keys[j][1] || (keys[i][1] == keys[j][1] && keys[i][0] < keys[j][0])
	})
	for rep := 0; rep < reps; rep++ {
		plans = append(plans, &admPlan{Kind: "heights", Rep: rep, Cases: heights})
		for _, key := range keys {
			plans = append(plans, &admPlan{Kind: "ctx", Sz: key[0], Cap: key[1], Rep: rep, Cases: ctx[key]})
		}
	}
	for rep := 0; rep < (reps+2)/3; rep++ {
		plans = append(plans, &admPlan{Kind: "bulk", Sz: 2, Cap: 2, Rep: rep, Cases: bulk})
	}
	return plans
}

func plainOp(k string, a, g int) skOp {
	return skOp{K: k, A: a, F: "ample", C: "ample", G: g, OK: true}
}

// runAdmission executes one admission lineage.
func runAdmission(idx int, plan *admPlan, seed int64) *seqRun {
	s := newSeqRun(idx, nil, seed)
	s.adm = plan
	ch, err := newChain()
	if err != nil {
		s.infraf("chain: %v", err)
		return s
	}
	s.ch = ch
	switch plan.Kind {
	case "ctx":
		if plan.Rep == 0 {
			s.scale = 1 // unit scale: index counts compare with sector counts exactly
		}
		s.sk = []skOp{plainOp("new", 1, 0)}
		if plan.Cap > 0 {
			s.sk = append(s.sk, plainOp("append", plan.Cap, plan.Cap))
		}
		if plan.Cap > plan.Sz {
			s.sk = append(s.sk, plainOp("free", plan.Cap-plan.Sz, 0))
		}
		s.prefix()
		for _, k := range plan.Cases {
			if s.abort != "" {
				break
			}
			s.admCase(k)
		}
	case "bulk":
		// 2 * MaxSectorBatchSize sectors, appended in four requests well inside the batch limit
		s.scale = rhp4.MaxSectorBatchSize / 2
		s.sk = []skOp{plainOp("new", 1, 0), plainOp("append", 1, 1), plainOp("append", 1, 1), plainOp("append", 1, 1), plainOp("append", 1, 1)}
		s.prefix()
		for _, k := range plan.Cases {
			if s.abort != "" {
				break
			}
			s.admCase(k)
		}
	case "heights":
		// tall enough for price tables signed 25 blocks ago and proof heights that have passed
		for ch.height() < 30+uint64(plan.Rep) {
			if err := ch.mine(); err != nil {
				s.infraf("mining: %v", err)
				return s
			}
		}
		var later []admCase
		for _, k := range plan.Cases {
			if ks(k, "rpc") == "form" {
				if s.abort == "" {
					s.admCase(k)
				}
			} else {
				later = append(later, k)
			}
		}
		// a contract with its proof height well ahead and some data stored
		s.sk = []skOp{plainOp("new", 1, 0), plainOp("append", 1, 1)}
		s.forceExtra = 45
		s.prefix()
		// existing proof height - tip: 40, 19, ... -2, reached by mining
		sort.SliceStable(later, func(i, j int) bool { return ki(later[i], "e") > ki(later[j], "e") })
		for _, k := range later {
			if s.abort != "" {
				break
			}
			target := int64(s.cur.ProofHeight) - int64(ki(k, "e"))
			if int64(ch.height()) > target {
				s.infraf("admission: tip %d is already beyond proof height %d - %d", ch.height(), s.cur.ProofHeight, ki(k, "e"))
				break
			}
			for int64(ch.height()) < target {
				if err := ch.mine(); err != nil {
					s.infraf("mining: %v", err)
					return s
				}
			}
			s.admCase(k)
		}
	default:
		s.infraf("unknown admission plan %q", plan.Kind)
	}
	if s.abort != "" && s.abort != "infra" {
		s.st.aborted++
	}
	s.st.blocks = ch.blocks
	return s
}

// prefix executes the lineage's skeleton (formation and the revisions that give the contract its shape).
func (s *seqRun) prefix() {
	for i := range s.sk {
		if s.abort != "" {
			return
		}
		if isSegStart(s.sk[i].K) {
			s.segStart(i)
		} else {
			s.revision(i)
		}
	}
}

func sealPrices(p *rhp4.HostPrices, pv string) {
	signPrices(p)
	switch pv {
	case "expired":
		p.ValidUntil = time.Now().Add(-time.Hour)
		p.Signature = hostKey.SignHash(p.SigHash())
	case "badsig":
		p.Signature[7] ^= 0x10
	}
}

func big64(x uint64) *big.Int { return new(big.Int).SetUint64(x) }

// record what Validate said
func (s *seqRun) admLine(rpc string, k admCase, req ev, live bool) ev {
	e := ev{"ev": "adm", "seq": s.idx, "op": "adm-" + rpc, "rpc": rpc, "kase": k, "req": req, "live": live,
		"vpanic": false, "admitted": false, "verr": "", "cpanic": false, "cerr": false, "submitted": false, "accepted": false, "cons": "",
		"child": int(s.ch.childHeight())}
	if live {
		e["before"] = fcJSON(s.cur)
	}
	return e
}

func (s *seqRun) admVerdict(e ev, rpc string, k admCase, vpanic bool, pval any, verr error) bool {
	gate := ks(k, "gate")
	switch {
	case vpanic:
		e["vpanic"], e["verr"] = true, fmt.Sprint(pval)
		s.st.adm[rpc+"/"+gate+"/panic"]++
	case verr != nil:
		e["verr"] = verr.Error()
		s.st.adm[rpc+"/"+gate+"/refused"]++
	default:
		e["admitted"] = true
		s.st.adm[rpc+"/"+gate+"/admitted"]++
		s.st.validated++
	}
	return !vpanic && verr == nil
}

func (s *seqRun) admSubmit(e ev, rpc string, txn types.V2Transaction) {
	var verr error
	if pnc, v := vlib.Recover(func() { verr = consensus.ValidateV2Transaction(consensus.NewMidState(s.ch.cs), txn) }); pnc {
		verr = fmt.Errorf("ValidateV2Transaction panicked: %v", v)
	}
	e["submitted"], e["accepted"] = true, verr == nil
	if verr != nil {
		e["cons"] = verr.Error()
		s.st.adm[rpc+"/admitted-refused-by-consensus"]++
	} else {
		s.st.accepted++
		s.st.adm[rpc+"/admitted-accepted-by-consensus"]++
	}
}

// fundedBy spends both wallets and returns the change: a transaction funded with exactly rcost + hcost.
func (s *seqRun) fundedBy(txn *types.V2Transaction, rcost, hcost types.Currency) error {
	ch := s.ch
	for _, x := range []struct {
		addr types.Address
		cost types.Currency
	}{{ch.raddr, rcost}, {ch.haddr, hcost}} {
		if x.cost.IsZero() {
			continue
		}
		w, ok := ch.wallet(x.addr)
		if !ok {
			return fmt.Errorf("wallet output missing")
		}
		rest, uf := w.SiacoinOutput.Value.SubWithUnderflow(x.cost)
		if uf {
			return fmt.Errorf("wallet exhausted")
		}
		txn.SiacoinInputs = append(txn.SiacoinInputs, ch.input(w))
		if !rest.IsZero() {
			txn.SiacoinOutputs = append(txn.SiacoinOutputs, types.SiacoinOutput{Address: x.addr, Value: rest})
		}
	}
	return nil
}

func (s *seqRun) admCase(k admCase) {
	rpc := ks(k, "rpc")
	s.st.ops["adm-"+rpc]++
	switch rpc {
	case "form", "renew", "refreshP", "refreshF":
		s.admSegStart(rpc, k)
	case "append", "free", "roots":
		s.admPriced(rpc, k)
	case "fund", "replenish":
		s.admAccounts(rpc, k)
	default:
		s.infraf("admission: unknown rpc %q", rpc)
	}
}

// admSegStart realises a form / renew / refresh case.
func (s *seqRun) admSegStart(rpc string, k admCase) {
	ch, r := s.ch, s.r
	tip := ch.height()
	old := s.cur
	live := rpc != "form"
	if live && (ch.fce == nil || int64(old.ProofHeight)-int64(tip) != int64(ki(k, "e"))) {
		s.infraf("admission: %s case wants the contract %d blocks before its proof height", rpc, ki(k, "e"))
		return
	}
	if tip < 30 {
		s.infraf("admission: chain too short (%d)", tip)
		return
	}
	var ptip uint64
	if !kb(k, "z") {
		ptip = uint64(int64(tip) + int64(ki(k, "o")))
	}
	p := drawPrices(r, ptip)
	if kb(k, "pc0") {
		p.Collateral = types.ZeroCurrency
	} else if p.Collateral.IsZero() {
		p.Collateral = types.NewCurrency64(uint64(1 + r.Intn(5)))
	}
	if p.StoragePrice.IsZero() {
		p.StoragePrice = types.NewCurrency64(uint64(1 + r.Intn(5)))
	}
	// requested collateral: at least twice the collateral price (so that the minimum allowance is >= 2)
	collB := mag(r, 1, 90)
	if !p.Collateral.IsZero() {
		if lo := new(big.Int).Lsh(p.Collateral.Big(), 1); collB.Cmp(lo) < 0 {
			collB = new(big.Int).Add(lo, big.NewInt(int64(r.Intn(7))))
		}
	}
	q := new(big.Int)
	if !p.Collateral.IsZero() {
		q.Div(collB, p.Collateral.Big())
		if new(big.Int).Mul(q, p.StoragePrice.Big()).BitLen() > 100 {
			p.StoragePrice = types.NewCurrency64(uint64(1 + r.Intn(3)))
		}
	}
	coll := cur(collB)
	minAllow := rhp4.MinRenterAllowance(p, coll)
	var allow types.Currency
	switch ks(k, "allow") {
	case "zero":
	case "below":
		if minAllow.Cmp(types.NewCurrency64(2)) < 0 {
			s.infraf("admission: minimum allowance %v too small for class below", minAllow)
			return
		}
		allow = minAllow.Sub(types.NewCurrency64(1))
	case "min":
		allow = minAllow
	default:
		allow = minAllow.Add(cur(mag(r, 30, 100)))
	}
	// proof height and duration
	var ph uint64
	if rpc == "form" || rpc == "renew" {
		switch ki(k, "huge") {
		case 0:
			ph = uint64(int64(tip) + int64(ki(k, "x")))
		case 1:
			ph = math.MaxUint64 - rhp4.ProofWindow
		case 2:
			ph = math.MaxUint64 - rhp4.ProofWindow + 1
		case 3:
			ph = math.MaxUint64
		}
	}
	durB := new(big.Int).Sub(new(big.Int).Add(big64(ph), big.NewInt(rhp4.ProofWindow)), big64(ptip))
	if durB.Sign() < 0 {
		durB.SetInt64(0)
	}
	var maxDur uint64
	switch ks(k, "dur") {
	case "max":
		maxDur = durB.Uint64()
	case "above":
		maxDur = durB.Uint64() - 1
	case "huge":
		maxDur = math.MaxUint64
	default:
		maxDur = durB.Uint64() + 1000
	}
	// collateral the request makes the host lock, and the host's limit relative to it
	totalB := new(big.Int).Set(collB)
	switch rpc {
	case "renew":
		if ki(k, "huge") == 0 { // (a proof height at the uint64 limit is refused before the collateral is looked at)
			totalB.Add(totalB, new(big.Int).Mul(new(big.Int).Mul(p.Collateral.Big(), big64(old.Filesize)), durB))
		}
	case "refreshP":
		totalB.Add(totalB, old.RiskedCollateral().Big())
	case "refreshF":
		totalB.Add(totalB, old.TotalCollateral.Big())
	}
	if totalB.BitLen() > 126 {
		s.infraf("admission: total collateral out of range")
		return
	}
	var maxColl types.Currency
	switch ks(k, "coll") {
	case "max":
		maxColl = cur(totalB)
	case "above":
		maxColl = cur(new(big.Int).Sub(totalB, one))
	default:
		maxColl = cur(new(big.Int).Add(totalB, new(big.Int).Add(mag(r, 0, 80), one)))
	}
	sealPrices(&p, ks(k, "pv"))
	fee := cur(mag(r, 1, 70))
	if kb(k, "fee0") {
		fee = types.ZeroCurrency
	}
	basis := ch.cs.Index
	if kb(k, "basis0") {
		basis = types.ChainIndex{}
	}
	rw, _ := ch.wallet(ch.raddr)
	inputs := []types.SiacoinElement{rw}
	if rpc == "form" && kb(k, "noIn") {
		inputs = nil
	}
	req := ev{"pv": ks(k, "pv") == "ok", "feeZero": fee.IsZero(), "basisZero": basis == (types.ChainIndex{}),
		"tip": LU(tip), "ptip": LU(ptip), "allow": L(allow), "coll": L(coll), "maxColl": L(maxColl),
		"sp": L(p.StoragePrice), "pc": L(p.Collateral), "q": vlib.Limbs(q)}
	var verr error
	var vpanic bool
	var pval any
	var txn types.V2Transaction
	var build func() error // constructor + cost function + transaction
	switch rpc {
	case "form":
		req["nIn"], req["ph"], req["maxDur"] = len(inputs), LU(ph), LU(maxDur)
		params := rhp4.RPCFormContractParams{RenterPublicKey: ch.renter.PublicKey(), RenterAddress: ch.raddr, Allowance: allow, Collateral: coll, ProofHeight: ph}
		rq := rhp4.RPCFormContractRequest{Prices: p, Contract: params, MinerFee: fee, Basis: basis, RenterInputs: inputs}
		vpanic, pval = vlib.Recover(func() { verr = rq.Validate(ch.host.PublicKey(), ch.cs.Index, maxColl, maxDur) })
		build = func() error {
			nc, _ := rhp4.NewContract(p, params, ch.host.PublicKey(), ch.haddr)
			rcost, hcost := rhp4.ContractCost(ch.cs, nc, fee)
			txn = types.V2Transaction{MinerFee: fee}
			if err := s.fundedBy(&txn, rcost, hcost); err != nil {
				return err
			}
			ch.signContract(&nc)
			txn.FileContracts = []types.V2FileContract{nc}
			return nil
		}
	case "renew":
		req["ph"], req["maxDur"], req["exPh"], req["fs"] = LU(ph), LU(maxDur), LU(old.ProofHeight), LU(old.Filesize)
		params := rhp4.RPCRenewContractParams{ContractID: types.FileContractID(ch.fce.ID), Allowance: allow, Collateral: coll, ProofHeight: ph}
		rq := rhp4.RPCRenewContractRequest{Prices: p, Renewal: params, MinerFee: fee, Basis: basis, RenterInputs: inputs}
		rq.ChallengeSignature = ch.renter.SignHash(rq.ChallengeSigHash(old.RevisionNumber))
		vpanic, pval = vlib.Recover(func() { verr = rq.Validate(ch.host.PublicKey(), ch.cs.Index, old, maxColl, maxDur) })
		build = func() error {
			renewal, _ := rhp4.RenewContract(old, p, ch.haddr, params)
			rcost, hcost := rhp4.RenewalCost(ch.cs, renewal, fee)
			txn = types.V2Transaction{MinerFee: fee}
			if err := s.fundedBy(&txn, rcost, hcost); err != nil {
				return err
			}
			ch.signRenewal(&renewal)
			txn.FileContractResolutions = []types.V2FileContractResolution{{Parent: ch.fce.Copy(), Resolution: &renewal}}
			return nil
		}
	default:
		partial := rpc == "refreshP"
		req["exPh"], req["partial"], req["exTc"], req["exMh"] = LU(old.ProofHeight), partial, L(old.TotalCollateral), L(old.MissedHostValue)
		params := rhp4.RPCRefreshContractParams{ContractID: types.FileContractID(ch.fce.ID), Allowance: allow, Collateral: coll}
		rq := rhp4.RPCRefreshContractRequest{Prices: p, Refresh: params, MinerFee: fee, Basis: basis, RenterInputs: inputs}
		rq.ChallengeSignature = ch.renter.SignHash(rq.ChallengeSigHash(old.RevisionNumber))
		vpanic, pval = vlib.Recover(func() { verr = rq.Validate(ch.host.PublicKey(), ch.cs.Index, old, maxColl, partial) })
		build = func() error {
			var renewal types.V2FileContractRenewal
			if partial {
				renewal, _ = rhp4.RefreshContractPartialRollover(old, p, ch.haddr, params)
			} else {
				renewal, _ = rhp4.RefreshContractFullRollover(old, p, ch.haddr, params)
			}
			rcost, hcost := rhp4.RefreshCost(ch.cs, p, renewal, fee)
			txn = types.V2Transaction{MinerFee: fee}
			if err := s.fundedBy(&txn, rcost, hcost); err != nil {
				return err
			}
			ch.signRenewal(&renewal)
			txn.FileContractResolutions = []types.V2FileContractResolution{{Parent: ch.fce.Copy(), Resolution: &renewal}}
			return nil
		}
	}
	e := s.admLine(rpc, k, req, live)
	if s.admVerdict(e, rpc, k, vpanic, pval, verr) {
		var berr error
		if cp, v := vlib.Recover(func() { berr = build() }); cp {
			e["cpanic"], e["cons"] = true, fmt.Sprint(v)
		} else if berr != nil {
			s.events = append(s.events, e)
			s.infraf("admission: funding: %v", berr)
			return
		} else {
			ch.signInputs(&txn)
			s.admSubmit(e, rpc, txn)
		}
	}
	s.events = append(s.events, e)
}

// cheap scales the prices down until the renter can afford cost() from a quarter of the balance, and
// drops the collateral price if the host's remaining collateral does not cover it.
func (s *seqRun) cheap(p *rhp4.HostPrices, fc types.V2FileContract, usage func() rhp4.Usage) {
	limit := new(big.Int).Rsh(fc.RenterOutput.Value.Big(), 2)
	cost := func() *big.Int { return usage().RenterCost().Big() }
	for _, pv := range []*types.Currency{&p.StoragePrice, &p.IngressPrice, &p.EgressPrice, &p.FreeSectorPrice} {
		fit(pv, limit, cost)
	}
	if usage().RiskedCollateral.Cmp(fc.MissedHostValue) > 0 {
		p.Collateral = types.ZeroCurrency
	}
}

// admPriced realises an append / free / roots case on the lineage's contract.
func (s *seqRun) admPriced(rpc string, k admCase) {
	ch, r := s.ch, s.r
	fc := s.cur
	if ch.fce == nil || fc.ProofHeight < ch.childHeight() {
		s.infraf("admission: no revisable contract")
		return
	}
	sectors := fc.Filesize / rhp4.SectorSize
	unit := s.scale
	if ki(k, "bulk") != 0 {
		unit = rhp4.MaxSectorBatchSize
	}
	if want := uint64(ki(k, "sz")) * unit; sectors != want || fc.Capacity/rhp4.SectorSize != uint64(ki(k, "cap"))*unit {
		s.infraf("admission: contract stores %d sectors (capacity %d), the case wants %d / %d", sectors, fc.Capacity/rhp4.SectorSize, want, uint64(ki(k, "cap"))*unit)
		return
	}
	tip := ch.height()
	p := drawPrices(r, tip-uint64(r.Intn(2)))
	bulk := ki(k, "bulk")
	bulkN := uint64(rhp4.MaxSectorBatchSize)
	if bulk == 2 {
		bulkN++
	}
	id := types.FileContractID(ch.fce.ID)
	req := ev{"pv": ks(k, "pv") == "ok"}
	var verr error
	var vpanic bool
	var pval any
	var build func() (types.V2FileContract, error)
	switch rpc {
	case "append":
		n := uint64(ki(k, "n")) * s.scale
		if bulk != 0 {
			n = bulkN
		}
		req["n"] = int(n)
		dur := fc.ExpirationHeight - p.TipHeight
		growth := n - min(n, (fc.Capacity-fc.Filesize)/rhp4.SectorSize)
		s.cheap(&p, fc, func() rhp4.Usage { return p.RPCAppendSectorsCost(growth, dur) })
		sealPrices(&p, ks(k, "pv"))
		rq := rhp4.RPCAppendSectorsRequest{Prices: p, Sectors: make([]types.Hash256, n), ContractID: id}
		rq.ChallengeSignature = ch.renter.SignHash(rq.ChallengeSigHash(fc.RevisionNumber + 1))
		vpanic, pval = vlib.Recover(func() { verr = rq.Validate(ch.host.PublicKey()) })
		build = func() (types.V2FileContract, error) {
			rev, _, err := rhp4.ReviseForAppendSectors(fc, p, types.Hash256{byte(s.idx), 3}, n)
			return rev, err
		}
	case "free":
		var indices []uint64
		runs := []ev{}
		if bulk != 0 {
			indices = make([]uint64, bulkN)
			for j := range indices {
				indices[j] = uint64(j)
			}
			runs = append(runs, ev{"from": 0, "cnt": int(bulkN)})
		} else {
			// unit index a stands for one concrete index inside [a*scale, (a+1)*scale); equal units, equal indices
			conc := map[int]uint64{}
			for _, a := range k["idx"].([]any) {
				u := int(a.(float64))
				if _, ok := conc[u]; !ok {
					conc[u] = uint64(u)*s.scale + uint64(r.Int63n(int64(s.scale)))
				}
				indices = append(indices, conc[u])
				runs = append(runs, ev{"from": int(conc[u]), "cnt": 1})
			}
		}
		req["fs"], req["runs"] = LU(fc.Filesize), runs
		s.cheap(&p, fc, func() rhp4.Usage { return p.RPCFreeSectorsCost(len(indices)) })
		sealPrices(&p, ks(k, "pv"))
		rq := rhp4.RPCFreeSectorsRequest{ContractID: id, Prices: p, Indices: indices}
		rq.ChallengeSignature = ch.renter.SignHash(rq.ChallengeSigHash(fc.RevisionNumber + 1))
		vpanic, pval = vlib.Recover(func() { verr = rq.Validate(ch.host.PublicKey(), fc) })
		build = func() (types.V2FileContract, error) {
			rev, _, err := rhp4.ReviseForFreeSectors(fc, p, types.Hash256{byte(s.idx), 4}, len(indices))
			return rev, err
		}
	case "roots":
		off, length := uint64(ki(k, "off"))*s.scale, uint64(ki(k, "len"))*s.scale
		if bulk != 0 {
			off, length = 0, bulkN
		}
		req["fs"], req["off"], req["len"] = LU(fc.Filesize), int(off), int(length)
		s.cheap(&p, fc, func() rhp4.Usage { return p.RPCSectorRootsCost(length) })
		sealPrices(&p, ks(k, "pv"))
		rq := rhp4.RPCSectorRootsRequest{Prices: p, ContractID: id, RenterSignature: types.Signature{1}, Offset: off, Length: length}
		vpanic, pval = vlib.Recover(func() { verr = rq.Validate(ch.host.PublicKey(), fc) })
		build = func() (types.V2FileContract, error) {
			rev, _, err := rhp4.ReviseForSectorRoots(fc, p, length)
			return rev, err
		}
	}
	s.admRevision(rpc, k, req, vpanic, pval, verr, build)
}

// admAccounts realises a fund / replenish case.
func (s *seqRun) admAccounts(rpc string, k admCase) {
	ch, r := s.ch, s.r
	fc := s.cur
	if ch.fce == nil || fc.ProofHeight < ch.childHeight() {
		s.infraf("admission: no revisable contract")
		return
	}
	n := ki(k, "n")
	id := types.FileContractID(ch.fce.ID)
	if kb(k, "id0") {
		id = types.FileContractID{}
	}
	sig := types.Signature{1}
	if kb(k, "sig0") {
		sig = types.Signature{}
	}
	bad := -1
	if n > 0 {
		bad = []int{0, n - 1, r.Intn(n)}[r.Intn(3)]
	}
	req := ev{"idZero": id == (types.FileContractID{}), "sigZero": sig == (types.Signature{}), "n": n, "zeroAcct": false}
	var verr error
	var vpanic bool
	var pval any
	var amount types.Currency
	var build func() (types.V2FileContract, error)
	acct := func(j int) rhp4.Account {
		a := rhp4.Account{byte(j), byte(j >> 8), 1}
		if kb(k, "acct0") && j == bad {
			a = rhp4.Account{}
			req["zeroAcct"] = true
		}
		return a
	}
	switch rpc {
	case "fund":
		req["zeroAmt"] = false
		rq := rhp4.RPCFundAccountsRequest{ContractID: id, RenterSignature: sig}
		for j := 0; j < n; j++ {
			amt := types.NewCurrency64(uint64(1 + r.Intn(1000)))
			if kb(k, "amt0") && j == bad {
				amt = types.ZeroCurrency
				req["zeroAmt"] = true
			}
			amount = amount.Add(amt)
			rq.Deposits = append(rq.Deposits, rhp4.AccountDeposit{Account: acct(j), Amount: amt})
		}
		vpanic, pval = vlib.Recover(func() { verr = rq.Validate() })
		build = func() (types.V2FileContract, error) {
			rev, _, err := rhp4.ReviseForFundAccounts(fc, amount)
			return rev, err
		}
	case "replenish":
		target := types.NewCurrency64(uint64(1 + r.Intn(100000)))
		if kb(k, "target0") {
			target = types.ZeroCurrency
		}
		req["targetZero"] = target.IsZero()
		rq := rhp4.RPCReplenishAccountsRequest{ContractID: id, Target: target}
		for j := 0; j < n; j++ {
			rq.Accounts = append(rq.Accounts, acct(j))
		}
		if !kb(k, "sig0") {
			rq.ChallengeSignature = ch.renter.SignHash(rq.ChallengeSigHash(fc.RevisionNumber))
		}
		amount = target.Mul64(uint64(n)) // every account empty: the host tops each up to the target
		vpanic, pval = vlib.Recover(func() { verr = rq.Validate() })
		build = func() (types.V2FileContract, error) {
			rev, _, err := rhp4.ReviseForReplenish(fc, amount)
			return rev, err
		}
	}
	s.admRevision(rpc, k, req, vpanic, pval, verr, build)
}

// admRevision logs a revision-class case; an admitted request's revision goes to the real consensus code.
func (s *seqRun) admRevision(rpc string, k admCase, req ev, vpanic bool, pval any, verr error, build func() (types.V2FileContract, error)) {
	ch := s.ch
	e := s.admLine(rpc, k, req, true)
	if s.admVerdict(e, rpc, k, vpanic, pval, verr) {
		var rev types.V2FileContract
		var cerr error
		if cp, v := vlib.Recover(func() { rev, cerr = build() }); cp {
			e["cpanic"], e["cons"] = true, fmt.Sprint(v)
		} else if cerr != nil {
			e["cerr"], e["cons"] = true, cerr.Error()
			s.st.adm[rpc+"/admitted-constructor-error"]++
		} else {
			e["after"] = ev{"fs": LU(rev.Filesize), "cap": LU(rev.Capacity), "rn": int(rev.RevisionNumber)}
			ch.signContract(&rev)
			s.admSubmit(e, rpc, types.V2Transaction{FileContractRevisions: []types.V2FileContractRevision{{Parent: ch.fce.Copy(), Revision: rev}}})
		}
	}
	s.events = append(s.events, e)
}
