package main

import (
	"fmt"
	"time"

	"go.sia.tech/core/consensus"
	"go.sia.tech/core/types"
)

// chain is a miniature real chain (real consensus.ValidateBlock / ApplyBlock on a test
// network) with an honest element store fed by the update diffs. One per sequence.
type chain struct {
	cs           consensus.State
	renter, host types.PrivateKey
	raddr, haddr types.Address
	sces         map[types.SiacoinOutputID]types.SiacoinElement
	fce          *types.V2FileContractElement // the live contract of the lineage
	blocks       int
}

func testNetwork() *consensus.Network {
	n := &consensus.Network{InitialCoinbase: types.Siacoins(3), MinimumCoinbase: types.Siacoins(3),
		InitialTarget: types.BlockID{0xFF}, BlockInterval: 10 * time.Minute, MaturityDelay: 0}
	n.HardforkOak.Height, n.HardforkOak.FixHeight = 100000, 100000
	n.HardforkASIC.Height, n.HardforkASIC.NonceFactor = 200000, 1
	n.HardforkFoundation.Height = 300000
	n.HardforkV2.AllowHeight, n.HardforkV2.RequireHeight, n.HardforkV2.FinalCutHeight = 0, 500000, 600000
	return n
}

var (
	renterKey = types.NewPrivateKeyFromSeed(make([]byte, 32))
	hostKey   = func() types.PrivateKey { s := make([]byte, 32); s[0] = 1; return types.NewPrivateKeyFromSeed(s) }()
)

// walletStart is what each party owns at genesis (2^120 hastings).
var walletStart = types.NewCurrency(0, 1<<56)

func newChain() (*chain, error) {
	n := testNetwork()
	ch := &chain{renter: renterKey, host: hostKey, sces: map[types.SiacoinOutputID]types.SiacoinElement{}}
	ch.raddr, ch.haddr = types.StandardAddress(ch.renter.PublicKey()), types.StandardAddress(ch.host.PublicKey())
	genesis := types.Block{Timestamp: time.Unix(1e9, 0), Transactions: []types.Transaction{{SiacoinOutputs: []types.SiacoinOutput{
		{Value: walletStart, Address: ch.raddr}, {Value: walletStart, Address: ch.haddr}}}}}
	cs, au := consensus.ApplyBlock(n.GenesisState(), genesis, consensus.V1BlockSupplement{Transactions: make([]consensus.V1TransactionSupplement, 1)}, time.Time{})
	ch.cs = cs
	ch.absorb(au)
	return ch, nil
}

func (ch *chain) absorb(au consensus.ApplyUpdate) {
	for id, e := range ch.sces {
		au.UpdateElementProof(&e.StateElement)
		ch.sces[id] = e
	}
	if ch.fce != nil {
		au.UpdateElementProof(&ch.fce.StateElement)
	}
	for _, d := range au.SiacoinElementDiffs() {
		if d.Spent {
			delete(ch.sces, d.SiacoinElement.ID)
		} else {
			ch.sces[d.SiacoinElement.ID] = d.SiacoinElement.Copy()
		}
	}
	for _, d := range au.V2FileContractElementDiffs() {
		e := d.V2FileContractElement.Copy()
		if d.Revision != nil {
			e.V2FileContract = *d.Revision
		}
		if d.Resolution != nil {
			if ch.fce != nil && ch.fce.ID == e.ID {
				ch.fce = nil
			}
			continue
		}
		ch.fce = &e
	}
}

func (ch *chain) height() uint64      { return ch.cs.Index.Height }
func (ch *chain) childHeight() uint64 { return ch.cs.Index.Height + 1 }

// mine seals txns into a block, has the real ValidateBlock accept it and applies it.
func (ch *chain) mine(txns ...types.V2Transaction) error {
	cs := ch.cs
	b := types.Block{ParentID: cs.Index.ID, Timestamp: time.Unix(1e9+int64(cs.Index.Height+1)*600, 0),
		MinerPayouts: []types.SiacoinOutput{{Address: types.VoidAddress, Value: cs.BlockReward()}},
		V2:           &types.V2BlockData{Height: cs.Index.Height + 1, Transactions: txns}}
	for _, x := range txns {
		b.MinerPayouts[0].Value = b.MinerPayouts[0].Value.Add(x.MinerFee)
	}
	b.V2.Commitment = cs.Commitment(types.VoidAddress, nil, txns)
	for i := 0; b.ID().CmpWork(cs.PoWTarget()) < 0; i++ {
		b.Nonce++
		if i > 1<<20 {
			return fmt.Errorf("cannot find a nonce")
		}
	}
	if err := consensus.ValidateBlock(cs, b, consensus.V1BlockSupplement{}); err != nil {
		return fmt.Errorf("block at height %d rejected: %w", b.V2.Height, err)
	}
	var au consensus.ApplyUpdate
	ch.cs, au = consensus.ApplyBlock(cs, b, consensus.V1BlockSupplement{}, time.Time{})
	ch.absorb(au)
	ch.blocks++
	return nil
}

// wallet returns the largest unspent output of addr.
func (ch *chain) wallet(addr types.Address) (types.SiacoinElement, bool) {
	var best types.SiacoinElement
	ok := false
	for _, e := range ch.sces {
		if e.SiacoinOutput.Address == addr && (!ok || e.SiacoinOutput.Value.Cmp(best.SiacoinOutput.Value) > 0) {
			best, ok = e, true
		}
	}
	return best.Copy(), ok
}

func (ch *chain) keyFor(addr types.Address) types.PrivateKey {
	if addr == ch.haddr {
		return ch.host
	}
	return ch.renter
}

func (ch *chain) input(e types.SiacoinElement) types.V2SiacoinInput {
	k := ch.keyFor(e.SiacoinOutput.Address)
	return types.V2SiacoinInput{Parent: e, SatisfiedPolicy: types.SatisfiedPolicy{Policy: types.PolicyPublicKey(k.PublicKey())}}
}

func (ch *chain) signInputs(txn *types.V2Transaction) {
	h := ch.cs.InputSigHash(*txn)
	for i := range txn.SiacoinInputs {
		k := ch.keyFor(txn.SiacoinInputs[i].Parent.SiacoinOutput.Address)
		txn.SiacoinInputs[i].SatisfiedPolicy.Signatures = []types.Signature{k.SignHash(h)}
	}
}

func (ch *chain) signContract(fc *types.V2FileContract) {
	h := ch.cs.ContractSigHash(*fc)
	fc.RenterSignature, fc.HostSignature = ch.renter.SignHash(h), ch.host.SignHash(h)
}

func (ch *chain) signRenewal(r *types.V2FileContractRenewal) {
	ch.signContract(&r.NewContract)
	h := ch.cs.RenewalSigHash(*r)
	r.RenterSignature, r.HostSignature = ch.renter.SignHash(h), ch.host.SignHash(h)
}

// fundingOutputs mines one transaction that splits both wallets into the requested output
// values (per party) plus change, and returns the created elements in request order.
func (ch *chain) fundingOutputs(renterVals, hostVals []types.Currency) (rs, hs []types.SiacoinElement, err error) {
	rw, ok1 := ch.wallet(ch.raddr)
	hw, ok2 := ch.wallet(ch.haddr)
	if !ok1 || !ok2 {
		return nil, nil, fmt.Errorf("wallet output missing")
	}
	txn := types.V2Transaction{SiacoinInputs: []types.V2SiacoinInput{ch.input(rw), ch.input(hw)}}
	add := func(w types.SiacoinElement, addr types.Address, vals []types.Currency) ([]int, error) {
		rest := w.SiacoinOutput.Value
		var idx []int
		for _, v := range vals {
			if v.IsZero() {
				idx = append(idx, -1)
				continue
			}
			var uf bool
			if rest, uf = rest.SubWithUnderflow(v); uf {
				return nil, fmt.Errorf("wallet exhausted")
			}
			idx = append(idx, len(txn.SiacoinOutputs))
			txn.SiacoinOutputs = append(txn.SiacoinOutputs, types.SiacoinOutput{Address: addr, Value: v})
		}
		if rest.IsZero() {
			return nil, fmt.Errorf("wallet exhausted")
		}
		txn.SiacoinOutputs = append(txn.SiacoinOutputs, types.SiacoinOutput{Address: addr, Value: rest})
		return idx, nil
	}
	ri, err := add(rw, ch.raddr, renterVals)
	if err != nil {
		return nil, nil, err
	}
	hi, err := add(hw, ch.haddr, hostVals)
	if err != nil {
		return nil, nil, err
	}
	ch.signInputs(&txn)
	if err := consensus.ValidateV2Transaction(consensus.NewMidState(ch.cs), txn); err != nil {
		return nil, nil, fmt.Errorf("funding transaction rejected: %w", err)
	}
	txid := txn.ID()
	if err := ch.mine(txn); err != nil {
		return nil, nil, err
	}
	pick := func(idx []int) ([]types.SiacoinElement, error) {
		var out []types.SiacoinElement
		for _, i := range idx {
			if i < 0 {
				out = append(out, types.SiacoinElement{})
				continue
			}
			e, ok := ch.sces[txn.SiacoinOutputID(txid, i)]
			if !ok {
				return nil, fmt.Errorf("funding output %d not in the store", i)
			}
			out = append(out, e.Copy())
		}
		return out, nil
	}
	if rs, err = pick(ri); err != nil {
		return nil, nil, err
	}
	hs, err = pick(hi)
	return rs, hs, err
}
