package main

import (
	"math/big"
	"math/rand"
	"time"

	"go.sia.tech/core/consensus"
	rhp2 "go.sia.tech/core/rhp/v2"
	rhp3 "go.sia.tech/core/rhp/v3"
	rhp4 "go.sia.tech/core/rhp/v4"
	"go.sia.tech/core/types"
	"verif/harness/vlib"
)

// v1-era constructors (rhp/v2, rhp/v3): payout = valid sum + consensus tax(payout), sums,
// host payouts, pay-by-contract. Every line is independent.

type v1env struct {
	cs   consensus.State
	pre  *v1env // the same ledger under a network whose tax hardfork lies in the future (nil in pre itself)
	sk   types.PrivateKey
	uc   types.UnlockConditions
	addr types.Address
	sce  types.SiacoinElement
}

func newV1Env() *v1env {
	env := newV1EnvNet(testNetwork())
	n := testNetwork()
	n.HardforkTax.Height = 1 << 40
	env.pre = newV1EnvNet(n)
	return env
}

func newV1EnvNet(n *consensus.Network) *v1env {
	sk := renterKey
	uc := types.StandardUnlockConditions(sk.PublicKey())
	env := &v1env{sk: sk, uc: uc, addr: uc.UnlockHash()}
	genesis := types.Block{Timestamp: time.Unix(1e9, 0), Transactions: []types.Transaction{{SiacoinOutputs: []types.SiacoinOutput{
		{Value: types.NewCurrency(0, 1<<62), Address: env.addr}}}}}
	cs, au := consensus.ApplyBlock(n.GenesisState(), genesis, consensus.V1BlockSupplement{Transactions: make([]consensus.V1TransactionSupplement, 1)}, time.Time{})
	env.cs = cs
	env.sce = au.SiacoinElementDiffs()[0].SiacoinElement.Copy()
	return env
}

// submitV1 funds a v1 transaction forming fc from the genesis output and asks the real
// consensus.ValidateTransaction.
func (env *v1env) submitV1(fc types.FileContract) (accepted bool, panicked bool) {
	txn := types.Transaction{SiacoinInputs: []types.SiacoinInput{{ParentID: env.sce.ID, UnlockConditions: env.uc}}, FileContracts: []types.FileContract{fc}}
	change, uf := env.sce.SiacoinOutput.Value.SubWithUnderflow(fc.Payout)
	if uf {
		return false, false
	}
	if !change.IsZero() {
		txn.SiacoinOutputs = []types.SiacoinOutput{{Address: env.addr, Value: change}}
	}
	txn.Signatures = []types.TransactionSignature{{ParentID: types.Hash256(env.sce.ID), CoveredFields: types.CoveredFields{WholeTransaction: true}}}
	sig := env.sk.SignHash(env.cs.WholeSigHash(txn, txn.Signatures[0].ParentID, 0, 0, nil))
	txn.Signatures[0].Signature = sig[:]
	ts := consensus.V1TransactionSupplement{SiacoinInputs: []types.SiacoinElement{env.sce.Copy()}}
	var err error
	panicked, _ = vlib.Recover(func() { err = consensus.ValidateTransaction(consensus.NewMidState(env.cs), txn, ts) })
	return err == nil && !panicked, panicked
}

func sumOut(outs []types.SiacoinOutput) *big.Int {
	s := new(big.Int)
	for _, o := range outs {
		s.Add(s, o.Value.Big())
	}
	return s
}

func outsJSON(outs []types.SiacoinOutput) [][]int {
	r := [][]int{}
	for _, o := range outs {
		r = append(r, L(o.Value))
	}
	return r
}

// taxTarget draws a payout target: magnitude-stratified, round, or right at a point where the
// siafund rounding of the tax jumps.
func taxTarget(r *rand.Rand) *big.Int {
	switch r.Intn(4) {
	case 0: // around a jump of the rounded tax: payout P with 39P/1000 crossing a multiple of 10000
		j := mag(r, 1, 90)
		p := new(big.Int).Mul(j, big.NewInt(10000000))
		p.Add(p, big.NewInt(38))
		p.Div(p, big.NewInt(39))
		p.Add(p, big.NewInt(int64(r.Intn(7)-3)))
		t := new(big.Int).Mul(p, big.NewInt(39))
		t.Div(t, big.NewInt(1000))
		t.Sub(t, new(big.Int).Mod(t, big.NewInt(10000)))
		return p.Sub(p, t)
	case 1:
		x := mag(r, 0, 60)
		return x.Mul(x, new(big.Int).Exp(big.NewInt(10), big.NewInt(int64(r.Intn(15))), nil))
	case 2:
		return big.NewInt(int64(r.Intn(40000)))
	default:
		return mag(r, 0, 108)
	}
}

// share draws the host's part of a target: anything, all or nothing.
func share(r *rand.Rand, t *big.Int) *big.Int {
	switch r.Intn(6) {
	case 0:
		return new(big.Int).Set(t)
	case 1:
		return new(big.Int)
	}
	return new(big.Int).Rand(r, new(big.Int).Add(t, one))
}

func split3(r *rand.Rand, t *big.Int) (a, b, c *big.Int) {
	x, y := new(big.Int).Rand(r, new(big.Int).Add(t, one)), new(big.Int).Rand(r, new(big.Int).Add(t, one))
	if x.Cmp(y) > 0 {
		x, y = y, x
	}
	switch r.Intn(4) {
	case 0:
		x, y = new(big.Int).Set(t), new(big.Int).Set(t)
	case 1:
		x = new(big.Int)
	}
	return x, new(big.Int).Sub(y, x), new(big.Int).Sub(t, y)
}

// era adds what the real code says about the same contract before the tax hardfork.
func (env *v1env) era(e ev, fc types.FileContract, built bool) ev {
	var tax types.Currency
	acc := false
	if built {
		if pnc, _ := vlib.Recover(func() { tax = env.pre.cs.FileContractTax(fc) }); !pnc {
			acc, _ = env.pre.submitV1(fc)
		}
	}
	e["taxPre"], e["accPre"] = L(tax), acc
	return e
}

// line executes one independent line. tp == nil: parameters are drawn at random; otherwise the sum of
// the valid outputs (the target of the tax inversion) is the one chosen by TaxInversion.tla and the
// other parameters are drawn within it.
func (env *v1env) line(r *rand.Rand, kind int, tp *taxPick) ev {
	cs := env.cs
	host := rhp2.HostSettings{Address: types.Address{2}, WindowSize: uint64(1 + r.Intn(300))}
	model := func(e ev, target *big.Int) ev {
		e["target"] = vlib.Limbs(target)
		e["t0"], e["k"], e["cls"] = -1, []int{}, ""
		if tp != nil {
			e["target"], e["t0"], e["k"], e["cls"] = vlib.Limbs(tp.target()), tp.T0, vlib.Limbs(tp.k()), tp.Cls
		}
		return e
	}
	switch kind {
	case 0: // rhp/v2 PrepareContractFormation
		target := taxTarget(r)
		if tp != nil {
			target = tp.target()
		}
		rp, cp, coll := split3(r, target)
		host.ContractPrice = cur(cp)
		end := uint64(10 + r.Intn(100000))
		var fc types.FileContract
		var cost types.Currency
		var tax types.Currency
		pnc, _ := vlib.Recover(func() {
			fc = rhp2.PrepareContractFormation(env.sk.PublicKey(), hostKey.PublicKey(), cur(rp), cur(coll), end, host, env.addr)
			tax = cs.FileContractTax(fc)
			cost = rhp2.ContractFormationCost(cs, fc, host.ContractPrice)
		})
		e := ev{"ev": "v1form", "panic": pnc, "rp": vlib.Limbs(rp), "cp": vlib.Limbs(cp), "coll": vlib.Limbs(coll),
			"payout": L(fc.Payout), "valid": outsJSON(fc.ValidProofOutputs), "missed": outsJSON(fc.MissedProofOutputs), "tax": L(tax), "cost": L(cost),
			"ws": int(fc.WindowStart), "we": int(fc.WindowEnd), "end": int(end), "window": int(host.WindowSize), "accepted": false}
		if !pnc {
			e["accepted"], _ = env.submitV1(fc)
		}
		return env.era(model(e, target), fc, !pnc)
	case 1, 2: // PrepareContractRenewal of rhp/v2 and rhp/v3
		fs := uint64(r.Intn(1<<20)) * uint64(1+r.Intn(1<<12))
		oldStart := uint64(5 + r.Intn(1000))
		oldFC := types.FileContract{Filesize: fs, WindowStart: oldStart, WindowEnd: oldStart + uint64(1+r.Intn(200)), UnlockHash: env.addr}
		rev := types.FileContractRevision{ParentID: types.FileContractID{1}, FileContract: oldFC}
		end := oldStart + uint64(r.Intn(5000))
		if r.Intn(5) == 0 {
			end = oldStart // no extension possible if the window shrinks
		}
		rp := cur(mag(r, 0, 100))
		sp, pc, cp := cur(price(r, 30)), cur(price(r, 30)), cur(price(r, 70))
		ext := uint64(0)
		if kind == 1 {
			host.StoragePrice, host.Collateral, host.ContractPrice = sp, pc, cp
			newColl := cur(mag(r, 0, 90))
			if end+host.WindowSize > oldFC.WindowEnd {
				ext = end + host.WindowSize - oldFC.WindowEnd
			}
			if tp != nil { // the host's share of the target: contract price, base price + base collateral, new collateral
				T := tp.target()
				cpB, baseB, ncB := split3(r, share(r, T))
				bb := new(big.Int).Mul(new(big.Int).SetUint64(fs), new(big.Int).SetUint64(ext))
				if bb.Sign() > 0 {
					spB, pcB, _ := split3(r, new(big.Int).Div(baseB, bb))
					sp, pc = cur(spB), cur(pcB)
				}
				cp, newColl = cur(cpB), cur(ncB)
				host.StoragePrice, host.Collateral, host.ContractPrice = sp, pc, cp
				hostValid := new(big.Int).Add(sp.Big(), pc.Big())
				hostValid.Mul(hostValid, bb).Add(hostValid, cpB).Add(hostValid, ncB)
				rp = cur(new(big.Int).Sub(T, hostValid))
			}
			var fc types.FileContract
			var basePrice, tax, cost, hv, hm, vm, bp2 types.Currency
			fee := cur(mag(r, 0, 60))
			pnc, _ := vlib.Recover(func() {
				fc, basePrice = rhp2.PrepareContractRenewal(rev, env.addr, rp, newColl, host, end)
				hv, hm, vm, bp2 = rhp2.CalculateHostPayouts(oldFC, newColl, host, end)
				tax = cs.FileContractTax(fc)
				cost = rhp2.ContractRenewalCost(cs, fc, host.ContractPrice, fee, basePrice)
			})
			e := ev{"ev": "v1renew2", "panic": pnc, "fs": LU(fs), "ext": int(ext), "sp": L(sp), "pc": L(pc), "cp": L(cp), "newColl": L(newColl), "rp": L(rp),
				"payout": L(fc.Payout), "valid": outsJSON(fc.ValidProofOutputs), "missed": outsJSON(fc.MissedProofOutputs), "basePrice": L(basePrice),
				"hv": L(hv), "hm": L(hm), "vm": L(vm), "bp2": L(bp2), "tax": L(tax), "cost": L(cost), "fee": L(fee),
				"nfs": LU(fc.Filesize), "ws": int(fc.WindowStart), "we": int(fc.WindowEnd), "end": int(end), "window": int(host.WindowSize), "accepted": false}
			if !pnc {
				e["accepted"], _ = env.submitV1(fc)
			}
			return env.era(model(e, new(big.Int).Add(rp.Big(), hv.Big())), fc, !pnc)
		}
		pt := rhp3.HostPriceTable{ContractPrice: cp, WriteStoreCost: sp, CollateralCost: pc, RenewContractCost: cur(price(r, 60)),
			WindowSize: host.WindowSize, HostBlockHeight: uint64(r.Intn(int(end) + 1))}
		if end+pt.WindowSize > oldFC.WindowEnd {
			ext = end + pt.WindowSize - oldFC.WindowEnd
		}
		expStorage := uint64(r.Intn(1<<20)) * uint64(r.Intn(1<<10))
		dur := end + pt.WindowSize - pt.HostBlockHeight
		baseC := new(big.Int).Mul(new(big.Int).Mul(pc.Big(), new(big.Int).SetUint64(fs)), new(big.Int).SetUint64(ext))
		newC := new(big.Int).Mul(new(big.Int).Mul(pc.Big(), new(big.Int).SetUint64(expStorage)), new(big.Int).SetUint64(dur))
		// max collateral: below the base, between base and base+new, above, or anything
		switch r.Intn(4) {
		case 0:
			pt.MaxCollateral = cur(new(big.Int).Rand(r, new(big.Int).Add(baseC, one)))
		case 1:
			pt.MaxCollateral = cur(new(big.Int).Add(baseC, new(big.Int).Rand(r, new(big.Int).Add(newC, one))))
		case 2:
			pt.MaxCollateral = cur(new(big.Int).Add(new(big.Int).Add(baseC, newC), mag(r, 0, 60)))
		default:
			pt.MaxCollateral = cur(mag(r, 0, 100))
		}
		minNew := cur(mag(r, 0, 60))
		if r.Intn(2) == 0 {
			minNew = types.ZeroCurrency
		}
		if tp != nil { // the host's share of the target: contract price, renewal cost, base price + base collateral, new collateral
			T := tp.target()
			cpB, x, collB := split3(r, share(r, T))
			rccB, baseB, rest := split3(r, x)
			cpB.Add(cpB, rest)
			bb := new(big.Int).Mul(new(big.Int).SetUint64(fs), new(big.Int).SetUint64(ext))
			if bb.Sign() > 0 {
				spB, pcB, _ := split3(r, new(big.Int).Div(baseB, bb))
				sp, pc = cur(spB), cur(pcB)
			}
			pd := new(big.Int).Mul(pc.Big(), new(big.Int).SetUint64(dur))
			if pd.Sign() > 0 && r.Intn(2) == 0 { // expected storage whose collateral fits
				if lim := new(big.Int).Div(collB, pd); lim.IsUint64() && lim.Uint64() < expStorage {
					expStorage = lim.Uint64()
				}
			}
			cp, minNew = cur(cpB), types.ZeroCurrency
			pt.ContractPrice, pt.WriteStoreCost, pt.CollateralCost, pt.RenewContractCost = cp, sp, pc, cur(rccB)
			rawBase := new(big.Int).Mul(pc.Big(), bb)
			rawNew := new(big.Int).Mul(pd, new(big.Int).SetUint64(expStorage))
			capNew := collB
			if rawNew.Cmp(capNew) < 0 {
				capNew = rawNew
			}
			baseColl, newColl := rawBase, new(big.Int)
			switch k := r.Intn(3); {
			case k == 0: // the limit cuts into the base collateral
				baseColl = new(big.Int).Rand(r, new(big.Int).Add(rawBase, one))
				pt.MaxCollateral = cur(baseColl)
			case k == 1 || rawNew.Cmp(collB) > 0: // the limit cuts into the new collateral
				newColl = new(big.Int).Rand(r, new(big.Int).Add(capNew, one))
				pt.MaxCollateral = cur(new(big.Int).Add(rawBase, newColl))
			default: // no cut
				newColl = rawNew
				pt.MaxCollateral = cur(new(big.Int).Add(new(big.Int).Add(rawBase, rawNew), mag(r, 0, 60)))
			}
			hostValid := new(big.Int).Mul(sp.Big(), bb)
			hostValid.Add(hostValid, cpB).Add(hostValid, rccB).Add(hostValid, baseColl).Add(hostValid, newColl)
			rp = cur(new(big.Int).Sub(T, hostValid))
		}
		var fc types.FileContract
		var basePrice, tax, cost, bp, bc, nc types.Currency
		var err error
		fee := cur(mag(r, 0, 60))
		pnc, _ := vlib.Recover(func() {
			fc, basePrice, err = rhp3.PrepareContractRenewal(rev, types.Address{2}, env.addr, rp, minNew, pt, expStorage, end)
			bp, bc, nc = rhp3.RenewalCosts(oldFC, pt, expStorage, end)
			if err == nil {
				tax = cs.FileContractTax(fc)
				cost = rhp3.ContractRenewalCost(cs, pt, fc, fee, basePrice)
			}
		})
		e := ev{"ev": "v1renew3", "panic": pnc, "err": err != nil, "fs": LU(fs), "ext": int(ext), "dur": int(dur), "expStorage": LU(expStorage),
			"sp": L(sp), "pc": L(pc), "cp": L(cp), "rcc": L(pt.RenewContractCost), "maxColl": L(pt.MaxCollateral), "minNew": L(minNew), "rp": L(rp),
			"payout": L(fc.Payout), "valid": outsJSON(fc.ValidProofOutputs), "missed": outsJSON(fc.MissedProofOutputs), "basePrice": L(basePrice),
			"bp": L(bp), "bc": L(bc), "nc": L(nc), "tax": L(tax), "cost": L(cost), "fee": L(fee),
			"nfs": LU(fc.Filesize), "ws": int(fc.WindowStart), "we": int(fc.WindowEnd), "end": int(end), "window": int(pt.WindowSize), "accepted": false}
		if !pnc && err == nil {
			e["accepted"], _ = env.submitV1(fc)
		}
		return env.era(model(e, sumOut(fc.ValidProofOutputs)), fc, !pnc && err == nil)
	case 4: // rhp/v4 MinRenterAllowance / MaxHostCollateral (used by the request validation)
		hp := rhp4.HostPrices{StoragePrice: cur(price(r, 27)), Collateral: cur(price(r, 27))}
		coll, allow := cur(mag(r, 0, 100)), cur(mag(r, 0, 100))
		if r.Intn(3) == 0 && !hp.Collateral.IsZero() { // exact multiples and their neighbours
			coll = cur(new(big.Int).Add(new(big.Int).Mul(hp.Collateral.Big(), mag(r, 0, 60)), big.NewInt(int64(r.Intn(3)-1)+1)))
		}
		var minA, maxC, q1, q2 types.Currency
		pnc, _ := vlib.Recover(func() {
			minA, maxC = rhp4.MinRenterAllowance(hp, coll), rhp4.MaxHostCollateral(hp, allow)
			if !hp.Collateral.IsZero() {
				q1 = coll.Div(hp.Collateral)
			}
			if !hp.StoragePrice.IsZero() {
				q2 = allow.Div(hp.StoragePrice)
			}
		})
		return ev{"ev": "limits", "panic": pnc, "sp": L(hp.StoragePrice), "pc": L(hp.Collateral), "coll": L(coll), "allow": L(allow),
			"minAllow": L(minA), "maxColl": L(maxC), "q1": L(q1), "q2": L(q2)}
	default: // rhp/v3 PayByContract
		vr, vh := cur(mag(r, 0, 100)), cur(mag(r, 0, 100))
		mr, mh, mv := vr, vh, cur(mag(r, 0, 80))
		if r.Intn(2) == 0 {
			mr = cur(mag(r, 0, 100))
		}
		rev := types.FileContractRevision{ParentID: types.FileContractID{1}, FileContract: types.FileContract{RevisionNumber: uint64(r.Intn(1000)),
			ValidProofOutputs:  []types.SiacoinOutput{{Value: vr}, {Value: vh}},
			MissedProofOutputs: []types.SiacoinOutput{{Value: mr}, {Value: mh}, {Value: mv}}}}
		lowest := vr
		if mr.Cmp(lowest) < 0 {
			lowest = mr
		}
		var amount types.Currency
		switch r.Intn(4) {
		case 0:
			amount = lowest
		case 1:
			amount = lowest.Add(types.NewCurrency64(1))
		case 2:
			amount = cur(new(big.Int).Rand(r, new(big.Int).Add(lowest.Big(), one)))
		default:
			amount = cur(mag(r, 0, 101))
		}
		before := rev.FileContract
		before.ValidProofOutputs = append([]types.SiacoinOutput(nil), before.ValidProofOutputs...)
		before.MissedProofOutputs = append([]types.SiacoinOutput(nil), before.MissedProofOutputs...)
		var ok bool
		var req rhp3.PayByContractRequest
		pnc, _ := vlib.Recover(func() { req, ok = rhp3.PayByContract(&rev, amount, rhp3.Account{1}, env.sk) })
		reqV, reqM := [][]int{}, [][]int{}
		for _, c := range req.ValidProofValues {
			reqV = append(reqV, L(c))
		}
		for _, c := range req.MissedProofValues {
			reqM = append(reqM, L(c))
		}
		return ev{"ev": "v1pay", "panic": pnc, "ok": ok, "amount": L(amount),
			"bv": outsJSON(before.ValidProofOutputs), "bm": outsJSON(before.MissedProofOutputs), "brn": int(before.RevisionNumber),
			"av": outsJSON(rev.ValidProofOutputs), "am": outsJSON(rev.MissedProofOutputs), "arn": int(rev.RevisionNumber),
			"reqV": reqV, "reqM": reqM, "reqRN": int(req.RevisionNumber)}
	}
}
