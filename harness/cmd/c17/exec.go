package main

import (
	"encoding/json"
	"fmt"
	"math/big"
	"math/rand"
	"time"

	"go.sia.tech/core/consensus"
	rhp4 "go.sia.tech/core/rhp/v4"
	"go.sia.tech/core/types"
	"verif/harness/vlib"
)

// skOp is one operation of a skeleton emitted by TLC (spec/rhp/Contracts.tla).
type skOp struct {
	K  string `json:"k"`
	A  int    `json:"a"`
	B  int    `json:"b"`
	F  string `json:"f"`
	C  string `json:"c"`
	G  int    `json:"g"`
	OK bool   `json:"ok"`
	// the model's size bookkeeping of the contract the operation is applied to (sectors stored / of
	// capacity, before scaling); nil in replay files written before these fields existed
	Sz0  *int `json:"sz0,omitempty"`
	Cap0 *int `json:"cap0,omitempty"`
}

func isSegStart(k string) bool {
	return k == "new" || k == "renew" || k == "refreshP" || k == "refreshF"
}

type ev = map[string]any

func L(c types.Currency) []int { return vlib.Limbs(c.Big()) }
func LU(x uint64) []int        { return vlib.Limbs(new(big.Int).SetUint64(x)) }

func cur(x *big.Int) types.Currency {
	if x.Sign() < 0 || x.BitLen() > 128 {
		panic("harness: currency out of range")
	}
	return types.NewCurrency(x.Uint64(), new(big.Int).Rsh(x, 64).Uint64())
}

func fcJSON(fc types.V2FileContract) ev {
	return ev{"fs": LU(fc.Filesize), "cap": LU(fc.Capacity), "ph": int(fc.ProofHeight), "eh": int(fc.ExpirationHeight),
		"ro": L(fc.RenterOutput.Value), "ho": L(fc.HostOutput.Value), "mh": L(fc.MissedHostValue), "tc": L(fc.TotalCollateral),
		"rn": int(fc.RevisionNumber)}
}

func usageJSON(u rhp4.Usage) ev {
	e := ev{"rpc": L(u.RPC), "st": L(u.Storage), "eg": L(u.Egress), "ing": L(u.Ingress), "fund": L(u.AccountFunding), "coll": L(u.RiskedCollateral)}
	var rc types.Currency
	if p, _ := vlib.Recover(func() { rc = u.RenterCost() }); p {
		e["rcPanic"] = true
	} else {
		e["rcPanic"] = false
	}
	e["rc"] = L(rc)
	return e
}

func pricesJSON(p rhp4.HostPrices) ev {
	return ev{"cp": L(p.ContractPrice), "sp": L(p.StoragePrice), "ip": L(p.IngressPrice), "ep": L(p.EgressPrice),
		"fsp": L(p.FreeSectorPrice), "pc": L(p.Collateral), "tip": int(p.TipHeight)}
}

func renewalJSON(r types.V2FileContractRenewal) ev {
	return ev{"fro": L(r.FinalRenterOutput.Value), "fho": L(r.FinalHostOutput.Value), "rr": L(r.RenterRollover), "hr": L(r.HostRollover),
		"nc": fcJSON(r.NewContract)}
}

// ---------------------------------------------------------------------------
// magnitude-stratified draws

// mag draws a value of a bit length uniform in [lo, hi]; one draw in six is pulled to a
// limb / word boundary (2^k, 2^k±1, all-ones).
func mag(r *rand.Rand, lo, hi int) *big.Int {
	n := lo + r.Intn(hi-lo+1)
	if n == 0 {
		return new(big.Int)
	}
	x := new(big.Int).Rand(r, new(big.Int).Lsh(big.NewInt(1), uint(n-1)))
	x.SetBit(x, n-1, 1)
	switch r.Intn(12) {
	case 0:
		x = new(big.Int).Lsh(big.NewInt(1), uint(n-1))
	case 1:
		x = new(big.Int).Sub(new(big.Int).Lsh(big.NewInt(1), uint(n)), big.NewInt(1))
	}
	return x
}

// price draws a per-unit price: zero, one, small, medium.
func price(r *rand.Rand, maxBits int) *big.Int {
	switch r.Intn(8) {
	case 0:
		return new(big.Int)
	case 1:
		return big.NewInt(1)
	case 2, 3:
		return mag(r, 1, 10)
	default:
		return mag(r, 1, maxBits)
	}
}

// below draws a value in [lo, hi) (hi > lo), favouring the ends.
func below(r *rand.Rand, lo, hi *big.Int) *big.Int {
	span := new(big.Int).Sub(hi, lo)
	switch r.Intn(5) {
	case 0:
		return new(big.Int).Set(lo)
	case 1:
		return new(big.Int).Sub(hi, big.NewInt(1))
	}
	return new(big.Int).Add(lo, new(big.Int).Rand(r, span))
}

var (
	one       = big.NewInt(1)
	ampleMin  = new(big.Int).Lsh(one, 24) // a balance counts as ample while it is at least this
	sectorBig = big.NewInt(rhp4.SectorSize)
)

func drawPrices(r *rand.Rand, tip uint64) rhp4.HostPrices {
	return rhp4.HostPrices{
		ContractPrice:   cur(price(r, 70)),
		Collateral:      cur(price(r, 30)),
		StoragePrice:    cur(price(r, 30)),
		IngressPrice:    cur(price(r, 40)),
		EgressPrice:     cur(price(r, 40)),
		FreeSectorPrice: cur(price(r, 50)),
		TipHeight:       tip,
	}
}

func signPrices(p *rhp4.HostPrices) {
	p.ValidUntil = time.Now().Add(time.Hour)
	p.Signature = hostKey.SignHash(p.SigHash())
}

// ---------------------------------------------------------------------------

type lookahead struct {
	pc    types.Currency // collateral price of the target append
	tip   uint64         // TipHeight of the target append's price table
	m     *big.Int       // bytes*blocks of the target append
	class string
}

type seqRun struct {
	idx    int
	sk     []skOp
	r      *rand.Rand
	ch     *chain
	events []ev
	scale  uint64
	cur    types.V2FileContract
	la     *lookahead
	infra  []string
	st     *stats
	abort  string // non-empty: the sequence stopped early (reason)
	// admission lineages (adm.go)
	adm        *admPlan
	forceExtra uint64 // > 0: blocks between the minimum and the requested proof height of a formation
}

type stats struct {
	ops                    map[string]int // executed operations by kind
	classes                map[string]int // kind/f/c
	okRev                  int
	errRev                 int
	accepted               int // results accepted by the real ValidateV2Transaction
	refused                int // under-funded transactions refused by the real ValidateV2Transaction
	drains                 int
	branches               map[string]int
	blocks                 int
	aborted                int
	validated              int // requests that passed the real Validate methods
	probes, probesAccepted int
	boundsSeen             map[string]int
	// successful appends by how the appended sectors compare with the free capacity of the contract
	// (capacity - filesize before the call): no-free-space / smaller / equal / larger
	appendVsFree map[string]int
	sizeChecks   int // operations whose real contract matched the model's sectors stored / of capacity
	// admission cases: rpc/gate/(admitted|refused|panic), rpc/admitted-accepted-by-consensus, ...
	adm map[string]int
}

func newStats() *stats {
	return &stats{ops: map[string]int{}, classes: map[string]int{}, branches: map[string]int{}, boundsSeen: map[string]int{}, appendVsFree: map[string]int{}, adm: map[string]int{}}
}

func (s *stats) merge(o *stats) {
	for k, v := range o.ops {
		s.ops[k] += v
	}
	for k, v := range o.classes {
		s.classes[k] += v
	}
	for k, v := range o.branches {
		s.branches[k] += v
	}
	for k, v := range o.boundsSeen {
		s.boundsSeen[k] += v
	}
	for k, v := range o.appendVsFree {
		s.appendVsFree[k] += v
	}
	s.sizeChecks += o.sizeChecks
	for k, v := range o.adm {
		s.adm[k] += v
	}
	s.okRev += o.okRev
	s.errRev += o.errRev
	s.accepted += o.accepted
	s.refused += o.refused
	s.drains += o.drains
	s.blocks += o.blocks
	s.aborted += o.aborted
	s.validated += o.validated
	s.probes += o.probes
	s.probesAccepted += o.probesAccepted
}

func (s *seqRun) infraf(format string, a ...any) {
	sk, _ := json.Marshal(s.sk)
	s.infra = append(s.infra, fmt.Sprintf("sequence %d: ", s.idx)+fmt.Sprintf(format, a...)+" skeleton="+string(sk))
	s.abort = "infra"
}

func pickScale(r *rand.Rand) uint64 {
	switch x := r.Intn(20); {
	case x < 8:
		return 1
	case x < 12:
		return uint64(2 + r.Intn(8))
	case x < 17:
		return uint64(10 + r.Intn(991))
	default:
		return 1 << 15
	}
}

// runSequence executes one skeleton on the real constructors and the real consensus code.
func newSeqRun(idx int, sk []skOp, seed int64) *seqRun {
	s := &seqRun{idx: idx, sk: sk, r: rand.New(rand.NewSource(seed*1000003 + int64(idx)*7919 + 17)), st: newStats()}
	s.scale = pickScale(s.r)
	s.events = append(s.events, ev{"ev": "reset", "seq": idx})
	return s
}

func runSequence(idx int, sk []skOp, seed int64) *seqRun {
	s := newSeqRun(idx, sk, seed)
	ch, err := newChain()
	if err != nil {
		s.infraf("chain: %v", err)
		return s
	}
	s.ch = ch
	for i := range sk {
		if s.abort != "" {
			break
		}
		op := sk[i]
		if i > 0 && op.Sz0 != nil && op.Cap0 != nil {
			// the real contract the ledger holds has the sizes the model expects at this point
			wantFS, wantCap := uint64(*op.Sz0)*s.scale*rhp4.SectorSize, uint64(*op.Cap0)*s.scale*rhp4.SectorSize
			if s.cur.Filesize != wantFS || s.cur.Capacity != wantCap {
				// an earlier result broke the size rules and consensus let it pass: the trace specification
				// refuses that line; if it refuses none, main reports the early stop as an infrastructure failure
				s.abort = fmt.Sprintf("operation %d: contract has filesize %d capacity %d, the model expects %d / %d", i, s.cur.Filesize, s.cur.Capacity, wantFS, wantCap)
				break
			}
			s.st.sizeChecks++
		}
		if isSegStart(op.K) {
			s.segStart(i)
		} else {
			s.revision(i)
		}
	}
	if s.abort != "" && s.abort != "infra" {
		s.st.aborted++
	}
	s.st.blocks = ch.blocks
	return s
}

// findLookahead scans the segment that starts after op i for an append whose collateral class
// is exact or short.
func (s *seqRun) findLookahead(i int) *skOp {
	for j := i + 1; j < len(s.sk); j++ {
		if isSegStart(s.sk[j].K) {
			return nil
		}
		if s.sk[j].K == "append" && s.sk[j].C != "ample" {
			return &s.sk[j]
		}
	}
	return nil
}

type try struct {
	ins, outs []types.Currency
	txn       types.V2Transaction
	accepted  bool
}

func curList(cs []types.Currency) [][]int {
	out := [][]int{}
	for _, c := range cs {
		out = append(out, L(c))
	}
	return out
}

// segStart executes new / renew / refreshP / refreshF (operation i of the skeleton).
func (s *seqRun) segStart(i int) {
	op, r, ch := s.sk[i], s.r, s.ch
	s.st.ops[op.K]++
	s.st.classes[op.K+"/"+op.F]++
	tip := ch.height()
	p := drawPrices(r, tip)
	if r.Intn(4) == 0 && tip > 0 {
		p.TipHeight = tip - uint64(r.Intn(2)) // the host's price table may lag the tip
	}
	old := s.cur
	// proof height of the (new) contract
	var ph uint64
	extra := uint64(16 + r.Intn(20))
	if r.Intn(4) == 0 {
		extra = uint64(16 + r.Intn(60000))
	}
	if s.forceExtra > 0 {
		extra = s.forceExtra
	}
	switch op.K {
	case "new":
		ph = tip + rhp4.MinContractDuration + extra
	case "renew":
		ph = max(old.ProofHeight+1, tip+rhp4.MinContractDuration) + extra - 16
		if r.Intn(5) == 0 {
			ph = max(old.ProofHeight+1, tip+rhp4.MinContractDuration) // smallest legal proof height
			s.st.boundsSeen["renew-min-proof-height"]++
		}
	default:
		ph = old.ProofHeight
	}
	eh := ph + rhp4.ProofWindow

	// collateral requested for the new contract
	var coll types.Currency
	s.la = nil
	if t := s.findLookahead(i); t != nil {
		growth := new(big.Int).Mul(big.NewInt(int64(t.G)), new(big.Int).SetUint64(s.scale))
		la := &lookahead{tip: tip, class: t.C}
		la.m = new(big.Int).Mul(new(big.Int).Mul(sectorBig, growth), new(big.Int).SetUint64(eh-tip))
		minT := big.NewInt(2)
		if op.K == "refreshF" {
			minT = new(big.Int).Add(old.MissedHostValue.Big(), big.NewInt(2))
		}
		pc := mag(r, 1, 24)
		if r.Intn(4) == 0 {
			pc = big.NewInt(1)
		}
		// smallest pc with pc*m >= minT
		need := new(big.Int).Div(new(big.Int).Add(minT, new(big.Int).Sub(la.m, one)), la.m)
		if pc.Cmp(need) < 0 {
			pc = need
		}
		la.pc = cur(pc)
		target := new(big.Int).Mul(pc, la.m)
		if t.C == "short" {
			target.Sub(target, one)
		}
		if op.K == "refreshF" {
			target.Sub(target, old.MissedHostValue.Big())
		}
		coll = cur(target)
		s.la = la
	} else if op.A == 1 {
		ref := new(big.Int)
		switch op.K {
		case "renew":
			ref = old.TotalCollateral.Big()
		case "refreshP":
			ref = old.MissedHostValue.Big()
		}
		switch x := r.Intn(3); {
		case x == 0 && ref.Cmp(big.NewInt(2)) >= 0:
			coll = cur(below(r, one, ref))
		case x == 1 && ref.Sign() > 0:
			coll = cur(new(big.Int).Add(ref, mag(r, 0, 40)))
		default:
			coll = cur(mag(r, 1, 100))
		}
	}

	// allowance: ample, at least what the real MinRenterAllowance demands
	allowB := mag(r, 30, 105)
	switch op.K {
	case "renew", "refreshP":
		// stratify against the old renter output so that both rollover branches occur
		oldRO := old.RenterOutput.Value.Big()
		lo := new(big.Int).Lsh(one, 30)
		if r.Intn(2) == 0 && oldRO.Cmp(new(big.Int).Add(lo, one)) > 0 {
			allowB = below(r, lo, oldRO)
		} else if r.Intn(3) == 0 {
			allowB = new(big.Int).Add(oldRO, mag(r, 30, 60))
		}
	}
	// keep the products inside Validate (collateral / price * storage price) below 2^127
	if !p.Collateral.IsZero() {
		q := new(big.Int).Div(coll.Big(), p.Collateral.Big())
		if new(big.Int).Mul(q, p.StoragePrice.Big()).BitLen() > 100 {
			p.StoragePrice = types.NewCurrency64(uint64(r.Intn(3)))
		}
	}
	minAllow := rhp4.MinRenterAllowance(p, coll)
	switch {
	case allowB.Cmp(minAllow.Big()) < 0:
		allowB = new(big.Int).Add(minAllow.Big(), mag(r, 0, 40))
	case r.Intn(8) == 0 && minAllow.Big().Cmp(new(big.Int).Lsh(one, 30)) >= 0 && op.K != "refreshF":
		allowB = minAllow.Big() // boundary of the request validation
		s.st.boundsSeen["allowance=min"]++
	}
	allow := cur(allowB)
	signPrices(&p)

	fee := cur(mag(r, 1, 70))
	// host limits: generous, or exactly at the boundary
	var totalColl types.Currency
	switch op.K {
	case "new":
		totalColl = coll
	case "renew":
		totalColl = coll.Add(p.Collateral.Mul64(old.Filesize).Mul64(eh - p.TipHeight))
	case "refreshP":
		totalColl = old.RiskedCollateral().Add(coll)
	case "refreshF":
		totalColl = old.TotalCollateral.Add(coll)
	}
	maxColl := totalColl.Add(cur(mag(r, 0, 90)))
	maxDur := (eh - p.TipHeight) + uint64(r.Intn(1000))
	if r.Intn(4) == 0 {
		maxColl, maxDur = totalColl, eh-p.TipHeight
		s.st.boundsSeen["host-limits-exact"]++
	}
	rw, _ := ch.wallet(ch.raddr)
	basis := ch.cs.Index
	var verr error
	var vpanic bool
	var e ev
	var renewal types.V2FileContractRenewal
	var nc types.V2FileContract
	var usage rhp4.Usage
	var rcost, hcost types.Currency
	var cpanic bool
	var pval any

	switch op.K {
	case "new":
		params := rhp4.RPCFormContractParams{RenterPublicKey: ch.renter.PublicKey(), RenterAddress: ch.raddr, Allowance: allow, Collateral: coll, ProofHeight: ph}
		req := rhp4.RPCFormContractRequest{Prices: p, Contract: params, MinerFee: fee, Basis: basis, RenterInputs: []types.SiacoinElement{rw}}
		vpanic, _ = vlib.Recover(func() { verr = req.Validate(ch.host.PublicKey(), ch.cs.Index, maxColl, maxDur) })
		if vpanic || verr != nil {
			s.infraf("drawn form request does not pass Validate: panic=%v err=%v", vpanic, verr)
			return
		}
		s.st.validated++
		cpanic, pval = vlib.Recover(func() {
			nc, usage = rhp4.NewContract(p, params, ch.host.PublicKey(), ch.haddr)
			rcost, hcost = rhp4.ContractCost(ch.cs, nc, fee)
		})
		e = ev{"ev": "new", "fc": fcJSON(nc)}
	case "renew":
		params := rhp4.RPCRenewContractParams{ContractID: types.FileContractID(ch.fce.ID), Allowance: allow, Collateral: coll, ProofHeight: ph}
		req := rhp4.RPCRenewContractRequest{Prices: p, Renewal: params, MinerFee: fee, Basis: basis, RenterInputs: []types.SiacoinElement{rw}}
		req.ChallengeSignature = ch.renter.SignHash(req.ChallengeSigHash(old.RevisionNumber))
		vpanic, _ = vlib.Recover(func() { verr = req.Validate(ch.host.PublicKey(), ch.cs.Index, old, maxColl, maxDur) })
		if vpanic || verr != nil {
			s.infraf("drawn renew request does not pass Validate: panic=%v err=%v", vpanic, verr)
			return
		} else if !req.ValidChallengeSignature(old) {
			s.infraf("challenge signature")
			return
		}
		s.st.validated++
		cpanic, pval = vlib.Recover(func() {
			renewal, usage = rhp4.RenewContract(old, p, ch.haddr, params)
			rcost, hcost = rhp4.RenewalCost(ch.cs, renewal, fee)
		})
		e = ev{"ev": "renew", "r": renewalJSON(renewal)}
	case "refreshP", "refreshF":
		params := rhp4.RPCRefreshContractParams{ContractID: types.FileContractID(ch.fce.ID), Allowance: allow, Collateral: coll}
		req := rhp4.RPCRefreshContractRequest{Prices: p, Refresh: params, MinerFee: fee, Basis: basis, RenterInputs: []types.SiacoinElement{rw}}
		req.ChallengeSignature = ch.renter.SignHash(req.ChallengeSigHash(old.RevisionNumber))
		vpanic, _ = vlib.Recover(func() { verr = req.Validate(ch.host.PublicKey(), ch.cs.Index, old, maxColl, op.K == "refreshP") })
		if vpanic || verr != nil {
			s.infraf("drawn refresh request does not pass Validate: panic=%v err=%v", vpanic, verr)
			return
		}
		s.st.validated++
		cpanic, pval = vlib.Recover(func() {
			if op.K == "refreshP" {
				renewal, usage = rhp4.RefreshContractPartialRollover(old, p, ch.haddr, params)
			} else {
				renewal, usage = rhp4.RefreshContractFullRollover(old, p, ch.haddr, params)
			}
			rcost, hcost = rhp4.RefreshCost(ch.cs, p, renewal, fee)
		})
		e = ev{"ev": "renew", "r": renewalJSON(renewal)}
	}
	if op.K != "new" {
		nc = renewal.NewContract
		e["before"] = fcJSON(old)
		// which branch of the rollover rules applies (coverage only)
		if !cpanic {
			renterNeed, hostNeed, hostHave := allow, nc.TotalCollateral, old.TotalCollateral
			if op.K == "refreshP" {
				renterNeed = allow.Add(p.ContractPrice)
				hostNeed, hostHave = old.RiskedHostRevenue().Add(old.RiskedCollateral()).Add(coll), old.HostOutput.Value
			}
			if op.K == "refreshF" {
				s.st.branches[op.K+"/rolls-all"]++
			} else {
				if old.RenterOutput.Value.Cmp(renterNeed) > 0 {
					s.st.branches[op.K+"/renter-capped"]++
				} else {
					s.st.branches[op.K+"/renter-rolls-all"]++
				}
				if hostHave.Cmp(hostNeed) > 0 {
					s.st.branches[op.K+"/host-capped"]++
				} else {
					s.st.branches[op.K+"/host-rolls-all"]++
				}
			}
		}
	}
	e["seq"], e["op"], e["f"], e["p"] = s.idx, op.K, op.F, pricesJSON(p)
	e["allow"], e["coll"], e["phParam"] = L(allow), L(coll), int(ph)
	e["panic"], e["u"] = cpanic, usageJSON(usage)
	e["rcost"], e["hcost"], e["fee"] = L(rcost), L(hcost), L(fee)
	e["tries"] = []ev{}
	if cpanic {
		e["panicText"] = fmt.Sprint(pval)
		e["child"] = int(ch.childHeight())
		s.events = append(s.events, e)
		s.abort = "constructor panicked"
		return
	}

	// fund the transaction from fresh wallet outputs of exactly the wanted values
	extraR, extraH := cur(mag(r, 1, 80)), cur(mag(r, 1, 80))
	type plan struct{ rin, hin types.Currency }
	var plans []plan
	switch op.F {
	case "ample":
		plans = []plan{{rcost.Add(extraR), hcost.Add(extraH)}}
	case "exact":
		plans = []plan{{rcost, hcost}}
	case "short":
		if rcost.IsZero() {
			s.infraf("renter cost is zero")
			return
		}
		plans = []plan{{rcost.Sub(types.NewCurrency64(1)), hcost}, {rcost, hcost}}
	}
	var rvals, hvals []types.Currency
	for _, pl := range plans {
		rvals, hvals = append(rvals, pl.rin), append(hvals, pl.hin)
	}
	rs, hs, err := ch.fundingOutputs(rvals, hvals)
	if err != nil {
		s.infraf("funding: %v", err)
		return
	}
	e["child"] = int(ch.childHeight())
	var tries []try
	var last *types.V2Transaction
	for k, pl := range plans {
		t := try{}
		txn := types.V2Transaction{MinerFee: fee}
		if !pl.rin.IsZero() {
			txn.SiacoinInputs = append(txn.SiacoinInputs, ch.input(rs[k]))
			t.ins = append(t.ins, pl.rin)
		}
		if !pl.hin.IsZero() {
			txn.SiacoinInputs = append(txn.SiacoinInputs, ch.input(hs[k]))
			t.ins = append(t.ins, pl.hin)
		}
		if op.F == "ample" {
			txn.SiacoinOutputs = []types.SiacoinOutput{{Address: ch.raddr, Value: extraR}, {Address: ch.haddr, Value: extraH}}
			t.outs = []types.Currency{extraR, extraH}
		}
		if op.K == "new" {
			fc := nc
			ch.signContract(&fc)
			txn.FileContracts = []types.V2FileContract{fc}
		} else {
			ren := renewal
			ch.signRenewal(&ren)
			txn.FileContractResolutions = []types.V2FileContractResolution{{Parent: ch.fce.Copy(), Resolution: &ren}}
		}
		ch.signInputs(&txn)
		var verr error
		if p, v := vlib.Recover(func() { verr = consensus.ValidateV2Transaction(consensus.NewMidState(ch.cs), txn) }); p {
			verr = fmt.Errorf("ValidateV2Transaction panicked: %v", v)
		}
		t.accepted = verr == nil
		t.txn = txn
		tries = append(tries, t)
		if t.accepted {
			s.st.accepted++
			last = &tries[len(tries)-1].txn
		} else {
			s.st.refused++
		}
	}
	var tj []ev
	for _, t := range tries {
		tj = append(tj, ev{"ins": curList(t.ins), "outs": curList(t.outs), "accepted": t.accepted})
	}
	e["tries"] = tj
	s.events = append(s.events, e)
	if last == nil || !tries[len(tries)-1].accepted {
		s.abort = "constructed transaction refused by consensus"
		return
	}
	if r.Intn(2) == 0 {
		lt := tries[len(tries)-1]
		s.probeSegStart(op.K, old, lt.txn, lt.ins, lt.outs, fee)
	}
	wantID := types.FileContractID{}
	if op.K == "new" {
		wantID = last.V2FileContractID(last.ID(), 0)
	} else {
		wantID = types.FileContractID(ch.fce.ID).V2RenewalID()
	}
	if err := ch.mine(*last); err != nil {
		s.infraf("accepted transaction does not make a valid block: %v", err)
		return
	}
	if ch.fce == nil || types.FileContractID(ch.fce.ID) != wantID {
		s.infraf("ledger does not hold the new contract")
		return
	}
	s.cur = ch.fce.V2FileContract
	s.cur.RenterSignature, s.cur.HostSignature = types.Signature{}, types.Signature{}
}

// fit scales a price down until cost(p) <= limit.
func fit(pv *types.Currency, limit *big.Int, cost func() *big.Int) {
	for cost().Cmp(limit) > 0 && !pv.IsZero() {
		*pv = pv.Div64(2)
	}
}

// revision executes append / free / roots / fund / replenish (operation i of the skeleton).
func (s *seqRun) revision(i int) {
	op, r, ch := s.sk[i], s.r, s.ch
	s.st.ops[op.K]++
	s.st.classes[op.K+"/"+op.F+"/"+op.C]++
	fc := s.cur
	tip := ch.height()
	p := drawPrices(r, tip)
	if r.Intn(4) == 0 && tip > 0 {
		p.TipHeight = tip - uint64(r.Intn(2))
	}
	bal := fc.RenterOutput.Value.Big()
	isAmple := bal.Cmp(ampleMin) >= 0
	half := new(big.Int).Rsh(bal, 1)
	sectors := fc.Filesize / rhp4.SectorSize
	var n uint64
	var amount types.Currency
	cost := func() *big.Int { return new(big.Int) }
	needPositive := op.F != "ample"

	switch op.K {
	case "append":
		n = uint64(op.A) * s.scale
		growth := n - min(n, (fc.Capacity-fc.Filesize)/rhp4.SectorSize)
		if growth != uint64(op.G)*s.scale {
			s.infraf("append growth %d differs from the skeleton's %d*%d", growth, op.G, s.scale)
			return
		}
		if op.C != "ample" {
			if s.la == nil {
				s.infraf("no lookahead for collateral class %s", op.C)
				return
			}
			p.Collateral, p.TipHeight = s.la.pc, s.la.tip
		}
		dur := fc.ExpirationHeight - p.TipHeight
		m := new(big.Int).Mul(new(big.Int).Mul(sectorBig, new(big.Int).SetUint64(growth)), new(big.Int).SetUint64(dur))
		if op.C != "ample" {
			if m.Cmp(s.la.m) != 0 {
				s.infraf("append bytes*blocks differs from the lookahead")
				return
			}
		} else if m.Sign() > 0 {
			// ample collateral: the price may use up to the whole remaining collateral
			maxPC := new(big.Int).Div(fc.MissedHostValue.Big(), m)
			switch r.Intn(4) {
			case 0:
				p.Collateral = cur(maxPC)
				s.st.boundsSeen["append-collateral-nearly-exhausted"]++
			case 1:
				p.Collateral = types.ZeroCurrency
			default:
				if p.Collateral.Big().Cmp(maxPC) > 0 {
					p.Collateral = cur(new(big.Int).Rand(r, new(big.Int).Add(maxPC, one)))
				}
			}
		}
		if needPositive && p.IngressPrice.IsZero() {
			p.IngressPrice = types.NewCurrency64(uint64(1 + r.Intn(3)))
		}
		cost = func() *big.Int { return p.RPCAppendSectorsCost(growth, dur).RenterCost().Big() }
	case "free":
		n = uint64(op.A) * s.scale
		if needPositive && p.FreeSectorPrice.IsZero() {
			p.FreeSectorPrice = types.NewCurrency64(uint64(1 + r.Intn(3)))
		}
		cost = func() *big.Int { return p.RPCFreeSectorsCost(int(n)).RenterCost().Big() }
	case "roots":
		n = 1
		if op.A != 1 {
			n = sectors
		}
		if needPositive && p.EgressPrice.IsZero() {
			p.EgressPrice = types.NewCurrency64(uint64(1 + r.Intn(3)))
		}
		cost = func() *big.Int { return p.RPCSectorRootsCost(n).RenterCost().Big() }
	}

	drained := false
	switch op.K {
	case "append", "free", "roots":
		// prices must leave the cost affordable: at most half the balance while the balance is ample
		limit := half
		if !isAmple {
			limit = nil
		}
		if limit != nil {
			for _, pv := range []*types.Currency{&p.StoragePrice, &p.IngressPrice, &p.EgressPrice, &p.FreeSectorPrice} {
				fit(pv, limit, cost)
			}
			if needPositive && cost().Cmp(big.NewInt(2)) < 0 {
				// short needs a cost of at least two hastings (one below must stay non-negative and differ)
				switch op.K {
				case "append":
					p.IngressPrice = p.IngressPrice.Add(types.NewCurrency64(1))
				case "free":
					p.FreeSectorPrice = p.FreeSectorPrice.Add(types.NewCurrency64(2))
				case "roots":
					p.EgressPrice = p.EgressPrice.Add(types.NewCurrency64(1))
				}
			}
		}
		c := cost()
		switch {
		case op.F == "ample":
			if !(op.K == "free" && n == 0) && !isAmple && c.Sign() > 0 {
				s.infraf("ample class on a drained contract")
				return
			}
		case isAmple:
			// arrange the boundary with the real fund-accounts constructor: leave exactly the cost (exact)
			// or one hasting less (short) in the renter output
			leave := new(big.Int).Set(c)
			if op.F == "short" {
				leave.Sub(leave, one)
			}
			drain := new(big.Int).Sub(bal, leave)
			if drain.Sign() < 0 || c.Sign() == 0 {
				s.infraf("cannot arrange class %s: balance %v cost %v", op.F, bal, c)
				return
			}
			if drain.Sign() > 0 {
				if !s.fundLike("fund", cur(drain), "ample", true) {
					return
				}
				drained = true
				fc = s.cur
			}
		default:
			// zero balance, class short: any positive cost is unaffordable
			if op.F != "short" || bal.Sign() != 0 || c.Sign() == 0 {
				s.infraf("class %s with balance %v cost %v", op.F, bal, c)
				return
			}
		}
	case "fund", "replenish":
		switch {
		case op.B == 1:
			amount = types.ZeroCurrency
		case op.F == "ample":
			if !isAmple {
				s.infraf("ample fund on a drained contract")
				return
			}
			amount = cur(below(r, one, half))
			if r.Intn(3) == 0 {
				amount = cur(mag(r, 1, half.BitLen()-1))
			}
		case op.F == "exact":
			amount = fc.RenterOutput.Value
		case op.F == "short":
			amount = fc.RenterOutput.Value.Add(types.NewCurrency64(1))
		}
		if !s.fundLike(op.K, amount, op.F, false) {
			return
		}
		return
	}
	_ = drained

	signPrices(&p)
	s.priced(op, p, n)
}

// fundLike runs ReviseForFundAccounts / ReviseForReplenish with the given amount, logs, submits.
func (s *seqRun) fundLike(kind string, amount types.Currency, class string, drain bool) bool {
	ch, r := s.ch, s.r
	fc := s.cur
	id := types.FileContractID(ch.fce.ID)
	var verr error
	if kind == "fund" {
		// split the amount over a few deposits
		k := 1 + r.Intn(3)
		if amount.Big().Cmp(big.NewInt(int64(k))) < 0 {
			k = 1
		}
		rest := amount
		req := rhp4.RPCFundAccountsRequest{ContractID: id, RenterSignature: types.Signature{1}}
		for j := 0; j < k; j++ {
			part := rest
			if j < k-1 {
				part = rest.Div64(uint64(2 + r.Intn(3)))
				if part.IsZero() {
					part = types.NewCurrency64(1)
				}
			}
			rest = rest.Sub(part)
			acct := rhp4.Account{byte(j + 1)}
			req.Deposits = append(req.Deposits, rhp4.AccountDeposit{Account: acct, Amount: part})
		}
		verr = req.Validate()
		var sum types.Currency
		for _, d := range req.Deposits {
			sum = sum.Add(d.Amount)
		}
		if !sum.Equals(amount) {
			s.infraf("deposit split")
			return false
		}
	} else {
		req := rhp4.RPCReplenishAccountsRequest{Accounts: []rhp4.Account{{1}, {2}}, Target: types.NewCurrency64(1).Add(amount), ContractID: id}
		req.ChallengeSignature = ch.renter.SignHash(req.ChallengeSigHash(fc.RevisionNumber))
		verr = req.Validate()
		if verr == nil && !req.ValidChallengeSignature(fc) {
			verr = fmt.Errorf("challenge signature")
		}
		// the host tops both accounts up; the total is what the renter pays
		resp := rhp4.RPCReplenishAccountsResponse{Deposits: []rhp4.AccountDeposit{{Account: rhp4.Account{1}, Amount: amount.Div64(3)}, {Account: rhp4.Account{2}, Amount: amount.Sub(amount.Div64(3))}}}
		if !resp.TotalCost().Equals(amount) {
			s.infraf("replenish total")
			return false
		}
		amount = resp.TotalCost()
	}
	if verr != nil {
		s.infraf("drawn %s request does not pass Validate: %v", kind, verr)
		return false
	}
	s.st.validated++
	var rev types.V2FileContract
	var usage rhp4.Usage
	var err error
	cpanic, pval := vlib.Recover(func() {
		if kind == "fund" {
			rev, usage, err = rhp4.ReviseForFundAccounts(fc, amount)
		} else {
			rev, usage, err = rhp4.ReviseForReplenish(fc, amount)
		}
	})
	if drain {
		s.st.drains++
	}
	return s.finishRevision(kind, class, "ample", 0, amount, rhp4.HostPrices{TipHeight: ch.height()}, fc, rev, usage, err, cpanic, pval, drain)
}

// priced runs the append / free / roots constructors.
func (s *seqRun) priced(op skOp, p rhp4.HostPrices, n uint64) {
	ch := s.ch
	fc := s.cur
	id := types.FileContractID(ch.fce.ID)
	var verr error
	switch op.K {
	case "append":
		req := rhp4.RPCAppendSectorsRequest{Prices: p, Sectors: make([]types.Hash256, n), ContractID: id}
		req.ChallengeSignature = ch.renter.SignHash(req.ChallengeSigHash(fc.RevisionNumber + 1))
		verr = req.Validate(ch.host.PublicKey())
		if verr == nil && !req.ValidChallengeSignature(fc) {
			verr = fmt.Errorf("challenge signature")
		}
	case "free":
		// free the last n sectors (any duplicate-free index set below the sector count is legal)
		sectors := fc.Filesize / rhp4.SectorSize
		req := rhp4.RPCFreeSectorsRequest{ContractID: id, Prices: p, Indices: make([]uint64, n)}
		for j := range req.Indices {
			req.Indices[j] = sectors - 1 - uint64(j)
		}
		req.ChallengeSignature = ch.renter.SignHash(req.ChallengeSigHash(fc.RevisionNumber + 1))
		verr = req.Validate(ch.host.PublicKey(), fc)
		if verr == nil && !req.ValidChallengeSignature(fc) {
			verr = fmt.Errorf("challenge signature")
		}
	case "roots":
		sectors := fc.Filesize / rhp4.SectorSize
		req := rhp4.RPCSectorRootsRequest{Prices: p, ContractID: id, RenterSignature: types.Signature{1}, Offset: sectors - n, Length: n}
		verr = req.Validate(ch.host.PublicKey(), fc)
	}
	if verr != nil {
		s.infraf("drawn %s request does not pass Validate: %v", op.K, verr)
		return
	}
	s.st.validated++
	var rev types.V2FileContract
	var usage rhp4.Usage
	var err error
	cpanic, pval := vlib.Recover(func() {
		switch op.K {
		case "append":
			rev, usage, err = rhp4.ReviseForAppendSectors(fc, p, types.Hash256{byte(s.idx), 1}, n)
		case "free":
			rev, usage, err = rhp4.ReviseForFreeSectors(fc, p, types.Hash256{byte(s.idx), 2}, int(n))
		case "roots":
			rev, usage, err = rhp4.ReviseForSectorRoots(fc, p, n)
		}
	})
	s.finishRevision(op.K, op.F, op.C, n, types.ZeroCurrency, p, fc, rev, usage, err, cpanic, pval, false)
}

// finishRevision logs the constructor call and, if a revision came back, submits it to the real
// consensus code on the ledger that holds the previous revision, then mines it.
func (s *seqRun) finishRevision(kind, f, c string, n uint64, amount types.Currency, p rhp4.HostPrices, before, rev types.V2FileContract,
	usage rhp4.Usage, err error, cpanic bool, pval any, drain bool) bool {
	ch := s.ch
	child := ch.childHeight()
	e := ev{"ev": "rev", "seq": s.idx, "op": kind, "f": f, "c": c, "n": int(n), "amount": L(amount), "p": pricesJSON(p),
		"before": fcJSON(before), "panic": cpanic, "err": err != nil, "after": fcJSON(rev), "u": usageJSON(usage),
		"child": int(child), "eph": child >= ch.cs.Network.HardforkV2.EphemeralOutputHeight, "drain": drain,
		"submitted": false, "accepted": false}
	if cpanic {
		e["panicText"] = fmt.Sprint(pval)
		s.events = append(s.events, e)
		s.abort = "constructor panicked"
		return false
	}
	if err != nil {
		s.st.errRev++
		s.events = append(s.events, e)
		expectOK := f != "short" && c != "short"
		if expectOK {
			s.abort = "unexpected error"
			return false
		}
		return true
	}
	s.st.okRev++
	signed := rev
	ch.signContract(&signed)
	txn := types.V2Transaction{FileContractRevisions: []types.V2FileContractRevision{{Parent: ch.fce.Copy(), Revision: signed}}}
	var verr error
	if pnc, v := vlib.Recover(func() { verr = consensus.ValidateV2Transaction(consensus.NewMidState(ch.cs), txn) }); pnc {
		verr = fmt.Errorf("ValidateV2Transaction panicked: %v", v)
	}
	e["submitted"], e["accepted"] = true, verr == nil
	s.events = append(s.events, e)
	if verr != nil {
		s.abort = "constructed revision refused by consensus"
		return false
	}
	s.st.accepted++
	if f == "short" || c == "short" {
		s.abort = "short class succeeded"
		return false
	}
	if kind == "append" && n > 0 {
		switch free := (before.Capacity - before.Filesize) / rhp4.SectorSize; {
		case free == 0:
			s.st.appendVsFree["no-free-space"]++
		case n < free:
			s.st.appendVsFree["smaller"]++
		case n == free:
			s.st.appendVsFree["equal"]++
		default:
			s.st.appendVsFree["larger"]++
		}
	}
	if !drain && s.r.Intn(2) == 0 {
		s.probeRevision(before, rev)
	}
	if merr := ch.mine(txn); merr != nil {
		s.infraf("accepted revision does not make a valid block: %v", merr)
		return false
	}
	if ch.fce == nil || ch.fce.V2FileContract.RevisionNumber != rev.RevisionNumber {
		s.infraf("ledger does not hold the revision")
		return false
	}
	s.cur = rev
	s.cur.RenterSignature, s.cur.HostSignature = types.Signature{}, types.Signature{}
	return true
}
