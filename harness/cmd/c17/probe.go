package main

import (
	"fmt"

	"go.sia.tech/core/consensus"
	rhp4 "go.sia.tech/core/rhp/v4"
	"go.sia.tech/core/types"
	"verif/harness/vlib"
)

// Probes bind the transcribed consensus rules (ContractRules.tla, part 1) to the real
// ValidateV2Transaction beyond the shapes the constructors produce: an accepted constructor result is
// altered in one field (catalogue below), signed honestly and submitted; TLC must predict the real
// verdict, acceptances and refusals alike. A disagreement is a fault of the transcription (or of this
// harness), never a C17 violation.

var c1 = types.NewCurrency64(1)

// tamperContract alters one field of fc; cur is the contract the ledger holds (zero value for a
// formation). It returns false if the alteration does not apply.
func tamperContract(fc *types.V2FileContract, cur types.V2FileContract, child uint64, k int) (string, bool) {
	switch k {
	case 0:
		fc.MissedHostValue = fc.HostOutput.Value.Add(c1)
		return "missed host value above host output", true
	case 1:
		fc.TotalCollateral = fc.HostOutput.Value.Add(c1)
		return "total collateral above host output", true
	case 2:
		fc.Filesize = fc.Capacity + 1
		return "filesize above capacity", true
	case 3:
		fc.ProofHeight = child - 1
		return "proof height passed", true
	case 4:
		fc.ExpirationHeight = fc.ProofHeight
		return "empty proof window", true
	case 5:
		fc.MissedHostValue = types.MaxCurrency
		return "currency overflow", true
	case 6:
		if fc.MissedHostValue.IsZero() {
			return "", false
		}
		fc.MissedHostValue = fc.MissedHostValue.Sub(c1)
		return "missed host value lowered (legal)", true
	case 7:
		fc.Capacity += rhp4.SectorSize
		return "capacity raised (legal)", true
	case 8:
		fc.ProofHeight = child
		if fc.ExpirationHeight <= fc.ProofHeight {
			return "", false
		}
		return "proof height at the child height (legal)", true
	}
	return "", false
}

const nContractTampers = 9

// probeRevision submits an altered copy of the accepted revision rev of the ledger's contract.
func (s *seqRun) probeRevision(before, rev types.V2FileContract) {
	ch, r := s.ch, s.r
	child := ch.childHeight()
	t := rev
	var what string
	ok := false
	switch k := r.Intn(nContractTampers + 6); k {
	case nContractTampers:
		t.RevisionNumber, what, ok = before.RevisionNumber, "revision number not increased", true
	case nContractTampers + 1:
		t.RenterOutput.Value, what, ok = t.RenterOutput.Value.Add(c1), "output sum changed", true
	case nContractTampers + 2:
		t.MissedHostValue, what, ok = before.MissedHostValue.Add(c1), "missed host value raised", true
	case nContractTampers + 3:
		t.TotalCollateral, what, ok = t.TotalCollateral.Add(c1), "total collateral changed", true
	case nContractTampers + 4:
		if before.Capacity >= rhp4.SectorSize && t.Filesize+rhp4.SectorSize <= before.Capacity {
			t.Capacity, what, ok = before.Capacity-rhp4.SectorSize, "capacity decreased", true
		}
	case nContractTampers + 5:
		if !t.RenterOutput.Value.IsZero() {
			t.RenterOutput.Value, t.HostOutput.Value = t.RenterOutput.Value.Sub(c1), t.HostOutput.Value.Add(c1)
			what, ok = "one more hasting moved to the host (legal)", true
		}
	default:
		what, ok = tamperContract(&t, before, child, k)
	}
	if !ok {
		return
	}
	ch.signContract(&t)
	txn := types.V2Transaction{FileContractRevisions: []types.V2FileContractRevision{{Parent: ch.fce.Copy(), Revision: t}}}
	var verr error
	if p, v := vlib.Recover(func() { verr = consensus.ValidateV2Transaction(consensus.NewMidState(ch.cs), txn) }); p {
		verr = fmt.Errorf("panic: %v", v)
	}
	s.st.probes++
	if verr == nil {
		s.st.probesAccepted++
	}
	s.events = append(s.events, ev{"ev": "probeRev", "seq": s.idx, "what": what, "before": fcJSON(before), "after": fcJSON(t),
		"child": int(child), "eph": child >= ch.cs.Network.HardforkV2.EphemeralOutputHeight, "accepted": verr == nil})
}

// probeSegStart submits an altered copy of the accepted formation / renewal transaction txn.
func (s *seqRun) probeSegStart(kind string, old types.V2FileContract, txn types.V2Transaction, ins, outs []types.Currency, fee types.Currency) {
	ch, r := s.ch, s.r
	child := ch.childHeight()
	t := txn.DeepCopy()
	e := ev{"ev": "probeNew", "seq": s.idx, "child": int(child), "ins": curList(ins), "outs": curList(outs), "fee": L(fee)}
	var what string
	ok := false
	if kind == "new" {
		fc := t.FileContracts[0]
		what, ok = tamperContract(&fc, types.V2FileContract{}, child, r.Intn(nContractTampers))
		if !ok {
			return
		}
		ch.signContract(&fc)
		t.FileContracts[0] = fc
		e["fc"] = fcJSON(fc)
	} else {
		ren := *t.FileContractResolutions[0].Resolution.(*types.V2FileContractRenewal)
		switch k := r.Intn(nContractTampers + 3); k {
		case nContractTampers:
			ren.FinalRenterOutput.Value, what, ok = ren.FinalRenterOutput.Value.Add(c1), "final outputs + rollover above the old value", true
		case nContractTampers + 1:
			if !ren.FinalHostOutput.Value.IsZero() {
				ren.FinalHostOutput.Value, what, ok = ren.FinalHostOutput.Value.Sub(c1), "final outputs + rollover below the old value", true
			}
		case nContractTampers + 2:
			if !ren.FinalRenterOutput.Value.IsZero() {
				ren.FinalRenterOutput.Value, ren.RenterRollover = ren.FinalRenterOutput.Value.Sub(c1), ren.RenterRollover.Add(c1)
				what, ok = "one more hasting rolled over (unbalances the transaction)", true
			}
		default:
			what, ok = tamperContract(&ren.NewContract, old, child, k)
		}
		if !ok {
			return
		}
		ch.signRenewal(&ren)
		t.FileContractResolutions[0].Resolution = &ren
		e["ev"], e["before"], e["r"] = "probeRenew", fcJSON(old), renewalJSON(ren)
	}
	ch.signInputs(&t)
	var verr error
	if p, v := vlib.Recover(func() { verr = consensus.ValidateV2Transaction(consensus.NewMidState(ch.cs), t) }); p {
		verr = fmt.Errorf("panic: %v", v)
	}
	s.st.probes++
	if verr == nil {
		s.st.probesAccepted++
	}
	e["what"], e["accepted"] = what, verr == nil
	s.events = append(s.events, e)
}
