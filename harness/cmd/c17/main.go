// C17 — RHP contract constructors conserve funds and yield consensus-valid contracts.
//
//  0. Design level (spec/rhp/ContractsDesign.tla): the constructors and cost functions transcribed over
//     BigNat; TLC checks every short lineage for all small parameter combinations against the rules,
//     and every order of four appends / frees of 1..3 sectors (capacity never decreases, filesize within it).
//  1. TLC explores the skeleton model (spec/rhp/Contracts.tla): sequences of constructor calls
//     New, Append, Free, Roots, Fund, Replenish, Renew, RefreshPartial, RefreshFull, each with a
//     funding class (ample / exact / short by one hasting). It emits every skeleton of at most
//     2 (thorough: 3) operations, every 6-operation skeleton of the size / capacity focus (formation,
//     then appends of 1..3 (thorough 1..4) sectors, frees and refreshes in every order: all ways of
//     re-appending fewer / as many / more sectors than were freed) and a seeded sample of skeletons of
//     up to 6 operations.
//  2. Every skeleton is executed on the real rhp/v4 constructors: price tables and parameters are
//     drawn stratified by magnitude, the real Validate methods must pass, boundary balances are
//     arranged from the real cost functions, the result is signed and submitted to the real
//     consensus.ValidateV2Transaction on a real miniature chain whose ledger holds the previous
//     revision, and accepted results are mined.
//  3. Everything is logged as BigNat limbs; TLC validates the trace against
//     spec/rhp/ContractsTrace.tla (post-conditions of ContractRules.tla, and the transcribed
//     consensus rules must agree with every real verdict). rhp/v2 / rhp/v3 lines: tax equation.
//     3a. Tax inversion (spec/rhp/TaxEquation.tla, TaxInversion.tla, tax.go): TLC enumerates the targets at every residue
//     boundary of the v1 tax equation; each goes through the rhp/v2 and rhp/v3 constructors to the real consensus validation.
//     3b. Admission (spec/rhp/Admission.tla, adm.go): TLC enumerates requests on both sides of every gate of the
//     admission rules of the RPC requests; each is realised on a real lineage, the real Validate method is
//     asked, and whatever it admits goes through the real constructor to the real consensus validation.
//  4. A rejected line is re-executed on the real code; only a reproduced line becomes a VIOLATION.
package main

import (
	"encoding/json"
	"fmt"
	"math/big"
	"math/rand"
	"os"
	"reflect"
	"regexp"
	"sort"
	"strconv"
	"strings"
	"sync"
	"time"

	"verif/harness/vlib"
)

const specDir = "rhp"

func parseSkeletons(lines []string, seen map[string]bool) ([][]skOp, error) {
	var out [][]skOp
	for _, ln := range lines {
		if !strings.HasPrefix(ln, "SK ") {
			continue
		}
		js := vlib.UnquoteTLA(strings.TrimPrefix(ln, "SK "))
		if seen[js] {
			continue
		}
		seen[js] = true
		var sk []skOp
		if err := json.Unmarshal([]byte(js), &sk); err != nil {
			return nil, fmt.Errorf("skeleton %q: %v", js, err)
		}
		if len(sk) == 0 || sk[0].K != "new" {
			return nil, fmt.Errorf("skeleton does not start with new: %q", js)
		}
		out = append(out, sk)
	}
	return out, nil
}

// normalise turns an event into plain JSON values so that two runs can be compared.
func normalise(e ev) any {
	b, _ := json.Marshal(e)
	var v any
	json.Unmarshal(b, &v)
	return v
}

type traceResult struct {
	rejects map[int][]string // 1-based line -> messages
	states  int64
}

// validate runs TLC on a trace cut into chunks (each chunk a range of consecutive lines that
// starts at a sequence boundary). Long traces are validated in batches of whole chunks.
func validate(c *vlib.Ctx, events []ev, chunks [][2]int, workers int) (*traceResult, error) {
	const batchLines = 24000
	tr := &traceResult{rejects: map[int][]string{}}
	for i := 0; i < len(chunks); {
		j, first := i, chunks[i][0]
		for j < len(chunks) && (j == i || chunks[j][1]-first+1 <= batchLines) {
			j++
		}
		last := chunks[j-1][1]
		off := first - 1
		var cl []ev
		for _, ch := range chunks[i:j] {
			cl = append(cl, ev{"from": ch[0] - off, "to": ch[1] - off})
		}
		batch := events[off:last]
		files := map[string][]byte{"trace.ndjson": vlib.NDJSON(batch), "chunks.ndjson": vlib.NDJSON(cl)}
		if d := os.Getenv("C17_KEEP"); d != "" { // development aid: keep the trace for a manual TLC run
			os.WriteFile(d+"/trace.ndjson", files["trace.ndjson"], 0o644)
			os.WriteFile(d+"/chunks.ndjson", files["chunks.ndjson"], 0o644)
		}
		res, err := c.TLC(vlib.TLCOpts{SpecDirs: []string{specDir}, Module: "ContractsTrace", Config: "ContractsTrace.cfg",
			Files: files, Workers: workers, Timeout: 30 * time.Minute, Xss: "64m"})
		if err != nil {
			return nil, err
		}
		if res.Violated != "" {
			return nil, fmt.Errorf("trace specification failed to evaluate: %s", vlib.Tail(res.Out, 2500))
		}
		want := int64(1 + (j - i) + len(batch))
		if res.Distinct != want {
			return nil, fmt.Errorf("trace not fully consumed: %d states, expected %d\n%s", res.Distinct, want, vlib.Tail(res.Out, 1200))
		}
		tr.states += res.Distinct
		for _, ln := range res.Lines {
			if !strings.HasPrefix(ln, "REJECT ") {
				continue
			}
			f := strings.SplitN(ln, " ", 3)
			idx, err := strconv.Atoi(f[1])
			if err != nil || idx < 1 || idx > len(batch) || len(f) < 3 {
				return nil, fmt.Errorf("bad reject line %q", ln)
			}
			idx += off
			dup := false
			for _, m := range tr.rejects[idx] {
				dup = dup || m == f[2]
			}
			if !dup {
				tr.rejects[idx] = append(tr.rejects[idx], f[2])
			}
		}
		i = j
	}
	return tr, nil
}

var slugRe = regexp.MustCompile(`[^a-z0-9]+`)

func slug(s string) string {
	return strings.Trim(slugRe.ReplaceAllString(strings.ToLower(s), "-"), "-")
}

func evKind(e ev) string {
	k, _ := e["ev"].(string)
	if op, ok := e["op"].(string); ok && op != "" {
		return op
	}
	return k
}

type seqCase struct {
	Kind string   `json:"kind"`
	Idx  int      `json:"idx"`
	Seed int64    `json:"seed"`
	Sk   []skOp   `json:"sk"`
	Line int      `json:"line,omitempty"` // v1: line number within the v1 batch
	Adm  *admPlan `json:"adm,omitempty"`  // adm: the admission lineage
	Tax  *taxPick `json:"tax,omitempty"`  // tax: a target of the tax inversion model
	Msgs []string `json:"messages,omitempty"`
	Ev   any      `json:"event,omitempty"`
}

func v1Line(env *v1env, seed int64, i int) ev {
	r := rand.New(rand.NewSource(seed*7368787 + int64(i)*104729 + 3))
	return env.line(r, i%5, nil)
}

// runModelChecks: the TLC runs that only concern the models (a failure ends the run as a spec bug, exit 2).
func runModelChecks(c *vlib.Ctx, cov map[string]int64) {
	// 1. skeleton model: exhaustive over the abstract state space
	mc := c.MustTLC(vlib.TLCOpts{SpecDirs: []string{specDir}, Module: "Contracts", Config: "ContractsMC.cfg", Workers: 4})
	cov["skeleton_model_states"] = mc.Distinct

	// 1b. design level: the constructors and cost functions transcribed over BigNat, every lineage of the
	// plan for all small parameter combinations: no underflow, post-conditions, consensus rules accept
	designCfg := "ContractsDesign.cfg"
	if c.Thorough {
		designCfg = "ContractsDesign3.cfg"
	}
	ds := c.MustTLC(vlib.TLCOpts{SpecDirs: []string{specDir}, Module: "ContractsDesign", Config: designCfg, Workers: 8, Timeout: 20 * time.Minute})
	cov["design_model_states"] = ds.Distinct
	cov["design_model_steps"] = ds.Generated
	if ds.Generated < 2000 {
		c.Fatal("vacuity: design model explored only %d steps", ds.Generated)
	}

	// 1c. design level, capacity bookkeeping: NewContract, appends / frees of 1..3 sectors in every order, then a
	// renewal / refresh: capacity never decreases, filesize stays within it, every revision passes the
	// transcribed consensus rules; and the plan really contains frees followed by smaller appends
	dz := c.MustTLC(vlib.TLCOpts{SpecDirs: []string{specDir}, Module: "ContractsDesign", Config: "ContractsDesignSizes.cfg", Workers: 8, Timeout: 10 * time.Minute})
	cov["design_model_sizes_states"] = dz.Distinct
	cov["design_model_sizes_steps"] = dz.Generated
	if dz.Generated < 3000 {
		c.Fatal("vacuity: design model (sizes) explored only %d steps", dz.Generated)
	}
	wz, err := c.TLC(vlib.TLCOpts{SpecDirs: []string{specDir}, Module: "ContractsDesign", Config: "ContractsDesignSizesReach.cfg", Workers: 4, NoCount: true, Timeout: 10 * time.Minute})
	if err != nil {
		c.Fatal("design model (sizes) reachability: %v", err)
	}
	// 1d. thorough: the tax equation over every target of one full period: solvable, at most two solutions, the
	// floor estimate brackets the largest one, the inversion returns it, the near-miss inversions fail exactly
	// on their classes, and every target of a boundary class lies in a window of the window mode
	if c.Thorough {
		sc := c.MustTLC(vlib.TLCOpts{SpecDirs: []string{specDir}, Module: "TaxInversion", Config: "TaxInversionScan.cfg", Workers: 8, Timeout: 20 * time.Minute})
		cov["tax_equation_full_period_scan_states"] = sc.Distinct
		if sc.Distinct < taxPeriodT {
			c.Fatal("vacuity: the full-period scan of the tax equation visited only %d targets", sc.Distinct)
		}
	}
	if wz.Violated != "NeverPartialRefill" {
		c.Fatal("vacuity: the design model (sizes) has no append of fewer sectors than were freed (TLC did not refute NeverPartialRefill: %q)\n%s", wz.Violated, vlib.Tail(wz.Out, 1200))
	}

}

// admGates: every gate of the request Validate methods of rhp/v4/validation.go that concern the contract
// constructors (the model must have cases at each, and the real Validate must have refused at each).
var admGates = map[string][]string{
	"form":      {"prices", "fee", "basis", "inputs", "proof-height", "proof-height-max", "duration", "allowance-zero", "collateral", "allowance-min"},
	"renew":     {"prices", "fee", "basis", "proof-height-existing", "proof-height", "proof-height-max", "duration", "allowance-zero", "collateral", "allowance-min"},
	"refreshP":  {"prices", "fee", "basis", "proof-height-existing", "allowance-zero", "allowance-min", "collateral"},
	"refreshF":  {"prices", "fee", "basis", "proof-height-existing", "allowance-zero", "allowance-min", "collateral"},
	"append":    {"prices", "empty", "batch"},
	"free":      {"prices", "batch", "index", "duplicate"},
	"roots":     {"prices", "length-zero", "range", "batch"},
	"fund":      {"contract-id", "signature", "empty", "batch", "account", "amount"},
	"replenish": {"contract-id", "signature", "empty", "batch", "target", "account"},
}

// sortSkeletons: TLC's workers print in no fixed order; sort, so that a seed always yields the same run.
func sortSkeletons(sk [][]skOp) {
	keys := make(map[*skOp]string, len(sk))
	for i := range sk {
		b, _ := json.Marshal(sk[i])
		keys[&sk[i][0]] = string(b)
	}
	sort.Slice(sk, func(i, j int) bool { return keys[&sk[i][0]] < keys[&sk[j][0]] })
}

func chunkSeqs(runs []*seqRun, events *[]ev, chunks *[][2]int, startOfSeq map[int]int) {
	const minLines = 48
	from := len(*events) + 1
	for _, s := range runs {
		startOfSeq[s.idx] = len(*events) + 1
		*events = append(*events, s.events...)
		if len(*events)+1-from >= minLines {
			*chunks = append(*chunks, [2]int{from, len(*events)})
			from = len(*events) + 1
		}
	}
	if len(*events)+1 > from {
		*chunks = append(*chunks, [2]int{from, len(*events)})
	}
}

func replay(c *vlib.Ctx) {
	b, err := os.ReadFile(c.Replay)
	if err != nil {
		c.Fatal("replay: %v", err)
	}
	var f struct {
		Case seqCase `json:"case"`
	}
	if err := json.Unmarshal(b, &f); err != nil {
		c.Fatal("replay: %v", err)
	}
	var events []ev
	switch f.Case.Kind {
	case "seq", "adm":
		var s *seqRun
		if f.Case.Kind == "adm" {
			if f.Case.Adm == nil {
				c.Fatal("replay: admission case without its plan")
			}
			s = runAdmission(f.Case.Idx, f.Case.Adm, f.Case.Seed)
		} else {
			s = runSequence(f.Case.Idx, f.Case.Sk, f.Case.Seed)
		}
		for _, m := range s.infra {
			c.Infra("%s", m)
		}
		events = s.events
	case "v1":
		events = []ev{v1Line(newV1Env(), f.Case.Seed, f.Case.Line)}
	case "tax":
		if f.Case.Tax == nil {
			c.Fatal("replay: tax inversion case without its target")
		}
		events = []ev{taxLine(newV1Env(), f.Case.Tax)}
	default:
		c.Fatal("replay: unknown case kind %q", f.Case.Kind)
	}
	tr, err := validate(c, events, [][2]int{{1, len(events)}}, 2)
	if err != nil {
		c.Fatal("replay: %v", err)
	}
	c.Count(int64(len(events)), int64(len(events)))
	c.Traces(1)
	for ln, msgs := range tr.rejects {
		e := events[ln-1]
		for _, m := range msgs {
			f.Case.Msgs, f.Case.Ev = msgs, normalise(e)
			if strings.HasPrefix(m, "case:") || strings.HasPrefix(m, "probe:") {
				c.Infra("line %d: %s", ln, m)
				continue
			}
			c.Violation(evKind(e)+":"+slug(m), fmt.Sprintf("%s: %s", evKind(e), m), f.Case)
		}
	}
	if len(tr.rejects) == 0 {
		fmt.Println("replay: the case is accepted by the specification on this tree")
	}
	c.Finish()
}

func main() {
	c := vlib.Start("C17")
	if c.Replay != "" {
		replay(c)
		return
	}
	c.Rule("TLC emits skeletons (constructor kind x arguments x funding class sequences starting from New): all of length <= 2 (thorough 3), all of length 6 of the size/capacity focus (amply funded appends of 1..3 (thorough 1..4) sectors, frees of 1..filesize sectors, refreshes of contracts with free capacity, up to 4 (thorough 8) sectors stored), plus two seeded -simulate samples of length <= 6 (all variants; data operations favoured), de-duplicated. Each is executed once on the real rhp/v4 constructors with magnitude-stratified prices/parameters that pass the real Validate methods, boundary balances arranged from the real cost functions. One evaluation = one trace line: a constructor call with its cost functions and its submission(s) to the real ValidateV2Transaction, or one probe (an accepted result altered in one field and submitted), or one rhp/v2-v3 / allowance-limit line. The rhp/v2-v3 formation and renewal lines take the sum of the valid outputs (the target of the tax inversion) at random and, in a second batch, from TLC: spec/rhp/TaxInversion.tla enumerates every payout within 60 of the two boundaries of each of the 78 phases of two periods of the tax equation (estimate exactly 0 / 1 / 9998 / 9999 above the solution, one or two solutions, exact or rounded estimate, borrow or not) and the smallest targets; one target per (class, phase) (thorough 4; rare classes completely) goes raw and lifted by whole periods into magnitude strata (one word, high word below / at the siafund count, 1..10^6 SC, up to 2^108) through rhp/v2 PrepareContractFormation, rhp/v2 and rhp/v3 PrepareContractRenewal to the real ValidateTransaction under a state after and one before the tax hardfork. Non-trivial = a line of a distinct skeleton (requests passed the real Validate) or a distinct independent line, validated by TLC without rejection.")
	c.Assume("BigNat (cross-checked against TLC integers by spec/lib/BigNatTest in C15) is the arithmetic oracle")
	c.Assume("signatures, element proofs and key continuity are produced honestly by the harness (real signing code, real accumulator); the transcribed consensus rules cover amounts, sizes, heights and revision numbers")
	c.Assume("magnitudes: prices < 2^70, allowances/collateral < 2^110, sector batches <= 3*2^15, durations < 2^17 blocks: no Currency overflow inside the constructors or Validate (overflow there panics by design of types.Currency)")
	c.Assume("v1 tax inversion: the rhp/v2 and rhp/v3 constructors take no consensus state and aim at the tax rule in force since the tax hardfork; under a state before the hardfork only the agreement of the real FileContractTax / ValidateTransaction with the transcribed rule is checked, not that the constructed contract is accepted")
	c.Assume("usage formulas checked are those documented on HostPrices (per byte per block, per 4 KiB moved, per sector freed)")
	c.Assume("admission: the Validate methods of rhp/v4/validation.go are the host-side validation; revision requests (append, free, roots, fund, replenish) are only issued against a contract that is still revisable (the host looks the contract up and checks its proof height separately); challenge signatures are honest")

	// 1. the model-only runs go on in the background while the skeletons are generated and executed
	var modelRuns sync.WaitGroup
	modelCov := map[string]int64{}
	modelRuns.Add(1)
	go func() {
		defer modelRuns.Done()
		runModelChecks(c, modelCov)
	}()

	// 1e. targets of the v1 tax inversion (window mode of TaxInversion.tla), also in the background
	var taxPl *taxPlan
	taxDone := make(chan struct{})
	go func() {
		defer close(taxDone)
		taxPl = taxTargets(c)
	}()

	// 2. skeletons: exhaustive short ones + seeded sample of long ones
	seen := map[string]bool{}
	enumCfg := "ContractsEnum2.cfg"
	if c.Thorough {
		enumCfg = "ContractsEnum3.cfg"
	}
	en := c.MustTLC(vlib.TLCOpts{SpecDirs: []string{specDir}, Module: "Contracts", Config: enumCfg, Workers: 4})
	skeletons, err := parseSkeletons(en.Lines, seen)
	if err != nil {
		c.Fatal("%v", err)
	}
	sortSkeletons(skeletons)
	nEnum := len(skeletons)
	// 2b. size / capacity focus: every order of appends, frees and refreshes (exhaustive, full length only)
	sizesCfg := "ContractsEnumSizes.cfg"
	if c.Thorough {
		sizesCfg = "ContractsEnumSizesT.cfg"
	}
	ez := c.MustTLC(vlib.TLCOpts{SpecDirs: []string{specDir}, Module: "Contracts", Config: sizesCfg, Workers: 4})
	sizeSk, err := parseSkeletons(ez.Lines, seen)
	if err != nil {
		c.Fatal("%v", err)
	}
	sortSkeletons(sizeSk)
	// model side of the vacuity guard: skeletons in which sectors are freed and fewer are appended again
	modelSmaller := 0
	for _, sk := range sizeSk {
		for _, op := range sk {
			if op.K == "append" && op.OK && op.Sz0 != nil && op.Cap0 != nil && op.A < *op.Cap0-*op.Sz0 {
				modelSmaller++
				break
			}
		}
	}
	skeletons = append(skeletons, sizeSk...)
	nSizes := len(sizeSk)
	nSim := c.Pick(2000, 45000)
	if v := os.Getenv("C17_SIM"); v != "" { // development aid
		nSim, _ = strconv.Atoi(v)
	}
	var simSk [][]skOp
	for _, sc := range []struct {
		cfg string
		num int
	}{{"ContractsSim.cfg", nSim}, {"ContractsSimData.cfg", nSim / 2}} {
		sim, err := c.TLC(vlib.TLCOpts{SpecDirs: []string{specDir}, Module: "Contracts", Config: sc.cfg, Workers: 1,
			Simulate: fmt.Sprintf("num=%d", sc.num), Depth: 9, Seed: c.Seed, ExtraArgs: []string{"-deadlock"}, Timeout: 10 * time.Minute})
		if err != nil {
			c.Fatal("simulation: %v", err)
		}
		if sim.Violated != "" {
			c.Fatal("model-internal failure in simulation %s (%s): %s", sc.cfg, sim.Violated, vlib.Tail(sim.Out, 1500))
		}
		sk, err := parseSkeletons(sim.Lines, seen)
		if err != nil {
			c.Fatal("%v", err)
		}
		simSk = append(simSk, sk...)
	}
	skeletons = append(skeletons, simSk...)
	c.Cov("skeletons_enumerated", nEnum)
	c.Cov("skeletons_size_focus", nSizes)
	c.Cov("skeletons_size_focus_with_append_smaller_than_free_space", modelSmaller)
	if nSizes < 500 || modelSmaller < nSizes/10 {
		c.Fatal("vacuity: %d skeletons of the size focus, %d of them append fewer sectors than are free", nSizes, modelSmaller)
	}
	c.Cov("skeletons_simulated_distinct", len(simSk))
	if nEnum < 100 || len(simSk) < nSim/2 {
		c.Fatal("vacuity: only %d enumerated and %d simulated skeletons", nEnum, len(simSk))
	}

	// 2c. admission cases: requests on both sides of every gate of the admission rules, with the expected gate
	ad := c.MustTLC(vlib.TLCOpts{SpecDirs: []string{specDir}, Module: "Admission", Config: "Admission.cfg", Workers: 4})
	var admCases []admCase
	admSeen := map[string]bool{}
	modelGates := map[string]int{}
	for _, ln := range ad.Lines {
		if !strings.HasPrefix(ln, "AD ") {
			continue
		}
		js := vlib.UnquoteTLA(strings.TrimPrefix(ln, "AD "))
		if admSeen[js] {
			continue
		}
		admSeen[js] = true
		var k admCase
		if err := json.Unmarshal([]byte(js), &k); err != nil {
			c.Fatal("admission case %q: %v", js, err)
		}
		k["_js"] = js
		admCases = append(admCases, k)
	}
	sort.Slice(admCases, func(i, j int) bool { return admCases[i]["_js"].(string) < admCases[j]["_js"].(string) })
	for _, k := range admCases {
		delete(k, "_js")
		modelGates[ks(k, "rpc")+"/"+ks(k, "gate")]++
	}
	for rpc, gates := range admGates {
		for _, g := range append([]string{"ok"}, gates...) {
			if modelGates[rpc+"/"+g] == 0 {
				c.Fatal("vacuity: the admission model has no %s case at gate %q", rpc, g)
			}
		}
	}
	plans := admPlans(admCases, c.Pick(3, 24))
	c.Cov("admission_cases_model", len(admCases))
	c.Cov("admission_cases_model_by_gate", modelGates)
	c.Cov("admission_lineages", len(plans))

	// 3. execute on the real code
	t0 := time.Now()
	runs := make([]*seqRun, len(skeletons)+len(plans))
	runOne := func(i int) *seqRun {
		if i < len(skeletons) {
			return runSequence(i, skeletons[i], c.Seed)
		}
		return runAdmission(i, plans[i-len(skeletons)], c.Seed)
	}
	var wg sync.WaitGroup
	jobs := make(chan int)
	for w := 0; w < 8; w++ {
		wg.Add(1)
		go func() {
			defer wg.Done()
			for i := range jobs {
				runs[i] = runOne(i)
			}
		}()
	}
	for i := range runs {
		jobs <- i
	}
	close(jobs)
	wg.Wait()
	st := newStats()
	for _, s := range runs {
		st.merge(s.st)
		for _, m := range s.infra {
			c.Infra("%s", m)
		}
	}
	execWall := time.Since(t0)

	var events []ev
	var chunks [][2]int
	startOfSeq := map[int]int{}
	chunkSeqs(runs, &events, &chunks, startOfSeq)
	nSeqLines := len(events)

	// rhp/v2, rhp/v3 lines
	env := newV1Env()
	nV1 := c.Pick(2400, 60000)
	v1Start := len(events) + 1
	v1ChunkFrom := v1Start
	v1seen := map[string]bool{}
	v1Distinct, v1Accepted, v1Err, v1PayOK, v1PayNo := 0, 0, 0, 0, 0
	for i := 0; i < nV1; i++ {
		e := v1Line(env, c.Seed, i)
		b, _ := json.Marshal(e)
		if !v1seen[string(b)] {
			v1seen[string(b)] = true
			v1Distinct++
		}
		if a, _ := e["accepted"].(bool); a {
			v1Accepted++
		}
		if a, _ := e["err"].(bool); a {
			v1Err++
		}
		if e["ev"] == "v1pay" {
			if ok, _ := e["ok"].(bool); ok {
				v1PayOK++
			} else {
				v1PayNo++
			}
		}
		events = append(events, e)
		if (i+1)%64 == 0 || i == nV1-1 {
			chunks = append(chunks, [2]int{v1ChunkFrom, len(events)})
			v1ChunkFrom = len(events) + 1
		}
	}

	// rhp/v2, rhp/v3 lines whose target is chosen by the tax inversion model
	<-taxDone
	taxStart := len(events) + 1
	taxLines := make([]ev, len(taxPl.picks))
	{
		var wg sync.WaitGroup
		for w := 0; w < 8; w++ {
			wg.Add(1)
			go func(w int) {
				defer wg.Done()
				env := newV1Env()
				for i := w; i < len(taxPl.picks); i += 8 {
					taxLines[i] = taxLine(env, taxPl.picks[i])
				}
			}(w)
		}
		wg.Wait()
	}
	taxExec, taxAcc := map[string]int{}, map[string]int{}
	taxSeen := map[string]bool{}
	taxDistinct := 0
	for i, e := range taxLines {
		tp := taxPl.picks[i]
		a, _ := e["accepted"].(bool)
		for _, key := range []string{"ctor/" + taxCtors[tp.Ctor], "class/" + taxCtors[tp.Ctor] + "/" + tp.Cls, "scale/" + taxCtors[tp.Ctor] + "/" + tp.Scale,
			"dist-scale/" + distClass(tp.Cls) + "/" + tp.Scale, fmt.Sprintf("dist-phase/%s/%02d", distClass(tp.Cls), tp.Phase)} {
			taxExec[key]++
			if a || tp.T0 == 0 && tp.K == "0" { // the target zero gives the payout zero, which consensus refuses

				taxAcc[key]++
			}
		}
		if key := fmt.Sprintf("%d/%s/%d", tp.T0, tp.K, tp.Ctor); !taxSeen[key] {
			taxSeen[key] = true
			taxDistinct++
		}
		events = append(events, e)
		if (i+1)%64 == 0 || i == len(taxLines)-1 {
			chunks = append(chunks, [2]int{taxStart + (i/64)*64, len(events)})
		}
	}

	// development aid (binding demonstration): corrupt one logged field of the expected side; TLC must
	// reject the line and, since the real code does not reproduce it, the run must end as INFRA.
	if v := os.Getenv("C17_CORRUPT"); v != "" {
		for _, e := range events {
			if e["ev"] == "rev" && e["err"] == false && e["op"] == v {
				a := e["after"].(ev)
				a["ro"] = vlib.Limbs(new(big.Int).Add(vlib.FromLimbs(a["ro"].([]int)), big.NewInt(1)))
				break
			}
			if v == "adm" && e["ev"] == "adm" && e["admitted"] == false && e["vpanic"] == false {
				e["admitted"] = true
				break
			}
			if v == "cap" && e["ev"] == "rev" && e["err"] == false && e["op"] == "append" {
				a := e["after"].(ev)
				a["cap"] = vlib.Limbs(new(big.Int).Add(vlib.FromLimbs(a["cap"].([]int)), big.NewInt(1<<22)))
				break
			}
			if e["ev"] == "renew" && e["op"] == v {
				r := e["r"].(ev)
				r["hr"] = vlib.Limbs(new(big.Int).Add(vlib.FromLimbs(r["hr"].([]int)), big.NewInt(1)))
				break
			}
			if v == "tax" && e["ev"] == "v1renew2" && e["t0"] != -1 {
				e["payout"] = vlib.Limbs(new(big.Int).Add(vlib.FromLimbs(e["payout"].([]int)), big.NewInt(10000)))
				break
			}
			if e["ev"] == v && v == "v1form" {
				e["payout"] = vlib.Limbs(new(big.Int).Add(vlib.FromLimbs(e["payout"].([]int)), big.NewInt(10000)))
				break
			}
		}
	}

	modelRuns.Wait()
	for k, v := range modelCov {
		c.Cov(k, v)
	}

	// 4. TLC validates the trace
	t1 := time.Now()
	tr, err := validate(c, events, chunks, c.Pick(12, 8))
	if err != nil {
		c.Fatal("trace validation: %v", err)
	}
	c.Cov("trace_lines", len(events))
	c.Cov("trace_chunks", len(chunks))
	c.Cov("exec_wall_s", execWall.Seconds())
	c.Cov("trace_validation_wall_s", time.Since(t1).Seconds())

	// 5. rejected lines: reproduce on the real code, then report
	seqOfLine := func(ln int) int {
		idx := sort.Search(len(runs), func(i int) bool { return startOfSeq[runs[i].idx] > ln }) - 1
		return idx
	}
	lines := make([]int, 0, len(tr.rejects))
	for ln := range tr.rejects {
		lines = append(lines, ln)
	}
	sort.Ints(lines)
	rerun := map[int]*seqRun{}
	for _, ln := range lines {
		e := events[ln-1]
		var again ev
		cs := seqCase{Seed: c.Seed, Msgs: tr.rejects[ln], Ev: normalise(e)}
		if ln >= taxStart {
			cs.Kind, cs.Tax = "tax", taxPl.picks[ln-taxStart]
			again = taxLine(env, cs.Tax)
		} else if ln >= v1Start {
			cs.Kind, cs.Line = "v1", ln-v1Start
			again = v1Line(env, c.Seed, ln-v1Start)
		} else {
			si := seqOfLine(ln)
			if si < 0 {
				c.Infra("rejected line %d belongs to no sequence", ln)
				continue
			}
			cs.Kind, cs.Idx, cs.Sk = "seq", runs[si].idx, runs[si].sk
			if runs[si].adm != nil {
				cs.Kind, cs.Adm = "adm", runs[si].adm
			}
			if rerun[si] == nil {
				rerun[si] = runOne(runs[si].idx)
			}
			off := ln - startOfSeq[runs[si].idx]
			if off < len(rerun[si].events) {
				again = rerun[si].events[off]
			}
		}
		if again == nil || !reflect.DeepEqual(normalise(again), normalise(e)) {
			c.Infra("rejected line %d (%v) does not reproduce on the real code", ln, tr.rejects[ln])
			continue
		}
		for _, m := range tr.rejects[ln] {
			if strings.HasPrefix(m, "probe:") {
				// the transcription of the consensus rules is wrong (or consensus is): not a C17 verdict
				c.Infra("line %d: %s: %v", ln, m, e["what"])
				continue
			}
			if strings.HasPrefix(m, "case:") {
				// the harness did not build the request the model chose: not a C17 verdict
				c.Infra("line %d: %s: %v", ln, m, e["kase"])
				continue
			}
			c.Violation(evKind(e)+":"+slug(m), fmt.Sprintf("%s: %s (line %d)", evKind(e), m, ln), cs)
		}
	}

	// 6. evidence and vacuity guards
	c.Traces(int64(len(runs)) + 1)
	rejectedLines := int64(len(tr.rejects))
	c.Count(int64(nSeqLines-len(runs)+nV1+len(taxLines)), int64(nSeqLines-len(runs)+v1Distinct+taxDistinct)-rejectedLines)
	c.Cov("sequences", len(runs))
	c.Cov("operations_by_kind", st.ops)
	c.Cov("classes", st.classes)
	c.Cov("rollover_branches", st.branches)
	c.Cov("boundaries", st.boundsSeen)
	c.Cov("successful_appends_vs_free_capacity", st.appendVsFree)
	c.Cov("operations_on_contract_sizes_expected_by_model", st.sizeChecks)
	c.Cov("revisions_ok", st.okRev)
	c.Cov("revisions_clean_error", st.errRev)
	c.Cov("drain_revisions", st.drains)
	c.Cov("accepted_by_real_consensus", st.accepted)
	c.Cov("underfunded_refused_by_real_consensus", st.refused)
	c.Cov("requests_passing_real_validate", st.validated)
	c.Cov("real_blocks_mined", st.blocks)
	c.Cov("sequences_stopped_early", st.aborted)
	c.Cov("admission_requests_by_rpc_gate_verdict", st.adm)
	c.Cov("consensus_rule_probes", st.probes)
	c.Cov("consensus_rule_probes_accepted", st.probesAccepted)
	c.Cov("v1_lines", nV1)
	c.Cov("v1_lines_distinct", v1Distinct)
	c.Cov("v1_accepted_by_real_consensus", v1Accepted)
	c.Cov("v1_renewal_errors", v1Err)
	c.Cov("v1_pay_ok", v1PayOK)
	c.Cov("v1_pay_refused", v1PayNo)
	c.Cov("tax_inversion_model_states", taxPl.modelState)
	c.Cov("tax_inversion_model_targets", len(taxPl.cases))
	c.Cov("tax_inversion_model_targets_by_class", taxPl.byClass)
	c.Cov("tax_inversion_lines", len(taxLines))
	c.Cov("tax_inversion_lines_distinct", taxDistinct)
	c.Cov("tax_inversion_executed", taxExec)
	c.Cov("tax_inversion_accepted_by_real_consensus", taxAcc)
	for _, i := range []int{1, 3, nSeqLines / 2, nSeqLines - 1, v1Start, v1Start + 1, taxStart} {
		if i >= 0 && i < len(events) {
			c.Sample(events[i])
		}
	}
	if c.NViolations() == 0 && len(tr.rejects) == 0 {
		minOps := c.Pick(40, 400)
		for _, k := range []string{"new", "append", "free", "roots", "fund", "replenish", "renew", "refreshP", "refreshF"} {
			if st.ops[k] < minOps {
				c.Infra("vacuity: operation %s executed %d times (< %d)", k, st.ops[k], minOps)
			}
		}
		for _, k := range []string{"new", "renew", "refreshP", "refreshF"} {
			for _, f := range []string{"ample", "exact", "short"} {
				if st.classes[k+"/"+f] == 0 {
					c.Infra("vacuity: %s never ran with funding class %s", k, f)
				}
			}
		}
		for _, k := range []string{"append", "free", "roots", "fund", "replenish"} {
			for _, f := range []string{"ample", "exact", "short"} {
				if st.classes[k+"/"+f+"/ample"] == 0 {
					c.Infra("vacuity: %s never ran with funding class %s", k, f)
				}
			}
		}
		for _, cc := range []string{"exact", "short"} {
			if st.classes["append/ample/"+cc] == 0 {
				c.Infra("vacuity: append never ran with collateral class %s", cc)
			}
		}
		for _, b := range []string{"renew/renter-rolls-all", "renew/renter-capped", "renew/host-rolls-all", "renew/host-capped",
			"refreshP/renter-rolls-all", "refreshP/renter-capped", "refreshP/host-rolls-all", "refreshP/host-capped",
			"refreshF/rolls-all"} {
			if st.branches[b] == 0 {
				c.Infra("vacuity: rollover branch %s never taken", b)
			}
		}
		// capacity bookkeeping: sectors freed and then fewer / as many / more appended again, each revision
		// accepted by the real consensus code as a revision of the previous one
		for _, k := range []string{"no-free-space", "smaller", "equal", "larger"} {
			if st.appendVsFree[k] < 2*minOps {
				c.Infra("vacuity: only %d accepted appends of class %q (appended sectors vs free capacity), want >= %d", st.appendVsFree[k], k, 2*minOps)
			}
		}
		if st.appendVsFree["smaller"] < modelSmaller {
			c.Infra("vacuity: the model has %d size-focus skeletons that append fewer sectors than are free, only %d such appends were accepted", modelSmaller, st.appendVsFree["smaller"])
		}
		if st.sizeChecks < 3*nSizes {
			c.Infra("vacuity: only %d operations were checked against the model's sectors stored / of capacity", st.sizeChecks)
		}
		// admission: both sides of every gate were put to the real Validate, and what it admitted reached the
		// real consensus code
		for rpc, gates := range admGates {
			if st.adm[rpc+"/ok/admitted"] == 0 || st.adm[rpc+"/admitted-accepted-by-consensus"] == 0 {
				c.Infra("vacuity: no %s request was admitted by Validate and accepted by consensus (%d / %d)", rpc, st.adm[rpc+"/ok/admitted"], st.adm[rpc+"/admitted-accepted-by-consensus"])
			}
			for _, g := range gates {
				if st.adm[rpc+"/"+g+"/refused"] == 0 {
					c.Infra("vacuity: no %s request was refused at gate %q", rpc, g)
				}
			}
		}
		for key, n := range modelGates {
			if st.adm[key+"/admitted"]+st.adm[key+"/refused"] < n {
				c.Infra("vacuity: admission cases %s: %d in the model, only %d executed per repetition", key, n, st.adm[key+"/admitted"]+st.adm[key+"/refused"])
			}
		}
		if st.okRev < minOps || st.errRev < minOps {
			c.Infra("vacuity: %d successful and %d cleanly failing revisions", st.okRev, st.errRev)
		}
		if st.accepted < 10*minOps || st.refused < minOps/4 {
			c.Infra("vacuity: real consensus accepted %d results and refused %d under-funded transactions", st.accepted, st.refused)
		}
		if st.probes < minOps || st.probesAccepted == 0 || st.probesAccepted == st.probes {
			c.Infra("vacuity: %d consensus-rule probes, %d accepted", st.probes, st.probesAccepted)
		}
		if st.aborted > 0 {
			c.Infra("%d sequences stopped early although no line was rejected", st.aborted)
		}
		// tax inversion: every class of the model went through every constructor and was accepted by the real
		// consensus code, in every magnitude stratum; every boundary distance in every phase of the equation
		for ci := range taxCtors {
			for cls := range taxPl.byClass {
				if key := "class/" + taxCtors[ci] + "/" + cls; taxAcc[key] == 0 {
					c.Infra("vacuity: no target of class %s through %s was accepted by consensus (%d executed)", cls, taxCtors[ci], taxExec[key])
				}
			}
			for _, sc := range taxScales {
				if key := "scale/" + taxCtors[ci] + "/" + sc; taxAcc[key] == 0 {
					c.Infra("vacuity: no target of magnitude stratum %s through %s was accepted by consensus (%d executed)", sc, taxCtors[ci], taxExec[key])
				}
			}
		}
		for _, d := range []string{"d0", "d1", "d9998", "d9999"} {
			for _, sc := range taxScales {
				if key := "dist-scale/" + d + "/" + sc; taxAcc[key] == 0 {
					c.Infra("vacuity: no target at distance %s in magnitude stratum %s was accepted by consensus", d, sc)
				}
			}
			for ph := 0; ph < 39; ph++ {
				if key := fmt.Sprintf("dist-phase/%s/%02d", d, ph); taxAcc[key] == 0 {
					c.Infra("vacuity: no target at distance %s in phase %d of the tax equation was accepted by consensus", d, ph)
				}
			}
		}
		if v1Accepted < nV1/4 || v1Err == 0 || v1PayOK == 0 || v1PayNo == 0 {
			c.Infra("vacuity: v1 lines accepted=%d renewalErrors=%d payOK=%d payRefused=%d", v1Accepted, v1Err, v1PayOK, v1PayNo)
		}
	}
	c.Finish()
}
