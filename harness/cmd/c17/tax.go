package main

import (
	"encoding/json"
	"fmt"
	"math/big"
	"math/rand"
	"sort"
	"strings"

	"verif/harness/vlib"
)

// Targets of the v1 tax inversion chosen by spec/rhp/TaxInversion.tla: every payout within W of the
// two boundaries of every phase of the tax equation (where the floor estimate of the payout is exactly
// 0, 1, 9998 or 9999 above the solution, where a second solution appears, where the rounded tax
// jumps) and the smallest targets, each with the model's class.  The harness lifts a target of the
// second period by whole periods into a magnitude stratum (the equation is periodic: theorem
// Periodic) and runs it through rhp/v2 PrepareContractFormation, rhp/v2 PrepareContractRenewal and
// rhp/v3 PrepareContractRenewal; ContractsTrace.tla (V1Inversion) decides.

const (
	taxPeriodT = 9610000
	taxPeriodP = 10000000
)

// taxTargetCase is one line printed by TaxInversion!Emit.
type taxTargetCase struct {
	T   int64   `json:"t"`
	Sol []int64 `json:"sol"`
	Cls string  `json:"cls"`
	B   string  `json:"b"`
	J   int     `json:"j"`
	D   int     `json:"d"`
}

// taxPick is one executed case: a model target, the stratum it is lifted into and the constructor.
type taxPick struct {
	T0    int64  `json:"t0"`
	Cls   string `json:"cls"`
	Phase int    `json:"phase"`
	Scale string `json:"scale"`
	K     string `json:"k"` // periods added (decimal)
	Ctor  int    `json:"ctor"`
	Seed  int64  `json:"seed"` // of the remaining parameters
}

func (tp *taxPick) k() *big.Int {
	k, _ := new(big.Int).SetString(tp.K, 10)
	return k
}

func (tp *taxPick) target() *big.Int {
	t := new(big.Int).Mul(tp.k(), big.NewInt(taxPeriodT))
	return t.Add(t, big.NewInt(tp.T0))
}

var taxCtors = []string{"v1form", "v1renew2", "v1renew3"}

// taxScales: magnitude strata of the lifted target. The boundaries are those of the 128-bit
// arithmetic of the constructors: one machine word, a high word below / at / above the siafund
// count (the remainder is computed word by word), the values of real contracts, and the top of the range the
// stated assumptions allow.
var taxScales = []string{"raw", "word-below", "word-above", "hi-below-sfc", "hi-at-sfc", "contract", "large"}

// scaleK draws the number of periods for a stratum (t0 is the model target in 9.61e6..1.93e7).
func scaleK(r *rand.Rand, scale string, t0 int64) *big.Int {
	per := big.NewInt(taxPeriodT)
	two64 := new(big.Int).Lsh(big.NewInt(1), 64)
	// floorK(x): the largest k with t0 + k*period <= x
	floorK := func(x *big.Int) *big.Int {
		k := new(big.Int).Sub(x, big.NewInt(t0))
		return k.Div(k, per)
	}
	between := func(lo, hi *big.Int) *big.Int { // target in [lo, hi)
		klo, khi := new(big.Int).Add(floorK(new(big.Int).Sub(lo, one)), one), floorK(new(big.Int).Sub(hi, one))
		if khi.Cmp(klo) < 0 {
			return klo
		}
		return klo.Add(klo, new(big.Int).Rand(r, new(big.Int).Add(new(big.Int).Sub(khi, klo), one)))
	}
	switch scale {
	case "raw":
		return new(big.Int)
	case "word-below": // the last periods that fit one word, or anywhere in the word
		if r.Intn(2) == 0 {
			return new(big.Int).Sub(floorK(new(big.Int).Sub(two64, one)), big.NewInt(int64(r.Intn(3))))
		}
		return between(big.NewInt(1<<32), two64)
	case "word-above": // the first periods past one word
		return new(big.Int).Add(floorK(new(big.Int).Sub(two64, one)), big.NewInt(int64(1+r.Intn(3))))
	case "hi-below-sfc": // high word 1..9999
		return between(two64, new(big.Int).Mul(two64, big.NewInt(10000)))
	case "hi-at-sfc": // high word 9999, 10000, 10001 or a multiple of 10000
		h := int64(9999 + r.Intn(3))
		if r.Intn(3) == 0 {
			h = 10000 * int64(1+r.Intn(50))
		}
		return between(new(big.Int).Mul(two64, big.NewInt(h)), new(big.Int).Mul(two64, big.NewInt(h+1)))
	case "contract": // 1 SC .. 10^6 SC, log-uniform
		lo := new(big.Int).Exp(big.NewInt(10), big.NewInt(int64(24+r.Intn(6))), nil)
		return between(lo, new(big.Int).Mul(lo, big.NewInt(10)))
	default: // up to 2^108
		n := uint(90 + r.Intn(18))
		return between(new(big.Int).Lsh(big.NewInt(1), n), new(big.Int).Lsh(big.NewInt(1), n+1))
	}
}

// distClass is the leading part of a class name (d0, d1, mid, d9998, d9999).
func distClass(cls string) string { return strings.SplitN(cls, "-", 2)[0] }

type taxPlan struct {
	cases      []taxTargetCase
	picks      []*taxPick
	byClass    map[string]int // model targets by class
	modelState int64
}

// taxTargets runs the window mode of TaxInversion.tla and chooses what is executed: for every (class, phase)
// pair of the model perTarget targets (thorough: all of them), each on every constructor, raw (first period, every
// fourth of the second) or lifted into perScale strata (second period).
func taxTargets(c *vlib.Ctx) *taxPlan {
	res := c.MustTLC(vlib.TLCOpts{SpecDirs: []string{specDir}, Module: "TaxInversion", Config: "TaxInversion.cfg", Workers: 4})
	pl := &taxPlan{byClass: map[string]int{}, modelState: res.Distinct}
	seen := map[int64]bool{}
	for _, ln := range res.Lines {
		if !strings.HasPrefix(ln, "TX ") {
			continue
		}
		var k taxTargetCase
		if err := json.Unmarshal([]byte(vlib.UnquoteTLA(strings.TrimPrefix(ln, "TX "))), &k); err != nil {
			c.Fatal("tax inversion case %q: %v", ln, err)
		}
		if seen[k.T] || k.B == "phase" {
			continue
		}
		seen[k.T] = true
		pl.cases = append(pl.cases, k)
		pl.byClass[k.Cls]++
	}
	sort.Slice(pl.cases, func(i, j int) bool { return pl.cases[i].T < pl.cases[j].T })
	// model side of the vacuity guard: the boundary classes exist in the model's output
	for _, need := range [][2]string{{"d0", "-one"}, {"d0", "-two"}, {"d0", "-exact"}, {"d0", "-inexact"},
		{"d1", "-one"}, {"d1", "-two"}, {"d1", "-inexact"}, {"d9998", "-inexact"}, {"d9998", "-borrow"},
		{"d9999", "-inexact"}, {"d9999", "-exact"}, {"d9999", "-borrow"},
		{"mid", "-one"}, {"mid", "-two"}, {"mid", "-borrow"}, {"mid", "-keep"}} {
		n := 0
		for cls, m := range pl.byClass {
			if distClass(cls) == need[0] && strings.Contains(cls, need[1]) {
				n += m
			}
		}
		if n == 0 {
			c.Fatal("vacuity: the tax inversion model has no target of class %s*%s", need[0], need[1])
		}
	}
	exact := 0
	for cls, m := range pl.byClass {
		if strings.Contains(cls, "-exact") {
			exact += m
		}
	}
	if exact == 0 || len(pl.cases) < 5000 {
		c.Fatal("vacuity: the tax inversion model printed %d targets, %d with an exact estimate", len(pl.cases), exact)
	}

	// selection
	r := rand.New(rand.NewSource(c.Seed*2654435761 + 17))
	perPair, perScale := c.Pick(1, 4), c.Pick(1, 3)
	group := map[string][]int{}
	rot := map[string]int{}
	var order []string
	for i, k := range pl.cases {
		// a target with two solutions lies in the `second` window of one phase and in the `jump` window of
		// the next: its phase is that of its largest solution
		pm := k.Sol[len(k.Sol)-1]
		phase := int(pm * 39 / 1000 / 10000 % 39)
		pl.cases[i].J = phase
		g := fmt.Sprintf("%s/%02d/%v", k.Cls, phase, k.T >= taxPeriodT)
		if group[g] == nil {
			order = append(order, g)
		}
		group[g] = append(group[g], i)
	}
	sort.Strings(order)
	for _, g := range order {
		idx := group[g]
		// classes with few members (exact estimates, single solutions near zero) are executed completely
		n := perPair
		if pl.byClass[pl.cases[idx[0]].Cls] <= 60 || n > len(idx) {
			n = len(idx)
		}
		r.Shuffle(len(idx), func(a, b int) { idx[a], idx[b] = idx[b], idx[a] })
		for _, i := range idx[:n] {
			k := pl.cases[i]
			var scales []string
			if k.T >= taxPeriodT {
				// the strata rotate per boundary distance, so that every distance meets every stratum
				d := distClass(k.Cls)
				if rot[d]%4 == 0 {
					scales = append(scales, "raw")
				}
				for n := 0; n < perScale; n++ {
					scales = append(scales, taxScales[1+rot[d]%(len(taxScales)-1)])
					rot[d]++
				}
				if len(idx) == n && perPair == 1 { // rare class: every stratum
					scales = taxScales
				}
			} else {
				scales = []string{"raw"}
			}
			for _, sc := range scales {
				kk := scaleK(r, sc, k.T)
				for ctor := range taxCtors {
					pl.picks = append(pl.picks, &taxPick{T0: k.T, Cls: k.Cls, Phase: k.J, Scale: sc, K: kk.String(), Ctor: ctor, Seed: r.Int63()})
				}
			}
		}
	}
	return pl
}

// taxLine executes one pick on the real code.
func taxLine(env *v1env, tp *taxPick) ev {
	return env.line(rand.New(rand.NewSource(tp.Seed)), []int{0, 1, 2}[tp.Ctor], tp)
}
