// C18 — Multiproof block compression and compact block relay are lossless.
//
//  1. spec/acc/Multiproof.tla: the multiproof of a leaf set is DEFINED as the per-tree list of the roots of the
//     maximal subtrees disjoint from the set; computeMultiproof / expandMultiproof / multiproofSize / forEachTree /
//     splitLeaves and the numLeaves inference and proof-length recovery of the wire format are TRANSCRIBED. TLC proves,
//     for every forest of <= N leaves and every multiset of referenced leaves (duplicates, chain-index leaves,
//     ephemeral parents): compute = definition, size exact, inference sound, expand(compute) = every individual proof.
//     Every case is printed with the expected multiproof (hash terms) and becomes a set of real v2 transactions over a
//     real accumulator: the real encoder's bytes must carry exactly the specification's list, the real decoder must
//     restore every proof bit for bit.
//  2. Valid blocks of real chains (TLC -simulate on Ledger.tla, replayed through the chain harness): block wire form
//     (multiproof) -> decode: ID, commitment, every proof, ValidateBlock verdict and the applied State are unchanged.
//  3. spec/net/Outline.tla: outline = block with a subset of transactions replaced by hashes; OutlineBlock /
//     RemoveTransactions / ID / Missing / Complete and the codec are transcribed; TLC proves Complete returns the
//     original block iff everything omitted was offered and otherwise exactly the missing hashes, for every block shape
//     <= 4 transactions x omitted set x pool. Every case runs on real blocks (chain blocks and synthetic ones).
//     A block is a SEQUENCE: the model enumerates every pattern of equal members (the same transaction at several
//     positions, v1 and v2), outlines are per-position objects, pools are multisets, and an incomplete outline is
//     completed by a second call. Patterns with repeats run on valid blocks derived from the chain blocks (the
//     repeated transactions carry arbitrary data only; real ValidateBlock accepts each block used) and on synthetic
//     blocks that repeat transactions with inputs, proofs and fees.
package main

import (
	"encoding/binary"
	"encoding/json"
	"fmt"
	"math/rand"
	"os"
	"sort"
	"strings"
	"sync"
	"time"

	"go.sia.tech/core/consensus"
	"go.sia.tech/core/types"
	"verif/harness/chain"
	"verif/harness/vlib"
)

// development aid: VERIF_C18_CORRUPT=mp|numleaves|size|missing|complete corrupts ONE expectation taken from TLC;
// the run must then end in a VIOLATION (demonstrates that the expected side is binding).
var corrupt = os.Getenv("VERIF_C18_CORRUPT")

type stats struct {
	mu        sync.Mutex
	sets      map[string]int // transaction sets checked, by source
	feat      map[string]int // feature counters "<source>:<feature>"
	kinds     map[string]int // parent kinds in TLC cases
	nontriv   int64
	classes   map[string]int // outline evaluations by "<source>:<class>"
	outcomes  map[string]int // complete / incomplete
	shapes    map[string]int // block shapes used for outlines
	outlineN  int64
	didCorr   bool
	sampled   map[string]bool
	chainBlk  int
	v1Blocks  int
	mixedBlk  int
	proofsOut int // outline codec round trips carrying v2 transactions with proofs
	seenBlk   map[types.BlockID]bool
	repeated  int
	maxLeaves uint64         // largest accumulator a chain block was built on
	rep       map[string]int // blocks with repeated transactions: feature counters "<source>:<feature>"
}

func newStats() *stats {
	return &stats{sets: map[string]int{}, feat: map[string]int{}, kinds: map[string]int{}, classes: map[string]int{},
		outcomes: map[string]int{}, shapes: map[string]int{}, sampled: map[string]bool{}, seenBlk: map[types.BlockID]bool{}, rep: map[string]int{}}
}

// takeCorrupt is true exactly once.
func (s *stats) takeCorrupt() bool {
	s.mu.Lock()
	defer s.mu.Unlock()
	if s.didCorr {
		return false
	}
	s.didCorr = true
	return true
}

// corrupted reports whether the one corruption has been spent already; it spends it otherwise.
func (s *stats) corrupted() bool { return !s.takeCorrupt() }

func (s *stats) sampleOK(key string, cond bool) bool {
	if !cond {
		return false
	}
	s.mu.Lock()
	defer s.mu.Unlock()
	if s.sampled[key] {
		return false
	}
	s.sampled[key] = true
	return true
}

func (s *stats) noteSet(src string, ft setFeatures, ntx int) {
	s.mu.Lock()
	defer s.mu.Unlock()
	s.sets[src]++
	b := func(name string, v bool) {
		if v {
			s.feat[src+":"+name]++
		}
	}
	b("duplicate-leaves", ft.dup)
	b("chain-index-leaves", ft.chainIndex)
	b("ephemeral-parents", ft.ephemeral)
	b("multi-tree", ft.multiTree)
	b("storage-proof-with-both-leaves", ft.paired)
	b("several-transactions", ntx > 1)
	if ft.nontrivial {
		s.nontriv++
	}
	if src == "tlc" {
		for k := range ft.kinds {
			s.kinds[k]++
		}
	}
}

// ---------------------------------------------------------------------------
// TLC: Multiproof cases

type span struct{ lo, hi, dup int }

func mpConfig(sp span) string {
	return fmt.Sprintf(`SPECIFICATION Spec
CONSTANTS
  MinN = %d
  MaxN = %d
  MaxHt = 3
  MaxDup = %d
INVARIANTS LayoutFaithful ComputeIsDefinition SizeExact InferenceSound ExpandRestores RestoredVerify
CHECK_DEADLOCK FALSE
`, sp.lo, sp.hi, sp.dup)
}

type mpCases struct {
	forests map[int]string
	cases   map[int][]string
	n       int
}

func runMultiproofTLC(c *vlib.Ctx, sp span, workers int) *mpCases {
	res := c.MustTLC(vlib.TLCOpts{SpecDirs: []string{"acc"}, Module: "Multiproof", ConfText: mpConfig(sp), Workers: workers, Timeout: 20 * time.Minute})
	out := &mpCases{forests: map[int]string{}, cases: map[int][]string{}}
	for _, ln := range res.Lines {
		switch {
		case strings.HasPrefix(ln, "FOREST "):
			js := vlib.UnquoteTLA(strings.TrimPrefix(ln, "FOREST "))
			var h struct {
				N int `json:"n"`
			}
			if err := json.Unmarshal([]byte(js), &h); err != nil {
				c.Fatal("FOREST line does not parse: %v", err)
			}
			out.forests[h.N] = js
		case strings.HasPrefix(ln, "CASE "):
			js := vlib.UnquoteTLA(strings.TrimPrefix(ln, "CASE "))
			var h struct {
				N int `json:"n"`
			}
			if err := json.Unmarshal([]byte(js), &h); err != nil {
				c.Fatal("CASE line does not parse: %v", err)
			}
			out.cases[h.N] = append(out.cases[h.N], js)
			out.n++
		}
	}
	// acceptance: one initial state and one evaluated state per case, every case printed
	if res.Distinct != int64(2*out.n) || out.n == 0 {
		c.Fatal("Multiproof %v: %d distinct states but %d cases printed", sp, res.Distinct, out.n)
	}
	for n := sp.lo; n <= sp.hi; n++ {
		if out.forests[n] == "" || len(out.cases[n]) == 0 {
			c.Fatal("Multiproof %v: no forest/cases for n=%d", sp, n)
		}
	}
	return out
}

func saltOf(seed int64, n int) uint64 {
	return uint64(seed)*0x9e3779b97f4a7c15 + uint64(n)*1000003 + 18
}

// a synthetic block candidate: the transactions of a TLC case
type synthSrc struct {
	forest, raw string
	salt        uint64
}

func replayMultiproofCases(c *vlib.Ctx, st *stats, mc *mpCases, synth *[]synthSrc, synthEvery int) {
	type job struct {
		f   *forest
		raw string
	}
	jobs := make(chan job, 256)
	var wg sync.WaitGroup
	for w := 0; w < 8; w++ {
		wg.Add(1)
		go func() {
			defer wg.Done()
			for j := range jobs {
				runCase(c, st, j.f, j.raw)
			}
		}()
	}
	ns := make([]int, 0, len(mc.cases))
	for n := range mc.cases {
		ns = append(ns, n)
	}
	sort.Ints(ns)
	k := 0
	for _, n := range ns {
		f, err := newForest(mc.forests[n], saltOf(c.Seed, n))
		if err != nil {
			c.Infra("forest n=%d: %v", n, err)
			continue
		}
		for _, raw := range mc.cases[n] {
			jobs <- job{f, raw}
			k++
			if synth != nil && k%synthEvery == 0 {
				*synth = append(*synth, synthSrc{mc.forests[n], raw, f.salt})
			}
		}
	}
	close(jobs)
	wg.Wait()
}

// ---------------------------------------------------------------------------
// outlines on real blocks

func blockSalt(b types.Block) int64 {
	id := b.ID()
	return int64(binary.LittleEndian.Uint64(id[:8]) >> 1)
}

// runOutlines runs up to limit of the TLC outline cases in list (those of the block's shape, or of its pattern of
// repeated transactions) on it (all of them when limit <= 0).
func runOutlines(c *vlib.Ctx, st *stats, rb *realBlock, list []*outlineCase, limit int, seed int64) {
	if rb.b.V2 == nil {
		return
	}
	shape := [2]int{len(rb.b.Transactions), len(rb.b.V2Transactions())}
	if len(list) == 0 {
		return
	}
	idx := make([]int, len(list))
	for i := range idx {
		idx[i] = i
	}
	r := rand.New(rand.NewSource(seed ^ blockSalt(rb.b)))
	if limit > 0 && limit < len(list) {
		r.Shuffle(len(idx), func(i, j int) { idx[i], idx[j] = idx[j], idx[i] })
		idx = idx[:limit]
	}
	hasProofs := false
	for _, se := range parentSlots(rb.b.V2Transactions()) {
		if len(se.MerkleProof) > 0 {
			hasProofs = true
		}
	}
	local := map[string]int{}
	outc := map[string]int{}
	repf := map[string]int{}
	codecProofs := 0
	for _, i := range idx {
		oc := list[i]
		if rb.rep {
			noteRepeated(repf, rb, oc)
		}
		variant := r.Intn(4)
		use := *oc
		switch corrupt {
		case "missing":
			if len(oc.Missing) > 0 && !st.corrupted() {
				use.Missing = oc.Missing[1:]
			}
		case "complete":
			if len(oc.Omit) > 0 && !oc.Complete && !st.corrupted() {
				use.Complete, use.Missing = true, nil
			}
		}
		fs := checkOutline(rb, &use, variant)
		local[rb.src+":"+oc.Class]++
		if oc.Complete {
			outc[rb.src+":complete"]++
		} else {
			outc[rb.src+":incomplete"]++
		}
		if hasProofs && len(oc.Omit) < shape[0]+shape[1] {
			codecProofs++
		}
		for _, fd := range fs {
			if fd.key == "harness" {
				c.Infra("outline case on a %s block: %s", rb.src, fd.what)
				continue
			}
			payload := map[string]any{"part": "outline", "outline": oc.raw, "variant": variant}
			for k, v := range rb.replay {
				payload[k] = v
			}
			what := fmt.Sprintf("%s block with %d v1 + %d v2 transactions", rb.src, shape[0], shape[1])
			if rb.rep && rb.next != nil {
				what = fmt.Sprintf("valid block (derived from a chain block, accepted by ValidateBlock) carrying the same transaction at several positions, %d v1 + %d v2 transactions", shape[0], shape[1])
			} else if rb.rep {
				what += ", the same transaction at several positions"
			}
			c.Violation("outline/"+fd.key, what+": "+fd.what, payload)
		}
		if st.sampleOK("outline-repeated-"+rb.src, rb.rep && strings.HasSuffix(oc.Class, "/repeated-omitted") && !oc.Complete && len(oc.Missing) > 1) ||
			st.sampleOK("outline-"+rb.src, !rb.rep && !oc.Complete && len(oc.Missing) > 0 && shape[0] > 0 && shape[1] > 0) {
			c.Sample(map[string]any{"part": "outline", "block": rb.src, "case": json.RawMessage(oc.raw)})
		}
	}
	st.mu.Lock()
	for k, v := range local {
		st.classes[k] += v
		st.outlineN += int64(v)
	}
	for k, v := range outc {
		st.outcomes[k] += v
	}
	if rb.rep {
		st.shapes[fmt.Sprintf("%s:%dv1+%dv2 with repeats", rb.src, shape[0], shape[1])]++
	} else {
		st.shapes[fmt.Sprintf("%s:%dv1+%dv2", rb.src, shape[0], shape[1])]++
	}
	for k, v := range repf {
		st.rep[k] += v
	}
	st.proofsOut += codecProofs
	st.mu.Unlock()
}

// noteRepeated counts which features of repeated transactions one (block, case) pair exercises.
func noteRepeated(m map[string]int, rb *realBlock, oc *outlineCase) {
	k1 := len(rb.b.Transactions)
	cnt, om := map[int]int{}, map[int]int{}
	for _, id := range oc.Ids {
		cnt[id]++
	}
	for _, pos := range oc.Omit {
		om[oc.Ids[pos-1]]++
	}
	twice, mixed, full := false, false, false
	for id, n := range cnt {
		if n < 2 {
			continue
		}
		ver := "v2"
		for j, x := range oc.Ids {
			if x == id && j < k1 {
				ver = "v1"
			}
		}
		m[rb.src+":repeated-"+ver+"-transaction"]++
		switch {
		case om[id] >= 2:
			twice = true
			if om[id] < n {
				mixed = true
			}
		case om[id] == 1:
			mixed = true
		default:
			full = true
		}
	}
	b := func(k string, v bool) {
		if v {
			m[rb.src+":"+k]++
		}
	}
	b("omitted-at-several-positions", twice)
	b("omitted-at-several-positions/resolved-by-one-call", twice && oc.Complete)
	b("omitted-at-several-positions/resolved-by-the-second-call", twice && !oc.Complete)
	b("in-full-at-one-position-and-as-hash-at-another", mixed)
	b("repeated-in-full-only", full && !twice && !mixed)
	dupPool := false
	seen := map[int]bool{}
	for _, id := range append(append([]int(nil), oc.Pool1...), oc.Pool2...) {
		if seen[id] && cnt[id] >= 2 {
			dupPool = true
		}
		seen[id] = true
	}
	b("pool-holds-a-repeated-transaction-several-times", dupPool)
	b("second-call", !oc.Complete)
}

// runRepeated derives nPat blocks with repeated transactions from a chain block (patterns drawn from the model's,
// see repeatedBlock), round-trips each through the block wire form and runs perPat outline cases of its pattern.
func runRepeated(c *vlib.Ctx, st *stats, base *realBlock, cases *outlineCases, nPat, perPat int) {
	if base.b.V2 == nil || len(cases.patterns) == 0 {
		return
	}
	r := rand.New(rand.NewSource(c.Seed ^ blockSalt(base.b) ^ 0x5eed))
	var pool []pattern
	for _, p := range cases.patterns {
		if p.k1 == 0 || v1Allowed(base.cs) {
			pool = append(pool, p)
		}
	}
	for n := 0; n < nPat && len(pool) > 0; n++ {
		p := pool[r.Intn(len(pool))]
		rb, err := repeatedBlock(base, p.k1, p.ids)
		if err != nil {
			c.Infra("%v", err)
			continue
		}
		seen := map[string]bool{}
		for _, fd := range checkBlockRoundTrip(rb) {
			if seen[fd.key] {
				continue
			}
			seen[fd.key] = true
			payload := map[string]any{"part": "block"}
			for k, v := range rb.replay {
				payload[k] = v
			}
			c.Violation("block/"+fd.key, fmt.Sprintf("valid block at height %d carrying the same transaction at several positions (%d v1 + %d v2, by position %v): %s", rb.cs.Index.Height+1, p.k1, p.k2, p.ids, fd.what), payload)
		}
		st.mu.Lock()
		st.rep["chain:valid-blocks"]++
		if rb.baseTxs > 0 {
			st.rep["chain:valid-blocks-carrying-chain-transactions"]++
		}
		if p.k1 > 0 && p.k2 > 0 {
			st.rep["chain:valid-blocks-mixing-v1-and-v2"]++
		}
		st.mu.Unlock()
		runOutlines(c, st, rb, cases.byPattern[p.key], perPat, c.Seed)
	}
}

// synthBlock builds a block (not a valid one: outlines and the wire form do not ask for validity) from the
// transactions of a TLC multiproof case plus k1 simple v1 transactions.
func synthBlock(cs consensus.State, src synthSrc, k1 int) (*realBlock, error) {
	f, err := newForest(src.forest, src.salt)
	if err != nil {
		return nil, err
	}
	var cl caseLine
	if err := json.Unmarshal([]byte(src.raw), &cl); err != nil {
		return nil, err
	}
	v2, err := f.build(&cl)
	if err != nil {
		return nil, err
	}
	var v1 []types.Transaction
	for i := 0; i < k1; i++ {
		h := seedHash(src.salt, cl.N, i, 90+uint64(len(cl.Slots)))
		t := types.Transaction{
			SiacoinOutputs: []types.SiacoinOutput{{Value: curOf(h, 0), Address: types.Address(h)}},
			MinerFees:      []types.Currency{types.NewCurrency64(uint64(h[5]) + 1)},
			ArbitraryData:  [][]byte{h[:int(h[6])%32]},
			Signatures: []types.TransactionSignature{{ParentID: h, CoveredFields: types.CoveredFields{WholeTransaction: true},
				Signature: append([]byte(nil), h[:]...)}},
		}
		v1 = append(v1, t)
	}
	miner := types.Address(seedHash(src.salt, cl.N, k1, 91))
	pay := cs.BlockReward()
	for i := range v1 {
		pay = pay.Add(v1[i].TotalFees())
	}
	for i := range v2 {
		pay = pay.Add(v2[i].MinerFee)
	}
	hh := seedHash(src.salt, cl.N, len(cl.Slots), 92)
	b := types.Block{ParentID: cs.Index.ID, Nonce: binary.LittleEndian.Uint64(hh[:8]), Timestamp: time.Unix(1_700_000_000+int64(hh[9]), 0),
		MinerPayouts: []types.SiacoinOutput{{Address: miner, Value: pay}}, Transactions: v1,
		V2: &types.V2BlockData{Height: cs.Index.Height + 1, Transactions: v2}}
	b.V2.Commitment = cs.Commitment(miner, b.Transactions, b.V2Transactions())
	return &realBlock{cs: cs, b: b, src: "synthetic", replay: map[string]any{"forest": src.forest, "case": src.raw, "salt": src.salt, "k1": k1}}, nil
}

// ---------------------------------------------------------------------------
// chain blocks

func checkChainBlock(c *vlib.Ctx, st *stats, rb *realBlock, cases *outlineCases, limit int) {
	b := rb.b
	if b.V2 == nil {
		st.mu.Lock()
		st.v1Blocks++
		st.mu.Unlock()
		return
	}
	st.mu.Lock()
	if st.seenBlk[b.ID()] { // the same block on the same parent occurs in many behaviours: execute it once
		st.repeated++
		st.mu.Unlock()
		return
	}
	st.seenBlk[b.ID()] = true
	st.mu.Unlock()
	ft := featuresOf(b.V2Transactions())
	fs := checkBlockRoundTrip(rb)
	if len(b.V2Transactions()) > 0 {
		fs = append(fs, checkSet(b.V2Transactions(), nil, -1, 0)...)
	}
	st.noteSet(rb.src, ft, len(b.V2Transactions()))
	st.mu.Lock()
	st.chainBlk++
	if rb.cs.Elements.NumLeaves > st.maxLeaves {
		st.maxLeaves = rb.cs.Elements.NumLeaves
	}
	if len(b.Transactions) > 0 && len(b.V2Transactions()) > 0 {
		st.mixedBlk++
	}
	st.mu.Unlock()
	seen := map[string]bool{}
	for _, fd := range fs {
		if seen[fd.key] {
			continue
		}
		seen[fd.key] = true
		payload := map[string]any{"part": "block"}
		for k, v := range rb.replay {
			payload[k] = v
		}
		c.Violation("block/"+fd.key, fmt.Sprintf("%s block at height %d with %d v2 transactions: %s", rb.src, rb.cs.Index.Height+1, len(b.V2Transactions()), fd.what), payload)
	}
	if st.sampleOK("chain-block", ft.dup && ft.chainIndex) {
		c.Sample(map[string]any{"part": "block", "height": rb.cs.Index.Height + 1, "v2_transactions": len(b.V2Transactions()),
			"features": "duplicate leaves + storage-proof chain index", "accumulator_leaves": rb.cs.Elements.NumLeaves})
	}
	runOutlines(c, st, rb, cases.byShape[[2]int{len(b.Transactions), len(b.V2Transactions())}], limit, c.Seed)
	runRepeated(c, st, rb, cases, c.Pick(1, 2), c.Pick(6, 12))
}

type chainRun struct {
	name, shape string
	tpl         []string
	noFocus     bool
	small       bool
}

func chainConfig(rn chainRun) chain.LedgerConfig {
	cfg := chain.BaseConfig(chain.Shapes()[rn.shape])
	cfg.Templates = rn.tpl
	cfg.MaxHeight = 8
	cfg.MaxTxns = 4
	if rn.small {
		// contract life-cycles: few variants per template so that revisions, proofs and renewals meet in one block
		cfg.Pay1, cfg.Sizes, cfg.FormRH = []int{256411}, []int{200}, [][2]int{{250024, 25}}
		cfg.PayAmts, cfg.Fees = []int{599}, []int{0, 10}
	}
	return cfg
}

func main() {
	c := vlib.Start("C18")
	if c.Replay != "" {
		replay(c)
		c.Finish()
	}
	c.Rule("(1) Multiproof.tla cases: every forest of n leaves and every multiplicity vector m in {0,1,2}^n \\ {0} (quick: n<=7 all, n=8..10 at most one duplicate; thorough: n<=10 all, n=11..12 at most one duplicate, n=13..15 no duplicates), laid out by the specification as 1..3 v2 transactions (siacoin/siafund inputs, revision and resolution parents, storage-proof chain indices, ephemeral parents); TLC checks compute=definition, size, inference, expand on each and prints the expected multiproof; the harness builds real elements, evaluates the terms with real leaf hashes, and compares the real encoder's bytes / decoder's proofs. A case is non-trivial iff some referenced leaf has a non-empty proof. " +
		"(2) every accepted block of TLC-simulated Ledger.tla behaviours (v2-only and mixed-era networks; payments, siafunds, v2 formation/revision/proof/expiry/renewal, ephemeral spends): wire round trip, ID, commitment, proofs, ValidateBlock, ApplyBlock state. " +
		"(3) Outline.tla cases (block of k1+k2<=4 (thorough 5) transactions x pattern of equal members (the same transaction at several positions) x omitted position set x offered subset x extras x order; an incomplete outline gets a second call that is offered the rest) on those chain blocks (a seeded sample of cases per block in quick), on VALID blocks with repeated transactions derived from every chain block (repeated members carry arbitrary data only; real ValidateBlock accepts each block used; also round-tripped through the block wire form) and on synthetic blocks made of the transactions of (1), distinct (all cases of the shape in thorough) and repeated (a seeded sample of the pattern's cases). evaluations = TLC multiproof cases + chain blocks round-tripped + (block, outline case) pairs; distinct_nontrivial = non-trivial multiproof sets (TLC cases and chain blocks) + outline pairs with at least one omitted transaction.")
	c.Assume("a transaction that occurs several times in a VALID block spends nothing; the harness uses arbitrary-data-only transactions for them and keeps only blocks the real ValidateBlock accepts")
	c.Assume("hash terms are injective: results are relative to collision resistance of blake2b")
	c.Assume("types/verif_export.go, gateway/verif_export.go, consensus/verif_export.go (build tag verif) only forward to the unexported originals")
	c.Assume("plain field encoding of transactions (V2Transaction.EncodeTo/DecodeFrom with individual proofs) is property C11's topic; it is used here to compare transactions")
	c.Assume("honest-store model for v1 supplements (chain harness)")
	st := newStats()
	t0 := time.Now()

	// --- outline cases (TLC) ----------------------------------------------------------------
	ores := c.MustTLC(vlib.TLCOpts{SpecDirs: []string{"net"}, Module: "Outline", Config: map[bool]string{false: "Outline.cfg", true: "OutlineThorough.cfg"}[c.Thorough], Workers: 4, Timeout: 10 * time.Minute})
	ocases, err := parseOutlineCases(ores.Lines)
	if err != nil {
		c.Fatal("%v", err)
	}
	nOutline := ocases.n
	if ores.Distinct != int64(2*nOutline) || nOutline == 0 {
		c.Fatal("Outline: %d distinct states but %d cases printed", ores.Distinct, nOutline)
	}
	if ocases.nRep == 0 || len(ocases.patterns) == 0 {
		c.Fatal("Outline: no case with a repeated transaction printed")
	}
	c.Cov("outline_cases_tlc", nOutline)
	c.Cov("outline_cases_tlc_with_repeated_transactions", map[string]any{"cases": ocases.nRep, "patterns": len(ocases.patterns), "largest_block": ocases.maxTx})

	// --- multiproof cases (TLC) in the background --------------------------------------------
	spans := []span{{1, 7, 8}, {8, 10, 1}}
	if c.Thorough {
		spans = []span{{1, 8, 12}, {9, 9, 12}, {10, 10, 12}, {11, 11, 1}, {12, 12, 1}, {13, 14, 0}, {15, 15, 0}}
	}
	var synth []synthSrc
	var bg sync.WaitGroup
	var nCases int
	bg.Add(1)
	go func() {
		defer bg.Done()
		for _, sp := range spans {
			mc := runMultiproofTLC(c, sp, c.Pick(6, 8))
			nCases += mc.n
			replayMultiproofCases(c, st, mc, &synth, c.Pick(40, 60))
		}
	}()

	// --- chains -----------------------------------------------------------------------------
	v2all := []string{"pay", "pay2", "sf", "form2", "rev2", "res2", "renew2"}
	runs := []chainRun{
		{"v2-lifecycle", "v2only", []string{"form2", "rev2", "res2", "renew2"}, true, true},
		{"v2-all", "v2only", v2all, false, false},
		{"mixed", "mixed", chain.AllTemplates, false, false},
		{"mixed-eras-in-one-block", "mixed", []string{"pay", "pay2", "sf", "form2", "rev2", "res2"}, true, true},
	}
	total := chain.RunStats{}
	limit := c.Pick(12, 48)
	for _, rn := range runs {
		cfg := chainConfig(rn)
		opts := chain.RunOpts{Num: c.Pick(140, 4000), Depth: 64, Timeout: 20 * time.Minute, NoFocus: rn.noFocus,
			KeyOf: func(m chain.Mismatch) string { return "ledger/" + m.Kind + "/" + m.Tag },
			Hook: func(sim *chain.Sim, beh *chain.Behaviour, i int, step chain.Step, res chain.StepResult) {
				if step.Op != "block" || step.Verdict != "accept" || !res.Accepted || len(sim.Chain) == 0 {
					return
				}
				a := sim.Chain[len(sim.Chain)-1]
				if a.Block.ID() != res.Block.ID() {
					return
				}
				next := a.Next
				rb := &realBlock{cs: a.Prev, b: a.Block, supp: a.Supp, next: &next, src: "chain",
					replay: map[string]any{"params": cfg.P, "behaviour": stepsJSON(beh.Steps[:i+1])}}
				checkChainBlock(c, st, rb, ocases, limit)
			}}
		rs := chain.Run(c, cfg, opts)
		total.Behaviours += rs.Behaviours
		total.Steps += rs.Steps
		total.Accepted += rs.Accepted
		c.Cov("chain_"+rn.name, map[string]any{"behaviours": rs.Behaviours, "blocks_accepted": rs.Accepted, "transactions": rs.Txs})
	}
	c.Cov("wall_chains_s", time.Since(t0).Seconds())
	bg.Wait()
	c.Cov("multiproof_cases_tlc", nCases)
	tMid := time.Since(t0)

	// --- synthetic blocks: outlines and block wire form over the transactions of the multiproof cases -----------
	sim0 := chain.NewSim(chain.Shapes()["v2only"])
	nSynth := 0
	{
		var wg sync.WaitGroup
		sem := make(chan struct{}, 8)
		maxSynth := c.Pick(120, 1500)
		for i, src := range synth {
			if i >= maxSynth {
				break
			}
			nSynth++
			wg.Add(1)
			sem <- struct{}{}
			go func(i int, src synthSrc) {
				defer wg.Done()
				defer func() { <-sem }()
				var cl struct {
					Txs []json.RawMessage `json:"txs"`
				}
				json.Unmarshal([]byte(src.raw), &cl)
				maxTx := ocases.maxTx
				k1 := i % (maxTx + 1 - len(cl.Txs))
				rb, err := synthBlock(sim0.CS, src, k1)
				if err != nil {
					c.Infra("synthetic block: %v", err)
					return
				}
				for _, fd := range checkBlockRoundTrip(rb) {
					payload := map[string]any{"part": "synthetic-block"}
					for k, v := range rb.replay {
						payload[k] = v
					}
					c.Violation("block/"+fd.key, fmt.Sprintf("synthetic block with %d v1 + %d v2 transactions: %s", k1, len(cl.Txs), fd.what), payload)
				}
				st.mu.Lock()
				st.sets["synthetic-block"]++
				st.mu.Unlock()
				runOutlines(c, st, rb, ocases.byShape[[2]int{k1, len(cl.Txs)}], c.Pick(160, 0), c.Seed)
				// the same transactions (inputs, proofs, fees) at several positions: n1 distinct v1 ones and all the
				// v2 ones of the case, in a pattern of the model that repeats some of them
				n1 := i % (maxTx - len(cl.Txs))
				pats := ocases.byClasses[[2]int{n1, len(cl.Txs)}]
				if len(pats) == 0 {
					return
				}
				base, err := synthBlock(sim0.CS, src, n1)
				if err != nil {
					c.Infra("synthetic block: %v", err)
					return
				}
				for n := 0; n < c.Pick(1, 2); n++ {
					p := pats[(i/(maxTx-len(cl.Txs))+n*7)%len(pats)]
					rr, err := repeatedBlock(base, p.k1, p.ids)
					if err != nil {
						c.Infra("%v", err)
						return
					}
					for _, fd := range checkBlockRoundTrip(rr) {
						payload := map[string]any{"part": "synthetic-block"}
						for k, v := range rr.replay {
							payload[k] = v
						}
						c.Violation("block/"+fd.key, fmt.Sprintf("synthetic block carrying the same transaction at several positions (%d v1 + %d v2, by position %v): %s", p.k1, p.k2, p.ids, fd.what), payload)
					}
					st.mu.Lock()
					st.rep["synthetic:blocks"]++
					st.mu.Unlock()
					runOutlines(c, st, rr, ocases.byPattern[p.key], c.Pick(160, 500), c.Seed)
				}
			}(i, src)
		}
		wg.Wait()
	}

	// --- evidence and vacuity guards ----------------------------------------------------------
	c.Cov("transaction_sets_checked", st.sets)
	c.Cov("set_features", st.feat)
	c.Cov("tlc_case_parent_kinds", st.kinds)
	c.Cov("outline_evaluations_by_class", st.classes)
	c.Cov("outline_outcomes", st.outcomes)
	c.Cov("outline_block_shapes", st.shapes)
	c.Cov("outline_codec_round_trips_with_proofs", st.proofsOut)
	c.Cov("chain_blocks_round_tripped", st.chainBlk)
	c.Cov("chain_blocks_without_v2_data_skipped", st.v1Blocks)
	c.Cov("chain_blocks_repeated_in_other_behaviours_skipped", st.repeated)
	c.Cov("chain_blocks_mixing_v1_and_v2", st.mixedBlk)
	c.Cov("synthetic_blocks", nSynth)
	c.Cov("largest_accumulator_under_a_chain_block_leaves", st.maxLeaves)
	c.Cov("wall_tlc_and_chains_s", tMid.Seconds())
	need := func(m map[string]int, keys ...string) {
		for _, k := range keys {
			if m[k] == 0 {
				c.Infra("vacuity: %s never occurred", k)
			}
		}
	}
	if st.sets["tlc"] != nCases {
		c.Infra("only %d of %d TLC multiproof cases were executed", st.sets["tlc"], nCases)
	}
	need(st.feat, "tlc:duplicate-leaves", "tlc:chain-index-leaves", "tlc:ephemeral-parents", "tlc:multi-tree", "tlc:storage-proof-with-both-leaves", "tlc:several-transactions",
		"chain:duplicate-leaves", "chain:chain-index-leaves", "chain:ephemeral-parents", "chain:multi-tree", "chain:several-transactions", "chain:storage-proof-with-both-leaves")
	need(st.kinds, "siacoin-input", "siafund-input", "revision-parent", "resolution-parent", "storage-proof-index",
		"siacoin-input/ephemeral", "siafund-input/ephemeral", "revision-parent/ephemeral", "resolution-parent/ephemeral")
	for _, src := range []string{"chain", "synthetic"} {
		for _, cl := range []string{"nothing-omitted", "exact", "superset", "permuted", "partial", "partial+extra", "empty", "unrelated-only"} {
			need(st.classes, src+":"+cl)
		}
		need(st.outcomes, src+":complete", src+":incomplete")
		// blocks carrying the same transaction at several positions
		for _, cl := range []string{"nothing-omitted", "exact", "superset", "permuted", "partial", "partial+extra", "empty", "unrelated-only"} {
			need(st.classes, src+":"+cl+"/repeated")
			if cl != "nothing-omitted" {
				need(st.classes, src+":"+cl+"/repeated-omitted")
			}
		}
		need(st.rep, src+":repeated-v1-transaction", src+":repeated-v2-transaction", src+":omitted-at-several-positions/resolved-by-one-call",
			src+":omitted-at-several-positions/resolved-by-the-second-call", src+":in-full-at-one-position-and-as-hash-at-another",
			src+":repeated-in-full-only", src+":pool-holds-a-repeated-transaction-several-times", src+":second-call")
	}
	need(st.rep, "chain:valid-blocks", "chain:valid-blocks-carrying-chain-transactions", "chain:valid-blocks-mixing-v1-and-v2", "synthetic:blocks")
	c.Cov("outline_blocks_with_repeated_transactions", st.rep)
	if st.mixedBlk == 0 {
		c.Infra("vacuity: no chain block mixes v1 and v2 transactions")
	}
	if st.proofsOut == 0 {
		c.Infra("vacuity: no outline codec round trip carried v2 transactions with proofs")
	}
	if corrupt != "" && !st.didCorr {
		c.Infra("VERIF_C18_CORRUPT=%s found nothing to corrupt", corrupt)
	}
	omitted := int64(0)
	for k, v := range st.classes {
		if !strings.HasSuffix(k, ":nothing-omitted") {
			omitted += int64(v)
		}
	}
	c.Traces(int64(total.Behaviours) + int64(nCases))
	c.Count(int64(nCases)+int64(st.chainBlk)+int64(st.rep["chain:valid-blocks"])+st.outlineN, st.nontriv+omitted)
	c.Finish()
}

// stepsJSON renders abstract steps so that they parse again: chain.AbsC2 reads lower-case keys (as TLC prints
// them) but has no matching marshaller, which matters for the new contract inside a renewal.
func stepsJSON(steps []chain.Step) any {
	js, _ := json.Marshal(steps)
	var v any
	json.Unmarshal(js, &v)
	var walk func(x any) any
	walk = func(x any) any {
		switch t := x.(type) {
		case []any:
			for i := range t {
				t[i] = walk(t[i])
			}
		case map[string]any:
			for k, e := range t {
				if m, ok := e.(map[string]any); ok && k == "nc" {
					if _, upper := m["Ra"]; upper {
						if m["Null"] == true {
							t[k] = map[string]any{"null": true}
							continue
						}
						lc := map[string]any{}
						for kk, vv := range m {
							if kk != "Null" {
								lc[strings.ToLower(kk)] = vv
							}
						}
						t[k] = lc
						continue
					}
				}
				t[k] = walk(e)
			}
		}
		return x
	}
	return walk(v)
}

// ---------------------------------------------------------------------------
// replay of one saved case

func replay(c *vlib.Ctx) {
	raw, err := os.ReadFile(c.Replay)
	if err != nil {
		c.Fatal("cannot read %s: %v", c.Replay, err)
	}
	var f struct {
		Key  string `json:"key"`
		Case struct {
			Part      string       `json:"part"`
			Forest    string       `json:"forest"`
			Case      string       `json:"case"`
			Salt      uint64       `json:"salt"`
			K1        int          `json:"k1"`
			Outline   string       `json:"outline"`
			Variant   int          `json:"variant"`
			Params    chain.Params `json:"params"`
			Behaviour []chain.Step `json:"behaviour"`
			Pattern   *struct {
				K1  int   `json:"k1"`
				Ids []int `json:"ids"`
			} `json:"pattern"`
		} `json:"case"`
	}
	if err := json.Unmarshal(raw, &f); err != nil {
		c.Fatal("cannot parse %s: %v", c.Replay, err)
	}
	var keep struct {
		Case json.RawMessage `json:"case"`
	}
	json.Unmarshal(raw, &keep) // a reproduced violation is saved with the case exactly as it was read
	st := newStats()
	cs := f.Case
	var rb *realBlock
	switch {
	case cs.Part == "multiproof":
		fo, err := newForest(cs.Forest, cs.Salt)
		if err != nil {
			c.Fatal("replay: %v", err)
		}
		runCase(c, st, fo, cs.Case)
	case len(cs.Behaviour) > 0:
		sim := chain.NewSim(cs.Params)
		for i, step := range cs.Behaviour {
			if _, infra := sim.RunStep(i, step); infra != nil {
				c.Fatal("replay: %v", infra)
			}
		}
		if len(sim.Chain) == 0 {
			c.Fatal("replay: behaviour applies no block")
		}
		a := sim.Chain[len(sim.Chain)-1]
		next := a.Next
		rb = &realBlock{cs: a.Prev, b: a.Block, supp: a.Supp, next: &next, src: "chain", replay: map[string]any{}}
	case cs.Forest != "":
		sim0 := chain.NewSim(chain.Shapes()["v2only"])
		rb, err = synthBlock(sim0.CS, synthSrc{cs.Forest, cs.Case, cs.Salt}, cs.K1)
		if err != nil {
			c.Fatal("replay: %v", err)
		}
	default:
		c.Fatal("replay: unknown case format")
	}
	if rb != nil && cs.Pattern != nil {
		rb, err = repeatedBlock(rb, cs.Pattern.K1, cs.Pattern.Ids)
		if err != nil {
			c.Fatal("replay: %v", err)
		}
	}
	if rb != nil {
		if cs.Part == "outline" {
			oc := &outlineCase{raw: cs.Outline}
			if err := json.Unmarshal([]byte(cs.Outline), oc); err != nil {
				c.Fatal("replay: %v", err)
			}
			for _, fd := range checkOutline(rb, oc, cs.Variant) {
				c.Violation("outline/"+fd.key, fd.what, keep.Case)
			}
		} else {
			fs := checkBlockRoundTrip(rb)
			if rb.next != nil && len(rb.b.V2Transactions()) > 0 {
				fs = append(fs, checkSet(rb.b.V2Transactions(), nil, -1, 0)...)
			}
			for _, fd := range fs {
				c.Violation("block/"+fd.key, fd.what, keep.Case)
			}
		}
	}
	if c.NViolations() == 0 {
		fmt.Printf("replay: case %s holds on the current tree\n", f.Key)
	}
}
