package main

import (
	"bytes"
	"encoding/json"
	"fmt"
	"sort"
	"time"

	"go.sia.tech/core/consensus"

	"go.sia.tech/core/gateway"
	"go.sia.tech/core/types"
	"verif/harness/vlib"
)

// what spec/net/Outline.tla prints
type outlineCase struct {
	K1       int    `json:"k1"`
	K2       int    `json:"k2"`
	Ids      []int  `json:"ids"`    // per position (v1 ++ v2) the id of the transaction it carries: equal ids = the same transaction
	Omit     []int  `json:"omit"`   // omitted positions, 1-based over v1 ++ v2
	OmitRm   []int  `json:"omitrm"` // what OutlineBlock / RemoveTransactions omit when asked for the transactions at Omit: every position carrying one of them
	Class    string `json:"class"`
	Pool1    []int  `json:"pool1"` // ids: the block's transaction with that id, 101/103 unrelated v1, 102/104 unrelated v2
	Pool2    []int  `json:"pool2"`
	Complete bool   `json:"complete"`
	Missing  []int  `json:"missing"` // positions still unresolved after the call
	Pool1b   []int  `json:"pool1b"`  // pool of the second call on the same outline (offers the rest)
	Pool2b   []int  `json:"pool2b"`
	Kinds    []int  `json:"kinds"`   // per position: 0 v1 present, 1 v2 present, 2 hash only
	KindsRm  []int  `json:"kindsrm"` // the same for the outline OutlineBlock returns
	raw      string
}

// repeated: some transaction occurs at more than one position of the block.
func repeatedIDs(ids []int) bool {
	seen := map[int]bool{}
	for _, id := range ids {
		if seen[id] {
			return true
		}
		seen[id] = true
	}
	return false
}

func sameInts(a, b []int) bool {
	if len(a) != len(b) {
		return false
	}
	for i := range a {
		if a[i] != b[i] {
			return false
		}
	}
	return true
}

// a pattern of equal members: k1 v1 positions, k2 v2 positions, n1 / n2 distinct transactions
type pattern struct {
	key            string
	k1, k2, n1, n2 int
	ids            []int
}

func patternOf(k1 int, ids []int) pattern {
	p := pattern{k1: k1, k2: len(ids) - k1, ids: ids, key: fmt.Sprintf("%d|%v", k1, ids)}
	d1, d2 := map[int]bool{}, map[int]bool{}
	for j, id := range ids {
		if j < k1 {
			d1[id] = true
		} else {
			d2[id] = true
		}
	}
	p.n1, p.n2 = len(d1), len(d2)
	return p
}

type outlineCases struct {
	byShape   map[[2]int][]*outlineCase // blocks of distinct transactions, by (k1, k2)
	byPattern map[string][]*outlineCase // blocks with repeated transactions, by pattern key
	patterns  []pattern                 // the patterns with repeats, sorted by key
	byClasses map[[2]int][]pattern      // ... by (n1, n2)
	n, nRep   int
	maxTx     int
}

func parseOutlineCases(lines []string) (*outlineCases, error) {
	out := &outlineCases{byShape: map[[2]int][]*outlineCase{}, byPattern: map[string][]*outlineCase{}, byClasses: map[[2]int][]pattern{}}
	for _, ln := range lines {
		const tag = "OUTLINE "
		if len(ln) < len(tag) || ln[:len(tag)] != tag {
			continue
		}
		js := vlib.UnquoteTLA(ln[len(tag):])
		oc := &outlineCase{raw: js}
		if err := json.Unmarshal([]byte(js), oc); err != nil {
			return nil, fmt.Errorf("OUTLINE line does not parse: %v: %.200s", err, js)
		}
		if len(oc.Ids) != oc.K1+oc.K2 || len(oc.Kinds) != len(oc.Ids) || len(oc.KindsRm) != len(oc.Ids) {
			return nil, fmt.Errorf("OUTLINE line is inconsistent: %.200s", js)
		}
		if len(oc.Ids) > out.maxTx {
			out.maxTx = len(oc.Ids)
		}
		out.n++
		if !repeatedIDs(oc.Ids) {
			k := [2]int{oc.K1, oc.K2}
			out.byShape[k] = append(out.byShape[k], oc)
			continue
		}
		out.nRep++
		p := patternOf(oc.K1, oc.Ids)
		if out.byPattern[p.key] == nil {
			out.patterns = append(out.patterns, p)
		}
		out.byPattern[p.key] = append(out.byPattern[p.key], oc)
	}
	sort.Slice(out.patterns, func(i, j int) bool { return out.patterns[i].key < out.patterns[j].key })
	for _, p := range out.patterns {
		k := [2]int{p.n1, p.n2}
		out.byClasses[k] = append(out.byClasses[k], p)
	}
	return out, nil
}

func copyV1(t types.Transaction) types.Transaction {
	var c types.Transaction
	d := types.NewBufDecoder(enc(t))
	c.DecodeFrom(d)
	return c
}

// unrelated transactions offered next to the wanted ones. Where possible they are look-alikes of an omitted
// transaction: same transaction ID, different full hash (a signature or proof bit flipped).
func extraV1(id int, like *types.Transaction) types.Transaction {
	if like != nil && len(like.Signatures) > 0 && len(like.Signatures[0].Signature) > 0 {
		c := copyV1(*like)
		c.Signatures[0].Signature[0] ^= 1
		return c
	}
	return types.Transaction{ArbitraryData: [][]byte{[]byte(fmt.Sprintf("unrelated v1 transaction %d", id))}, MinerFees: []types.Currency{types.NewCurrency64(uint64(id))}}
}

func extraV2(id int, like *types.V2Transaction) types.V2Transaction {
	if like != nil {
		c := like.DeepCopy()
		if len(c.SiacoinInputs) > 0 && len(c.SiacoinInputs[0].SatisfiedPolicy.Signatures) > 0 {
			c.SiacoinInputs[0].SatisfiedPolicy.Signatures[0][0] ^= 1
			return c
		}
		for _, se := range parentSlots([]types.V2Transaction{c}) {
			if len(se.MerkleProof) > 0 {
				se.MerkleProof[0][0] ^= 1
				return c
			}
		}
	}
	return types.V2Transaction{ArbitraryData: []byte(fmt.Sprintf("unrelated v2 transaction %d", id)), MinerFee: types.NewCurrency64(uint64(id))}
}

func sameHashes(a, b []types.Hash256) bool {
	if len(a) != len(b) {
		return false
	}
	for i := range a {
		if a[i] != b[i] {
			return false
		}
	}
	return true
}

func copyBlock(b types.Block) types.Block {
	c := b
	c.MinerPayouts = append([]types.SiacoinOutput(nil), b.MinerPayouts...)
	c.Transactions = make([]types.Transaction, len(b.Transactions))
	for i := range b.Transactions {
		c.Transactions[i] = copyV1(b.Transactions[i])
	}
	if b.V2 != nil {
		v := *b.V2
		v.Transactions = deepCopyTxns(b.V2.Transactions)
		c.V2 = &v
	}
	return c
}

// outlinesEqual compares two outlines field by field (transactions by their full encodings, proofs included).
func outlinesEqual(a, b *gateway.V2BlockOutline) string {
	if a.Height != b.Height || a.ParentID != b.ParentID || a.Nonce != b.Nonce || !a.Timestamp.Equal(b.Timestamp) || a.MinerAddress != b.MinerAddress {
		return "header fields differ"
	}
	if len(a.Transactions) != len(b.Transactions) {
		return fmt.Sprintf("%d entries vs %d", len(a.Transactions), len(b.Transactions))
	}
	for i := range a.Transactions {
		x, y := &a.Transactions[i], &b.Transactions[i]
		switch {
		case x.Hash != y.Hash:
			return fmt.Sprintf("entry %d: hash differs", i)
		case (x.Transaction == nil) != (y.Transaction == nil) || (x.V2Transaction == nil) != (y.V2Transaction == nil):
			return fmt.Sprintf("entry %d: presence differs", i)
		case x.Transaction != nil && !bytes.Equal(enc(*x.Transaction), enc(*y.Transaction)):
			return fmt.Sprintf("entry %d: v1 transaction differs", i)
		case x.V2Transaction != nil && !bytes.Equal(enc(*x.V2Transaction), enc(*y.V2Transaction)):
			return fmt.Sprintf("entry %d: v2 transaction differs (proofs included)", i)
		}
	}
	return ""
}

// sameBlock compares a completed block with the original ("" = exactly the original block).
func sameBlock(cs consensus.State, got, orig types.Block) string {
	switch {
	case got.ID() != orig.ID():
		return "completed block has another ID than the original"
	case got.V2 == nil || got.V2.Commitment != orig.V2.Commitment || got.V2.Height != orig.V2.Height:
		return "completed block has another commitment/height than the original"
	case len(got.MinerPayouts) == 0 || cs.Commitment(got.MinerPayouts[0].Address, got.Transactions, got.V2Transactions()) != orig.V2.Commitment:
		return "State.Commitment over the completed block differs from the original commitment"
	case !bytes.Equal(encV1(got.Transactions), encV1(orig.Transactions)) || !bytes.Equal(fullEnc(got.V2Transactions()), fullEnc(orig.V2Transactions())):
		return fmt.Sprintf("transactions of the completed block differ from the original (%d v1 + %d v2 for %d v1 + %d v2; proofs included)",
			len(got.Transactions), len(got.V2Transactions()), len(orig.Transactions), len(orig.V2Transactions()))
	case !bytes.Equal(enc(types.V2Block(got)), enc(types.V2Block(orig))):
		return "completed block differs from the original (payouts or header)"
	}
	return ""
}

// checkOutline runs one TLC outline case on one real block. variant selects which of the equivalent doors is used
// (OutlineBlock with the omitted transactions vs. OutlineBlock + RemoveTransactions; Complete on the outline itself
// vs. on its decoded wire form). The block may carry the same transaction at several positions (oc.Ids); where the
// case omits only some positions of a transaction, the outline under test is the per-position one (as any peer may
// send it) and OutlineBlock is checked against the specification's answer for it (every position omitted).
func checkOutline(rb *realBlock, oc *outlineCase, variant int) (fs []finding) {
	add := func(key, f string, a ...any) { fs = append(fs, finding{key, fmt.Sprintf(f, a...)}) }
	orig := rb.b
	k1, k2 := len(orig.Transactions), len(orig.V2Transactions())
	if k1 != oc.K1 || k2 != oc.K2 || orig.V2 == nil || len(oc.Ids) != k1+k2 {
		return []finding{{"harness", "block shape does not match the case"}}
	}
	b := copyBlock(orig)
	hashAt := func(pos int) types.Hash256 {
		if pos <= k1 {
			return orig.Transactions[pos-1].MerkleLeafHash()
		}
		return orig.V2.Transactions[pos-1-k1].MerkleLeafHash()
	}
	posOf := map[int]int{} // id -> first position carrying it
	for j := k1 + k2; j >= 1; j-- {
		posOf[oc.Ids[j-1]] = j
	}
	for i := 1; i <= k1+k2; i++ {
		for j := i + 1; j <= k1+k2; j++ {
			if (oc.Ids[i-1] == oc.Ids[j-1]) != (hashAt(i) == hashAt(j)) {
				return []finding{{"harness", fmt.Sprintf("positions %d and %d: equal transactions in the block do not match the pattern %v of the case", i, j, oc.Ids)}}
			}
		}
	}
	hashesAt := func(ps []int) (hs []types.Hash256) {
		for _, pos := range ps {
			hs = append(hs, hashAt(pos))
		}
		return
	}
	var rm1 []types.Transaction
	var rm2 []types.V2Transaction
	var like1 *types.Transaction
	var like2 *types.V2Transaction
	for _, pos := range oc.Omit {
		if pos <= k1 {
			rm1 = append(rm1, copyV1(orig.Transactions[pos-1]))
			if like1 == nil {
				like1 = &orig.Transactions[pos-1]
			}
		} else {
			rm2 = append(rm2, orig.V2.Transactions[pos-1-k1].DeepCopy())
			if like2 == nil {
				like2 = &orig.V2.Transactions[pos-1-k1]
			}
		}
	}
	var bo gateway.V2BlockOutline
	if p, v := vlib.Recover(func() {
		if variant&1 == 0 {
			bo = gateway.OutlineBlock(b, rm1, rm2)
		} else {
			bo = gateway.OutlineBlock(b, nil, nil)
			bo.RemoveTransactions(rm1, rm2)
		}
	}); p {
		add("outline-panics", "OutlineBlock panics: %v", v)
		return
	}
	// shape: which positions carry a transaction
	shapeOK := func(o *gateway.V2BlockOutline, kinds []int, omit []int) bool {
		if len(o.Transactions) != k1+k2 {
			add("outline-shape", "outline has %d entries for a block of %d transactions", len(o.Transactions), k1+k2)
			return false
		}
		for i, ot := range o.Transactions {
			kind := 2
			if ot.Transaction != nil {
				kind = 0
			} else if ot.V2Transaction != nil {
				kind = 1
			}
			if kind != kinds[i] {
				add("outline-shape", "entry %d of the outline has kind %d, specification %d (omitted %v)", i, kind, kinds[i], omit)
				return false
			}
			if ot.Hash != hashAt(i+1) {
				add("outline-shape", "entry %d of the outline carries the wrong hash", i)
				return false
			}
		}
		return true
	}
	if !shapeOK(&bo, oc.KindsRm, oc.OmitRm) {
		return
	}
	if id := bo.ID(rb.cs); id != orig.ID() {
		add("outline-id", "outline ID %v differs from the block ID %v (omitted %v)", id, orig.ID(), oc.OmitRm)
	}
	if want := hashesAt(oc.OmitRm); !sameHashes(bo.Missing(), want) {
		add("outline-missing", "Missing() reports %d hashes, expected exactly the %d omitted ones %v", len(bo.Missing()), len(want), oc.OmitRm)
	}
	// the outline under test
	ut := &bo
	if !sameInts(oc.Omit, oc.OmitRm) {
		// the same transaction in full at one position and as a hash at another: built per position
		var pp gateway.V2BlockOutline
		if p, v := vlib.Recover(func() { pp = gateway.OutlineBlock(b, nil, nil) }); p {
			add("outline-panics", "OutlineBlock panics: %v", v)
			return
		}
		if len(pp.Transactions) != k1+k2 {
			add("outline-shape", "outline has %d entries for a block of %d transactions", len(pp.Transactions), k1+k2)
			return
		}
		for _, pos := range oc.Omit {
			pp.Transactions[pos-1].Transaction, pp.Transactions[pos-1].V2Transaction = nil, nil
		}
		if !shapeOK(&pp, oc.Kinds, oc.Omit) {
			return
		}
		if id := pp.ID(rb.cs); id != orig.ID() {
			add("outline-id", "outline ID %v differs from the block ID %v (omitted %v)", id, orig.ID(), oc.Omit)
		}
		if want := hashesAt(oc.Omit); !sameHashes(pp.Missing(), want) {
			add("outline-missing", "Missing() reports %d hashes, expected exactly the %d omitted ones %v", len(pp.Missing()), len(want), oc.Omit)
		}
		ut = &pp
	}
	// codec round trip
	roundTrip := func(o *gateway.V2BlockOutline, omit []int) (dec gateway.V2BlockOutline, ok bool) {
		var wire []byte
		if p, v := vlib.Recover(func() { wire = encFn(func(e *types.Encoder) { gateway.VerifEncodeOutline(o, e) }) }); p {
			add("outline-codec-panics", "outline encoder panics: %v", v)
			return
		}
		r := bytes.NewReader(wire)
		d := types.NewDecoder(limited(r, len(wire)))
		if p, v := vlib.Recover(func() { gateway.VerifDecodeOutline(&dec, d) }); p {
			add("outline-codec-panics", "outline decoder panics on the encoder's own output: %v", v)
			return
		}
		if d.Err() != nil {
			add("outline-codec", "outline decoder refuses the encoder's own output: %v", d.Err())
			return
		}
		if r.Len() != 0 {
			add("outline-codec", "outline decoder leaves %d bytes unread", r.Len())
		}
		if msg := outlinesEqual(o, &dec); msg != "" {
			add("outline-codec", "outline codec round trip is not the identity: %s (omitted %v)", msg, omit)
			return
		}
		if again := encFn(func(e *types.Encoder) { gateway.VerifEncodeOutline(&dec, e) }); !bytes.Equal(again, wire) {
			add("outline-codec", "re-encoding the decoded outline gives different bytes")
		}
		if dec.ID(rb.cs) != orig.ID() {
			add("outline-id", "decoded outline has another ID than the block")
		}
		return dec, true
	}
	if ut != &bo {
		if _, ok := roundTrip(&bo, oc.OmitRm); !ok {
			return
		}
	}
	dec, ok := roundTrip(ut, oc.Omit)
	if !ok {
		return
	}
	// completion
	poolsOf := func(ids1, ids2 []int) (pool1 []types.Transaction, pool2 []types.V2Transaction, err error) {
		for _, id := range ids1 {
			pos, own := posOf[id]
			switch {
			case own && pos <= k1:
				pool1 = append(pool1, copyV1(orig.Transactions[pos-1]))
			case id == 101:
				pool1 = append(pool1, extraV1(id, nil))
			case id == 103:
				pool1 = append(pool1, extraV1(id, like1))
			default:
				return nil, nil, fmt.Errorf("pool1 id %d cannot be mapped", id)
			}
		}
		for _, id := range ids2 {
			pos, own := posOf[id]
			switch {
			case own && pos > k1:
				pool2 = append(pool2, orig.V2.Transactions[pos-1-k1].DeepCopy())
			case id == 102:
				pool2 = append(pool2, extraV2(id, nil))
			case id == 104:
				pool2 = append(pool2, extraV2(id, like2))
			default:
				return nil, nil, fmt.Errorf("pool2 id %d cannot be mapped", id)
			}
		}
		return
	}
	pool1, pool2, err := poolsOf(oc.Pool1, oc.Pool2)
	if err != nil {
		return []finding{{"harness", err.Error()}}
	}
	target := ut
	if variant&2 != 0 {
		target = &dec
	}
	var got types.Block
	var missing []types.Hash256
	if p, v := vlib.Recover(func() { got, missing = target.Complete(rb.cs, pool1, pool2) }); p {
		add("complete-panics", "Complete panics: %v", v)
		return
	}
	wantMissing := hashesAt(oc.Missing)
	if !sameHashes(missing, wantMissing) {
		add("complete-missing/"+oc.Class, "Complete reports %d missing hashes, expected exactly %d (transactions by position %v, omitted %v, still missing %v, pool class %s)", len(missing), len(wantMissing), oc.Ids, oc.Omit, oc.Missing, oc.Class)
	}
	if !sameHashes(target.Missing(), wantMissing) {
		add("complete-missing/"+oc.Class, "after Complete, Missing() reports %d hashes, expected %d", len(target.Missing()), len(wantMissing))
	}
	if oc.Complete {
		if msg := sameBlock(rb.cs, got, orig); msg != "" {
			add("complete-block/"+oc.Class, "%s (transactions by position %v, omitted %v, pool class %s)", msg, oc.Ids, oc.Omit, oc.Class)
		}
		return
	}
	// second call on the same outline: the rest arrives
	pool1, pool2, err = poolsOf(oc.Pool1b, oc.Pool2b)
	if err != nil {
		return []finding{{"harness", err.Error()}}
	}
	if p, v := vlib.Recover(func() { got, missing = target.Complete(rb.cs, pool1, pool2) }); p {
		add("complete-panics", "second Complete on the same outline panics: %v", v)
		return
	}
	if len(missing) != 0 || len(target.Missing()) != 0 {
		add("complete2-missing/"+oc.Class, "second Complete on the same outline was offered everything the first one reported missing, and reports %d hashes missing (Missing(): %d; transactions by position %v, omitted %v, missing after the first call %v)", len(missing), len(target.Missing()), oc.Ids, oc.Omit, oc.Missing)
	}
	if msg := sameBlock(rb.cs, got, orig); msg != "" {
		add("complete2-block/"+oc.Class, "after the second Complete (offered the rest): %s (transactions by position %v, omitted %v, missing after the first call %v)", msg, oc.Ids, oc.Omit, oc.Missing)
	}
	return
}

// ---------------------------------------------------------------------------
// blocks that carry the same transaction at several positions

func dataV1(salt types.Hash256, id int) types.Transaction {
	n := 1 + int(salt[id%32])%3
	t := types.Transaction{}
	for i := 0; i < n; i++ {
		t.ArbitraryData = append(t.ArbitraryData, []byte(fmt.Sprintf("verif: v1 data-only transaction %d/%d on %x", id, i, salt[:8+int(salt[(id+i)%32])%16])))
	}
	return t
}

func dataV2(salt types.Hash256, id int) types.V2Transaction {
	return types.V2Transaction{ArbitraryData: []byte(fmt.Sprintf("verif: v2 data-only transaction %d on %x", id, salt[:8+int(salt[id%32])%16]))}
}

func v1Allowed(cs consensus.State) bool {
	return cs.Index.Height+1 < cs.Network.HardforkV2.RequireHeight
}

// repeatedBlock builds the block of pattern (k1, ids) on the parent state of base.
//
// chain: a VALID block (real ValidateBlock accepts it, real ApplyBlock gives its successor state). A transaction
// that occurs several times spends nothing (arbitrary data only: the kind consensus admits any number of times);
// transactions occurring once are the base block's own, in their order, as far as they go and as long as the block
// stays valid, data-only ones otherwise.
//
// synthetic: validity is not asked for (as for the other synthetic blocks): transaction c of the pattern is the base
// block's c-th, so transactions with inputs, proofs and fees occur several times.
func repeatedBlock(base *realBlock, k1 int, ids []int) (*realBlock, error) {
	k2 := len(ids) - k1
	if base.b.V2 == nil || k1 < 0 || k2 < 0 || len(base.b.MinerPayouts) != 1 {
		return nil, fmt.Errorf("repeated block: unusable base block or pattern")
	}
	count := map[int]int{}
	for _, id := range ids {
		count[id]++
	}
	salt := types.Hash256(base.b.ID())
	cs := base.cs
	rp := map[string]any{}
	for k, v := range base.replay {
		rp[k] = v
	}
	rp["pattern"] = map[string]any{"k1": k1, "ids": ids}
	build := func(useBase bool) (types.Block, consensus.V1BlockSupplement, int) {
		type pick1 struct {
			t types.Transaction
			s consensus.V1TransactionSupplement
		}
		c1 := map[int]pick1{}
		c2 := map[int]types.V2Transaction{}
		next1, next2, used := 0, 0, 0
		var v1 []types.Transaction
		var v2 []types.V2Transaction
		supp := consensus.V1BlockSupplement{ExpiringFileContracts: base.supp.ExpiringFileContracts}
		for j, id := range ids {
			if j < k1 {
				p, ok := c1[id]
				if !ok {
					switch {
					case base.src == "synthetic":
						p = pick1{t: base.b.Transactions[next1]}
						next1++
					case useBase && count[id] == 1 && next1 < len(base.b.Transactions) && next1 < len(base.supp.Transactions):
						p = pick1{base.b.Transactions[next1], base.supp.Transactions[next1]}
						next1++
						used++
					default:
						p = pick1{t: dataV1(salt, id)}
					}
					c1[id] = p
				}
				v1 = append(v1, copyV1(p.t))
				supp.Transactions = append(supp.Transactions, p.s)
			} else {
				t, ok := c2[id]
				if !ok {
					switch {
					case base.src == "synthetic":
						t = base.b.V2.Transactions[next2]
						next2++
					case useBase && count[id] == 1 && next2 < len(base.b.V2.Transactions):
						t = base.b.V2.Transactions[next2]
						next2++
						used++
					default:
						t = dataV2(salt, id)
					}
					c2[id] = t
				}
				v2 = append(v2, t.DeepCopy())
			}
		}
		pay := cs.BlockReward()
		for i := range v1 {
			pay = pay.Add(v1[i].TotalFees())
		}
		for i := range v2 {
			pay = pay.Add(v2[i].MinerFee)
		}
		miner := base.b.MinerPayouts[0].Address
		b := types.Block{ParentID: base.b.ParentID, Nonce: base.b.Nonce, Timestamp: base.b.Timestamp,
			MinerPayouts: []types.SiacoinOutput{{Address: miner, Value: pay}}, Transactions: v1,
			V2: &types.V2BlockData{Height: base.b.V2.Height, Transactions: v2}}
		b.V2.Commitment = cs.Commitment(miner, b.Transactions, b.V2Transactions())
		return b, supp, used
	}
	if base.src == "synthetic" {
		p := patternOf(k1, ids)
		if p.n1 > len(base.b.Transactions) || p.n2 > len(base.b.V2.Transactions) {
			return nil, fmt.Errorf("repeated block: pattern %v needs %d v1 + %d v2 transactions, the base block has %d + %d", ids, p.n1, p.n2, len(base.b.Transactions), len(base.b.V2.Transactions))
		}
		b, _, _ := build(false)
		return &realBlock{cs: cs, b: b, src: base.src, rep: true, replay: rp}, nil
	}
	if k1 > 0 && !v1Allowed(cs) {
		return nil, fmt.Errorf("repeated block: pattern with v1 transactions at a height where none are allowed")
	}
	var lastErr error
	for _, useBase := range []bool{true, false} {
		b, supp, used := build(useBase)
		if useBase && used == 0 {
			continue
		}
		b.Nonce = 0
		for tries := 0; b.ID().CmpWork(cs.PoWTarget()) < 0; tries++ {
			if tries > 1<<22 {
				return nil, fmt.Errorf("repeated block: no nonce found")
			}
			b.Nonce += cs.NonceFactor()
		}
		var verr error
		if p, v := vlib.Recover(func() { verr = consensus.ValidateBlock(cs, b, supp) }); p {
			verr = fmt.Errorf("ValidateBlock panics: %v", v)
		}
		if verr != nil {
			lastErr = verr
			continue
		}
		var next consensus.State
		if p, v := vlib.Recover(func() { next, _ = consensus.ApplyBlock(cs, b, supp, time.Time{}) }); p {
			lastErr = fmt.Errorf("ApplyBlock panics: %v", v)
			continue
		}
		return &realBlock{cs: cs, b: b, supp: supp, next: &next, src: base.src, rep: true, baseTxs: used, replay: rp}, nil
	}
	return nil, fmt.Errorf("repeated block of pattern %v (k1=%d) at height %d is not accepted by ValidateBlock: %v", ids, k1, cs.Index.Height+1, lastErr)
}
