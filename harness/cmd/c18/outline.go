package main

import (
	"bytes"
	"encoding/json"
	"fmt"

	"go.sia.tech/core/gateway"
	"go.sia.tech/core/types"
	"verif/harness/vlib"
)

// what spec/net/Outline.tla prints
type outlineCase struct {
	K1       int    `json:"k1"`
	K2       int    `json:"k2"`
	Omit     []int  `json:"omit"` // omitted positions, 1-based over v1 ++ v2
	Class    string `json:"class"`
	Pool1    []int  `json:"pool1"` // ids: 1..k = the block's transaction at that position, 101/103 unrelated v1, 102/104 unrelated v2
	Pool2    []int  `json:"pool2"`
	Complete bool   `json:"complete"`
	Missing  []int  `json:"missing"`
	Kinds    []int  `json:"kinds"` // per position: 0 v1 present, 1 v2 present, 2 hash only
	raw      string
}

func parseOutlineCases(lines []string) (map[[2]int][]*outlineCase, int, error) {
	out := map[[2]int][]*outlineCase{}
	n := 0
	for _, ln := range lines {
		const tag = "OUTLINE "
		if len(ln) < len(tag) || ln[:len(tag)] != tag {
			continue
		}
		js := vlib.UnquoteTLA(ln[len(tag):])
		oc := &outlineCase{raw: js}
		if err := json.Unmarshal([]byte(js), oc); err != nil {
			return nil, 0, fmt.Errorf("OUTLINE line does not parse: %v: %.200s", err, js)
		}
		k := [2]int{oc.K1, oc.K2}
		out[k] = append(out[k], oc)
		n++
	}
	return out, n, nil
}

func copyV1(t types.Transaction) types.Transaction {
	var c types.Transaction
	d := types.NewBufDecoder(enc(t))
	c.DecodeFrom(d)
	return c
}

// unrelated transactions offered next to the wanted ones. Where possible they are look-alikes of an omitted
// transaction: same transaction ID, different full hash (a signature or proof bit flipped).
func extraV1(id int, like *types.Transaction) types.Transaction {
	if like != nil && len(like.Signatures) > 0 && len(like.Signatures[0].Signature) > 0 {
		c := copyV1(*like)
		c.Signatures[0].Signature[0] ^= 1
		return c
	}
	return types.Transaction{ArbitraryData: [][]byte{[]byte(fmt.Sprintf("unrelated v1 transaction %d", id))}, MinerFees: []types.Currency{types.NewCurrency64(uint64(id))}}
}

func extraV2(id int, like *types.V2Transaction) types.V2Transaction {
	if like != nil {
		c := like.DeepCopy()
		if len(c.SiacoinInputs) > 0 && len(c.SiacoinInputs[0].SatisfiedPolicy.Signatures) > 0 {
			c.SiacoinInputs[0].SatisfiedPolicy.Signatures[0][0] ^= 1
			return c
		}
		for _, se := range parentSlots([]types.V2Transaction{c}) {
			if len(se.MerkleProof) > 0 {
				se.MerkleProof[0][0] ^= 1
				return c
			}
		}
	}
	return types.V2Transaction{ArbitraryData: []byte(fmt.Sprintf("unrelated v2 transaction %d", id)), MinerFee: types.NewCurrency64(uint64(id))}
}

func sameHashes(a, b []types.Hash256) bool {
	if len(a) != len(b) {
		return false
	}
	for i := range a {
		if a[i] != b[i] {
			return false
		}
	}
	return true
}

func copyBlock(b types.Block) types.Block {
	c := b
	c.MinerPayouts = append([]types.SiacoinOutput(nil), b.MinerPayouts...)
	c.Transactions = make([]types.Transaction, len(b.Transactions))
	for i := range b.Transactions {
		c.Transactions[i] = copyV1(b.Transactions[i])
	}
	if b.V2 != nil {
		v := *b.V2
		v.Transactions = deepCopyTxns(b.V2.Transactions)
		c.V2 = &v
	}
	return c
}

// outlinesEqual compares two outlines field by field (transactions by their full encodings, proofs included).
func outlinesEqual(a, b *gateway.V2BlockOutline) string {
	if a.Height != b.Height || a.ParentID != b.ParentID || a.Nonce != b.Nonce || !a.Timestamp.Equal(b.Timestamp) || a.MinerAddress != b.MinerAddress {
		return "header fields differ"
	}
	if len(a.Transactions) != len(b.Transactions) {
		return fmt.Sprintf("%d entries vs %d", len(a.Transactions), len(b.Transactions))
	}
	for i := range a.Transactions {
		x, y := &a.Transactions[i], &b.Transactions[i]
		switch {
		case x.Hash != y.Hash:
			return fmt.Sprintf("entry %d: hash differs", i)
		case (x.Transaction == nil) != (y.Transaction == nil) || (x.V2Transaction == nil) != (y.V2Transaction == nil):
			return fmt.Sprintf("entry %d: presence differs", i)
		case x.Transaction != nil && !bytes.Equal(enc(*x.Transaction), enc(*y.Transaction)):
			return fmt.Sprintf("entry %d: v1 transaction differs", i)
		case x.V2Transaction != nil && !bytes.Equal(enc(*x.V2Transaction), enc(*y.V2Transaction)):
			return fmt.Sprintf("entry %d: v2 transaction differs (proofs included)", i)
		}
	}
	return ""
}

// checkOutline runs one TLC outline case on one real block. variant selects which of the equivalent doors is used
// (OutlineBlock with the omitted transactions vs. OutlineBlock + RemoveTransactions; Complete on the outline itself
// vs. on its decoded wire form).
func checkOutline(rb *realBlock, oc *outlineCase, variant int) (fs []finding) {
	add := func(key, f string, a ...any) { fs = append(fs, finding{key, fmt.Sprintf(f, a...)}) }
	orig := rb.b
	k1, k2 := len(orig.Transactions), len(orig.V2Transactions())
	if k1 != oc.K1 || k2 != oc.K2 || orig.V2 == nil {
		return []finding{{"harness", "block shape does not match the case"}}
	}
	b := copyBlock(orig)
	hashAt := func(pos int) types.Hash256 {
		if pos <= k1 {
			return orig.Transactions[pos-1].MerkleLeafHash()
		}
		return orig.V2.Transactions[pos-1-k1].MerkleLeafHash()
	}
	var rm1 []types.Transaction
	var rm2 []types.V2Transaction
	var like1 *types.Transaction
	var like2 *types.V2Transaction
	var wantMissing0 []types.Hash256
	for _, pos := range oc.Omit {
		wantMissing0 = append(wantMissing0, hashAt(pos))
		if pos <= k1 {
			rm1 = append(rm1, copyV1(orig.Transactions[pos-1]))
			if like1 == nil {
				like1 = &orig.Transactions[pos-1]
			}
		} else {
			rm2 = append(rm2, orig.V2.Transactions[pos-1-k1].DeepCopy())
			if like2 == nil {
				like2 = &orig.V2.Transactions[pos-1-k1]
			}
		}
	}
	var bo gateway.V2BlockOutline
	if p, v := vlib.Recover(func() {
		if variant&1 == 0 {
			bo = gateway.OutlineBlock(b, rm1, rm2)
		} else {
			bo = gateway.OutlineBlock(b, nil, nil)
			bo.RemoveTransactions(rm1, rm2)
		}
	}); p {
		add("outline-panics", "OutlineBlock panics: %v", v)
		return
	}
	// shape: which positions carry a transaction
	if len(bo.Transactions) != k1+k2 {
		add("outline-shape", "outline has %d entries for a block of %d transactions", len(bo.Transactions), k1+k2)
		return
	}
	for i, ot := range bo.Transactions {
		kind := 2
		if ot.Transaction != nil {
			kind = 0
		} else if ot.V2Transaction != nil {
			kind = 1
		}
		if kind != oc.Kinds[i] {
			add("outline-shape", "entry %d of the outline has kind %d, specification %d (omitted %v)", i, kind, oc.Kinds[i], oc.Omit)
			return
		}
		if ot.Hash != hashAt(i+1) {
			add("outline-shape", "entry %d of the outline carries the wrong hash", i)
			return
		}
	}
	if id := bo.ID(rb.cs); id != orig.ID() {
		add("outline-id", "outline ID %v differs from the block ID %v (omitted %v)", id, orig.ID(), oc.Omit)
	}
	if !sameHashes(bo.Missing(), wantMissing0) {
		add("outline-missing", "Missing() reports %d hashes, expected exactly the %d omitted ones %v", len(bo.Missing()), len(wantMissing0), oc.Omit)
	}
	// codec round trip
	var wire []byte
	if p, v := vlib.Recover(func() { wire = encFn(func(e *types.Encoder) { gateway.VerifEncodeOutline(&bo, e) }) }); p {
		add("outline-codec-panics", "outline encoder panics: %v", v)
		return
	}
	var dec gateway.V2BlockOutline
	r := bytes.NewReader(wire)
	d := types.NewDecoder(limited(r, len(wire)))
	if p, v := vlib.Recover(func() { gateway.VerifDecodeOutline(&dec, d) }); p {
		add("outline-codec-panics", "outline decoder panics on the encoder's own output: %v", v)
		return
	}
	if d.Err() != nil {
		add("outline-codec", "outline decoder refuses the encoder's own output: %v", d.Err())
		return
	}
	if r.Len() != 0 {
		add("outline-codec", "outline decoder leaves %d bytes unread", r.Len())
	}
	if msg := outlinesEqual(&bo, &dec); msg != "" {
		add("outline-codec", "outline codec round trip is not the identity: %s (omitted %v)", msg, oc.Omit)
		return
	}
	if again := encFn(func(e *types.Encoder) { gateway.VerifEncodeOutline(&dec, e) }); !bytes.Equal(again, wire) {
		add("outline-codec", "re-encoding the decoded outline gives different bytes")
	}
	if dec.ID(rb.cs) != orig.ID() {
		add("outline-id", "decoded outline has another ID than the block")
	}
	// completion
	var pool1 []types.Transaction
	var pool2 []types.V2Transaction
	for _, id := range oc.Pool1 {
		switch {
		case id >= 1 && id <= k1:
			pool1 = append(pool1, copyV1(orig.Transactions[id-1]))
		case id == 101:
			pool1 = append(pool1, extraV1(id, nil))
		case id == 103:
			pool1 = append(pool1, extraV1(id, like1))
		default:
			return []finding{{"harness", fmt.Sprintf("pool1 id %d cannot be mapped", id)}}
		}
	}
	for _, id := range oc.Pool2 {
		switch {
		case id > k1 && id <= k1+k2:
			pool2 = append(pool2, orig.V2.Transactions[id-1-k1].DeepCopy())
		case id == 102:
			pool2 = append(pool2, extraV2(id, nil))
		case id == 104:
			pool2 = append(pool2, extraV2(id, like2))
		default:
			return []finding{{"harness", fmt.Sprintf("pool2 id %d cannot be mapped", id)}}
		}
	}
	target := &bo
	if variant&2 != 0 {
		target = &dec
	}
	var got types.Block
	var missing []types.Hash256
	if p, v := vlib.Recover(func() { got, missing = target.Complete(rb.cs, pool1, pool2) }); p {
		add("complete-panics", "Complete panics: %v", v)
		return
	}
	var wantMissing []types.Hash256
	for _, pos := range oc.Missing {
		wantMissing = append(wantMissing, hashAt(pos))
	}
	if !sameHashes(missing, wantMissing) {
		add("complete-missing/"+oc.Class, "Complete reports %d missing hashes, expected exactly %d (omitted %v, still missing %v, pool class %s)", len(missing), len(wantMissing), oc.Omit, oc.Missing, oc.Class)
	}
	if !sameHashes(target.Missing(), wantMissing) {
		add("complete-missing/"+oc.Class, "after Complete, Missing() reports %d hashes, expected %d", len(target.Missing()), len(wantMissing))
	}
	if oc.Complete {
		switch {
		case got.ID() != orig.ID():
			add("complete-block/"+oc.Class, "completed block has another ID than the original (pool class %s)", oc.Class)
		case got.V2 == nil || got.V2.Commitment != orig.V2.Commitment || got.V2.Height != orig.V2.Height:
			add("complete-block/"+oc.Class, "completed block has another commitment/height than the original")
		case len(got.MinerPayouts) == 0 || rb.cs.Commitment(got.MinerPayouts[0].Address, got.Transactions, got.V2Transactions()) != orig.V2.Commitment:
			add("complete-block/"+oc.Class, "State.Commitment over the completed block differs from the original commitment")
		case !bytes.Equal(encV1(got.Transactions), encV1(orig.Transactions)) || !bytes.Equal(fullEnc(got.V2Transactions()), fullEnc(orig.V2Transactions())):
			add("complete-block/"+oc.Class, "transactions of the completed block differ from the original (proofs included)")
		case !bytes.Equal(enc(types.V2Block(got)), enc(types.V2Block(orig))):
			add("complete-block/"+oc.Class, "completed block differs from the original (payouts or header)")
		}
	}
	return
}
