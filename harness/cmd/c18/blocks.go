package main

import (
	"bytes"
	"fmt"
	"io"
	"time"

	"go.sia.tech/core/consensus"
	"go.sia.tech/core/types"
	"verif/harness/vlib"
)

func enc(v types.EncoderTo) []byte {
	var buf bytes.Buffer
	e := types.NewEncoder(&buf)
	v.EncodeTo(e)
	e.Flush()
	return buf.Bytes()
}

func encFn(fn func(e *types.Encoder)) []byte {
	var buf bytes.Buffer
	e := types.NewEncoder(&buf)
	fn(e)
	e.Flush()
	return buf.Bytes()
}

func limited(r io.Reader, n int) io.LimitedReader { return io.LimitedReader{R: r, N: int64(n)} }

func encV1(txns []types.Transaction) []byte {
	return encFn(func(e *types.Encoder) { types.EncodeSlice(e, txns) })
}

// a real block together with the state it builds on
type realBlock struct {
	cs      consensus.State // parent state
	b       types.Block
	supp    consensus.V1BlockSupplement
	next    *consensus.State // state after the block (valid chain blocks only)
	src     string           // "chain" | "synthetic"
	rep     bool             // carries the same transaction at several positions (repeatedBlock)
	baseTxs int              // rep, chain: how many transactions of the chain block it was derived from it carries
	replay  map[string]any   // how to rebuild it
}

// checkBlockRoundTrip: a valid block of a real chain is encoded in the block wire form (whose v2 part is the
// multiproof form) and decoded again; ID, commitment, every proof, the verdict of ValidateBlock and the
// state after ApplyBlock must be unchanged.
func checkBlockRoundTrip(rb *realBlock) (fs []finding) {
	add := func(key, f string, a ...any) { fs = append(fs, finding{key, fmt.Sprintf(f, a...)}) }
	b := rb.b
	origV2 := fullEnc(b.V2Transactions())
	origV1 := encV1(b.Transactions)
	var wire []byte
	if p, v := vlib.Recover(func() { wire = enc(types.V2Block(b)) }); p {
		add("block-encode-panics", "V2Block.EncodeTo panics: %v", v)
		return
	}
	if !bytes.Equal(fullEnc(b.V2Transactions()), origV2) {
		add("encode-mutates-input", "encoding the block changed its transactions")
	}
	var vb types.V2Block
	r := bytes.NewReader(wire)
	d := types.NewDecoder(limited(r, len(wire)))
	if p, v := vlib.Recover(func() { vb.DecodeFrom(d) }); p {
		add("block-decode-panics", "V2Block.DecodeFrom panics on the encoder's own output: %v", v)
		return
	}
	if d.Err() != nil {
		add("block-decode-error", "V2Block.DecodeFrom refuses the encoder's own output: %v", d.Err())
		return
	}
	if r.Len() != 0 {
		add("decode-leftover", "V2Block.DecodeFrom leaves %d bytes unread", r.Len())
	}
	b2 := types.Block(vb)
	if (b2.V2 == nil) != (b.V2 == nil) {
		add("block-decode-differs", "v2 block data lost or invented by the round trip")
		return
	}
	if b2.ID() != b.ID() {
		add("block-id-changed", "block ID %v decoded as %v", b.ID(), b2.ID())
	}
	if b.V2 != nil {
		if b2.V2.Commitment != b.V2.Commitment || b2.V2.Height != b.V2.Height {
			add("block-commitment-changed", "commitment/height field changed by the round trip")
		}
		if len(b2.MinerPayouts) == 0 || rb.cs.Commitment(b2.MinerPayouts[0].Address, b2.Transactions, b2.V2Transactions()) != b.V2.Commitment {
			add("block-commitment-changed", "State.Commitment over the decoded transactions differs from the block's commitment")
		}
	}
	// every parent proof
	s0, s1 := parentSlots(b.V2Transactions()), parentSlots(b2.V2Transactions())
	if len(s0) != len(s1) {
		add("decode-structure", "%d parents decoded, %d encoded", len(s1), len(s0))
		return
	}
	for i := range s0 {
		if s0[i].LeafIndex != s1[i].LeafIndex || !sameProof(s0[i].MerkleProof, s1[i].MerkleProof) {
			if len(s0[i].MerkleProof) != len(s1[i].MerkleProof) {
				add("proof-length-not-restored", "parent %d (leaf %d): proof of %d hashes decoded with %d", i, s0[i].LeafIndex, len(s0[i].MerkleProof), len(s1[i].MerkleProof))
			} else {
				add("proof-not-restored", "parent %d (leaf %d): decoded proof differs from the original", i, s0[i].LeafIndex)
			}
			break
		}
	}
	if !bytes.Equal(fullEnc(b2.V2Transactions()), origV2) || !bytes.Equal(encV1(b2.Transactions), origV1) {
		add("decode-differs", "decoded transactions differ from the originals")
	}
	if !bytes.Equal(enc(types.V2Block(b2)), wire) {
		add("reencode-differs", "re-encoding the decoded block gives different bytes")
	}
	// validity and effect
	if rb.next != nil {
		var verr error
		if p, v := vlib.Recover(func() { verr = consensus.ValidateBlock(rb.cs, b2, rb.supp) }); p {
			add("block-validity-changed", "ValidateBlock panics on the decoded block: %v", v)
			return
		}
		if verr != nil {
			add("block-validity-changed", "block accepted before the round trip is rejected after it: %v", verr)
			return
		}
		var cs2 consensus.State
		if p, v := vlib.Recover(func() { cs2, _ = consensus.ApplyBlock(rb.cs, b2, rb.supp, time.Time{}) }); p {
			add("block-apply-changed", "ApplyBlock panics on the decoded block: %v", v)
			return
		}
		if !bytes.Equal(enc(cs2), enc(*rb.next)) {
			add("block-apply-changed", "applying the decoded block gives a different State")
		}
	}
	return
}
