package main

import (
	"bytes"
	"encoding/binary"
	"encoding/json"
	"fmt"
	"regexp"
	"strconv"
	"sync"

	"go.sia.tech/core/consensus"
	"go.sia.tech/core/types"
	"verif/harness/hterm"
	"verif/harness/vlib"
)

// ---------------------------------------------------------------------------
// what TLC prints (spec/acc/Multiproof.tla: Forest, Emit)

type forestLine struct {
	N      int        `json:"n"`
	Leaves []string   `json:"leaves"`
	Types  []int      `json:"types"`
	Proofs [][]string `json:"proofs"`
	Roots  []string   `json:"roots"`
}

type absRes struct {
	P  int `json:"p"`
	K  int `json:"k"`
	Ci int `json:"ci"`
}

type absTx struct {
	Sci []int    `json:"sci"`
	Sfi []int    `json:"sfi"`
	Rev []int    `json:"rev"`
	Res []absRes `json:"res"`
}

type caseLine struct {
	N         int      `json:"n"`
	M         []int    `json:"m"`
	Txs       []absTx  `json:"txs"`
	Slots     []int    `json:"slots"`
	Leaves    []int    `json:"leaves"`
	NumLeaves uint64   `json:"numLeaves"`
	Mp        []string `json:"mp"`
	Size      int      `json:"size"`
	Trees     int      `json:"trees"`
}

// leaf types of Multiproof!LeafType
const (
	tSiacoin = iota
	tSiafund
	tContract
	tChainIndex
)

// ---------------------------------------------------------------------------
// the real forest behind a FOREST line

type forest struct {
	line   forestLine
	raw    string
	salt   uint64
	sc     map[int]types.SiacoinElement
	sf     map[int]types.SiafundElement
	fc     map[int]types.V2FileContractElement
	ci     map[int]types.ChainIndexElement
	hashes []types.Hash256   // real leaf hash by leaf index
	proofs [][]types.Hash256 // TLC's proof terms evaluated with the real hashes
	ev     *hterm.Evaluator
	mu     sync.Mutex // guards ev (memoising evaluator)
	acc    consensus.ElementAccumulator
}

func seedHash(salt uint64, a, b int, tag uint64) types.Hash256 {
	var buf [32]byte
	binary.LittleEndian.PutUint64(buf[0:], salt)
	binary.LittleEndian.PutUint64(buf[8:], uint64(int64(a)))
	binary.LittleEndian.PutUint64(buf[16:], uint64(int64(b)))
	binary.LittleEndian.PutUint64(buf[24:], tag)
	return types.HashBytes(buf[:])
}

func curOf(h types.Hash256, off int) types.Currency {
	return types.NewCurrency(binary.LittleEndian.Uint64(h[off:]), uint64(h[off+8]))
}

func sig(h types.Hash256, x byte) (s types.Signature) {
	copy(s[:], h[:])
	copy(s[32:], h[:])
	s[0] ^= x
	return
}

func mkContract(h, h2 types.Hash256) types.V2FileContract {
	fc := types.V2FileContract{Capacity: uint64(h2[0])*64 + 4096, Filesize: uint64(h2[0]) * 64, FileMerkleRoot: h2, ProofHeight: uint64(h2[1]), ExpirationHeight: uint64(h2[1]) + 10,
		RenterOutput: types.SiacoinOutput{Value: curOf(h2, 2), Address: types.Address(h2)}, HostOutput: types.SiacoinOutput{Value: curOf(h2, 3), Address: types.Address(h)},
		MissedHostValue: curOf(h2, 4), TotalCollateral: curOf(h2, 5), RenterPublicKey: types.PublicKey(h), HostPublicKey: types.PublicKey(h2)}
	fc.RenterSignature, fc.HostSignature = sig(h, 1), sig(h2, 2)
	return fc
}

// the four kinds of real elements; idx < 0 builds an ephemeral one (LeafIndex = UnassignedLeafIndex, no proof)
func mkSiacoin(salt uint64, n, idx int) types.SiacoinElement {
	h, h2 := seedHash(salt, n, idx, 1), seedHash(salt, n, idx, 2)
	return types.SiacoinElement{ID: types.SiacoinOutputID(h), StateElement: types.StateElement{LeafIndex: types.UnassignedLeafIndex},
		SiacoinOutput: types.SiacoinOutput{Value: curOf(h2, 0), Address: types.Address(h2)}, MaturityHeight: uint64(h2[20])}
}

func mkSiafund(salt uint64, n, idx int) types.SiafundElement {
	h, h2 := seedHash(salt, n, idx, 3), seedHash(salt, n, idx, 4)
	return types.SiafundElement{ID: types.SiafundOutputID(h), StateElement: types.StateElement{LeafIndex: types.UnassignedLeafIndex},
		SiafundOutput: types.SiafundOutput{Value: uint64(binary.LittleEndian.Uint16(h2[:])), Address: types.Address(h2)}, ClaimStart: curOf(h2, 10)}
}

func mkContractElem(salt uint64, n, idx int) types.V2FileContractElement {
	h, h2 := seedHash(salt, n, idx, 5), seedHash(salt, n, idx, 6)
	return types.V2FileContractElement{ID: types.FileContractID(h), StateElement: types.StateElement{LeafIndex: types.UnassignedLeafIndex}, V2FileContract: mkContract(h, h2)}
}

func mkChainIndex(salt uint64, n, idx int) types.ChainIndexElement {
	h := seedHash(salt, n, idx, 7)
	return types.ChainIndexElement{ID: types.BlockID(h), StateElement: types.StateElement{LeafIndex: types.UnassignedLeafIndex},
		ChainIndex: types.ChainIndex{Height: uint64(int64(idx) + 1000), ID: types.BlockID(h)}}
}

var reLeafTok = regexp.MustCompile(`^L(\d+)v0@(\d+)u$`)

// leafOf wraps element idx (with the given state element) by the real leaf constructor of its type.
func (f *forest) leafOf(idx int, se types.StateElement) consensus.VerifLeaf {
	switch f.line.Types[idx] {
	case tSiacoin:
		e := f.sc[idx]
		e.StateElement = se
		return consensus.VerifSiacoinLeaf(&e, false)
	case tSiafund:
		e := f.sf[idx]
		e.StateElement = se
		return consensus.VerifSiafundLeaf(&e, false)
	case tContract:
		e := f.fc[idx]
		e.StateElement = se
		return consensus.VerifV2FileContractLeaf(&e, nil, false)
	default:
		e := f.ci[idx]
		e.StateElement = se
		return consensus.VerifChainIndexLeaf(&e)
	}
}

// newForest builds the real elements of a FOREST line, evaluates TLC's proof and root terms with the real
// leaf hashes, builds the real accumulator over the same leaves through the shim and cross-checks the two.
// Any disagreement here is about the accumulator (property C05) or the harness, never a C18 verdict.
func newForest(raw string, salt uint64) (*forest, error) {
	f := &forest{raw: raw, salt: salt, sc: map[int]types.SiacoinElement{}, sf: map[int]types.SiafundElement{},
		fc: map[int]types.V2FileContractElement{}, ci: map[int]types.ChainIndexElement{}}
	if err := json.Unmarshal([]byte(raw), &f.line); err != nil {
		return nil, fmt.Errorf("FOREST line does not parse: %v", err)
	}
	n := f.line.N
	if len(f.line.Leaves) != n || len(f.line.Types) != n || len(f.line.Proofs) != n {
		return nil, fmt.Errorf("FOREST line for n=%d is inconsistent", n)
	}
	f.hashes = make([]types.Hash256, n)
	added := make([]consensus.VerifLeaf, n)
	for i := 0; i < n; i++ {
		m := reLeafTok.FindStringSubmatch(f.line.Leaves[i])
		if m == nil || m[1] != strconv.Itoa(i) || m[2] != strconv.Itoa(i) {
			return nil, fmt.Errorf("unexpected leaf token %q at index %d", f.line.Leaves[i], i)
		}
		switch f.line.Types[i] {
		case tSiacoin:
			f.sc[i] = mkSiacoin(salt, n, i)
		case tSiafund:
			f.sf[i] = mkSiafund(salt, n, i)
		case tContract:
			f.fc[i] = mkContractElem(salt, n, i)
		case tChainIndex:
			f.ci[i] = mkChainIndex(salt, n, i)
		default:
			return nil, fmt.Errorf("unknown leaf type %d", f.line.Types[i])
		}
		f.hashes[i] = f.leafOf(i, types.StateElement{LeafIndex: uint64(i)}).Hash()
		added[i] = f.leafOf(i, types.StateElement{})
	}
	var bad error
	f.ev = hterm.NewEvaluator(func(tok string) types.Hash256 {
		m := reLeafTok.FindStringSubmatch(tok)
		if m == nil || m[1] != m[2] {
			bad = fmt.Errorf("unknown leaf token %q", tok)
			return types.Hash256{}
		}
		i, _ := strconv.Atoi(m[1])
		if i >= n {
			bad = fmt.Errorf("leaf token %q outside the forest of %d leaves", tok, n)
			return types.Hash256{}
		}
		return f.hashes[i]
	}, nil)
	f.proofs = make([][]types.Hash256, n)
	for i := 0; i < n; i++ {
		p, err := f.evalList(f.line.Proofs[i])
		if err != nil {
			return nil, err
		}
		f.proofs[i] = p
	}
	// the real accumulator over the same elements
	f.acc.VerifApply(nil, added)
	if f.acc.NumLeaves != uint64(n) {
		return nil, fmt.Errorf("accumulator built through the shim holds %d leaves, expected %d", f.acc.NumLeaves, n)
	}
	for h, rt := range f.line.Roots {
		if rt == "" {
			continue
		}
		v, err := f.ev.EvalString(rt)
		if err != nil {
			return nil, err
		}
		if f.acc.Trees[h] != v {
			return nil, fmt.Errorf("n=%d: root of height %d of the shim-built accumulator differs from the evaluated term", n, h)
		}
	}
	for i := 0; i < n; i++ {
		if !f.acc.VerifContainsLeaf(f.leafOf(i, types.StateElement{LeafIndex: uint64(i), MerkleProof: f.proofs[i]})) {
			return nil, fmt.Errorf("n=%d: VerifContainsLeaf refuses leaf %d with the term-derived proof", n, i)
		}
		if got := added[i].Element(); got.LeafIndex != uint64(i) || !sameProof(got.MerkleProof, f.proofs[i]) {
			return nil, fmt.Errorf("n=%d: proof of leaf %d assigned by the real addLeaves differs from the term-derived proof", n, i)
		}
	}
	if bad != nil {
		return nil, bad
	}
	return f, nil
}

func (f *forest) evalList(ts []string) ([]types.Hash256, error) {
	f.mu.Lock()
	defer f.mu.Unlock()
	out := make([]types.Hash256, len(ts))
	for i, s := range ts {
		v, err := f.ev.EvalString(s)
		if err != nil {
			return nil, err
		}
		out[i] = v
	}
	return out, nil
}

func sameProof(a, b []types.Hash256) bool {
	if len(a) != len(b) {
		return false
	}
	for i := range a {
		if a[i] != b[i] {
			return false
		}
	}
	return true
}

func (f *forest) se(idx int) types.StateElement {
	if idx < 0 {
		return types.StateElement{LeafIndex: types.UnassignedLeafIndex}
	}
	return types.StateElement{LeafIndex: uint64(idx), MerkleProof: append([]types.Hash256(nil), f.proofs[idx]...)}
}

func (f *forest) want(idx, typ int) error {
	if idx >= 0 && (idx >= f.line.N || f.line.Types[idx] != typ) {
		return fmt.Errorf("layout places leaf %d (type %v) in a slot for type %d", idx, f.line.Types, typ)
	}
	return nil
}

// build turns the abstract transactions of a case into real v2 transactions over the forest's elements.
// eph counts the ephemeral parents, slotKinds the parent positions used.
func (f *forest) build(cs *caseLine) (txns []types.V2Transaction, err error) {
	n, salt := f.line.N, f.salt
	ephN := 0
	eph := func() int { ephN++; return -ephN }
	for ti, at := range cs.Txs {
		var txn types.V2Transaction
		ht := seedHash(salt, n, ti, 50+uint64(len(cs.Slots)))
		for j, idx := range at.Sci {
			if err = f.want(idx, tSiacoin); err != nil {
				return
			}
			var e types.SiacoinElement
			if idx >= 0 {
				e = f.sc[idx]
			} else {
				e = mkSiacoin(salt, n, eph())
			}
			e.StateElement = f.se(idx)
			pk := types.PublicKey(seedHash(salt, ti, j, 60))
			txn.SiacoinInputs = append(txn.SiacoinInputs, types.V2SiacoinInput{Parent: e,
				SatisfiedPolicy: types.SatisfiedPolicy{Policy: types.PolicyPublicKey(pk), Signatures: []types.Signature{sig(ht, byte(j))}}})
		}
		for j, idx := range at.Sfi {
			if err = f.want(idx, tSiafund); err != nil {
				return
			}
			var e types.SiafundElement
			if idx >= 0 {
				e = f.sf[idx]
			} else {
				e = mkSiafund(salt, n, eph())
			}
			e.StateElement = f.se(idx)
			pol := types.PolicyThreshold(1, []types.SpendPolicy{types.PolicyAbove(uint64(j)), types.PolicyPublicKey(types.PublicKey(ht))})
			txn.SiafundInputs = append(txn.SiafundInputs, types.V2SiafundInput{Parent: e, ClaimAddress: types.Address(seedHash(salt, ti, j, 61)),
				SatisfiedPolicy: types.SatisfiedPolicy{Policy: pol}})
		}
		contract := func(idx int) (types.V2FileContractElement, error) {
			if err := f.want(idx, tContract); err != nil {
				return types.V2FileContractElement{}, err
			}
			var e types.V2FileContractElement
			if idx >= 0 {
				e = f.fc[idx]
			} else {
				e = mkContractElem(salt, n, eph())
			}
			e.StateElement = f.se(idx)
			return e, nil
		}
		for j, idx := range at.Rev {
			e, cerr := contract(idx)
			if cerr != nil {
				return nil, cerr
			}
			rev := e.V2FileContract
			rev.RevisionNumber += uint64(j) + 1
			rev.FileMerkleRoot = seedHash(salt, ti, j, 62)
			txn.FileContractRevisions = append(txn.FileContractRevisions, types.V2FileContractRevision{Parent: e, Revision: rev})
		}
		for j, r := range at.Res {
			e, cerr := contract(r.P)
			if cerr != nil {
				return nil, cerr
			}
			hr := seedHash(salt, ti, j, 63)
			var res types.V2FileContractResolutionType
			switch r.K {
			case 0:
				res = &types.V2FileContractExpiration{}
			case 1:
				res = &types.V2FileContractRenewal{FinalRenterOutput: e.V2FileContract.RenterOutput, FinalHostOutput: e.V2FileContract.HostOutput,
					RenterRollover: curOf(hr, 0), HostRollover: curOf(hr, 9), NewContract: mkContract(hr, ht),
					RenterSignature: sig(hr, 3), HostSignature: sig(hr, 4)}
			case 2:
				if err = f.want(r.Ci, tChainIndex); err != nil {
					return
				}
				var cie types.ChainIndexElement
				if r.Ci >= 0 {
					cie = f.ci[r.Ci]
				} else {
					cie = mkChainIndex(salt, n, eph())
				}
				cie.StateElement = f.se(r.Ci)
				sp := &types.V2StorageProof{ProofIndex: cie, Proof: []types.Hash256{hr, ht}[:int(hr[0])%3]}
				copy(sp.Leaf[:], hr[:])
				res = sp
			default:
				return nil, fmt.Errorf("unknown resolution kind %d", r.K)
			}
			txn.FileContractResolutions = append(txn.FileContractResolutions, types.V2FileContractResolution{Parent: e, Resolution: res})
		}
		txn.SiacoinOutputs = []types.SiacoinOutput{{Value: curOf(ht, 0), Address: types.Address(ht)}}
		if ti%2 == 1 {
			txn.ArbitraryData = ht[:int(ht[1])%32]
			txn.SiafundOutputs = []types.SiafundOutput{{Value: uint64(ht[2]), Address: types.Address(ht)}}
		}
		txn.MinerFee = types.NewCurrency64(uint64(ht[3]) + 1)
		txns = append(txns, txn)
	}
	return
}

// parentSlots lists the state elements of every parent position of a transaction set, in the order of the
// specification's AllSlots (the harness' own walk, independent of forEachElementLeaf).
func parentSlots(txns []types.V2Transaction) (out []*types.StateElement) {
	for i := range txns {
		t := &txns[i]
		for j := range t.SiacoinInputs {
			out = append(out, &t.SiacoinInputs[j].Parent.StateElement)
		}
		for j := range t.SiafundInputs {
			out = append(out, &t.SiafundInputs[j].Parent.StateElement)
		}
		for j := range t.FileContractRevisions {
			out = append(out, &t.FileContractRevisions[j].Parent.StateElement)
		}
		for j := range t.FileContractResolutions {
			out = append(out, &t.FileContractResolutions[j].Parent.StateElement)
			if sp, ok := t.FileContractResolutions[j].Resolution.(*types.V2StorageProof); ok {
				out = append(out, &sp.ProofIndex.StateElement)
			}
		}
	}
	return
}

func deepCopyTxns(txns []types.V2Transaction) []types.V2Transaction {
	out := make([]types.V2Transaction, len(txns))
	for i := range txns {
		out[i] = txns[i].DeepCopy()
	}
	return out
}

func fullEnc(txns []types.V2Transaction) []byte {
	return encFn(func(e *types.Encoder) { types.EncodeSlice(e, txns) })
}

func decodeMultiproof(b []byte) (txns []types.V2Transaction, left int, err error, panicked any) {
	r := bytes.NewReader(b)
	d := types.NewDecoder(limited(r, len(b)))
	var mp types.V2TransactionsMultiproof
	if p, v := vlib.Recover(func() { mp.DecodeFrom(d) }); p {
		return nil, 0, nil, v
	}
	return []types.V2Transaction(mp), r.Len(), d.Err(), nil
}

// a finding about one transaction set
type finding struct {
	key, what string
}

// checkSet runs the losslessness checks on one set of v2 transactions whose proofs are valid for one state.
// wantMp / wantNumLeaves / wantSize are the specification's values (nil / -1: not predicted, e.g. chain blocks).
func checkSet(txns []types.V2Transaction, wantMp []types.Hash256, wantNumLeaves int64, wantSize int) (fs []finding) {
	add := func(key, f string, a ...any) { fs = append(fs, finding{key, fmt.Sprintf(f, a...)}) }
	orig := deepCopyTxns(txns)
	origFull := fullEnc(orig)
	slots0 := parentSlots(orig)

	// computeMultiproof and multiproofSize against the specification
	var mp []types.Hash256
	if p, v := vlib.Recover(func() { mp = types.VerifComputeMultiproof(txns) }); p {
		add("compute-panics", "computeMultiproof panics: %v", v)
		return
	}
	var size int
	if p, v := vlib.Recover(func() { size = types.VerifMultiproofSize(txns) }); p {
		add("size-panics", "multiproofSize panics: %v", v)
		return
	}
	if wantMp != nil {
		if !sameProof(mp, wantMp) {
			add("compute-differs-from-definition", "computeMultiproof returns %d hashes that differ from the specification's %d maximal disjoint subtree roots", len(mp), len(wantMp))
		}
		if size != wantSize {
			add("size-formula", "multiproofSize = %d, specification %d", size, wantSize)
		}
	}
	if size != len(mp) {
		add("size-formula", "multiproofSize = %d but computeMultiproof returns %d hashes", size, len(mp))
	}

	// wire form: proofless transactions, inferred leaf count, multiproof
	var wire []byte
	if p, v := vlib.Recover(func() { wire = enc(types.V2TransactionsMultiproof(txns)) }); p {
		add("encode-panics", "V2TransactionsMultiproof.EncodeTo panics: %v", v)
		return
	}
	if !bytes.Equal(fullEnc(txns), origFull) {
		add("encode-mutates-input", "EncodeTo changed the transactions it was given")
	}
	proofless := deepCopyTxns(orig)
	for _, se := range parentSlots(proofless) {
		if se.LeafIndex != types.UnassignedLeafIndex {
			se.MerkleProof = nil
		}
	}
	head := fullEnc(proofless)
	if len(wire) < len(head)+8 || !bytes.Equal(wire[:len(head)], head) {
		add("wire-layout", "encoded form does not start with the proofless transactions")
		return
	}
	nl := binary.LittleEndian.Uint64(wire[len(head):])
	tail := wire[len(head)+8:]
	if wantNumLeaves >= 0 && nl != uint64(wantNumLeaves) {
		add("numleaves-inference", "encoded leaf count %d, specification %d", nl, wantNumLeaves)
	}
	if wantMp != nil {
		if len(tail) != 32*len(wantMp) {
			add("wire-length", "encoded multiproof is %d bytes, specification %d hashes", len(tail), len(wantMp))
		} else {
			for i := range wantMp {
				if !bytes.Equal(tail[32*i:32*i+32], wantMp[i][:]) {
					add("wire-multiproof", "hash %d of the encoded multiproof differs from the specification's list", i)
					break
				}
			}
		}
	} else if len(tail) != 32*len(mp) {
		add("wire-length", "encoded multiproof is %d bytes for %d hashes", len(tail), len(mp))
	}

	// decode restores every proof
	dec, left, derr, pan := decodeMultiproof(wire)
	switch {
	case pan != nil:
		add("decode-panics", "DecodeFrom panics on the encoder's own output: %v", pan)
		return
	case derr != nil:
		add("decode-error", "DecodeFrom refuses the encoder's own output: %v", derr)
		return
	case left != 0:
		add("decode-leftover", "DecodeFrom leaves %d bytes unread", left)
	}
	if len(dec) != len(orig) {
		add("decode-count", "%d transactions decoded, %d encoded", len(dec), len(orig))
		return
	}
	slots1 := parentSlots(dec)
	if len(slots1) != len(slots0) {
		add("decode-structure", "%d parents decoded, %d encoded", len(slots1), len(slots0))
		return
	}
	for i := range slots0 {
		a, b := slots0[i], slots1[i]
		if a.LeafIndex != b.LeafIndex {
			add("decode-leaf-index", "parent %d: leaf index %d decoded as %d", i, a.LeafIndex, b.LeafIndex)
			return
		}
		if !sameProof(a.MerkleProof, b.MerkleProof) {
			what := "ephemeral"
			if a.LeafIndex != types.UnassignedLeafIndex {
				what = fmt.Sprintf("leaf %d", a.LeafIndex)
			}
			if len(a.MerkleProof) != len(b.MerkleProof) {
				add("proof-length-not-restored", "parent %d (%s): proof of %d hashes decoded with %d", i, what, len(a.MerkleProof), len(b.MerkleProof))
			} else {
				add("proof-not-restored", "parent %d (%s): decoded proof differs from the original", i, what)
			}
			return
		}
	}
	if !bytes.Equal(fullEnc(dec), origFull) {
		add("decode-differs", "decoded transactions differ from the originals outside the proofs")
	}
	if again := enc(types.V2TransactionsMultiproof(dec)); !bytes.Equal(again, wire) {
		add("reencode-differs", "re-encoding the decoded transactions gives different bytes")
	}

	// expandMultiproof directly, on zeroed proofs of the right lengths
	if wantMp != nil {
		z := deepCopyTxns(orig)
		for _, se := range parentSlots(z) {
			se.MerkleProof = make([]types.Hash256, len(se.MerkleProof))
		}
		if p, v := vlib.Recover(func() { types.VerifExpandMultiproof(z, append([]types.Hash256(nil), wantMp...)) }); p {
			add("expand-panics", "expandMultiproof panics on the specification's multiproof: %v", v)
		} else if !bytes.Equal(fullEnc(z), origFull) {
			add("expand-differs", "expandMultiproof on the specification's multiproof does not restore the proofs")
		}
	}
	return
}

// features of a case, for the vacuity guards
type setFeatures struct {
	dup, chainIndex, ephemeral, multiTree, paired bool
	kinds                                         map[string]bool
	nontrivial                                    bool
}

func featuresOf(txns []types.V2Transaction) setFeatures {
	ft := setFeatures{kinds: map[string]bool{}}
	seen := map[uint64]bool{}
	heights := map[int]bool{}
	note := func(se *types.StateElement, kind string) {
		if se.LeafIndex == types.UnassignedLeafIndex {
			ft.ephemeral = true
			ft.kinds[kind+"/ephemeral"] = true
			return
		}
		ft.kinds[kind] = true
		if seen[se.LeafIndex] {
			ft.dup = true
		}
		seen[se.LeafIndex] = true
		heights[len(se.MerkleProof)] = true
		if len(se.MerkleProof) > 0 {
			ft.nontrivial = true
		}
	}
	for i := range txns {
		t := &txns[i]
		for j := range t.SiacoinInputs {
			note(&t.SiacoinInputs[j].Parent.StateElement, "siacoin-input")
		}
		for j := range t.SiafundInputs {
			note(&t.SiafundInputs[j].Parent.StateElement, "siafund-input")
		}
		for j := range t.FileContractRevisions {
			note(&t.FileContractRevisions[j].Parent.StateElement, "revision-parent")
		}
		for j := range t.FileContractResolutions {
			r := &t.FileContractResolutions[j]
			note(&r.Parent.StateElement, "resolution-parent")
			if sp, ok := r.Resolution.(*types.V2StorageProof); ok {
				note(&sp.ProofIndex.StateElement, "storage-proof-index")
				if sp.ProofIndex.StateElement.LeafIndex != types.UnassignedLeafIndex {
					ft.chainIndex = true
					if r.Parent.StateElement.LeafIndex != types.UnassignedLeafIndex {
						ft.paired = true
					}
				}
			}
		}
	}
	ft.multiTree = len(heights) > 1
	return ft
}

// runCase executes one TLC case on the real code.
func runCase(c *vlib.Ctx, st *stats, f *forest, raw string) {
	var cs caseLine
	if err := json.Unmarshal([]byte(raw), &cs); err != nil {
		c.Infra("CASE line does not parse: %v", err)
		return
	}
	if cs.N != f.line.N {
		c.Infra("case for n=%d run on the forest of %d leaves", cs.N, f.line.N)
		return
	}
	txns, err := f.build(&cs)
	if err != nil {
		c.Infra("case n=%d m=%v: %v", cs.N, cs.M, err)
		return
	}
	// the harness' own slot walk must agree with the specification's AllSlots
	slots := parentSlots(txns)
	if len(slots) != len(cs.Slots) {
		c.Infra("case n=%d m=%v: %d parent positions built, specification lists %d", cs.N, cs.M, len(slots), len(cs.Slots))
		return
	}
	for i, se := range slots {
		want := uint64(types.UnassignedLeafIndex)
		if cs.Slots[i] >= 0 {
			want = uint64(cs.Slots[i])
		}
		if se.LeafIndex != want {
			c.Infra("case n=%d m=%v: parent position %d holds leaf %d, specification %d", cs.N, cs.M, i, se.LeafIndex, cs.Slots[i])
			return
		}
	}
	// cross-check: the real accumulator accepts every non-ephemeral parent
	for i, idx := range cs.Slots {
		if idx >= 0 && !f.acc.VerifContainsLeaf(f.leafOf(idx, *slots[i])) {
			c.Infra("case n=%d m=%v: VerifContainsLeaf refuses parent %d (leaf %d)", cs.N, cs.M, i, idx)
			return
		}
	}
	wantMp, err := f.evalList(cs.Mp)
	if err != nil {
		c.Infra("case n=%d m=%v: %v", cs.N, cs.M, err)
		return
	}
	if wantMp == nil {
		wantMp = []types.Hash256{}
	}
	wantNL, wantSize := int64(cs.NumLeaves), cs.Size
	switch corrupt { // demonstration that a corrupted expectation is refused (development aid)
	case "mp":
		if len(wantMp) > 1 && !st.corrupted() {
			wantMp[0], wantMp[1] = wantMp[1], wantMp[0]
		}
	case "numleaves":
		if cs.Trees > 1 && !st.corrupted() {
			wantNL &^= wantNL & -wantNL // drop the lowest tree
		}
	case "size":
		if !st.corrupted() {
			wantSize++
		}
	}
	ft := featuresOf(txns)
	fs := checkSet(txns, wantMp, wantNL, wantSize)
	st.noteSet("tlc", ft, len(txns))
	for _, fd := range fs {
		c.Violation("multiproof/"+fd.key, fmt.Sprintf("forest of %d leaves, multiplicities %v: %s", cs.N, cs.M, fd.what),
			map[string]any{"part": "multiproof", "forest": f.raw, "case": raw, "salt": f.salt})
	}
	if st.sampleOK("tlc-case", cs.Trees > 1 && ft.dup && ft.chainIndex && ft.ephemeral) {
		c.Sample(map[string]any{"part": "multiproof", "n": cs.N, "m": cs.M, "txs": cs.Txs, "numLeaves": cs.NumLeaves, "mp": cs.Mp})
	}
}
