package main

// Purity: every identifier / signature hash / address function is a pure function of its argument.
//
//	spec/wire/SemanticsPure.tla   pools of hashers; a call is a sequence of uses; an aborted call gives a hasher back
//	                              with a part of its input written; invariant Pure: every completed use hashed exactly
//	                              its own input, whatever the history. TLC checks the disciplines on a built-in
//	                              catalogue (reset-at-get, reset-at-put hold; reset-at-sum must be refuted) and
//	                              enumerates the histories over the catalogue of REAL entry points.
//	here                          the catalogue (fixed arguments, every entry point of the property, both pools of
//	                              core), the aborting calls (found by trying: a value on which core's hashing panics;
//	                              the panic must unwind through a function that holds a pooled hasher), the replay of
//	                              every history on the real code (each call on the goroutine the history names), and
//	                              the comparison of EVERY completed call with the value of the same call in a fresh
//	                              process (no call was ever aborted there) - which in turn is compared with the
//	                              BLAKE2b-256 of the pre-image Semantics!Value prescribes (judge).

import (
	"context"
	"encoding/hex"
	"encoding/json"
	"fmt"
	"math/rand"
	"os"
	"os/exec"
	"regexp"
	"runtime/debug"
	"sort"
	"strconv"
	"strings"
	"sync"
	"time"

	"go.sia.tech/core/consensus"
	"go.sia.tech/core/types"
	"verif/harness/chain"
	"verif/harness/vlib"
	wb "verif/harness/wirebridge"
)

const pureFreshEnv = "C12_PURE_FRESH"

// pureOp is one entry of the catalogue: a hash function of core applied to a fixed argument.
type pureOp struct {
	name   string
	kind   string         // the kind of Semantics!Value ("" for aborting calls)
	ev     map[string]any // the request Semantics!Value answers (nil in the fresh process)
	call   func() types.Hash256
	uses   []string // model: the pools the call borrows hashers from, in order (the sharing core has today)
	abort  int      // model: 0, or the use in which the call panics
	nested int      // model: the earlier uses are unfinished when it panics

	diag     func() []string
	clean    types.Hash256 // the value in a fresh process
	line     int           // index of the request in checker.lines (-1: none)
	site     string        // aborting calls: the innermost function holding a pooled hasher the panic unwound through
	panicTxt string
}

func (o *pureOp) aborts() bool { return o.abort != 0 }

// pooledFrames are the functions of core that hold a pooled hasher while they run.
var pooledFrames = []string{"types.hashAll", "types.SpendPolicy.Address", "types.unlockConditionsRoot", "types.blockMerkleRoot",
	"consensus.hashAll", "consensus.State.WholeSigHash", "consensus.State.PartialSigHash", "consensus.State.MerkleLeafHash"}

func h32(b byte) (h types.Hash256) {
	for i := range h {
		h[i] = b + byte(i)
	}
	return
}

func sig64(b byte) (s types.Signature) {
	for i := range s {
		s[i] = b ^ byte(3*i)
	}
	return
}

// pureCatalogue builds the catalogue. It is deterministic (the fresh process builds the same one); k == nil: no requests.
func pureCatalogue(c *vlib.Ctx, k *checker) []*pureOp {
	// ---- real states of the four eras: a chain of empty blocks
	sim := newEraSim()
	sim.OnApply = nil
	var eras []eraState
	for sim.CS.Index.Height <= hV2Allow+1 {
		switch sim.CS.Index.Height {
		case 1, hASIC + 1, hFoundation + 1, hV2Allow + 1:
			eras = append(eras, stateOf(sim.CS))
		}
		bs := sim.Supplement(nil)
		b := sim.Seal(nil, nil)
		if err, pan := sim.Validate(b, bs); err != nil || pan != nil {
			fatalPure(c, "purity: the chain of empty blocks is refused at height %d: %v %v", sim.CS.Index.Height+1, err, pan)
		}
		sim.Apply(b, bs)
	}
	if len(eras) != 4 {
		fatalPure(c, "purity: %d of 4 eras reached", len(eras))
	}
	K := sim.K
	st := sim.CS // a state of the v2 era
	cur := types.NewCurrency64
	abs := func(lineName string, ptr any) any {
		if k == nil {
			return nil
		}
		return k.abs(lineName, ptr)
	}

	// ---- a v1 transaction with every member
	ucT := K.UC("T3")
	uc2 := types.UnlockConditions{Timelock: 3, PublicKeys: []types.UnlockKey{K.PK("A").UnlockKey(), K.PK("B").UnlockKey()}, SignaturesRequired: 2}
	var leaf64 [64]byte
	for i := range leaf64 {
		leaf64[i] = byte(200 - i)
	}
	outs := func(a, b uint64) []types.SiacoinOutput {
		return []types.SiacoinOutput{{Value: cur(a), Address: K.Addr("A")}, {Value: cur(b), Address: types.Address(h32(0x21))}}
	}
	t1 := &types.Transaction{
		SiacoinInputs:  []types.SiacoinInput{{ParentID: types.SiacoinOutputID(h32(0x11)), UnlockConditions: ucT}, {ParentID: types.SiacoinOutputID(h32(0x12)), UnlockConditions: uc2}},
		SiacoinOutputs: []types.SiacoinOutput{{Value: types.Siacoins(3), Address: K.Addr("B")}, {Value: cur(77), Address: types.Address(h32(0x22))}},
		FileContracts: []types.FileContract{{Filesize: 4096, FileMerkleRoot: h32(0x31), WindowStart: 20, WindowEnd: 30, Payout: types.Siacoins(5),
			ValidProofOutputs: outs(40, 41), MissedProofOutputs: outs(42, 43), UnlockHash: types.Address(h32(0x32)), RevisionNumber: 1}},
		FileContractRevisions: []types.FileContractRevision{{ParentID: types.FileContractID(h32(0x41)), UnlockConditions: ucT,
			FileContract: types.FileContract{Filesize: 8192, FileMerkleRoot: h32(0x42), WindowStart: 21, WindowEnd: 31, Payout: types.Siacoins(5),
				ValidProofOutputs: outs(44, 45), MissedProofOutputs: outs(46, 47), UnlockHash: types.Address(h32(0x43)), RevisionNumber: 9}}},
		StorageProofs:  []types.StorageProof{{ParentID: types.FileContractID(h32(0x51)), Leaf: leaf64, Proof: []types.Hash256{h32(0x52), h32(0x53)}}},
		SiafundInputs:  []types.SiafundInput{{ParentID: types.SiafundOutputID(h32(0x61)), UnlockConditions: ucT, ClaimAddress: K.Addr("A")}},
		SiafundOutputs: []types.SiafundOutput{{Value: 7, Address: K.Addr("B")}, {Value: 9, Address: types.Address(h32(0x62))}},
		MinerFees:      []types.Currency{cur(5)},
		ArbitraryData:  [][]byte{[]byte("purity")},
	}
	s0, s1 := sig64(0x10), sig64(0x20)
	t1.Signatures = []types.TransactionSignature{
		{ParentID: h32(0x11), CoveredFields: types.CoveredFields{WholeTransaction: true, Signatures: []uint64{1}}, Signature: s0[:]},
		{ParentID: h32(0x61), Timelock: 2, CoveredFields: types.CoveredFields{SiacoinInputs: []uint64{0}, SiacoinOutputs: []uint64{1}, FileContracts: []uint64{0},
			SiafundInputs: []uint64{0}, MinerFees: []uint64{0}, ArbitraryData: []uint64{0}, Signatures: []uint64{0}}, Signature: s1[:]},
	}

	// ---- a v2 transaction with every member and every resolution
	se := func(i uint64, b byte, n int) types.StateElement {
		e := types.StateElement{LeafIndex: i}
		for j := 0; j < n; j++ {
			e.MerkleProof = append(e.MerkleProof, h32(b+byte(j)))
		}
		return e
	}
	pkA, pkB := types.PolicyPublicKey(K.PK("A")), types.PolicyPublicKey(K.PK("B"))
	polThr := types.PolicyThreshold(2, []types.SpendPolicy{types.PolicyAbove(7), pkB, types.PolicyOpaque(types.PolicyHash(h32(0x81))),
		types.PolicyThreshold(1, []types.SpendPolicy{types.PolicyAfter(chain.GenesisTime.Add(90 * time.Second)), {Type: types.PolicyTypeUnlockConditions(uc2)}})})
	polUC := types.SpendPolicy{Type: types.PolicyTypeUnlockConditions(uc2)}
	polStdUC := types.SpendPolicy{Type: types.PolicyTypeUnlockConditions(types.StandardUnlockConditions(K.PK("A")))}
	fc := types.V2FileContract{Capacity: 1 << 20, Filesize: 4096, FileMerkleRoot: h32(0x91), ProofHeight: 40, ExpirationHeight: 50,
		RenterOutput: types.SiacoinOutput{Value: cur(250), Address: K.Addr("A")}, HostOutput: types.SiacoinOutput{Value: cur(25), Address: K.Addr("B")},
		MissedHostValue: cur(19), TotalCollateral: cur(12), RenterPublicKey: K.PK("A"), HostPublicKey: K.PK("B"), RevisionNumber: 4,
		RenterSignature: sig64(0x30), HostSignature: sig64(0x40)}
	fc2 := fc
	fc2.RevisionNumber, fc2.Filesize = 5, 8192
	fce := func(b byte, i uint64) types.V2FileContractElement {
		return types.V2FileContractElement{ID: types.FileContractID(h32(b)), StateElement: se(i, b+1, 1), V2FileContract: fc}
	}
	renewal := &types.V2FileContractRenewal{FinalRenterOutput: fc.RenterOutput, FinalHostOutput: fc.HostOutput, RenterRollover: cur(3), HostRollover: cur(1),
		NewContract: fc2, RenterSignature: sig64(0x50), HostSignature: sig64(0x60)}
	newFA := types.Address(h32(0xa1))
	sce := types.SiacoinElement{ID: types.SiacoinOutputID(h32(0x71)), StateElement: se(5, 0x10, 2), SiacoinOutput: types.SiacoinOutput{Value: types.Siacoins(9), Address: polThr.Address()}, MaturityHeight: 3}
	sfe := types.SiafundElement{ID: types.SiafundOutputID(h32(0x72)), StateElement: se(6, 0x20, 1), SiafundOutput: types.SiafundOutput{Value: 10, Address: pkA.Address()}, ClaimStart: cur(4)}
	att := types.Attestation{PublicKey: K.PK("A"), Key: "pure", Value: []byte("function"), Signature: sig64(0x70)}
	t2 := &types.V2Transaction{
		SiacoinInputs:         []types.V2SiacoinInput{{Parent: sce, SatisfiedPolicy: types.SatisfiedPolicy{Policy: polThr, Signatures: []types.Signature{sig64(0x80)}, Preimages: [][32]byte{h32(0x82)}}}},
		SiacoinOutputs:        []types.SiacoinOutput{{Value: types.Siacoins(2), Address: K.Addr("A")}, {Value: cur(13), Address: types.Address(h32(0x83))}},
		SiafundInputs:         []types.V2SiafundInput{{Parent: sfe, ClaimAddress: K.Addr("B"), SatisfiedPolicy: types.SatisfiedPolicy{Policy: pkA, Signatures: []types.Signature{sig64(0x84)}}}},
		SiafundOutputs:        []types.SiafundOutput{{Value: 10, Address: K.Addr("B")}},
		FileContracts:         []types.V2FileContract{fc},
		FileContractRevisions: []types.V2FileContractRevision{{Parent: fce(0x73, 7), Revision: fc2}},
		FileContractResolutions: []types.V2FileContractResolution{
			{Parent: fce(0x74, 8), Resolution: renewal},
			{Parent: fce(0x75, 9), Resolution: &types.V2StorageProof{ProofIndex: types.ChainIndexElement{ID: types.BlockID(h32(0x76)), StateElement: se(2, 0x30, 1),
				ChainIndex: types.ChainIndex{Height: 8, ID: types.BlockID(h32(0x76))}}, Leaf: leaf64, Proof: []types.Hash256{h32(0x77)}}},
			{Parent: fce(0x78, 10), Resolution: &types.V2FileContractExpiration{}}},
		Attestations:         []types.Attestation{att},
		ArbitraryData:        []byte("purity"),
		NewFoundationAddress: &newFA,
		MinerFee:             cur(11),
	}
	t3 := types.V2Transaction{SiacoinOutputs: []types.SiacoinOutput{{Value: cur(5), Address: K.Addr("B")}}, ArbitraryData: []byte("in a block"), MinerFee: cur(1)}

	// ---- blocks
	miner := K.Addr("A")
	b1 := &types.Block{ParentID: types.BlockID(h32(0xb1)), Nonce: 42, Timestamp: chain.GenesisTime.Add(time.Hour),
		MinerPayouts: []types.SiacoinOutput{{Value: cur(500), Address: miner}, {Value: cur(5), Address: K.Addr("B")}}, Transactions: []types.Transaction{*t1}}
	b2 := &types.Block{ParentID: st.Index.ID, Nonce: 43, Timestamp: chain.GenesisTime.Add(2 * time.Hour),
		MinerPayouts: []types.SiacoinOutput{{Value: cur(501), Address: miner}}, Transactions: []types.Transaction{*t1},
		V2: &types.V2BlockData{Height: st.Index.Height + 1, Transactions: []types.V2Transaction{t3}}}
	b2.V2.Commitment = st.Commitment(miner, b2.Transactions, b2.V2.Transactions)

	var ops []*pureOp
	add := func(name, kind string, uses []string, ev map[string]any, call func() types.Hash256) {
		if k == nil {
			ev = nil
		}
		ops = append(ops, &pureOp{name: name, kind: kind, ev: ev, call: call, uses: uses, line: -1})
	}
	ty, co, none := []string{"types"}, []string{"consensus"}, []string{}
	idEv := func(id [32]byte, i int) map[string]any {
		ev := map[string]any{"id": byteInts(id[:])}
		if i >= 0 {
			ev["i"] = i
		}
		return ev
	}
	H := func(id [32]byte) types.Hash256 { return types.Hash256(id) }

	// v1 identifiers
	sem1, wire1 := abs("Sem_Transaction", t1), abs("Transaction", t1)
	add("v1txid", "v1txid", ty, map[string]any{"v": sem1}, func() types.Hash256 { return H(t1.ID()) })
	add("v1fullhash", "v1fullhash", ty, map[string]any{"v": wire1}, func() types.Hash256 { return t1.FullHash() })
	add("v1leaf", "v1leaf", ty, map[string]any{"v": wire1}, func() types.Hash256 { return t1.MerkleLeafHash() })
	add("v1scoid", "v1scoid", ty, map[string]any{"v": sem1, "i": 1}, func() types.Hash256 { return H(t1.SiacoinOutputID(1)) })
	add("v1sfoid", "v1sfoid", ty, map[string]any{"v": sem1, "i": 1}, func() types.Hash256 { return H(t1.SiafundOutputID(1)) })
	add("v1fcid", "v1fcid", ty, map[string]any{"v": sem1, "i": 0}, func() types.Hash256 { return H(t1.FileContractID(0)) })
	sfoid, fcid1 := t1.SiafundOutputID(1), t1.FileContractID(0)
	add("v1claimout", "v1claimout", ty, idEv(sfoid, -1), func() types.Hash256 { return H(sfoid.ClaimOutputID()) })
	add("v1validout", "v1validout", ty, idEv(fcid1, 1), func() types.Hash256 { return H(fcid1.ValidOutputID(1)) })
	add("v1missedout", "v1missedout", ty, idEv(fcid1, 0), func() types.Hash256 { return H(fcid1.MissedOutputID(0)) })
	// v2 identifiers
	sem2, wire2 := abs("Sem_V2Transaction", t2), abs("V2Transaction", t2)
	txid := t2.ID()
	add("v2txid", "v2txid", ty, map[string]any{"v": sem2}, func() types.Hash256 { return H(t2.ID()) })
	if k != nil { // a disagreement with the pre-image is narrowed to the responsible member (known finding: the claim address)
		ops[len(ops)-1].diag = k.diagStatic(hV2ID, "Sem_V2Transaction", t2, 12)
	}
	// the same without siafund inputs: there the code's identifier IS the hash of the specification's pre-image (no claim address)
	t2n := t2.DeepCopy()
	t2n.SiafundInputs = nil
	sem2n := abs("Sem_V2Transaction", &t2n)
	add("v2txid/no-siafund-input", "v2txid", ty, map[string]any{"v": sem2n}, func() types.Hash256 { return H(t2n.ID()) })
	add("v2fullhash", "v2fullhash", ty, map[string]any{"v": wire2}, func() types.Hash256 { return t2.FullHash() })
	add("v2leaf", "v2leaf", ty, map[string]any{"v": wire2}, func() types.Hash256 { return t2.MerkleLeafHash() })
	add("v2scoid", "v2scoid", ty, idEv(txid, 1), func() types.Hash256 { return H(t2.SiacoinOutputID(txid, 1)) })
	add("v2sfoid", "v2sfoid", ty, idEv(txid, 0), func() types.Hash256 { return H(t2.SiafundOutputID(txid, 0)) })
	add("v2fcid", "v2fcid", ty, idEv(txid, 0), func() types.Hash256 { return H(t2.V2FileContractID(txid, 0)) })
	add("attestationid", "attestationid", ty, idEv(txid, 0), func() types.Hash256 { return H(t2.AttestationID(txid, 0)) })
	fcid2 := t2.V2FileContractID(txid, 0)
	add("v2claimout", "v2claimout", ty, idEv(sfoid, -1), func() types.Hash256 { return H(sfoid.V2ClaimOutputID()) })
	add("v2renterout", "v2renterout", ty, idEv(fcid2, -1), func() types.Hash256 { return H(fcid2.V2RenterOutputID()) })
	add("v2hostout", "v2hostout", ty, idEv(fcid2, -1), func() types.Hash256 { return H(fcid2.V2HostOutputID()) })
	add("v2renewalid", "v2renewalid", ty, idEv(fcid2, -1), func() types.Hash256 { return H(fcid2.V2RenewalID()) })
	// signature hashes: v1 in every era, v2
	cf := t1.Signatures[1].CoveredFields
	cfAbs := abs("CoveredFields", &cf)
	for i, e := range eras {
		e := e
		evW, evP := e.ev(), e.ev()
		evW["v"], evW["j"] = wire1, 1
		evP["v"], evP["cf"] = wire1, cfAbs
		if i%2 == 0 {
			add("wholesighash@"+e.name, "wholesighash", co, evW, func() types.Hash256 { return wholeHash(e.st, t1, 0) })
		} else {
			add("partialsighash@"+e.name, "partialsighash", co, evP, func() types.Hash256 { return e.st.PartialSigHash(*t1, cf) })
		}
	}
	add("wholesighash@"+eras[3].name, "wholesighash", co, func() map[string]any { ev := eras[3].ev(); ev["v"], ev["j"] = wire1, 1; return ev }(),
		func() types.Hash256 { return wholeHash(eras[3].st, t1, 0) })
	add("inputsighash", "inputsighash", co, map[string]any{"v": sem2}, func() types.Hash256 { return st.InputSigHash(*t2) })
	if k != nil {
		ops[len(ops)-1].diag = k.diagStatic(hInputSig(st), "Sem_V2Transaction", t2, 12)
	}
	add("inputsighash/no-siafund-input", "inputsighash", co, map[string]any{"v": sem2n}, func() types.Hash256 { return st.InputSigHash(t2n) })
	add("contractsighash", "contractsighash", co, map[string]any{"v": abs("Sem_V2FileContract", &fc)}, func() types.Hash256 { return st.ContractSigHash(fc) })
	add("renewalsighash", "renewalsighash", co, map[string]any{"v": abs("Sem_V2FileContractRenewal", renewal)}, func() types.Hash256 { return st.RenewalSigHash(*renewal) })
	add("attestationsighash", "attestationsighash", co, map[string]any{"v": abs("Sem_Attestation", &att)}, func() types.Hash256 { return st.AttestationSigHash(att) })
	// blocks, commitments
	var b1abs, b2abs, sabs any
	var b2v2 map[string]any
	if k != nil {
		b1abs, b2abs = abs("V2Block", (*types.V2Block)(b1)), abs("V2Block", (*types.V2Block)(b2))
		var err error
		if sabs, err = wb.AbstractNormalised(k.s, "consensus_State", &st); err != nil {
			fatalPure(c, "bridge: %v", err)
		}
		b2v2 = b2abs.(map[string]any)["V2"].([]any)[0].(map[string]any)
	}
	bid1, hdr1 := b1.ID(), b1.Header()
	add("blockid/v1", "blockid", ty, map[string]any{"v": b1abs}, func() types.Hash256 { return H(b1.ID()) })
	add("blockid/v2", "blockid", none, map[string]any{"v": b2abs}, func() types.Hash256 { return H(b2.ID()) })
	add("headerid", "headerid", none, map[string]any{"v": headerAbs(hdr1)}, func() types.Hash256 { return H(hdr1.ID()) })
	add("v1commitment", "v1commitment", ty, map[string]any{"v": b1abs}, func() types.Hash256 { return b1.Header().Commitment })
	add("minerout", "minerout", ty, idEv(bid1, 1), func() types.Hash256 { return H(bid1.MinerOutputID(1)) })
	add("foundationout", "foundationout", ty, idEv(bid1, -1), func() types.Hash256 { return H(bid1.FoundationOutputID()) })
	add("commitmentleaf", "commitmentleaf", co, map[string]any{"s": sabs, "id": byteInts(miner[:])}, func() types.Hash256 { return st.MerkleLeafHash(miner) })
	var txnsAbs, v2txnsAbs any
	if k != nil {
		txnsAbs, v2txnsAbs = b2abs.(map[string]any)["Transactions"], b2v2["Transactions"]
	}
	add("v2commitment", "v2commitment", []string{"consensus", "types", "types"}, map[string]any{"s": sabs, "id": byteInts(miner[:]), "txns": txnsAbs, "v2txns": v2txnsAbs},
		func() types.Hash256 { return st.Commitment(miner, b2.Transactions, b2.V2.Transactions) })
	// addresses
	add("address/public-key", "address", ty, map[string]any{"v": abs("SpendPolicy", &pkA)}, func() types.Hash256 { return H(pkA.Address()) })
	add("address/standard", "address", none, map[string]any{"v": abs("SpendPolicy", &pkA)}, func() types.Hash256 { return H(types.StandardAddress(K.PK("A"))) })
	add("address/threshold", "address", []string{"types", "types", "types"}, map[string]any{"v": abs("SpendPolicy", &polThr)}, func() types.Hash256 { return H(polThr.Address()) })
	add("address/unlock-conditions", "address", ty, map[string]any{"v": abs("SpendPolicy", &polUC)}, func() types.Hash256 { return H(polUC.Address()) })
	add("unlockhash", "address", ty, map[string]any{"v": abs("SpendPolicy", &polUC)}, func() types.Hash256 { return H(uc2.UnlockHash()) })
	add("unlockhash/standard", "address", none, map[string]any{"v": abs("SpendPolicy", &polStdUC)}, func() types.Hash256 { return H(types.StandardUnlockHash(K.PK("A"))) })
	// element hashes (the accumulator's leaves; consensus pool)
	fcElem := types.FileContractElement{ID: fcid1, StateElement: se(11, 0x40, 1), FileContract: t1.FileContracts[0]}
	v2fcElem := fce(0x79, 12)
	attElem := types.AttestationElement{ID: t2.AttestationID(txid, 0), StateElement: se(13, 0x50, 1), Attestation: att}
	ciElem := types.ChainIndexElement{ID: st.Index.ID, StateElement: se(14, 0x60, 1), ChainIndex: st.Index}
	elEv := func(el string, id [32]byte, v any, x any) map[string]any {
		ev := map[string]any{"el": el, "id": byteInts(id[:]), "v": v}
		if x != nil {
			ev["x"] = x
		}
		return ev
	}
	add("elementhash/siacoin", "elementhash", co, elEv("siacoin", sce.ID, abs("V2SiacoinOutput", &sce.SiacoinOutput), wb.Words(0, sce.MaturityHeight, 4)),
		func() types.Hash256 { return consensus.VerifSiacoinLeaf(&sce, false).ElementHash() })
	add("elementhash/siafund", "elementhash", co, elEv("siafund", sfe.ID, abs("V2SiafundOutput", &sfe.SiafundOutput), wb.Words(sfe.ClaimStart.Hi, sfe.ClaimStart.Lo, 8)),
		func() types.Hash256 { return consensus.VerifSiafundLeaf(&sfe, false).ElementHash() })
	add("elementhash/filecontract", "elementhash", co, elEv("filecontract", fcElem.ID, abs("FileContract", &fcElem.FileContract), nil),
		func() types.Hash256 { return consensus.VerifFileContractLeaf(&fcElem, nil, false).ElementHash() })
	add("elementhash/v2filecontract", "elementhash", co, elEv("v2filecontract", v2fcElem.ID, abs("V2FileContract", &v2fcElem.V2FileContract), nil),
		func() types.Hash256 { return consensus.VerifV2FileContractLeaf(&v2fcElem, nil, true).ElementHash() })
	add("elementhash/attestation", "elementhash", co, elEv("attestation", attElem.ID, abs("Attestation", &attElem.Attestation), nil),
		func() types.Hash256 { return consensus.VerifAttestationLeaf(&attElem).ElementHash() })
	add("elementhash/chainindex", "elementhash", co, elEv("chainindex", ciElem.ID, abs("ChainIndex", &ciElem.ChainIndex), nil),
		func() types.Hash256 { return consensus.VerifChainIndexLeaf(&ciElem).ElementHash() })

	// ---- aborting calls: values on which core's hashing panics half-way (found by trying; probed again in every run)
	abort := func(name string, uses []string, at, nested int, call func()) {
		ops = append(ops, &pureOp{name: "abort/" + name, uses: uses, abort: at, nested: nested, line: -1,
			call: func() types.Hash256 { call(); return types.Hash256{} }})
	}
	badRes := types.V2Transaction{SiacoinOutputs: t2.SiacoinOutputs, SiafundOutputs: t2.SiafundOutputs, FileContracts: t2.FileContracts, ArbitraryData: []byte("nil resolution"),
		FileContractResolutions: []types.V2FileContractResolution{{Parent: fce(0x7a, 15)}}}
	badPol := types.V2Transaction{SiacoinInputs: []types.V2SiacoinInput{{Parent: sce}}, SiacoinOutputs: t2.SiacoinOutputs}
	badSub := types.V2Transaction{SiacoinInputs: []types.V2SiacoinInput{{Parent: sce, SatisfiedPolicy: types.SatisfiedPolicy{Policy: types.PolicyThreshold(1, []types.SpendPolicy{pkA, {}})}}}}
	abort("address-nil-policy", ty, 1, 0, func() { _ = types.SpendPolicy{}.Address() })
	abort("address-threshold-nil-sub-policy", []string{"types", "types", "types"}, 3, 1, func() { _ = types.PolicyThreshold(1, []types.SpendPolicy{pkA, {}}).Address() })
	abort("v2txid-nil-resolution", ty, 1, 0, func() { _ = badRes.ID() })
	abort("v2fullhash-nil-resolution", ty, 1, 0, func() { _ = badRes.FullHash() })
	abort("v2leaf-nil-policy", ty, 1, 0, func() { _ = badPol.MerkleLeafHash() })
	abort("v2fullhash-threshold-nil-sub-policy", ty, 1, 0, func() { _ = badSub.FullHash() })
	abort("commitment-nil-policy", []string{"consensus", "types", "types"}, 3, 0, func() { _ = st.Commitment(miner, b2.Transactions, []types.V2Transaction{badPol}) })
	abort("inputsighash-nil-resolution", co, 1, 0, func() { _ = st.InputSigHash(badRes) })
	abort("partialsighash-covers-missing-output", co, 1, 0, func() {
		_ = eras[1].st.PartialSigHash(*t1, types.CoveredFields{SiacoinInputs: []uint64{0, 1}, SiacoinOutputs: []uint64{0, 9}})
	})
	abort("wholesighash-covers-missing-signature", co, 1, 0, func() { _ = eras[2].st.WholeSigHash(*t1, h32(0x11), 0, 0, []uint64{1, 9}) })
	return ops
}

func fatalPure(c *vlib.Ctx, format string, a ...any) {
	if c != nil {
		c.Fatal(format, a...)
	}
	fmt.Fprintf(os.Stderr, format+"\n", a...)
	os.Exit(3)
}

// pureFreshMain is the fresh process: it evaluates every completing entry of the catalogue once, in catalogue order,
// before anything else was hashed through a pool by a call that did not complete, and prints the values.
func pureFreshMain() {
	ops := pureCatalogue(nil, nil)
	out := map[string]string{}
	for _, o := range ops {
		if !o.aborts() {
			v := o.call()
			out[o.name] = hex.EncodeToString(v[:])
		}
	}
	json.NewEncoder(os.Stdout).Encode(out)
}

func pureFreshValues(c *vlib.Ctx, ops []*pureOp) {
	exe, err := os.Executable()
	if err != nil {
		c.Fatal("purity: %v", err)
	}
	ctx, cancel := context.WithTimeout(context.Background(), 2*time.Minute)
	defer cancel()
	cmd := exec.CommandContext(ctx, exe)
	cmd.Env = append(os.Environ(), pureFreshEnv+"=1")
	cmd.Stderr = os.Stderr
	out, err := cmd.Output()
	if err != nil {
		c.Fatal("purity: the fresh process failed: %v", err)
	}
	vals := map[string]string{}
	if err := json.Unmarshal(out, &vals); err != nil {
		c.Fatal("purity: the fresh process printed %.200q: %v", out, err)
	}
	for _, o := range ops {
		if o.aborts() {
			continue
		}
		b, err := hex.DecodeString(vals[o.name])
		if err != nil || len(b) != 32 {
			c.Fatal("purity: the fresh process has no value for %s", o.name)
		}
		copy(o.clean[:], b)
	}
}

// ---------------------------------------------------------------------------

type pureFailure struct {
	seq        []int // 1000 * thread + op (1-based)
	step       int
	got        types.Hash256
	concurrent bool
	explained  bool // an aborted call precedes the failing call within the history itself
}

type purity struct {
	c   *vlib.Ctx
	k   *checker
	ops []*pureOp

	// TLC
	wg                                sync.WaitGroup
	resGet, resPut, resBroken         *vlib.TLCResult
	resSim                            *vlib.TLCResult
	errGet, errPut, errBroken, errSim error
	gens                              []*pureGen
	simLen, simNum                    int

	// replay
	work        []chan func()
	done        chan struct{}
	histories   int64
	nontrivial  int64 // histories in which a completed call was compared after an aborted call
	calls       int64
	aborted     int64
	compared    int64
	stressCalls int64
	afterAbort  map[[2]int]int // (aborting op, entry) -> times the entry was called directly after it
	byThreads   map[int]int
	failures    map[string][]*pureFailure // by kind: candidate histories
	nFailures   int64
}

// pureGen is one exhaustive enumeration of histories by TLC.
type pureGen struct {
	cfg          string
	threads, len int
	res          *vlib.TLCResult
	err          error
	count        int
}

// startPurity builds the catalogue, takes the values of a fresh process, logs the requests, and starts TLC
// (disciplines, histories) in the background. No aborted call is made before finish.
func startPurity(c *vlib.Ctx, k *checker) *purity {
	p := &purity{c: c, k: k, afterAbort: map[[2]int]int{}, byThreads: map[int]int{}, failures: map[string][]*pureFailure{}}
	p.ops = pureCatalogue(c, k)
	pureFreshValues(c, p.ops)
	if len(p.ops) >= 1000 {
		c.Fatal("purity: the catalogue has %d entries (the history encoding holds 999)", len(p.ops))
	}
	seen := map[string]bool{}
	for _, o := range p.ops {
		if seen[o.name] {
			c.Fatal("purity: two catalogue entries named %s", o.name)
		}
		seen[o.name] = true
		if o.aborts() {
			continue
		}
		// the request: this process's value is what the judge compares with the specification's pre-image
		o := o
		got := o.call()
		if got != o.clean {
			p.fail(o, &pureFailure{seq: nil, step: -1, got: got})
		}
		l := &line{kind: o.kind, ev: o.ev, got: got, redo: o.call, src: "purity-catalogue", diag: o.diag, payload: map[string]any{"type": "PureHistory", "entry": o.name}}
		if strings.HasSuffix(o.kind, "sighash") && strings.Contains(o.name, "@") {
			l.era = o.name[strings.Index(o.name, "@")+1:]
		}
		o.line = k.add(l)
		if o.line >= 0 && k.lines[o.line].got != got { // two functions of one request (StandardAddress and the policy's Address)
			c.Violation(o.kind+"/variants-disagree", fmt.Sprintf("%s: two functions the protocol defines as equal return different values", o.name), map[string]any{"type": "PureHistory", "entry": o.name})
		}
	}
	var cat []map[string]any
	for _, o := range p.ops {
		cat = append(cat, map[string]any{"name": o.name, "uses": o.uses, "abort": o.abort, "nested": o.nested})
	}
	files := map[string][]byte{"catalogue.ndjson": vlib.NDJSON(cat)}
	run := func(res **vlib.TLCResult, err *error, o vlib.TLCOpts) {
		p.wg.Add(1)
		go func() {
			defer p.wg.Done()
			o.SpecDirs, o.Module, o.Files = []string{"wire"}, "SemanticsPure", files
			*res, *err = c.TLC(o)
		}()
	}
	run(&p.resGet, &p.errGet, vlib.TLCOpts{Config: "SemanticsPure.cfg", Workers: 2})
	run(&p.resPut, &p.errPut, vlib.TLCOpts{Config: "SemanticsPurePut.cfg", Workers: 1})
	run(&p.resBroken, &p.errBroken, vlib.TLCOpts{Config: "SemanticsPureBroken.cfg", Workers: 1, NoCount: true})
	p.gens = []*pureGen{{cfg: "SemanticsPureGen.cfg", threads: 2, len: 3}}
	if c.Thorough {
		p.gens = append(p.gens, &pureGen{cfg: "SemanticsPureGenDeep.cfg", threads: 1, len: 4})
	}
	for _, g := range p.gens {
		run(&g.res, &g.err, vlib.TLCOpts{Config: g.cfg, Workers: c.Pick(6, 8), Timeout: 15 * time.Minute})
	}
	p.simLen, p.simNum = 8, c.Pick(4000, 60000)
	run(&p.resSim, &p.errSim, vlib.TLCOpts{Config: "SemanticsPureSim.cfg", Workers: 2, Simulate: fmt.Sprintf("num=%d", p.simNum), Depth: p.simLen + 2, Seed: c.Seed,
		Timeout: 10 * time.Minute, NoCount: true})
	return p
}

// probe calls every aborting entry once: it must panic, and the panic must unwind through a function of core that
// holds a pooled hasher (otherwise the call says nothing about hashers).
func (p *purity) probe() {
	for _, o := range p.ops {
		if !o.aborts() {
			continue
		}
		var stack string
		var val any
		func() {
			defer func() {
				if r := recover(); r != nil {
					val, stack = r, string(debug.Stack())
				}
			}()
			o.call()
		}()
		if val == nil {
			p.c.Infra("purity: %s does not panic on this tree: it is no aborted call", o.name)
			continue
		}
		o.panicTxt = fmt.Sprint(val)
		for _, ln := range strings.Split(stack, "\n") { // innermost frame first
			if !strings.HasPrefix(ln, "go.sia.tech/core/") || !strings.Contains(ln, "(") {
				continue
			}
			fn := strings.TrimPrefix(ln[:strings.LastIndex(ln, "(")], "go.sia.tech/core/")
			for _, pf := range pooledFrames {
				if fn == pf && o.site == "" {
					o.site = fn
				}
			}
		}
		if o.site == "" {
			p.c.Infra("purity: %s panics (%v) outside every function of core that holds a pooled hasher", o.name, val)
		}
	}
}

// fail records a completed call whose value is not the fresh one. Histories are replayed one after the other in one
// process, so a hasher soiled by one history may be met by the first call of a later one: candidates whose own prefix
// contains an aborted call come first; the verdict re-runs the candidates after a scrub (settle).
func (p *purity) fail(o *pureOp, f *pureFailure) {
	p.nFailures++
	f.explained = f.step >= 0 && !f.concurrent && p.hasAbort(f.seq[:f.step])
	l := p.failures[o.kind]
	switch {
	case len(l) < 60:
		p.failures[o.kind] = append(l, f)
	case f.explained:
		for i, old := range l {
			if !old.explained || len(old.seq) > len(f.seq) {
				l[i] = f
				break
			}
		}
	}
}

func (p *purity) hasAbort(seq []int) bool {
	for _, code := range seq {
		if p.ops[code%1000-1].aborts() {
			return true
		}
	}
	return false
}

// scrub makes every completing call a few times on every goroutine used so far: whatever an earlier history left in
// a pooled hasher is used up (best effort: which hasher a call borrows is the pool's choice).
func (p *purity) scrub() {
	for t := 1; t <= max(len(p.work), 3); t++ {
		for rep := 0; rep < 3; rep++ {
			for i, o := range p.ops {
				if !o.aborts() {
					p.step(1000*t + i + 1)
				}
			}
		}
	}
}

// settle chooses, for one kind, the failing history that reproduces best after a scrub (shortest first).
func (p *purity) settle(l []*pureFailure) (best *pureFailure, rep int) {
	sort.SliceStable(l, func(i, j int) bool {
		a, b := l[i], l[j]
		if a.explained != b.explained {
			return a.explained
		}
		return len(a.seq) < len(b.seq)
	})
	best, rep = l[0], -1
	for n, f := range l {
		if n >= 8 || f.step < 0 || f.concurrent {
			break
		}
		r := 0
		for i := 0; i < 3; i++ {
			p.scrub()
			if p.replayHistory(f.seq, false) > 0 {
				r++
			}
		}
		if r > rep {
			best, rep = f, r
		}
		if r == 3 {
			break
		}
	}
	if rep < 0 {
		rep = 0
	}
	return best, rep
}

// on runs f on goroutine t (1-based) and waits for it.
func (p *purity) on(t int, f func()) {
	for len(p.work) < t {
		ch := make(chan func())
		p.work = append(p.work, ch)
		if p.done == nil {
			p.done = make(chan struct{})
		}
		go func() {
			for g := range ch {
				g()
				p.done <- struct{}{}
			}
		}()
	}
	p.work[t-1] <- f
	<-p.done
}

// step makes one call of a history; it reports the value (completing entries) and whether the call panicked.
func (p *purity) step(code int) (o *pureOp, got types.Hash256, panicked bool) {
	t, oi := code/1000, code%1000
	if t < 1 || oi < 1 || oi > len(p.ops) {
		p.c.Fatal("purity: TLC printed the call %d", code)
	}
	o = p.ops[oi-1]
	p.on(t, func() {
		defer func() {
			if r := recover(); r != nil {
				panicked = true
			}
		}()
		got = o.call()
	})
	return
}

// replayHistory executes one history on the real code and compares every completed call with the fresh value.
func (p *purity) replayHistory(seq []int, record bool) (bad int) {
	prevAbort := 0
	sawAbort, counted := false, false
	for i, code := range seq {
		o, got, panicked := p.step(code)
		if record {
			p.calls++
		}
		if o.aborts() {
			if !panicked {
				p.c.Infra("purity: %s did not panic during the replay", o.name)
			}
			if record {
				p.aborted++
			}
			prevAbort, sawAbort = code%1000, true
			continue
		}
		if panicked {
			p.c.Violation("history/"+o.kind+"/panics", fmt.Sprintf("%s panics after the history %s", o.name, p.text(seq[:i])), p.payload(seq, i, got))
			bad++
			continue
		}
		if record {
			p.compared++
			if prevAbort != 0 {
				p.afterAbort[[2]int{prevAbort, code % 1000}]++
			}
			if sawAbort && !counted {
				counted = true
				p.nontrivial++
			}
		}
		prevAbort = 0
		if got != o.clean {
			bad++
			if record {
				p.fail(o, &pureFailure{seq: append([]int{}, seq[:i+1]...), step: i, got: got})
			}
		}
	}
	return bad
}

func (p *purity) text(seq []int) string {
	var parts []string
	for _, code := range seq {
		parts = append(parts, fmt.Sprintf("g%d:%s", code/1000, p.ops[code%1000-1].name))
	}
	return strings.Join(parts, " ; ")
}

func (p *purity) payload(seq []int, step int, got types.Hash256) map[string]any {
	var calls []map[string]any
	for _, code := range seq {
		o := p.ops[code%1000-1]
		m := map[string]any{"goroutine": code / 1000, "entry": o.name}
		if o.aborts() {
			m["aborted_in"], m["panic"] = o.site, o.panicTxt
		}
		calls = append(calls, m)
	}
	pay := map[string]any{"type": "PureHistory", "history": calls, "failing_call": step + 1, "value": hex.EncodeToString(got[:])}
	if step >= 0 && step < len(seq) {
		o := p.ops[seq[step]%1000-1]
		pay["entry"], pay["fresh_process_value"], pay["request"] = o.name, hex.EncodeToString(o.clean[:]), o.ev
	}
	return pay
}

var intRe = regexp.MustCompile(`\d+`)

// parse reads the @@SEQ lines of a TLC run.
func (p *purity) parse(res *vlib.TLCResult, wantLen int, dedupe bool) [][]int {
	var out [][]int
	seen := map[string]bool{}
	for _, ln := range res.Lines {
		if !strings.HasPrefix(ln, "SEQ ") || seen[ln] {
			continue
		}
		if dedupe { // a random behaviour prints its history more than once
			seen[ln] = true
		}
		var seq []int
		for _, s := range intRe.FindAllString(ln[4:], -1) {
			n, _ := strconv.Atoi(s)
			seq = append(seq, n)
		}
		if len(seq) != wantLen {
			p.c.Infra("purity: TLC printed a history of %d calls (wanted %d): %.80q", len(seq), wantLen, ln)
			continue
		}
		out = append(out, seq)
	}
	return out
}

func ipow(b, e int) int64 {
	r := int64(1)
	for ; e > 0; e-- {
		r *= int64(b)
	}
	return r
}

// finish waits for TLC, replays every history, runs the concurrent part, reports and records the evidence.
func (p *purity) finish() {
	c := p.c
	p.wg.Wait()
	errs := []error{p.errGet, p.errPut, p.errBroken, p.errSim}
	ress := map[string]*vlib.TLCResult{"reset-at-get": p.resGet, "reset-at-put": p.resPut, "random histories": p.resSim}
	for _, g := range p.gens {
		errs = append(errs, g.err)
		ress[g.cfg] = g.res
	}
	for _, e := range errs {
		if e != nil {
			c.Fatal("purity model: %v", e)
		}
	}
	for name, r := range ress {
		if r.Violated != "" {
			c.Fatal("model-internal failure in SemanticsPure (%s: %s): %s", name, r.Violated, vlib.Tail(r.Out, 1500))
		}
	}
	if p.resBroken.Violated != "Pure" {
		c.Infra("SemanticsPure does not refute the discipline reset-at-sum (%q): the model cannot tell a pure implementation from the seeded one", p.resBroken.Violated)
	}
	nE, nA := 0, 0
	for _, o := range p.ops {
		if o.aborts() {
			nA++
		} else {
			nE++
		}
	}
	// the first aborted calls of this process are made here, after the other parts of the check have run
	p.probe()
	t0 := time.Now()
	var tlcWall time.Duration
	replayAll := func(set [][]int) {
		for _, seq := range set {
			p.replayHistory(seq, true)
			p.histories++
			ts := map[int]bool{}
			for _, code := range seq {
				ts[code/1000] = true
			}
			p.byThreads[len(ts)]++
		}
	}
	for _, g := range p.gens {
		set := p.parse(g.res, g.len, false)
		tlcWall += g.res.Wall
		g.res.Out, g.res.Lines = "", nil
		g.count = len(set)
		// every history over the catalogue with an aborted call before its last call, the last call completing
		want := ipow(g.threads, g.len-1) * (ipow(nE+nA, g.len-1) - ipow(nE, g.len-1)) * int64(nE)
		if int64(len(set)) != want {
			c.Infra("purity: TLC printed %d histories of %d calls by %d goroutines over %d entries and %d aborting calls, expected %d", len(set), g.len, g.threads, nE, nA, want)
		}
		replayAll(set)
	}
	sim := p.parse(p.resSim, p.simLen, true)
	tlcWall += p.resSim.Wall
	if len(sim) < p.simNum/2 {
		c.Infra("purity: TLC printed %d random histories (wanted %d)", len(sim), p.simNum)
	}
	replayAll(sim)
	tReplay := time.Since(t0)
	t1 := time.Now()
	p.stress()
	tStress := time.Since(t1)

	// ---- the comparison must discriminate: against a corrupted fresh value the replay has to object
	selfOK := false
	for i, o := range p.ops {
		if !o.aborts() {
			keep := o.clean
			o.clean[7] ^= 1
			selfOK = p.replayHistory([]int{1000 + i + 1}, false) == 1
			o.clean = keep
			break
		}
	}
	if !selfOK {
		c.Infra("purity: the comparison is not discriminating (a corrupted expected value was not noticed)")
	}

	// ---- verdicts: per kind of identifier, the shortest history after which its value is not the fresh one
	for _, kind := range sortedKeys(p.failures) {
		f, rep := p.settle(p.failures[kind])
		var o *pureOp
		what := ""
		switch {
		case f.step < 0:
			for _, x := range p.ops {
				if x.kind == kind && !x.aborts() && x.call() != x.clean {
					o = x
				}
			}
			what = "differs between this process (after the other parts of the check) and a fresh process"
		case f.concurrent:
			o = p.ops[f.seq[f.step]%1000-1]
			what = "differs from the fresh value while other goroutines hash concurrently; last calls of the goroutine: " + p.text(f.seq)
		default:
			o = p.ops[f.seq[f.step]%1000-1]
			what = fmt.Sprintf("depends on the history of earlier calls: after [%s] the value is %x, in a fresh process (and by its pre-image) %x; reproduced %d of 3 times",
				p.text(f.seq[:f.step]), f.got[:6], o.clean[:6], rep)
		}
		name := kind
		if o != nil {
			name = o.name
		}
		pay := p.payload(f.seq, f.step, f.got)
		pay["reproduced_of_3"], pay["concurrent"], pay["mismatches_in_this_run"] = rep, f.concurrent, p.nFailures
		c.Violation("history/"+kind, fmt.Sprintf("%s is not a function of its argument: it %s", name, what), pay)
	}

	p.scrub() // the parts that follow (judge) hash again

	// ---- vacuity guards
	sites := map[string]int{}
	for ai, a := range p.ops {
		if !a.aborts() {
			continue
		}
		sites[a.site]++
		for ei, e := range p.ops {
			if !e.aborts() && p.afterAbort[[2]int{ai + 1, ei + 1}] == 0 {
				c.Infra("vacuity: %s was never called directly after %s", e.name, a.name)
			}
		}
	}
	for _, need := range []string{"types.hashAll", "types.SpendPolicy.Address", "consensus.hashAll", "consensus.State.PartialSigHash", "consensus.State.WholeSigHash"} {
		if sites[need] == 0 {
			c.Infra("vacuity: no aborted call panics inside %s", need)
		}
	}
	kinds := map[string]bool{}
	for _, o := range p.ops {
		kinds[o.kind] = true
	}
	for _, kind := range append(append([]string{}, allKinds...), "address", "elementhash") {
		if !kinds[kind] {
			c.Infra("vacuity: the purity catalogue has no entry of kind %s", kind)
		}
	}
	if p.byThreads[2] == 0 || p.aborted == 0 || p.compared == 0 {
		c.Infra("vacuity: purity replay: %d histories, by goroutines used %v, %d aborted calls, %d compared", p.histories, p.byThreads, p.aborted, p.compared)
	}

	// ---- evidence
	c.Count(p.calls+p.stressCalls, p.nontrivial)
	c.Traces(p.histories)
	abortSites := map[string]string{}
	var entries []string
	for _, o := range p.ops {
		if o.aborts() {
			abortSites[o.name] = o.site + ": " + o.panicTxt
		} else {
			entries = append(entries, o.name)
		}
	}
	c.Cov("purity_entries", entries)
	c.Cov("purity_aborted_calls_panic_in", abortSites)
	c.Cov("purity_histories_replayed", p.histories)
	c.Cov("purity_histories_with_a_call_compared_after_an_aborted_one", p.nontrivial)
	var exh []map[string]any
	for _, g := range p.gens {
		exh = append(exh, map[string]any{"calls": g.len, "goroutines": g.threads, "count": g.count})
	}
	c.Cov("purity_histories_exhaustive", exh)
	c.Cov("purity_histories_random", map[string]any{"calls": p.simLen, "goroutines": 3, "count": len(sim)})
	c.Cov("purity_histories_by_goroutines_used", p.byThreads)
	c.Cov("purity_calls", map[string]any{"total": p.calls, "aborted": p.aborted, "compared": p.compared, "concurrent": p.stressCalls})
	c.Cov("purity_pairs_entry_directly_after_aborted_call", len(p.afterAbort))
	c.Cov("purity_mismatches", p.nFailures)
	c.Cov("tlc_purity_disciplines", map[string]any{"reset-at-get_states": p.resGet.Distinct, "reset-at-put_states": p.resPut.Distinct, "reset-at-sum": "refuted (" + p.resBroken.Violated + ")"})
	c.Cov("seconds_tlc_purity_histories", tlcWall.Seconds())
	c.Cov("seconds_purity_replay", tReplay.Seconds())
	c.Cov("seconds_purity_concurrent", tStress.Seconds())
}

// stress: several goroutines make random calls of the catalogue (aborting ones included) at the same time; every
// completed call is compared with the fresh value.
func (p *purity) stress() {
	const G = 8
	n := p.c.Pick(30000, 400000)
	var mu sync.Mutex
	var wg sync.WaitGroup
	for g := 0; g < G; g++ {
		wg.Add(1)
		go func(g int) {
			defer wg.Done()
			r := rand.New(rand.NewSource(p.c.Seed*1000 + int64(g)))
			var last []int
			for i := 0; i < n; i++ {
				oi := r.Intn(len(p.ops))
				o := p.ops[oi]
				last = append(last, 1000*(g+1)+oi+1)
				if len(last) > 4 {
					last = last[1:]
				}
				var got types.Hash256
				panicked := false
				func() {
					defer func() {
						if recover() != nil {
							panicked = true
						}
					}()
					got = o.call()
				}()
				if o.aborts() {
					continue
				}
				if panicked || got != o.clean {
					mu.Lock()
					p.fail(o, &pureFailure{seq: append([]int{}, last...), step: len(last) - 1, got: got, concurrent: true})
					mu.Unlock()
				}
			}
		}(g)
	}
	wg.Wait()
	p.stressCalls = int64(G * n)
}

// replayPureHistory re-executes a saved history (by entry names) on the current tree.
func replayPureHistory(c *vlib.Ctx, k *checker, hist []struct {
	Goroutine int    `json:"goroutine"`
	Entry     string `json:"entry"`
}) {
	p := &purity{c: c, k: k, afterAbort: map[[2]int]int{}, byThreads: map[int]int{}, failures: map[string][]*pureFailure{}}
	p.ops = pureCatalogue(c, k)
	pureFreshValues(c, p.ops)
	for _, o := range p.ops {
		if !o.aborts() {
			o := o
			o.line = k.add(&line{kind: o.kind, ev: o.ev, got: o.call(), redo: o.call, src: "purity-catalogue", diag: o.diag})
		}
	}
	p.probe()
	var seq []int
	for _, h := range hist {
		found := false
		for i, o := range p.ops {
			if o.name == h.Entry {
				seq, found = append(seq, 1000*h.Goroutine+i+1), true
			}
		}
		if !found {
			c.Fatal("replay: the catalogue has no entry %s", h.Entry)
		}
	}
	for i := 0; i < 3; i++ {
		p.scrub()
		p.replayHistory(seq, true)
	}
	for _, kind := range sortedKeys(p.failures) {
		f := p.failures[kind][0]
		o := p.ops[f.seq[f.step]%1000-1]
		c.Violation("history/"+kind, fmt.Sprintf("%s is not a function of its argument: after [%s] the value is %x, in a fresh process %x", o.name, p.text(f.seq[:f.step]), f.got[:6], o.clean[:6]),
			p.payload(f.seq, f.step, f.got))
	}
}
