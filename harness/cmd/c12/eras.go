package main

import (
	"encoding/json"
	"fmt"
	"time"

	"go.sia.tech/core/consensus"
	"go.sia.tech/core/types"
	"verif/harness/chain"
	"verif/harness/vlib"
)

// The era chain: a real chain whose hardforks activate at small heights, so that real states of every era exist.
//
//	tip height  0..2  pre-ASIC (no replay prefix)     3..5  ASIC (prefix 0)
//	            6..8  Foundation (prefix 1)           9..   v2 allowed (prefix 2; v1 transactions until 15)
const (
	hASIC, hFoundation, hV2Allow, hV2Require = 3, 6, 9, 16
)

var eraNames = []string{"pre-asic", "asic", "foundation", "v2"}

func eraOfHeight(h uint64) string {
	switch {
	case h >= hV2Allow:
		return "v2"
	case h >= hFoundation:
		return "foundation"
	case h >= hASIC:
		return "asic"
	}
	return "pre-asic"
}

const nGenSC, nGenSF = 40, 12

func newEraSim() *chain.Sim {
	p := chain.Params{MatDelay: 1, AllowH: hV2Allow, RequireH: hV2Require, EphH: hV2Allow, FoundH: hFoundation, Reward: 500}
	for i := 0; i < nGenSC; i++ {
		p.GenSC = append(p.GenSC, chain.AbsOut{Val: uint64(600000 + 1000*i), Addr: "A"})
	}
	for i := 0; i < nGenSF; i++ {
		p.GenSF = append(p.GenSF, chain.AbsOut{Val: uint64(500 + i), Addr: "A"})
	}
	sim := chain.NewSim(p)
	// the network object is shared by every state of the chain: the ASIC hardfork is placed before the first child block
	sim.Net.HardforkASIC.Height = hASIC
	sim.Net.HardforkASIC.OakTime = 10 * time.Minute
	sim.Net.HardforkASIC.OakTarget = sim.Net.InitialTarget
	return sim
}

// netOf gives the activation heights as small numbers (TLC integers are 32-bit; "never" is 2^30).
func netOf(n *consensus.Network) map[string]int {
	small := func(h uint64) int {
		if h > 1<<30 {
			return 1 << 30
		}
		return int(h)
	}
	return map[string]int{"asic": small(n.HardforkASIC.Height), "foundation": small(n.HardforkFoundation.Height), "v2allow": small(n.HardforkV2.AllowHeight)}
}

func stateOf(st consensus.State) eraState {
	return eraState{name: eraOfHeight(st.Index.Height), st: st, height: int(st.Index.Height), net: netOf(st.Network)}
}

// mine applies one block holding the given transactions; it fails the run when the honest block is refused.
func mine(c *vlib.Ctx, sim *chain.Sim, v1 []types.Transaction, v2 []types.V2Transaction) bool {
	bs := sim.Supplement(v1)
	b := sim.Seal(v1, v2)
	if err, pan := sim.Validate(b, bs); err != nil || pan != nil {
		c.Infra("era chain: honest block at height %d refused: %v %v", sim.CS.Index.Height+1, err, pan)
		return false
	}
	sim.Apply(b, bs)
	return true
}

func genSC(sim *chain.Sim, i int) types.SiacoinElement {
	id, _ := sim.Real(chain.SID{chain.SCO, 0, 0, i, 0})
	return sim.Store.SC[types.SiacoinOutputID(id)].Copy()
}

func genSF(sim *chain.Sim, i int) types.SiafundElement {
	id, _ := sim.Real(chain.SID{chain.SFO, 0, 0, i, 0})
	return sim.Store.SF[types.SiafundOutputID(id)].Copy()
}

// signV1 signs every signature slot of txn with key sk under the signature hashes of state st.
func signV1(st consensus.State, txn *types.Transaction, sk types.PrivateKey) {
	for i := range txn.Signatures {
		sg := &txn.Signatures[i]
		var h types.Hash256
		if sg.CoveredFields.WholeTransaction {
			h = st.WholeSigHash(*txn, sg.ParentID, sg.PublicKeyIndex, sg.Timelock, sg.CoveredFields.Signatures)
		} else {
			h = st.PartialSigHash(*txn, sg.CoveredFields)
		}
		s := sk.SignHash(h)
		sg.Signature = s[:]
	}
}

type replayStats struct {
	controls, rejected int
	attempts           int // cross-era validations run (refused or, wrongly, accepted)
	byPair             map[string]int
	purposeControls    int
	purposeRejected    map[string]int
}

// validV1 validates a block holding one v1 transaction on the tip of sim.
func validV1(sim *chain.Sim, txn types.Transaction) (ok bool, detail string) {
	v1 := []types.Transaction{txn}
	err, pan := sim.Validate(sim.Seal(v1, nil), sim.Supplement(v1))
	if pan != nil {
		return false, fmt.Sprint("panic: ", pan)
	}
	if err != nil {
		return false, err.Error()
	}
	return true, ""
}

func validV2(sim *chain.Sim, txn types.V2Transaction) (ok bool, detail string) {
	err, pan := sim.Validate(sim.Seal(nil, []types.V2Transaction{txn}), sim.Supplement(nil))
	if pan != nil {
		return false, fmt.Sprint("panic: ", pan)
	}
	if err != nil {
		return false, err.Error()
	}
	return true, ""
}

// eraReplay runs at the tip of sim (era j): v1 transactions of several shapes signed under the signature hashes of era j
// are accepted (control); the same transactions signed under the hashes of any other era k must be refused by the real
// ValidateBlock. next hands out unused genesis outputs.
func (k *checker) eraReplay(sim *chain.Sim, rs *replayStats, nextSC, nextSF func() int) (apply []types.Transaction) {
	c := k.c
	A := sim.K.SK("A")
	uc := sim.K.UC("A")
	here := eraOfHeight(sim.CS.Index.Height)
	whole := func(parent types.Hash256) types.TransactionSignature {
		return types.TransactionSignature{ParentID: parent, CoveredFields: types.CoveredFields{WholeTransaction: true}}
	}
	type shape struct {
		name string
		txn  types.Transaction
	}
	var shapes []shape
	{ // siacoin input, whole transaction
		e := genSC(sim, nextSC())
		shapes = append(shapes, shape{"siacoin-whole", types.Transaction{
			SiacoinInputs:  []types.SiacoinInput{{ParentID: e.ID, UnlockConditions: uc}},
			SiacoinOutputs: []types.SiacoinOutput{{Value: e.SiacoinOutput.Value.Sub(types.NewCurrency64(10)), Address: sim.K.Addr("B")}},
			MinerFees:      []types.Currency{types.NewCurrency64(10)},
			Signatures:     []types.TransactionSignature{whole(types.Hash256(e.ID))}}})
	}
	{ // siafund input only, whole transaction
		e := genSF(sim, nextSF())
		shapes = append(shapes, shape{"siafund-whole", types.Transaction{
			SiafundInputs:  []types.SiafundInput{{ParentID: e.ID, UnlockConditions: uc, ClaimAddress: sim.K.Addr("B")}},
			SiafundOutputs: []types.SiafundOutput{{Value: e.SiafundOutput.Value, Address: sim.K.Addr("B")}},
			Signatures:     []types.TransactionSignature{whole(types.Hash256(e.ID))}}})
	}
	{ // siacoin input, covered fields listed one by one
		e := genSC(sim, nextSC())
		shapes = append(shapes, shape{"siacoin-partial", types.Transaction{
			SiacoinInputs:  []types.SiacoinInput{{ParentID: e.ID, UnlockConditions: uc}},
			SiacoinOutputs: []types.SiacoinOutput{{Value: e.SiacoinOutput.Value.Sub(types.NewCurrency64(7)), Address: sim.K.Addr("B")}},
			MinerFees:      []types.Currency{types.NewCurrency64(7)},
			Signatures: []types.TransactionSignature{{ParentID: types.Hash256(e.ID),
				CoveredFields: types.CoveredFields{SiacoinInputs: []uint64{0}, SiacoinOutputs: []uint64{0}, MinerFees: []uint64{0}}}}}})
	}
	{ // siafund input only, covered fields listed one by one
		e := genSF(sim, nextSF())
		shapes = append(shapes, shape{"siafund-partial", types.Transaction{
			SiafundInputs:  []types.SiafundInput{{ParentID: e.ID, UnlockConditions: uc, ClaimAddress: sim.K.Addr("B")}},
			SiafundOutputs: []types.SiafundOutput{{Value: e.SiafundOutput.Value, Address: sim.K.Addr("B")}},
			Signatures: []types.TransactionSignature{{ParentID: types.Hash256(e.ID),
				CoveredFields: types.CoveredFields{SiafundInputs: []uint64{0}, SiafundOutputs: []uint64{0}}}}}})
	}
	for _, sh := range shapes {
		txn := sh.txn
		signV1(sim.CS, &txn, A)
		if ok, why := validV1(sim, txn); !ok {
			c.Infra("era replay: control %s refused in era %s: %s", sh.name, here, why)
			continue
		}
		rs.controls++
		apply = append(apply, txn)
		for _, other := range []uint64{1, hASIC + 1, hFoundation + 1, hV2Allow + 1} {
			if eraOfHeight(other) == here {
				continue
			}
			foreign := sim.CS
			foreign.Index.Height = other
			t2 := sh.txn
			t2.Signatures = append([]types.TransactionSignature{}, sh.txn.Signatures...)
			signV1(foreign, &t2, A)
			pair := eraOfHeight(other) + "->" + here
			rs.attempts++
			if ok, _ := validV1(sim, t2); ok {
				c.Violation("replay/v1-era/"+sh.name, fmt.Sprintf("a v1 transaction (%s) signed under the signature hash of era %s is accepted by ValidateBlock in era %s (%s)", sh.name, eraOfHeight(other), here, pair),
					map[string]any{"shape": sh.name, "signed_in": eraOfHeight(other), "validated_in": here, "height": sim.CS.Index.Height, "transaction": fmt.Sprintf("%+v", t2)})
			} else {
				rs.rejected++
				rs.byPair[pair]++
			}
		}
	}
	return apply
}

func raw(v any) json.RawMessage { b, _ := json.Marshal(v); return b }

// purposeReplay runs on a v2 tip: a signature made for one purpose (input, contract, renewal, attestation, or over the
// transaction's ID) by the right key, placed where a signature for another purpose is expected, must be refused.
func (k *checker) purposeReplay(sim *chain.Sim, rs *replayStats, nextSC func() int) {
	c := k.c
	K := sim.K
	cur := types.NewCurrency64
	contract := func(ph, eh uint64) types.V2FileContract {
		return types.V2FileContract{Capacity: 256, Filesize: 200, ProofHeight: ph, ExpirationHeight: eh,
			RenterOutput: types.SiacoinOutput{Value: cur(250024), Address: K.Addr("A")}, HostOutput: types.SiacoinOutput{Value: cur(25), Address: K.Addr("B")},
			MissedHostValue: cur(19), TotalCollateral: cur(12), RenterPublicKey: K.PK("A"), HostPublicKey: K.PK("B")}
	}
	cost := func(fc types.V2FileContract) types.Currency {
		return fc.RenterOutput.Value.Add(fc.HostOutput.Value).Add(sim.CS.V2FileContractTax(fc))
	}
	h0 := sim.CS.Index.Height
	// ---- formation + attestation + input, all signed by key A -------------------------------------------
	e := genSC(sim, nextSC())
	fc := contract(h0+20, h0+25)
	base := types.V2Transaction{
		SiacoinInputs:  []types.V2SiacoinInput{{Parent: e, SatisfiedPolicy: types.SatisfiedPolicy{Policy: K.Policy("A")}}},
		SiacoinOutputs: []types.SiacoinOutput{{Value: e.SiacoinOutput.Value.Sub(cost(fc)), Address: K.Addr("A")}},
		FileContracts:  []types.V2FileContract{fc},
		Attestations:   []types.Attestation{{PublicKey: K.PK("A"), Key: "purpose", Value: []byte("binding")}},
	}
	type slot struct {
		name string
		set  func(t *types.V2Transaction, h types.Hash256) // signs h with the slot's key and places the signature
	}
	signAll := func(t *types.V2Transaction) {
		f := &t.FileContracts[0]
		ch := sim.CS.ContractSigHash(*f)
		f.RenterSignature, f.HostSignature = K.SK("A").SignHash(ch), K.SK("B").SignHash(ch)
		t.Attestations[0].Signature = K.SK("A").SignHash(sim.CS.AttestationSigHash(t.Attestations[0]))
		t.SiacoinInputs[0].SatisfiedPolicy.Signatures = []types.Signature{K.SK("A").SignHash(sim.CS.InputSigHash(*t))}
	}
	clone := func(t types.V2Transaction) types.V2Transaction { return t.DeepCopy() }
	ctl := clone(base)
	signAll(&ctl)
	if ok, why := validV2(sim, ctl); !ok {
		c.Infra("purpose replay: control transaction refused: %s", why)
		return
	}
	rs.purposeControls++
	ren0 := types.V2FileContractRenewal{FinalRenterOutput: fc.RenterOutput, FinalHostOutput: fc.HostOutput, NewContract: fc}
	hashes := map[string]func(t *types.V2Transaction) types.Hash256{
		"input":       func(t *types.V2Transaction) types.Hash256 { return sim.CS.InputSigHash(*t) },
		"contract":    func(t *types.V2Transaction) types.Hash256 { return sim.CS.ContractSigHash(t.FileContracts[0]) },
		"attestation": func(t *types.V2Transaction) types.Hash256 { return sim.CS.AttestationSigHash(t.Attestations[0]) },
		"renewal":     func(t *types.V2Transaction) types.Hash256 { return sim.CS.RenewalSigHash(ren0) },
		"txid":        func(t *types.V2Transaction) types.Hash256 { return types.Hash256(t.ID()) },
	}
	slots := []slot{
		{"input", func(t *types.V2Transaction, h types.Hash256) {
			t.SiacoinInputs[0].SatisfiedPolicy.Signatures = []types.Signature{K.SK("A").SignHash(h)}
		}},
		{"contract", func(t *types.V2Transaction, h types.Hash256) {
			t.FileContracts[0].RenterSignature = K.SK("A").SignHash(h)
		}},
		{"attestation", func(t *types.V2Transaction, h types.Hash256) { t.Attestations[0].Signature = K.SK("A").SignHash(h) }},
	}
	for _, sl := range slots {
		for _, purpose := range sortedKeys(hashes) {
			if purpose == sl.name {
				continue
			}
			t := clone(base)
			signAll(&t)
			sl.set(&t, hashes[purpose](&t))
			if sl.name != "input" { // the input signature is made last, over the final transaction
				t.SiacoinInputs[0].SatisfiedPolicy.Signatures = []types.Signature{K.SK("A").SignHash(sim.CS.InputSigHash(t))}
			}
			pair := purpose + "-as-" + sl.name
			if ok, _ := validV2(sim, t); ok {
				c.Violation("replay/v2-purpose/"+pair, fmt.Sprintf("a signature by the right key over the %s hash is accepted as %s signature", purpose, sl.name),
					map[string]any{"pair": pair, "transaction": fmt.Sprintf("%+v", t)})
			} else {
				rs.purposeRejected[pair]++
			}
		}
	}
	// ---- renewal: the renter key signs the new contract (contract purpose) and the renewal (renewal purpose) ------
	if !mine(c, sim, nil, []types.V2Transaction{ctl}) {
		return
	}
	fcid := ctl.V2FileContractID(ctl.ID(), 0)
	fce, ok := sim.Store.V2FC[fcid]
	if !ok {
		c.Infra("purpose replay: formed contract not in the store")
		return
	}
	fce = fce.Copy()
	old := fce.V2FileContract
	nc := contract(h0+40, h0+45)
	e2 := genSC(sim, nextSC())
	need := cost(nc).Sub(cur(1000))
	mk := func() (types.V2Transaction, *types.V2FileContractRenewal) {
		ren := &types.V2FileContractRenewal{
			FinalRenterOutput: types.SiacoinOutput{Value: old.RenterOutput.Value.Sub(cur(1000)), Address: old.RenterOutput.Address},
			FinalHostOutput:   types.SiacoinOutput{Value: old.HostOutput.Value, Address: old.HostOutput.Address},
			RenterRollover:    cur(1000), NewContract: nc}
		t := types.V2Transaction{
			SiacoinInputs:           []types.V2SiacoinInput{{Parent: e2.Copy(), SatisfiedPolicy: types.SatisfiedPolicy{Policy: K.Policy("A")}}},
			SiacoinOutputs:          []types.SiacoinOutput{{Value: e2.SiacoinOutput.Value.Sub(need), Address: K.Addr("A")}},
			FileContractResolutions: []types.V2FileContractResolution{{Parent: fce.Copy(), Resolution: ren}},
		}
		ch := sim.CS.ContractSigHash(ren.NewContract)
		ren.NewContract.RenterSignature, ren.NewContract.HostSignature = K.SK("A").SignHash(ch), K.SK("B").SignHash(ch)
		rh := sim.CS.RenewalSigHash(*ren)
		ren.RenterSignature, ren.HostSignature = K.SK("A").SignHash(rh), K.SK("B").SignHash(rh)
		t.SiacoinInputs[0].SatisfiedPolicy.Signatures = []types.Signature{K.SK("A").SignHash(sim.CS.InputSigHash(t))}
		return t, ren
	}
	rctl, _ := mk()
	if ok, why := validV2(sim, rctl); !ok {
		c.Infra("purpose replay: control renewal refused: %s", why)
		return
	}
	rs.purposeControls++
	type tamper struct {
		name string
		f    func(t *types.V2Transaction, ren *types.V2FileContractRenewal)
	}
	for _, tm := range []tamper{
		{"contract-as-renewal", func(t *types.V2Transaction, ren *types.V2FileContractRenewal) {
			ren.RenterSignature = ren.NewContract.RenterSignature // same key, made for the new contract
		}},
		{"renewal-as-contract", func(t *types.V2Transaction, ren *types.V2FileContractRenewal) {
			ren.NewContract.RenterSignature = ren.RenterSignature
		}},
		{"input-as-renewal", func(t *types.V2Transaction, ren *types.V2FileContractRenewal) {
			ren.RenterSignature = t.SiacoinInputs[0].SatisfiedPolicy.Signatures[0]
		}},
		{"renewal-as-input", func(t *types.V2Transaction, ren *types.V2FileContractRenewal) {
			t.SiacoinInputs[0].SatisfiedPolicy.Signatures = []types.Signature{ren.RenterSignature}
		}},
		{"old-contract-as-renewal", func(t *types.V2Transaction, ren *types.V2FileContractRenewal) {
			ren.RenterSignature = old.RenterSignature // the renter's signature over the contract being renewed
		}},
	} {
		t, ren := mk()
		tm.f(&t, ren)
		if ok, _ := validV2(sim, t); ok {
			c.Violation("replay/v2-purpose/"+tm.name, fmt.Sprintf("renewal: a signature made for another purpose is accepted (%s)", tm.name),
				map[string]any{"pair": tm.name, "transaction": fmt.Sprintf("%+v", t)})
		} else {
			rs.purposeRejected[tm.name]++
		}
	}
}
