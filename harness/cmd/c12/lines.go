package main

import (
	"encoding/hex"
	"encoding/json"
	"fmt"
	"regexp"
	"sort"
	"strconv"
	"strings"
	"sync"
	"time"

	"golang.org/x/crypto/blake2b"

	"go.sia.tech/core/types"
	"verif/harness/vlib"
	wb "verif/harness/wirebridge"
)

// A line is one request of direction B: the kind of identifier / signature hash, the abstract value(s)
// it is derived from (what TLC receives) and the hash the real code returned for the same object.
type line struct {
	kind string
	ev   map[string]any // the logged request (kind, v, id, i, height, net, ...)
	got  types.Hash256  // what the code under test returned
	redo func() types.Hash256
	// diag names the members responsible for a disagreement (stable keys), by single-leaf mutation on the real code
	diag func() []string
	src  string // where the value came from (random / chain / mutant ...)
	era  string // for signature hashes: the era of the state
	// mutant lines: index of the base line, the mutated leaf, whether the real hash changed
	mutant   bool
	canary   bool // a corrupted copy of a real request: must NOT agree with the code's hash
	base     int
	leaf     string
	codeDiff bool
	payload  map[string]any

	term    any    // TLC's answer (parsed JSON)
	termTxt string // ... as text (for comparing pre-images)
}

type checker struct {
	c  *vlib.Ctx
	s  wb.Schema
	mu sync.Mutex

	lines []*line
	seen  map[string]int // requests already logged (canonical JSON) -> line index

	// coverage
	kindLines   map[string]int
	kindAgree   map[string]int
	eraLines    map[string]int
	eraCalls    map[string]int // v2 signature hashes: calls of the code per era (one pre-image for all eras)
	srcLines    map[string]int
	mutEffect   map[string]int // kind -> single-leaf mutations of effect-bearing members
	mutWitness  map[string]int // kind -> single-leaf mutations of witness members
	mutPatterns map[string]map[string]string
	mutSkipped  int
	dynCovered  map[string]int // v1 signature hashes: mutations the spec says change the pre-image
	dynUncov    map[string]int
	tlcWall     time.Duration
	tlcLines    int
	canaries    int
	canariesBad int
}

func newChecker(c *vlib.Ctx, s wb.Schema) *checker {
	return &checker{c: c, s: s, seen: map[string]int{}, kindLines: map[string]int{}, kindAgree: map[string]int{}, eraLines: map[string]int{}, eraCalls: map[string]int{},
		srcLines: map[string]int{}, mutEffect: map[string]int{}, mutWitness: map[string]int{}, mutPatterns: map[string]map[string]string{},
		dynCovered: map[string]int{}, dynUncov: map[string]int{}}
}

// add logs a request; duplicates (same kind and arguments) are logged once. It returns the index of the line (or of
// the earlier identical one).
func (k *checker) add(l *line) int {
	l.ev["kind"] = l.kind
	js, err := json.Marshal(l.ev)
	if err != nil {
		k.c.Infra("cannot serialise a request of kind %s: %v", l.kind, err)
		return -1
	}
	key := string(js)
	k.mu.Lock()
	defer k.mu.Unlock()
	if i, ok := k.seen[key]; ok && !l.mutant {
		return i
	}
	k.lines = append(k.lines, l)
	k.seen[key] = len(k.lines) - 1
	return len(k.lines) - 1
}

// ---------------------------------------------------------------------------
// terms

// evalTerm evaluates a term printed by TLC: numbers are bytes, {"h": term} is the BLAKE2b-256 hash of the inner term.
func evalTerm(t any) ([]byte, error) {
	seq, ok := t.([]any)
	if !ok {
		return nil, fmt.Errorf("term is not a sequence: %v", t)
	}
	out := make([]byte, 0, len(seq))
	for _, e := range seq {
		switch x := e.(type) {
		case float64:
			if x < 0 || x > 255 || x != float64(int(x)) {
				return nil, fmt.Errorf("term holds a non-byte %v", x)
			}
			out = append(out, byte(x))
		case map[string]any:
			in, ok := x["h"]
			if !ok || len(x) != 1 {
				return nil, fmt.Errorf("term holds an unknown node %v", x)
			}
			b, err := evalTerm(in)
			if err != nil {
				return nil, err
			}
			h := blake2b.Sum256(b)
			out = append(out, h[:]...)
		case string:
			return nil, fmt.Errorf("the specification could not lay the value out: %q", x)
		default:
			return nil, fmt.Errorf("term holds %T", e)
		}
	}
	return out, nil
}

// preimageLen is the length of the outermost hashed byte string (for the evidence samples).
func preimageLen(t any) int {
	if seq, ok := t.([]any); ok && len(seq) == 1 {
		if m, ok := seq[0].(map[string]any); ok {
			if in, ok := m["h"].([]any); ok {
				n := 0
				for _, e := range in {
					if _, isNode := e.(map[string]any); isNode {
						n += 32
					} else {
						n++
					}
				}
				return n
			}
		}
	}
	return 0
}

// ---------------------------------------------------------------------------
// TLC

// evaluate sends all logged requests to TLC (spec/wire/SemanticsTrace) and stores the answers.
func (k *checker) evaluate() {
	c := k.c
	lines := k.lines
	const chunk = 16
	const batch = 6000
	t0 := time.Now()
	for lo := 0; lo < len(lines); lo += batch {
		hi := lo + batch
		if hi > len(lines) {
			hi = len(lines)
		}
		events := make([]map[string]any, 0, hi-lo)
		for _, l := range lines[lo:hi] {
			events = append(events, l.ev)
		}
		res, err := c.TLC(vlib.TLCOpts{SpecDirs: []string{"wire"}, Module: "SemanticsTrace", Config: "SemanticsTrace.cfg",
			Files: map[string][]byte{"trace.ndjson": vlib.NDJSON(events)}, Workers: c.Pick(12, 8), Timeout: 30 * time.Minute, Xss: "256m"})
		if err != nil {
			c.Fatal("evaluation of the pre-images: %v", err)
		}
		if res.Violated != "" {
			c.Fatal("Semantics failed to evaluate: %s", vlib.Tail(res.Out, 2500))
		}
		n := hi - lo
		want := int64(1 + (n+chunk-1)/chunk + n)
		if res.Distinct != want {
			c.Fatal("trace not fully consumed: %d states, expected %d\n%s", res.Distinct, want, vlib.Tail(res.Out, 800))
		}
		got := 0
		for _, ln := range res.Lines {
			if !strings.HasPrefix(ln, "PRE ") {
				continue
			}
			f := strings.SplitN(ln, " ", 3)
			idx, aerr := strconv.Atoi(f[1])
			if aerr != nil || len(f) != 3 || idx < 1 || idx > n {
				c.Infra("bad answer line %.80q", ln)
				continue
			}
			l := lines[lo+idx-1]
			txt := vlib.UnquoteTLA(f[2])
			var term any
			if err := json.Unmarshal([]byte(txt), &term); err != nil {
				c.Infra("answer %d does not parse: %v", idx, err)
				continue
			}
			if l.term == nil {
				got++
			}
			l.term, l.termTxt = term, txt
		}
		if got != n {
			c.Fatal("TLC answered %d of %d requests", got, n)
		}
	}
	k.tlcWall += time.Since(t0)
	k.tlcLines += len(lines)
}

var idxRe = regexp.MustCompile(`\[\d+\]`)
var varRe = regexp.MustCompile(`<[A-Za-z0-9]+>`)

func pattern(p string) string { return idxRe.ReplaceAllString(p, "[]") }

// fieldKey turns a leaf path into the last member's name in kebab case: SiafundInputs[0].ClaimAddress -> claim-address.
func fieldKey(path string) string {
	p := varRe.ReplaceAllString(pattern(path), "")
	parts := strings.Split(p, ".")
	last := parts[len(parts)-1]
	last = strings.ReplaceAll(last, "[]", "")
	last = strings.ReplaceAll(last, "#", "-")
	var sb strings.Builder
	for i, ch := range last {
		if ch >= 'A' && ch <= 'Z' {
			if i > 0 && last[i-1] != '-' && !(last[i-1] >= 'A' && last[i-1] <= 'Z') && !(last[i-1] >= '0' && last[i-1] <= '9') {
				sb.WriteByte('-')
			}
			sb.WriteRune(ch + 32)
		} else {
			sb.WriteRune(ch)
		}
	}
	return sb.String()
}

// judge compares every answer with what the real code returned.
func (k *checker) judge() {
	c := k.c
	reported := map[string]bool{}
	for i, l := range k.lines {
		if l.canary {
			if val, err := evalTerm(l.term); err == nil && len(val) == 32 && types.Hash256(val) == l.got {
				k.canariesBad++
			}
			continue
		}
		k.kindLines[l.kind]++
		k.srcLines[l.src]++
		if l.era != "" {
			k.eraLines[l.kind+"@"+l.era]++
		}
		val, err := evalTerm(l.term)
		if err != nil {
			c.Infra("line %d (%s, %s): %v", i+1, l.kind, l.src, err)
			continue
		}
		if len(val) != 32 {
			c.Infra("line %d (%s): the specification's value has %d bytes", i+1, l.kind, len(val))
			continue
		}
		if types.Hash256(val) == l.got {
			k.kindAgree[l.kind]++
		} else {
			// reproduce on the real code
			if l.redo != nil {
				if again := l.redo(); again != l.got {
					c.Infra("line %d (%s): the logged hash does not reproduce", i+1, l.kind)
					continue
				}
			}
			var keys []string
			if l.diag != nil {
				keys = l.diag()
			}
			if len(keys) == 0 {
				keys = []string{l.kind + "/preimage-mismatch"}
			}
			for _, key := range keys {
				if reported[key] {
					continue
				}
				reported[key] = true
				p := map[string]any{"kind": l.kind, "source": l.src, "code_hash": hex.EncodeToString(l.got[:]), "spec_hash": hex.EncodeToString(val),
					"spec_preimage_term": l.term, "request": l.ev}
				for a, b := range l.payload {
					p[a] = b
				}
				c.Violation(key, fmt.Sprintf("%s: the code's hash %x is not the hash of the pre-image the specification prescribes (%x); responsible member class: %s", l.kind, l.got[:6], val[:6], key), p)
			}
		}
		// mutant lines: the real hash changes iff the specification's pre-image changes
		if l.mutant && l.base >= 0 {
			b := k.lines[l.base]
			specDiff := b.termTxt != l.termTxt
			if specDiff {
				k.dynCovered[l.kind]++
			} else {
				k.dynUncov[l.kind]++
			}
			if specDiff != l.codeDiff {
				what := "not-bound"
				if l.codeDiff {
					what = "witness-bound"
				}
				key := l.kind + "/" + fieldKey(l.leaf) + "-" + what
				if !reported[key] {
					reported[key] = true
					c.Violation(key, fmt.Sprintf("%s: changing %s alone changes the pre-image: %v, changes the code's hash: %v", l.kind, l.leaf, specDiff, l.codeDiff),
						map[string]any{"kind": l.kind, "leaf": l.leaf, "request": l.ev, "base_request": b.ev})
				}
			}
		}
	}
}

func sortedKeys[V any](m map[string]V) []string {
	var ks []string
	for k := range m {
		ks = append(ks, k)
	}
	sort.Strings(ks)
	return ks
}
