package main

import (
	"encoding/hex"
	"encoding/json"
	"math/rand"
	"os"

	"go.sia.tech/core/types"
	"verif/harness/vlib"
	wb "verif/harness/wirebridge"
)

// replay re-executes one saved case on the current tree: the object is rebuilt from its recorded encoding and put
// through every request and mutation of its type (transactions, contracts, renewals, attestations, blocks); cases
// that carry no object (replay across eras / purposes, distinctness) re-run the scripted chain.
func replay(c *vlib.Ctx) {
	rawFile, err := os.ReadFile(c.Replay)
	if err != nil {
		c.Fatal("replay: %v", err)
	}
	var f struct {
		Key  string `json:"key"`
		Case struct {
			Type     string `json:"type"`
			BytesHex string `json:"bytes_hex"`
			BlockHex string `json:"block_hex"`
			Object   string `json:"object_type"` // current content: the catalogue type of the saved object
			History  []struct {
				Goroutine int    `json:"goroutine"`
				Entry     string `json:"entry"`
			} `json:"history"`
		} `json:"case"`
	}
	if err := json.Unmarshal(rawFile, &f); err != nil {
		c.Fatal("replay: %v", err)
	}
	c.Rule("replay of one saved case")
	schema := loadSchema(c)
	k := newChecker(c, schema)
	r := rand.New(rand.NewSource(c.Seed))
	sim := newEraSim()
	var eras []eraState
	rs := &replayStats{byPair: map[string]int{}, purposeRejected: map[string]int{}}
	nsc, nsf := 0, 0
	for sim.CS.Index.Height <= hV2Allow+1 {
		var v1 []types.Transaction
		switch sim.CS.Index.Height {
		case 1, hASIC + 1, hFoundation + 1, hV2Allow + 1:
			eras = append(eras, stateOf(sim.CS))
			v1 = k.eraReplay(sim, rs, func() int { nsc++; return nsc }, func() int { nsf++; return nsf })
		}
		if !mine(c, sim, v1, nil) {
			c.Finish()
		}
	}
	k.purposeReplay(sim, rs, func() int { nsc++; return nsc })
	if f.Case.Type == "PureHistory" {
		replayPureHistory(c, k, f.Case.History)
	}
	// the states blocks are judged on: the era chain and the fixed behaviours
	var hvs []harvested
	for _, a := range sim.Chain {
		hvs = append(hvs, harvested{a.Prev, a.Block, a.Supp, "replay"})
	}
	fixedBlocks, _ := runFixed(c)
	hvs = append(hvs, fixedBlocks...)
	var cur *current
	t := wb.TypeByName(f.Case.Type)
	bs, herr := hex.DecodeString(f.Case.BytesHex)
	if t != nil && herr == nil && len(bs) > 0 {
		ptr, _, derr, pan := t.SafeDecode(bs)
		if derr != nil || pan != nil {
			c.Fatal("replay: the recorded encoding does not decode: %v %v", derr, pan)
		}
		if f.Case.Object != "" {
			cur = replayCurrent(c, k, f.Case.Object, ptr, eras, hvs)
		}
		switch v := ptr.(type) {
		case *types.Transaction:
			k.v1Lines(v, "replay", r, 1<<20, 4)
			for j := range v.Signatures {
				k.v1SigLines(v, j, eras, "replay", r, 8)
			}
		case *types.V2Transaction:
			k.v2Lines(v, "replay", eras, r, 1<<20, 4)
		case *types.V2FileContract:
			k.semObjectLines(hContractSig, "Sem_V2FileContract", "V2FileContract", v, eras, "replay", r, 1<<20, 2)
		case *types.V2FileContractRenewal:
			k.semObjectLines(hRenewalSig, "Sem_V2FileContractRenewal", "V2FileContractRenewal", v, eras, "replay", r, 1<<20, 2)
		case *types.Attestation:
			k.semObjectLines(hAttestationSig, "Sem_Attestation", "Attestation", v, eras, "replay", r, 1<<20, 2)
		case *types.V2Block:
			// the block is logged against the state it names as parent only when the era chain holds that state
			b := types.Block(*v)
			for _, a := range hvs {
				if a.prev.Index.ID == b.ParentID {
					hv := harvested{a.prev, b, a.supp, "replay"}
					k.blockLines(hv, r, true, eras, 1<<20, 2)
					k.blockMutations(hv, r, 1<<20, &blockMutStats{byEra: map[string]map[string]int{}, patterns: map[string]string{}, unboundPatterns: map[string]int{}})
				}
			}
		}
	}
	k.evaluate()
	k.judge()
	if cur != nil {
		cur.report()
	}
	c.Count(int64(len(k.lines)), int64(len(k.lines)))
	c.Finish()
}
