package main

// Current content: every identifier / signature hash is a function of the content its argument has NOW, whatever was
// computed from the argument before it was changed.
//
//	spec/wire/SemanticsCurrent.tla  an object in memory is its members plus whatever an implementation carries along
//	                                (a memo beside the members); uses (every hash function of the object, its encoder,
//	                                its validator), changes in the forms memory admits (an element of a list overwritten
//	                                in place, a scalar member overwritten, a list replaced by another of the same length,
//	                                a list cut or grown), struct copies.  Requirement Current: every use returns the value
//	                                of the content the object has at that moment.  TLC checks the disciplines (a memo
//	                                keyed on the content holds; keyed on store and length must be refuted) and enumerates
//	                                every history over the catalogue of REAL object types in which a use is followed by
//	                                a change.
//	here                            the catalogue (object types with the functions core offers on them), the objects
//	                                (generated with every member filled, and real ones of accepted blocks), the replay
//	                                of every history, and the comparison of EVERY observation with the value of a fresh
//	                                copy of the same content (wirebridge.Fresh: nothing was ever computed from it) - which
//	                                in turn is compared with the BLAKE2b-256 of the pre-image Semantics!Value prescribes
//	                                (judge).  For blocks additionally the property's own wording: a later change that
//	                                leaves Block.ID() as it was must be refused by ValidateBlock.

import (
	"crypto/sha256"
	"encoding/hex"
	"encoding/json"
	"fmt"
	"hash/fnv"
	"math/rand"
	"reflect"
	"sort"
	"strings"
	"sync"
	"time"

	"go.sia.tech/core/consensus"
	"go.sia.tech/core/types"
	"verif/harness/vlib"
	wb "verif/harness/wirebridge"
)

var curModes = []string{"write-element", "write-scalar", "replace", "resize"}

// curUse is one thing the code offers on an object: a hash function of the Semantics catalogue (kind != ""), or a use
// that only may leave something behind (encoder, validator).
type curUse struct {
	name    string
	kind    string
	call    func(o *curObj, p any) types.Hash256
	req     func(k *checker, o *curObj, p any) map[string]any
	defined func(p any) bool
	hk      *hashKind // for the diagnosis of a disagreement between a fresh copy and the pre-image
	sem     string
	era     string
}

type curObj struct {
	ptr  any // never modified, never hashed
	src  string
	hv   *harvested // blocks: the state they were accepted on
	sabs any        // blocks: the abstract parent state
	e    *eraState  // v1 transactions: the era of the signature hashes
}

type curType struct {
	name  string // name in the catalogue TLC reads
	line  string // the schema line walked for the changes
	sem   string // the semantic line of the type ("": every member is bound by every function of the type)
	wire  string // registered wire type (payloads)
	uses  []curUse
	modes []string
	objs  []*curObj
	block string // "v1-block" | "v2-block": the closing observation includes the property's block clause
}

type curExpect struct {
	want      types.Hash256
	line      int
	undefined bool // the function is not defined on this content (covered fields beyond the members, a panic on the fresh copy)
	compared  int
	afterUse  bool
}

type curFailure struct {
	t      *curType
	oi     int
	trail  []string // the operations, in words
	use    string   // the observation that disagrees
	kind   string
	mode   string // the last change before it
	prior  string // the last use before that change
	got    types.Hash256
	want   types.Hash256
	pan    any
	line   int
	closes bool
}

type current struct {
	c  *vlib.Ctx
	k  *checker
	mu sync.Mutex // the objects are replayed in parallel; the counters and the expectations are shared

	types []*curType
	gens  []*curGen

	resHolds, resBroken *vlib.TLCResult
	errHolds, errBroken error
	done                chan struct{}

	exp            map[string]*curExpect
	histories      int64
	nontrivial     int64
	obs            int64
	byType         map[string]int
	byMode         map[string]map[string]int // type -> mode -> changes made
	byKind         map[string]int            // kind -> observations compared after a use and a later change
	resized        map[string]int            // cut | grown
	inPlace        int                       // write-element changes verified to keep store and length of the list
	replaced       int                       // replace changes verified to move the list to another store
	skipped        map[string]int            // type/mode -> histories left out because no member of the object admits the change
	witnessChanges map[string]int            // type -> changes that hit a witness
	undefined      int
	failures       []*curFailure
	blockCheck     int // block clause: histories after which the identifier was what it had been
	blockSame      int
	wall           time.Duration
	replay         bool // one saved object: no vacuity guards
}

type curGen struct {
	cfg   string
	len   int
	res   *vlib.TLCResult
	err   error
	count int
}

// ---------------------------------------------------------------------------
// the catalogue

func curCatalogue() []*curType {
	H := func(id [32]byte) types.Hash256 { return types.Hash256(id) }
	tx := func(p any) *types.Transaction { return p.(*types.Transaction) }
	tx2 := func(p any) *types.V2Transaction { return p.(*types.V2Transaction) }
	blk := func(p any) *types.Block { return (*types.Block)(p.(*types.V2Block)) }
	enc := func(name string) curUse {
		return curUse{name: "encode", call: func(o *curObj, p any) types.Hash256 { hexOf(wb.TypeByName(name), p); return types.Hash256{} }}
	}
	sem := func(line string) func(k *checker, o *curObj, p any) map[string]any {
		return func(k *checker, o *curObj, p any) map[string]any { return map[string]any{"v": k.abs(line, p)} }
	}
	semI := func(line string, i int) func(k *checker, o *curObj, p any) map[string]any {
		return func(k *checker, o *curObj, p any) map[string]any { return map[string]any{"v": k.abs(line, p), "i": i} }
	}
	hasSig := func(p any) bool {
		t := tx(p)
		return len(t.Signatures) > 0 && coveredInRange(t, t.Signatures[0].CoveredFields)
	}
	sco, sfo, fc := hV1Sco(0), hV1Sfo(0), hV1Fc(0)
	v1 := &curType{name: "Transaction", line: "Transaction", sem: "Sem_Transaction", wire: "Transaction", modes: []string{"write-element", "replace", "resize"}, uses: []curUse{
		{name: "id", kind: "v1txid", call: func(o *curObj, p any) types.Hash256 { return H(tx(p).ID()) }, req: sem("Sem_Transaction"), hk: &hV1ID, sem: "Sem_Transaction"},
		{name: "fullhash", kind: "v1fullhash", call: func(o *curObj, p any) types.Hash256 { return tx(p).FullHash() }, req: sem("Transaction"), hk: &hV1Full, sem: "Transaction"},
		{name: "leaf", kind: "v1leaf", call: func(o *curObj, p any) types.Hash256 { return tx(p).MerkleLeafHash() }, req: sem("Transaction"), hk: &hV1Leaf, sem: "Transaction"},
		{name: "scoid", kind: "v1scoid", call: func(o *curObj, p any) types.Hash256 { return H(tx(p).SiacoinOutputID(0)) }, req: semI("Sem_Transaction", 0), hk: &sco, sem: "Sem_Transaction"},
		{name: "sfoid", kind: "v1sfoid", call: func(o *curObj, p any) types.Hash256 { return H(tx(p).SiafundOutputID(0)) }, req: semI("Sem_Transaction", 0), hk: &sfo, sem: "Sem_Transaction"},
		{name: "fcid", kind: "v1fcid", call: func(o *curObj, p any) types.Hash256 { return H(tx(p).FileContractID(0)) }, req: semI("Sem_Transaction", 0), hk: &fc, sem: "Sem_Transaction"},
		{name: "whole", kind: "wholesighash", defined: hasSig, call: func(o *curObj, p any) types.Hash256 { return wholeHash(o.e.st, tx(p), 0) },
			req: func(k *checker, o *curObj, p any) map[string]any {
				ev := o.e.ev()
				ev["v"], ev["j"] = k.abs("Transaction", p), 1
				return ev
			}},
		{name: "partial", kind: "partialsighash", defined: hasSig, call: func(o *curObj, p any) types.Hash256 {
			return o.e.st.PartialSigHash(*tx(p), tx(p).Signatures[0].CoveredFields)
		},
			req: func(k *checker, o *curObj, p any) map[string]any {
				ev := o.e.ev()
				cf := tx(p).Signatures[0].CoveredFields
				ev["v"], ev["cf"] = k.abs("Transaction", p), k.abs("CoveredFields", &cf)
				return ev
			}},
		enc("Transaction"),
	}}
	v2 := &curType{name: "V2Transaction", line: "V2Transaction", sem: "Sem_V2Transaction", wire: "V2Transaction", modes: curModes, uses: []curUse{
		{name: "id", kind: "v2txid", call: func(o *curObj, p any) types.Hash256 { return H(tx2(p).ID()) }, req: sem("Sem_V2Transaction"), hk: &hV2ID, sem: "Sem_V2Transaction"},
		{name: "fullhash", kind: "v2fullhash", call: func(o *curObj, p any) types.Hash256 { return tx2(p).FullHash() }, req: sem("V2Transaction"), hk: &hV2Full, sem: "V2Transaction"},
		{name: "leaf", kind: "v2leaf", call: func(o *curObj, p any) types.Hash256 { return tx2(p).MerkleLeafHash() }, req: sem("V2Transaction"), hk: &hV2Leaf, sem: "V2Transaction"},
		{name: "inputsighash", kind: "inputsighash", call: func(o *curObj, p any) types.Hash256 { return o.e.st.InputSigHash(*tx2(p)) }, req: sem("Sem_V2Transaction"), sem: "Sem_V2Transaction"},
		enc("V2Transaction"),
	}}
	validate := curUse{name: "validate", call: func(o *curObj, p any) types.Hash256 {
		if o.hv != nil {
			_ = consensus.ValidateBlock(o.hv.prev, *blk(p), o.hv.supp)
		}
		return types.Hash256{}
	}}
	blockReq := func(k *checker, o *curObj, p any) map[string]any { return map[string]any{"v": k.abs("V2Block", p)} }
	b1 := &curType{name: "Block/v1", line: "V2Block", wire: "V2Block", block: "v1-block", modes: curModes, uses: []curUse{
		{name: "id", kind: "blockid", call: func(o *curObj, p any) types.Hash256 { return H(blk(p).ID()) }, req: blockReq},
		{name: "header", kind: "v1commitment", call: func(o *curObj, p any) types.Hash256 { return blk(p).Header().Commitment }, req: blockReq},
		enc("V2Block"), validate,
	}}
	b2 := &curType{name: "Block/v2", line: "V2Block", wire: "V2Block", block: "v2-block", modes: curModes, uses: []curUse{
		{name: "id", kind: "blockid", call: func(o *curObj, p any) types.Hash256 { return H(blk(p).ID()) }, req: blockReq},
		{name: "header", call: func(o *curObj, p any) types.Hash256 { return H(blk(p).Header().ID()) }},
		{name: "commitment", kind: "v2commitment",
			defined: func(p any) bool { return blk(p).V2 != nil && len(blk(p).MinerPayouts) > 0 },
			call: func(o *curObj, p any) types.Hash256 {
				b := blk(p)
				return o.hv.prev.Commitment(b.MinerPayouts[0].Address, b.Transactions, b.V2Transactions())
			},
			req: func(k *checker, o *curObj, p any) map[string]any {
				b := blk(p)
				m := k.abs("V2Block", p).(map[string]any)
				v2 := m["V2"].([]any)[0].(map[string]any)
				return map[string]any{"s": o.sabs, "id": byteInts(b.MinerPayouts[0].Address[:]), "txns": m["Transactions"], "v2txns": v2["Transactions"]}
			}},
		enc("V2Block"), validate,
	}}
	fcT := &curType{name: "V2FileContract", line: "V2FileContract", sem: "Sem_V2FileContract", wire: "V2FileContract", modes: []string{"write-scalar"}, uses: []curUse{
		{name: "sighash", kind: "contractsighash", call: func(o *curObj, p any) types.Hash256 { return o.e.st.ContractSigHash(*p.(*types.V2FileContract)) }, req: sem("Sem_V2FileContract")},
		enc("V2FileContract"),
	}}
	renT := &curType{name: "V2FileContractRenewal", line: "V2FileContractRenewal", sem: "Sem_V2FileContractRenewal", wire: "V2FileContractRenewal", modes: []string{"write-scalar"}, uses: []curUse{
		{name: "sighash", kind: "renewalsighash", call: func(o *curObj, p any) types.Hash256 { return o.e.st.RenewalSigHash(*p.(*types.V2FileContractRenewal)) }, req: sem("Sem_V2FileContractRenewal")},
		enc("V2FileContractRenewal"),
	}}
	attT := &curType{name: "Attestation", line: "Attestation", sem: "Sem_Attestation", wire: "Attestation", modes: []string{"write-scalar", "write-element", "resize"}, uses: []curUse{
		{name: "sighash", kind: "attestationsighash", call: func(o *curObj, p any) types.Hash256 { return o.e.st.AttestationSigHash(*p.(*types.Attestation)) }, req: sem("Sem_Attestation")},
		enc("Attestation"),
	}}
	polT := &curType{name: "SpendPolicy", line: "SpendPolicy", wire: "SpendPolicy", modes: []string{"write-element", "replace", "resize"}, uses: []curUse{
		{name: "address", kind: "address", call: func(o *curObj, p any) types.Hash256 { return H(p.(*types.SpendPolicy).Address()) }, req: sem("SpendPolicy")},
		enc("SpendPolicy"),
	}}
	hdrT := &curType{name: "BlockHeader", line: "BlockHeader", wire: "BlockHeader", modes: []string{"write-scalar"}, uses: []curUse{
		{name: "id", kind: "headerid", call: func(o *curObj, p any) types.Hash256 { return H(p.(*types.BlockHeader).ID()) },
			req: func(k *checker, o *curObj, p any) map[string]any {
				return map[string]any{"v": headerAbs(*p.(*types.BlockHeader))}
			}},
	}}
	stT := &curType{name: "consensus_State", line: "consensus_State", wire: "consensus_State", modes: []string{"write-scalar", "write-element"}, uses: []curUse{
		{name: "leaf", kind: "commitmentleaf", call: func(o *curObj, p any) types.Hash256 { return p.(*consensus.State).MerkleLeafHash(curMiner) },
			req: func(k *checker, o *curObj, p any) map[string]any {
				sabs, err := wb.AbstractNormalised(k.s, "consensus_State", p)
				if err != nil {
					k.c.Fatal("bridge: %v", err)
				}
				return map[string]any{"s": sabs, "id": byteInts(curMiner[:])}
			}},
		enc("consensus_State"),
	}}
	return []*curType{v1, v2, b1, b2, fcT, renT, attT, polT, hdrT, stT}
}

var curMiner = types.Address(h32(0xc1))

// startCurrent starts TLC (disciplines, histories) in the background; the catalogue does not depend on the objects.
func startCurrent(c *vlib.Ctx, k *checker) *current {
	cu := &current{c: c, k: k, types: curCatalogue(), exp: map[string]*curExpect{}, byType: map[string]int{}, byMode: map[string]map[string]int{},
		byKind: map[string]int{}, resized: map[string]int{}, skipped: map[string]int{}, witnessChanges: map[string]int{}, done: make(chan struct{})}
	var cat []map[string]any
	for _, t := range cu.types {
		var uses []string
		for _, u := range t.uses {
			uses = append(uses, u.name)
		}
		if len(uses) >= 100 {
			c.Fatal("current content: %s has %d uses (the history encoding holds 99)", t.name, len(uses))
		}
		cat = append(cat, map[string]any{"name": t.name, "uses": uses, "modes": t.modes})
	}
	files := map[string][]byte{"current.ndjson": vlib.NDJSON(cat)}
	cu.gens = []*curGen{{cfg: "SemanticsCurrentGen.cfg", len: 3}}
	if c.Thorough {
		cu.gens = []*curGen{{cfg: "SemanticsCurrentGenDeep.cfg", len: 4}}
	}
	go func() {
		defer close(cu.done)
		opts := func(cfg string, workers int, nocount bool) vlib.TLCOpts {
			return vlib.TLCOpts{SpecDirs: []string{"wire"}, Module: "SemanticsCurrent", Config: cfg, Files: files, Workers: workers, Timeout: 10 * time.Minute, NoCount: nocount}
		}
		cu.resHolds, cu.errHolds = c.TLC(opts("SemanticsCurrent.cfg", 1, false))
		cu.resBroken, cu.errBroken = c.TLC(opts("SemanticsCurrentBroken.cfg", 1, true))
		for _, g := range cu.gens {
			g.res, g.err = c.TLC(opts(g.cfg, c.Pick(2, 4), false))
		}
	}()
	return cu
}

// ---------------------------------------------------------------------------
// objects

// curRich generates a value with every member filled.
func curRich(r *rand.Rand, t reflect.Type) any {
	g := wb.NewGen(r)
	g.Budget = 40
	return g.New(t, wb.Max).Interface()
}

func (cu *current) objects(r *rand.Rand, eras []eraState, blocks []harvested) {
	byName := map[string]*curType{}
	for _, t := range cu.types {
		byName[t.name] = t
	}
	add := func(name string, o *curObj) {
		t := byName[name]
		if len(t.objs) < 3 {
			t.objs = append(t.objs, o)
		}
	}
	v2era := &eras[3]
	// generated: every member filled
	t1 := curRich(r, reflect.TypeOf(types.Transaction{})).(*types.Transaction)
	fixSignatures(r, t1)
	for i := range t1.Signatures {
		t1.Signatures[i].CoveredFields.WholeTransaction = i%2 == 0
	}
	add("Transaction", &curObj{ptr: t1, src: "generated", e: &eras[1]})
	t2 := curRich(r, reflect.TypeOf(types.V2Transaction{})).(*types.V2Transaction)
	t2.SiafundInputs = nil // core's v2 identifier is known not to bind the claim address (F2); real transactions below are taken as they are
	ren := curRich(r, reflect.TypeOf(types.V2FileContractRenewal{})).(*types.V2FileContractRenewal)
	if len(t2.FileContractResolutions) > 0 {
		t2.FileContractResolutions[0].Resolution = ren
	}
	add("V2Transaction", &curObj{ptr: t2, src: "generated", e: v2era})
	if len(t2.FileContracts) > 0 {
		fc := t2.FileContracts[0]
		add("V2FileContract", &curObj{ptr: &fc, src: "generated", e: v2era})
	}
	for _, res := range t2.FileContractResolutions {
		if ren, ok := res.Resolution.(*types.V2FileContractRenewal); ok {
			add("V2FileContractRenewal", &curObj{ptr: wb.Clone(reflect.ValueOf(ren)).Interface(), src: "generated", e: v2era})
		}
	}
	if len(t2.Attestations) > 0 {
		a := t2.Attestations[0]
		add("Attestation", &curObj{ptr: &a, src: "generated", e: v2era})
	}
	var pk types.PublicKey
	r.Read(pk[:])
	uc := types.UnlockConditions{Timelock: 3, PublicKeys: []types.UnlockKey{pk.UnlockKey(), types.PublicKey(h32(0xd1)).UnlockKey()}, SignaturesRequired: 2}
	pol := types.PolicyThreshold(2, []types.SpendPolicy{types.PolicyPublicKey(pk), types.PolicyAbove(7), types.PolicyOpaque(types.PolicyHash(h32(0xd2))),
		types.PolicyThreshold(1, []types.SpendPolicy{types.PolicyHash(h32(0xd3)), {Type: types.PolicyTypeUnlockConditions(uc)}})})
	add("SpendPolicy", &curObj{ptr: &pol, src: "constructed"})
	// real: the richest accepted blocks and their transactions
	weight := func(b *types.Block) int {
		return 3*len(b.Transactions) + 4*len(b.V2Transactions()) + len(b.MinerPayouts)
	}
	order := make([]int, len(blocks))
	for i := range order {
		order[i] = i
	}
	sort.SliceStable(order, func(i, j int) bool { return weight(&blocks[order[i]].block) > weight(&blocks[order[j]].block) })
	// real transactions: one that only pays and one that does more, of each version
	plain1 := func(t *types.Transaction) bool {
		return len(t.FileContracts)+len(t.FileContractRevisions)+len(t.StorageProofs)+len(t.SiafundInputs)+len(t.SiafundOutputs) == 0
	}
	plain2 := func(t *types.V2Transaction) bool {
		return len(t.FileContracts)+len(t.FileContractRevisions)+len(t.FileContractResolutions)+len(t.SiafundInputs)+len(t.SiafundOutputs)+len(t.Attestations) == 0 && t.NewFoundationAddress == nil
	}
	got1, got2 := map[bool]bool{}, map[bool]bool{}
	for _, bi := range order {
		hv := &blocks[bi]
		b := hv.block
		e := stateOf(hv.prev)
		for i := range b.Transactions {
			if t := &b.Transactions[i]; len(t.Signatures) > 0 && len(t.SiacoinOutputs)+len(t.SiafundOutputs)+len(t.FileContracts) > 0 && !got1[plain1(t)] {
				got1[plain1(t)] = true
				txn := *t
				add("Transaction", &curObj{ptr: &txn, src: hv.from, e: &e})
			}
		}
		for i := range b.V2Transactions() {
			if t := &b.V2.Transactions[i]; !got2[plain2(t)] {
				got2[plain2(t)] = true
				txn := *t
				add("V2Transaction", &curObj{ptr: &txn, src: hv.from, e: v2era})
			}
		}
	}
	for _, bi := range order {
		hv := &blocks[bi]
		b := hv.block
		name := "Block/v1"
		if b.V2 != nil {
			name = "Block/v2"
		}
		if len(byName[name].objs) >= 2 || len(b.MinerPayouts) == 0 || len(b.Transactions)+len(b.V2Transactions()) == 0 {
			continue
		}
		o := &curObj{ptr: (*types.V2Block)(&b), src: hv.from, hv: hv}
		if b.V2 != nil {
			st := hv.prev
			sabs, err := wb.AbstractNormalised(cu.k.s, "consensus_State", &st)
			if err != nil {
				cu.c.Fatal("bridge: %v", err)
			}
			o.sabs = sabs
		}
		add(name, o)
		if len(byName["BlockHeader"].objs) < 2 {
			h := b.Header()
			add("BlockHeader", &curObj{ptr: &h, src: hv.from})
		}
		if len(byName["consensus_State"].objs) < 2 && hv.prev.Index.Height > 0 {
			st := hv.prev
			add("consensus_State", &curObj{ptr: &st, src: hv.from})
		}
	}
}

// ---------------------------------------------------------------------------
// changes

var curScalarKinds = map[string]bool{"u8": true, "u64": true, "curv1u64": true, "time": true, "bool": true, "fixed": true, "lfixed": true, "account3": true,
	"bytes": true, "str": true, "curv1": true, "curv2": true}

func curAdmits(mode string, l wb.Leaf) bool {
	if l.Influence != wb.Must {
		return false
	}
	behind := strings.Contains(l.Path, "[") || l.Kind == "bytes"
	switch mode {
	case "write-element", "replace":
		return curScalarKinds[l.Kind] && behind
	case "write-scalar":
		return curScalarKinds[l.Kind] && !behind
	case "resize":
		return l.Kind == "len"
	}
	return false
}

// realloc moves every list (and every pointee) of the content of v to a new store; the content stays what it is.
func realloc(v reflect.Value) {
	v = wb.Settable(v)
	switch v.Kind() {
	case reflect.Slice:
		if v.IsNil() {
			return
		}
		n := reflect.MakeSlice(v.Type(), v.Len(), v.Len())
		reflect.Copy(n, v)
		v.Set(n)
		for i := 0; i < v.Len(); i++ {
			realloc(v.Index(i))
		}
	case reflect.Array:
		if v.Type().Elem().Kind() != reflect.Uint8 {
			for i := 0; i < v.Len(); i++ {
				realloc(v.Index(i))
			}
		}
	case reflect.Ptr:
		if v.IsNil() || v.Type().Elem().Kind() != reflect.Struct || v.Type().String() == "*consensus.Network" {
			return
		}
		n := reflect.New(v.Type().Elem())
		n.Elem().Set(v.Elem())
		v.Set(n)
		realloc(v.Elem())
	case reflect.Struct:
		if v.Type().ConvertibleTo(reflect.TypeOf(time.Time{})) {
			return
		}
		for i := 0; i < v.NumField(); i++ {
			if !wb.IsHidden(v.Type(), i) && v.Type().Field(i).IsExported() {
				realloc(v.Field(i))
			}
		}
	}
}

// topList returns the store and the length of the top-level list member the leaf lies in (ok = false: it lies in none).
func topList(p any, path string) (store uintptr, n int, ok bool) {
	name := path
	if i := strings.IndexAny(name, ".[#<"); i >= 0 {
		name = name[:i]
	}
	f := reflect.ValueOf(p).Elem().FieldByName(name)
	if !f.IsValid() || f.Kind() != reflect.Slice {
		return 0, 0, false
	}
	return f.Pointer(), f.Len(), true
}

func (cu *current) digest(t *curType, p any) string {
	a, err := wb.Abstract(cu.k.s, t.line, p)
	if err != nil {
		cu.c.Fatal("bridge: %v", err)
	}
	js, _ := json.Marshal(a)
	h := sha256.Sum256(js)
	return hex.EncodeToString(h[:12])
}

// change makes one change of the given form to the object; which member is hit is a function of the object's content
// and the form alone (two histories that make the same changes reach the same content, whatever else they do).
func (cu *current) change(t *curType, cur any, dig, mode string, witness bool) (leaf string, ok bool) {
	line := t.line
	if t.sem != "" && !witness {
		line = t.sem // a member under a codec of the semantic line: effect-bearing
	}
	leaves, err := wb.Leaves(cu.k.s, line, cur)
	if err != nil {
		cu.c.Fatal("bridge (leaves of %s): %v", line, err)
	}
	effect := map[string]bool{}
	if witness {
		// a member the layout transmits and the semantic line leaves out: a witness
		sl, err := wb.Leaves(cu.k.s, t.sem, cur)
		if err != nil {
			cu.c.Fatal("bridge (leaves of %s): %v", t.sem, err)
		}
		for _, l := range sl {
			if l.Influence == wb.Must {
				effect[l.Path] = true
			}
		}
	}
	var cands []int
	for i, l := range leaves {
		if curAdmits(mode, l) && !effect[l.Path] {
			cands = append(cands, i)
		}
	}
	if len(cands) == 0 {
		return "", false
	}
	h := fnv.New64a()
	h.Write([]byte(fmt.Sprint(t.name, "|", dig, "|", mode, "|", witness)))
	r := rand.New(rand.NewSource(int64(h.Sum64() >> 1)))
	if mode == "replace" {
		before, _, inList := topList(cur, leaves[cands[0]].Path)
		realloc(reflect.ValueOf(cur).Elem())
		if after, _, _ := topList(cur, leaves[cands[0]].Path); inList && after != before {
			cu.mu.Lock()
			cu.replaced++
			cu.mu.Unlock()
		}
	}
	for try := 0; try < 12; try++ {
		li := cands[r.Intn(len(cands))]
		s0, n0, inList := topList(cur, leaves[li].Path)
		l, err := wb.MutateLeaf(cu.k.s, line, cur, li, r)
		if err != nil {
			continue
		}
		if cu.digest(t, cur) == dig {
			continue // the change did not change the content (a bit of a number the layout does not keep)
		}
		s1, n1, _ := topList(cur, leaves[li].Path)
		cu.mu.Lock()
		defer cu.mu.Unlock()
		switch {
		case mode == "write-element" && inList && s0 == s1 && n0 == n1:
			cu.inPlace++
		case mode == "resize" && inList && n1 < n0:
			cu.resized["cut"]++
		case mode == "resize" && inList && n1 > n0:
			cu.resized["grown"]++
		}
		return l.Path, true
	}
	return "", false
}

// ---------------------------------------------------------------------------
// expectations: the value of a fresh copy of the content

func (cu *current) expect(t *curType, o *curObj, oi int, u *curUse, cur any, dig string) *curExpect {
	key := fmt.Sprintf("%s|%d|%s|%s", t.name, oi, dig, u.name)
	cu.mu.Lock()
	e, ok := cu.exp[key]
	cu.mu.Unlock()
	if ok {
		return e // (one object is replayed by one goroutine: the entry is complete)
	}
	e = &curExpect{line: -1}
	defer func() {
		cu.mu.Lock()
		cu.exp[key] = e
		cu.mu.Unlock()
	}()
	fresh := wb.Fresh(reflect.ValueOf(cur)).Interface()
	if u.defined != nil && !u.defined(fresh) {
		e.undefined = true
		return e
	}
	pan, want := recoverHash(func() types.Hash256 { return u.call(o, fresh) })
	if pan != nil {
		e.undefined = true
		return e
	}
	e.want = want
	l := &line{kind: u.kind, ev: u.req(cu.k, o, fresh), got: want, redo: func() types.Hash256 { return u.call(o, fresh) }, src: "current-content",
		payload: map[string]any{"type": t.wire, "bytes_hex": hexOf(wb.TypeByName(t.wire), fresh)}}
	if u.hk != nil {
		l.diag = cu.k.diagStatic(*u.hk, u.sem, fresh, 11)
	} else if u.kind == "inputsighash" {
		l.diag = cu.k.diagStatic(hInputSig(o.e.st), u.sem, fresh, 11)
	}
	if o.e != nil && (u.kind == "wholesighash" || u.kind == "partialsighash") {
		l.era = o.e.name
	}
	e.line = cu.k.add(l)
	return e
}

// ---------------------------------------------------------------------------
// replay of one history on one object

func structCopy(p any) any {
	v := reflect.ValueOf(p)
	n := reflect.New(v.Type().Elem())
	n.Elem().Set(v.Elem())
	return n.Interface()
}

func (cu *current) opName(t *curType, op int) string {
	switch {
	case op == 100:
		return "copy"
	case op > 200 && op-200 <= len(curModes):
		return curModes[op-201]
	case op >= 1 && op <= len(t.uses):
		return t.uses[op-1].name
	}
	cu.c.Fatal("current content: TLC printed the operation %d for %s", op, t.name)
	return ""
}

// run replays one history; it reports the observations that disagree with a fresh copy of the same content.
func (cu *current) run(t *curType, oi int, ops []int, witness, record bool) (bad []*curFailure) {
	o := t.objs[oi]
	cur := wb.Fresh(reflect.ValueOf(o.ptr)).Interface()
	base := cu.digest(t, cur)
	dig := base
	var trail []string
	lastUse, prior, mode := "", "", ""
	counted := false
	var baseID types.Hash256
	if t.block != "" {
		baseID = t.uses[0].call(o, wb.Fresh(reflect.ValueOf(o.ptr)).Interface())
	}
	observe := func(u *curUse, closes bool) {
		if u.kind == "" {
			vlib.Recover(func() { u.call(o, cur) })
			return
		}
		e := cu.expect(t, o, oi, u, cur, dig)
		if e.undefined {
			if record {
				cu.mu.Lock()
				cu.undefined++
				cu.mu.Unlock()
			}
			vlib.Recover(func() { u.call(o, cur) })
			return
		}
		pan, got := recoverHash(func() types.Hash256 { return u.call(o, cur) })
		if record {
			cu.mu.Lock()
			cu.obs++
			e.compared++
			if mode != "" && prior != "" {
				e.afterUse = true
				cu.byKind[u.kind]++
				if !counted {
					counted = true
					cu.nontrivial++
				}
			}
			cu.mu.Unlock()
		}
		if pan != nil || got != e.want {
			bad = append(bad, &curFailure{t: t, oi: oi, trail: append(append([]string{}, trail...), u.name), use: u.name, kind: u.kind, mode: mode, prior: prior,
				got: got, want: e.want, pan: pan, line: e.line, closes: closes})
		}
	}
	for _, op := range ops {
		name := cu.opName(t, op)
		switch {
		case op == 100:
			cur = structCopy(cur)
			trail = append(trail, "copy")
		case op > 200:
			leaf, ok := cu.change(t, cur, dig, name, witness)
			if !ok {
				if record {
					cu.mu.Lock()
					cu.skipped[fmt.Sprintf("%s/%s/witness=%v", t.name, name, witness)]++
					cu.mu.Unlock()
				}
				return bad // no member of this object admits the change
			}
			dig = cu.digest(t, cur)
			mode, prior = name, lastUse
			trail = append(trail, name+" "+leaf)
			if record {
				cu.mu.Lock()
				if cu.byMode[t.name] == nil {
					cu.byMode[t.name] = map[string]int{}
				}
				cu.byMode[t.name][name]++
				if witness {
					cu.witnessChanges[t.name]++
				}
				cu.mu.Unlock()
			}
		default:
			u := &t.uses[op-1]
			observe(u, false)
			lastUse = name
			trail = append(trail, name)
		}
	}
	// the closing observation: every identifier / signature hash of the object (the first one rotates)
	var finals []*curUse
	for i := range t.uses {
		if t.uses[i].kind != "" {
			finals = append(finals, &t.uses[i])
		}
	}
	rot := 0
	for _, op := range ops {
		rot += op
	}
	for i := range finals {
		observe(finals[(i+rot)%len(finals)], true)
	}
	// the property's block clause: a later change under the identifier the block had must be refused
	if t.block != "" && dig != base && o.hv != nil {
		blk := (*types.Block)(cur.(*types.V2Block))
		if pan, id := recoverHash(func() types.Hash256 { return types.Hash256(blk.ID()) }); pan == nil && id == baseID {
			var verr error
			p, _ := vlib.Recover(func() { verr = consensus.ValidateBlock(o.hv.prev, *blk, o.hv.supp) })
			if !p && verr == nil {
				bad = append(bad, &curFailure{t: t, oi: oi, trail: append(append([]string{}, trail...), "id", "validate"), use: "validate", kind: "block-clause", mode: mode, prior: prior, got: id, closes: true})
			} else if record {
				cu.mu.Lock()
				cu.blockSame++
				cu.mu.Unlock()
			}
		}
		if record {
			cu.mu.Lock()
			cu.blockCheck++
			cu.mu.Unlock()
		}
	}
	return bad
}

// ---------------------------------------------------------------------------

// want counts the histories TLC has to print for a type: at most n operations, a use followed by a change.
func curWant(nUses, nModes, n int) int64 {
	var total int64
	var rec func(left int, sawUse, worth bool)
	rec = func(left int, sawUse, worth bool) {
		if worth {
			total++
		}
		if left == 0 {
			return
		}
		for i := 0; i < nUses; i++ {
			rec(left-1, true, worth)
		}
		rec(left-1, sawUse, worth) // copy
		for i := 0; i < nModes; i++ {
			rec(left-1, sawUse, worth || sawUse)
		}
	}
	rec(n, false, false)
	return total
}

func (cu *current) parse(g *curGen) [][]int {
	var out [][]int
	for _, ln := range g.res.Lines {
		if !strings.HasPrefix(ln, "CUR ") {
			continue
		}
		var seq []int
		for _, s := range intRe.FindAllString(ln[4:], -1) {
			n := 0
			fmt.Sscan(s, &n)
			seq = append(seq, n)
		}
		if len(seq) < 3 || seq[0] < 1 || seq[0] > len(cu.types) {
			cu.c.Infra("current content: TLC printed %.80q", ln)
			continue
		}
		out = append(out, seq)
	}
	return out
}

// finish waits for TLC, replays every history on every object of its type, and records what was covered. The verdicts
// are issued by report, after the pre-images have been evaluated.
func (cu *current) finish(r *rand.Rand, eras []eraState, blocks []harvested) {
	c := cu.c
	<-cu.done
	for _, e := range []error{cu.errHolds, cu.errBroken} {
		if e != nil {
			c.Fatal("current-content model: %v", e)
		}
	}
	if cu.resHolds.Violated != "" {
		c.Fatal("model-internal failure in SemanticsCurrent (keyed-on-content: %s): %s", cu.resHolds.Violated, vlib.Tail(cu.resHolds.Out, 1500))
	}
	if cu.resBroken.Violated != "Current" {
		c.Infra("SemanticsCurrent does not refute a memo keyed on store and length (%q): the model cannot tell an implementation that hashes the current content from the seeded one", cu.resBroken.Violated)
	}
	t0 := time.Now()
	if !cu.replay {
		cu.objects(r, eras, blocks)
		for _, t := range cu.types {
			if len(t.objs) == 0 {
				c.Infra("vacuity: current content: no object of type %s", t.name)
			}
		}
	}
	for _, g := range cu.gens {
		if g.err != nil {
			c.Fatal("current-content histories: %v", g.err)
		}
		if g.res.Violated != "" {
			c.Fatal("model-internal failure in SemanticsCurrent (%s: %s): %s", g.cfg, g.res.Violated, vlib.Tail(g.res.Out, 1500))
		}
		set := cu.parse(g)
		g.res.Out, g.res.Lines = "", nil
		g.count = len(set)
		var want int64
		for _, t := range cu.types {
			want += curWant(len(t.uses), len(t.modes), g.len)
		}
		if int64(len(set)) != want {
			c.Infra("current content: TLC printed %d histories of at most %d operations, expected %d", len(set), g.len, want)
		}
		sort.Slice(set, func(i, j int) bool {
			a, b := set[i], set[j]
			if len(a) != len(b) {
				return len(a) < len(b)
			}
			for x := range a {
				if a[x] != b[x] {
					return a[x] < b[x]
				}
			}
			return false
		})
		// one job per object (the objects are independent), the jobs of the types with most uses first
		type job struct {
			t  *curType
			oi int
		}
		var jobs []job
		for _, t := range cu.types {
			for oi := range t.objs {
				jobs = append(jobs, job{t, oi})
			}
		}
		sort.SliceStable(jobs, func(i, j int) bool { return len(jobs[i].t.uses) > len(jobs[j].t.uses) })
		ch := make(chan job)
		var wg sync.WaitGroup
		for w := 0; w < 6; w++ {
			wg.Add(1)
			go func() {
				defer wg.Done()
				for j := range ch {
					var bad []*curFailure
					n := 0
					for _, seq := range set {
						if cu.types[seq[0]-1] != j.t {
							continue
						}
						// the changes hit effect-bearing members; for types with a semantic line every history runs a second
						// time with the changes hitting witnesses (what the identifiers must NOT follow, the full hashes must)
						for _, witness := range []bool{false, true}[:1+min(1, len(j.t.sem))] {
							bad = append(bad, cu.run(j.t, j.oi, seq[1:], witness, true)...)
							n++
						}
					}
					cu.mu.Lock()
					cu.failures = append(cu.failures, bad...)
					cu.histories += int64(n)
					cu.byType[j.t.name] += n
					cu.mu.Unlock()
				}
			}()
		}
		for _, j := range jobs {
			ch <- j
		}
		close(ch)
		wg.Wait()
	}
	// the comparison must discriminate: against a corrupted expectation the replay has to object
	selfOK := false
	for _, t := range cu.types {
		if len(t.objs) == 0 || selfOK {
			continue
		}
		for key, e := range cu.exp {
			if strings.HasPrefix(key, t.name+"|0|") && strings.HasSuffix(key, "|"+t.uses[0].name) && !e.undefined && e.compared > 0 {
				keep := e.want
				e.want[5] ^= 1
				selfOK = len(cu.run(t, 0, []int{1}, false, false)) > 0 || selfOK
				e.want = keep
			}
		}
	}
	if !selfOK {
		c.Infra("current content: the comparison is not discriminating (a corrupted expectation was not noticed)")
	}
	cu.wall = time.Since(t0)
}

// report issues the verdicts (after evaluate: the pre-image of the content is part of the message) and the evidence.
func (cu *current) report() {
	c := cu.c
	// per kind, the shortest history after which the value is not that of the content
	best := map[string]*curFailure{}
	count := map[string]int{}
	// ... the least visible form of change first (the order of the model), then the uses in catalogue order
	rank := func(f *curFailure) string {
		m, u := 9, 99
		for i, name := range curModes {
			if name == f.mode {
				m = i
			}
		}
		for i := range f.t.uses {
			if f.t.uses[i].name == f.prior {
				u = i
			}
		}
		return fmt.Sprintf("%02d|%d|%02d|%s", len(f.trail), m, u, strings.Join(f.trail, ";"))
	}
	for _, f := range cu.failures {
		count[f.kind]++
		if b := best[f.kind]; b == nil || rank(f) < rank(b) {
			best[f.kind] = f
		}
	}
	for _, kind := range sortedKeys(best) {
		f := best[kind]
		o := f.t.objs[f.oi]
		mode, prior := f.mode, f.prior
		if mode == "" {
			mode = "no-change"
		}
		if prior == "" {
			prior = "nothing"
		}
		pay := map[string]any{"type": f.t.wire, "bytes_hex": hexOf(wb.TypeByName(f.t.wire), o.ptr), "object_type": f.t.name, "object_source": o.src, "current_history": f.trail,
			"value": hex.EncodeToString(f.got[:]), "fresh_copy_value": hex.EncodeToString(f.want[:]), "disagreeing_observations_in_this_run": count[kind]}
		if o.hv != nil {
			pay["height"] = o.hv.prev.Index.Height + 1
		}
		if kind == "block-clause" {
			c.Violation("block/"+f.t.block+"/later-change-accepted-under-same-id/"+mode+"-after-"+prior,
				fmt.Sprintf("%s: after [%s] the block's content differs from the accepted block, Block.ID() is still %x and ValidateBlock accepts it", f.t.block, strings.Join(f.trail[:len(f.trail)-2], " ; "), f.got[:6]), pay)
			continue
		}
		spec := "not evaluated"
		if f.line >= 0 && cu.k.lines[f.line].term != nil {
			if val, err := evalTerm(cu.k.lines[f.line].term); err == nil && len(val) == 32 {
				spec = hex.EncodeToString(val)
				pay["spec_hash_of_current_content"] = spec
			}
		}
		what := fmt.Sprintf("the value is %x, a fresh copy of the same content gives %x (pre-image of that content: %.12s)", f.got[:6], f.want[:6], spec)
		if f.pan != nil {
			what = fmt.Sprintf("the call panics (%v); on a fresh copy of the same content it returns %x", f.pan, f.want[:6])
		}
		c.Violation("current/"+kind+"/"+mode+"-after-"+prior,
			fmt.Sprintf("%s of a %s is not a function of the content the object has: after [%s] %s", kind, f.t.name, strings.Join(f.trail[:len(f.trail)-1], " ; "), what), pay)
	}
	if cu.replay {
		return
	}
	// ---- vacuity guards
	for _, t := range cu.types {
		if cu.byType[t.name] == 0 {
			c.Infra("vacuity: current content: no history was replayed on a %s", t.name)
		}
		for _, m := range t.modes {
			if cu.byMode[t.name][m] == 0 {
				c.Infra("vacuity: current content: no %s change was made to a %s", m, t.name)
			}
		}
		if t.sem != "" && cu.witnessChanges[t.name] == 0 {
			c.Infra("vacuity: current content: no change hit a witness of a %s", t.name)
		}
		for _, u := range t.uses {
			if u.kind != "" && cu.byKind[u.kind] == 0 {
				c.Infra("vacuity: current content: %s (%s) was never observed after a use and a later change", u.kind, t.name)
			}
		}
	}
	if cu.inPlace == 0 || cu.replaced == 0 || cu.resized["cut"] == 0 || cu.resized["grown"] == 0 {
		c.Infra("vacuity: current content: %d writes kept store and length, %d replacements moved the list, resized %v", cu.inPlace, cu.replaced, cu.resized)
	}
	if cu.blockCheck == 0 {
		c.Infra("vacuity: current content: the block clause was never reached")
	}
	// ---- evidence
	distinct := int64(0)
	for _, e := range cu.exp {
		if e.afterUse {
			distinct++
		}
	}
	c.Count(cu.obs+int64(cu.blockSame), distinct)
	c.Traces(cu.histories)
	objs := map[string][]string{}
	for _, t := range cu.types {
		for _, o := range t.objs {
			objs[t.name] = append(objs[t.name], o.src)
		}
	}
	var exh []map[string]any
	for _, g := range cu.gens {
		exh = append(exh, map[string]any{"operations_at_most": g.len, "count": g.count})
	}
	c.Cov("current_content_objects", objs)
	c.Cov("current_content_histories_from_tlc", exh)
	c.Cov("current_content_histories_replayed_by_type", cu.byType)
	c.Cov("current_content_changes_by_type_and_form", cu.byMode)
	c.Cov("current_content_changes_hitting_a_witness_by_type", cu.witnessChanges)
	c.Cov("current_content_observations_after_use_and_change_by_kind", cu.byKind)
	c.Cov("current_content_observations", map[string]any{"compared": cu.obs, "function_undefined_on_the_content": cu.undefined, "disagreeing": len(cu.failures),
		"distinct_contents_and_functions": len(cu.exp)})
	c.Cov("current_content_changes_verified", map[string]any{"element_written_store_and_length_kept": cu.inPlace, "list_moved_to_another_store": cu.replaced, "resized": cu.resized})
	c.Cov("current_content_histories_left_out_no_member_admits_the_change", cu.skipped)
	c.Cov("current_content_block_clause", map[string]any{"changed_blocks_checked": cu.blockCheck, "identifier_as_before_and_block_refused": cu.blockSame})
	c.Cov("tlc_current_content_disciplines", map[string]any{"keyed-on-content_states": cu.resHolds.Distinct, "keyed-on-identity": "refuted (" + cu.resBroken.Violated + ")"})
	c.Cov("members_unknown_to_the_schema_treated_as_not_transmitted", append([]string{}, wb.HiddenMembers()...))
	c.Cov("seconds_current_content_replay", cu.wall.Seconds())
}

// replayCurrent re-executes every history of one object type on one saved object (the base object of a saved case).
func replayCurrent(c *vlib.Ctx, k *checker, objectType string, ptr any, eras []eraState, hvs []harvested) *current {
	cu := startCurrent(c, k)
	cu.replay = true
	for _, t := range cu.types {
		if t.name != objectType {
			continue
		}
		o := &curObj{ptr: ptr, src: "replay", e: &eras[3]}
		if t.name == "Transaction" {
			o.e = &eras[1]
		}
		if t.block != "" {
			b := (*types.Block)(ptr.(*types.V2Block))
			for i := range hvs {
				if hvs[i].prev.Index.ID == b.ParentID {
					o.hv = &hvs[i]
					st := hvs[i].prev
					sabs, err := wb.AbstractNormalised(k.s, "consensus_State", &st)
					if err != nil {
						c.Fatal("bridge: %v", err)
					}
					o.sabs = sabs
				}
			}
			if o.hv == nil {
				c.Infra("replay: the parent state of the saved block is not on the scripted chains")
				return cu
			}
		}
		t.objs = []*curObj{o}
	}
	cu.finish(rand.New(rand.NewSource(c.Seed+12)), eras, nil)
	return cu
}
