package main

import (
	"fmt"
	"math/rand"
	"reflect"
	"sort"
	"strings"

	"go.sia.tech/core/consensus"
	"go.sia.tech/core/types"
	wb "verif/harness/wirebridge"
)

// eraState is a consensus state in one hardfork era together with what the specification needs to place it.
type eraState struct {
	name   string // pre-asic | asic | foundation | v2
	st     consensus.State
	height int
	net    map[string]int
}

func (e eraState) ev() map[string]any { return map[string]any{"height": e.height, "net": e.net} }

// hashKind is one hash function of the code under test over a value reached through a pointer.
type hashKind struct {
	name string
	f    func(ptr any) types.Hash256
}

func (k *checker) abs(lineName string, ptr any) any {
	a, err := wb.Abstract(k.s, lineName, ptr)
	if err != nil {
		k.c.Fatal("bridge: %v", err)
	}
	return a
}

func hexOf(t *wb.WireType, ptr any) string {
	b, pan := t.SafeEncode(ptr)
	if pan != nil {
		return ""
	}
	return fmt.Sprintf("%x", b)
}

// ---------------------------------------------------------------------------
// direction A with the static table: a leaf under a codec of the semantic line is effect-bearing (changing it alone
// must change every hash built on the line), a leaf under NT is a witness (must not).

// mutateStatic mutates up to maxLeaves leaves of the value (least-exercised member patterns first) and judges every
// hash kind. emit (may be nil) receives up to nEmit mutants for logging as direction-B lines.
func (k *checker) mutateStatic(kinds []hashKind, lineName string, ptr any, r *rand.Rand, maxLeaves, nEmit int, all bool,
	emit func(m any, leaf wb.Leaf, diff map[string]bool)) (culprits []string) {
	c := k.c
	leaves, err := wb.Leaves(k.s, lineName, ptr)
	if err != nil {
		c.Fatal("bridge (leaves of %s): %v", lineName, err)
	}
	k.mu.Lock()
	pats := k.mutPatterns[lineName]
	if pats == nil {
		pats = map[string]string{}
		k.mutPatterns[lineName] = pats
	}
	cnt := map[string]int{}
	for p := range pats {
		cnt[p] = 1
	}
	k.mu.Unlock()
	order := r.Perm(len(leaves))
	if !all {
		sort.SliceStable(order, func(i, j int) bool {
			return cnt[pattern(leaves[order[i]].Path)] < cnt[pattern(leaves[order[j]].Path)]
		})
		if len(order) > maxLeaves {
			order = order[:maxLeaves]
		}
	}
	base := k.abs(lineName, ptr)
	baseH := map[string]types.Hash256{}
	for _, hk := range kinds {
		baseH[hk.name] = hk.f(ptr)
	}
	seenCulprit := map[string]bool{}
	for _, li := range order {
		m := wb.Clone(reflect.ValueOf(ptr)).Interface()
		leaf, err := wb.MutateLeaf(k.s, lineName, m, li, r)
		if err != nil {
			c.Infra("bridge (mutate %s of %s): %v", leaves[li].Path, lineName, err)
			continue
		}
		mabs, err := wb.Abstract(k.s, lineName, m)
		if err != nil {
			c.Infra("bridge (mutant %s of %s): %v", leaf.Path, lineName, err)
			continue
		}
		changedAbs := !wb.EqualAbstract(base, mabs)
		var effect bool
		switch leaf.Influence {
		case wb.Must:
			if !changedAbs {
				k.mu.Lock()
				k.mutSkipped++
				k.mu.Unlock()
				continue
			}
			effect = true
		case wb.MustNot:
			if changedAbs {
				c.Infra("%s: mutation of witness %s changed the semantic value", lineName, leaf.Path)
				continue
			}
			if leaf.Kind != "nanos" && reflect.DeepEqual(reflect.ValueOf(m).Elem().Interface(), reflect.ValueOf(ptr).Elem().Interface()) {
				k.mu.Lock()
				k.mutSkipped++
				k.mu.Unlock()
				continue
			}
		default:
			continue
		}
		diff := map[string]bool{}
		for _, hk := range kinds {
			var mh types.Hash256
			if p, val := recoverHash(func() types.Hash256 { return hk.f(m) }); p != nil {
				c.Infra("%s: hashing a mutant panicked: %v", hk.name, p)
				continue
			} else {
				mh = val
			}
			d := mh != baseH[hk.name]
			diff[hk.name] = d
			k.mu.Lock()
			if effect {
				k.mutEffect[hk.name]++
			} else {
				k.mutWitness[hk.name]++
			}
			k.mu.Unlock()
			if d != effect {
				what := "not-bound"
				txt := fmt.Sprintf("%s: changing the effect-bearing member %s alone leaves the hash unchanged", hk.name, leaf.Path)
				if d {
					what = "witness-bound"
					txt = fmt.Sprintf("%s: changing the witness %s alone changes the hash", hk.name, leaf.Path)
				}
				key := hk.name + "/" + fieldKey(leaf.Path) + "-" + what
				if !seenCulprit[key] {
					seenCulprit[key] = true
					culprits = append(culprits, key)
				}
				if !all {
					pay := map[string]any{"kind": hk.name, "semantic_line": lineName, "leaf": leaf.Path,
						"value": fmt.Sprintf("%+v", reflect.ValueOf(ptr).Elem().Interface()), "mutant": fmt.Sprintf("%+v", reflect.ValueOf(m).Elem().Interface())}
					if t := wb.TypeByName(strings.TrimPrefix(lineName, "Sem_")); t != nil {
						pay["type"], pay["bytes_hex"], pay["mutant_hex"] = t.Name, hexOf(t, ptr), hexOf(t, m)
					}
					c.Violation(key, txt, pay)
				}
			}
		}
		k.mu.Lock()
		if effect {
			pats[pattern(leaf.Path)] = "effect"
		} else {
			pats[pattern(leaf.Path)] = "witness"
		}
		k.mu.Unlock()
		cnt[pattern(leaf.Path)]++
		if emit != nil && nEmit > 0 {
			nEmit--
			emit(m, leaf, diff)
		}
	}
	return culprits
}

func recoverHash(f func() types.Hash256) (pan any, h types.Hash256) {
	defer func() {
		if r := recover(); r != nil {
			pan = r
		}
	}()
	return nil, f()
}

// diagStatic is the diagnosis of a direction-B disagreement: every leaf of the value is mutated once.
func (k *checker) diagStatic(kind hashKind, lineName string, ptr any, seed int64) func() []string {
	return func() []string {
		return k.mutateStatic([]hashKind{kind}, lineName, ptr, rand.New(rand.NewSource(seed)), 0, 0, true, nil)
	}
}

// ---------------------------------------------------------------------------
// v1 transactions

var (
	hV1ID   = hashKind{"v1txid", func(p any) types.Hash256 { return types.Hash256(p.(*types.Transaction).ID()) }}
	hV1Full = hashKind{"v1fullhash", func(p any) types.Hash256 { return p.(*types.Transaction).FullHash() }}
	hV1Leaf = hashKind{"v1leaf", func(p any) types.Hash256 { return p.(*types.Transaction).MerkleLeafHash() }}
	hV2ID   = hashKind{"v2txid", func(p any) types.Hash256 { return types.Hash256(p.(*types.V2Transaction).ID()) }}
	hV2Full = hashKind{"v2fullhash", func(p any) types.Hash256 { return p.(*types.V2Transaction).FullHash() }}
	hV2Leaf = hashKind{"v2leaf", func(p any) types.Hash256 { return p.(*types.V2Transaction).MerkleLeafHash() }}
)

func hV1Sco(i int) hashKind {
	return hashKind{"v1scoid", func(p any) types.Hash256 { return types.Hash256(p.(*types.Transaction).SiacoinOutputID(i)) }}
}
func hV1Sfo(i int) hashKind {
	return hashKind{"v1sfoid", func(p any) types.Hash256 { return types.Hash256(p.(*types.Transaction).SiafundOutputID(i)) }}
}
func hV1Fc(i int) hashKind {
	return hashKind{"v1fcid", func(p any) types.Hash256 { return types.Hash256(p.(*types.Transaction).FileContractID(i)) }}
}

func pickIndex(r *rand.Rand, n int) int {
	switch {
	case n == 0:
		return r.Intn(3)
	case r.Intn(4) == 0:
		return n + r.Intn(2) // positions beyond the list are derivable as well
	default:
		return r.Intn(n)
	}
}

// idLine logs a derivation from an identifier (and a position).
func (k *checker) idLine(kind string, id [32]byte, i int, got [32]byte, redo func() types.Hash256, src string) {
	ev := map[string]any{"id": byteInts(id[:])}
	if i >= 0 {
		ev["i"] = i
	}
	k.add(&line{kind: kind, ev: ev, got: got, redo: redo, src: src})
}

func byteInts(b []byte) []int {
	out := make([]int, len(b))
	for i, x := range b {
		out[i] = int(x)
	}
	return out
}

// v1Lines logs every identifier of a v1 transaction, runs the static mutations, and logs a few mutants.
func (k *checker) v1Lines(txn *types.Transaction, src string, r *rand.Rand, maxLeaves, nEmit int) {
	tt := wb.TypeByName("Transaction")
	pay := map[string]any{"type": "Transaction", "bytes_hex": hexOf(tt, txn)}
	sem := k.abs("Sem_Transaction", txn)
	wire := k.abs("Transaction", txn)
	seed := r.Int63()
	iSco, iSfo, iFc := pickIndex(r, len(txn.SiacoinOutputs)), pickIndex(r, len(txn.SiafundOutputs)), pickIndex(r, len(txn.FileContracts))
	semKinds := []hashKind{hV1ID, hV1Sco(iSco), hV1Sfo(iSfo), hV1Fc(iFc)}
	idx := map[string]int{"v1scoid": iSco, "v1sfoid": iSfo, "v1fcid": iFc}
	baseIdx := map[string]int{}
	for _, hk := range semKinds {
		hk := hk
		ev := map[string]any{"v": sem}
		if i, ok := idx[hk.name]; ok {
			ev["i"] = i
		}
		baseIdx[hk.name] = k.add(&line{kind: hk.name, ev: ev, got: hk.f(txn), redo: func() types.Hash256 { return hk.f(txn) }, src: src,
			diag: k.diagStatic(hk, "Sem_Transaction", txn, seed), payload: pay})
	}
	for _, hk := range []hashKind{hV1Full, hV1Leaf} {
		hk := hk
		baseIdx[hk.name] = k.add(&line{kind: hk.name, ev: map[string]any{"v": wire}, got: hk.f(txn), redo: func() types.Hash256 { return hk.f(txn) }, src: src,
			diag: k.diagStatic(hk, "Transaction", txn, seed), payload: pay})
	}
	// identifiers derived from identifiers
	for i := range txn.SiafundOutputs {
		if i > 1 {
			break
		}
		i := i
		sfoid := txn.SiafundOutputID(i)
		k.idLine("v1claimout", sfoid, -1, sfoid.ClaimOutputID(), func() types.Hash256 { return types.Hash256(txn.SiafundClaimOutputID(i)) }, src)
		k.idLine("v2claimout", sfoid, -1, sfoid.V2ClaimOutputID(), nil, src)
	}
	for i, fc := range txn.FileContracts {
		if i > 0 {
			break
		}
		fcid := txn.FileContractID(i)
		j := pickIndex(r, len(fc.ValidProofOutputs))
		k.idLine("v1validout", fcid, j, fcid.ValidOutputID(j), nil, src)
		j = pickIndex(r, len(fc.MissedProofOutputs))
		k.idLine("v1missedout", fcid, j, fcid.MissedOutputID(j), nil, src)
	}
	// direction A
	k.mutateStatic(semKinds, "Sem_Transaction", txn, r, maxLeaves, nEmit, false, func(m any, leaf wb.Leaf, diff map[string]bool) {
		mt := m.(*types.Transaction)
		hk := semKinds[r.Intn(len(semKinds))]
		ev := map[string]any{"v": k.abs("Sem_Transaction", mt)}
		if i, ok := idx[hk.name]; ok {
			ev["i"] = i
		}
		k.add(&line{kind: hk.name, ev: ev, got: hk.f(mt), src: src + "-mutant", mutant: true, base: baseIdx[hk.name], leaf: leaf.Path, codeDiff: diff[hk.name],
			diag: k.diagStatic(hk, "Sem_Transaction", mt, seed), payload: map[string]any{"type": "Transaction", "bytes_hex": hexOf(tt, mt), "leaf": leaf.Path}})
	})
	k.mutateStatic([]hashKind{hV1Full, hV1Leaf}, "Transaction", txn, r, maxLeaves/2, 0, false, nil)
}

// fixSignatures gives every signature of a generated v1 transaction covered fields that refer to existing members.
func fixSignatures(r *rand.Rand, txn *types.Transaction) {
	pick := func(n int) []uint64 {
		if n == 0 {
			return nil
		}
		var out []uint64
		switch r.Intn(4) {
		case 0:
			return nil
		case 1:
			for i := 0; i < n; i++ {
				out = append(out, uint64(i))
			}
		default:
			for i := 0; i < 1+r.Intn(2); i++ {
				out = append(out, uint64(r.Intn(n)))
			}
		}
		return out
	}
	if len(txn.Signatures) == 0 && r.Intn(4) > 0 {
		txn.Signatures = make([]types.TransactionSignature, 1+r.Intn(2))
		for i := range txn.Signatures {
			s := &txn.Signatures[i]
			r.Read(s.ParentID[:])
			s.PublicKeyIndex = uint64(r.Intn(3))
			s.Timelock = uint64(r.Intn(5))
			s.Signature = make([]byte, 64)
			r.Read(s.Signature)
		}
	}
	for i := range txn.Signatures {
		cf := &txn.Signatures[i].CoveredFields
		cf.WholeTransaction = r.Intn(2) == 0
		cf.SiacoinInputs, cf.SiacoinOutputs = pick(len(txn.SiacoinInputs)), pick(len(txn.SiacoinOutputs))
		cf.FileContracts, cf.FileContractRevisions = pick(len(txn.FileContracts)), pick(len(txn.FileContractRevisions))
		cf.StorageProofs, cf.SiafundInputs = pick(len(txn.StorageProofs)), pick(len(txn.SiafundInputs))
		cf.SiafundOutputs, cf.MinerFees = pick(len(txn.SiafundOutputs)), pick(len(txn.MinerFees))
		cf.ArbitraryData = pick(len(txn.ArbitraryData))
		cf.Signatures = nil
		if len(txn.Signatures) > 1 && r.Intn(2) == 0 {
			// other signatures may be covered (a signature covering itself is not constructible, but hashable)
			cf.Signatures = []uint64{uint64(r.Intn(len(txn.Signatures)))}
		}
	}
}

// coveredInRange mirrors the range rule of covered fields (a hash over a missing member is undefined).
func coveredInRange(txn *types.Transaction, cf types.CoveredFields) bool {
	in := func(is []uint64, n int) bool {
		for _, i := range is {
			if i >= uint64(n) {
				return false
			}
		}
		return true
	}
	return in(cf.SiacoinInputs, len(txn.SiacoinInputs)) && in(cf.SiacoinOutputs, len(txn.SiacoinOutputs)) && in(cf.FileContracts, len(txn.FileContracts)) &&
		in(cf.FileContractRevisions, len(txn.FileContractRevisions)) && in(cf.StorageProofs, len(txn.StorageProofs)) && in(cf.SiafundInputs, len(txn.SiafundInputs)) &&
		in(cf.SiafundOutputs, len(txn.SiafundOutputs)) && in(cf.MinerFees, len(txn.MinerFees)) && in(cf.ArbitraryData, len(txn.ArbitraryData)) &&
		in(cf.Signatures, len(txn.Signatures))
}

func wholeHash(st consensus.State, txn *types.Transaction, j int) types.Hash256 {
	s := txn.Signatures[j]
	return st.WholeSigHash(*txn, s.ParentID, s.PublicKeyIndex, s.Timelock, s.CoveredFields.Signatures)
}

// v1SigLines logs the whole-transaction and partial signature hashes of signature j of txn in the given eras, and
// nMut single-leaf mutants of each (direction A for signature hashes: the specification's pre-image decides what is covered).
func (k *checker) v1SigLines(txn *types.Transaction, j int, eras []eraState, src string, r *rand.Rand, nMut int) {
	tt := wb.TypeByName("Transaction")
	if !coveredInRange(txn, txn.Signatures[j].CoveredFields) {
		return
	}
	wire := k.abs("Transaction", txn)
	cf := txn.Signatures[j].CoveredFields
	cfAbs := k.abs("CoveredFields", &cf)
	pay := map[string]any{"type": "Transaction", "bytes_hex": hexOf(tt, txn), "signature": j}
	type baseLine struct {
		era         eraState
		whole, part int
	}
	var bases []baseLine
	for _, e := range eras {
		e := e
		evW := e.ev()
		evW["v"], evW["j"] = wire, j+1
		w := k.add(&line{kind: "wholesighash", ev: evW, got: wholeHash(e.st, txn, j), redo: func() types.Hash256 { return wholeHash(e.st, txn, j) }, src: src, era: e.name, payload: pay})
		evP := e.ev()
		evP["v"], evP["cf"] = wire, cfAbs
		p := k.add(&line{kind: "partialsighash", ev: evP, got: e.st.PartialSigHash(*txn, cf), redo: func() types.Hash256 { return e.st.PartialSigHash(*txn, cf) }, src: src, era: e.name, payload: pay})
		bases = append(bases, baseLine{e, w, p})
	}
	if nMut == 0 || len(bases) == 0 {
		return
	}
	leaves, err := wb.Leaves(k.s, "Transaction", txn)
	if err != nil {
		k.c.Fatal("bridge: %v", err)
	}
	order := r.Perm(len(leaves))
	done := 0
	for _, li := range order {
		if done >= nMut {
			break
		}
		if leaves[li].Influence != wb.Must {
			continue
		}
		m := wb.Clone(reflect.ValueOf(txn)).Interface().(*types.Transaction)
		leaf, err := wb.MutateLeaf(k.s, "Transaction", m, li, r)
		if err != nil {
			continue
		}
		if j >= len(m.Signatures) || !coveredInRange(m, m.Signatures[j].CoveredFields) {
			continue
		}
		mw := k.abs("Transaction", m)
		if wb.EqualAbstract(wire, mw) {
			continue
		}
		done++
		b := bases[r.Intn(len(bases))]
		mpay := map[string]any{"type": "Transaction", "bytes_hex": hexOf(tt, m), "signature": j, "leaf": leaf.Path}
		evW := b.era.ev()
		evW["v"], evW["j"] = mw, j+1
		gw := wholeHash(b.era.st, m, j)
		k.add(&line{kind: "wholesighash", ev: evW, got: gw, src: src + "-mutant", era: b.era.name, mutant: true, base: b.whole, leaf: leaf.Path,
			codeDiff: gw != k.lines[b.whole].got, payload: mpay})
		mcf := m.Signatures[j].CoveredFields
		evP := b.era.ev()
		evP["v"], evP["cf"] = mw, k.abs("CoveredFields", &mcf)
		gp := b.era.st.PartialSigHash(*m, mcf)
		k.add(&line{kind: "partialsighash", ev: evP, got: gp, src: src + "-mutant", era: b.era.name, mutant: true, base: b.part, leaf: leaf.Path,
			codeDiff: gp != k.lines[b.part].got, payload: mpay})
	}
}

// ---------------------------------------------------------------------------
// v2 transactions

func hInputSig(st consensus.State) hashKind {
	return hashKind{"inputsighash", func(p any) types.Hash256 { return st.InputSigHash(*p.(*types.V2Transaction)) }}
}
func hContractSig(st consensus.State) hashKind {
	return hashKind{"contractsighash", func(p any) types.Hash256 { return st.ContractSigHash(*p.(*types.V2FileContract)) }}
}
func hRenewalSig(st consensus.State) hashKind {
	return hashKind{"renewalsighash", func(p any) types.Hash256 { return st.RenewalSigHash(*p.(*types.V2FileContractRenewal)) }}
}
func hAttestationSig(st consensus.State) hashKind {
	return hashKind{"attestationsighash", func(p any) types.Hash256 { return st.AttestationSigHash(*p.(*types.Attestation)) }}
}

// semObjectLines logs one signature hash of a v2 object (contract, renewal, attestation) in every era, mutates it.
func (k *checker) semObjectLines(mk func(consensus.State) hashKind, lineName, typeName string, ptr any, eras []eraState, src string, r *rand.Rand, maxLeaves, nEmit int) {
	sem := k.abs(lineName, ptr)
	seed := r.Int63()
	var pay map[string]any
	if t := wb.TypeByName(typeName); t != nil {
		pay = map[string]any{"type": typeName, "bytes_hex": hexOf(t, ptr)}
	}
	// the pre-image of a v2 signature hash is the same in every era: one request, the code is called in every era
	hk0 := mk(eras[0].st)
	baseIdx := k.add(&line{kind: hk0.name, ev: map[string]any{"v": sem}, got: hk0.f(ptr), redo: func() types.Hash256 { return hk0.f(ptr) }, src: src, era: "every",
		diag: k.diagStatic(hk0, lineName, ptr, seed), payload: pay})
	for _, e := range eras {
		if got := mk(e.st).f(ptr); got != hk0.f(ptr) {
			k.c.Violation(hk0.name+"/era-dependent", fmt.Sprintf("%s differs between eras (%s vs %s)", hk0.name, e.name, eras[0].name), pay)
		}
		k.mu.Lock()
		k.eraCalls[hk0.name+"@"+e.name]++
		k.mu.Unlock()
	}
	hk := mk(eras[r.Intn(len(eras))].st)
	k.mutateStatic([]hashKind{hk}, lineName, ptr, r, maxLeaves, nEmit, false, func(m any, leaf wb.Leaf, diff map[string]bool) {
		k.add(&line{kind: hk.name, ev: map[string]any{"v": k.abs(lineName, m)}, got: hk.f(m), src: src + "-mutant", mutant: true, base: baseIdx, leaf: leaf.Path, codeDiff: diff[hk.name],
			diag: k.diagStatic(hk, lineName, m, seed)})
	})
}

// v2Lines logs every identifier and signature hash of a v2 transaction, runs the static mutations, logs a few mutants.
func (k *checker) v2Lines(txn *types.V2Transaction, src string, eras []eraState, r *rand.Rand, maxLeaves, nEmit int) {
	tt := wb.TypeByName("V2Transaction")
	pay := map[string]any{"type": "V2Transaction", "bytes_hex": hexOf(tt, txn)}
	sem := k.abs("Sem_V2Transaction", txn)
	wire := k.abs("V2Transaction", txn)
	seed := r.Int63()
	baseIdx := map[string]int{}
	hIn := hInputSig(eras[r.Intn(len(eras))].st)
	for _, hk := range []hashKind{hV2ID, hIn} {
		hk := hk
		baseIdx[hk.name] = k.add(&line{kind: hk.name, ev: map[string]any{"v": sem}, got: hk.f(txn), redo: func() types.Hash256 { return hk.f(txn) }, src: src,
			diag: k.diagStatic(hk, "Sem_V2Transaction", txn, seed), payload: pay})
	}
	for _, e := range eras { // the v2 input signature hash is the same function in every era
		if got := e.st.InputSigHash(*txn); got != hIn.f(txn) {
			k.c.Violation("inputsighash/era-dependent", fmt.Sprintf("InputSigHash differs between eras (%s)", e.name), pay)
		}
		k.mu.Lock()
		k.eraCalls["inputsighash@"+e.name]++
		k.mu.Unlock()
	}
	for _, hk := range []hashKind{hV2Full, hV2Leaf} {
		hk := hk
		baseIdx[hk.name] = k.add(&line{kind: hk.name, ev: map[string]any{"v": wire}, got: hk.f(txn), redo: func() types.Hash256 { return hk.f(txn) }, src: src,
			diag: k.diagStatic(hk, "V2Transaction", txn, seed), payload: pay})
	}
	txid := txn.ID()
	i := pickIndex(r, len(txn.SiacoinOutputs))
	k.idLine("v2scoid", txid, i, txn.SiacoinOutputID(txid, i), nil, src)
	i = pickIndex(r, len(txn.SiafundOutputs))
	k.idLine("v2sfoid", txid, i, txn.SiafundOutputID(txid, i), nil, src)
	i = pickIndex(r, len(txn.FileContracts))
	k.idLine("v2fcid", txid, i, txn.V2FileContractID(txid, i), nil, src)
	i = pickIndex(r, len(txn.Attestations))
	k.idLine("attestationid", txid, i, txn.AttestationID(txid, i), nil, src)
	for n, in := range txn.SiafundInputs {
		if n > 0 {
			break
		}
		k.idLine("v2claimout", in.Parent.ID, -1, in.Parent.ID.V2ClaimOutputID(), nil, src)
		k.idLine("v1claimout", in.Parent.ID, -1, in.Parent.ID.ClaimOutputID(), nil, src)
	}
	var fcids []types.FileContractID
	for n := range txn.FileContracts {
		fcids = append(fcids, txn.V2FileContractID(txid, n))
	}
	for _, res := range txn.FileContractResolutions {
		fcids = append(fcids, res.Parent.ID)
	}
	for n, fcid := range fcids {
		if n > 1 {
			break
		}
		k.idLine("v2renterout", fcid, -1, fcid.V2RenterOutputID(), nil, src)
		k.idLine("v2hostout", fcid, -1, fcid.V2HostOutputID(), nil, src)
		k.idLine("v2renewalid", fcid, -1, fcid.V2RenewalID(), nil, src)
	}
	// signed objects inside the transaction
	var contracts []*types.V2FileContract
	for n := range txn.FileContracts {
		contracts = append(contracts, &txn.FileContracts[n])
	}
	for n := range txn.FileContractRevisions {
		contracts = append(contracts, &txn.FileContractRevisions[n].Revision)
	}
	for n, fc := range contracts {
		if n > 1 {
			break
		}
		k.semObjectLines(hContractSig, "Sem_V2FileContract", "V2FileContract", fc, eras, src, r, maxLeaves/2, 1)
	}
	nren := 0
	for _, res := range txn.FileContractResolutions {
		if ren, ok := res.Resolution.(*types.V2FileContractRenewal); ok && nren < 1 {
			nren++
			k.semObjectLines(hRenewalSig, "Sem_V2FileContractRenewal", "V2FileContractRenewal", ren, eras, src, r, maxLeaves/2, 1)
		}
	}
	for n := range txn.Attestations {
		if n > 0 {
			break
		}
		k.semObjectLines(hAttestationSig, "Sem_Attestation", "Attestation", &txn.Attestations[n], eras, src, r, maxLeaves/2, 1)
	}
	// direction A
	semKinds := []hashKind{hV2ID, hIn}
	k.mutateStatic(semKinds, "Sem_V2Transaction", txn, r, maxLeaves, nEmit, false, func(m any, leaf wb.Leaf, diff map[string]bool) {
		mt := m.(*types.V2Transaction)
		hk := semKinds[r.Intn(len(semKinds))]
		k.add(&line{kind: hk.name, ev: map[string]any{"v": k.abs("Sem_V2Transaction", mt)}, got: hk.f(mt), src: src + "-mutant", mutant: true, base: baseIdx[hk.name],
			leaf: leaf.Path, codeDiff: diff[hk.name], diag: k.diagStatic(hk, "Sem_V2Transaction", mt, seed), payload: map[string]any{"type": "V2Transaction", "bytes_hex": hexOf(tt, mt), "leaf": leaf.Path}})
	})
	k.mutateStatic([]hashKind{hV2Full, hV2Leaf}, "V2Transaction", txn, r, maxLeaves/2, 0, false, nil)
}
