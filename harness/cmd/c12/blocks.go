package main

import (
	"crypto/sha256"
	"encoding/hex"
	"encoding/json"
	"fmt"
	"math/rand"
	"reflect"
	"sort"
	"strings"
	"sync"
	"time"

	"go.sia.tech/core/consensus"
	"go.sia.tech/core/types"
	wb "verif/harness/wirebridge"
)

// harvested is one block that the real ValidateBlock accepted, with the state it was validated against.
type harvested struct {
	prev  consensus.State
	block types.Block
	supp  consensus.V1BlockSupplement
	from  string
}

// ---------------------------------------------------------------------------
// distinctness of derived identifiers

// idRegistry records every identifier the real code derives, keyed by its derivation (kind, parent, position):
// two different derivations must never yield the same identifier.
type idRegistry struct {
	mu    sync.Mutex
	byID  map[[32]byte]string
	kinds map[string]int
	n     int
	clash []string
}

func newRegistry() *idRegistry {
	return &idRegistry{byID: map[[32]byte]string{}, kinds: map[string]int{}}
}

func (g *idRegistry) put(kind string, parent []byte, i int, id [32]byte) {
	key := fmt.Sprintf("%s|%x|%d", kind, parent, i)
	g.mu.Lock()
	defer g.mu.Unlock()
	if old, ok := g.byID[id]; ok {
		if old != key {
			g.clash = append(g.clash, old+" = "+key)
			g.kinds[kind]++
			g.n++
		}
		return
	}
	g.byID[id] = key
	g.kinds[kind]++
	g.n++
}

func (g *idRegistry) v1txn(txn *types.Transaction) {
	txid := txn.ID()
	g.put("v1txid", txid[:], -1, txid)
	for i := 0; i <= len(txn.SiacoinOutputs); i++ {
		g.put("v1scoid", txid[:], i, txn.SiacoinOutputID(i))
	}
	for i := 0; i <= len(txn.SiafundOutputs); i++ {
		sfoid := txn.SiafundOutputID(i)
		g.put("v1sfoid", txid[:], i, sfoid)
		g.put("v1claimout", sfoid[:], -1, sfoid.ClaimOutputID())
		g.put("v2claimout", sfoid[:], -1, sfoid.V2ClaimOutputID())
	}
	for i := 0; i <= len(txn.FileContracts); i++ {
		fcid := txn.FileContractID(i)
		g.put("v1fcid", txid[:], i, fcid)
		n := 2
		if i < len(txn.FileContracts) {
			n = len(txn.FileContracts[i].ValidProofOutputs) + len(txn.FileContracts[i].MissedProofOutputs)
		}
		for j := 0; j <= n; j++ {
			g.put("v1validout", fcid[:], j, fcid.ValidOutputID(j))
			g.put("v1missedout", fcid[:], j, fcid.MissedOutputID(j))
		}
	}
	for _, in := range txn.SiafundInputs {
		g.put("v1claimout", in.ParentID[:], -1, in.ParentID.ClaimOutputID())
	}
}

func (g *idRegistry) contract(fcid types.FileContractID) {
	g.put("v2renterout", fcid[:], -1, fcid.V2RenterOutputID())
	g.put("v2hostout", fcid[:], -1, fcid.V2HostOutputID())
	g.put("v2renewalid", fcid[:], -1, types.Hash256(fcid.V2RenewalID()))
}

func (g *idRegistry) v2txn(txn *types.V2Transaction) {
	txid := txn.ID()
	g.put("v2txid", txid[:], -1, txid)
	for i := 0; i <= len(txn.SiacoinOutputs); i++ {
		g.put("v2scoid", txid[:], i, txn.SiacoinOutputID(txid, i))
	}
	for i := 0; i <= len(txn.SiafundOutputs); i++ {
		sfoid := txn.SiafundOutputID(txid, i)
		g.put("v2sfoid", txid[:], i, sfoid)
		g.put("v2claimout", sfoid[:], -1, sfoid.V2ClaimOutputID())
	}
	for i := 0; i <= len(txn.FileContracts); i++ {
		fcid := txn.V2FileContractID(txid, i)
		g.put("v2fcid", txid[:], i, fcid)
		g.contract(fcid)
	}
	for i := 0; i <= len(txn.Attestations); i++ {
		g.put("attestationid", txid[:], i, txn.AttestationID(txid, i))
	}
	for _, in := range txn.SiafundInputs {
		g.put("v2claimout", in.Parent.ID[:], -1, in.Parent.ID.V2ClaimOutputID())
	}
	for _, res := range txn.FileContractResolutions {
		g.contract(res.Parent.ID)
		g.contract(res.Parent.ID.V2RenewalID())
	}
}

func (g *idRegistry) block(b *types.Block) {
	bid := b.ID()
	g.put("blockid", bid[:], -1, bid)
	for i := 0; i <= len(b.MinerPayouts); i++ {
		g.put("minerout", bid[:], i, bid.MinerOutputID(i))
	}
	g.put("foundationout", bid[:], -1, bid.FoundationOutputID())
	for i := range b.Transactions {
		g.v1txn(&b.Transactions[i])
	}
	for i := range b.V2Transactions() {
		g.v2txn(&b.V2.Transactions[i])
	}
}

// ---------------------------------------------------------------------------
// blocks: direction B

func headerAbs(h types.BlockHeader) map[string]any {
	return map[string]any{"ParentID": byteInts(h.ParentID[:]), "Nonce": wb.Words(0, h.Nonce, 4), "Timestamp": wb.Words(0, uint64(h.Timestamp.Unix()), 4), "Commitment": byteInts(h.Commitment[:])}
}

// blockLines logs the identifier of a block and of its header, its commitment (v1 Merkle root or v2 commitment with its
// state leaf), the identifiers of what the block itself creates, and the lines of its transactions.
func (k *checker) blockLines(hv harvested, r *rand.Rand, withTxns bool, eras []eraState, maxLeaves, nEmit int) {
	b := hv.block
	bp := &b
	bid := b.ID()
	src := hv.from
	pay := map[string]any{"type": "V2Block", "bytes_hex": hexOf(wb.TypeByName("V2Block"), (*types.V2Block)(bp)), "height": hv.prev.Index.Height + 1}
	babs := k.abs("V2Block", (*types.V2Block)(bp))
	k.add(&line{kind: "blockid", ev: map[string]any{"v": babs}, got: types.Hash256(bid), redo: func() types.Hash256 { return types.Hash256(bp.ID()) }, src: src, payload: pay})
	hdr := b.Header()
	k.add(&line{kind: "headerid", ev: map[string]any{"v": headerAbs(hdr)}, got: types.Hash256(hdr.ID()), redo: func() types.Hash256 { return types.Hash256(hdr.ID()) }, src: src, payload: pay})
	if b.V2 == nil {
		k.add(&line{kind: "v1commitment", ev: map[string]any{"v": babs}, got: hdr.Commitment, src: src, payload: pay})
	} else if len(b.MinerPayouts) > 0 {
		miner := b.MinerPayouts[0].Address
		st := hv.prev
		sabs, err := wb.AbstractNormalised(k.s, "consensus_State", &st)
		if err != nil {
			k.c.Fatal("bridge: %v", err)
		}
		m := babs.(map[string]any)
		v2 := m["V2"].([]any)[0].(map[string]any)
		k.add(&line{kind: "commitmentleaf", ev: map[string]any{"s": sabs, "id": byteInts(miner[:])}, got: st.MerkleLeafHash(miner),
			redo: func() types.Hash256 { return st.MerkleLeafHash(miner) }, src: src, payload: pay})
		k.add(&line{kind: "v2commitment", ev: map[string]any{"s": sabs, "id": byteInts(miner[:]), "txns": m["Transactions"], "v2txns": v2["Transactions"]},
			got: st.Commitment(miner, b.Transactions, b.V2Transactions()), redo: func() types.Hash256 { return st.Commitment(miner, b.Transactions, b.V2Transactions()) }, src: src, payload: pay})
	}
	i := pickIndex(r, len(b.MinerPayouts))
	k.idLine("minerout", bid, i, bid.MinerOutputID(i), nil, src)
	k.idLine("foundationout", bid, -1, bid.FoundationOutputID(), nil, src)
	if !withTxns {
		return
	}
	for i := range b.Transactions {
		t := &b.Transactions[i]
		k.v1Lines(t, src, r, maxLeaves, nEmit)
		for j := range t.Signatures {
			if j > 0 {
				break
			}
			k.v1SigLines(t, j, []eraState{stateOf(hv.prev)}, src, r, 2)
		}
	}
	for i := range b.V2Transactions() {
		k.v2Lines(&b.V2.Transactions[i], src, []eraState{stateOf(hv.prev)}, r, maxLeaves, nEmit)
	}
}

// ---------------------------------------------------------------------------
// blocks: every content mutation with the header kept is rejected or changes the ID

type blockMutStats struct {
	mutants, idChanged, rejected, panicked int
	byEra                                  map[string]map[string]int
	patterns                               map[string]string
	// the same changes made LATER: to a copy whose identifier was computed and that was validated before
	later, laterIDChanged, laterRejected int
	// members the identifier does not bind (not transmitted): changing one alone must change nothing
	unbound, unboundSame int
	unboundPatterns      map[string]int
}

func isHeaderLeaf(path string, v2 bool) bool {
	p := pattern(path)
	switch {
	case p == "ParentID", p == "Nonce", strings.HasPrefix(p, "Timestamp"):
		return true
	case v2 && p == "V2.Commitment":
		return true
	}
	return false
}

// effectOf applies the block to its parent state and returns the digest of what a node keeps of it: the encoded child
// state and the update handed to subscribers.
func effectOf(hv harvested, b types.Block) (digest string, pan any) {
	defer func() { pan = recover() }()
	cs, au := consensus.ApplyBlock(hv.prev, b, hv.supp, time.Time{})
	js, err := json.Marshal(au)
	if err != nil {
		panic(err)
	}
	enc, p := wb.TypeByName("consensus_State").SafeEncode(&cs)
	if p != nil {
		panic(p)
	}
	h := sha256.Sum256(append(enc, js...))
	return hex.EncodeToString(h[:12]), nil
}

// blockMutations mutates single leaves of an accepted block (header members excepted): the real code must give the
// mutant another ID or refuse it - for a mutant built before anything was computed from it, and for the same change
// made LATER, in place, to a copy of the block whose identifier and header were computed and that ValidateBlock had
// accepted ("any later change to a block's content is rejected or yields a different ID").  Members that no
// identifier binds (the specification's lines mark them as not transmitted: two such blocks are ONE block to every
// other node) must have no effect: same identifier, same verdict, same child state and update.
func (k *checker) blockMutations(hv harvested, r *rand.Rand, maxLeaves int, st *blockMutStats) {
	c := k.c
	b := hv.block
	ptr := (*types.V2Block)(&b)
	leaves, err := wb.Leaves(k.s, "V2Block", ptr)
	if err != nil {
		c.Fatal("bridge (block leaves): %v", err)
	}
	base := k.abs("V2Block", ptr)
	bid := b.ID()
	era := "v1-block"
	if b.V2 != nil {
		era = "v2-block"
	}
	if st.byEra[era] == nil {
		st.byEra[era] = map[string]int{}
	}
	order := r.Perm(len(leaves))
	sort.SliceStable(order, func(i, j int) bool {
		_, a := st.patterns[era+":"+pattern(leaves[order[i]].Path)]
		_, bb := st.patterns[era+":"+pattern(leaves[order[j]].Path)]
		return !a && bb
	})
	validate := func(mb *types.Block) (verr error, pan any) {
		defer func() { pan = recover() }()
		return consensus.ValidateBlock(hv.prev, *mb, hv.supp), nil
	}
	done := 0
	for _, li := range order {
		if done >= maxLeaves {
			break
		}
		if isHeaderLeaf(leaves[li].Path, b.V2 != nil) || leaves[li].Influence == wb.MustNot {
			continue
		}
		seed := r.Int63()
		m := wb.Clone(reflect.ValueOf(ptr)).Interface().(*types.V2Block)
		leaf, err := wb.MutateLeaf(k.s, "V2Block", m, li, rand.New(rand.NewSource(seed)))
		if err != nil {
			continue
		}
		mabs, err := wb.Abstract(k.s, "V2Block", m)
		if err != nil || wb.EqualAbstract(base, mabs) {
			continue
		}
		done++
		mb := (*types.Block)(m)
		var mid types.BlockID
		if pan, _ := recoverHash(func() types.Hash256 { mid = mb.ID(); return types.Hash256{} }); pan != nil {
			st.panicked++
			continue
		}
		st.mutants++
		st.patterns[era+":"+pattern(leaf.Path)] = "mutated"
		if mid != bid {
			st.idChanged++
			st.byEra[era]["id-changed"]++
		} else {
			verr, pan := validate(mb)
			switch {
			case pan != nil:
				st.panicked++ // a crash is not an acceptance (crashes are judged by C10)
				st.byEra[era]["panicked"]++
			case verr != nil:
				st.rejected++
				st.byEra[era]["rejected"]++
			default:
				key := "block/" + era + "/content-change-accepted-under-same-id:" + fieldKey(leaf.Path)
				c.Violation(key, fmt.Sprintf("%s: changing %s alone (header kept) leaves Block.ID() unchanged and ValidateBlock accepts the changed block", era, leaf.Path),
					map[string]any{"leaf": leaf.Path, "height": hv.prev.Index.Height + 1, "block_id": hex.EncodeToString(bid[:]),
						"block_hex": hexOf(wb.TypeByName("V2Block"), ptr), "mutant_hex": hexOf(wb.TypeByName("V2Block"), m)})
			}
		}
		// ---- the same change, later: the copy has been identified and validated, then it is changed in place
		u := wb.Fresh(reflect.ValueOf(ptr)).Interface().(*types.V2Block)
		ub := (*types.Block)(u)
		if pan, _ := recoverHash(func() types.Hash256 { ub.Header(); return types.Hash256(ub.ID()) }); pan != nil {
			continue
		}
		if verr, pan := validate(ub); verr != nil || pan != nil {
			continue // (a copy of an accepted block that is refused is C09's subject)
		}
		if _, err := wb.MutateLeaf(k.s, "V2Block", u, li, rand.New(rand.NewSource(seed))); err != nil {
			continue
		}
		var uid types.BlockID
		if pan, _ := recoverHash(func() types.Hash256 { uid = ub.ID(); return types.Hash256{} }); pan != nil {
			continue
		}
		st.later++
		if uid != mid {
			key := "block/" + era + "/later-change/id-differs-from-fresh-mutant"
			c.Violation(key, fmt.Sprintf("%s: %s changed in place after the block was identified and validated: Block.ID() is %x, the same content built afresh has %x", era, leaf.Path, uid[:6], mid[:6]),
				map[string]any{"leaf": leaf.Path, "height": hv.prev.Index.Height + 1, "block_id": hex.EncodeToString(bid[:]), "type": "V2Block", "bytes_hex": hexOf(wb.TypeByName("V2Block"), ptr),
					"mutant_hex": hexOf(wb.TypeByName("V2Block"), m)})
		}
		if uid != bid {
			st.laterIDChanged++
			continue
		}
		verr, pan := validate(ub)
		switch {
		case pan != nil:
		case verr != nil:
			st.laterRejected++
		default:
			key := "block/" + era + "/later-change-accepted-under-same-id"
			c.Violation(key, fmt.Sprintf("%s: %s changed in place after the block was identified and validated (header kept): Block.ID() is unchanged and ValidateBlock accepts the changed block", era, leaf.Path),
				map[string]any{"leaf": leaf.Path, "height": hv.prev.Index.Height + 1, "block_id": hex.EncodeToString(bid[:]), "type": "V2Block", "bytes_hex": hexOf(wb.TypeByName("V2Block"), ptr),
					"mutant_hex": hexOf(wb.TypeByName("V2Block"), m)})
		}
	}

	// ---- members no identifier binds
	var nts []int
	for _, li := range r.Perm(len(leaves)) {
		// (the sub-second part of the header's timestamp is a header member: the property keeps header members fixed)
		if leaves[li].Influence == wb.MustNot && !isHeaderLeaf(leaves[li].Path, b.V2 != nil) {
			nts = append(nts, li)
		}
	}
	if len(nts) == 0 {
		return
	}
	sort.SliceStable(nts, func(i, j int) bool {
		return st.unboundPatterns[era+":"+pattern(leaves[nts[i]].Path)] < st.unboundPatterns[era+":"+pattern(leaves[nts[j]].Path)]
	})
	baseEffect, bpan := effectOf(hv, (types.Block)(*wb.Fresh(reflect.ValueOf(ptr)).Interface().(*types.V2Block)))
	if bpan != nil {
		return // an accepted block that cannot be applied is not this property's subject (C10)
	}
	for n, li := range nts {
		if n >= maxLeaves/3+2 {
			break
		}
		m := wb.Clone(reflect.ValueOf(ptr)).Interface().(*types.V2Block)
		leaf, err := wb.MutateLeaf(k.s, "V2Block", m, li, r)
		if err != nil {
			continue
		}
		mabs, err := wb.Abstract(k.s, "V2Block", m)
		if err != nil {
			continue
		}
		if !wb.EqualAbstract(base, mabs) {
			c.Infra("block: changing the untransmitted member %s changed the block's abstract value", leaf.Path)
			continue
		}
		if reflect.DeepEqual(*m, *ptr) && leaf.Kind != "nanos" {
			continue
		}
		mb := (*types.Block)(m)
		st.unbound++
		st.unboundPatterns[era+":"+pattern(leaf.Path)]++
		pay := map[string]any{"leaf": leaf.Path, "height": hv.prev.Index.Height + 1, "block_id": hex.EncodeToString(bid[:]), "type": "V2Block", "bytes_hex": hexOf(wb.TypeByName("V2Block"), ptr),
			"block": fmt.Sprintf("%+v", b), "changed_block": fmt.Sprintf("%+v", *mb), "source": hv.from}
		fk := fieldKey(leaf.Path)
		if pan, id := recoverHash(func() types.Hash256 { return types.Hash256(mb.ID()) }); pan != nil || id != types.Hash256(bid) {
			c.Violation("block/"+era+"/untransmitted-member-bound:"+fk, fmt.Sprintf("%s: %s is not transmitted, yet changing it alone changes Block.ID() (%v)", era, leaf.Path, pan), pay)
			continue
		}
		if verr, pan := validate(mb); verr != nil || pan != nil {
			c.Violation("block/"+era+"/untransmitted-member-decides-verdict:"+fk,
				fmt.Sprintf("%s: %s is not transmitted and no identifier binds it, yet with it changed the accepted block is refused (%v %v)", era, leaf.Path, verr, pan), pay)
			continue
		}
		eff, pan := effectOf(hv, *mb)
		if pan != nil || eff != baseEffect {
			c.Violation("block/"+era+"/unbound-member-has-effect:"+fk,
				fmt.Sprintf("%s: %s is not transmitted and no identifier binds it (same Block.ID(), same transaction IDs), yet with it changed ApplyBlock yields another child state or update (%v)", era, leaf.Path, pan), pay)
			continue
		}
		st.unboundSame++
	}
}
