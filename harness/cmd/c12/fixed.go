package main

// Fixed behaviours of Ledger.tla that are run besides the ones TLC draws, so that whatever the seed the blocks whose
// members are NOT bound by any identifier occur in the positions where such a member could reach the state: a v1
// contract formed and revised, revised twice, revised and proved in one block.  The payout of a v1 revision is not
// transmitted (WireTypes!FileContractRevision), so it is in no identifier and in no signature hash; the property
// ("identifiers bind EXACTLY the effect-bearing content") then demands that it has no effect.  (The same behaviours
// are used by C09 for the agreement of copies; they are repeated here because a check owns its cases.)

import (
	"encoding/json"
	"fmt"

	"verif/harness/chain"
	"verif/harness/vlib"
)

func c1JSON(ws, we, rn uint64, shift int) json.RawMessage {
	out := func(v int, a string) map[string]any { return map[string]any{"val": v, "addr": a} }
	b, _ := json.Marshal(map[string]any{"pay": 256411, "vo": []any{out(123205-shift, "B"), out(123206+shift, "B")},
		"mo": []any{out(123205-shift, "B"), out(82138+shift, "B"), out(41068, "V")}, "ws": ws, "we": we, "rn": rn, "size": 64, "owner": "B"})
	return b
}

type fixedBehaviour struct {
	name  string
	steps []chain.Step
}

func fixedBehaviours() []fixedBehaviour {
	block := func(txs ...chain.AbsTx) chain.Step { return chain.Step{Op: "block", Verdict: "accept", Txs: txs} }
	sc := func(i int) chain.SID { return chain.SID{chain.SCO, 0, 0, i, 0} }
	sf := func(i int) chain.SID { return chain.SID{chain.SFO, 0, 0, i, 0} }
	in := func(ids ...chain.SID) (out []chain.AbsIn) {
		for _, id := range ids {
			out = append(out, chain.AbsIn{ID: id, Auth: "ok"})
		}
		return
	}
	fc1 := chain.SID{chain.FC1, 1, 0, 1, 0}
	noRen := chain.AbsRen{Auth: "ok", Nc: chain.AbsC2{Null: true}}
	sfTx := chain.AbsTx{Ver: 1, Sfi: []chain.AbsSfIn{{ID: sf(1), Claim: "A", Auth: "ok"}}, Sfo: []chain.AbsOut{{Val: 3000, Addr: "B"}, {Val: 4000, Addr: "A"}}, Tag: "sf"}
	form := chain.AbsTx{Ver: 1, Sci: in(sc(2)), Fc: []json.RawMessage{c1JSON(3, 5, 0, 0)}, Tag: "form1"}
	rev := func(rn uint64, shift int) chain.AbsTx {
		return chain.AbsTx{Ver: 1, Rev: []chain.AbsRev{{Cid: fc1, C: c1JSON(3, 5, rn, shift), Auth: "ok"}}, Tag: "rev1"}
	}
	return []fixedBehaviour{
		{"v1-form-and-revise-in-one-block", []chain.Step{block(form, rev(1, 24)), block(rev(2, 48))}},
		{"v1-two-revisions-in-one-block", []chain.Step{block(form), block(rev(1, 24), rev(2, 48), sfTx)}},
		{"v1-revise-then-prove-in-one-block", []chain.Step{block(form),
			block(chain.AbsTx{Ver: 1, Sci: in(sc(3)), Sco: []chain.AbsOut{{Val: 1199, Addr: "A"}}, Tag: "pay"}),
			block(rev(1, 24), chain.AbsTx{Ver: 1, Res: []chain.AbsRes{{Cid: fc1, Kind: "proof", Pf: "ok", Ren: noRen}}, Tag: "prove1"})}},
	}
}

// runFixed executes the fixed behaviours on the real code and returns their accepted blocks.
func runFixed(c *vlib.Ctx) (out []harvested, ran int) {
	for _, f := range fixedBehaviours() {
		sim := chain.NewSim(chain.Shapes()["v1only"])
		ok := true
		for i, st := range f.steps {
			res, infra := sim.RunStep(i, st)
			if infra != nil {
				c.Infra("fixed behaviour %s: step %d could not be built (%v)", f.name, i, infra)
				ok = false
				break
			}
			if !res.Accepted || len(sim.Chain) == 0 {
				// an honest block of the model that the code under test refuses (or crashes on): not a defect of the check
				c.Violation("honest-block-refused/"+f.name, fmt.Sprintf("the honest block %d of the fixed behaviour %s is not accepted by the real code (%v %v)", i, f.name, res.Err, res.Mismatches),
					map[string]any{"behaviour": f.name, "step": i})
				ok = false
				break
			}
			a := sim.Chain[len(sim.Chain)-1]
			out = append(out, harvested{a.Prev, a.Block, a.Supp, "fixed-" + f.name})
		}
		if ok {
			ran++
		}
	}
	return out, ran
}
