package main

import (
	"bytes"
	"encoding"
	"encoding/json"
	"fmt"
	"hash/fnv"
	"math/rand"
	"reflect"
	"sort"
	"strings"

	"go.sia.tech/core/consensus"
	rhp2 "go.sia.tech/core/rhp/v2"
	rhp3 "go.sia.tech/core/rhp/v3"
	rhp4 "go.sia.tech/core/rhp/v4"
	"go.sia.tech/core/types"
	"verif/harness/vlib"
	wb "verif/harness/wirebridge"
)

var (
	jsonUnmarshalerT = reflect.TypeOf((*json.Unmarshaler)(nil)).Elem()
	textUnmarshalerT = reflect.TypeOf((*encoding.TextUnmarshaler)(nil)).Elem()
)

// A jroot is one JSON / text entry point: a Go type that documents are unmarshalled into.
type jroot struct {
	Name   string
	T      reflect.Type
	Custom bool // the type has its own UnmarshalJSON
	Text   bool // the type has UnmarshalText
}

// extraRoots are exported types that travel as JSON but have no binary codec of their own.
var extraRoots = []any{
	types.Block{}, types.Currency{}, consensus.ApplyUpdate{}, consensus.RevertUpdate{}, consensus.Network{},
	consensus.V2FileContractElementDiff{}, consensus.FileContractElementDiff{}, consensus.SiacoinElementDiff{}, consensus.SiafundElementDiff{},
	rhp2.HostSettings{}, rhp2.ContractRevision{}, rhp3.HostPriceTable{}, rhp3.RegistryEntry{}, rhp4.ProtocolVersion{}, types.AttestationElement{},
}

func nameHash(s string) int64 {
	h := fnv.New64a()
	h.Write([]byte(s))
	return int64(h.Sum64() >> 1)
}

func typeName(t reflect.Type) string {
	p := t.PkgPath()
	p = strings.TrimPrefix(p, "go.sia.tech/core/")
	p = strings.ReplaceAll(p, "/", "")
	if p == "" {
		return t.String()
	}
	return p + "." + t.Name()
}

// roots enumerates by reflection every named type of core reachable from the registered wire types (and the
// extra roots): each is an entry point for json.Unmarshal; those with UnmarshalText are also text entry points.
func roots() []jroot {
	seen := map[reflect.Type]bool{}
	var out []jroot
	var walk func(t reflect.Type)
	walk = func(t reflect.Type) {
		if seen[t] {
			return
		}
		seen[t] = true
		if strings.HasPrefix(t.PkgPath(), "go.sia.tech/core") && t.Name() != "" && t.Kind() != reflect.Interface {
			pt := reflect.PointerTo(t)
			out = append(out, jroot{Name: typeName(t), T: t, Custom: pt.Implements(jsonUnmarshalerT), Text: pt.Implements(textUnmarshalerT)})
		}
		switch t.Kind() {
		case reflect.Struct:
			if t.String() == "time.Time" {
				return
			}
			for i := 0; i < t.NumField(); i++ {
				walk(t.Field(i).Type)
			}
		case reflect.Slice, reflect.Array, reflect.Ptr:
			walk(t.Elem())
		case reflect.Interface:
			for _, v := range wb.Variants[t] {
				walk(v)
			}
		}
	}
	for _, w := range wb.Types() {
		walk(w.GoType)
	}
	for _, x := range extraRoots {
		walk(reflect.TypeOf(x))
	}
	sort.SliceStable(out, func(i, j int) bool { return out[i].Name < out[j].Name })
	return out
}

// validDocs returns distinct valid JSON documents of a root (marshalled generated values: zero, maximal, empty, random).
func validDocs(rt jroot, r *rand.Rand, n int) [][]byte {
	g := wb.NewGen(r)
	var docs [][]byte
	seen := map[string]bool{}
	for i := 0; i < n+3 && len(docs) < n; i++ {
		mode := wb.Random
		switch i {
		case 0:
			mode = wb.Max
		case 1:
			mode = wb.Empty
		case 2:
			mode = wb.Zero
		}
		g.Budget = 4 + r.Intn(10)
		var doc []byte
		var err error
		if p, _ := vlib.Recover(func() {
			ptr := g.New(rt.T, mode).Interface()
			wb.FixValue(r, ptr)
			doc, err = json.Marshal(ptr)
		}); p || err != nil || len(doc) == 0 || len(doc) > 40000 {
			continue
		}
		if !seen[string(doc)] {
			seen[string(doc)] = true
			docs = append(docs, doc)
		}
	}
	return docs
}

// validTexts returns distinct valid texts of a text root.
func validTexts(rt jroot, r *rand.Rand, n int) [][]byte {
	g := wb.NewGen(r)
	var out [][]byte
	seen := map[string]bool{}
	for i := 0; i < n+3 && len(out) < n; i++ {
		mode := wb.Random
		if i == 0 {
			mode = wb.Max
		} else if i == 1 {
			mode = wb.Zero
		}
		var txt []byte
		var err error
		if p, _ := vlib.Recover(func() {
			v := g.New(rt.T, mode)
			if m, ok := v.Interface().(encoding.TextMarshaler); ok {
				txt, err = m.MarshalText()
			} else if m, ok := v.Elem().Interface().(encoding.TextMarshaler); ok {
				txt, err = m.MarshalText()
			} else {
				err = fmt.Errorf("no MarshalText")
			}
		}); p || err != nil {
			continue
		}
		if !seen[string(txt)] {
			seen[string(txt)] = true
			out = append(out, txt)
		}
	}
	return out
}

// ---- ordered JSON trees ----------------------------------------------------------------

type jobj struct {
	keys []string
	vals []any
}
type jarr []any
type jraw string // scalar, as written

func parseTree(doc []byte) (any, error) {
	d := json.NewDecoder(bytes.NewReader(doc))
	d.UseNumber()
	var read func() (any, error)
	read = func() (any, error) {
		tok, err := d.Token()
		if err != nil {
			return nil, err
		}
		switch t := tok.(type) {
		case json.Delim:
			switch t {
			case '{':
				o := &jobj{}
				for d.More() {
					k, err := d.Token()
					if err != nil {
						return nil, err
					}
					v, err := read()
					if err != nil {
						return nil, err
					}
					o.keys = append(o.keys, k.(string))
					o.vals = append(o.vals, v)
				}
				_, err := d.Token()
				return o, err
			case '[':
				var a jarr
				for d.More() {
					v, err := read()
					if err != nil {
						return nil, err
					}
					a = append(a, v)
				}
				_, err := d.Token()
				return a, err
			}
			return nil, fmt.Errorf("unexpected %v", t)
		case string:
			b, _ := json.Marshal(t)
			return jraw(b), nil
		case json.Number:
			return jraw(t.String()), nil
		case bool:
			if t {
				return jraw("true"), nil
			}
			return jraw("false"), nil
		case nil:
			return jraw("null"), nil
		}
		return nil, fmt.Errorf("unexpected token %T", tok)
	}
	return read()
}

// A jnode addresses one node: the path of object keys / array indices from the root.
type jnode struct {
	path   []any
	member bool   // the node is the value of an object member
	text   string // scalar text ("" for containers)
}

func listNodes(v any, path []any, member bool, out *[]jnode) {
	n := jnode{path: append([]any{}, path...), member: member}
	if r, ok := v.(jraw); ok {
		n.text = string(r)
	}
	*out = append(*out, n)
	switch x := v.(type) {
	case *jobj:
		for i, k := range x.keys {
			listNodes(x.vals[i], append(path, k), true, out)
		}
	case jarr:
		for i, e := range x {
			listNodes(e, append(path, i), false, out)
		}
	}
}

func pathString(p []any) string {
	var sb strings.Builder
	for _, e := range p {
		switch x := e.(type) {
		case string:
			if sb.Len() > 0 {
				sb.WriteByte('.')
			}
			sb.WriteString(x)
		case int:
			sb.WriteString("[]")
		}
	}
	if sb.Len() == 0 {
		return "-"
	}
	return sb.String()
}

func samePath(a, b []any) bool {
	if len(a) != len(b) {
		return false
	}
	for i := range a {
		if a[i] != b[i] {
			return false
		}
	}
	return true
}

// render writes the tree with the node at target changed: op "set" (repl replaces it), "dup" (its member appears twice),
// "del" (its member is dropped), "add" (an unknown member is added next to it).
func render(sb *strings.Builder, v any, path, target []any, op, repl string) {
	if op == "set" && samePath(path, target) {
		sb.WriteString(repl)
		return
	}
	switch x := v.(type) {
	case jraw:
		sb.WriteString(string(x))
	case *jobj:
		sb.WriteByte('{')
		first := true
		emit := func(k string, val any, p []any) {
			if !first {
				sb.WriteByte(',')
			}
			first = false
			kb, _ := json.Marshal(k)
			sb.Write(kb)
			sb.WriteByte(':')
			render(sb, val, p, target, op, repl)
		}
		for i, k := range x.keys {
			p := append(append([]any{}, path...), k)
			hit := samePath(p, target)
			if hit && op == "del" {
				continue
			}
			emit(k, x.vals[i], p)
			if hit && op == "dup" {
				emit(k, x.vals[i], p)
			}
			if hit && op == "add" {
				emit("zzUnknownMember", jraw(repl), nil)
			}
		}
		sb.WriteByte('}')
	case jarr:
		sb.WriteByte('[')
		for i, e := range x {
			if i > 0 {
				sb.WriteByte(',')
			}
			render(sb, e, append(append([]any{}, path...), i), target, op, repl)
		}
		sb.WriteByte(']')
	}
}

// ---- generators of the catalogue's "how" ----------------------------------------------------

func hexDigits(n int) string {
	const pat = "0123456789abcdef"
	b := make([]byte, n)
	for i := range b {
		b[i] = pat[(i*7+3)%16]
	}
	return string(b)
}

func digits(n int) string {
	b := make([]byte, n)
	for i := range b {
		b[i] = byte('1' + (i*3)%9)
	}
	return string(b)
}

func letters(n int) string {
	b := make([]byte, n)
	for i := range b {
		b[i] = byte('a' + i%26)
	}
	return string(b)
}

// prefixOf is the identifier prefix of a printed value: "addr:" of "addr:00ff...", "ed25519:" of a key, "" if none.
func prefixOf(s string) string {
	s = strings.Trim(s, `"`)
	if i := strings.LastIndex(s, ":"); i >= 0 && i < 24 {
		return s[:i+1]
	}
	return ""
}

func nestedPolicy(n int) string {
	return strings.Repeat("thresh(1,[", n) + "above(0)" + strings.Repeat("])", n)
}

// textOf generates the replacement of an entry; quoted says whether string-valued results are JSON strings.
// ok=false: the entry does not produce a replacement of this kind (structural entries, missing prefix).
func textOf(e jentry, orig string, quoted bool) (string, bool) {
	q := func(s string) string {
		if quoted {
			return `"` + s + `"`
		}
		return s
	}
	switch e.How {
	case "lit":
		return e.Text, true
	case "hex":
		return q(hexDigits(e.N)), true
	case "prefix-hex":
		p := prefixOf(orig)
		if p == "" {
			return "", false
		}
		return q(p + hexDigits(e.N)), true
	case "index-hex":
		return q("7::" + hexDigits(e.N)), true
	case "digits":
		return digits(e.N), true
	case "neg-digits":
		return "-" + digits(e.N), true
	case "str-digits":
		return q(digits(e.N)), true
	case "str-neg-digits":
		return q("-" + digits(e.N)), true
	case "str":
		return q(letters(e.N)), true
	case "arrays":
		return strings.Repeat("[", e.N) + "null" + strings.Repeat("]", e.N), quoted
	case "objects":
		return strings.Repeat(`{"a":`, e.N) + "null" + strings.Repeat("}", e.N), quoted
	case "policy":
		return q(nestedPolicy(e.N)), true
	case "policy-arity":
		return q("thresh(1,[" + strings.TrimSuffix(strings.Repeat("above(0),", e.N), ",") + "])"), true
	case "escapes":
		if quoted {
			return `"` + strings.Repeat(`A\n\"`, e.N/3+1) + `"`, true
		}
		return strings.Repeat("\\u0041\\n\\\"", e.N/3+1), true
	case "invalid-utf8":
		return q("ab\xff\xfe\xc0\x80cd"), true
	case "nul":
		if quoted {
			return `"ab\u0000cd"`, true
		}
		return "ab\x00cd", true
	}
	return "", false
}

// heavy entries are costly (megabyte inputs): they are applied to few nodes.
func (e jentry) heavy() bool { return e.N >= 100000 }

// typeAtPath follows a node path through the Go type the document is unmarshalled into and names the type that
// receives the node: the innermost named type of core (a type with its own UnmarshalJSON / UnmarshalText swallows
// everything below it). "" when the path cannot be followed.
func typeAtPath(t reflect.Type, path []any) string {
	name := ""
	note := func(t reflect.Type) bool { // returns true when the type takes over the rest of the document
		if t.Name() != "" && strings.HasPrefix(t.PkgPath(), "go.sia.tech/core") {
			name = typeName(t)
		}
		pt := reflect.PointerTo(t)
		return pt.Implements(jsonUnmarshalerT) || pt.Implements(textUnmarshalerT)
	}
	for t.Kind() == reflect.Ptr {
		t = t.Elem()
	}
	if note(t) {
		return name
	}
	for _, e := range path {
		for t.Kind() == reflect.Ptr {
			t = t.Elem()
		}
		switch k := e.(type) {
		case string:
			if t.Kind() != reflect.Struct {
				return name
			}
			found := false
			var walk func(st reflect.Type) bool
			walk = func(st reflect.Type) bool {
				for i := 0; i < st.NumField(); i++ {
					f := st.Field(i)
					tag := strings.Split(f.Tag.Get("json"), ",")[0]
					if tag == "-" {
						continue
					}
					if f.Anonymous && tag == "" {
						ft := f.Type
						for ft.Kind() == reflect.Ptr {
							ft = ft.Elem()
						}
						if ft.Kind() == reflect.Struct && walk(ft) {
							return true
						}
						continue
					}
					if tag == "" {
						tag = f.Name
					}
					if strings.EqualFold(tag, k) {
						t = f.Type
						return true
					}
				}
				return false
			}
			found = walk(t)
			if !found {
				return name
			}
		case int:
			if t.Kind() != reflect.Slice && t.Kind() != reflect.Array {
				return name
			}
			t = t.Elem()
		}
		for t.Kind() == reflect.Ptr {
			t = t.Elem()
		}
		if note(t) {
			return name
		}
	}
	return name
}

// A jcase is one corrupted document for one entry point.
type jcase struct {
	Leaf                  string // the Go type that receives the corrupted node ("" unknown)
	Class, Variant, Where string
	Doc                   []byte
	Direct                bool // call T.UnmarshalJSON directly (the document need not be valid JSON)
}

// forEachJSONCase enumerates, in a fixed order, the corrupted documents of a root. fn returns false to stop.
func forEachJSONCase(rt jroot, cat *catalogue, seed int64, thorough bool, fn func(i int, jc jcase) bool) {
	r := rand.New(rand.NewSource(seed*1000003 + nameHash(rt.Name)))
	nDocs, maxNodes, heavyNodes, maxCuts := 2, 8, 1, 40
	if thorough {
		nDocs, maxNodes, heavyNodes, maxCuts = 6, 40, 2, 400
	}
	docs := validDocs(rt, r, nDocs)
	docs = append(docs, realDocs(rt)...)
	if len(docs) == 0 {
		docs = [][]byte{[]byte(`{}`), []byte(`""`)}
	}
	i := 0
	emit := func(jc jcase) bool {
		ok := fn(i, jc)
		i++
		return ok
	}
	for di, doc := range docs {
		tree, err := parseTree(doc)
		if err != nil {
			continue
		}
		var nodes []jnode
		listNodes(tree, nil, false, &nodes)
		// sample nodes: the root, then a spread of the rest (scalars preferred: that is where the text parsers live)
		pick := []int{0}
		var scal, cont []int
		for k := 1; k < len(nodes); k++ {
			if nodes[k].text != "" {
				scal = append(scal, k)
			} else {
				cont = append(cont, k)
			}
		}
		r.Shuffle(len(scal), func(a, b int) { scal[a], scal[b] = scal[b], scal[a] })
		r.Shuffle(len(cont), func(a, b int) { cont[a], cont[b] = cont[b], cont[a] })
		// one node per distinct path pattern first
		seenPat := map[string]bool{}
		var rest []int
		for _, k := range append(scal, cont...) {
			p := pathString(nodes[k].path)
			if !seenPat[p] && len(pick) < maxNodes {
				seenPat[p] = true
				pick = append(pick, k)
			} else {
				rest = append(rest, k)
			}
		}
		for _, k := range rest {
			if len(pick) >= maxNodes {
				break
			}
			pick = append(pick, k)
		}
		for ni, k := range pick {
			nd := nodes[k]
			where := pathString(nd.path)
			leaf := typeAtPath(rt.T, nd.path)
			for _, e := range cat.JSONCat {
				if e.heavy() && (di > 0 || ni >= heavyNodes) {
					continue
				}
				var sb strings.Builder
				switch e.How {
				case "cut", "append":
					continue // document level, below
				case "dupkey", "delkey", "addkey":
					if !nd.member {
						continue
					}
					render(&sb, tree, nil, nd.path, e.How[:3], "1")
				case "repeat":
					// the node's own text, n times, as an array
					var self strings.Builder
					renderNode(&self, tree, nd.path)
					if self.Len()*e.N > 400000 {
						continue
					}
					rep := "[" + strings.TrimSuffix(strings.Repeat(self.String()+",", e.N), ",") + "]"
					render(&sb, tree, nil, nd.path, "set", rep)
				default:
					repl, ok := textOf(e, nd.text, true)
					if !ok {
						continue
					}
					render(&sb, tree, nil, nd.path, "set", repl)
				}
				if !emit(jcase{Leaf: leaf, Class: e.Class, Variant: fmt.Sprintf("%s/%d", e.Variant, e.N), Where: where, Doc: []byte(sb.String())}) {
					return
				}
			}
		}
		// document level: cut points, trailing garbage
		for _, e := range cat.JSONCat {
			switch e.How {
			case "cut":
				step := 1
				if len(doc) > maxCuts {
					step = len(doc)/maxCuts + 1
				}
				for k := 0; k < len(doc); k += step {
					if !emit(jcase{Class: e.Class, Variant: e.Variant, Where: "-", Doc: append([]byte{}, doc[:k]...), Direct: rt.Custom}) {
						return
					}
				}
			case "append":
				if !emit(jcase{Class: e.Class, Variant: e.Variant, Where: "-", Doc: append(append([]byte{}, doc...), e.Text...), Direct: rt.Custom}) {
					return
				}
			}
		}
	}
	// a type with its own UnmarshalJSON also gets every replacement text as the whole argument of a direct call
	if rt.Custom {
		for _, e := range cat.JSONCat {
			if e.heavy() && !thorough {
				continue
			}
			for _, quoted := range []bool{true, false} {
				repl, ok := textOf(e, "", quoted)
				if !ok || (e.How == "lit" && !quoted) {
					continue
				}
				if !emit(jcase{Class: e.Class, Variant: fmt.Sprintf("%s/%d", e.Variant, e.N), Where: "-", Doc: []byte(repl), Direct: true}) {
					return
				}
			}
		}
	}
}

func renderNode(sb *strings.Builder, v any, path []any) {
	cur := v
	for _, e := range path {
		switch x := cur.(type) {
		case *jobj:
			for i, k := range x.keys {
				if k == e {
					cur = x.vals[i]
					break
				}
			}
		case jarr:
			cur = x[e.(int)]
		}
	}
	render(sb, cur, nil, []any{struct{}{}}, "none", "")
}

// A tcase is one corrupted identifier text.
type tcase struct {
	Class, Variant string
	Text           []byte
}

func forEachTextCase(rt jroot, cat *catalogue, seed int64, thorough bool, fn func(i int, tc tcase) bool) {
	r := rand.New(rand.NewSource(seed*31 + nameHash(rt.Name)))
	valid := validTexts(rt, r, 3)
	if len(valid) == 0 {
		valid = [][]byte{[]byte("0")}
	}
	i := 0
	emit := func(tc tcase) bool {
		ok := fn(i, tc)
		i++
		return ok
	}
	for vi, txt := range valid {
		for _, e := range cat.TextCat {
			if e.heavy() && vi > 0 {
				continue
			}
			if e.How == "cut" {
				for k := 0; k < len(txt); k++ {
					if !emit(tcase{e.Class, fmt.Sprintf("%s/%d", e.Variant, k), append([]byte{}, txt[:k]...)}) {
						return
					}
				}
				continue
			}
			if vi > 0 && e.How != "prefix-hex" {
				continue // independent of the valid text
			}
			s, ok := textOf(e, string(txt), false)
			if !ok {
				continue
			}
			if !emit(tcase{e.Class, fmt.Sprintf("%s/%d", e.Variant, e.N), []byte(s)}) {
				return
			}
		}
	}
}
