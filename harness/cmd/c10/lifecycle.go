package main

import (
	"encoding/json"
	"fmt"
	"math"
	"strconv"

	"go.sia.tech/core/types"
	"verif/harness/chain"
	"verif/harness/vlib"
)

// The "lifecycle" family of Extremes.tla: a contract is FORMED with an extreme file size (a valid formation: the size is
// just a number), lives on the chain, and when its proof window opens storage proofs of every length are offered for it.
// This reaches the proof arithmetic (leaf index, subtree height, proof root) with sizes that no honest file has, on states
// reachable by valid history. Afterwards the contract expires (v2: expiration resolution; v1: expiring supplement).

func sizeVal(x string) (uint64, bool) {
	switch x {
	case "2^63":
		return 1 << 63, true
	case "2^63+64":
		return 1<<63 + 64, true
	case "2^64-1":
		return math.MaxUint64, true
	}
	v, err := strconv.ParseUint(x, 10, 64)
	return v, err == nil
}

func runLifecycle(c *vlib.Ctx, st *ledgerStats, exts []ext) {
	type plan struct {
		ver    int
		size   string
		proofs []ext
	}
	plans := map[string]*plan{}
	var order []string
	for _, e := range exts {
		if e.Fam != "lifecycle" {
			continue
		}
		k := fmt.Sprint(e.Ver, "/", e.X)
		if plans[k] == nil {
			plans[k] = &plan{ver: e.Ver, size: e.X}
			order = append(order, k)
		}
		plans[k].proofs = append(plans[k].proofs, e)
	}
	g := newGuard()
	for _, k := range order {
		pl := plans[k]
		size, ok := sizeVal(pl.size)
		if !ok {
			st.unknown["lifecycle size "+pl.size] = true
			continue
		}
		if p, val := vlib.Recover(func() { lifecycleOne(c, st, g, pl.ver, size, pl.proofs) }); p {
			c.Infra("lifecycle scenario v%d size %s failed in the harness: %v", pl.ver, pl.size, val)
		}
	}
}

func lifecycleOne(c *vlib.Ctx, st *ledgerStats, g *guard, ver int, size uint64, proofs []ext) {
	shape := "v1only"
	if ver == 2 {
		shape = "v2only"
	}
	p := c10Shapes()[shape]
	sim := chain.NewSim(p)
	keys := keyMap(sim)
	count := func(entry string, ok bool) {
		st.mu.Lock()
		st.perEntry[entry]++
		if ok {
			st.perEntryOK[entry]++
		}
		st.mu.Unlock()
	}
	report := func(m *mctx, e ext, lo *ledgerOutcome, what string) {
		if lo == nil || !lo.O.bad() {
			return
		}
		site := ledgerSite(lo.O.Stack)
		if site == "" {
			site = lo.Entry
		}
		kind := "panics: " + lo.O.Panic
		if lo.O.TimedOut {
			kind = fmt.Sprintf("has not returned after %v", longDeadline)
		}
		c.Violation("ledger/"+site+"/"+e.class(), fmt.Sprintf("%s %s on %s (contract formed with file size %d, v%d)", lo.Entry, kind, what, size, ver),
			map[string]any{"entry": lo.Entry, "extreme": e, "panic": lo.O.Panic, "stack": lo.O.Stack, "block": mustJSON(m.b), "supplement": mustJSON(m.bs), "state": mustJSON(m.cs)})
	}
	tally := func(e ext, accepted bool) {
		st.mu.Lock()
		st.mutants++
		st.perFam["lifecycle"]++
		st.distinct[fmt.Sprint("lifecycle", e.Ver, e.X, e.X2)] = true
		if accepted {
			st.appliedReverted++
			st.accepted[e.class()]++
		}
		st.mu.Unlock()
	}
	form := ext{Fam: "lifecycle", Ver: ver, T: "filesize", X: fmt.Sprint(size), T2: "formation", X2: "-"}

	// ---- block 1: formation, then the extreme size, signed and sealed again
	ctx := sim.NewBlockCtx()
	var abs chain.AbsTx
	if ver == 2 {
		fc, _ := json.Marshal(map[string]any{"r": 250024, "h": 25, "ra": "A", "ha": "B", "mh": 19, "coll": 12, "ph": 2, "eh": 4, "rn": 0, "cap": 128, "size": 64, "rk": "R", "hk": "H", "auth": "ok"})
		abs = chain.AbsTx{Ver: 2, Sci: []chain.AbsIn{{ID: chain.SID{chain.SCO, 0, 0, 1, 0}, Auth: "ok"}}, Fc: []json.RawMessage{fc},
			Sco: []chain.AbsOut{{Val: 600000 - 260050, Addr: "A"}}, Tag: "form2"}
	} else {
		out := func(v int, a string) map[string]any { return map[string]any{"val": v, "addr": a} }
		fc, _ := json.Marshal(map[string]any{"pay": 256411, "vo": []any{out(123205, "B"), out(123206, "B")}, "mo": []any{out(123205, "B"), out(82138, "B"), out(41068, "V")},
			"ws": 2, "we": 4, "rn": 0, "size": 64, "owner": "B"})
		abs = chain.AbsTx{Ver: 1, Sci: []chain.AbsIn{{ID: chain.SID{chain.SCO, 0, 0, 2, 0}, Auth: "ok"}}, Fc: []json.RawMessage{fc}, Tag: "form1"}
	}
	if err := ctx.Add(abs); err != nil {
		c.Infra("lifecycle: cannot build the formation: %v", err)
		return
	}
	m := &mctx{sim: sim, cs: sim.CS, child: 1, ver: ver, k: 0, keys: keys}
	m.b, m.bs = sim.Seal(ctx.V1, ctx.V2), sim.Supplement(ctx.V1)
	if ver == 2 {
		fc := &m.b.V2.Transactions[0].FileContracts[0]
		fc.Filesize, fc.Capacity = size, size
	} else {
		m.b.Transactions[0].FileContracts[0].Filesize = size
	}
	m.resign()
	m.reseal()
	lo := m.exercise(g, count)
	tally(form, lo != nil && lo.Accepted)
	report(m, form, lo, "the formation block")
	if lo == nil || !lo.Accepted {
		c.Infra("lifecycle: the formation of a v%d contract with file size %d is not accepted", ver, size)
		return
	}
	ctx.Commit()
	sim.Apply(m.b, m.bs)
	// ---- empty blocks until the proof window is open (child height 3: the block at height 2 exists)
	for sim.CS.Index.Height < 2 {
		if res, infra := sim.RunStep(0, chain.Step{Op: "block", Verdict: "accept"}); infra != nil || !res.Accepted {
			c.Infra("lifecycle: empty block not accepted: %v %v", infra, res.Err)
			return
		}
	}
	// ---- storage proofs of every length
	for _, e := range proofs {
		n, err := strconv.Atoi(e.X2)
		if err != nil {
			st.unknown["lifecycle proof length "+e.X2] = true
			continue
		}
		proof := make([]types.Hash256, n)
		for i := range proof {
			proof[i] = hashN(i)
		}
		var leaf [64]byte
		leaf[0] = 7
		pm := &mctx{sim: sim, cs: sim.CS, child: sim.CS.Index.Height + 1, ver: ver, k: 0, keys: keys}
		if ver == 2 {
			var fce types.V2FileContractElement
			for _, x := range sim.Store.V2FC {
				fce = x.Copy()
			}
			cie, ok := sim.Store.CIE[fce.V2FileContract.ProofHeight]
			if !ok {
				c.Infra("lifecycle: no chain index element at the proof height")
				return
			}
			txn := types.V2Transaction{FileContractResolutions: []types.V2FileContractResolution{{Parent: fce,
				Resolution: &types.V2StorageProof{ProofIndex: cie.Copy(), Leaf: leaf, Proof: proof}}}}
			pm.b, pm.bs = sim.Seal(nil, []types.V2Transaction{txn}), sim.Supplement(nil)
		} else {
			var fcid types.FileContractID
			for id := range sim.Store.FC {
				fcid = id
			}
			txn := types.Transaction{StorageProofs: []types.StorageProof{{ParentID: fcid, Leaf: leaf, Proof: proof}}}
			pm.b, pm.bs = sim.Seal([]types.Transaction{txn}, nil), sim.Supplement([]types.Transaction{txn})
			if len(pm.bs.Transactions) != 1 || len(pm.bs.Transactions[0].StorageProofs) != 1 {
				c.Infra("lifecycle: the honest store supplies no storage proof supplement")
				return
			}
		}
		lo := pm.exercise(g, count)
		tally(e, lo != nil && lo.Accepted)
		report(pm, e, lo, fmt.Sprintf("a storage proof of %d hashes", n))
	}
	// ---- the contract ends: v2 expiration after the expiration height, v1 missed-proof payout at the window end
	end := ext{Fam: "lifecycle", Ver: ver, T: "filesize", X: fmt.Sprint(size), T2: "end", X2: "-"}
	for sim.CS.Index.Height < 3 || (ver == 2 && sim.CS.Index.Height < 4) {
		if res, infra := sim.RunStep(0, chain.Step{Op: "block", Verdict: "accept"}); infra != nil || !res.Accepted {
			c.Infra("lifecycle: empty block not accepted: %v %v", infra, res.Err)
			return
		}
	}
	em := &mctx{sim: sim, cs: sim.CS, child: sim.CS.Index.Height + 1, ver: ver, k: 0, keys: keys}
	if ver == 2 {
		var fce types.V2FileContractElement
		for _, x := range sim.Store.V2FC {
			fce = x.Copy()
		}
		txn := types.V2Transaction{FileContractResolutions: []types.V2FileContractResolution{{Parent: fce, Resolution: &types.V2FileContractExpiration{}}}}
		em.b, em.bs = sim.Seal(nil, []types.V2Transaction{txn}), sim.Supplement(nil)
	} else {
		em.ver = 0
		em.b, em.bs = sim.Seal(nil, nil), sim.Supplement(nil) // the block at the window end: the supplement names the expiring contract
		if len(em.bs.ExpiringFileContracts) != 1 {
			c.Infra("lifecycle: the honest store names no expiring contract at height %d", em.child)
			return
		}
	}
	lo = em.exercise(g, count)
	tally(end, lo != nil && lo.Accepted)
	report(em, end, lo, "the block that ends the contract")
	if lo == nil || !lo.Accepted {
		c.Infra("lifecycle: the end of a v%d contract with file size %d is not accepted", ver, size)
	}
}

// runWrapScenario: the "wrap" entries for v2 siafund parents, on the state they are about. Below EphemeralOutputHeight the
// value an input states for a parent created in the same block is taken on trust. Block 1 of the shape in which that era
// lasts: transaction 1 splits the genesis siafund output in two; transaction 2 spends both new outputs stating the values
// (x, 2^64 - x + 1) and creates one output of 1 SF. The state's siafund pool is raised to 1000 SC (see Extremes.tla).
func runWrapScenario(c *vlib.Ctx, st *ledgerStats, exts []ext) {
	g := newGuard()
	for _, e := range exts {
		if e.Fam != "wrap" || e.T != "sfi.parent.val" {
			continue
		}
		e := e
		if p, val := vlib.Recover(func() { wrapOne(c, st, g, e) }); p {
			c.Infra("wrap scenario %v failed in the harness: %v", e, val)
		}
	}
}

func wrapOne(c *vlib.Ctx, st *ledgerStats, g *guard, e ext) {
	x, ok := map[string]uint64{"1": 1, "2^32": 1 << 32, "2^63": 1 << 63, "2^64-2": math.MaxUint64 - 1, "2^64-1": math.MaxUint64}[e.X]
	if !ok {
		st.mu.Lock()
		st.unknown["wrap value "+e.X] = true
		st.mu.Unlock()
		return
	}
	sim := chain.NewSim(c10Shapes()["ephlate"])
	keys := keyMap(sim)
	ctx := sim.NewBlockCtx()
	split := chain.AbsTx{Ver: 2, Sfi: []chain.AbsSfIn{{ID: chain.SID{chain.SFO, 0, 0, 1, 0}, Claim: "A", Auth: "ok"}},
		Sfo: []chain.AbsOut{{Val: 3000, Addr: "B"}, {Val: 4000, Addr: "A"}}, Tag: "sf"}
	if err := ctx.Add(split); err != nil {
		c.Infra("wrap scenario: cannot build the split: %v", err)
		return
	}
	t1 := ctx.V2[0]
	d0, d1 := t1.EphemeralSiafundOutput(0), t1.EphemeralSiafundOutput(1)
	d0.SiafundOutput.Value, d1.SiafundOutput.Value = x, 1-x // uint64 arithmetic: the pair wraps to 1
	t2 := types.V2Transaction{
		SiafundInputs: []types.V2SiafundInput{
			{Parent: d0, ClaimAddress: sim.K.Addr("A"), SatisfiedPolicy: types.SatisfiedPolicy{Policy: sim.K.Policy("B"), Signatures: make([]types.Signature, 1)}},
			{Parent: d1, ClaimAddress: sim.K.Addr("A"), SatisfiedPolicy: types.SatisfiedPolicy{Policy: sim.K.Policy("A"), Signatures: make([]types.Signature, 1)}},
		},
		SiafundOutputs: []types.SiafundOutput{{Value: 1, Address: sim.K.Addr("A")}},
	}
	m := &mctx{sim: sim, cs: sim.CS, child: 1, ver: 2, k: 1, keys: keys}
	m.cs.SiafundTaxRevenue = types.Siacoins(1000)
	m.b, m.bs = sim.Seal(nil, []types.V2Transaction{t1, t2}), sim.Supplement(nil)
	m.resign()
	m.reseal()
	lo := m.exercise(g, func(entry string, ok bool) {
		st.mu.Lock()
		st.perEntry[entry]++
		if ok {
			st.perEntryOK[entry]++
		}
		st.mu.Unlock()
	})
	st.mu.Lock()
	st.mutants++
	st.perFam["wrap"]++
	st.distinct[fmt.Sprint("wrap-scenario", e.X)] = true
	if lo != nil && lo.Accepted {
		st.appliedReverted++
	}
	st.mu.Unlock()
	if lo != nil && lo.O.bad() {
		site := ledgerSite(lo.O.Stack)
		if site == "" {
			site = lo.Entry
		}
		kind := "panics: " + lo.O.Panic
		if lo.O.TimedOut {
			kind = fmt.Sprintf("has not returned after %v", longDeadline)
		}
		c.Violation("ledger/"+site+"/"+e.class(), fmt.Sprintf("%s %s on a block (height 1, v2 allowed, below EphemeralOutputHeight, siafund pool 1000 SC) whose second transaction spends the two siafund outputs the first creates stating the values %d and %d (they wrap to the 1 SF it creates)", lo.Entry, kind, x, 1-x),
			map[string]any{"entry": lo.Entry, "extreme": e, "panic": lo.O.Panic, "stack": lo.O.Stack, "block": mustJSON(m.b), "state": mustJSON(m.cs)})
	}
}
