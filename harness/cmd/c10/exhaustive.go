package main

import (
	"fmt"
	"sync"
	"time"

	"go.sia.tech/core/types"
	"verif/harness/chain"
	"verif/harness/vlib"
)

// EXHAUSTIVE NARROW FAMILIES OF HONEST BLOCKS. "Any block that passes validation can be applied and reverted" is first of
// all a statement about VALID blocks: TLC enumerates EVERY behaviour of small configurations of Ledger.tla (few templates,
// few amounts, few blocks, several transactions per block), and every block of every behaviour goes, unmutated, through
// ValidateBlock / per-transaction validation / ApplyBlock / RevertBlock under the guard. The combinations that matter
// are those of several transactions in one block (a contract formed, a siafund output created and spent again in the
// same block; an empty contract formed, proved with the empty proof, expired; parents created in the same block in the
// era that takes them on trust; the eras of the v2 transition). In the thorough tier a sample of the blocks also serves
// as base of mutants.
type honestFamily struct {
	name          string
	p             chain.Params
	tpl           []string
	height, txns  int
	sizes         []int
	winStarts     []int
	winLens       []int
	gen           []chain.AbsOut
	thoroughExtra bool // only in the thorough tier
}

func honestFamilies() []honestFamily {
	s := c10Shapes()
	v1, v2, mixed := s["v1only"], s["v2only"], s["mixed"]
	mixed.AllowH, mixed.RequireH, mixed.EphH = 2, 4, 3
	legacy := chain.Params{MatDelay: 1, AllowH: 0, RequireH: 1, EphH: 100, FoundH: 100, Reward: 500, GenSC: v2.GenSC, GenSF: v2.GenSF}
	v1.FoundH, v2.FoundH, mixed.FoundH = 100, 100, 100 // (the subsidy's value is opaque in the model: keep these histories free of it)
	b := func(v uint64) []chain.AbsOut { return []chain.AbsOut{{Val: v, Addr: "B"}} }
	return []honestFamily{
		{name: "v1-contract-and-siafunds", p: v1, tpl: []string{"form1", "sf"}, height: 1, txns: 3, sizes: []int{64}, winStarts: []int{1}, winLens: []int{2}, gen: b(256411)},
		{name: "v1-contract-and-siafunds-2", p: v1, tpl: []string{"form1", "sf"}, height: 2, txns: 3, sizes: []int{64}, winStarts: []int{1}, winLens: []int{2}, gen: b(256411), thoroughExtra: true},
		{name: "v1-payments-and-siafunds", p: v1, tpl: []string{"pay", "sf"}, height: 2, txns: 2, sizes: []int{64}, winStarts: []int{1}, winLens: []int{2}, gen: b(1199)},
		{name: "v2-empty-contract", p: v2, tpl: []string{"form2", "res2"}, height: 4, txns: 1, sizes: []int{0}, winStarts: []int{1}, winLens: []int{1}, gen: b(600000)},
		{name: "v2-legacy-ephemeral", p: legacy, tpl: []string{"sf", "form2"}, height: 1, txns: 3, sizes: []int{64}, winStarts: []int{1}, winLens: []int{2}, gen: b(600000)},
		{name: "v2-legacy-ephemeral-2", p: legacy, tpl: []string{"sf", "form2"}, height: 2, txns: 3, sizes: []int{64}, winStarts: []int{1}, winLens: []int{2}, gen: b(600000), thoroughExtra: true},
		{name: "mixed-payments", p: mixed, tpl: []string{"pay"}, height: 2, txns: 2, sizes: []int{64}, winStarts: []int{1}, winLens: []int{2}, gen: b(1199)},
		{name: "mixed-payments-3", p: mixed, tpl: []string{"pay"}, height: 3, txns: 2, sizes: []int{64}, winStarts: []int{1}, winLens: []int{2}, gen: b(1199), thoroughExtra: true},
	}
}

// runHonestFamilies enumerates and replays the families; it returns behaviours and blocks exercised.
func runHonestFamilies(c *vlib.Ctx, st *ledgerStats, exts []ext) (behaviours, blocks int64, perFamily map[string]int) {
	perFamily = map[string]int{}
	var mu sync.Mutex
	var wg sync.WaitGroup
	sem := make(chan struct{}, 3)
	for _, f := range honestFamilies() {
		if f.thoroughExtra && !c.Thorough {
			continue
		}
		wg.Add(1)
		go func(f honestFamily) {
			defer wg.Done()
			sem <- struct{}{}
			defer func() { <-sem }()
			p := f.p
			p.GenSC = f.gen
			cfg := chain.BaseConfig(p)
			cfg.Addrs = []string{"B"}
			cfg.Templates = f.tpl
			cfg.Pay1, cfg.Sizes, cfg.RevShifts, cfg.FormRH = []int{256411}, f.sizes, []int{24}, [][2]int{{250024, 25}}
			cfg.PayAmts, cfg.Fees, cfg.SFSplits = []int{599}, []int{0}, []int{3000}
			cfg.WinStarts, cfg.WinLens = f.winStarts, f.winLens
			cfg.MaxHeight, cfg.MaxTxns, cfg.MaxReverts, cfg.NoPost = f.height, f.txns, 0, true
			guards := map[*chain.Sim]*guard{}
			keysOf := map[*chain.Sim]map[types.PublicKey]types.PrivateKey{}
			var gmu sync.Mutex
			var nBlocks int64
			rs := chain.Run(c, cfg, chain.RunOpts{Exhaustive: true, Timeout: 15 * time.Minute, Workers: 4,
				KeyOf: func(m chain.Mismatch) string { return "ledger/honest-block/" + m.Kind + "/" + f.name + "/" + m.Tag },
				NewSim: func(sim *chain.Sim) {
					gmu.Lock()
					guards[sim], keysOf[sim] = newGuard(), keyMap(sim)
					gmu.Unlock()
				},
				Hook: func(sim *chain.Sim, beh *chain.Behaviour, i int, s chain.Step, res chain.StepResult) {
					if s.Op != "block" || !res.Accepted || len(sim.Chain) == 0 {
						return
					}
					gmu.Lock()
					g, keys := guards[sim], keysOf[sim]
					nBlocks++
					gmu.Unlock()
					a := sim.Chain[len(sim.Chain)-1]
					m := &mctx{sim: sim, cs: a.Prev, child: a.Prev.Index.Height + 1, keys: keys}
					m.b, m.bs = cloneBlock(a.Block, a.Supp)
					if len(a.Block.Transactions) > 0 {
						m.ver, m.k = 1, len(a.Block.Transactions)-1
					} else if v2 := a.Block.V2Transactions(); len(v2) > 0 {
						m.ver, m.k = 2, len(v2)-1
					}
					lo := m.exercise(g, func(entry string, ok bool) {
						st.mu.Lock()
						st.perEntry[entry]++
						if ok {
							st.perEntryOK[entry]++
						}
						st.mu.Unlock()
					})
					if lo != nil && lo.O.bad() {
						site := ledgerSite(lo.O.Stack)
						if site == "" {
							site = lo.Entry
						}
						kind := "panics: " + lo.O.Panic
						if lo.O.TimedOut {
							kind = fmt.Sprintf("has not returned after %v", longDeadline)
						}
						tag := ""
						if len(s.Txs) > 0 {
							tag = s.Txs[len(s.Txs)-1].Tag
						}
						c.Violation("ledger/"+site+"/honest-block/"+f.name, fmt.Sprintf("%s %s on a VALID, unchanged block (family %s, height %d, %d transactions, last one %s) that ValidateBlock had accepted", lo.Entry, kind, f.name, m.child, len(s.Txs), tag),
							map[string]any{"entry": lo.Entry, "family": f.name, "panic": lo.O.Panic, "stack": lo.O.Stack, "config": cfg, "behaviour": beh.Steps[:i+1], "honest": true,
								"block": mustJSON(m.b), "supplement": mustJSON(m.bs), "state": mustJSON(m.cs)})
					}
					// a sample of the blocks is also the base of mutants
					if c.Thorough && nameHash(fmt.Sprint(beh.Hash, "/", i))%24 == 0 {
						mutateBlock(c, st, exts, sim, g, keys, cfg, beh, i, s.Txs, 8, int(nameHash(beh.Hash)%1024))
					}
				}})
			mu.Lock()
			behaviours += int64(rs.Behaviours)
			blocks += nBlocks
			perFamily[f.name] = rs.Behaviours
			mu.Unlock()
		}(f)
	}
	wg.Wait()
	return
}
