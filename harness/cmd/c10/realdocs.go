package main

import (
	"encoding/json"
	"sync"

	"verif/harness/chain"
)

// realDocs returns valid JSON documents of a root taken from a small real chain (blocks, states, updates): values
// that the reflection generator cannot build (updates carry unexported tree data).
var (
	realOnce sync.Once
	realMap  map[string][][]byte
)

func realDocs(rt jroot) [][]byte {
	realOnce.Do(buildRealDocs)
	return realMap[rt.Name]
}

func buildRealDocs() {
	realMap = map[string][][]byte{}
	add := func(name string, v any) {
		if b, err := json.Marshal(v); err == nil && len(b) < 60000 {
			realMap[name] = append(realMap[name], b)
		}
	}
	defer func() { recover() }() // a broken chain only means fewer documents
	p := chain.Shapes()["v2only"]
	sim := chain.NewSim(p)
	gen := func(i int) chain.SID { return chain.SID{chain.SCO, 0, 0, i, 0} }
	steps := []chain.Step{
		{Op: "block", Verdict: "accept", Txs: []chain.AbsTx{{Ver: 2, Sci: []chain.AbsIn{{ID: gen(1), Auth: "ok"}},
			Sco: []chain.AbsOut{{Val: 599, Addr: "B"}, {Val: 600000 - 599 - 10, Addr: "A"}}, Fee: 10, Tag: "pay"}}},
		{Op: "block", Verdict: "accept", Txs: []chain.AbsTx{{Ver: 2, Sfi: []chain.AbsSfIn{{ID: chain.SID{chain.SFO, 0, 0, 1, 0}, Claim: "A", Auth: "ok"}},
			Sfo: []chain.AbsOut{{Val: 3000, Addr: "B"}, {Val: 4000, Addr: "A"}}, Tag: "sf"}}},
		{Op: "block", Verdict: "accept"},
	}
	for i, st := range steps {
		res, infra := sim.RunStep(i, st)
		if infra != nil || !res.Accepted {
			break
		}
		a := sim.Chain[len(sim.Chain)-1]
		add("types.Block", a.Block)
		add("consensus.ApplyUpdate", a.Update)
		add("consensus.State", a.Next)
		for _, t := range a.Block.V2Transactions() {
			add("types.V2Transaction", t)
		}
		for _, d := range a.Update.SiacoinElementDiffs() {
			add("consensus.SiacoinElementDiff", d)
		}
	}
	if len(sim.Chain) > 0 {
		_, ru := sim.Revert()
		add("consensus.RevertUpdate", ru)
	}
}
