package main

import (
	"encoding/json"
	"fmt"
	"sort"
	"strings"

	"verif/harness/vlib"
)

// What TLC printed for spec/wire/Malformed.tla. The harness only splices: every byte of every case comes from here.

type variant struct {
	Class, Name string
	Ins         []byte
}

type mark struct {
	Off, W            int
	Kind, Owner, Path string
	Vars              []variant // empty: catalogue.Fixed[Kind]
}

type shape struct {
	Type   string `json:"type"`
	Idx    int    `json:"shape"`
	Bytes  []byte `json:"-"`
	Cuts   []int  `json:"cuts"`
	Counts []int  `json:"counts"`
	N      int    `json:"n"` // the number of cases the specification says the shape yields
	Marks  []mark `json:"-"`
}

type jentry struct {
	Class, Variant, How string
	N                   int
	Text                string
}

type catalogue struct {
	Fixed    map[string][]variant
	Tails    []variant
	Blobs    [][]byte
	JSONCat  []jentry
	TextCat  []jentry
	Classes  []string
	Counts   map[string]int // COUNT lines: shapes announced per type
	Shapes   []*shape
	rawLines []string
}

func toBytes(xs []int) ([]byte, error) {
	b := make([]byte, len(xs))
	for i, x := range xs {
		if x < 0 || x > 255 {
			return nil, fmt.Errorf("not a byte: %d", x)
		}
		b[i] = byte(x)
	}
	return b, nil
}

func (cat *catalogue) parseVariant(raw json.RawMessage) (variant, error) {
	var parts []json.RawMessage
	if err := json.Unmarshal(raw, &parts); err != nil || len(parts) != 3 {
		return variant{}, fmt.Errorf("bad variant %s", raw)
	}
	var v variant
	var ins []int
	if json.Unmarshal(parts[0], &v.Class) != nil || json.Unmarshal(parts[1], &v.Name) != nil || json.Unmarshal(parts[2], &ins) != nil {
		return variant{}, fmt.Errorf("bad variant %s", raw)
	}
	if len(ins) == 2 && ins[0] == -1 { // blob reference (1-based)
		if ins[1] < 1 || ins[1] > len(cat.Blobs) {
			return variant{}, fmt.Errorf("dangling blob reference %d", ins[1])
		}
		v.Ins = cat.Blobs[ins[1]-1]
		return v, nil
	}
	b, err := toBytes(ins)
	v.Ins = b
	return v, err
}

func (cat *catalogue) parseVariants(raw json.RawMessage) ([]variant, error) {
	var list []json.RawMessage
	if err := json.Unmarshal(raw, &list); err != nil {
		return nil, err
	}
	out := make([]variant, 0, len(list))
	for _, r := range list {
		v, err := cat.parseVariant(r)
		if err != nil {
			return nil, err
		}
		out = append(out, v)
	}
	return out, nil
}

func parseJEntries(raw string) ([]jentry, error) {
	var rows [][]json.RawMessage
	if err := json.Unmarshal([]byte(raw), &rows); err != nil {
		return nil, err
	}
	var out []jentry
	for _, r := range rows {
		if len(r) != 5 {
			return nil, fmt.Errorf("bad catalogue row")
		}
		var e jentry
		json.Unmarshal(r[0], &e.Class)
		json.Unmarshal(r[1], &e.Variant)
		json.Unmarshal(r[2], &e.How)
		json.Unmarshal(r[3], &e.N)
		json.Unmarshal(r[4], &e.Text)
		out = append(out, e)
	}
	return out, nil
}

// parseCatalogue parses the unquoted "@@" lines of a Malformed run. Header lines (BLOBS, FIXED, ...) may come in any order
// relative to SHAPE lines, so shapes are parsed last.
func parseCatalogue(lines []string) (*catalogue, error) {
	cat := &catalogue{Fixed: map[string][]variant{}, Counts: map[string]int{}, rawLines: lines}
	get := func(prefix string) string {
		for _, ln := range lines {
			if strings.HasPrefix(ln, prefix) {
				return strings.TrimPrefix(ln, prefix)
			}
		}
		return ""
	}
	// blobs first: variants refer to them
	var blobs [][]json.RawMessage
	if err := json.Unmarshal([]byte(get("BLOBS ")), &blobs); err != nil {
		return nil, fmt.Errorf("BLOBS: %v", err)
	}
	for _, b := range blobs {
		var xs []int
		if len(b) != 3 || json.Unmarshal(b[2], &xs) != nil {
			return nil, fmt.Errorf("bad blob")
		}
		bs, err := toBytes(xs)
		if err != nil {
			return nil, err
		}
		cat.Blobs = append(cat.Blobs, bs)
	}
	var fixed map[string]json.RawMessage
	if err := json.Unmarshal([]byte(get("FIXED ")), &fixed); err != nil {
		return nil, fmt.Errorf("FIXED: %v", err)
	}
	for k, raw := range fixed {
		vs, err := cat.parseVariants(raw)
		if err != nil {
			return nil, fmt.Errorf("FIXED[%s]: %v", k, err)
		}
		cat.Fixed[k] = vs
	}
	var err error
	if cat.Tails, err = cat.parseVariants(json.RawMessage(get("TAILS "))); err != nil {
		return nil, fmt.Errorf("TAILS: %v", err)
	}
	if cat.JSONCat, err = parseJEntries(get("JSONCAT ")); err != nil {
		return nil, fmt.Errorf("JSONCAT: %v", err)
	}
	if cat.TextCat, err = parseJEntries(get("TEXTCAT ")); err != nil {
		return nil, fmt.Errorf("TEXTCAT: %v", err)
	}
	if err := json.Unmarshal([]byte(get("CLASSES ")), &cat.Classes); err != nil {
		return nil, fmt.Errorf("CLASSES: %v", err)
	}
	sort.Strings(cat.Classes)
	for _, ln := range lines {
		switch {
		case strings.HasPrefix(ln, "COUNT "):
			f := strings.Fields(ln)
			if len(f) == 3 {
				fmt.Sscan(f[2], new(int))
				var n int
				fmt.Sscan(f[2], &n)
				cat.Counts[f[1]] = n
			}
		case strings.HasPrefix(ln, "SHAPE "):
			sh, err := cat.parseShape(strings.TrimPrefix(ln, "SHAPE "))
			if err != nil {
				return nil, err
			}
			cat.Shapes = append(cat.Shapes, sh)
		}
	}
	sort.SliceStable(cat.Shapes, func(i, j int) bool {
		if cat.Shapes[i].Type != cat.Shapes[j].Type {
			return cat.Shapes[i].Type < cat.Shapes[j].Type
		}
		return cat.Shapes[i].Idx < cat.Shapes[j].Idx
	})
	return cat, nil
}

func (cat *catalogue) parseShape(js string) (*shape, error) {
	var raw struct {
		shape
		Bytes []int               `json:"bytes"`
		Marks [][]json.RawMessage `json:"marks"`
	}
	if err := json.Unmarshal([]byte(js), &raw); err != nil {
		return nil, fmt.Errorf("SHAPE: %v: %.200s", err, js)
	}
	sh := raw.shape
	var err error
	if sh.Bytes, err = toBytes(raw.Bytes); err != nil {
		return nil, err
	}
	for _, m := range raw.Marks {
		if len(m) != 6 {
			return nil, fmt.Errorf("bad mark in %s/%d", sh.Type, sh.Idx)
		}
		var mk mark
		json.Unmarshal(m[0], &mk.Off)
		json.Unmarshal(m[1], &mk.W)
		json.Unmarshal(m[2], &mk.Kind)
		json.Unmarshal(m[3], &mk.Owner)
		json.Unmarshal(m[4], &mk.Path)
		if mk.Vars, err = cat.parseVariants(m[5]); err != nil {
			return nil, err
		}
		if len(mk.Vars) == 0 {
			fx, ok := cat.Fixed[mk.Kind]
			if !ok {
				return nil, fmt.Errorf("mark kind %q of %s/%d has no variants", mk.Kind, sh.Type, sh.Idx)
			}
			mk.Vars = fx
		}
		if mk.Off < 0 || mk.W < 0 || mk.Off+mk.W > len(sh.Bytes) {
			return nil, fmt.Errorf("mark outside the encoding in %s/%d", sh.Type, sh.Idx)
		}
		sh.Marks = append(sh.Marks, mk)
	}
	sort.Ints(sh.Cuts)
	if got := cat.numCases(&sh); got != sh.N {
		return nil, fmt.Errorf("%s/%d: the specification announces %d malformed encodings, the harness derives %d", sh.Type, sh.Idx, sh.N, got)
	}
	return &sh, nil
}

// A dcase is one malformed encoding.
type dcase struct {
	Class, Variant, Owner, Path string
	B                           []byte
}

// key is the stable identifier of the failing input class: the schema line that owns the corrupted item, the item, the corruption class.
func (d dcase) key() string {
	p := d.Path
	if p == "" {
		p = "-"
	}
	return "decode/" + d.Owner + "/" + p + "/" + d.Class
}

func splice(b []byte, off, del int, ins []byte) []byte {
	out := make([]byte, 0, len(b)-del+len(ins))
	out = append(out, b[:off]...)
	out = append(out, ins...)
	return append(out, b[off+del:]...)
}

// numCases is the number of cases a shape yields; caseAt(i) builds the i-th (fixed order: cuts, tails, marks x variants, all counts).
func (cat *catalogue) numCases(sh *shape) int {
	n := len(sh.Cuts) + len(cat.Tails)
	for _, m := range sh.Marks {
		n += len(m.Vars)
	}
	if len(sh.Counts) > 0 {
		n++
	}
	return n
}

func (cat *catalogue) caseAt(sh *shape, i int) dcase {
	if i < len(sh.Cuts) {
		k := sh.Cuts[i]
		return dcase{"truncated", fmt.Sprintf("first-%d-of-%d", k, len(sh.Bytes)), sh.Type, "", append([]byte{}, sh.Bytes[:k]...)}
	}
	i -= len(sh.Cuts)
	if i < len(cat.Tails) {
		t := cat.Tails[i]
		return dcase{t.Class, t.Name, sh.Type, "", splice(sh.Bytes, len(sh.Bytes), 0, t.Ins)}
	}
	i -= len(cat.Tails)
	for _, m := range sh.Marks {
		if i < len(m.Vars) {
			v := m.Vars[i]
			return dcase{v.Class, v.Name, m.Owner, m.Path, splice(sh.Bytes, m.Off, m.W, v.Ins)}
		}
		i -= len(m.Vars)
	}
	b := append([]byte{}, sh.Bytes...)
	for _, off := range sh.Counts {
		b[off] = 255
	}
	return dcase{"all-counts-255", fmt.Sprintf("%d-counts", len(sh.Counts)), sh.Type, "", b}
}

func unquoteLines(lines []string) []string {
	out := make([]string, len(lines))
	for i, ln := range lines {
		out[i] = vlib.UnquoteTLA(ln)
	}
	return out
}
