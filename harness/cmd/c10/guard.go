package main

import (
	"fmt"
	"runtime"
	"runtime/debug"
	"strings"
	"sync"
	"sync/atomic"
	"time"
)

// The property says "terminates". A call that has not returned after `deadline` is a SUSPECT; the same execution is
// then given until `longDeadline`: only a call that still has not returned is reported as not terminating. A call that
// needs more than `slowThreshold` (2 s) is recorded as an observation (evidence: slow_cases), never as a violation.
var (
	deadline      = 5 * time.Second
	longDeadline  = 120 * time.Second
	slowThreshold = 2 * time.Second
)

// outcome of one guarded execution.
type outcome struct {
	Panic     string  // "" or the panic value
	Stack     string  // stack of the panic / of the abandoned goroutine (trimmed)
	TimedOut  bool    // did not return within longDeadline
	Err       bool    // the entry point reported an error (the expected outcome for malformed input)
	Seconds   float64 // how long the call took
	SlowStack string  // where the call was when it passed the first deadline (it returned later)
}

func (o outcome) slow() bool { return !o.TimedOut && o.Seconds > slowThreshold.Seconds() }

func (o outcome) bad() bool { return o.Panic != "" || o.TimedOut }

// leaked counts goroutines abandoned after a deadline.
var leaked atomic.Int64

// A runner executes closures one at a time on its own goroutine so that a closure that never returns can be abandoned.
type runner struct {
	in  chan func() error
	out chan outcome
	gid atomic.Int64 // id of its goroutine
}

func goroutineID() int64 {
	var buf [64]byte
	var id int64
	fmt.Sscanf(string(buf[:runtime.Stack(buf[:], false)]), "goroutine %d ", &id)
	return id
}

func newRunner() *runner {
	r := &runner{in: make(chan func() error), out: make(chan outcome, 1)}
	go func() {
		r.gid.Store(goroutineID())
		for f := range r.in {
			r.out <- protect(f)
		}
	}()
	return r
}

func protect(f func() error) (o outcome) {
	defer func() {
		if p := recover(); p != nil {
			o.Panic = fmt.Sprint(p)
			if o.Panic == "" {
				o.Panic = "(empty panic value)"
			}
			o.Stack = trimStack(string(debug.Stack()))
		}
	}()
	o.Err = f() != nil
	return
}

// trimStack keeps the frames of core (and drops the harness and runtime frames around them).
func trimStack(s string) string {
	lines := strings.Split(s, "\n")
	var keep []string
	for i := 0; i+1 < len(lines); i++ {
		if strings.HasPrefix(lines[i], "go.sia.tech/core/") {
			keep = append(keep, lines[i], strings.TrimSpace(lines[i+1]))
		}
	}
	if len(keep) > 24 {
		keep = keep[:24]
	}
	return strings.Join(keep, "\n")
}

// panicSite is the innermost function of core on the stack of a panic: "types.(*ChainIndex).UnmarshalText".
func panicSite(stack string) string {
	for _, ln := range strings.Split(stack, "\n") {
		if strings.HasPrefix(ln, "go.sia.tech/core/") {
			f := strings.TrimPrefix(ln, "go.sia.tech/core/")
			if i := strings.LastIndex(f, "("); i > 0 { // drop the argument list "(0x..., ...)"
				f = f[:i]
			}
			return strings.TrimSuffix(f, "[...]")
		}
	}
	return ""
}

// guard owns the current runner.
type guard struct {
	r     *runner
	timer *time.Timer
}

func newGuard() *guard {
	t := time.NewTimer(time.Hour)
	t.Stop()
	return &guard{r: newRunner(), timer: t}
}

// run executes f under recover and the two deadlines. A closure that has not returned by the long deadline is
// abandoned with its goroutine.
func (g *guard) run(f func() error) outcome {
	t0 := time.Now()
	g.r.in <- f
	g.timer.Reset(deadline)
	select {
	case o := <-g.r.out:
		if !g.timer.Stop() {
			select {
			case <-g.timer.C:
			default:
			}
		}
		o.Seconds = time.Since(t0).Seconds()
		return o
	case <-g.timer.C:
	}
	// a suspect: note where it is, and keep waiting for the same execution
	where := stuckStack(g.r.gid.Load())
	g.timer.Reset(longDeadline - deadline)
	select {
	case o := <-g.r.out:
		if !g.timer.Stop() {
			select {
			case <-g.timer.C:
			default:
			}
		}
		o.Seconds, o.SlowStack = time.Since(t0).Seconds(), where
		return o
	case <-g.timer.C:
		leaked.Add(1)
		stack := stuckStack(g.r.gid.Load())
		g.r = newRunner()
		return outcome{TimedOut: true, Stack: stack, Seconds: time.Since(t0).Seconds()}
	}
}

// the buffer for goroutine dumps exists before any case runs (a dump must not count as an allocation of the case)
var (
	stackMu  sync.Mutex
	stackBuf = make([]byte, 512<<10)
)

// stuckStack is the stack (frames of core) of the runner goroutine that has just missed its deadline.
func stuckStack(gid int64) string {
	stackMu.Lock()
	defer stackMu.Unlock()
	buf := stackBuf[:runtime.Stack(stackBuf, true)]
	prefix := fmt.Sprintf("goroutine %d ", gid)
	for _, gr := range strings.Split(string(buf), "\n\n") {
		if strings.HasPrefix(gr, prefix) {
			return trimStack(gr)
		}
	}
	return ""
}

// allocStack runs f once more and returns the call stack (frames of core, innermost first) that allocated the most
// during the run, from the runtime's allocation profile (allocations above the sampling rate are always recorded).
func (g *guard) allocStack(f func() error) string {
	s, _ := g.allocStackG(f)
	return s
}

// allocStackG also reports whether the allocation is made by encoding/json itself while it builds the value (slice
// growth, zeroed elements for "null"): such allocations are bounded by the size of the Go type per array element and
// are a property of the Go JSON decoder, not of core's unmarshallers.
func (g *guard) allocStackG(f func() error) (stack string, genericJSON bool) {
	snap := func() map[[32]uintptr]int64 {
		runtime.GC()
		runtime.GC()
		n, _ := runtime.MemProfile(nil, true)
		recs := make([]runtime.MemProfileRecord, n+64)
		n, ok := runtime.MemProfile(recs, true)
		if !ok {
			return nil
		}
		m := map[[32]uintptr]int64{}
		for _, r := range recs[:n] {
			m[r.Stack0] += r.AllocBytes
		}
		return m
	}
	before := snap()
	if o := g.run(f); o.bad() {
		return "", false
	}
	after := snap()
	var best [32]uintptr
	var bestN int64
	for k, v := range after {
		if d := v - before[k]; d > bestN {
			best, bestN = k, d
		}
	}
	if bestN == 0 {
		return "", false
	}
	n := 0
	for n < len(best) && best[n] != 0 {
		n++
	}
	frames := runtime.CallersFrames(best[:n])
	var lines []string
	for {
		fr, more := frames.Next()
		if strings.HasPrefix(fr.Function, "go.sia.tech/core/") {
			lines = append(lines, fr.Function+"(...)", fmt.Sprintf("%s:%d", fr.File, fr.Line))
		} else if len(lines) == 0 && strings.HasPrefix(fr.Function, "encoding/json.") {
			genericJSON = true // encoding/json allocates before any function of core is on the path
		}
		if !more {
			break
		}
	}
	return strings.Join(lines, "\n"), genericJSON
}

// allocBound is the heap growth a case of the given input length may cause: 64 x input + 1 MiB.
func allocBound(n int) uint64 { return 64*uint64(n) + 1<<20 }

func totalAlloc() uint64 {
	var ms runtime.MemStats
	runtime.ReadMemStats(&ms)
	return ms.TotalAlloc
}

// measure runs f alone and returns what it allocated (bytes) besides its outcome. The process must be quiet
// (no other goroutine allocating), which holds in the worker processes.
func (g *guard) measure(f func() error) (outcome, uint64) {
	before := totalAlloc()
	o := g.run(f)
	after := totalAlloc()
	return o, after - before
}

// peak runs f alone and returns by how much the heap grew AT ITS HIGHEST POINT during the call: the property is about
// memory held, not about garbage churned. While the call runs, a sampler forces one collection after the other and reads
// HeapAlloc after each: what a reading shows is what was reachable when the collector looked (plus what was allocated
// while it looked, a few hundred KB for the fastest churners in a process that holds next to nothing itself). A call
// shorter than a few collections is repeated (its result dropped each time) until enough readings were taken.
func (g *guard) peak(f func() error) (outcome, uint64) {
	oldP := debug.SetGCPercent(-1)
	oldL := debug.SetMemoryLimit(1) // always over the limit: the collector runs whenever there is anything to collect, and the
	defer debug.SetGCPercent(oldP)  // allocating goroutine itself is made to help (assists), whatever else the machine is doing
	defer debug.SetMemoryLimit(oldL)
	runtime.GC()
	var ms runtime.MemStats
	runtime.ReadMemStats(&ms)
	base := ms.HeapAlloc
	var top atomic.Uint64
	var samples atomic.Int64
	stop, done := make(chan struct{}), make(chan struct{})
	go func() {
		defer close(done)
		var m runtime.MemStats
		for {
			select {
			case <-stop:
				return
			default:
			}
			runtime.ReadMemStats(&m)
			if m.HeapAlloc > top.Load() {
				top.Store(m.HeapAlloc)
			}
			samples.Add(1)
			time.Sleep(100 * time.Microsecond)
		}
	}()
	o := g.run(func() error {
		t0 := time.Now()
		err := f()
		for i := 0; i < 2000 && samples.Load() < 20 && time.Since(t0) < 50*time.Millisecond; i++ {
			err = f()
		}
		return err
	})
	close(stop)
	<-done
	if t := top.Load(); t > base {
		return o, t - base
	}
	return o, 0
}

// confirmPeak measures the peak heap growth of a suspicious case three times, alone, and returns the smallest.
func (g *guard) confirmPeak(f func() error) (outcome, uint64) {
	var best uint64 = ^uint64(0)
	var last outcome
	for i := 0; i < 3; i++ {
		o, a := g.peak(f)
		last = o
		if o.bad() {
			return o, a
		}
		if a < best {
			best = a
		}
	}
	debug.FreeOSMemory()
	return last, best
}
