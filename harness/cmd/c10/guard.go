package main

import (
	"fmt"
	"runtime"
	"runtime/debug"
	"strings"
	"sync/atomic"
	"time"
)

// deadline is the time one case may take.
var deadline = 5 * time.Second

// outcome of one guarded execution.
type outcome struct {
	Panic    string // "" or the panic value
	Stack    string // stack of the panic (trimmed)
	TimedOut bool
	Err      bool // the entry point reported an error (the expected outcome for malformed input)
}

func (o outcome) bad() bool { return o.Panic != "" || o.TimedOut }

// leaked counts goroutines abandoned after a deadline.
var leaked atomic.Int64

// A runner executes closures one at a time on its own goroutine so that a closure that never returns can be abandoned.
type runner struct {
	in  chan func() error
	out chan outcome
}

func newRunner() *runner {
	r := &runner{in: make(chan func() error), out: make(chan outcome, 1)}
	go func() {
		for f := range r.in {
			r.out <- protect(f)
		}
	}()
	return r
}

func protect(f func() error) (o outcome) {
	defer func() {
		if p := recover(); p != nil {
			o.Panic = fmt.Sprint(p)
			if o.Panic == "" {
				o.Panic = "(empty panic value)"
			}
			o.Stack = trimStack(string(debug.Stack()))
		}
	}()
	o.Err = f() != nil
	return
}

// trimStack keeps the frames of core (and drops the harness and runtime frames around them).
func trimStack(s string) string {
	lines := strings.Split(s, "\n")
	var keep []string
	for i := 0; i+1 < len(lines); i++ {
		if strings.HasPrefix(lines[i], "go.sia.tech/core/") {
			keep = append(keep, lines[i], strings.TrimSpace(lines[i+1]))
		}
	}
	if len(keep) > 24 {
		keep = keep[:24]
	}
	return strings.Join(keep, "\n")
}

// panicSite is the innermost function of core on the stack of a panic: "types.(*ChainIndex).UnmarshalText".
func panicSite(stack string) string {
	for _, ln := range strings.Split(stack, "\n") {
		if strings.HasPrefix(ln, "go.sia.tech/core/") {
			f := strings.TrimPrefix(ln, "go.sia.tech/core/")
			if i := strings.LastIndex(f, "("); i > 0 { // drop the argument list "(0x..., ...)"
				f = f[:i]
			}
			return strings.TrimSuffix(f, "[...]")
		}
	}
	return ""
}

// guard owns the current runner.
type guard struct {
	r     *runner
	timer *time.Timer
}

func newGuard() *guard {
	t := time.NewTimer(time.Hour)
	t.Stop()
	return &guard{r: newRunner(), timer: t}
}

// run executes f under recover and the deadline. A closure that misses the deadline is abandoned with its goroutine.
func (g *guard) run(f func() error) outcome {
	g.r.in <- f
	g.timer.Reset(deadline)
	select {
	case o := <-g.r.out:
		if !g.timer.Stop() {
			select {
			case <-g.timer.C:
			default:
			}
		}
		return o
	case <-g.timer.C:
		leaked.Add(1)
		g.r = newRunner()
		return outcome{TimedOut: true}
	}
}

// allocBound is the allocation a case of the given input length may cause: 64 x input + 1 MiB.
func allocBound(n int) uint64 { return 64*uint64(n) + 1<<20 }

func totalAlloc() uint64 {
	var ms runtime.MemStats
	runtime.ReadMemStats(&ms)
	return ms.TotalAlloc
}

// measure runs f alone and returns what it allocated (bytes) besides its outcome. The process must be quiet
// (no other goroutine allocating), which holds in the worker processes.
func (g *guard) measure(f func() error) (outcome, uint64) {
	before := totalAlloc()
	o := g.run(f)
	after := totalAlloc()
	return o, after - before
}

// confirmAlloc re-measures a suspicious case three times, alone, and returns the smallest allocation seen.
func (g *guard) confirmAlloc(f func() error) (outcome, uint64) {
	var best uint64 = ^uint64(0)
	var last outcome
	for i := 0; i < 3; i++ {
		runtime.GC()
		o, a := g.measure(f)
		last = o
		if o.bad() {
			return o, a
		}
		if a < best {
			best = a
		}
	}
	debug.FreeOSMemory()
	return last, best
}
