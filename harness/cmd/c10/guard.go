package main

import (
	"fmt"
	"runtime"
	"runtime/debug"
	"strings"
	"sync/atomic"
	"time"
)

// deadline is the time one case may take.
var deadline = 5 * time.Second

// outcome of one guarded execution.
type outcome struct {
	Panic    string // "" or the panic value
	Stack    string // stack of the panic (trimmed)
	TimedOut bool
	Err      bool // the entry point reported an error (the expected outcome for malformed input)
}

func (o outcome) bad() bool { return o.Panic != "" || o.TimedOut }

// leaked counts goroutines abandoned after a deadline.
var leaked atomic.Int64

// A runner executes closures one at a time on its own goroutine so that a closure that never returns can be abandoned.
type runner struct {
	in  chan func() error
	out chan outcome
	gid atomic.Int64 // id of its goroutine
}

func goroutineID() int64 {
	var buf [64]byte
	var id int64
	fmt.Sscanf(string(buf[:runtime.Stack(buf[:], false)]), "goroutine %d ", &id)
	return id
}

func newRunner() *runner {
	r := &runner{in: make(chan func() error), out: make(chan outcome, 1)}
	go func() {
		r.gid.Store(goroutineID())
		for f := range r.in {
			r.out <- protect(f)
		}
	}()
	return r
}

func protect(f func() error) (o outcome) {
	defer func() {
		if p := recover(); p != nil {
			o.Panic = fmt.Sprint(p)
			if o.Panic == "" {
				o.Panic = "(empty panic value)"
			}
			o.Stack = trimStack(string(debug.Stack()))
		}
	}()
	o.Err = f() != nil
	return
}

// trimStack keeps the frames of core (and drops the harness and runtime frames around them).
func trimStack(s string) string {
	lines := strings.Split(s, "\n")
	var keep []string
	for i := 0; i+1 < len(lines); i++ {
		if strings.HasPrefix(lines[i], "go.sia.tech/core/") {
			keep = append(keep, lines[i], strings.TrimSpace(lines[i+1]))
		}
	}
	if len(keep) > 24 {
		keep = keep[:24]
	}
	return strings.Join(keep, "\n")
}

// panicSite is the innermost function of core on the stack of a panic: "types.(*ChainIndex).UnmarshalText".
func panicSite(stack string) string {
	for _, ln := range strings.Split(stack, "\n") {
		if strings.HasPrefix(ln, "go.sia.tech/core/") {
			f := strings.TrimPrefix(ln, "go.sia.tech/core/")
			if i := strings.LastIndex(f, "("); i > 0 { // drop the argument list "(0x..., ...)"
				f = f[:i]
			}
			return strings.TrimSuffix(f, "[...]")
		}
	}
	return ""
}

// guard owns the current runner.
type guard struct {
	r     *runner
	timer *time.Timer
}

func newGuard() *guard {
	t := time.NewTimer(time.Hour)
	t.Stop()
	return &guard{r: newRunner(), timer: t}
}

// run executes f under recover and the deadline. A closure that misses the deadline is abandoned with its goroutine.
func (g *guard) run(f func() error) outcome {
	g.r.in <- f
	g.timer.Reset(deadline)
	select {
	case o := <-g.r.out:
		if !g.timer.Stop() {
			select {
			case <-g.timer.C:
			default:
			}
		}
		return o
	case <-g.timer.C:
		leaked.Add(1)
		stack := stuckStack(g.r.gid.Load())
		g.r = newRunner()
		return outcome{TimedOut: true, Stack: stack}
	}
}

// stuckStack is the stack (frames of core) of the runner goroutine that has just missed its deadline.
func stuckStack(gid int64) string {
	buf := make([]byte, 8<<20)
	buf = buf[:runtime.Stack(buf, true)]
	prefix := fmt.Sprintf("goroutine %d ", gid)
	for _, gr := range strings.Split(string(buf), "\n\n") {
		if strings.HasPrefix(gr, prefix) {
			return trimStack(gr)
		}
	}
	return ""
}

// allocStack runs f once more and returns the call stack (frames of core, innermost first) that allocated the most
// during the run, from the runtime's allocation profile (allocations above the sampling rate are always recorded).
func (g *guard) allocStack(f func() error) string {
	s, _ := g.allocStackG(f)
	return s
}

// allocStackG also reports whether the allocation is made by encoding/json itself while it builds the value (slice
// growth, zeroed elements for "null"): such allocations are bounded by the size of the Go type per array element and
// are a property of the Go JSON decoder, not of core's unmarshallers.
func (g *guard) allocStackG(f func() error) (stack string, genericJSON bool) {
	snap := func() map[[32]uintptr]int64 {
		runtime.GC()
		runtime.GC()
		n, _ := runtime.MemProfile(nil, true)
		recs := make([]runtime.MemProfileRecord, n+64)
		n, ok := runtime.MemProfile(recs, true)
		if !ok {
			return nil
		}
		m := map[[32]uintptr]int64{}
		for _, r := range recs[:n] {
			m[r.Stack0] += r.AllocBytes
		}
		return m
	}
	before := snap()
	if o := g.run(f); o.bad() {
		return "", false
	}
	after := snap()
	var best [32]uintptr
	var bestN int64
	for k, v := range after {
		if d := v - before[k]; d > bestN {
			best, bestN = k, d
		}
	}
	if bestN == 0 {
		return "", false
	}
	n := 0
	for n < len(best) && best[n] != 0 {
		n++
	}
	frames := runtime.CallersFrames(best[:n])
	var lines []string
	for {
		fr, more := frames.Next()
		if strings.HasPrefix(fr.Function, "go.sia.tech/core/") {
			lines = append(lines, fr.Function+"(...)", fmt.Sprintf("%s:%d", fr.File, fr.Line))
		} else if len(lines) == 0 && strings.HasPrefix(fr.Function, "encoding/json.") {
			genericJSON = true // encoding/json allocates before any function of core is on the path
		}
		if !more {
			break
		}
	}
	return strings.Join(lines, "\n"), genericJSON
}

// allocBound is the allocation a case of the given input length may cause: 64 x input + 1 MiB.
func allocBound(n int) uint64 { return 64*uint64(n) + 1<<20 }

func totalAlloc() uint64 {
	var ms runtime.MemStats
	runtime.ReadMemStats(&ms)
	return ms.TotalAlloc
}

// measure runs f alone and returns what it allocated (bytes) besides its outcome. The process must be quiet
// (no other goroutine allocating), which holds in the worker processes.
func (g *guard) measure(f func() error) (outcome, uint64) {
	before := totalAlloc()
	o := g.run(f)
	after := totalAlloc()
	return o, after - before
}

// confirmAlloc re-measures a suspicious case three times, alone, and returns the smallest allocation seen.
func (g *guard) confirmAlloc(f func() error) (outcome, uint64) {
	var best uint64 = ^uint64(0)
	var last outcome
	for i := 0; i < 3; i++ {
		runtime.GC()
		o, a := g.measure(f)
		last = o
		if o.bad() {
			return o, a
		}
		if a < best {
			best = a
		}
	}
	debug.FreeOSMemory()
	return last, best
}
