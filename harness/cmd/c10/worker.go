package main

import (
	"bufio"
	"bytes"
	"crypto/sha256"
	"encoding"
	"encoding/binary"
	"encoding/hex"
	"encoding/json"
	"fmt"
	"os"
	"path/filepath"
	"reflect"
	"runtime"
	"runtime/debug"
	"strings"
	"time"

	wb "verif/harness/wirebridge"
)

// The decoder and unmarshaller cases run in worker PROCESSES (this binary started with -worker <job file>):
//   - a decoder that asks the runtime for more memory than the machine has, or overflows the stack, kills the process
//     with a fatal error that recover cannot catch; the parent sees the death, reads which case was running from the
//     progress file, reports it and starts a new worker behind that case;
//   - each worker is quiet (one case at a time), so runtime.MemStats.TotalAlloc deltas measure the case.

type job struct {
	Kind       string   `json:"kind"` // decode | json
	Lines      string   `json:"lines"`
	W          int      `json:"w"`
	Of         int      `json:"of"`
	Start      [2]int   `json:"start"` // first (unit, case) to execute
	Skip       []string `json:"skip"`  // keys whose cases are not executed again (they kill or hang the process)
	Seed       int64    `json:"seed"`
	Thorough   bool     `json:"thorough"`
	Out        string   `json:"out"`
	Progress   string   `json:"progress"`
	One        *oneCase `json:"one,omitempty"`         // replay: exactly this input
	DeadlineMs int      `json:"deadline_ms,omitempty"` // canary jobs: a short deadline
}

// oneCase is a saved case (replay files): an entry point, a type and the input.
type oneCase struct {
	Entry   string `json:"entry"` // DecodeFrom | json | json-direct | text
	Type    string `json:"type"`
	Hex     string `json:"hex"`
	Key     string `json:"key"`
	Verdict bool   `json:"verdict,omitempty"` // only measure and print a "peak" line (the caller reports)
}

// peakLine is what a fresh process reports about the allocation of one case.
type peakLine struct {
	K       string `json:"k"` // "peak"
	Total   uint64 `json:"total"`
	Peak    uint64 `json:"peak"` // smallest of three
	Bad     bool   `json:"bad"`  // the case panicked / did not return (reported elsewhere)
	Generic bool   `json:"generic"`
	Stack   string `json:"stack"`
}

// freshVerdict runs the case in a fresh worker process (kind "one") and returns its allocation measurements.
func (w *worker) freshVerdict(it item) (peakLine, error) {
	var v peakLine
	dir := filepath.Dir(w.j.Out)
	base := filepath.Join(dir, fmt.Sprintf("fresh-%d-%d", os.Getpid(), w.freshSeq))
	w.freshSeq++
	lines := filepath.Join(dir, "none.lines")
	if _, err := os.Stat(lines); err != nil {
		os.WriteFile(lines, []byte("BLOBS []\nFIXED {}\nTAILS []\nJSONCAT []\nTEXTCAT []\nCLASSES []\n"), 0o644)
	}
	j := job{Kind: "one", Lines: lines, Out: base + ".out", Progress: base + ".progress", // (the standard deadlines: measuring slows a case down)
		One: &oneCase{Entry: it.entry, Type: it.typ, Hex: hex.EncodeToString(it.in), Key: it.key, Verdict: true}}
	jb, _ := json.Marshal(j)
	os.WriteFile(base+".job", jb, 0o644)
	defer func() { os.Remove(base + ".job"); os.Remove(base + ".out"); os.Remove(base + ".progress") }()
	code, stderr, timedOut := runProcess(base+".job", 8*time.Minute)
	if timedOut || code != 0 {
		return v, fmt.Errorf("fresh process exit %d (timed out: %v): %s", code, timedOut, firstLines(stderr, 2))
	}
	out, _ := os.ReadFile(base + ".out")
	for _, ln := range strings.Split(string(out), "\n") {
		if json.Unmarshal([]byte(ln), &v) == nil && v.K == "peak" {
			return v, nil
		}
	}
	return v, fmt.Errorf("fresh process printed no measurement")
}

// result lines written by a worker (ndjson)
type unitLine struct {
	K          string         `json:"k"` // "unit"
	Entry      string         `json:"entry"`
	Type       string         `json:"type"`
	Unit       int            `json:"unit"`
	N          int            `json:"n"`
	OK         int            `json:"ok"`
	Err        int            `json:"err"`
	Skipped    int            `json:"skipped"`
	Classes    map[string]int `json:"classes"`
	Remeas     int            `json:"remeasured"`
	Churn      int            `json:"churn"`           // cases over the bound in total allocation but not in peak heap growth (garbage, not memory held)
	ChurnMax   uint64         `json:"churn_max_total"` // the largest total allocation among them, its peak heap growth, input length, key
	ChurnPeak  uint64         `json:"churn_max_peak"`
	ChurnInput int            `json:"churn_max_input"`
	ChurnKey   string         `json:"churn_max_key"`
	Trivial    int            `json:"trivial"`                // cases whose input equals the valid one (the replacement is what was there already)
	Generic    int            `json:"generic_json_inflation"` // over the bound, but allocated by encoding/json itself (element size x element count)
}

type slowLine struct {
	K       string  `json:"k"` // "slow"
	Key     string  `json:"key"`
	Seconds float64 `json:"seconds"`
}

type violLine struct {
	K       string         `json:"k"` // "viol"
	Key     string         `json:"key"`
	What    string         `json:"what"`
	Payload map[string]any `json:"payload"`
}

type worker struct {
	j        job
	cat      *catalogue
	g        *guard
	out      *bufio.Writer
	outF     *os.File
	prog     *os.File
	skip     map[string]bool
	single   bool // execute exactly one case (reproduction of a process death)
	freshSeq int
	seenV    map[string]int
	// costly[class]: failures of the class that cost a deadline or three measured runs; beyond the budget the class is not
	// executed any more in this worker (a tree whose basic decoder is broken would otherwise fail a million times)
	costly map[string]int
	pbuf   [16]byte
}

func (w *worker) progress(unit, cs int) {
	binary.LittleEndian.PutUint64(w.pbuf[0:], uint64(unit))
	binary.LittleEndian.PutUint64(w.pbuf[8:], uint64(cs))
	w.prog.WriteAt(w.pbuf[:], 0)
}

func (w *worker) emit(v any) {
	b, _ := json.Marshal(v)
	w.out.Write(b)
	w.out.WriteByte('\n')
	w.out.Flush()
}

func (w *worker) violation(key, what string, payload map[string]any) {
	w.seenV[key]++
	if w.seenV[key] > 1 {
		return
	}
	w.emit(violLine{"viol", key, what, payload})
}

func readLines(path string) ([]string, error) {
	f, err := os.Open(path)
	if err != nil {
		return nil, err
	}
	defer f.Close()
	var out []string
	sc := bufio.NewScanner(f)
	sc.Buffer(make([]byte, 1<<20), 1<<28)
	for sc.Scan() {
		out = append(out, sc.Text())
	}
	return out, sc.Err()
}

func workerMain(jobPath string) {
	raw, err := os.ReadFile(jobPath)
	if err != nil {
		fmt.Fprintln(os.Stderr, "worker: ", err)
		os.Exit(3)
	}
	var j job
	if err := json.Unmarshal(raw, &j); err != nil {
		fmt.Fprintln(os.Stderr, "worker: ", err)
		os.Exit(3)
	}
	lines, err := readLines(j.Lines)
	if err != nil {
		fmt.Fprintln(os.Stderr, "worker: ", err)
		os.Exit(3)
	}
	cat, err := parseCatalogue(lines)
	if err != nil {
		fmt.Fprintln(os.Stderr, "worker: catalogue:", err)
		os.Exit(3)
	}
	outF, err := os.OpenFile(j.Out, os.O_APPEND|os.O_CREATE|os.O_WRONLY, 0o644)
	if err != nil {
		fmt.Fprintln(os.Stderr, "worker: ", err)
		os.Exit(3)
	}
	prog, err := os.OpenFile(j.Progress, os.O_CREATE|os.O_RDWR, 0o644)
	if err != nil {
		fmt.Fprintln(os.Stderr, "worker: ", err)
		os.Exit(3)
	}
	w := &worker{j: j, cat: cat, g: newGuard(), out: bufio.NewWriter(outF), outF: outF, prog: prog, skip: map[string]bool{}, seenV: map[string]int{}, costly: map[string]int{}}
	for _, k := range j.Skip {
		w.skip[k] = true
	}
	w.single = w.skip["@single"]
	debug.SetGCPercent(100)
	runtime.MemProfileRate = 4096 // fine-grained allocation profile: it names the code that over-allocates
	if j.DeadlineMs > 0 {
		deadline = time.Duration(j.DeadlineMs) * time.Millisecond
		longDeadline, slowThreshold = 4*deadline, deadline/2
	}
	if j.Kind == "one" {
		// a measuring process: two threads (the case and the sampler's collector) keep a forced collection short
		runtime.GOMAXPROCS(2)
	}
	switch j.Kind {
	case "canary":
		w.canaries()
	case "canary-kill":
		w.progress(0, 0)
		go func() { panic("canary: a panic outside any recover kills the process") }()
		time.Sleep(2 * time.Second)
	case "one":
		w.runOne()
	case "decode":
		w.decodeAll()
	case "json":
		w.jsonAll()
	default:
		fmt.Fprintln(os.Stderr, "worker: unknown job kind", j.Kind)
		os.Exit(3)
	}
	w.emit(map[string]any{"k": "done", "leaked": leaked.Load()})
	os.Exit(0)
}

const batchSize = 32

// costlyBudget: hangs + over-allocations of one corruption class a worker pays for before it stops executing the class.
const costlyBudget = 12

// slowKey names a slow case: the place in core it was seen at (when known), else its skip key.
func (it item) slowKey(stack string) string {
	if site := panicSite(stack); site != "" {
		return strings.SplitN(it.key, "/", 2)[0] + "/" + site + "/" + it.class
	}
	return it.key
}

// item is one prepared case of a batch.
type item struct {
	idx   int
	key   string
	n     int // input length
	run   func() error
	fail  func(kind string, o outcome, alloc uint64) // reports a violation
	class string
	// the case as a fresh process can run it (allocation verdict)
	entry, typ string
	in         []byte
}

// runBatch executes prepared cases; allocation is metered over the batch and, when the batch as a whole exceeds the
// smallest per-case bound, per case (three times, alone).
func (w *worker) runBatch(unit int, items []item, ul *unitLine) {
	before := totalAlloc()
	var suspects []int
	for i, it := range items {
		w.progress(unit, it.idx)
		o := w.g.run(it.run)
		ul.N++
		ul.Classes[it.class]++
		if o.slow() { // an observation, not a verdict
			st := o.SlowStack
			if st == "" {
				st = o.Stack
			}
			w.emit(slowLine{"slow", it.slowKey(st), o.Seconds})
			w.skip[it.key] = true // once observed; the class's further cases would each cost as long
			w.costly[it.class]++
		}
		switch {
		case o.TimedOut: // the case ran alone (one case at a time in this process) and has not returned by the long deadline
			it.fail("hang", o, 0)
			w.skip[it.key] = true
			w.costly[it.class]++
		case o.Panic != "":
			it.fail("panic", o, 0)
		case o.Err:
			ul.Err++
			suspects = append(suspects, i)
		default:
			ul.OK++
			suspects = append(suspects, i)
		}
	}
	// first stage (cheap): did the batch allocate, in total, more than the smallest bound?
	if totalAlloc()-before <= 1<<20 {
		return
	}
	for _, i := range suspects {
		it := items[i]
		w.progress(unit, it.idx)
		// second stage: the case alone, total allocation
		o, a := w.g.measure(it.run)
		if o.bad() || a <= allocBound(it.n) {
			continue
		}
		ul.Remeas++
		// verdict: PEAK heap growth during the call (memory held, not garbage churned), smallest of three, measured in a
		// fresh process whose own heap is tiny (the collector then follows the case closely)
		v, err := w.freshVerdict(it)
		if err != nil {
			w.emit(map[string]any{"k": "infra", "what": fmt.Sprintf("allocation verdict of %s: %v", it.key, err)})
			continue
		}
		if v.Bad {
			continue
		}
		pk := v.Peak
		if pk <= allocBound(it.n) {
			ul.Churn++ // allocates a lot in total, holds little
			if ul.ChurnMax < a {
				ul.ChurnMax, ul.ChurnPeak, ul.ChurnInput, ul.ChurnKey = a, pk, it.n, it.key
			}
			continue
		}
		if v.Generic {
			ul.Generic++
			continue
		}
		o.Stack = v.Stack // who allocates: names the failing code whatever object it was reached through
		it.fail("alloc", o, pk)
		w.skip[it.key] = true // the class is reported; its further cases would each cost several measured runs
		w.costly[it.class]++
	}
}

func describe(kind string, o outcome, alloc uint64, n int) string {
	switch kind {
	case "panic":
		return "panics: " + o.Panic
	case "hang":
		return fmt.Sprintf("has not returned after %v", longDeadline)
	case "alloc":
		return fmt.Sprintf("holds %d bytes of heap at its peak for an input of %d bytes (bound 64 x input + 1 MiB = %d; smallest of three measurements alone)", alloc, n, allocBound(n))
	}
	return kind
}

func capHex(b []byte) string {
	if len(b) > 1<<17 {
		return hex.EncodeToString(b[:1<<17]) + "...(truncated)"
	}
	return hex.EncodeToString(b)
}

// ---- binary decoders -----------------------------------------------------------------

// myShapes: the shapes this worker executes, in catalogue order.
func (w *worker) myShapes() []*shape {
	var out []*shape
	for i, sh := range w.cat.Shapes {
		if i%w.j.Of == w.j.W {
			out = append(out, sh)
		}
	}
	return out
}

// decodeKey: the innermost function of core on the stack of a panic (or of a dying process) names the failing decoder most
// narrowly, whatever object it was reached through; otherwise the schema line that owns the corrupted item does.
func decodeKey(dc dcase, stack string) string {
	if site := panicSite(stack); site != "" {
		return "decode/" + site + "/" + dc.Class
	}
	return dc.key()
}

func decodePayload(sh *shape, ci int, dc dcase) map[string]any {
	return map[string]any{"entry": "DecodeFrom", "type": sh.Type, "shape": sh.Idx, "case": ci, "class": dc.Class, "variant": dc.Variant,
		"owner": dc.Owner, "member": dc.Path, "bytes_hex": capHex(dc.B), "valid_encoding_hex": capHex(sh.Bytes)}
}

func (w *worker) decodeAll() {
	shapes := w.myShapes()
	for ui := w.j.Start[0]; ui < len(shapes); ui++ {
		sh := shapes[ui]
		t := wb.TypeByName(sh.Type)
		if t == nil {
			continue
		}
		n := w.cat.numCases(sh)
		first := 0
		if ui == w.j.Start[0] {
			first = w.j.Start[1]
		}
		ul := &unitLine{K: "unit", Entry: "DecodeFrom", Type: sh.Type, Unit: ui, Classes: map[string]int{}}
		for lo := first; lo < n; lo += batchSize {
			hi := lo + batchSize
			if hi > n {
				hi = n
			}
			if w.single {
				hi = lo + 1
			}
			var items []item
			for ci := lo; ci < hi; ci++ {
				dc := w.cat.caseAt(sh, ci)
				key := dc.key()
				if w.skip[key] || w.costly[dc.Class] >= costlyBudget {
					ul.Skipped++
					continue
				}
				ci, dc := ci, dc
				if bytes.Equal(dc.B, sh.Bytes) {
					ul.Trivial++
				}
				items = append(items, item{idx: ci, key: key, n: len(dc.B), class: dc.Class, entry: "DecodeFrom", typ: sh.Type, in: dc.B,
					run: func() error { _, _, err := t.Decode(dc.B); return err },
					fail: func(kind string, o outcome, alloc uint64) {
						p := decodePayload(sh, ci, dc)
						p["outcome"], p["panic"], p["stack"], p["allocated"] = kind, o.Panic, o.Stack, alloc
						w.violation(decodeKey(dc, o.Stack), fmt.Sprintf("%s.DecodeFrom %s on %s %s of %s.%s (%d bytes)", sh.Type, describe(kind, o, alloc, len(dc.B)), dc.Class, dc.Variant, dc.Owner, dc.Path, len(dc.B)), p)
					}})
			}
			w.runBatch(ui, items, ul)
			if w.single {
				w.emit(ul)
				return
			}
		}
		w.emit(ul)
	}
}

// ---- JSON and text unmarshallers ----------------------------------------------------------

func (w *worker) myRoots() []jroot {
	var out []jroot
	for i, rt := range roots() {
		if i%w.j.Of == w.j.W {
			out = append(out, rt)
		}
	}
	return out
}

// jsonKey: the innermost function of core on the panic stack names the failing entry point most narrowly;
// without a stack (allocation, hang) the root type and the place in the document do.
func jsonKey(entry, root, leaf, where, class string, o outcome) string {
	if site := panicSite(o.Stack); site != "" {
		if entry == "json-direct" {
			entry = "json" // the same code, reached without encoding/json in front
		}
		return entry + "/" + site + "/" + class
	}
	return jsonSkipKey(entry, root, leaf, where, class)
}

// jsonSkipKey: the type that receives the corrupted node and the corruption class; the root type and the place in the
// document when that type is not known.
func jsonSkipKey(entry, root, leaf, where, class string) string {
	if leaf != "" {
		return entry + "/" + leaf + "/" + class
	}
	return entry + "/" + root + "/" + where + "/" + class
}

// unit numbering of a json job: unit 2*i = JSON cases of root i, unit 2*i+1 = text cases of root i.
func (w *worker) jsonAll() {
	rts := w.myRoots()
	for u := w.j.Start[0]; u < 2*len(rts); u++ {
		rt := rts[u/2]
		first := 0
		if u == w.j.Start[0] {
			first = w.j.Start[1]
		}
		if u%2 == 0 {
			w.jsonUnit(u, rt, first)
		} else if rt.Text {
			w.textUnit(u, rt, first)
		}
		if w.single {
			return
		}
	}
}

func (w *worker) jsonUnit(u int, rt jroot, first int) {
	ul := &unitLine{K: "unit", Entry: "UnmarshalJSON", Type: rt.Name, Unit: u, Classes: map[string]int{}}
	var items []item
	flush := func() {
		if len(items) > 0 {
			w.runBatch(u, items, ul)
			items = items[:0]
		}
	}
	forEachJSONCase(rt, w.cat, w.j.Seed, w.j.Thorough, func(i int, jc jcase) bool {
		if i < first {
			return true
		}
		entry := "json"
		run := func() error { return json.Unmarshal(jc.Doc, reflect.New(rt.T).Interface()) }
		if jc.Direct {
			entry = "json-direct"
			run = func() error { return reflect.New(rt.T).Interface().(json.Unmarshaler).UnmarshalJSON(jc.Doc) }
		}
		skipKey := jsonSkipKey(entry, rt.Name, jc.Leaf, jc.Where, jc.Class)
		if w.skip[skipKey] {
			ul.Skipped++
			return true
		}
		items = append(items, item{idx: i, key: skipKey, n: len(jc.Doc), class: jc.Class, run: run, entry: entry, typ: rt.Name, in: jc.Doc,
			fail: func(kind string, o outcome, alloc uint64) {
				key := jsonKey(entry, rt.Name, jc.Leaf, jc.Where, jc.Class, o)
				doc := string(jc.Doc)
				if len(doc) > 1<<17 {
					doc = doc[:1<<17] + "...(truncated)"
				}
				call := "json.Unmarshal into " + rt.Name
				if jc.Direct {
					call = rt.Name + ".UnmarshalJSON"
				}
				w.violation(key, fmt.Sprintf("%s %s on %s %s at %s (%d bytes)", call, describe(kind, o, alloc, len(jc.Doc)), jc.Class, jc.Variant, jc.Where, len(jc.Doc)),
					map[string]any{"entry": entry, "type": rt.Name, "case": i, "class": jc.Class, "variant": jc.Variant, "where": jc.Where, "document": doc, "document_hex": capHex(jc.Doc),
						"outcome": kind, "panic": o.Panic, "stack": o.Stack, "allocated": alloc})
			}})
		if len(items) >= batchSize || w.single {
			flush()
		}
		return !w.single
	})
	flush()
	w.emit(ul)
}

func (w *worker) textUnit(u int, rt jroot, first int) {
	ul := &unitLine{K: "unit", Entry: "UnmarshalText", Type: rt.Name, Unit: u, Classes: map[string]int{}}
	var items []item
	flush := func() {
		if len(items) > 0 {
			w.runBatch(u, items, ul)
			items = items[:0]
		}
	}
	forEachTextCase(rt, w.cat, w.j.Seed, w.j.Thorough, func(i int, tc tcase) bool {
		if i < first {
			return true
		}
		skipKey := "text/" + rt.Name + "/-/" + tc.Class
		if w.skip[skipKey] {
			ul.Skipped++
			return true
		}
		items = append(items, item{idx: i, key: skipKey, n: len(tc.Text), class: tc.Class, entry: "text", typ: rt.Name, in: tc.Text,
			run: func() error { return reflect.New(rt.T).Interface().(encoding.TextUnmarshaler).UnmarshalText(tc.Text) },
			fail: func(kind string, o outcome, alloc uint64) {
				key := jsonKey("text", rt.Name, "", "-", tc.Class, o)
				txt := string(tc.Text)
				if len(txt) > 1<<17 {
					txt = txt[:1<<17] + "...(truncated)"
				}
				w.violation(key, fmt.Sprintf("%s.UnmarshalText %s on %s %s (%d bytes)", rt.Name, describe(kind, o, alloc, len(tc.Text)), tc.Class, tc.Variant, len(tc.Text)),
					map[string]any{"entry": "text", "type": rt.Name, "case": i, "class": tc.Class, "variant": tc.Variant, "text": txt, "text_hex": capHex(tc.Text),
						"outcome": kind, "panic": o.Panic, "stack": o.Stack, "allocated": alloc})
			}})
		if len(items) >= batchSize || w.single {
			flush()
		}
		return !w.single
	})
	flush()
	w.emit(ul)
}

// canaries: synthetic entry points with known behaviour go through the same guard as the real ones (self-test of the
// verdict machinery): a panic, an allocation of 8 MiB for 16 bytes, a call that outlives the deadline, and a benign one.
var canarySink [][]byte

var canaryFuncs = map[string]func() error{
	"benign":    func() error { _ = make([]byte, 1000); return fmt.Errorf("rejected") },
	"panics":    func() error { var p *oneCase; _ = p.Hex; return nil },
	"allocates": func() error { canarySink = append(canarySink[:0], make([]byte, 8<<20)); return nil }, // 8 MiB held for 16 bytes
	"slow":      func() error { time.Sleep(2 * deadline); return nil },                                 // returns before the long deadline: an observation
	"hangs":     func() error { time.Sleep(3 * longDeadline); return nil },                             // does not
	"churns": func() error { // 128 MiB of garbage in total, 32 KiB held at any time, at the pace of a parser (~400 MB/s); "input" 256 KiB
		for i := 0; i < 4096; i++ {
			b := make([]byte, 32<<10)
			h := sha256.Sum256(b)
			b[0] = h[0]
			canarySink = append(canarySink[:0], b)
		}
		return nil
	},
}

func (w *worker) canaries() {
	ul := &unitLine{K: "unit", Entry: "canary", Type: "canary", Classes: map[string]int{}}
	var items []item
	for i, name := range []string{"benign", "panics", "allocates", "slow", "hangs", "churns"} {
		name := name
		in := make([]byte, 16)
		if name == "churns" {
			in = make([]byte, 256<<10) // bound 17 MiB: the measure's resolution (what is allocated during one forced collection) is 1-3 MB
		}
		items = append(items, item{idx: i, key: "canary/" + name, n: len(in), class: name, run: canaryFuncs[name], entry: "canary", typ: name, in: in,
			fail: func(kind string, o outcome, alloc uint64) {
				w.violation("canary/"+name+"/"+kind, describe(kind, o, alloc, len(in)), map[string]any{"stack": o.Stack})
			}})
	}
	w.runBatch(0, items, ul)
	w.emit(ul)
}

// runOne executes one saved input with the full guard (panic, deadline twice, allocation alone three times).
func (w *worker) runOne() {
	oc := w.j.One
	b, err := hex.DecodeString(strings.TrimSuffix(oc.Hex, "...(truncated)"))
	if oc == nil || err != nil {
		fmt.Fprintln(os.Stderr, "worker: bad replay case")
		os.Exit(3)
	}
	var run func() error
	switch oc.Entry {
	case "canary":
		run = canaryFuncs[oc.Type]
		if run == nil {
			fmt.Fprintln(os.Stderr, "worker: unknown canary", oc.Type)
			os.Exit(3)
		}
	case "DecodeFrom":
		t := wb.TypeByName(oc.Type)
		if t == nil {
			fmt.Fprintln(os.Stderr, "worker: unknown wire type", oc.Type)
			os.Exit(3)
		}
		run = func() error { _, _, err := t.Decode(b); return err }
	default:
		var rt *jroot
		for _, r := range roots() {
			if r.Name == oc.Type {
				r := r
				rt = &r
			}
		}
		if rt == nil {
			fmt.Fprintln(os.Stderr, "worker: unknown type", oc.Type)
			os.Exit(3)
		}
		switch oc.Entry {
		case "json":
			run = func() error { return json.Unmarshal(b, reflect.New(rt.T).Interface()) }
		case "json-direct":
			run = func() error { return reflect.New(rt.T).Interface().(json.Unmarshaler).UnmarshalJSON(b) }
		case "text":
			run = func() error { return reflect.New(rt.T).Interface().(encoding.TextUnmarshaler).UnmarshalText(b) }
		default:
			fmt.Fprintln(os.Stderr, "worker: unknown entry", oc.Entry)
			os.Exit(3)
		}
	}
	w.progress(0, 0)
	ul := &unitLine{K: "unit", Entry: oc.Entry, Type: oc.Type, Classes: map[string]int{}}
	fail := func(kind string, o outcome, alloc uint64) {
		if oc.Verdict {
			return
		}
		w.violation(oc.Key, fmt.Sprintf("%s of %s %s (%d bytes)", oc.Entry, oc.Type, describe(kind, o, alloc, len(b)), len(b)),
			map[string]any{"entry": oc.Entry, "type": oc.Type, "outcome": kind, "panic": o.Panic, "stack": o.Stack, "allocated": alloc, "hex": capHex(b)})
	}
	// this process holds next to nothing: its collector follows the case closely
	o, a := w.g.measure(run)
	pl := peakLine{K: "peak", Total: a, Bad: o.bad()}
	switch {
	case o.TimedOut:
		fail("hang", o, 0)
	case o.Panic != "":
		fail("panic", o, 0)
	case a > allocBound(len(b)):
		o2, pk := w.g.confirmPeak(run)
		pl.Peak, pl.Bad = pk, o2.bad()
		if !o2.bad() && pk > allocBound(len(b)) {
			pl.Stack, pl.Generic = w.g.allocStackG(run)
			if !pl.Generic {
				o2.Stack = pl.Stack
				fail("alloc", o2, pk)
			}
		}
	}
	w.emit(pl)
	if o.slow() {
		w.emit(slowLine{"slow", oc.Key, o.Seconds})
	}
	ul.N = 1
	w.emit(ul)
}

// keyPrefixOfCase reconstructs, in the parent, the case a dead worker was executing.
func caseDescription(j job, cat *catalogue, unit, cs int) (key, what string, payload map[string]any) {
	switch j.Kind {
	case "decode":
		var mine []*shape
		for i, sh := range cat.Shapes {
			if i%j.Of == j.W {
				mine = append(mine, sh)
			}
		}
		if unit >= len(mine) || cs >= cat.numCases(mine[unit]) {
			return "", "", nil
		}
		sh := mine[unit]
		dc := cat.caseAt(sh, cs)
		return dc.key(), fmt.Sprintf("%s.DecodeFrom on %s %s of %s.%s (%d bytes)", sh.Type, dc.Class, dc.Variant, dc.Owner, dc.Path, len(dc.B)), decodePayload(sh, cs, dc)
	case "json":
		var mine []jroot
		for i, rt := range roots() {
			if i%j.Of == j.W {
				mine = append(mine, rt)
			}
		}
		if unit/2 >= len(mine) {
			return "", "", nil
		}
		rt := mine[unit/2]
		if unit%2 == 0 {
			forEachJSONCase(rt, cat, j.Seed, j.Thorough, func(i int, jc jcase) bool {
				if i != cs {
					return true
				}
				entry := "json"
				if jc.Direct {
					entry = "json-direct"
				}
				key = jsonSkipKey(entry, rt.Name, jc.Leaf, jc.Where, jc.Class)
				what = fmt.Sprintf("%s of %s on %s %s at %s (%d bytes)", entry, rt.Name, jc.Class, jc.Variant, jc.Where, len(jc.Doc))
				payload = map[string]any{"entry": entry, "type": rt.Name, "case": i, "class": jc.Class, "variant": jc.Variant, "where": jc.Where, "document_hex": capHex(jc.Doc)}
				return false
			})
		} else {
			forEachTextCase(rt, cat, j.Seed, j.Thorough, func(i int, tc tcase) bool {
				if i != cs {
					return true
				}
				key = "text/" + rt.Name + "/-/" + tc.Class
				what = fmt.Sprintf("%s.UnmarshalText on %s %s (%d bytes)", rt.Name, tc.Class, tc.Variant, len(tc.Text))
				payload = map[string]any{"entry": "text", "type": rt.Name, "case": i, "class": tc.Class, "variant": tc.Variant, "text_hex": capHex(tc.Text)}
				return false
			})
		}
	}
	return
}

var _ = strings.TrimSpace
