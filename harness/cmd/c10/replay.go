package main

import (
	"encoding/hex"
	"encoding/json"
	"fmt"
	"os"
	"path/filepath"
	"strings"

	"verif/harness/chain"
	"verif/harness/vlib"
)

// replay re-executes one saved case against the current tree.
//   - decoder / unmarshaller cases: the saved input runs through the same entry point in a worker process with the full guard;
//   - ledger cases: the saved behaviour is replayed on a fresh chain, the saved catalogue entry is applied to its last block,
//     and the entry points are exercised again.
func replay(c *vlib.Ctx) {
	raw, err := os.ReadFile(c.Replay)
	if err != nil {
		c.Fatal("replay: %v", err)
	}
	var f struct {
		Key  string `json:"key"`
		Case struct {
			Entry     string              `json:"entry"`
			Type      string              `json:"type"`
			BytesHex  string              `json:"bytes_hex"`
			DocHex    string              `json:"document_hex"`
			TextHex   string              `json:"text_hex"`
			Hex       string              `json:"hex"`
			Extreme   *ext                `json:"extreme"`
			Reveal    *revealCase         `json:"reveal_case"`
			Sealed    bool                `json:"sealed"`
			Config    *chain.LedgerConfig `json:"config"`
			Behaviour []chain.Step        `json:"behaviour"`
			Target    struct {
				Ver   int `json:"ver"`
				Index int `json:"index"`
			} `json:"target"`
		} `json:"case"`
	}
	if err := json.Unmarshal(raw, &f); err != nil {
		c.Fatal("replay: %v", err)
	}
	c.Rule("replay of one saved case")
	cs := f.Case
	if cs.Reveal != nil {
		// commit, then reveal: the two blocks are rebuilt from the case
		if p, val := vlib.Recover(func() { replayReveal(c, cs.Reveal) }); p {
			c.Fatal("replay: %v", val)
		}
		c.Count(1, 1)
		c.Finish()
	}
	if cs.Extreme != nil && cs.Config == nil && (cs.Extreme.Fam == "wrap" || cs.Extreme.Fam == "lifecycle") {
		// scenarios of their own: rebuilt from the catalogue entry alone
		st := newLedgerStats()
		if cs.Extreme.Fam == "wrap" {
			wrapOne(c, st, newGuard(), *cs.Extreme)
		} else if size, ok := sizeVal(cs.Extreme.X); ok {
			lifecycleOne(c, st, newGuard(), cs.Extreme.Ver, size, []ext{*cs.Extreme})
		}
		c.Count(1, 1)
		c.Finish()
	}
	if cs.Extreme == nil && cs.Config != nil && len(cs.Behaviour) > 0 {
		// an honest block: the behaviour is replayed; its last block goes through the entry points again
		sim := chain.NewSim(cs.Config.P)
		for i, st := range cs.Behaviour {
			res, infra := sim.RunStep(i, st)
			if infra != nil {
				c.Fatal("replay: %v", infra)
			}
			for _, m := range res.Mismatches {
				if m.Kind == "panic" {
					c.Violation(f.Key, "replayed honest behaviour: "+m.Detail, map[string]any{"config": cs.Config, "behaviour": cs.Behaviour[:i+1], "honest": true})
					c.Count(1, 1)
					c.Finish()
				}
			}
		}
		if len(sim.Chain) > 0 {
			a := sim.Chain[len(sim.Chain)-1]
			m := &mctx{sim: sim, cs: a.Prev, child: a.Prev.Index.Height + 1, keys: keyMap(sim)}
			m.b, m.bs = cloneBlock(a.Block, a.Supp)
			if lo := m.exercise(newGuard(), func(string, bool) {}); lo != nil && lo.O.bad() {
				c.Violation(f.Key, fmt.Sprintf("%s panics on the replayed honest block: %s", lo.Entry, lo.O.Panic), map[string]any{"config": cs.Config, "behaviour": cs.Behaviour, "honest": true, "stack": lo.O.Stack})
			}
		}
		c.Count(1, 1)
		c.Finish()
	}
	if cs.Extreme != nil && cs.Config != nil {
		replayLedger(c, f.Key, *cs.Extreme, cs.Sealed, *cs.Config, cs.Behaviour)
		c.Count(1, 1)
		c.Finish()
	}
	h := cs.BytesHex + cs.DocHex + cs.TextHex + cs.Hex
	if strings.HasSuffix(h, "...(truncated)") {
		c.Fatal("replay: the saved input was truncated (over 128 KiB); re-run the check to regenerate it")
	}
	if _, err := hex.DecodeString(h); err != nil || cs.Entry == "" || cs.Type == "" {
		c.Fatal("replay: the file carries no input")
	}
	dir := filepath.Join(c.Work, "replay")
	os.MkdirAll(dir, 0o755)
	// the worker needs a catalogue file only for bulk jobs; an empty one will do
	j := job{Kind: "one", Lines: filepath.Join(dir, "none.lines"), Out: filepath.Join(dir, "one.out"), Progress: filepath.Join(dir, "one.progress"),
		One: &oneCase{Entry: cs.Entry, Type: cs.Type, Hex: h, Key: f.Key}}
	os.WriteFile(j.Lines, []byte("BLOBS []\nFIXED {}\nTAILS []\nJSONCAT []\nTEXTCAT []\nCLASSES []\n"), 0o644)
	jb, _ := json.Marshal(j)
	jobFile := filepath.Join(dir, "one.job")
	os.WriteFile(jobFile, jb, 0o644)
	code, stderr, timedOut := runProcess(jobFile, 3*60*1e9)
	switch {
	case timedOut:
		c.Fatal("replay: worker did not finish")
	case code == 3:
		c.Fatal("replay: %s", vlib.Tail(stderr, 400))
	case code != 0:
		c.Violation(f.Key, fmt.Sprintf("%s of %s kills the process (not recoverable): %s", cs.Entry, cs.Type, strings.ReplaceAll(firstLines(stderr, 2), "\n", " | ")),
			map[string]any{"entry": cs.Entry, "type": cs.Type, "hex": h, "outcome": "process killed", "stderr": firstLines(stderr, 6)})
	default:
		out, _ := os.ReadFile(j.Out)
		for _, ln := range strings.Split(string(out), "\n") {
			var v violLine
			if json.Unmarshal([]byte(ln), &v) == nil && v.K == "viol" {
				c.Violation(v.Key, v.What, v.Payload)
			}
		}
	}
	c.Count(1, 1)
	c.Finish()
}

func replayLedger(c *vlib.Ctx, key string, e ext, sealed bool, cfg chain.LedgerConfig, steps []chain.Step) {
	if len(steps) == 0 {
		c.Fatal("replay: empty behaviour")
	}
	sim := chain.NewSim(cfg.P)
	for i, st := range steps {
		res, infra := sim.RunStep(i, st)
		if infra != nil {
			c.Fatal("replay: %v", infra)
		}
		if i == len(steps)-1 && (!res.Accepted || len(sim.Chain) == 0) {
			c.Fatal("replay: the base block is not accepted any more")
		}
	}
	st := newLedgerStats()
	beh := &chain.Behaviour{Steps: steps, Hash: "replay"}
	// only the saved entry, both sealings (the key does not depend on the sealing)
	mutateBlock(c, st, []ext{e}, sim, newGuard(), keyMap(sim), cfg, beh, len(steps)-1, steps[len(steps)-1].Txs, 1, 0)
	if st.mutants == 0 {
		c.Fatal("replay: the catalogue entry does not apply to the replayed block")
	}
}
