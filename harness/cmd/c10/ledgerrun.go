package main

import (
	"bytes"
	"encoding/json"
	"fmt"
	"sort"
	"strings"
	"sync"
	"time"

	"go.sia.tech/core/consensus"
	"go.sia.tech/core/types"
	"verif/harness/chain"
	"verif/harness/vlib"
)

// loadExtremes runs TLC on spec/ledger/Extremes and returns the catalogue it enumerates.
func loadExtremes(c *vlib.Ctx) ([]ext, []string) {
	res := c.MustTLC(vlib.TLCOpts{SpecDirs: []string{"ledger"}, Module: "Extremes", Config: "Extremes.cfg", Workers: 1})
	var out []ext
	var fams []string
	want := -1
	for _, ln := range res.Lines {
		switch {
		case strings.HasPrefix(ln, "EXT "):
			var e ext
			if err := json.Unmarshal([]byte(vlib.UnquoteTLA(strings.TrimPrefix(ln, "EXT "))), &e); err != nil {
				c.Fatal("Extremes: unparsable entry: %v", err)
			}
			out = append(out, e)
		case strings.HasPrefix(ln, "EXTCOUNT "):
			fmt.Sscan(strings.TrimPrefix(ln, "EXTCOUNT "), &want)
		case strings.HasPrefix(ln, "FAMILIES "):
			json.Unmarshal([]byte(vlib.UnquoteTLA(strings.TrimPrefix(ln, "FAMILIES "))), &fams)
		case strings.HasPrefix(ln, "RV"):
			revealLines = append(revealLines, ln) // the commit-then-reveal family (reveal.go)
		}
	}
	if want != len(out) || len(out) == 0 {
		c.Fatal("Extremes: %d of %d catalogue entries arrived", len(out), want)
	}
	// fixed order: TLC prints a set
	sort.SliceStable(out, func(i, j int) bool {
		a, b := out[i], out[j]
		ka := fmt.Sprint(a.Fam, "|", a.Ver, "|", a.T, "|", a.X, "|", a.T2, "|", a.X2)
		kb := fmt.Sprint(b.Fam, "|", b.Ver, "|", b.T, "|", b.X, "|", b.T2, "|", b.X2)
		return ka < kb
	})
	sort.Strings(fams)
	return out, fams
}

type ledgerStats struct {
	mu                             sync.Mutex
	heavyMu                        sync.Mutex       // entries that may take long run one at a time (so that a hang is found once, not by every goroutine at once)
	mutants                        int64            // mutants executed (raw + sealed)
	notApplicable                  int64            // (entry, transaction) pairs the entry does not apply to
	perEntry                       map[string]int64 // entry point -> executions
	perEntryOK                     map[string]int64 // entry point -> executions that returned nil (accepted)
	perFam                         map[string]int64 // family -> mutants
	entriesHit                     map[int]bool     // catalogue entries applied at least once
	accepted                       map[string]int64 // class -> mutants that passed ValidateBlock and were applied + reverted
	appliedReverted                int64
	distinct                       map[string]bool // (entry, sealed, transaction shape, era)
	blocks                         int64
	fixed                          int   // fixed behaviours replayed (scenarios.go)
	honestBehaviours, honestBlocks int64 // exhaustive narrow families of honest blocks (exhaustive.go)
	honestPerFamily                map[string]int
	hung                           map[string]bool    // classes seen to be slow or not to return: not executed again (each costs that long again)
	slow                           map[string]float64 // observation: key -> seconds of the slowest call (calls that return, but take more than slowThreshold)
	skippedHung                    int64
	followUps                      map[string]int64 // follow-up blocks executed, by kind
	notDecodable                   map[string]int64 // mutants not executed because no codec round-trips the changed transaction
	unknown                        map[string]bool
	samples                        []any
}

func newLedgerStats() *ledgerStats {
	return &ledgerStats{perEntry: map[string]int64{}, perEntryOK: map[string]int64{}, perFam: map[string]int64{}, entriesHit: map[int]bool{},
		accepted: map[string]int64{}, distinct: map[string]bool{}, unknown: map[string]bool{}, hung: map[string]bool{}, slow: map[string]float64{}, notDecodable: map[string]int64{}, followUps: map[string]int64{}}
}

// blockScope families build their own transaction (or change the block); they run once per block.
func blockScope(e ext) bool {
	return e.Ver == 0 || e.Fam == "weight" || e.Fam == "empty" || e.Fam == "era" || e.Fam == "decoded" || e.Fam == "confuse" || e.Fam == "suppera"
}

func keyMap(sim *chain.Sim) map[types.PublicKey]types.PrivateKey {
	m := map[types.PublicKey]types.PrivateKey{}
	for _, n := range []string{"A", "B", "C", "F", "M", "R", "H", "X", "Y"} {
		sk := sim.K.SK(n)
		m[sk.PublicKey()] = sk
	}
	return m
}

type target struct {
	ver, k int
	abs    *chain.AbsTx
}

// c10Shapes: the network shapes of the ledger checks with the Foundation hardfork early enough to be reached.
func c10Shapes() map[string]chain.Params {
	s := chain.Shapes()
	for k, p := range s {
		p.FoundH = 2
		s[k] = p
	}
	// v2 allowed early, the ephemeral-output fix height never reached: every v2 block is in the era in which claims about
	// parents created in the same block are taken on trust
	s["ephlate"] = chain.Params{MatDelay: 1, AllowH: 1, RequireH: 7, EphH: 100, FoundH: 2, Reward: 500, GenSC: s["mixed"].GenSC, GenSF: s["mixed"].GenSF}
	return s
}

// mutateBlock applies every applicable catalogue entry to one accepted block (the tip of sim) and exercises the entry points.
func mutateBlock(c *vlib.Ctx, st *ledgerStats, exts []ext, sim *chain.Sim, g *guard, keys map[types.PublicKey]types.PrivateKey, cfg chain.LedgerConfig,
	beh *chain.Behaviour, step int, absTxs []chain.AbsTx, stride, phase int) {
	a := sim.Chain[len(sim.Chain)-1]
	child := a.Prev.Index.Height + 1
	var targets []target
	n1, n2 := 0, 0
	for i := range absTxs {
		t := &absTxs[i]
		if t.Ver == 1 {
			targets = append(targets, target{1, n1, t})
			n1++
		} else {
			targets = append(targets, target{2, n2, t})
			n2++
		}
	}
	if n1 != len(a.Block.Transactions) || n2 != len(a.Block.V2Transactions()) {
		c.Infra("behaviour %s step %d: block does not carry the abstract transactions (%d/%d v1, %d/%d v2)", beh.Hash, step, len(a.Block.Transactions), n1, len(a.Block.V2Transactions()), n2)
		return
	}
	era := "v1"
	if child >= a.Prev.Network.HardforkV2.RequireHeight {
		era = "v2"
	} else if child >= a.Prev.Network.HardforkV2.AllowHeight {
		era = "mixed"
	}
	st.mu.Lock()
	st.blocks++
	st.mu.Unlock()
	local := newLedgerStats()
	preChecked := map[int][]string{}
	for _, e := range exts {
		if e.Fam == "complement" && e.X == "rest" {
			preChecked[e.Ver] = append(preChecked[e.Ver], e.T)
		}
	}
	// ids of the elements this block creates, in creation order
	created := &createdIDs{}
	for _, d := range a.Update.SiacoinElementDiffs() {
		if d.Created {
			created.sc = append(created.sc, types.Hash256(d.SiacoinElement.ID))
		}
	}
	for _, d := range a.Update.SiafundElementDiffs() {
		if d.Created {
			created.sf = append(created.sf, types.Hash256(d.SiafundElement.ID))
		}
	}
	for _, d := range a.Update.FileContractElementDiffs() {
		if d.Created {
			created.fc = append(created.fc, types.Hash256(d.FileContractElement.ID))
		}
	}
	for _, d := range a.Update.V2FileContractElementDiffs() {
		if d.Created {
			created.v2fc = append(created.v2fc, types.Hash256(d.V2FileContractElement.ID))
		}
	}
	// what the block's transactions record (block-level outputs -- payouts, subsidy, missed-proof outputs -- come after them)
	nSC := len(a.Update.SiacoinElementDiffs()) - len(a.Block.MinerPayouts)
	for _, fce := range a.Supp.ExpiringFileContracts {
		nSC -= len(fce.FileContract.MissedProofOutputs)
	}
	if _, ok := a.Prev.FoundationSubsidy(); ok {
		nSC--
	}
	if nSC < 0 {
		nSC = 0
	}
	nSF := len(a.Update.SiafundElementDiffs())
	// a v1 / v2 transaction that an earlier block of this history carried
	var earlierV1 *types.Transaction
	var earlierV2 *types.V2Transaction
	for i := len(sim.Chain) - 2; i >= 0 && (earlierV1 == nil || earlierV2 == nil); i-- {
		if earlierV1 == nil && len(sim.Chain[i].Block.Transactions) > 0 {
			t := sim.Chain[i].Block.Transactions[0]
			earlierV1 = &t
		}
		if v2 := sim.Chain[i].Block.V2Transactions(); earlierV2 == nil && len(v2) > 0 {
			t := v2[0].DeepCopy()
			earlierV2 = &t
		}
	}
	count := func(entry string, ok bool) {
		local.perEntry[entry]++
		if ok {
			local.perEntryOK[entry]++
		}
	}
	run := func(ei int, e ext, tg target) {
		shape := "block"
		if tg.abs != nil {
			shape = fmt.Sprintf("v%d:%s", tg.abs.Ver, tg.abs.Tag)
		}
		if strings.Contains(e.X, "12000") {
			st.heavyMu.Lock()
			defer st.heavyMu.Unlock()
		}
		st.mu.Lock()
		skip := st.hung[e.class()]
		if skip {
			st.skippedHung++
		}
		st.mu.Unlock()
		if skip {
			return
		}
		// siafund mutants also run (re-signed and re-sealed) on the state with a siafund pool of realistic size
		variants := []int{0, 1}
		if e.Fam == "wrap" || e.Fam == "siafund" || strings.Contains(e.T, "sfi") || strings.Contains(e.T2, "sfi") {
			variants = append(variants, 2)
		}
		for _, variant := range variants {
			sealed, rich := variant >= 1, variant == 2
			st.mu.Lock()
			skip = st.hung[e.class()]
			st.mu.Unlock()
			if skip {
				return
			}
			m := &mctx{sim: sim, cs: a.Prev, child: child, ver: tg.ver, k: tg.k, abs: tg.abs, keys: keys, created: created, preChecked: preChecked, nSC: nSC, nSF: nSF, earlierV1: earlierV1, earlierV2: earlierV2}
			if rich {
				m.cs.SiafundTaxRevenue = types.Siacoins(1000)
			}
			m.b, m.bs = cloneBlock(a.Block, a.Supp)
			var applied bool
			if p, val := vlib.Recover(func() { applied = m.apply(e) }); p {
				c.Infra("mutation %v on behaviour %s step %d failed in the harness: %v", e, beh.Hash, step, val)
				return
			}
			if m.unknown != "" {
				local.unknown[m.unknown] = true
				return
			}
			if !applied {
				local.notApplicable++
				return
			}
			if (e.Fam == "policy" || e.Fam == "uc") && e.X != "nil-type" && !m.decodable() {
				local.notDecodable[e.Fam+" "+e.X]++ // no decoder hands this value over: outside the property's quantifier
				return
			}
			if sealed {
				if !m.keepSigs {
					m.resign()
				}
				m.reseal()
			}
			lo := m.exercise(g, count)
			if m.slowSec > slowThreshold.Seconds() { // an observation, never a verdict: the call returned
				site := ledgerSite(m.slowStack)
				if site == "" {
					site = m.slowEntry
				}
				cls := e.class()
				if m.class != "" {
					cls = m.class
				}
				st.mu.Lock()
				if k := "ledger/" + site + "/" + cls; st.slow[k] < m.slowSec {
					st.slow[k] = m.slowSec
				}
				if strings.Contains(e.X, "12000") || m.slowSec > deadline.Seconds() {
					st.hung[e.class()] = true // observed once; every further mutant of the class would cost as long
				}
				st.mu.Unlock()
			}
			local.mutants++
			local.perFam[e.Fam]++
			local.entriesHit[ei] = true
			local.distinct[fmt.Sprint(ei, variant, shape, era)] = true
			if lo != nil && lo.Accepted {
				local.accepted[e.class()]++
				local.appliedReverted++
			}
			if lo != nil && lo.O.bad() {
				kind, site := "panics: "+lo.O.Panic, ledgerSite(lo.O.Stack)
				if lo.O.TimedOut { // the same execution was given the long deadline and still has not returned
					kind = fmt.Sprintf("has not returned after %v", longDeadline)
					st.mu.Lock()
					st.hung[e.class()] = true
					st.mu.Unlock()
				}
				if site == "" {
					site = lo.Entry
				}
				rep := e
				if e.Fam == "cur2" && !lo.O.TimedOut {
					// minimal reproduction: does one of the two extremes alone fail at the same place?
					for _, one := range []ext{{Fam: "cur", Ver: e.Ver, T: e.T, Need: e.Need, X: e.X}, {Fam: "cur", Ver: e.Ver, T: e.T2, Need: e.Need2, X: e.X2}} {
						if one.T == "payout" {
							one.Ver = 0
						}
						m1 := &mctx{sim: sim, cs: m.cs, child: child, ver: tg.ver, k: tg.k, abs: tg.abs, keys: keys, created: created}
						m1.b, m1.bs = cloneBlock(a.Block, a.Supp)
						if !m1.apply(one) {
							continue
						}
						if sealed {
							m1.resign()
							m1.reseal()
						}
						if l1 := m1.exercise(g, func(string, bool) {}); l1 != nil && l1.O.Panic != "" && ledgerSite(l1.O.Stack) == site {
							rep, m, lo = one, m1, l1
							break
						}
					}
				}
				e := rep
				cls := e.class()
				if m.class != "" {
					cls = m.class
				}
				key := "ledger/" + site + "/" + cls
				how := "as is"
				if sealed {
					how = "re-signed and re-sealed"
				}
				if rich {
					how += ", on the state with its siafund pool raised to 1000 SC"
				}
				// a failure of a transaction-level entry point: does the same mutant, sealed into its block, fail ValidateBlock too?
				viaBlock := ""
				if !lo.O.TimedOut && lo.Entry != "ValidateBlock" && lo.Entry != "ValidateOrphan" && lo.Entry != "ValidateHeader" && lo.Entry != "ApplyBlock" && lo.Entry != "RevertBlock" {
					mb := *m
					mb.b, mb.bs = cloneBlock(m.b, m.bs)
					mb.reseal()
					ob := g.run(func() error { return consensusValidateBlock(mb.cs, mb.b, mb.bs) })
					switch {
					case ob.Panic != "":
						viaBlock = "ValidateBlock on the re-sealed block panics too: " + ob.Panic
					case ob.TimedOut:
						viaBlock = "ValidateBlock on the re-sealed block misses the deadline"
					default:
						viaBlock = "ValidateBlock on the re-sealed block returns"
					}
					how += "; " + viaBlock
				}
				c.Violation(key, fmt.Sprintf("%s %s on a valid block (height %d, %s era, transaction %s) changed by %v, %s", lo.Entry, kind, child, era, shape, e, how),
					map[string]any{"entry": lo.Entry, "extreme": e, "sealed": sealed, "rich_pool": rich, "panic": lo.O.Panic, "stack": lo.O.Stack, "config": cfg, "behaviour": beh.Steps[:step+1],
						"target": map[string]any{"ver": m.ver, "index": m.k}, "block": mustJSON(m.b), "supplement": mustJSON(m.bs), "state": mustJSON(m.cs), "accepted_before_failure": lo.Accepted, "through_validate_block": viaBlock})
			}
			// follow-up histories on the state the accepted mutant leaves behind
			if lo != nil && lo.Accepted && variant == 1 && followUpFamilies[e.Fam] {
				for _, fr := range m.followUps(g, count) {
					local.followUps[fr.kind]++
					if fr.lo != nil && fr.lo.Accepted {
						local.followUps[fr.kind+" accepted, applied, reverted"]++
					}
					if fr.lo == nil || !fr.lo.O.bad() {
						continue
					}
					site := ledgerSite(fr.lo.O.Stack)
					if site == "" {
						site = fr.lo.Entry
					}
					kind := "panics: " + fr.lo.O.Panic
					if fr.lo.O.TimedOut {
						kind = fmt.Sprintf("has not returned after %v", longDeadline)
					}
					cls := e.class()
					if m.class != "" {
						cls = m.class
					}
					c.Violation(followKey(site, cls, fr.kind), fmt.Sprintf("%s %s on an honest follow-up block (%s) built on the state left by an ACCEPTED mutant: a valid block (height %d, %s era, transaction %s) changed by %v, re-signed and re-sealed, passed ValidateBlock and was applied", fr.lo.Entry, kind, fr.kind, child, era, shape, e),
						map[string]any{"entry": fr.lo.Entry, "extreme": e, "sealed": true, "follow_up": fr.kind, "panic": fr.lo.O.Panic, "stack": fr.lo.O.Stack, "config": cfg, "behaviour": beh.Steps[:step+1],
							"target": map[string]any{"ver": m.ver, "index": m.k}, "block": mustJSON(m.b), "supplement": mustJSON(m.bs), "state": mustJSON(m.cs),
							"follow_up_block": mustJSON(fr.m.b), "follow_up_supplement": mustJSON(fr.m.bs), "follow_up_state": mustJSON(fr.m.cs)})
				}
			}
			if len(local.samples) < 1 && lo != nil && lo.Accepted && e.Fam != "header" {
				local.samples = append(local.samples, map[string]any{"extreme": e.String(), "sealed": sealed, "transaction": shape, "height": child, "outcome": "accepted, applied, reverted"})
			}
		}
	}
	// sampling: the big families (pairs of currency members, covered-field lists, decoded documents, supplement x shape,
	// ids of another kind) get a fraction of their applicable entries per block, rotating with the block; every other
	// entry runs on every block it applies to; the fixed behaviours (scenarios.go) get every entry
	seq := 0
	take := func(e ext) bool {
		s := 1
		switch e.Fam {
		case "cur2":
			s = stride
		case "covered":
			s = (stride + 2) / 3
		case "decoded":
			s = (stride + 1) / 2 // the documents do not depend on the block
		case "suppera", "confuse":
			s = (stride + 3) / 4
		}
		seq++
		return seq%s == phase%s
	}
	for ei, e := range exts {
		if e.Fam == "lifecycle" || e.Fam == "reveal" {
			continue // scenarios of their own (runLifecycle, runReveal)
		}
		if blockScope(e) {
			if take(e) {
				run(ei, e, target{})
			}
			continue
		}
		hit := false
		for _, tg := range targets {
			if e.Ver != tg.ver {
				continue
			}
			var real any
			if tg.ver == 1 {
				real = &a.Block.Transactions[tg.k]
			}
			if !needs(tg.abs, e.Need, real) || (e.Need2 != "" && !needs(tg.abs, e.Need2, real)) {
				local.notApplicable++
				continue
			}
			hit = true
			if take(e) {
				run(ei, e, tg)
			}
		}
		// a block without v1 transactions still gets the entries that build their own (arbitrary data)
		if !hit && e.Fam == "arb" && e.Ver == 1 && n1 == 0 && child < a.Prev.Network.HardforkV2.RequireHeight {
			if take(e) {
				run(ei, e, target{})
			}
		}
	}
	st.mu.Lock()
	st.mutants += local.mutants
	st.notApplicable += local.notApplicable
	st.appliedReverted += local.appliedReverted
	for k, v := range local.perEntry {
		st.perEntry[k] += v
	}
	for k, v := range local.perEntryOK {
		st.perEntryOK[k] += v
	}
	for k, v := range local.perFam {
		st.perFam[k] += v
	}
	for k := range local.entriesHit {
		st.entriesHit[k] = true
	}
	for k, v := range local.accepted {
		st.accepted[k] += v
	}
	for k := range local.distinct {
		st.distinct[k] = true
	}
	for k := range local.unknown {
		st.unknown[k] = true
	}
	for k, v := range local.notDecodable {
		st.notDecodable[k] += v
	}
	for k, v := range local.followUps {
		st.followUps[k] += v
	}
	if len(st.samples) < 3 {
		st.samples = append(st.samples, local.samples...)
	}
	st.mu.Unlock()
}

// runLedger: TLC simulates behaviours of Ledger.tla on several network shapes; every accepted block of every replayed
// behaviour is the base of the catalogue's mutants.
func runLedger(c *vlib.Ctx, exts []ext) (*ledgerStats, chain.RunStats) {
	st := newLedgerStats()
	var mu sync.Mutex
	guards := map[*chain.Sim]*guard{}
	keysOf := map[*chain.Sim]map[types.PublicKey]types.PrivateKey{}
	total := chain.RunStats{Tags: map[string]int{}}
	type run struct {
		shape string
		tpl   []string
		num   int
	}
	runs := []run{
		{"v1only", chain.AllTemplates, c.Pick(8, 120)},
		{"mixed", chain.AllTemplates, c.Pick(8, 120)},
		{"v2only", chain.AllTemplates, c.Pick(8, 120)},
		{"ephlate", []string{"pay", "pay2", "sf"}, c.Pick(6, 80)},
		{"v1only", []string{"form1", "rev1", "prove1"}, c.Pick(5, 60)},
		{"v2only", []string{"form2", "rev2", "res2", "renew2"}, c.Pick(5, 60)},
	}
	// every block gets 1/stride of its applicable entries; the phase rotates so that all entries are used across blocks
	stride := c.Pick(8, 2)
	var wg sync.WaitGroup
	var tmu sync.Mutex
	for _, rn := range runs {
		wg.Add(1)
		go func(rn run) {
			defer wg.Done()
			cfg := chain.BaseConfig(c10Shapes()[rn.shape])
			cfg.Templates = rn.tpl
			cfg.NoPost = true
			cfg.MaxReverts = 1
			if len(rn.tpl) == len(chain.AllTemplates) {
				// the defect catalogue of Ledger.tla (BadTxn): blocks the model rejects also only ever have to be rejected
				cfg.Defects = []string{"unbalanced", "zero", "auth", "intx", "revision", "proof", "formation", "reuse", "era", "immature", "timing", "early"}
			}
			opts := chain.RunOpts{Num: rn.num, Depth: 48, Timeout: 15 * time.Minute, Workers: 3,
				NewSim: func(sim *chain.Sim) {
					mu.Lock()
					guards[sim] = newGuard()
					keysOf[sim] = keyMap(sim)
					mu.Unlock()
				},
				Hook: func(sim *chain.Sim, beh *chain.Behaviour, i int, s chain.Step, res chain.StepResult) {
					if s.Op != "block" || s.Verdict != "accept" || !res.Accepted || len(res.Mismatches) > 0 || len(sim.Chain) == 0 {
						return
					}
					mu.Lock()
					g, keys := guards[sim], keysOf[sim]
					mu.Unlock()
					phase := int(nameHash(fmt.Sprint(beh.Hash, "/", i)) % (1 << 20)) // fixed by the behaviour, not by scheduling
					mutateBlock(c, st, exts, sim, g, keys, cfg, beh, i, s.Txs, stride, phase)
				},
			}
			if rn.shape == "ephlate" {
				opts.NoFocus = true
				cfg.MaxTxns = 3
			} else if len(rn.tpl) < len(chain.AllTemplates) {
				opts.NoFocus = true
				cfg.Pay1, cfg.Sizes, cfg.FormRH, cfg.PayAmts, cfg.Fees, cfg.MaxTxns = []int{256411}, []int{200}, [][2]int{{250024, 25}}, []int{599}, []int{0}, 3
			}
			rs := chain.Run(c, cfg, opts)
			tmu.Lock()
			total.Behaviours += rs.Behaviours
			total.Steps += rs.Steps
			total.Accepted += rs.Accepted
			total.Rejected += rs.Rejected
			total.Txs += rs.Txs
			for k, v := range rs.Tags {
				total.Tags[k] += v
			}
			tmu.Unlock()
		}(rn)
	}
	wg.Add(1)
	go func() {
		defer wg.Done()
		b, bl, per := runHonestFamilies(c, st, exts)
		st.mu.Lock()
		st.honestBehaviours, st.honestBlocks, st.honestPerFamily = b, bl, per
		st.mu.Unlock()
	}()
	wg.Add(1)
	go func() {
		defer wg.Done()
		n := runScenarios(c, st, exts)
		st.mu.Lock()
		st.fixed = n
		st.mu.Unlock()
		runLifecycle(c, st, exts)
		runWrapScenario(c, st, exts)
		for ei, e := range exts {
			if e.Fam == "lifecycle" {
				st.mu.Lock()
				st.entriesHit[ei] = true
				st.mu.Unlock()
			}
		}
	}()
	wg.Add(1)
	go func() {
		defer wg.Done()
		if p, val := vlib.Recover(func() { runReveal(c, st, exts) }); p {
			c.Infra("the reveal family failed in the harness: %v", val)
		}
	}()
	wg.Wait()
	return st, total
}

func consensusValidateBlock(cs consensus.State, b types.Block, bs consensus.V1BlockSupplement) error {
	return consensus.ValidateBlock(cs, b, bs)
}

var _ = bytes.Equal
