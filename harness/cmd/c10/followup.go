package main

import (
	"fmt"
	"math"
	"strings"
	"time"

	"go.sia.tech/core/consensus"
	"go.sia.tech/core/types"
)

// FOLLOW-UP HISTORIES. "Any block that passes validation can be applied" also binds the blocks that come AFTER an accepted
// mutant: what the mutant put into the ledger (oversized outputs, extreme contracts) is spent, revised and resolved by
// honest follow-up blocks, each through ValidateBlock (and per-transaction validation), ApplyBlock and RevertBlock, judged
// only for panic / no return like everything else (whether a follow-up is accepted is not C10's concern):
//
//	spend      one block that spends every siacoin and every siafund element the mutant created (siafund values are
//	           merged into one output of their uint64 sum, claims are paid), v2 transactions when the era allows, else v1;
//	spend-rich the same block on the same state with its siafund pool raised to 1000 SC: the pool that later contract
//	           formations bring (see Extremes.tla: the model's amounts cannot reach the range in which claim products matter);
//	contracts  one block that revises every contract the mutant created or revised (or expires it when its time has come);
//	expiry     for a v1 contract whose window ends within two blocks: empty blocks up to the window end, the last one
//	           carrying the contract in its supplement (missed-proof payout).
//
// Follow-ups run for accepted, re-signed and re-sealed mutants of the value-carrying families only (at most three blocks each).
var followUpFamilies = map[string]bool{"cur": true, "cur2": true, "complement": true, "wrap": true, "siafund": true, "filesize": true, "window": true, "lifecycle": true}

type followResult struct {
	kind string
	m    *mctx
	lo   *ledgerOutcome
}

func (m *mctx) emptyBlock(cs consensus.State, ts time.Time) types.Block {
	child := cs.Index.Height + 1
	b := types.Block{ParentID: cs.Index.ID, Timestamp: ts, MinerPayouts: []types.SiacoinOutput{{Address: m.sim.K.Addr("A"), Value: cs.BlockReward()}}}
	if child >= cs.Network.HardforkV2.AllowHeight {
		b.V2 = &types.V2BlockData{Height: child}
	}
	return b
}

func (m *mctx) known(a types.Address) (string, bool) {
	n := m.sim.K.NameOf(a)
	if n == "V" || strings.HasPrefix(n, "?") {
		return "", false
	}
	return n, true
}

// followUps applies the accepted mutant and runs the follow-up blocks; it returns what each did.
func (m *mctx) followUps(g *guard, count func(string, bool)) (out []followResult) {
	var cs1 consensus.State
	var au consensus.ApplyUpdate
	if o := g.run(func() error { cs1, au = consensus.ApplyBlock(m.cs, m.b, m.bs, time.Time{}); return nil }); o.bad() {
		return nil // reported by the caller's own ApplyBlock
	}
	child := cs1.Index.Height + 1
	v2 := child >= cs1.Network.HardforkV2.AllowHeight
	v1 := child < cs1.Network.HardforkV2.RequireHeight
	ts := m.b.Timestamp.Add(10 * time.Minute)
	addrA := m.sim.K.Addr("A")
	newCtx := func(cs consensus.State, b types.Block, bs consensus.V1BlockSupplement) *mctx {
		f := &mctx{sim: m.sim, cs: cs, child: cs.Index.Height + 1, keys: m.keys, b: b, bs: bs}
		if len(b.Transactions) > 0 {
			f.ver = 1
		} else if b.V2 != nil && len(b.V2.Transactions) > 0 {
			f.ver = 2
		}
		if len(bs.Transactions) != len(b.Transactions) {
			f.bs.Transactions = append(f.bs.Transactions, make([]consensus.V1TransactionSupplement, len(b.Transactions)-len(bs.Transactions))...)
		}
		f.resign()
		f.reseal()
		return f
	}
	run := func(kind string, f *mctx) {
		lo := f.exercise(g, count)
		out = append(out, followResult{kind, f, lo})
	}

	// ---- spend: everything the mutant created
	var sces []types.SiacoinElement
	var sfes []types.SiafundElement
	for _, d := range au.SiacoinElementDiffs() {
		if d.Created && !d.Spent && d.SiacoinElement.MaturityHeight <= child {
			if _, ok := m.known(d.SiacoinElement.SiacoinOutput.Address); ok {
				sces = append(sces, d.SiacoinElement.Copy())
			}
		}
	}
	for _, d := range au.SiafundElementDiffs() {
		if d.Created && !d.Spent {
			if _, ok := m.known(d.SiafundElement.SiafundOutput.Address); ok {
				sfes = append(sfes, d.SiafundElement.Copy())
			}
		}
	}
	if len(sces)+len(sfes) > 0 && (v1 || v2) {
		b := m.emptyBlock(cs1, ts)
		var bs consensus.V1BlockSupplement
		if v2 {
			if len(sces) > 0 {
				var txn types.V2Transaction
				var sum types.Currency
				for _, e := range sces {
					s, over := sum.AddWithOverflow(e.SiacoinOutput.Value)
					if over {
						continue // an honest wallet cannot write the sum down: the element stays unspent
					}
					sum = s
					n, _ := m.known(e.SiacoinOutput.Address)
					txn.SiacoinInputs = append(txn.SiacoinInputs, types.V2SiacoinInput{Parent: e, SatisfiedPolicy: types.SatisfiedPolicy{Policy: m.sim.K.Policy(n), Signatures: make([]types.Signature, 1)}})
				}
				if !sum.IsZero() {
					txn.SiacoinOutputs = []types.SiacoinOutput{{Value: sum, Address: addrA}}
				}
				if len(txn.SiacoinInputs) > 0 {
					b.V2.Transactions = append(b.V2.Transactions, txn)
				}
			}
			if len(sfes) > 0 {
				var txn types.V2Transaction
				var sum uint64
				for _, e := range sfes {
					sum += e.SiafundOutput.Value // 64-bit arithmetic, as validation adds them
					n, _ := m.known(e.SiafundOutput.Address)
					txn.SiafundInputs = append(txn.SiafundInputs, types.V2SiafundInput{Parent: e, ClaimAddress: addrA, SatisfiedPolicy: types.SatisfiedPolicy{Policy: m.sim.K.Policy(n), Signatures: make([]types.Signature, 1)}})
				}
				if sum != 0 {
					txn.SiafundOutputs = []types.SiafundOutput{{Value: sum, Address: addrA}}
				}
				b.V2.Transactions = append(b.V2.Transactions, txn)
			}
		} else {
			var txn types.Transaction
			var ts1 consensus.V1TransactionSupplement
			var sum types.Currency
			for _, e := range sces {
				s, over := sum.AddWithOverflow(e.SiacoinOutput.Value)
				if over {
					continue
				}
				sum = s
				n, _ := m.known(e.SiacoinOutput.Address)
				txn.SiacoinInputs = append(txn.SiacoinInputs, types.SiacoinInput{ParentID: e.ID, UnlockConditions: m.sim.K.UC(n)})
				txn.Signatures = append(txn.Signatures, types.TransactionSignature{ParentID: types.Hash256(e.ID), CoveredFields: types.CoveredFields{WholeTransaction: true}})
				ts1.SiacoinInputs = append(ts1.SiacoinInputs, e)
			}
			if !sum.IsZero() {
				txn.SiacoinOutputs = []types.SiacoinOutput{{Value: sum, Address: addrA}}
			}
			var sfsum uint64
			for _, e := range sfes {
				sfsum += e.SiafundOutput.Value
				n, _ := m.known(e.SiafundOutput.Address)
				txn.SiafundInputs = append(txn.SiafundInputs, types.SiafundInput{ParentID: e.ID, UnlockConditions: m.sim.K.UC(n), ClaimAddress: addrA})
				txn.Signatures = append(txn.Signatures, types.TransactionSignature{ParentID: types.Hash256(e.ID), CoveredFields: types.CoveredFields{WholeTransaction: true}})
				ts1.SiafundInputs = append(ts1.SiafundInputs, e)
			}
			if sfsum != 0 {
				txn.SiafundOutputs = []types.SiafundOutput{{Value: sfsum, Address: addrA}}
			}
			b.Transactions = []types.Transaction{txn}
			bs.Transactions = []consensus.V1TransactionSupplement{ts1}
		}
		if len(b.Transactions) > 0 || (b.V2 != nil && len(b.V2.Transactions) > 0) {
			b1, bs1 := cloneBlock(b, bs)
			run("spend", newCtx(cs1, b1, bs1))
			if len(sfes) > 0 {
				rich := cs1
				rich.SiafundTaxRevenue = types.Siacoins(1000)
				b2, bs2 := cloneBlock(b, bs)
				run("spend-rich", newCtx(rich, b2, bs2))
			}
		}
	}

	// ---- contracts: revise (or expire) every contract the mutant created or revised
	cb := m.emptyBlock(cs1, ts)
	var cbs consensus.V1BlockSupplement
	var expiring *types.FileContractElement
	if v2 {
		var txn types.V2Transaction
		for _, d := range au.V2FileContractElementDiffs() {
			if d.Resolution != nil {
				continue
			}
			e := d.V2FileContractElement.Copy()
			if d.Revision != nil {
				e.V2FileContract = *d.Revision
			}
			cur := e.V2FileContract
			switch {
			case child > cur.ExpirationHeight:
				txn.FileContractResolutions = append(txn.FileContractResolutions, types.V2FileContractResolution{Parent: e, Resolution: &types.V2FileContractExpiration{}})
			case child <= cur.ProofHeight && cur.RevisionNumber < math.MaxUint64:
				rev := cur
				rev.RevisionNumber++
				txn.FileContractRevisions = append(txn.FileContractRevisions, types.V2FileContractRevision{Parent: e, Revision: rev})
			}
		}
		if len(txn.FileContractRevisions)+len(txn.FileContractResolutions) > 0 {
			cb.V2.Transactions = []types.V2Transaction{txn}
		}
	}
	if v1 {
		var txn types.Transaction
		var ts1 consensus.V1TransactionSupplement
		for _, d := range au.FileContractElementDiffs() {
			if d.Resolved {
				continue
			}
			e := d.FileContractElement.Copy()
			if d.Revision != nil {
				e.FileContract = *d.Revision
			}
			fc := e.FileContract
			if fc.WindowEnd >= child && fc.WindowEnd-child <= 2 && expiring == nil {
				c := e.Copy()
				expiring = &c
			}
			n, ok := m.known(fc.UnlockHash)
			if !ok || child > fc.WindowStart || fc.RevisionNumber == math.MaxUint64 {
				continue
			}
			rev := fc
			rev.RevisionNumber++
			txn.FileContractRevisions = append(txn.FileContractRevisions, types.FileContractRevision{ParentID: e.ID, UnlockConditions: m.sim.K.UC(n), FileContract: rev})
			txn.Signatures = append(txn.Signatures, types.TransactionSignature{ParentID: types.Hash256(e.ID), CoveredFields: types.CoveredFields{WholeTransaction: true}})
			ts1.RevisedFileContracts = append(ts1.RevisedFileContracts, e)
		}
		if len(txn.FileContractRevisions) > 0 {
			cb.Transactions = []types.Transaction{txn}
			cbs.Transactions = []consensus.V1TransactionSupplement{ts1}
		}
	}
	if len(cb.Transactions) > 0 || (cb.V2 != nil && len(cb.V2.Transactions) > 0) {
		run("contracts", newCtx(cs1, cb, cbs))
	}

	// ---- expiry of a v1 contract whose window ends within two blocks
	if expiring != nil && v1 {
		cs, t := cs1, ts
		for i := 0; i < 3; i++ {
			ch := cs.Index.Height + 1
			if ch >= cs.Network.HardforkV2.RequireHeight {
				break
			}
			b := m.emptyBlock(cs, t)
			var bs consensus.V1BlockSupplement
			last := ch == expiring.FileContract.WindowEnd
			if last {
				bs.ExpiringFileContracts = []types.FileContractElement{expiring.Copy()}
			}
			f := newCtx(cs, b, bs)
			lo := f.exercise(g, count)
			if last || lo == nil || !lo.Accepted {
				out = append(out, followResult{"expiry", f, lo})
				break
			}
			// the chain goes on: the contract's proof follows the accumulator
			var next consensus.State
			var au2 consensus.ApplyUpdate
			if o := g.run(func() error { next, au2 = consensus.ApplyBlock(cs, f.b, f.bs, time.Time{}); return nil }); o.bad() {
				break
			}
			au2.UpdateElementProof(&expiring.StateElement)
			cs, t = next, t.Add(10*time.Minute)
		}
	}
	return out
}

func followKey(site string, cls string, kind string) string {
	return fmt.Sprintf("ledger/%s/%s/follow-up:%s", site, cls, kind)
}
