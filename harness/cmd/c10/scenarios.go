package main

import (
	"encoding/json"
	"fmt"

	"verif/harness/chain"
	"verif/harness/vlib"
)

// Fixed behaviours of Ledger.tla, one per life cycle, replayed besides the ones TLC draws: whatever the seed, every
// template occurs at least once as the base of mutants — v1 formation / revision / proof, v2 formation / revision /
// proof / expiration / renewal, and (in the shape where the ephemeral-output fix height is never reached) transactions
// that spend siacoin and siafund outputs created earlier in the same block. Each step must be accepted by the real
// code like any replayed step; every catalogue entry (no sampling) is then applied to its block.

func c2JSON(r, h uint64, ra string, mh, coll, ph, eh, rn uint64) json.RawMessage {
	b, _ := json.Marshal(map[string]any{"r": r, "h": h, "ra": ra, "ha": "B", "mh": mh, "coll": coll, "ph": ph, "eh": eh, "rn": rn, "cap": 128, "size": 64, "rk": "R", "hk": "H", "auth": "ok"})
	return b
}

func c1JSON(ws, we, rn uint64, shift int) json.RawMessage {
	out := func(v int, a string) map[string]any { return map[string]any{"val": v, "addr": a} }
	b, _ := json.Marshal(map[string]any{"pay": 256411, "vo": []any{out(123205-shift, "B"), out(123206+shift, "B")},
		"mo": []any{out(123205-shift, "B"), out(82138+shift, "B"), out(41068, "V")}, "ws": ws, "we": we, "rn": rn, "size": 64, "owner": "B"})
	return b
}

type scenario struct {
	name, shape string
	steps       []chain.Step
}

func block(txs ...chain.AbsTx) chain.Step {
	return chain.Step{Op: "block", Verdict: "accept", Txs: txs}
}

func fixedScenarios() []scenario {
	sc := func(i int) chain.SID { return chain.SID{chain.SCO, 0, 0, i, 0} }
	in := func(id chain.SID) []chain.AbsIn { return []chain.AbsIn{{ID: id, Auth: "ok"}} }
	fc2 := chain.SID{chain.FC2, 1, 0, 1, 0}
	fc1 := chain.SID{chain.FC1, 1, 0, 1, 0}
	form2 := func(ph, eh uint64) chain.AbsTx {
		return chain.AbsTx{Ver: 2, Sci: in(sc(1)), Fc: []json.RawMessage{c2JSON(250024, 25, "A", 19, 12, ph, eh, 0)}, Sco: []chain.AbsOut{{Val: 339950, Addr: "A"}}, Tag: "form2"}
	}
	noRen := chain.AbsRen{Auth: "ok", Nc: chain.AbsC2{Null: true}}
	return []scenario{
		{"v1-contract", "v1only", []chain.Step{
			block(chain.AbsTx{Ver: 1, Sci: in(sc(2)), Fc: []json.RawMessage{c1JSON(3, 5, 0, 0)}, Tag: "form1"},
				chain.AbsTx{Ver: 1, Sci: in(sc(1)), Sco: []chain.AbsOut{{Val: 599, Addr: "B"}, {Val: 599391, Addr: "A"}}, Fee: 10, Tag: "pay"}),
			block(chain.AbsTx{Ver: 1, Rev: []chain.AbsRev{{Cid: fc1, C: c1JSON(3, 5, 1, 24), Auth: "ok"}}, Tag: "rev1"}),
			block(chain.AbsTx{Ver: 1, Res: []chain.AbsRes{{Cid: fc1, Kind: "proof", Pf: "ok", Ren: noRen}}, Tag: "prove1"}),
		}},
		{"v2-renewal", "v2only", []chain.Step{
			block(form2(3, 5)),
			block(chain.AbsTx{Ver: 2, Sci: in(chain.SID{chain.SCO, 1, 0, 1, 0}), Sco: []chain.AbsOut{{Val: 142412, Addr: "A"}}, Tag: "renew",
				Res: []chain.AbsRes{{Cid: fc2, Kind: "renew", Pf: "ok", Ren: chain.AbsRen{Fr: 187518, Fh: 19, Rr: 62506, Hr: 6, Auth: "ok",
					Nc: chain.AbsC2{R: 250024, H: 25, Ra: "A", Ha: "B", Mh: 19, Coll: 12, Ph: 3, Eh: 5, Cap: 128, Size: 64, Rk: "R", Hk: "H", Auth: "ok"}}}}}),
		}},
		{"v2-revision-proof", "v2only", []chain.Step{
			block(form2(2, 4)),
			block(chain.AbsTx{Ver: 2, Rev: []chain.AbsRev{{Cid: fc2, C: c2JSON(250000, 49, "A", 0, 12, 2, 4, 1), Auth: "ok"}}, Tag: "rev2"}),
			block(chain.AbsTx{Ver: 2, Res: []chain.AbsRes{{Cid: fc2, Kind: "proof", Pf: "ok", Ren: noRen}}, Tag: "proof"}),
		}},
		{"v2-expiration", "v2only", []chain.Step{
			block(form2(2, 4)), block(), block(), block(),
			block(chain.AbsTx{Ver: 2, Res: []chain.AbsRes{{Cid: fc2, Kind: "expire", Pf: "ok", Ren: noRen}}, Tag: "expire"}),
		}},
		{"ephemeral-parents", "ephlate", []chain.Step{
			block(chain.AbsTx{Ver: 2, Sfi: []chain.AbsSfIn{{ID: chain.SID{chain.SFO, 0, 0, 1, 0}, Claim: "A", Auth: "ok"}}, Sfo: []chain.AbsOut{{Val: 3000, Addr: "B"}, {Val: 4000, Addr: "A"}}, Tag: "sf"},
				chain.AbsTx{Ver: 2, Sfi: []chain.AbsSfIn{{ID: chain.SID{chain.SFO, 1, 0, 2, 0}, Claim: "A", Auth: "ok"}}, Sfo: []chain.AbsOut{{Val: 4000, Addr: "B"}}, Tag: "sf"},
				chain.AbsTx{Ver: 2, Sci: in(sc(1)), Sco: []chain.AbsOut{{Val: 599, Addr: "B"}, {Val: 599401, Addr: "A"}}, Tag: "pay"},
				chain.AbsTx{Ver: 2, Sci: []chain.AbsIn{{ID: chain.SID{chain.SCO, 1, 2, 2, 0}, Auth: "ok"}, {ID: sc(3), Auth: "ok"}}, Sco: []chain.AbsOut{{Val: 600600, Addr: "A"}}, Tag: "pay2"}),
		}},
	}
}

// runScenarios replays the fixed behaviours and mutates every block of each.
func runScenarios(c *vlib.Ctx, st *ledgerStats, exts []ext) (behaviours int) {
	for _, s := range fixedScenarios() {
		s := s
		if p, val := vlib.Recover(func() {
			cfg := chain.BaseConfig(c10Shapes()[s.shape])
			sim := chain.NewSim(cfg.P)
			g, keys := newGuard(), keyMap(sim)
			beh := &chain.Behaviour{Steps: s.steps, Hash: "fixed-" + s.name}
			for i, step := range s.steps {
				res, infra := sim.RunStep(i, step)
				if infra != nil || !res.Accepted || len(res.Mismatches) > 0 {
					c.Infra("fixed behaviour %s step %d is not accepted by the real code: %v %v %v", s.name, i, infra, res.Err, res.Mismatches)
					return
				}
				mutateBlock(c, st, exts, sim, g, keys, cfg, beh, i, step.Txs, 1, 0)
			}
			behaviours++
		}); p {
			c.Infra("fixed behaviour %s failed in the harness: %v", s.name, fmt.Sprint(val))
		}
	}
	return
}
