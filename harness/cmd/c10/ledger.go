package main

import (
	"bytes"
	"encoding/json"
	"fmt"
	"math"
	"math/big"
	"reflect"
	"strings"
	"time"

	"go.sia.tech/core/consensus"
	"go.sia.tech/core/types"
	"verif/harness/chain"
	wb "verif/harness/wirebridge"
)

// An ext is one entry of the catalogue of spec/ledger/Extremes.tla.
type ext struct {
	Fam   string `json:"fam"`
	Ver   int    `json:"ver"`
	T     string `json:"t"`
	Need  string `json:"need"`
	X     string `json:"x"`
	T2    string `json:"t2"`
	Need2 string `json:"need2"`
	X2    string `json:"x2"`
}

func (e ext) String() string {
	s := fmt.Sprintf("%s v%d %s=%s", e.Fam, e.Ver, e.T, e.X)
	if e.T2 != "" {
		s += fmt.Sprintf(" %s=%s", e.T2, e.X2)
	}
	return s
}

// class is the corruption class of the entry: family and member(s), without the extreme value.
func (e ext) class() string {
	t := e.T
	if e.Fam == "covered" {
		t = e.X + "-" + e.T2 // the index pattern, whole / partial; the list is in the payload
	} else if e.Fam == "decoded" {
		t = e.T // the document is in the payload
	} else if e.T2 != "" {
		t += "+" + e.T2
	}
	return fmt.Sprintf("%s/v%d:%s", e.Fam, e.Ver, t)
}

// needs reports whether the abstract transaction has the part the entry needs.
func needs(t *chain.AbsTx, need string, real any) bool {
	switch need {
	case "":
		return true
	case "sci":
		return len(t.Sci) > 0
	case "sco":
		return len(t.Sco) > 0
	case "sfi":
		return len(t.Sfi) > 0
	case "sfo":
		return len(t.Sfo) > 0
	case "fc":
		return len(t.Fc) > 0
	case "rev":
		return len(t.Rev) > 0
	case "res":
		return len(t.Res) > 0
	case "res:renew":
		return len(t.Res) > 0 && t.Res[0].Kind == "renew"
	case "res:proof":
		return len(t.Res) > 0 && t.Res[0].Kind == "proof"
	case "sig":
		if txn, ok := real.(*types.Transaction); ok {
			return len(txn.Signatures) > 0
		}
		return false
	}
	return false
}

func curVal(x string) (types.Currency, bool) {
	switch x {
	case "0":
		return types.ZeroCurrency, true
	case "1":
		return types.NewCurrency64(1), true
	case "2^64-1":
		return types.NewCurrency64(math.MaxUint64), true
	case "2^64":
		return types.NewCurrency(0, 1), true
	case "2^127":
		return types.NewCurrency(0, 1<<63), true
	case "2^128-2":
		return types.NewCurrency(math.MaxUint64-1, math.MaxUint64), true
	case "2^128-1":
		return types.MaxCurrency, true
	}
	return types.Currency{}, false
}

func u64Val(x string, child, cur uint64) (uint64, bool) {
	switch x {
	case "0":
		return 0, true
	case "1":
		return 1, true
	case "63":
		return 63, true
	case "65":
		return 65, true
	case "10000":
		return 10000, true
	case "10001":
		return 10001, true
	case "child":
		return child, true
	case "child+1":
		return child + 1, true
	case "+1":
		return cur + 1, true
	case "-1":
		return cur - 1, true
	case "2^63":
		return 1 << 63, true
	case "2^64-2":
		return math.MaxUint64 - 1, true
	case "2^64-1":
		return math.MaxUint64, true
	case "unassigned":
		return types.UnassignedLeafIndex, true
	}
	return 0, false
}

// mctx is one mutant under construction: deep copies of a valid block and its supplement on the state it extends.
type mctx struct {
	sim   *chain.Sim
	cs    consensus.State
	b     types.Block
	bs    consensus.V1BlockSupplement
	child uint64
	ver   int // version of the target transaction (0: none)
	k     int // its index among the transactions of its version
	abs   *chain.AbsTx
	keys  map[types.PublicKey]types.PrivateKey
	// what re-sealing must leave alone because the entry is about it
	keepPayout, keepCommitment, keepNonce, keepSigs bool
	unknown                                         string // set when the interpreter does not know the entry
	// noDirect: the entry changes the CONTENT of a supplement element. The supplement is the node's own data; ValidateBlock
	// checks it against the accumulator before any transaction sees it, so such mutants go through ValidateBlock only.
	noDirect bool
	// the slowest guarded call of the mutant (observation)
	slowSec              float64
	slowEntry, slowStack string
	nSC, nSF             int                // siacoin / siafund records the block's transactions make (estimate from the update)
	earlierV1            *types.Transaction // a v1 / v2 transaction an earlier block of the history carried
	earlierV2            *types.V2Transaction
	preChecked           map[int][]string // version -> members the overflow pre-check covers (from the catalogue)
	class                string           // when set, replaces the entry's class in keys (classes that depend on the transaction)
	created              *createdIDs      // ids of the elements the block creates, by kind (material for ids of another kind)
}

// createdIDs: elements created by the base block, in creation order.
type createdIDs struct {
	sc, sf, fc, v2fc []types.Hash256
}

func (m *mctx) v1() *types.Transaction {
	if m.ver == 1 && m.k < len(m.b.Transactions) {
		return &m.b.Transactions[m.k]
	}
	return nil
}
func (m *mctx) v2() *types.V2Transaction {
	if m.ver == 2 && m.b.V2 != nil && m.k < len(m.b.V2.Transactions) {
		return &m.b.V2.Transactions[m.k]
	}
	return nil
}
func (m *mctx) ts() *consensus.V1TransactionSupplement {
	if m.ver == 1 && m.k < len(m.bs.Transactions) {
		return &m.bs.Transactions[m.k]
	}
	return nil
}

func hashN(n int) types.Hash256 {
	var h types.Hash256
	for i := range h {
		h[i] = byte(n*31 + i*7 + 1)
	}
	return h
}

// curSlots returns the currency-valued places a member name denotes in the target transaction / block.
func (m *mctx) curSlots(t string) []*types.Currency {
	var out []*types.Currency
	outs := func(os []types.SiacoinOutput) {
		for i := range os {
			out = append(out, &os[i].Value)
		}
	}
	if t == "payout" {
		outs(m.b.MinerPayouts)
		return out
	}
	if txn := m.v1(); txn != nil {
		ts := m.ts()
		switch t {
		case "fee":
			if len(txn.MinerFees) == 0 {
				txn.MinerFees = []types.Currency{types.NewCurrency64(1)}
			}
			if len(txn.MinerFees) == 1 {
				txn.MinerFees = append(txn.MinerFees, types.NewCurrency64(1))
			}
			for i := range txn.MinerFees {
				out = append(out, &txn.MinerFees[i])
			}
		case "sco.val":
			outs(txn.SiacoinOutputs)
		case "fc.pay":
			for i := range txn.FileContracts {
				out = append(out, &txn.FileContracts[i].Payout)
			}
		case "fc.vo.val":
			for i := range txn.FileContracts {
				outs(txn.FileContracts[i].ValidProofOutputs)
			}
		case "fc.mo.val":
			for i := range txn.FileContracts {
				outs(txn.FileContracts[i].MissedProofOutputs)
			}
		case "rev.vo.val":
			for i := range txn.FileContractRevisions {
				outs(txn.FileContractRevisions[i].FileContract.ValidProofOutputs)
			}
		case "rev.mo.val":
			for i := range txn.FileContractRevisions {
				outs(txn.FileContractRevisions[i].FileContract.MissedProofOutputs)
			}
		case "supp.sci.val":
			if ts != nil {
				for i := range ts.SiacoinInputs {
					out = append(out, &ts.SiacoinInputs[i].SiacoinOutput.Value)
				}
			}
		case "supp.fc.pay":
			if ts != nil {
				for i := range ts.RevisedFileContracts {
					out = append(out, &ts.RevisedFileContracts[i].FileContract.Payout)
				}
			}
		case "supp.sp.vo.val":
			if ts != nil {
				for i := range ts.StorageProofs {
					outs(ts.StorageProofs[i].FileContract.FileContract.ValidProofOutputs)
				}
			}
		default:
			m.unknown = "currency member " + t
		}
		return out
	}
	if txn := m.v2(); txn != nil {
		fcSlots := func(fc *types.V2FileContract, f string) {
			switch f {
			case "r":
				out = append(out, &fc.RenterOutput.Value)
			case "h":
				out = append(out, &fc.HostOutput.Value)
			case "mh":
				out = append(out, &fc.MissedHostValue)
			case "coll":
				out = append(out, &fc.TotalCollateral)
			}
		}
		last := t[strings.LastIndex(t, ".")+1:]
		switch {
		case t == "fee":
			out = append(out, &txn.MinerFee)
		case t == "sco.val":
			outs(txn.SiacoinOutputs)
		case t == "sci.parent.val":
			for i := range txn.SiacoinInputs {
				out = append(out, &txn.SiacoinInputs[i].Parent.SiacoinOutput.Value)
			}
		case t == "sfi.parent.claimstart":
			for i := range txn.SiafundInputs {
				out = append(out, &txn.SiafundInputs[i].Parent.ClaimStart)
			}
		case strings.HasPrefix(t, "fc."):
			for i := range txn.FileContracts {
				fcSlots(&txn.FileContracts[i], last)
			}
		case strings.HasPrefix(t, "rev.parent."):
			for i := range txn.FileContractRevisions {
				fcSlots(&txn.FileContractRevisions[i].Parent.V2FileContract, last)
			}
		case strings.HasPrefix(t, "rev."):
			for i := range txn.FileContractRevisions {
				fcSlots(&txn.FileContractRevisions[i].Revision, last)
			}
		case strings.HasPrefix(t, "res.parent."):
			for i := range txn.FileContractResolutions {
				fcSlots(&txn.FileContractResolutions[i].Parent.V2FileContract, last)
			}
		case strings.HasPrefix(t, "ren."):
			for i := range txn.FileContractResolutions {
				ren, ok := txn.FileContractResolutions[i].Resolution.(*types.V2FileContractRenewal)
				if !ok || ren == nil {
					continue
				}
				switch t {
				case "ren.fr":
					out = append(out, &ren.FinalRenterOutput.Value)
				case "ren.fh":
					out = append(out, &ren.FinalHostOutput.Value)
				case "ren.rr":
					out = append(out, &ren.RenterRollover)
				case "ren.hr":
					out = append(out, &ren.HostRollover)
				default:
					fcSlots(&ren.NewContract, last)
				}
			}
		default:
			m.unknown = "currency member " + t
		}
	}
	return out
}

// elemSlots returns the state elements (leaf index + Merkle proof) a member name denotes.
func (m *mctx) elemSlots(t string) []*types.StateElement {
	var out []*types.StateElement
	if t == "supp.expiring" {
		for i := range m.bs.ExpiringFileContracts {
			out = append(out, &m.bs.ExpiringFileContracts[i].StateElement)
		}
		return out
	}
	if ts := m.ts(); ts != nil {
		switch t {
		case "supp.sci":
			for i := range ts.SiacoinInputs {
				out = append(out, &ts.SiacoinInputs[i].StateElement)
			}
		case "supp.sfi":
			for i := range ts.SiafundInputs {
				out = append(out, &ts.SiafundInputs[i].StateElement)
			}
		case "supp.rev":
			for i := range ts.RevisedFileContracts {
				out = append(out, &ts.RevisedFileContracts[i].StateElement)
			}
		case "supp.sp":
			for i := range ts.StorageProofs {
				out = append(out, &ts.StorageProofs[i].FileContract.StateElement)
			}
		}
	}
	if txn := m.v2(); txn != nil {
		switch t {
		case "sci.parent":
			for i := range txn.SiacoinInputs {
				out = append(out, &txn.SiacoinInputs[i].Parent.StateElement)
			}
		case "sfi.parent":
			for i := range txn.SiafundInputs {
				out = append(out, &txn.SiafundInputs[i].Parent.StateElement)
			}
		case "rev.parent":
			for i := range txn.FileContractRevisions {
				out = append(out, &txn.FileContractRevisions[i].Parent.StateElement)
			}
		case "res.parent":
			for i := range txn.FileContractResolutions {
				out = append(out, &txn.FileContractResolutions[i].Parent.StateElement)
			}
		case "res.proofindex":
			for i := range txn.FileContractResolutions {
				if sp, ok := txn.FileContractResolutions[i].Resolution.(*types.V2StorageProof); ok && sp != nil {
					out = append(out, &sp.ProofIndex.StateElement)
				}
			}
		}
	}
	return out
}

func proofVariant(p []types.Hash256, x string) ([]types.Hash256, bool) {
	setLen := func(n int) []types.Hash256 {
		q := make([]types.Hash256, n)
		for i := range q {
			if i < len(p) {
				q[i] = p[i]
			} else {
				q[i] = hashN(i)
			}
		}
		return q
	}
	switch x {
	case "empty":
		return nil, true
	case "cut1":
		if len(p) == 0 {
			return p, false
		}
		return append([]types.Hash256{}, p[:len(p)-1]...), true
	case "+1":
		return setLen(len(p) + 1), true
	case "63":
		return setLen(63), true
	case "64":
		return setLen(64), true
	case "65":
		return setLen(65), true
	case "200":
		return setLen(200), true
	case "zeroed":
		return make([]types.Hash256, len(p)), len(p) > 0
	}
	return p, false
}

func (m *mctx) firstSig() *types.TransactionSignature {
	if txn := m.v1(); txn != nil && len(txn.Signatures) > 0 {
		return &txn.Signatures[0]
	}
	return nil
}

// firstUC returns the unlock conditions of the first parent of a v1 transaction.
func (m *mctx) firstUC() *types.UnlockConditions {
	txn := m.v1()
	if txn == nil {
		return nil
	}
	switch {
	case len(txn.SiacoinInputs) > 0:
		return &txn.SiacoinInputs[0].UnlockConditions
	case len(txn.SiafundInputs) > 0:
		return &txn.SiafundInputs[0].UnlockConditions
	case len(txn.FileContractRevisions) > 0:
		return &txn.FileContractRevisions[0].UnlockConditions
	}
	return nil
}

func nestPolicy(depth int, leaf types.SpendPolicy) types.SpendPolicy {
	p := leaf
	for i := 0; i < depth; i++ {
		p = types.PolicyThreshold(1, []types.SpendPolicy{p})
	}
	return p
}

func widePolicy(n int, leaf types.SpendPolicy) types.SpendPolicy {
	of := make([]types.SpendPolicy, n)
	for i := range of {
		of[i] = types.PolicyAbove(uint64(i))
	}
	if n > 0 {
		of[0] = leaf
	}
	return types.SpendPolicy{Type: types.PolicyTypeThreshold{N: 1, Of: of}}
}

// apply performs the entry on the mutant; false = not applicable here.
func (m *mctx) apply(e ext) bool {
	child := m.child
	if strings.HasPrefix(e.T, "supp.") || strings.HasPrefix(e.T2, "supp.") {
		switch e.Fam {
		case "cur", "cur2", "proof", "leaf", "filesize", "window":
			m.noDirect = true
		}
	}
	switch e.Fam {
	case "suppera":
		return m.applySuppEra(e)
	case "wrap":
		return m.applyWrap(e)
	case "complement":
		return m.applyComplement(e)
	case "confuse":
		if e.Ver == 2 {
			return m.applyConfuse2(e)
		}
		// ids of the elements the transactions of the block create, by kind, in order
		var sc, sf, fc []types.Hash256
		for _, t := range m.b.Transactions {
			for i := range t.SiacoinOutputs {
				sc = append(sc, types.Hash256(t.SiacoinOutputID(i)))
			}
			for i := range t.SiafundOutputs {
				sf = append(sf, types.Hash256(t.SiafundOutputID(i)))
			}
			for i := range t.FileContracts {
				fc = append(fc, types.Hash256(t.FileContractID(i)))
			}
		}
		pool := map[string][]types.Hash256{"siacoin-output": sc, "siafund-output": sf, "contract": fc}[e.X]
		if len(pool) == 0 || m.child >= m.cs.Network.HardforkV2.RequireHeight {
			return false
		}
		id := pool[len(pool)-1]
		uc := types.StandardUnlockConditions(m.sim.K.PK("A"))
		var txn types.Transaction
		switch e.T {
		case "rev":
			txn.FileContractRevisions = []types.FileContractRevision{{ParentID: types.FileContractID(id), UnlockConditions: uc,
				FileContract: types.FileContract{WindowStart: m.child + 1, WindowEnd: m.child + 2, RevisionNumber: 1}}}
		case "res":
			txn.StorageProofs = []types.StorageProof{{ParentID: types.FileContractID(id)}}
		case "sci":
			txn.SiacoinInputs = []types.SiacoinInput{{ParentID: types.SiacoinOutputID(id), UnlockConditions: uc}}
		case "sfi":
			txn.SiafundInputs = []types.SiafundInput{{ParentID: types.SiafundOutputID(id), UnlockConditions: uc}}
		default:
			m.unknown = "confuse member " + e.T
			return false
		}
		if e.T != "res" {
			txn.Signatures = []types.TransactionSignature{{ParentID: id, CoveredFields: types.CoveredFields{WholeTransaction: true}}}
		}
		m.b.Transactions = append(m.b.Transactions, txn)
		m.bs.Transactions = append(m.bs.Transactions, consensus.V1TransactionSupplement{})
		m.ver, m.k = 1, len(m.b.Transactions)-1
		return true
	case "decoded":
		if e.Ver == 1 {
			var txn types.Transaction
			if json.Unmarshal([]byte(e.X), &txn) != nil {
				return false
			}
			m.b.Transactions = append(m.b.Transactions, txn)
			m.bs.Transactions = append(m.bs.Transactions, consensus.V1TransactionSupplement{})
			m.ver, m.k = 1, len(m.b.Transactions)-1
			return true
		}
		var txn types.V2Transaction
		if json.Unmarshal([]byte(e.X), &txn) != nil {
			return false
		}
		if m.b.V2 == nil {
			m.b.V2 = &types.V2BlockData{Height: m.child}
		}
		m.b.V2.Transactions = append(m.b.V2.Transactions, txn)
		m.ver, m.k = 2, len(m.b.V2.Transactions)-1
		return true
	case "cur", "cur2":
		set := func(t, x string, nth int) bool {
			v, ok := curVal(x)
			s := m.curSlots(t)
			if !ok || len(s) <= nth {
				return false
			}
			*s[nth] = v
			if t == "payout" {
				m.keepPayout = true
			}
			return true
		}
		if !set(e.T, e.X, 0) {
			return false
		}
		if e.Fam == "cur2" {
			nth := 0
			if e.T2 == e.T {
				nth = 1
			}
			return set(e.T2, e.X2, nth)
		}
		return true
	case "proof":
		switch e.T {
		case "res.sp":
			if txn := m.v2(); txn != nil {
				for i := range txn.FileContractResolutions {
					if sp, ok := txn.FileContractResolutions[i].Resolution.(*types.V2StorageProof); ok && sp != nil {
						c := *sp
						var ok2 bool
						c.Proof, ok2 = proofVariant(sp.Proof, e.X)
						txn.FileContractResolutions[i].Resolution = &c
						return ok2
					}
				}
			}
			return false
		case "sp":
			if txn := m.v1(); txn != nil && len(txn.StorageProofs) > 0 {
				var ok bool
				txn.StorageProofs[0].Proof, ok = proofVariant(txn.StorageProofs[0].Proof, e.X)
				return ok
			}
			return false
		}
		s := m.elemSlots(e.T)
		if len(s) == 0 {
			return false
		}
		var ok bool
		s[0].MerkleProof, ok = proofVariant(s[0].MerkleProof, e.X)
		return ok
	case "leaf":
		s := m.elemSlots(e.T)
		if len(s) == 0 {
			return false
		}
		v, ok := u64Val(e.X, child, s[0].LeafIndex)
		if !ok || v == s[0].LeafIndex {
			return false
		}
		s[0].LeafIndex = v
		return true
	case "covered":
		sg, txn := m.firstSig(), m.v1()
		if sg == nil {
			return false
		}
		lens := map[string]int{"SiacoinInputs": len(txn.SiacoinInputs), "SiacoinOutputs": len(txn.SiacoinOutputs), "FileContracts": len(txn.FileContracts),
			"FileContractRevisions": len(txn.FileContractRevisions), "StorageProofs": len(txn.StorageProofs), "SiafundInputs": len(txn.SiafundInputs),
			"SiafundOutputs": len(txn.SiafundOutputs), "MinerFees": len(txn.MinerFees), "ArbitraryData": len(txn.ArbitraryData), "Signatures": len(txn.Signatures)}
		n, known := lens[e.T]
		if !known {
			m.unknown = "covered list " + e.T
			return false
		}
		var idx []uint64
		switch e.X {
		case "len":
			idx = []uint64{uint64(n)}
		case "len+1":
			idx = []uint64{uint64(n) + 1}
		case "2^63":
			idx = []uint64{1 << 63}
		case "2^64-1":
			idx = []uint64{math.MaxUint64}
		case "dup":
			idx = []uint64{0, 0}
		case "unsorted":
			idx = []uint64{1, 0}
		case "12000x0":
			idx = make([]uint64, 12000)
		case "all+len":
			for i := 0; i <= n; i++ {
				idx = append(idx, uint64(i))
			}
		default:
			m.unknown = "covered variant " + e.X
			return false
		}
		// what the index list is relative to this transaction decides the class
		kind, seen := "in-range", map[uint64]bool{}
		for _, i := range idx {
			if seen[i] {
				kind = "repeated"
			}
			seen[i] = true
		}
		for _, i := range idx {
			if i >= uint64(n) {
				kind = "out-of-range"
			}
		}
		m.class = fmt.Sprintf("covered/v1:%s-%s", kind, e.T2)
		if len(idx) > 1000 {
			m.keepSigs = true // signing again would hash the same quadratic pre-image in the harness
		}
		cf := types.CoveredFields{WholeTransaction: e.T2 == "whole"}
		reflect.ValueOf(&cf).Elem().FieldByName(e.T).Set(reflect.ValueOf(idx))
		sg.CoveredFields = cf
		return true
	case "sig":
		sg, txn := m.firstSig(), m.v1()
		if sg == nil {
			return false
		}
		switch e.T {
		case "PublicKeyIndex":
			uc := m.firstUC()
			n := uint64(1)
			if uc != nil {
				n = uint64(len(uc.PublicKeys))
			}
			switch e.X {
			case "len":
				sg.PublicKeyIndex = n
			case "1":
				sg.PublicKeyIndex = 1
			default:
				v, ok := u64Val(e.X, child, 0)
				if !ok {
					return false
				}
				sg.PublicKeyIndex = v
			}
			m.keepSigs = true
		case "Timelock":
			v, ok := u64Val(e.X, child, 0)
			if !ok {
				return false
			}
			sg.Timelock = v
		case "ParentID":
			if e.X == "zero" {
				sg.ParentID = types.Hash256{}
			} else {
				sg.ParentID = hashN(77)
			}
			m.keepSigs = true
		case "Signature":
			n := map[string]int{"empty": 0, "63": 63, "65": 65, "1000": 1000}[e.X]
			sg.Signature = make([]byte, n)
			m.keepSigs = true
		case "list":
			switch e.X {
			case "dup":
				txn.Signatures = append(txn.Signatures, txn.Signatures[0])
			case "none":
				txn.Signatures = nil
			case "reversed":
				if len(txn.Signatures) < 2 {
					return false
				}
				for i, j := 0, len(txn.Signatures)-1; i < j; i, j = i+1, j-1 {
					txn.Signatures[i], txn.Signatures[j] = txn.Signatures[j], txn.Signatures[i]
				}
			case "1000-copies":
				s0 := txn.Signatures[0]
				txn.Signatures = nil
				for i := 0; i < 1000; i++ {
					txn.Signatures = append(txn.Signatures, s0)
				}
			default:
				return false
			}
			m.keepSigs = true
		default:
			m.unknown = "sig member " + e.T
			return false
		}
		return true
	case "uc":
		uc := m.firstUC()
		if uc == nil {
			return false
		}
		switch e.T {
		case "SignaturesRequired":
			v, ok := u64Val(e.X, child, 0)
			if e.X == "2" {
				v, ok = 2, true
			}
			if !ok {
				return false
			}
			uc.SignaturesRequired = v
		case "PublicKeys":
			switch e.X {
			case "empty":
				uc.PublicKeys = nil
			case "dup-key":
				if len(uc.PublicKeys) == 0 {
					return false
				}
				uc.PublicKeys = append(uc.PublicKeys, uc.PublicKeys[0])
			case "256-keys":
				k0 := types.UnlockKey{Algorithm: types.SpecifierEd25519, Key: make([]byte, 32)}
				if len(uc.PublicKeys) > 0 {
					k0 = uc.PublicKeys[0]
				}
				uc.PublicKeys = nil
				for i := 0; i < 256; i++ {
					uc.PublicKeys = append(uc.PublicKeys, k0)
				}
			}
		case "Timelock":
			v, ok := u64Val(e.X, child, 0)
			if !ok {
				return false
			}
			uc.Timelock = v
		case "Algorithm":
			if len(uc.PublicKeys) == 0 {
				return false
			}
			uc.PublicKeys = append([]types.UnlockKey{}, uc.PublicKeys...)
			switch e.X {
			case "entropy":
				uc.PublicKeys[0].Algorithm = types.SpecifierEntropy
			case "unknown":
				uc.PublicKeys[0].Algorithm = types.NewSpecifier("frobnicate")
			default:
				uc.PublicKeys[0].Algorithm = types.Specifier{}
			}
		case "Key":
			if len(uc.PublicKeys) == 0 {
				return false
			}
			uc.PublicKeys = append([]types.UnlockKey{}, uc.PublicKeys...)
			uc.PublicKeys[0].Key = make([]byte, map[string]int{"empty": 0, "31": 31, "33": 33, "1000": 1000}[e.X])
		default:
			m.unknown = "uc member " + e.T
			return false
		}
		return true
	case "parents":
		return m.applyParents(e)
	case "supp":
		return m.applySupp(e)
	case "policy":
		return m.applyPolicy(e)
	case "resolution":
		return m.applyResolution(e)
	case "era":
		return m.applyEra(e)
	case "filesize":
		return m.applyFilesize(e)
	case "window":
		return m.applyWindow(e)
	case "weight", "empty", "arb", "siafund", "attestation", "maturity", "header", "payouts":
		return m.applyShape(e)
	}
	m.unknown = "family " + e.Fam
	return false
}

func minID[V any](mp map[types.Hash256]V) (types.Hash256, bool) {
	var best types.Hash256
	found := false
	for id := range mp {
		if !found || bytes.Compare(id[:], best[:]) < 0 {
			best, found = id, true
		}
	}
	return best, found
}

// preCheckTotal is the sum the overflow pre-check of the target transaction's version forms (validateCurrencyOverflow /
// validateV2CurrencyOverflow), as an exact integer; for the v1 member "fee", which the pre-check leaves out, the sum that
// validateSiacoins forms with its own check (outputs, contract payouts, fees). ok=false: a renter + host sum alone overflows.
func (m *mctx) preCheckTotal(member string) (total *big.Int, ok bool) {
	total = new(big.Int)
	add := func(c types.Currency) { total.Add(total, c.Big()) }
	outs := func(os []types.SiacoinOutput) {
		for _, o := range os {
			add(o.Value)
		}
	}
	if txn := m.v1(); txn != nil {
		outs(txn.SiacoinOutputs)
		if member == "fee" {
			for _, fc := range txn.FileContracts {
				add(fc.Payout)
			}
			for _, f := range txn.MinerFees {
				add(f)
			}
			return total, true
		}
		for _, fc := range txn.FileContracts {
			add(fc.Payout)
			outs(fc.ValidProofOutputs)
			outs(fc.MissedProofOutputs)
		}
		for _, r := range txn.FileContractRevisions {
			outs(r.FileContract.ValidProofOutputs)
			outs(r.FileContract.MissedProofOutputs)
		}
		return total, true
	}
	if txn := m.v2(); txn != nil {
		ok = true
		contract := func(fc types.V2FileContract) {
			add(fc.RenterOutput.Value)
			add(fc.HostOutput.Value)
			add(fc.MissedHostValue)
			add(fc.TotalCollateral)
			rh := new(big.Int).Add(fc.RenterOutput.Value.Big(), fc.HostOutput.Value.Big())
			if rh.BitLen() > 128 {
				ok = false
			}
			total.Add(total, rh.Div(rh, big.NewInt(25)))
		}
		outs(txn.SiacoinOutputs)
		for _, fc := range txn.FileContracts {
			contract(fc)
		}
		for _, r := range txn.FileContractRevisions {
			contract(r.Revision)
		}
		for _, r := range txn.FileContractResolutions {
			if ren, is := r.Resolution.(*types.V2FileContractRenewal); is && ren != nil {
				contract(ren.NewContract)
				add(ren.FinalRenterOutput.Value)
				add(ren.FinalHostOutput.Value)
				add(ren.RenterRollover)
				add(ren.HostRollover)
			}
		}
		add(txn.MinerFee)
		return total, ok
	}
	return total, false
}

// applyComplement sets the member to the largest value for which the pre-checked sum does not exceed 2^128-1 ("rest"), or one
// less / one more.
func (m *mctx) applyComplement(e ext) bool {
	if txn := m.v2(); txn != nil && strings.HasPrefix(e.T, "ren.") {
		// slots of a renewal point into the shared resolution object: give the mutant its own copy first
		for i := range txn.FileContractResolutions {
			if ren, is := txn.FileContractResolutions[i].Resolution.(*types.V2FileContractRenewal); is && ren != nil {
				c := *ren
				txn.FileContractResolutions[i].Resolution = &c
			}
		}
	}
	slots := m.curSlots(e.T)
	if len(slots) == 0 || m.unknown != "" {
		return false
	}
	slot := slots[0]
	variant := e.X
	if i := strings.Index(variant, ",others="); i > 0 {
		// every other pre-checked member first becomes 0 / 1
		v := types.ZeroCurrency
		if variant[i:] == ",others=1" {
			v = types.NewCurrency64(1)
		}
		variant = variant[:i]
		for _, name := range m.preChecked[e.Ver] {
			if name == "fee" && e.Ver == 1 && e.T != "fee" {
				continue // curSlots would create fee entries where there are none
			}
			for _, s := range m.curSlots(name) {
				if s != slot {
					*s = v
				}
			}
		}
		m.unknown = ""
	}
	max := types.MaxCurrency.Big()
	fits := func(v *big.Int) bool {
		*slot = types.NewCurrency(new(big.Int).And(v, new(big.Int).SetUint64(math.MaxUint64)).Uint64(), new(big.Int).Rsh(v, 64).Uint64())
		t, ok := m.preCheckTotal(e.T)
		return ok && t.Cmp(max) <= 0
	}
	if !fits(new(big.Int)) {
		return false // the rest alone exceeds the range
	}
	lo, hi := new(big.Int), new(big.Int).Set(max) // largest v in [lo, hi] that fits
	for lo.Cmp(hi) < 0 {
		mid := new(big.Int).Add(lo, hi)
		mid.Add(mid, big.NewInt(1)).Rsh(mid, 1)
		if fits(mid) {
			lo = mid
		} else {
			hi = mid.Sub(mid, big.NewInt(1))
		}
	}
	v := lo
	switch variant {
	case "rest-1":
		if v.Sign() == 0 {
			return false
		}
		v = new(big.Int).Sub(v, big.NewInt(1))
	case "rest+1":
		if v.Cmp(max) >= 0 {
			return false
		}
		v = new(big.Int).Add(v, big.NewInt(1))
	case "rest":
	default:
		m.unknown = "complement variant " + e.X
		return false
	}
	*slot = types.NewCurrency(new(big.Int).And(v, new(big.Int).SetUint64(math.MaxUint64)).Uint64(), new(big.Int).Rsh(v, 64).Uint64())
	return true
}

// applyConfuse2: a v2 transaction is appended whose "ephemeral" parent carries the id of an element of another kind that the
// block records earlier (for attestations: a transaction of attestations is placed in front of it).
func (m *mctx) applyConfuse2(e ext) bool {
	if m.b.V2 == nil {
		return false // no v2 transactions in this block
	}
	addrA, skA := m.sim.K.Addr("A"), m.sim.K.SK("A")
	var id types.Hash256
	if strings.HasPrefix(e.X, "attestation@") {
		n := m.nSC
		if e.T == "sfi" {
			n = m.nSF
		}
		j, ok := map[string]int{"attestation@0": 0, "attestation@n-1": n - 1, "attestation@n": n, "attestation@n+1": n + 1, "attestation@n+8": n + 8}[e.X]
		if !ok {
			m.unknown = "confuse variant " + e.X
			return false
		}
		if j < 0 {
			return false
		}
		var at types.V2Transaction
		for i := 0; i <= j; i++ {
			a := types.Attestation{PublicKey: skA.PublicKey(), Key: fmt.Sprintf("k%d", i), Value: []byte{byte(i)}}
			a.Signature = skA.SignHash(m.cs.AttestationSigHash(a))
			at.Attestations = append(at.Attestations, a)
		}
		m.b.V2.Transactions = append(m.b.V2.Transactions, at)
		id = types.Hash256(at.AttestationID(at.ID(), j))
	} else {
		var sc, sf, fc, rev []types.Hash256
		for _, t := range m.b.Transactions {
			for i := range t.SiacoinOutputs {
				sc = append(sc, types.Hash256(t.SiacoinOutputID(i)))
			}
			for i := range t.SiafundOutputs {
				sf = append(sf, types.Hash256(t.SiafundOutputID(i)))
			}
			for i := range t.FileContracts {
				fc = append(fc, types.Hash256(t.FileContractID(i)))
			}
			for _, r := range t.FileContractRevisions {
				rev = append(rev, types.Hash256(r.ParentID))
			}
		}
		for _, t := range m.b.V2.Transactions {
			txid := t.ID()
			for i := range t.SiacoinOutputs {
				sc = append(sc, types.Hash256(t.SiacoinOutputID(txid, i)))
			}
			for i := range t.SiafundOutputs {
				sf = append(sf, types.Hash256(t.SiafundOutputID(txid, i)))
			}
			for i := range t.FileContracts {
				fc = append(fc, types.Hash256(t.V2FileContractID(txid, i)))
			}
			for _, r := range t.FileContractRevisions {
				rev = append(rev, types.Hash256(r.Parent.ID))
			}
		}
		pool := map[string][]types.Hash256{"siacoin-output": sc, "siafund-output": sf, "contract": fc, "revised-contract": rev}[e.X]
		if len(pool) == 0 {
			return false
		}
		id = pool[len(pool)-1]
	}
	pol := types.SatisfiedPolicy{Policy: m.sim.K.Policy("A"), Signatures: make([]types.Signature, 1)}
	se := types.StateElement{LeafIndex: types.UnassignedLeafIndex}
	var txn types.V2Transaction
	switch e.T {
	case "sci":
		txn.SiacoinInputs = []types.V2SiacoinInput{{Parent: types.SiacoinElement{ID: types.SiacoinOutputID(id), StateElement: se, SiacoinOutput: types.SiacoinOutput{Value: types.NewCurrency64(1), Address: addrA}}, SatisfiedPolicy: pol}}
		txn.SiacoinOutputs = []types.SiacoinOutput{{Value: types.NewCurrency64(1), Address: addrA}}
	case "sfi":
		txn.SiafundInputs = []types.V2SiafundInput{{Parent: types.SiafundElement{ID: types.SiafundOutputID(id), StateElement: se, SiafundOutput: types.SiafundOutput{Value: 1, Address: addrA}}, ClaimAddress: addrA, SatisfiedPolicy: pol}}
		txn.SiafundOutputs = []types.SiafundOutput{{Value: 1, Address: addrA}}
	default:
		m.unknown = "confuse member " + e.T
		return false
	}
	m.b.V2.Transactions = append(m.b.V2.Transactions, txn)
	m.ver, m.k = 2, len(m.b.V2.Transactions)-1
	return true
}

// applySuppEra: a block shape (as it is / a v1 transaction appended / a v2 transaction appended) and a supplement variant.
func (m *mctx) applySuppEra(e ext) bool {
	switch e.T {
	case "block-as-is":
	case "v1-transaction-appended":
		t := types.Transaction{ArbitraryData: [][]byte{{1}}}
		if m.earlierV1 != nil {
			t = *wb.Clone(reflect.ValueOf(m.earlierV1)).Interface().(*types.Transaction) // (re-signing must not touch the history's block)
		}
		m.b.Transactions = append(m.b.Transactions, t)
		m.bs.Transactions = append(m.bs.Transactions, consensus.V1TransactionSupplement{})
		m.ver, m.k = 1, len(m.b.Transactions)-1
	case "v2-transaction-appended":
		t := types.V2Transaction{ArbitraryData: []byte{1}}
		if m.earlierV2 != nil {
			t = m.earlierV2.DeepCopy()
		}
		if m.b.V2 == nil {
			m.b.V2 = &types.V2BlockData{Height: m.child}
		}
		m.b.V2.Transactions = append(m.b.V2.Transactions, t)
		m.ver, m.k = 2, len(m.b.V2.Transactions)-1
	default:
		m.unknown = "block shape " + e.T
		return false
	}
	ts := m.bs.Transactions
	eachList := func(f func(ts *consensus.V1TransactionSupplement)) {
		for i := range ts {
			f(&ts[i])
		}
	}
	switch e.X {
	case "honest":
	case "empty":
		m.bs = consensus.V1BlockSupplement{}
	case "short":
		if len(ts) == 0 {
			return false
		}
		m.bs.Transactions = ts[:len(ts)-1]
	case "long":
		m.bs.Transactions = append(ts, consensus.V1TransactionSupplement{})
	case "permuted":
		if len(ts) < 2 {
			return false
		}
		reverse(ts)
	case "lists-emptied":
		eachList(func(t *consensus.V1TransactionSupplement) { *t = consensus.V1TransactionSupplement{} })
		m.bs.ExpiringFileContracts = nil
	case "lists-truncated":
		cut := false
		eachList(func(t *consensus.V1TransactionSupplement) {
			if n := len(t.SiacoinInputs); n > 0 {
				t.SiacoinInputs, cut = t.SiacoinInputs[:n-1], true
			}
			if n := len(t.SiafundInputs); n > 0 {
				t.SiafundInputs, cut = t.SiafundInputs[:n-1], true
			}
			if n := len(t.RevisedFileContracts); n > 0 {
				t.RevisedFileContracts, cut = t.RevisedFileContracts[:n-1], true
			}
			if n := len(t.StorageProofs); n > 0 {
				t.StorageProofs, cut = t.StorageProofs[:n-1], true
			}
		})
		if n := len(m.bs.ExpiringFileContracts); n > 0 {
			m.bs.ExpiringFileContracts, cut = m.bs.ExpiringFileContracts[:n-1], true
		}
		if !cut {
			return false
		}
	case "lists-overlong":
		grown := false
		eachList(func(t *consensus.V1TransactionSupplement) {
			if n := len(t.SiacoinInputs); n > 0 {
				t.SiacoinInputs, grown = append(t.SiacoinInputs, t.SiacoinInputs[n-1].Copy()), true
			}
			if n := len(t.SiafundInputs); n > 0 {
				t.SiafundInputs, grown = append(t.SiafundInputs, t.SiafundInputs[n-1].Copy()), true
			}
			if n := len(t.RevisedFileContracts); n > 0 {
				t.RevisedFileContracts, grown = append(t.RevisedFileContracts, t.RevisedFileContracts[n-1].Copy()), true
			}
			if n := len(t.StorageProofs); n > 0 {
				t.StorageProofs, grown = append(t.StorageProofs, t.StorageProofs[n-1]), true
			}
		})
		if n := len(m.bs.ExpiringFileContracts); n > 0 {
			m.bs.ExpiringFileContracts, grown = append(m.bs.ExpiringFileContracts, m.bs.ExpiringFileContracts[n-1].Copy()), true
		}
		if !grown {
			return false
		}
	default:
		m.unknown = "supplement variant " + e.X
		return false
	}
	return true
}

// applyWrap makes two entries of a uint64-summed member wrap to the honest total: (x, honest - x mod 2^64).
func (m *mctx) applyWrap(e ext) bool {
	x, ok := map[string]uint64{"1": 1, "2^32": 1 << 32, "2^63": 1 << 63, "2^64-2": math.MaxUint64 - 1, "2^64-1": math.MaxUint64}[e.X]
	if !ok {
		m.unknown = "wrap value " + e.X
		return false
	}
	pairOuts := func(os *[]types.SiafundOutput) bool {
		if len(*os) == 0 {
			return false
		}
		o := append([]types.SiafundOutput{}, (*os)...)
		if len(o) == 1 {
			o = append(o, types.SiafundOutput{Address: o[0].Address})
		}
		honest := o[0].Value + o[1].Value
		o[0].Value, o[1].Value = x, honest-x // uint64 arithmetic: the pair wraps to the honest sum
		*os = o
		return true
	}
	switch e.T {
	case "sfo.val":
		if txn := m.v1(); txn != nil {
			return pairOuts(&txn.SiafundOutputs)
		}
		if txn := m.v2(); txn != nil {
			return pairOuts(&txn.SiafundOutputs)
		}
		return false
	case "supp.sfi.val":
		ts := m.ts()
		if ts == nil || len(ts.SiafundInputs) == 0 {
			return false
		}
		m.noDirect = true
		l := append([]types.SiafundElement{}, ts.SiafundInputs...)
		if len(l) == 1 {
			l = append(l, l[0].Copy())
		}
		honest := l[0].SiafundOutput.Value + l[1].SiafundOutput.Value
		l[0].SiafundOutput.Value, l[1].SiafundOutput.Value = x, honest-x
		ts.SiafundInputs = l
		return true
	case "sfi.parent.val":
		txn := m.v2()
		if txn == nil || len(txn.SiafundInputs) == 0 {
			return false
		}
		in := append([]types.V2SiafundInput{}, txn.SiafundInputs...)
		honest := in[0].Parent.SiafundOutput.Value
		if len(in) == 1 {
			// a second parent: another siafund output this block creates (an ephemeral one when the first is), else an unknown one
			second := in[0]
			second.Parent = in[0].Parent.Copy()
			second.Parent.ID = types.SiafundOutputID(hashN(123))
			if m.created != nil {
				for _, id := range m.created.sf {
					if types.SiafundOutputID(id) != in[0].Parent.ID {
						second.Parent.ID = types.SiafundOutputID(id)
						break
					}
				}
			}
			second.Parent.SiafundOutput.Value = 0
			in = append(in, second)
		} else {
			honest += in[1].Parent.SiafundOutput.Value
		}
		in[0].Parent = in[0].Parent.Copy()
		in[1].Parent = in[1].Parent.Copy()
		in[0].Parent.SiafundOutput.Value, in[1].Parent.SiafundOutput.Value = x, honest-x
		in[0].Parent.ClaimStart, in[1].Parent.ClaimStart = types.ZeroCurrency, types.ZeroCurrency
		txn.SiafundInputs = in
		return true
	}
	m.unknown = "wrap member " + e.T
	return false
}

// decodable reports whether the target transaction of the mutant is a value a decoder of core hands over: it survives a round
// trip (encode, decode, encode again: the same bytes) through the binary codec or through JSON.
func (m *mctx) decodable() bool {
	rt := func(enc func() ([]byte, error), dec func([]byte) (func() ([]byte, error), error)) (ok bool) {
		defer func() {
			if recover() != nil {
				ok = false
			}
		}()
		b, err := enc()
		if err != nil {
			return false
		}
		enc2, err := dec(b)
		if err != nil {
			return false
		}
		b2, err := enc2()
		return err == nil && bytes.Equal(b, b2)
	}
	bin := func(v types.EncoderTo) func() ([]byte, error) {
		return func() ([]byte, error) {
			var buf bytes.Buffer
			e := types.NewEncoder(&buf)
			v.EncodeTo(e)
			e.Flush()
			return buf.Bytes(), nil
		}
	}
	if txn := m.v1(); txn != nil {
		return rt(bin(*txn), func(b []byte) (func() ([]byte, error), error) {
			var t types.Transaction
			d := types.NewBufDecoder(b)
			t.DecodeFrom(d)
			return bin(t), d.Err()
		}) || rt(func() ([]byte, error) { return json.Marshal(*txn) }, func(b []byte) (func() ([]byte, error), error) {
			var t types.Transaction
			err := json.Unmarshal(b, &t)
			return func() ([]byte, error) { return json.Marshal(t) }, err
		})
	}
	if txn := m.v2(); txn != nil {
		return rt(bin(*txn), func(b []byte) (func() ([]byte, error), error) {
			var t types.V2Transaction
			d := types.NewBufDecoder(b)
			t.DecodeFrom(d)
			return bin(t), d.Err()
		}) || rt(func() ([]byte, error) { return json.Marshal(*txn) }, func(b []byte) (func() ([]byte, error), error) {
			var t types.V2Transaction
			err := json.Unmarshal(b, &t)
			return func() ([]byte, error) { return json.Marshal(t) }, err
		})
	}
	return true
}

func (m *mctx) applyParents(e ext) bool {
	other := types.Hash256(hashN(99))
	wantContract := e.T == "rev" || e.T == "res"
	switch e.X {
	case "id-of-other-kind":
		// the id of an element of another kind that THIS BLOCK creates; the last created has the largest index
		if m.created == nil {
			return false
		}
		var pool []types.Hash256
		if wantContract {
			pool = append(append([]types.Hash256{}, m.created.sf...), m.created.sc...)
		} else if e.T == "sci" {
			pool = append(append(append([]types.Hash256{}, m.created.fc...), m.created.v2fc...), m.created.sf...)
			if len(pool) == 0 {
				return false
			}
		} else {
			pool = append(append(append([]types.Hash256{}, m.created.fc...), m.created.v2fc...), m.created.sc...)
		}
		if len(pool) == 0 {
			return false
		}
		other = pool[len(pool)-1]
	case "id-of-committed-other-kind":
		found := false
		fresh := map[types.Hash256]bool{} // created by this very block: not committed before it
		if m.created != nil {
			for _, l := range [][]types.Hash256{m.created.sc, m.created.sf, m.created.fc, m.created.v2fc} {
				for _, id := range l {
					fresh[id] = true
				}
			}
		}
		if wantContract {
			sc := map[types.Hash256]bool{}
			for id := range m.sim.Store.SC {
				if !fresh[types.Hash256(id)] {
					sc[types.Hash256(id)] = true
				}
			}
			other, found = minID(sc)
		} else {
			fc := map[types.Hash256]bool{}
			for id := range m.sim.Store.V2FC {
				if !fresh[types.Hash256(id)] {
					fc[types.Hash256(id)] = true
				}
			}
			for id := range m.sim.Store.FC {
				if !fresh[types.Hash256(id)] {
					fc[types.Hash256(id)] = true
				}
			}
			if len(fc) == 0 {
				for id := range m.sim.Store.SF {
					if e.T != "sfi" && !fresh[types.Hash256(id)] {
						fc[types.Hash256(id)] = true
					}
				}
			}
			other, found = minID(fc)
		}
		if !found {
			return false
		}
	}
	if txn := m.v1(); txn != nil {
		switch e.T {
		case "sci":
			if len(txn.SiacoinInputs) == 0 {
				return false
			}
			switch e.X {
			case "dup":
				txn.SiacoinInputs = append(txn.SiacoinInputs, txn.SiacoinInputs[0])
			case "drop":
				txn.SiacoinInputs = txn.SiacoinInputs[1:]
			default:
				txn.SiacoinInputs[0].ParentID = types.SiacoinOutputID(other)
			}
		case "sfi":
			if len(txn.SiafundInputs) == 0 {
				return false
			}
			switch e.X {
			case "dup":
				txn.SiafundInputs = append(txn.SiafundInputs, txn.SiafundInputs[0])
			case "drop":
				txn.SiafundInputs = txn.SiafundInputs[1:]
			default:
				txn.SiafundInputs[0].ParentID = types.SiafundOutputID(other)
			}
		case "rev":
			if len(txn.FileContractRevisions) == 0 {
				return false
			}
			switch e.X {
			case "dup":
				txn.FileContractRevisions = append(txn.FileContractRevisions, txn.FileContractRevisions[0])
			case "drop":
				txn.FileContractRevisions = txn.FileContractRevisions[1:]
			default:
				txn.FileContractRevisions[0].ParentID = types.FileContractID(other)
			}
		case "res":
			if len(txn.StorageProofs) == 0 {
				return false
			}
			switch e.X {
			case "dup":
				txn.StorageProofs = append(txn.StorageProofs, txn.StorageProofs[0])
			case "drop":
				txn.StorageProofs = txn.StorageProofs[1:]
			default:
				txn.StorageProofs[0].ParentID = types.FileContractID(other)
			}
		}
		return true
	}
	if txn := m.v2(); txn != nil {
		switch e.T {
		case "sci":
			if len(txn.SiacoinInputs) == 0 {
				return false
			}
			switch e.X {
			case "dup":
				txn.SiacoinInputs = append(txn.SiacoinInputs, txn.SiacoinInputs[0])
			case "drop":
				txn.SiacoinInputs = txn.SiacoinInputs[1:]
			default:
				txn.SiacoinInputs[0].Parent.ID = types.SiacoinOutputID(other)
			}
		case "sfi":
			if len(txn.SiafundInputs) == 0 {
				return false
			}
			switch e.X {
			case "dup":
				txn.SiafundInputs = append(txn.SiafundInputs, txn.SiafundInputs[0])
			case "drop":
				txn.SiafundInputs = txn.SiafundInputs[1:]
			default:
				txn.SiafundInputs[0].Parent.ID = types.SiafundOutputID(other)
			}
		case "rev":
			if len(txn.FileContractRevisions) == 0 {
				return false
			}
			switch e.X {
			case "dup":
				txn.FileContractRevisions = append(txn.FileContractRevisions, txn.FileContractRevisions[0])
			case "drop":
				txn.FileContractRevisions = txn.FileContractRevisions[1:]
			default:
				txn.FileContractRevisions[0].Parent.ID = types.FileContractID(other)
			}
		case "res":
			if len(txn.FileContractResolutions) == 0 {
				return false
			}
			switch e.X {
			case "dup":
				txn.FileContractResolutions = append(txn.FileContractResolutions, txn.FileContractResolutions[0])
			case "drop":
				txn.FileContractResolutions = txn.FileContractResolutions[1:]
			default:
				txn.FileContractResolutions[0].Parent.ID = types.FileContractID(other)
			}
		}
		return true
	}
	return false
}

func reverse[T any](s []T) {
	for i, j := 0, len(s)-1; i < j; i, j = i+1, j-1 {
		s[i], s[j] = s[j], s[i]
	}
}

func (m *mctx) applySupp(e ext) bool {
	if e.T == "txs" {
		switch e.X {
		case "short":
			if len(m.bs.Transactions) == 0 {
				return false
			}
			m.bs.Transactions = m.bs.Transactions[:len(m.bs.Transactions)-1]
		case "long":
			m.bs.Transactions = append(m.bs.Transactions, consensus.V1TransactionSupplement{})
		case "empty":
			m.bs.Transactions = []consensus.V1TransactionSupplement{}
		case "nil":
			m.bs.Transactions = nil
		case "expiring-extra":
			m.bs.ExpiringFileContracts = append(m.bs.ExpiringFileContracts, types.FileContractElement{ID: types.FileContractID(hashN(5))})
		default:
			return false
		}
		return true
	}
	// an unrelated live element of each kind
	var xsc *types.SiacoinElement
	var xsf *types.SiafundElement
	var xfc *types.FileContractElement
	{
		ids := map[types.Hash256]bool{}
		for id := range m.sim.Store.SC {
			ids[types.Hash256(id)] = true
		}
		if id, ok := minID(ids); ok {
			c := m.sim.Store.SC[types.SiacoinOutputID(id)].Copy()
			xsc = &c
		}
		ids = map[types.Hash256]bool{}
		for id := range m.sim.Store.SF {
			ids[types.Hash256(id)] = true
		}
		if id, ok := minID(ids); ok {
			c := m.sim.Store.SF[types.SiafundOutputID(id)].Copy()
			xsf = &c
		}
		ids = map[types.Hash256]bool{}
		for id := range m.sim.Store.FC {
			ids[types.Hash256(id)] = true
		}
		if id, ok := minID(ids); ok {
			c := m.sim.Store.FC[types.FileContractID(id)].Copy()
			xfc = &c
		}
	}
	if xfc == nil {
		xfc = &types.FileContractElement{ID: types.FileContractID(hashN(6)), StateElement: types.StateElement{LeafIndex: 0}}
	}
	if e.T == "expiring" {
		l := &m.bs.ExpiringFileContracts
		switch e.X {
		case "missing":
			if len(*l) == 0 {
				return false
			}
			*l = (*l)[1:]
		case "extra":
			*l = append(*l, *xfc)
		case "dup":
			if len(*l) == 0 {
				return false
			}
			*l = append(*l, (*l)[0].Copy())
		case "reversed":
			if len(*l) < 2 {
				return false
			}
			reverse(*l)
		default:
			return false
		}
		return true
	}
	ts := m.ts()
	if ts == nil {
		return false
	}
	if e.T == "sp.windowid" {
		if len(ts.StorageProofs) == 0 {
			return false
		}
		if e.X == "zero" {
			ts.StorageProofs[0].WindowID = types.BlockID{}
		} else {
			ts.StorageProofs[0].WindowID = m.cs.Index.ID
		}
		return true
	}
	if e.X == "from-other-txn" {
		if len(m.bs.Transactions) < 2 {
			return false
		}
		o := (m.k + 1) % len(m.bs.Transactions)
		m.bs.Transactions[m.k], m.bs.Transactions[o] = m.bs.Transactions[o], m.bs.Transactions[m.k]
		return true
	}
	switch e.T {
	case "sci":
		l := &ts.SiacoinInputs
		switch e.X {
		case "missing":
			if len(*l) == 0 {
				return false
			}
			*l = (*l)[1:]
		case "extra":
			if xsc == nil {
				return false
			}
			*l = append(*l, *xsc)
		case "dup":
			if len(*l) == 0 {
				return false
			}
			*l = append(*l, (*l)[0].Copy())
		case "reversed":
			if len(*l) < 2 {
				return false
			}
			reverse(*l)
		}
	case "sfi":
		l := &ts.SiafundInputs
		switch e.X {
		case "missing":
			if len(*l) == 0 {
				return false
			}
			*l = (*l)[1:]
		case "extra":
			if xsf == nil {
				return false
			}
			*l = append(*l, *xsf)
		case "dup":
			if len(*l) == 0 {
				return false
			}
			*l = append(*l, (*l)[0].Copy())
		case "reversed":
			if len(*l) < 2 {
				return false
			}
			reverse(*l)
		}
	case "rev":
		l := &ts.RevisedFileContracts
		switch e.X {
		case "missing":
			if len(*l) == 0 {
				return false
			}
			*l = (*l)[1:]
		case "extra":
			*l = append(*l, *xfc)
		case "dup":
			if len(*l) == 0 {
				return false
			}
			*l = append(*l, (*l)[0].Copy())
		case "reversed":
			if len(*l) < 2 {
				return false
			}
			reverse(*l)
		}
	case "sp":
		l := &ts.StorageProofs
		switch e.X {
		case "missing":
			if len(*l) == 0 {
				return false
			}
			*l = (*l)[1:]
		case "extra":
			*l = append(*l, consensus.V1StorageProofSupplement{FileContract: *xfc, WindowID: m.cs.Index.ID})
		case "dup":
			if len(*l) == 0 {
				return false
			}
			*l = append(*l, (*l)[0])
		case "reversed":
			if len(*l) < 2 {
				return false
			}
			reverse(*l)
		}
	default:
		m.unknown = "supplement member " + e.T
		return false
	}
	return true
}

func (m *mctx) applyPolicy(e ext) bool {
	txn := m.v2()
	if txn == nil {
		return false
	}
	var sp *types.SatisfiedPolicy
	if e.T == "sci" && len(txn.SiacoinInputs) > 0 {
		sp = &txn.SiacoinInputs[0].SatisfiedPolicy
	} else if e.T == "sfi" && len(txn.SiafundInputs) > 0 {
		sp = &txn.SiafundInputs[0].SatisfiedPolicy
	}
	if sp == nil {
		return false
	}
	orig := sp.Policy
	var one types.Signature
	if len(sp.Signatures) > 0 {
		one = sp.Signatures[0]
	}
	m.keepSigs = true
	switch e.X {
	case "depth32":
		sp.Policy = nestPolicy(32, orig)
	case "depth33":
		sp.Policy = nestPolicy(33, orig)
	case "depth200":
		sp.Policy = nestPolicy(200, orig)
	case "arity255":
		sp.Policy = widePolicy(255, orig)
	case "arity256":
		sp.Policy = widePolicy(256, orig)
	case "arity1000":
		sp.Policy = widePolicy(1000, orig)
	case "1024-leaves":
		sp.Policy = nestPolicy(3, widePolicy(255, widePolicy(255, widePolicy(255, widePolicy(255, orig)))))
	case "1025-leaves":
		sp.Policy = widePolicy(255, widePolicy(255, widePolicy(255, widePolicy(255, widePolicy(255, orig)))))
	case "n255-of-1":
		sp.Policy = types.SpendPolicy{Type: types.PolicyTypeThreshold{N: 255, Of: []types.SpendPolicy{orig}}}
	case "n0-of-0":
		sp.Policy = types.SpendPolicy{Type: types.PolicyTypeThreshold{N: 0, Of: nil}}
	case "no-sigs":
		sp.Signatures = nil
	case "one-extra-sig":
		sp.Signatures = append(append([]types.Signature{}, sp.Signatures...), one)
	case "1000-extra-sigs":
		s := append([]types.Signature{}, sp.Signatures...)
		for i := 0; i < 1000; i++ {
			s = append(s, one)
		}
		sp.Signatures = s
	case "one-extra-preimage":
		sp.Preimages = append(append([][32]byte{}, sp.Preimages...), [32]byte{1})
	case "1000-extra-preimages":
		sp.Preimages = make([][32]byte, 1000)
	case "nil-type":
		sp.Policy = types.SpendPolicy{}
	case "opaque":
		sp.Policy = types.PolicyOpaque(orig) // same address, nothing revealed
	case "uc-0-of-0":
		sp.Policy = types.SpendPolicy{Type: types.PolicyTypeUnlockConditions{}}
	case "uc-need-2^64-1":
		if uc, ok := orig.Type.(types.PolicyTypeUnlockConditions); ok {
			uc.SignaturesRequired = math.MaxUint64
			sp.Policy = types.SpendPolicy{Type: uc}
		} else {
			sp.Policy = types.SpendPolicy{Type: types.PolicyTypeUnlockConditions{SignaturesRequired: math.MaxUint64}}
		}
	case "hash-no-preimage":
		sp.Policy = types.PolicyHash(hashN(3))
	default:
		m.unknown = "policy variant " + e.X
		return false
	}
	return true
}

func (m *mctx) applyResolution(e ext) bool {
	txn := m.v2()
	if txn == nil || len(txn.FileContractResolutions) == 0 {
		return false
	}
	r := &txn.FileContractResolutions[0]
	fc := r.Parent.V2FileContract
	switch e.X {
	case "to-proof":
		if _, is := r.Resolution.(*types.V2StorageProof); is {
			return false
		}
		sp := &types.V2StorageProof{}
		cie, ok := m.sim.Store.CIE[fc.ProofHeight]
		if !ok || cie.ChainIndex.Height > m.cs.Index.Height {
			cie, ok = m.sim.Store.CIE[m.cs.Index.Height]
		}
		if ok {
			sp.ProofIndex = cie.Copy()
		}
		r.Resolution = sp
	case "to-expiration":
		if _, is := r.Resolution.(*types.V2FileContractExpiration); is {
			return false
		}
		r.Resolution = &types.V2FileContractExpiration{}
	case "to-renewal":
		if _, is := r.Resolution.(*types.V2FileContractRenewal); is {
			return false
		}
		nc := fc
		nc.ProofHeight, nc.ExpirationHeight, nc.RevisionNumber = m.child+1, m.child+3, 0
		r.Resolution = &types.V2FileContractRenewal{FinalRenterOutput: fc.RenterOutput, FinalHostOutput: fc.HostOutput, NewContract: nc}
	default:
		m.unknown = "resolution variant " + e.X
		return false
	}
	return true
}

func (m *mctx) applyEra(e ext) bool {
	switch e.T {
	case "block":
		switch e.X {
		case "v2data-present":
			if m.b.V2 != nil {
				return false
			}
			m.b.V2 = &types.V2BlockData{Height: m.child}
		case "v2data-nil":
			if m.b.V2 == nil {
				return false
			}
			m.b.V2 = nil
		case "v2data-empty":
			m.b.V2 = &types.V2BlockData{}
			m.keepCommitment = true
		case "v2height-0", "v2height+1", "v2height-2^64-1":
			if m.b.V2 == nil {
				return false
			}
			m.b.V2.Height = map[string]uint64{"v2height-0": 0, "v2height+1": m.child + 1, "v2height-2^64-1": math.MaxUint64}[e.X]
		case "commitment-zero":
			if m.b.V2 == nil {
				return false
			}
			m.b.V2.Commitment = types.Hash256{}
			m.keepCommitment = true
		default:
			m.unknown = "era variant " + e.X
			return false
		}
		return true
	case "txn":
		if e.Ver == 1 { // a v1 transaction in a block of the v2-only era
			if m.child < m.cs.Network.HardforkV2.RequireHeight {
				return false
			}
			m.b.Transactions = append(m.b.Transactions, types.Transaction{ArbitraryData: [][]byte{{1}}})
			m.bs.Transactions = append(m.bs.Transactions, consensus.V1TransactionSupplement{})
			m.ver, m.k = 1, len(m.b.Transactions)-1
			return true
		}
		if m.child >= m.cs.Network.HardforkV2.AllowHeight { // a v2 transaction before the allow height
			return false
		}
		m.b.V2 = &types.V2BlockData{Height: m.child, Transactions: []types.V2Transaction{{ArbitraryData: []byte{1}}}}
		m.ver, m.k = 2, 0
		return true
	}
	m.unknown = "era member " + e.T
	return false
}

func (m *mctx) applyFilesize(e ext) bool {
	v, ok := u64Val(e.X, m.child, 0)
	gt := e.X == "size>capacity"
	if !ok && !gt {
		return false
	}
	if txn := m.v1(); txn != nil {
		if gt {
			return false
		}
		switch e.T {
		case "fc":
			if len(txn.FileContracts) == 0 {
				return false
			}
			txn.FileContracts[0].Filesize = v
		case "rev":
			if len(txn.FileContractRevisions) == 0 {
				return false
			}
			txn.FileContractRevisions[0].FileContract.Filesize = v
		case "supp.sp":
			ts := m.ts()
			if ts == nil || len(ts.StorageProofs) == 0 {
				return false
			}
			ts.StorageProofs[0].FileContract.FileContract.Filesize = v
		default:
			return false
		}
		return true
	}
	if txn := m.v2(); txn != nil {
		set := func(fc *types.V2FileContract) {
			if gt {
				fc.Filesize = fc.Capacity + 1
			} else {
				fc.Filesize = v
				if fc.Capacity < v {
					fc.Capacity = v
				}
			}
		}
		switch e.T {
		case "fc":
			if len(txn.FileContracts) == 0 {
				return false
			}
			set(&txn.FileContracts[0])
		case "rev":
			if len(txn.FileContractRevisions) == 0 {
				return false
			}
			set(&txn.FileContractRevisions[0].Revision)
		case "ren.nc":
			ren, ok := txn.FileContractResolutions[0].Resolution.(*types.V2FileContractRenewal)
			if !ok {
				return false
			}
			c := *ren
			set(&c.NewContract)
			txn.FileContractResolutions[0].Resolution = &c
		case "res.parent":
			set(&txn.FileContractResolutions[0].Parent.V2FileContract)
		default:
			return false
		}
		return true
	}
	return false
}

func (m *mctx) applyWindow(e ext) bool {
	v, ok := u64Val(e.X, m.child, 0)
	if !ok {
		return false
	}
	f := e.T[strings.LastIndex(e.T, ".")+1:]
	if txn := m.v1(); txn != nil {
		var fc *types.FileContract
		switch {
		case strings.HasPrefix(e.T, "fc.") && len(txn.FileContracts) > 0:
			fc = &txn.FileContracts[0]
		case strings.HasPrefix(e.T, "rev.") && len(txn.FileContractRevisions) > 0:
			fc = &txn.FileContractRevisions[0].FileContract
		case strings.HasPrefix(e.T, "supp.sp.") && m.ts() != nil && len(m.ts().StorageProofs) > 0:
			fc = &m.ts().StorageProofs[0].FileContract.FileContract
		}
		if fc == nil {
			return false
		}
		switch f {
		case "ws":
			fc.WindowStart = v
		case "we":
			fc.WindowEnd = v
		case "rn":
			fc.RevisionNumber = v
		default:
			return false
		}
		return true
	}
	if txn := m.v2(); txn != nil {
		var fc *types.V2FileContract
		switch {
		case e.T == "res.proofindex.height":
			sp, ok := txn.FileContractResolutions[0].Resolution.(*types.V2StorageProof)
			if !ok {
				return false
			}
			c := *sp
			c.ProofIndex.ChainIndex.Height = v
			txn.FileContractResolutions[0].Resolution = &c
			return true
		case strings.HasPrefix(e.T, "fc.") && len(txn.FileContracts) > 0:
			fc = &txn.FileContracts[0]
		case strings.HasPrefix(e.T, "rev.") && len(txn.FileContractRevisions) > 0:
			fc = &txn.FileContractRevisions[0].Revision
		case strings.HasPrefix(e.T, "res.parent.") && len(txn.FileContractResolutions) > 0:
			fc = &txn.FileContractResolutions[0].Parent.V2FileContract
		case strings.HasPrefix(e.T, "ren.nc.") && len(txn.FileContractResolutions) > 0:
			ren, ok := txn.FileContractResolutions[0].Resolution.(*types.V2FileContractRenewal)
			if !ok {
				return false
			}
			c := *ren
			txn.FileContractResolutions[0].Resolution = &c
			fc = &c.NewContract
		}
		if fc == nil {
			return false
		}
		switch f {
		case "ph":
			fc.ProofHeight = v
		case "eh":
			fc.ExpirationHeight = v
		case "rn":
			fc.RevisionNumber = v
		default:
			return false
		}
		return true
	}
	return false
}

func (m *mctx) blockWeight() uint64 {
	var w uint64
	for _, t := range m.b.Transactions {
		w += m.cs.TransactionWeight(t)
	}
	for _, t := range m.b.V2Transactions() {
		w += m.cs.V2TransactionWeight(t)
	}
	return w
}

func foundationUpdate(p, f types.Address) []byte {
	var buf bytes.Buffer
	e := types.NewEncoder(&buf)
	types.SpecifierFoundation.EncodeTo(e)
	types.FoundationAddressUpdate{NewPrimary: p, NewFailsafe: f}.EncodeTo(e)
	e.Flush()
	return buf.Bytes()
}

func (m *mctx) applyShape(e ext) bool {
	switch e.Fam {
	case "weight":
		max := m.cs.MaxBlockWeight()
		want := map[string]uint64{"max-1": max - 1, "max": max, "max+1": max + 1, "2x-max": 2 * max}[e.X]
		if e.Ver == 1 {
			if m.child >= m.cs.Network.HardforkV2.RequireHeight {
				return false
			}
			m.b.Transactions = append(m.b.Transactions, types.Transaction{ArbitraryData: [][]byte{nil}})
			m.bs.Transactions = append(m.bs.Transactions, consensus.V1TransactionSupplement{})
			m.ver, m.k = 1, len(m.b.Transactions)-1
			w0 := m.blockWeight()
			if want < w0 {
				return false
			}
			m.b.Transactions[m.k].ArbitraryData[0] = make([]byte, want-w0)
		} else {
			if m.b.V2 == nil {
				return false
			}
			m.b.V2.Transactions = append(m.b.V2.Transactions, types.V2Transaction{ArbitraryData: []byte{1}})
			m.ver, m.k = 2, len(m.b.V2.Transactions)-1
			w0 := m.blockWeight()
			if want < w0 {
				return false
			}
			m.b.V2.Transactions[m.k].ArbitraryData = make([]byte, want-w0+1)
		}
		return true
	case "empty":
		if e.Ver == 1 {
			m.b.Transactions = append(m.b.Transactions, types.Transaction{})
			m.bs.Transactions = append(m.bs.Transactions, consensus.V1TransactionSupplement{})
			m.ver, m.k = 1, len(m.b.Transactions)-1
			return true
		}
		if m.b.V2 == nil {
			return false
		}
		m.b.V2.Transactions = append(m.b.V2.Transactions, types.V2Transaction{})
		m.ver, m.k = 2, len(m.b.V2.Transactions)-1
		return true
	case "arb":
		if e.Ver == 1 {
			txn := m.v1()
			if txn == nil {
				m.b.Transactions = append(m.b.Transactions, types.Transaction{})
				m.bs.Transactions = append(m.bs.Transactions, consensus.V1TransactionSupplement{})
				m.ver, m.k = 1, len(m.b.Transactions)-1
				txn = m.v1()
			}
			pre := types.SpecifierFoundation[:]
			a := m.sim.K.Addr("B")
			var item []byte
			switch e.X {
			case "foundation-prefix-only":
				item = append([]byte{}, pre...)
			case "foundation-truncated-31":
				item = foundationUpdate(a, a)[:16+31]
			case "foundation-truncated-63":
				item = foundationUpdate(a, a)[:16+63]
			case "foundation-void":
				item = foundationUpdate(types.VoidAddress, a)
			case "foundation-extra-bytes":
				item = append(foundationUpdate(a, a), 1, 2, 3)
			case "foundation-valid-unsigned":
				item = foundationUpdate(a, a)
			case "empty-item":
				item = []byte{}
			case "1000-empty-items":
				for i := 0; i < 999; i++ {
					txn.ArbitraryData = append(txn.ArbitraryData, nil)
				}
			case "1MB-with-prefix":
				item = append(append([]byte{}, pre...), make([]byte, 1<<20)...)
			default:
				m.unknown = "arb variant " + e.X
				return false
			}
			txn.ArbitraryData = append(txn.ArbitraryData, item)
			return true
		}
		txn := m.v2()
		if txn == nil {
			return false
		}
		if e.T == "NewFoundationAddress" {
			a := types.VoidAddress
			switch e.X {
			case "self":
				a = m.cs.FoundationManagementAddress
			case "present":
				a = m.sim.K.Addr("B")
			}
			txn.NewFoundationAddress = &a
			return true
		}
		switch e.X {
		case "empty":
			txn.ArbitraryData = []byte{}
		case "1MB":
			txn.ArbitraryData = make([]byte, 1<<20)
		case "foundation-prefix-only":
			txn.ArbitraryData = append([]byte{}, types.SpecifierFoundation[:]...)
		default:
			return false
		}
		return true
	case "siafund":
		if e.X == "void" {
			if txn := m.v1(); txn != nil && len(txn.SiafundInputs) > 0 {
				txn.SiafundInputs[0].ClaimAddress = types.VoidAddress
				return true
			}
			if txn := m.v2(); txn != nil && len(txn.SiafundInputs) > 0 {
				txn.SiafundInputs[0].ClaimAddress = types.VoidAddress
				return true
			}
			return false
		}
		v, ok := u64Val(e.X, m.child, 0)
		if !ok {
			return false
		}
		if txn := m.v1(); txn != nil && e.T == "sfo.val" && len(txn.SiafundOutputs) > 0 {
			txn.SiafundOutputs[0].Value = v
			return true
		}
		if txn := m.v2(); txn != nil {
			if e.T == "sfo.val" && len(txn.SiafundOutputs) > 0 {
				txn.SiafundOutputs[0].Value = v
				return true
			}
			if e.T == "sfi.parent.val" && len(txn.SiafundInputs) > 0 {
				txn.SiafundInputs[0].Parent.SiafundOutput.Value = v
				return true
			}
		}
		return false
	case "attestation":
		txn := m.v2()
		if txn == nil {
			return false
		}
		sk := m.sim.K.SK("A")
		a := types.Attestation{PublicKey: sk.PublicKey(), Key: "k", Value: []byte("v")}
		switch e.X {
		case "empty-key":
			a.Key = ""
		case "1MB-value":
			a.Value = make([]byte, 1<<20)
		}
		a.Signature = sk.SignHash(m.cs.AttestationSigHash(a))
		if e.X == "bad-signature" {
			a.Signature[0] ^= 1
		}
		n := 1
		if e.X == "1000-copies" {
			n = 1000
		}
		for i := 0; i < n; i++ {
			txn.Attestations = append(txn.Attestations, a)
		}
		return true
	case "maturity":
		txn := m.v2()
		if txn == nil || len(txn.SiacoinInputs) == 0 {
			return false
		}
		v, ok := u64Val(e.X, m.child, 0)
		if !ok {
			return false
		}
		txn.SiacoinInputs[0].Parent.MaturityHeight = v
		return true
	case "header":
		switch e.T {
		case "Nonce":
			if e.X == "+1" {
				m.b.Nonce++
			} else {
				m.b.Nonce = math.MaxUint64
			}
			m.keepNonce = true
		case "Timestamp":
			switch e.X {
			case "epoch":
				m.b.Timestamp = time.Unix(0, 0)
			case "year-1":
				m.b.Timestamp = time.Time{}
			case "min":
				m.b.Timestamp = time.Unix(math.MinInt64, 0)
			case "max":
				m.b.Timestamp = time.Unix(math.MaxInt64, 999999999)
			case "before-median":
				m.b.Timestamp = chain.GenesisTime.Add(-time.Hour)
			case "far-future":
				m.b.Timestamp = m.b.Timestamp.Add(100 * 365 * 24 * time.Hour)
			default:
				return false
			}
		case "ParentID":
			if e.X == "zero" {
				m.b.ParentID = types.BlockID{}
			} else {
				m.b.ParentID = m.b.ID()
			}
		default:
			return false
		}
		return true
	case "payouts":
		m.keepPayout = true
		if len(m.b.MinerPayouts) == 0 {
			return false
		}
		p0 := m.b.MinerPayouts[0]
		switch e.X {
		case "none":
			m.b.MinerPayouts = nil
		case "two-halves":
			h := p0.Value.Div64(2)
			m.b.MinerPayouts = []types.SiacoinOutput{{Address: p0.Address, Value: h}, {Address: p0.Address, Value: p0.Value.Sub(h)}}
		case "1000-entries":
			if p0.Value.Cmp(types.NewCurrency64(1000)) < 0 {
				return false
			}
			var ps []types.SiacoinOutput
			for i := 0; i < 999; i++ {
				ps = append(ps, types.SiacoinOutput{Address: p0.Address, Value: types.NewCurrency64(1)})
			}
			m.b.MinerPayouts = append(ps, types.SiacoinOutput{Address: p0.Address, Value: p0.Value.Sub(types.NewCurrency64(999))})
		case "zero-value":
			m.b.MinerPayouts[0].Value = types.ZeroCurrency
		case "extra-zero-entry":
			m.b.MinerPayouts = append(m.b.MinerPayouts, types.SiacoinOutput{Address: p0.Address})
		case "void-address":
			m.b.MinerPayouts[0].Address = types.VoidAddress
			m.keepPayout = false
		default:
			return false
		}
		return true
	}
	return false
}

// ---- re-signing and re-sealing ----------------------------------------------------------

func (m *mctx) keyOf(pk types.PublicKey) (types.PrivateKey, bool) {
	sk, ok := m.keys[pk]
	return sk, ok
}

func firstKey(p types.SpendPolicy) (types.PublicKey, bool) {
	switch t := p.Type.(type) {
	case types.PolicyTypePublicKey:
		return types.PublicKey(t), true
	case types.PolicyTypeUnlockConditions:
		for _, k := range t.PublicKeys {
			if k.Algorithm == types.SpecifierEd25519 && len(k.Key) == 32 {
				return types.PublicKey(k.Key), true
			}
		}
	case types.PolicyTypeThreshold:
		for _, s := range t.Of {
			if pk, ok := firstKey(s); ok {
				return pk, true
			}
		}
	}
	return types.PublicKey{}, false
}

// resign signs every transaction of the mutant again with the keys of the harness (where it holds them).
// Signing goes through the sighash functions of core, which are not defined for every input (PartialSigHash
// documents a panic); a failure here leaves the old signatures in place and is never a finding.
func (m *mctx) resign() {
	defer func() { recover() }()
	for ti := range m.b.Transactions {
		txn := &m.b.Transactions[ti]
		ucs := map[types.Hash256]types.UnlockConditions{}
		for _, in := range txn.SiacoinInputs {
			ucs[types.Hash256(in.ParentID)] = in.UnlockConditions
		}
		for _, in := range txn.SiafundInputs {
			ucs[types.Hash256(in.ParentID)] = in.UnlockConditions
		}
		for _, r := range txn.FileContractRevisions {
			ucs[types.Hash256(r.ParentID)] = r.UnlockConditions
		}
		for si := range txn.Signatures {
			sg := &txn.Signatures[si]
			uc, ok := ucs[sg.ParentID]
			if !ok || sg.PublicKeyIndex >= uint64(len(uc.PublicKeys)) {
				continue
			}
			k := uc.PublicKeys[sg.PublicKeyIndex]
			if k.Algorithm != types.SpecifierEd25519 || len(k.Key) != 32 {
				continue
			}
			sk, ok := m.keyOf(types.PublicKey(k.Key))
			if !ok {
				continue
			}
			func() {
				defer func() { recover() }()
				var h types.Hash256
				if sg.CoveredFields.WholeTransaction {
					h = m.cs.WholeSigHash(*txn, sg.ParentID, sg.PublicKeyIndex, sg.Timelock, sg.CoveredFields.Signatures)
				} else {
					h = m.cs.PartialSigHash(*txn, sg.CoveredFields)
				}
				s := sk.SignHash(h)
				sg.Signature = s[:]
			}()
		}
	}
	if m.b.V2 == nil {
		return
	}
	for ti := range m.b.V2.Transactions {
		func() {
			defer func() { recover() }()
			txn := &m.b.V2.Transactions[ti]
			signC := func(fc *types.V2FileContract, rk, hk types.PublicKey) {
				h := m.cs.ContractSigHash(*fc)
				if sk, ok := m.keyOf(rk); ok {
					fc.RenterSignature = sk.SignHash(h)
				}
				if sk, ok := m.keyOf(hk); ok {
					fc.HostSignature = sk.SignHash(h)
				}
			}
			for i := range txn.FileContracts {
				fc := &txn.FileContracts[i]
				signC(fc, fc.RenterPublicKey, fc.HostPublicKey)
			}
			for i := range txn.FileContractRevisions {
				r := &txn.FileContractRevisions[i]
				signC(&r.Revision, r.Parent.V2FileContract.RenterPublicKey, r.Parent.V2FileContract.HostPublicKey)
			}
			for i := range txn.FileContractResolutions {
				r := &txn.FileContractResolutions[i]
				if ren, ok := r.Resolution.(*types.V2FileContractRenewal); ok && ren != nil {
					c := *ren
					signC(&c.NewContract, c.NewContract.RenterPublicKey, c.NewContract.HostPublicKey)
					h := m.cs.RenewalSigHash(c)
					if sk, ok := m.keyOf(r.Parent.V2FileContract.RenterPublicKey); ok {
						c.RenterSignature = sk.SignHash(h)
					}
					if sk, ok := m.keyOf(r.Parent.V2FileContract.HostPublicKey); ok {
						c.HostSignature = sk.SignHash(h)
					}
					r.Resolution = &c
				}
			}
			for i := range txn.Attestations {
				a := &txn.Attestations[i]
				if sk, ok := m.keyOf(a.PublicKey); ok && len(a.Value) < 1<<16 {
					a.Signature = sk.SignHash(m.cs.AttestationSigHash(*a))
				}
			}
			h := m.cs.InputSigHash(*txn)
			for i := range txn.SiacoinInputs {
				sp := &txn.SiacoinInputs[i].SatisfiedPolicy
				if pk, ok := firstKey(sp.Policy); ok && len(sp.Signatures) > 0 {
					if sk, ok := m.keyOf(pk); ok {
						sp.Signatures = append([]types.Signature{sk.SignHash(h)}, sp.Signatures[1:]...)
					}
				}
			}
			for i := range txn.SiafundInputs {
				sp := &txn.SiafundInputs[i].SatisfiedPolicy
				if pk, ok := firstKey(sp.Policy); ok && len(sp.Signatures) > 0 {
					if sk, ok := m.keyOf(pk); ok {
						sp.Signatures = append([]types.Signature{sk.SignHash(h)}, sp.Signatures[1:]...)
					}
				}
			}
		}()
	}
}

// reseal gives the mutant the payout, commitment and nonce its contents call for (unless the entry is about them).
// It uses hashing functions of core on the mutant; if they fail the block stays as it is.
func (m *mctx) reseal() {
	defer func() { recover() }()
	if !m.keepPayout && len(m.b.MinerPayouts) == 1 {
		pay := m.cs.BlockReward()
		for _, t := range m.b.Transactions {
			for _, f := range t.MinerFees {
				pay, _ = pay.AddWithOverflow(f)
			}
		}
		for _, t := range m.b.V2Transactions() {
			pay, _ = pay.AddWithOverflow(t.MinerFee)
		}
		m.b.MinerPayouts[0].Value = pay
	}
	if m.b.V2 != nil && !m.keepCommitment && len(m.b.MinerPayouts) > 0 {
		m.b.V2.Commitment = m.cs.Commitment(m.b.MinerPayouts[0].Address, m.b.Transactions, m.b.V2Transactions())
	}
	if !m.keepNonce {
		for i := 0; i < 1<<16 && m.b.ID().CmpWork(m.cs.PoWTarget()) < 0; i++ {
			m.b.Nonce += m.cs.NonceFactor()
		}
	}
}

// ---- running the entry points --------------------------------------------------------------

// entryPoints of the validation side, in the order they are exercised.
var entryPoints = []string{"ValidateHeader", "ValidateOrphan", "ValidateBlock", "ValidateTransaction", "ValidateV2Transaction", "ValidateTransactionElements", "ApplyBlock", "RevertBlock"}

type ledgerOutcome struct {
	Entry    string
	O        outcome
	Accepted bool
}

// exercise runs every validation entry point on the mutant under recover and the deadline; a block that passes
// ValidateBlock is applied and reverted. It returns the first bad outcome (or none) and what was exercised.
func (m *mctx) exercise(g0 *guard, count func(entry string, accepted bool)) *ledgerOutcome {
	bad := func(entry string, o outcome) *ledgerOutcome { return &ledgerOutcome{Entry: entry, O: o} }
	cur := ""
	g := timedGuard{g0, func(o outcome) {
		if o.Seconds > m.slowSec {
			m.slowSec, m.slowEntry, m.slowStack = o.Seconds, cur, o.SlowStack
			if o.TimedOut {
				m.slowStack = o.Stack
			}
		}
	}}
	cur = "ValidateHeader"
	o := g.run(func() error { return consensus.ValidateHeader(m.cs, m.b.Header()) })
	count("ValidateHeader", !o.Err && !o.bad())
	if o.bad() {
		return bad("ValidateHeader", o)
	}
	cur = "ValidateOrphan"
	o = g.run(func() error { return consensus.ValidateOrphan(m.cs, m.b) })
	count("ValidateOrphan", !o.Err && !o.bad())
	if o.bad() {
		return bad("ValidateOrphan", o)
	}
	// the target transaction alone on a fresh MidState that has seen the transactions before it
	if m.ver != 0 && !m.noDirect {
		var prepErr bool
		ms := consensus.NewMidState(m.cs)
		cur = "(earlier transactions of the block)"
		po := g.run(func() error {
			nv1 := len(m.b.Transactions)
			if m.ver == 1 {
				nv1 = m.k
			}
			for j := 0; j < nv1 && j < len(m.b.Transactions); j++ {
				var ts consensus.V1TransactionSupplement
				if j < len(m.bs.Transactions) {
					ts = m.bs.Transactions[j]
				}
				if consensus.ValidateTransaction(ms, m.b.Transactions[j], ts) != nil {
					prepErr = true
					return nil
				}
				ms.ApplyTransaction(m.b.Transactions[j], ts)
			}
			if m.ver == 2 {
				v2 := m.b.V2Transactions()
				for j := 0; j < m.k && j < len(v2); j++ {
					if consensus.ValidateV2Transaction(ms, v2[j]) != nil {
						prepErr = true
						return nil
					}
					ms.ApplyV2Transaction(v2[j])
				}
			}
			return nil
		})
		if !po.bad() && !prepErr {
			if txn := m.v1(); txn != nil {
				var ts consensus.V1TransactionSupplement
				if p := m.ts(); p != nil {
					ts = *p
				}
				cur = "ValidateTransaction"
				o = g.run(func() error { return consensus.ValidateTransaction(ms, *txn, ts) })
				count("ValidateTransaction", !o.Err && !o.bad())
				if o.bad() {
					return bad("ValidateTransaction", o)
				}
			}
			if txn := m.v2(); txn != nil {
				cur = "ValidateTransactionElements"
				o = g.run(func() error { return m.cs.Elements.ValidateTransactionElements(*txn) })
				count("ValidateTransactionElements", !o.Err && !o.bad())
				if o.bad() {
					return bad("ValidateTransactionElements", o)
				}
				cur = "ValidateV2Transaction"
				o = g.run(func() error { return consensus.ValidateV2Transaction(ms, *txn) })
				count("ValidateV2Transaction", !o.Err && !o.bad())
				if o.bad() {
					return bad("ValidateV2Transaction", o)
				}
			}
		}
	}
	cur = "ValidateBlock"
	o = g.run(func() error { return consensus.ValidateBlock(m.cs, m.b, m.bs) })
	accepted := !o.Err && !o.bad()
	count("ValidateBlock", accepted)
	if o.bad() {
		return bad("ValidateBlock", o)
	}
	if !accepted {
		return nil
	}
	cur = "ApplyBlock"
	o = g.run(func() error { consensus.ApplyBlock(m.cs, m.b, m.bs, time.Time{}); return nil })
	count("ApplyBlock", !o.bad())
	if o.bad() {
		r := bad("ApplyBlock", o)
		r.Accepted = true
		return r
	}
	cur = "RevertBlock"
	o = g.run(func() error { consensus.RevertBlock(m.cs, m.b, m.bs); return nil })
	count("RevertBlock", !o.bad())
	if o.bad() {
		r := bad("RevertBlock", o)
		r.Accepted = true
		return r
	}
	return &ledgerOutcome{Entry: "", Accepted: true}
}

// timedGuard notes how long every guarded call took.
type timedGuard struct {
	g    *guard
	note func(o outcome)
}

func (t timedGuard) run(f func() error) outcome {
	o := t.g.run(f)
	t.note(o)
	return o
}

// ledgerSite: the outermost-but-one function of package consensus on the panic stack names the failing code narrowly.
func ledgerSite(stack string) string {
	site := ""
	for _, ln := range strings.Split(stack, "\n") {
		if strings.HasPrefix(ln, "go.sia.tech/core/consensus.") {
			f := strings.TrimPrefix(ln, "go.sia.tech/core/")
			if i := strings.LastIndex(f, "("); i > 0 {
				f = f[:i]
			}
			site = f
			break // innermost consensus frame
		}
	}
	if site == "" {
		site = panicSite(stack)
	}
	return site
}

func mustJSON(v any) json.RawMessage {
	var b []byte
	func() {
		defer func() {
			if recover() != nil {
				b = nil
			}
		}()
		b, _ = json.Marshal(v)
	}()
	if b == nil {
		b, _ = json.Marshal(fmt.Sprintf("%+v", v))
	}
	if len(b) > 1<<18 {
		b, _ = json.Marshal(string(b[:1<<18]) + "...(truncated)")
	}
	return b
}

func cloneBlock(b types.Block, bs consensus.V1BlockSupplement) (types.Block, consensus.V1BlockSupplement) {
	nb := wb.Clone(reflect.ValueOf(&b)).Interface().(*types.Block)
	nbs := wb.Clone(reflect.ValueOf(&bs)).Interface().(*consensus.V1BlockSupplement)
	return *nb, *nbs
}
